/-
The phase loops of the v2 transaction reconciler over ANY number of proposals: the regenerated trace of one
iteration and of the statements after the loop (`Generated.v2sk_tx_*_loop1_body/_after`, translator
`emitLoops` in v2ctl.go), iterated over the proposal list as Go's `for … range` does, equal the twin's loop
functions (`txValidateLoop`, `txCommitLoop`, `txApplyLoop`, `txAbortLoop`) - by induction on the list.
-/
import OnosVerif.Proofs.V2SkelTx
namespace OnosVerif.V2.Skel
open OnosVerif.Generated
open OnosVerif.V2

/-- Go's `for … range` over the proposals, from the regenerated trace of ONE iteration (`body`) and of
    the statements after the loop (`after`): an iteration whose (projected) trace ends in `.misc "next"`
    hands over to the next proposal - with the loop flag cleared if the iteration assigned `false` to it -,
    any other iteration ends the invocation with its trace; after the last proposal the statements after
    the loop run with the flag as the iterations left it. -/
def iterate (body after : V2G → List Tok) (gOf : Proposal → Bool → V2G) (gEnd : Bool → V2G) (flagName : String) :
    List Proposal → Bool → List Tok
  | [], flag => proj (after (gEnd flag))
  | p :: rest, flag =>
    let tr := proj (body (gOf p flag))
    if tr.getLast? = some (.misc "next") then
      tr.dropLast ++ iterate body after gOf gEnd flagName rest (flag && !(tr.contains (.set flagName "false")))
    else tr

/-- the trace without the assignments to the loop flag -/
def dropFlag (name : String) (l : List Tok) : List Tok := l.filter (· != .set name "false")

theorem body_tx_validate (t : Tx) (p : Proposal) (flag : Bool) :
    proj (v2sk_tx_validate_loop1_body (gTxIterOf t p flag)) =
      match p.validate with
      | .none => effToksTx (.prop (p.target, p.index) p.version .openValidate) ++ [.ret "nil" []]
      | .opened => [.set "allValidated" "false", .misc "next"]
      | .failed => effToksTx (.tx t.index t.version (.validateFailed p.vFailure)) ++ [.ret "nil" []]
      | .done => [.misc "next"] := by
  unfold v2sk_tx_validate_loop1_body
  gTxIterOf_atoms
  rcases ph_cases4 p.validate with hv | hv | hv | hv <;> simp only [hv] <;>
    simp [proj, effToksTx, propUpdToks, txUpdToks, plumbing, phCode]

theorem loop_tx_validate (t : Tx) (ps : List Proposal) (flag : Bool) :
    dropFlag "allValidated" (iterate v2sk_tx_validate_loop1_body v2sk_tx_validate_loop1_after
      (gTxIterOf t) (gTxIterOf t default) "allValidated" ps flag) =
      planTraceTx (txValidateLoop t ps flag) := by
  induction ps generalizing flag with
  | nil =>
    unfold iterate v2sk_tx_validate_loop1_after txValidateLoop
    gTxIterOf_atoms
    cases flag <;> simp [proj, dropFlag, planTraceTx, effToksTx, txUpdToks, plumbing, Plan.nop]
  | cons p rest ih =>
    rw [iterate, body_tx_validate, txValidateLoop]
    rcases ph_cases4 p.validate with hv | hv | hv | hv <;> simp only [hv]
    · simp [dropFlag, planTraceTx, effToksTx, propUpdToks]
    · simpa [dropFlag] using ih false
    · simpa [dropFlag] using ih flag
    · simp [dropFlag, planTraceTx, effToksTx, txUpdToks]

theorem body_tx_commit (t : Tx) (p : Proposal) (flag : Bool) :
    proj (v2sk_tx_commit_loop1_body (gTxIterOf t p flag)) =
      match p.commit with
      | .none => effToksTx (.prop (p.target, p.index) p.version .openCommit) ++ [.ret "nil" []]
      | .opened => [.set "allCommitted" "false", .misc "next"]
      | .failed => [.misc "next"]
      | .done => [.misc "next"] := by
  unfold v2sk_tx_commit_loop1_body
  gTxIterOf_atoms
  rcases ph_cases4 p.commit with hv | hv | hv | hv <;> simp only [hv] <;>
    simp [proj, effToksTx, propUpdToks, txUpdToks, plumbing, phCode]

theorem loop_tx_commit (t : Tx) (ps : List Proposal) (flag : Bool) :
    dropFlag "allCommitted" (iterate v2sk_tx_commit_loop1_body v2sk_tx_commit_loop1_after
      (gTxIterOf t) (gTxIterOf t default) "allCommitted" ps flag) =
      planTraceTx (txCommitLoop t ps flag) := by
  induction ps generalizing flag with
  | nil =>
    unfold iterate v2sk_tx_commit_loop1_after txCommitLoop
    gTxIterOf_atoms
    cases flag <;> simp [proj, dropFlag, planTraceTx, effToksTx, txUpdToks, plumbing, Plan.nop]
  | cons p rest ih =>
    rw [iterate, body_tx_commit, txCommitLoop]
    rcases ph_cases4 p.commit with hv | hv | hv | hv <;> simp only [hv]
    · simp [dropFlag, planTraceTx, effToksTx, propUpdToks]
    · simpa [dropFlag] using ih false
    · simpa [dropFlag] using ih flag
    · simpa [dropFlag] using ih flag

theorem body_tx_apply (t : Tx) (p : Proposal) (flag : Bool) :
    proj (v2sk_tx_apply_loop1_body (gTxIterOf t p flag)) =
      match p.apply with
      | .none => effToksTx (.prop (p.target, p.index) p.version .openApply) ++ [.ret "nil" []]
      | .opened => [.set "allApplied" "false", .misc "next"]
      | .failed => effToksTx (.tx t.index t.version (.applyFailed p.aFailure)) ++ [.ret "nil" []]
      | .done => [.misc "next"] := by
  unfold v2sk_tx_apply_loop1_body
  gTxIterOf_atoms
  rcases ph_cases4 p.apply with hv | hv | hv | hv <;> simp only [hv] <;>
    simp [proj, effToksTx, propUpdToks, txUpdToks, plumbing, phCode]

theorem loop_tx_apply (t : Tx) (ps : List Proposal) (flag : Bool) :
    dropFlag "allApplied" (iterate v2sk_tx_apply_loop1_body v2sk_tx_apply_loop1_after
      (gTxIterOf t) (gTxIterOf t default) "allApplied" ps flag) =
      planTraceTx (txApplyLoop t ps flag) := by
  induction ps generalizing flag with
  | nil =>
    unfold iterate v2sk_tx_apply_loop1_after txApplyLoop
    gTxIterOf_atoms
    cases flag <;> simp [proj, dropFlag, planTraceTx, effToksTx, txUpdToks, plumbing, Plan.nop]
  | cons p rest ih =>
    rw [iterate, body_tx_apply, txApplyLoop]
    rcases ph_cases4 p.apply with hv | hv | hv | hv <;> simp only [hv]
    · simp [dropFlag, planTraceTx, effToksTx, propUpdToks]
    · simpa [dropFlag] using ih false
    · simpa [dropFlag] using ih flag
    · simp [dropFlag, planTraceTx, effToksTx, txUpdToks]

theorem body_tx_abort (t : Tx) (p : Proposal) (flag : Bool) :
    proj (v2sk_tx_abort_loop1_body (gTxIterOf t p flag)) =
      match p.abort with
      | .none => effToksTx (.prop (p.target, p.index) p.version .openAbort) ++ [.ret "nil" []]
      | .opened => [.set "allAborted" "false", .misc "next"]
      | .failed => [.misc "next"]
      | .done => [.misc "next"] := by
  unfold v2sk_tx_abort_loop1_body
  gTxIterOf_atoms
  rcases ph_cases4 p.abort with hv | hv | hv | hv <;> simp only [hv] <;>
    simp [proj, effToksTx, propUpdToks, txUpdToks, plumbing, phCode]

theorem loop_tx_abort (t : Tx) (ps : List Proposal) (flag : Bool) :
    dropFlag "allAborted" (iterate v2sk_tx_abort_loop1_body v2sk_tx_abort_loop1_after
      (gTxIterOf t) (gTxIterOf t default) "allAborted" ps flag) =
      planTraceTx (txAbortLoop t ps flag) := by
  induction ps generalizing flag with
  | nil =>
    unfold iterate v2sk_tx_abort_loop1_after txAbortLoop
    gTxIterOf_atoms
    cases flag <;> simp [proj, dropFlag, planTraceTx, effToksTx, txUpdToks, plumbing, Plan.nop]
  | cons p rest ih =>
    rw [iterate, body_tx_abort, txAbortLoop]
    rcases ph_cases4 p.abort with hv | hv | hv | hv <;> simp only [hv]
    · simp [dropFlag, planTraceTx, effToksTx, propUpdToks]
    · simpa [dropFlag] using ih false
    · simpa [dropFlag] using ih flag
    · simpa [dropFlag] using ih flag

end OnosVerif.V2.Skel
