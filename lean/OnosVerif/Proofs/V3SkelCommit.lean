/-
The twin's `commitChange` and the three dispatch functions (`reconcileTransaction`, `reconcileChange`,
`reconcileRollback`) equal the control skeletons regenerated from
pkg/controller/v3/transaction/controller.go.
-/
import OnosVerif.Proofs.V3SkelApply

namespace OnosVerif.V3.Skel
open OnosVerif.Generated
open OnosVerif.V3

macro "v3k" : tactic => `(tactic| ((try intro _) <;> simp_all [-Nat.not_lt, leIn_iff, Nat.blt_eq, Nat.ble_eq, optPS, proj, proj_append,
  plumbing, outcomeTrace, actToks, retOf, xCommit]))

set_option maxHeartbeats 4000000 in
theorem skel_v3_commitChange (s : Sys) (i : Nat) (t : Tx) (v : View) (verdict : Verdict)
    (hnp : ∀ p, commitChange s i t v verdict ≠ .panic p) :
    proj (v3sk_commitChange (gV3Of i t v.c (getTx s v.c.cIndex).isNone ((getTx s v.c.cIndex).getD default)
        (xCommit (treeFails ((validationValues v.cVals t.values).map (·.2))) verdict))) =
      outcomeTrace i v.c (commitChange s i t v verdict) := by
  revert hnp
  unfold v3sk_commitChange commitChange prevBusyCommit
  gV3Of_atoms
  generalize v.c = c
  generalize htf : treeFails ((validationValues v.cVals t.values).map (·.2)) = tf
  obtain ⟨x, hcc⟩ : ∃ x, t.cc = x := ⟨_, rfl⟩
  simp only [hcc]
  cases x
  · -- PENDING
    by_cases h3 : c.cIndex = c.cTarget
    · simp only [h3]
      by_cases h1 : c.cChange = i - 1 <;> by_cases h2 : c.cTarget = i <;>
        (try simp only [h1, h2, ↓reduceIte, toNat_pending, beq_self_eq_true, bne_self_eq_false, ne_eq,
          not_true_eq_false, not_false_eq_true, Bool.false_eq_true, Nat.lt_irrefl]) <;>
        rcases Option.eq_none_or_eq_some (getTx s c.cTarget) with hp | ⟨p, hp⟩ <;>
        (try simp only [hp, Option.isNone_none, Option.isNone_some, Option.getD_some]) <;>
        (try cases hb : p.cc.leInProgress) <;>
        v3k
    · by_cases h1 : c.cChange = i - 1 <;> by_cases h2 : c.cTarget = i <;>
        (try simp only [h1, h2, h3, ↓reduceIte, toNat_pending, beq_self_eq_true, bne_self_eq_false, ne_eq,
          not_true_eq_false, not_false_eq_true, Bool.false_eq_true]) <;>
        v3k
  · -- IN_PROGRESS
    by_cases h1 : c.cChange = i
    · simp only [h1]; v3k
    · simp only [h1, ↓reduceIte]
      cases tf
      · cases verdict
        · -- valid
          by_cases hv : (v.cVals.isEmpty && !t.values.isEmpty) = true
          · simp only [hv, ↓reduceIte]
            intro h; exact absurd rfl (h _)
          · simp only [hv]; v3k
        · v3k
        · v3k
      · v3k
  · v3k
  · v3k
  · v3k
  · -- FAILED
    by_cases h1 : c.cChange < i <;> simp only [h1, ↓reduceIte] <;> v3k

/-- what a dispatch function returns for the outcome of the chain it ran -/
def resultTrace (o : Outcome) : List Tok :=
  if retErr o then [.ret "controller.Result{}, false, err" []]
  else if retOk o then [.ret "result, true, nil" []]
  else [.ret "controller.Result{}, false, nil" []]

/-- a commit function falls through, returns ok (it wrote something) or returns an error: it has no
    "did nothing and stops" outcome (that is `applyValues`' alone) -/
def commitLike : Outcome → Bool
  | .fall => true
  | .plan p => p.err || !p.acts.isEmpty
  | .panic _ => true

def xChain (first second : Outcome) : SkX :=
  { okFirst := retOk first, errFirst := retErr first, okSecond := retOk second, errSecond := retErr second }

theorem orElse_trace (first second : Outcome) (h : commitLike first = true) (hp : ∀ q, first ≠ .panic q) :
    chainTrace first second = resultTrace (first.orElse second) := by
  cases first with
  | fall => cases second <;> simp [chainTrace, resultTrace, Outcome.orElse, retErr, retOk]
  | panic q => exact absurd rfl (hp q)
  | plan p =>
    simp only [commitLike, Bool.or_eq_true, Bool.not_eq_true', List.isEmpty_eq_false_iff] at h
    rcases h with h | h <;> simp_all [chainTrace, resultTrace, Outcome.orElse, retErr, retOk]

/-- `reconcileChange`: commitChange, then - if that fell through - applyChange -/
theorem skel_v3_change (i : Nat) (t : Tx) (c : Cfg) (pn : Bool) (p : Tx) (first second : Outcome) :
    proj (v3sk_change (gV3Of i t c pn p (xChain first second))) =
      if t.phase = .change then chainTrace first second else [.ret "controller.Result{}, false, nil" []] := by
  unfold v3sk_change
  gV3Of_atoms
  obtain ⟨ph, hph⟩ : ∃ ph, t.phase = ph := ⟨_, rfl⟩
  simp only [hph]
  cases ph <;> cases h1 : retErr first <;> cases h2 : retOk first <;> cases h3 : retErr second <;>
    cases h4 : retOk second <;> simp_all [chainTrace, xChain, proj]

/-- `reconcileRollback`: commitRollback, then applyRollback -/
theorem skel_v3_rollback (i : Nat) (t : Tx) (c : Cfg) (pn : Bool) (p : Tx) (first second : Outcome) :
    proj (v3sk_rollback (gV3Of i t c pn p (xChain first second))) =
      if t.phase = .rollback then chainTrace first second else [.ret "controller.Result{}, false, nil" []] := by
  unfold v3sk_rollback
  gV3Of_atoms
  obtain ⟨ph, hph⟩ : ∃ ph, t.phase = ph := ⟨_, rfl⟩
  simp only [hph]
  cases ph <;> cases h1 : retErr first <;> cases h2 : retOk first <;> cases h3 : retErr second <;>
    cases h4 : retOk second <;> simp_all [chainTrace, xChain, proj]

/-- `reconcileTransaction`: by phase; an error is passed on, ok returns the result (with its re-queue),
    otherwise an empty result -/
theorem skel_v3_dispatch (i : Nat) (t : Tx) (c : Cfg) (pn : Bool) (p : Tx) (o : Outcome) :
    proj (v3sk_dispatch (gV3Of i t c pn p (xChain o .fall))) =
      if retErr o then [.ret "controller.Result{}, err" []]
      else if retOk o then [.ret "result, nil" []]
      else [.ret "controller.Result{}, nil" []] := by
  unfold v3sk_dispatch
  gV3Of_atoms
  obtain ⟨ph, hph⟩ : ∃ ph, t.phase = ph := ⟨_, rfl⟩
  simp only [hph]
  cases ph <;> cases h1 : retErr o <;> cases h2 : retOk o <;> simp_all [xChain, proj]

/-- the twin's dispatch (`planTx`) is the chain the two skeletons describe -/
theorem planTx_chain (s : Sys) (i : Nat) (t : Tx) (verdict : Verdict) (ans : DevAns) (ht : getTx s i = some t) :
    planTx s i verdict ans =
      match t.phase with
      | .change => (commitChange s i t (view s) verdict).orElse (applyChange s i t (view s) ans)
      | .rollback => (commitRollback s i t (view s)).orElse (applyRollback s i t (view s) ans) := by
  simp only [planTx, ht]
  cases t.phase <;> rfl

end OnosVerif.V3.Skel
