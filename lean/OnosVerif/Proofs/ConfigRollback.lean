/- The rollback values captured by validation (`rollbackValues`), and the rollback of a change that
   deletes no path with stored descendants. -/
import OnosVerif.Proofs.ConfigOrder

namespace OnosVerif.Config
open OnosVerif.Path (Str)

/-- the rollback value for a path that did not exist: a tombstone with index 0. -/
def placeholder (p : Str) : PV := { path := p, value := [], deleted := true, index := 0 }

/-- the rollback value captured for the path `p`. -/
def rbEntry (config : VMap) (p : Str) : PV :=
  match VMap.get config p with
  | some cv => cv
  | none => placeholder p

theorem rbEntry_path (config : VMap) (p : Str) : (rbEntry config p).path = p := by
  unfold rbEntry
  cases h : VMap.get config p with
  | some cv => exact get_path config p cv h
  | none => rfl

theorem captureLoop_cons (config : VMap) (c : PV) (rest cand rb : VMap) :
    captureLoop config (c :: rest) cand rb =
      captureLoop config rest (applyChangeToConfig cand c).1
        (match VMap.get config c.path with
          | some cv => (match (applyChangeToConfig cand c).2 with | some dv => rb.set dv | none => rb).set cv
          | none => (match (applyChangeToConfig cand c).2 with | some dv => rb.set dv | none => rb).set
              { path := c.path, value := [], deleted := true, index := 0 }) := rfl

theorem captureLoop_nodup (config : VMap) : ∀ (change cand rb : VMap), NodupP rb →
    NodupP (captureLoop config change cand rb).2
  | [], _, _, h => h
  | c :: rest, cand, rb, h => by
    rw [captureLoop_cons]
    apply captureLoop_nodup config rest
    have h1 : NodupP (match (applyChangeToConfig cand c).2 with | some dv => rb.set dv | none => rb) := by
      cases (applyChangeToConfig cand c).2 with
      | none => exact h
      | some dv => exact nodupP_set _ _ h
    cases VMap.get config c.path with
    | some cv => exact nodupP_set _ _ h1
    | none => exact nodupP_set _ _ h1

/-- no tombstone of the candidate map stands at a `/` above a path still to be captured. -/
def CandOK (cand rest : VMap) : Prop :=
  ∀ c ∈ rest, ∀ t, VMap.get cand t.path = some t → t.deleted = true → slashAbove t.path c.path = false

theorem applyChange_none (cand : VMap) (c : PV)
    (h : ∀ t, VMap.get cand t.path = some t → t.deleted = true → slashAbove t.path c.path = false) :
    applyChangeToConfig cand c = (cand.set c, none) := by
  rw [applyChange_eq]
  cases hd : deletedParent (cand.set c) c.path.length c.path with
  | none => rfl
  | some v =>
    exfalso
    obtain ⟨h1, h2, h3⟩ := deletedParent_spec _ _ _ v hd
    have hne : v.path ≠ c.path := fun e => slashAbove_ne _ _ h3 e.symm
    rw [get_set, if_neg hne] at h2
    rw [h v h2 h1] at h3
    exact absurd h3 (by decide)

/-- what validation captures: for every path of the change the stored entry, or a placeholder. -/
theorem captureLoop_get (config : VMap) : ∀ (change cand rb : VMap), NodupP change →
    (∀ c ∈ change, ∀ c' ∈ change, c'.deleted = true → slashAbove c'.path c.path = false) →
    CandOK cand change → ∀ p,
    VMap.get (captureLoop config change cand rb).2 p =
      match VMap.get change p with
      | some _ => some (rbEntry config p)
      | none => VMap.get rb p
  | [], _, rb, _, _, _, p => by simp [captureLoop, get_nil]
  | c :: rest, cand, rb, hn, h1, hc, p => by
    have hn' := hn
    simp only [NodupP, List.pairwise_cons] at hn'
    have hrest : VMap.get rest c.path = none := (get_none rest c.path).2 (fun e he h => hn'.1 e he h.symm)
    have hnone := applyChange_none cand c (hc c List.mem_cons_self)
    rw [captureLoop_cons, hnone]
    simp only
    have hc' : CandOK (cand.set c) rest := by
      intro c2 hc2 t ht htd
      rw [get_set] at ht
      by_cases htp : t.path = c.path
      · simp only [htp, if_true, Option.some.injEq] at ht
        subst ht
        exact h1 c2 (List.mem_cons_of_mem _ hc2) c List.mem_cons_self htd
      · simp only [htp, if_false] at ht
        exact hc c2 (List.mem_cons_of_mem _ hc2) t ht htd
    have ih := captureLoop_get config rest (cand.set c) (rb.set (rbEntry config c.path)) hn'.2
      (fun a ha b hb => h1 a (List.mem_cons_of_mem _ ha) b (List.mem_cons_of_mem _ hb)) hc' p
    have hrb : (match VMap.get config c.path with
        | some cv => rb.set cv
        | none => rb.set { path := c.path, value := [], deleted := true, index := 0 }) =
        rb.set (rbEntry config c.path) := by
      unfold rbEntry placeholder
      cases VMap.get config c.path <;> rfl
    rw [hrb, ih, get_cons]
    by_cases hp : c.path = p
    · subst hp
      simp only [hrest, if_true, get_set, rbEntry_path]
    · have hp' : ¬ p = c.path := fun h => hp h.symm
      simp only [hp, if_false]
      cases VMap.get rest p with
      | some _ => rfl
      | none => simp only [get_set, rbEntry_path, hp', if_false]

/-- the change can be rolled back: a path of the change that the change deletes, or that was not
    readable before (the rollback will delete it), has no stored path strictly (textually) below it
    and no other path of the change below it. -/
def RollbackSafe (side ch : VMap) : Prop :=
  ∀ c' ∈ ch, (c'.deleted = true ∨ liveAt side c'.path = none) →
    (∀ e ∈ side, strictlyBelow e.path c'.path = false) ∧
    (∀ c ∈ ch, c.path = c'.path ∨ hasPrefix c.path c'.path = false)

theorem slashAbove_strictlyBelow (a q : Str) (h : slashAbove a q = true) : strictlyBelow q a = true :=
  (strictlyBelow_iff _ _).2 ⟨slashAbove_hasPrefix _ _ h, slashAbove_ne _ _ h⟩

theorem eq_of_hasPrefix_not_strict (q p : Str) (h1 : hasPrefix q p = true) (h2 : strictlyBelow q p = false) :
    q = p := by
  simp only [strictlyBelow, h1, Bool.true_and, decide_eq_false_iff_not, ne_eq] at h2
  exact Decidable.not_not.1 h2

section
variable {D U W : List Str} {lo i : Nat} {side ch : VMap}
variable (hinv : Inv D U W lo side) (hcl : CleanStepP D U W ch) (hlo : lo < i) (hst : ∀ c ∈ ch, c.index = i)
include hinv hcl

/-- no change path is strictly below a stored tombstone. -/
theorem change_not_below_tomb (c : PV) (hc : c ∈ ch) (t : PV) (ht : t ∈ side) (htd : t.deleted = true) :
    strictlyBelow c.path t.path = false := by
  obtain ⟨d, hd, hpre⟩ := hinv.tomb t ht htd
  cases hb : strictlyBelow c.path t.path with
  | false => rfl
  | true =>
    have := strictlyBelow_trans _ _ _ hb hpre
    rw [hcl.a c hc d hd] at this
    exact absurd this (by decide)

include hlo hst

theorem rollback_get (p : Str) :
    VMap.get (rollbackValues side ch) p =
      match VMap.get ch p with
      | some _ => some (rbEntry side p)
      | none => none := by
  have hok := stepOK_of_inv D U W lo i side ch hinv hcl hlo hst
  unfold rollbackValues
  rw [captureLoop_get side ch side [] hcl.nodup]
  · cases VMap.get ch p <;> simp [get_nil]
  · intro c hc c' hc' hdel
    cases hb : slashAbove c'.path c.path with
    | false => rfl
    | true =>
      have := slashAbove_strictlyBelow _ _ hb
      rw [hok.noSelf c hc c' hc' hdel] at this
      exact absurd this (by decide)
  · intro c hc t ht htd
    cases hb : slashAbove t.path c.path with
    | false => rfl
    | true =>
      have := slashAbove_strictlyBelow _ _ hb
      rw [change_not_below_tomb hinv hcl c hc t (get_some side _ t ht).1 htd] at this
      exact absurd this (by decide)

theorem rollback_nodup : NodupP (rollbackValues side ch) :=
  captureLoop_nodup side ch side [] (by simp [NodupP])

/-- the entries of the rollback values. -/
theorem rollback_mem (r : PV) (hr : r ∈ rollbackValues side ch) :
    ∃ c ∈ ch, r.path = c.path ∧ r = rbEntry side c.path := by
  have hg := get_of_mem _ r (rollback_nodup hinv hcl hlo hst) hr
  rw [rollback_get hinv hcl hlo hst] at hg
  cases hc : VMap.get ch r.path with
  | none => rw [hc] at hg; simp at hg
  | some c =>
    rw [hc] at hg
    simp only [Option.some.injEq] at hg
    obtain ⟨hcm, hcp⟩ := get_some ch _ c hc
    exact ⟨c, hcm, hcp.symm, by rw [hcp]; exact hg.symm⟩

theorem rollback_paths (q : Str) : q ∈ paths (rollbackValues side ch) ↔ q ∈ paths ch := by
  rw [mem_paths_iff_get, mem_paths_iff_get, rollback_get hinv hcl hlo hst]
  cases VMap.get ch q with
  | some c => simp
  | none => simp

/-- a rollback value that is a tombstone belongs to a path the change deleted or created. -/
theorem rbEntry_deleted (p : Str) (h : (rbEntry side p).deleted = true) : liveAt side p = none := by
  rw [liveAt_eq]
  unfold rbEntry at h
  cases hg : VMap.get side p with
  | none => rfl
  | some cv => rw [hg] at h; simp only at h; simp [liveOpt, h]

theorem liveOpt_rbEntry (p : Str) : liveOpt (some (rbEntry side p)) = liveAt side p := by
  rw [liveAt_eq]
  unfold rbEntry
  cases VMap.get side p with
  | none => simp [liveOpt, placeholder]
  | some cv => rfl

variable (o1 : VMap → VMap) (h1 : IsPerm o1) (hsafe : RollbackSafe side ch)
include h1 hsafe

/-- after the commit, a path of the change holds the change value (or nothing). -/
theorem commit_at_change (c : PV) (hc : c ∈ ch) :
    VMap.get (commitValues i side ch o1) c.path = some c ∨
    VMap.get (commitValues i side ch o1) c.path = none := by
  have hok := stepOK_of_inv D U W lo i side ch hinv hcl hlo hst
  rw [commit_get o1 hok h1 c.path]
  have hupd := upd_get o1 hok h1 c.path
  have hmem := memValues_get o1 hok h1 c.path
  rw [get_of_mem ch c hcl.nodup hc] at hupd
  rw [hupd] at hmem
  simp only at hmem
  have hv : VMap.get (memValues i side ch o1) c.path = some c := by
    rcases hmem with h | ⟨hd, _, q, hq, habove⟩
    · exact h
    · exfalso
      obtain ⟨hs1, hs2⟩ := hsafe c hc (Or.inl hd)
      have hb := slashAbove_strictlyBelow _ _ habove
      rcases hq with hq | hq
      · obtain ⟨e, he⟩ := (mem_paths_iff_get side q).1 hq
        have := hs1 e (get_some side q e he).1
        rw [(get_some side q e he).2, hb] at this
        exact absurd this (by decide)
      · obtain ⟨c2, hc2, hcq⟩ := (mem_paths ch q).1 hq
        rcases hs2 c2 hc2 with h | h
        · rw [hcq] at h; exact slashAbove_ne _ _ habove h
        · rw [hcq, slashAbove_hasPrefix _ _ habove] at h; exact absurd h (by decide)
  rw [hv]
  simp only
  cases hs : VMap.get side c.path with
  | none =>
    simp only [storeAt]
    split
    · exact Or.inl rfl
    · exact Or.inr rfl
  | some e =>
    have := hok.idxFresh c hc e hs
    simp only [storeAt]
    split
    · exact Or.inr rfl
    · simp [this]

/-- the rollback request meets the conditions of the single-commit theorem on the committed state. -/
theorem rollback_stepOK (j : Nat) (hij : i < j) :
    StepOK j (commitValues i side ch o1) (rollbackValues side ch) := by
  have hok := stepOK_of_inv D U W lo i side ch hinv hcl hlo hst
  have hinv' := inv_commit D U W lo i side ch o1 hinv hcl hlo hst h1
  have hrbmem := rollback_mem hinv hcl hlo hst
  -- entries of the committed state
  have hentry : ∀ x ∈ commitValues i side ch o1, x.path ∈ paths side ∨ x ∈ ch := by
    intro x hx
    rcases commit_entry o1 hok h1 x.path x (get_of_mem _ x hinv'.nodup hx) with h | h | ⟨v, hv, hxv, _⟩
    · exact Or.inl ((mem_paths side _).2 ⟨x, h, rfl⟩)
    · exact Or.inr h
    · exact Or.inl ((mem_paths side _).2 ⟨v, hv, by rw [hxv, mark_path]⟩)
  -- a deleted rollback value: its path was deleted or created by the change
  have hrbdel : ∀ r ∈ rollbackValues side ch, r.deleted = true → ∃ c' ∈ ch, r.path = c'.path ∧
      (∀ e ∈ side, strictlyBelow e.path c'.path = false) ∧
      (∀ c ∈ ch, c.path = c'.path ∨ hasPrefix c.path c'.path = false) := by
    intro r hr hrd
    obtain ⟨c', hc', hp, hre⟩ := hrbmem r hr
    rw [hre] at hrd
    obtain ⟨hs1, hs2⟩ := hsafe c' hc' (Or.inr (rbEntry_deleted hinv hcl hlo hst c'.path hrd))
    exact ⟨c', hc', hp, hs1, hs2⟩
  refine ⟨hinv'.nodup, rollback_nodup hinv hcl hlo hst, hinv'.nonempty, ?_, ?_, ?_, ?_, ?_, ?_, ?_, ?_⟩
  · intro r hr
    obtain ⟨c, hc, hp, _⟩ := hrbmem r hr
    rw [hp]; exact hcl.nonempty c hc
  · intro r hr e he
    obtain ⟨c, hc, hp, hre⟩ := hrbmem r hr
    rw [hp] at he
    have hec : e = c := by
      rcases commit_at_change hinv hcl hlo hst o1 h1 hsafe c hc with h | h
      · rw [h] at he; exact (Option.some.inj he).symm
      · rw [h] at he; simp at he
    rw [hec, hst c hc, hre]
    unfold rbEntry
    cases hg : VMap.get side c.path with
    | none => simp only [placeholder]; omega
    | some cv => simp only; have := hinv.idx cv (get_some side _ cv hg).1; omega
  · intro e he
    have := hinv'.idx e he
    omega
  · intro r hr r' hr' hrd
    obtain ⟨c, hc, hp, _⟩ := hrbmem r hr
    obtain ⟨c', hc', hp', _, hs2⟩ := hrbdel r' hr' hrd
    rw [hp, hp']
    rcases hs2 c hc with h | h
    · simp [strictlyBelow, h]
    · simp [strictlyBelow, h]
  · intro r hr hrd q hq hpre
    obtain ⟨c', hc', hp', hs1, hs2⟩ := hrbdel r hr hrd
    rw [hp'] at hpre ⊢
    obtain ⟨x, hx, hxq⟩ := (mem_paths _ q).1 hq
    have hqeq : q = c'.path := by
      rcases hentry x hx with h | h
      · rw [hxq] at h
        obtain ⟨e, he, heq⟩ := (mem_paths side q).1 h
        have := hs1 e he
        rw [heq] at this
        exact eq_of_hasPrefix_not_strict q c'.path hpre this
      · rcases hs2 x h with h2 | h2
        · rw [← hxq]; exact h2
        · rw [hxq, hpre] at h2; exact absurd h2 (by decide)
    rw [hqeq]; exact under_refl _
  · intro t ht htd e he hed
    obtain ⟨d, hd, hpre⟩ := hinv'.tomb t ht htd
    cases hb : strictlyBelow e.path t.path with
    | false => rfl
    | true =>
      have := strictlyBelow_trans _ _ _ hb hpre
      rw [hinv'.liveD e.path e.value (liveAt_of_mem _ hinv'.nodup e he hed) d hd] at this
      exact absurd this (by decide)
  · intro r hr _ t ht htd
    obtain ⟨c, hc, hp, _⟩ := hrbmem r hr
    obtain ⟨d, hd, hpre⟩ := hinv'.tomb t ht htd
    rw [hp]
    cases hb : strictlyBelow c.path t.path with
    | false => rfl
    | true =>
      exfalso
      have hbd := strictlyBelow_trans _ _ _ hb hpre
      rcases List.mem_append.1 hd with hd | hd
      · rw [hcl.a c hc d hd] at hbd; exact absurd hbd (by decide)
      · obtain ⟨c2, hc2, hdel, hpd⟩ := (mem_deletes ch d).1 hd
        rw [← hpd, hok.noSelf c hc c2 hc2 hdel] at hbd
        exact absurd hbd (by decide)
  · intro e he hed q hq
    have hw := hinv'.liveW e.path e.value (liveAt_of_mem _ hinv'.nodup e he hed)
    cases hb : slashAbove e.path q with
    | false => rfl
    | true =>
      exfalso
      have hqu : q ∈ U ++ paths ch := by
        rcases hq with hq | hq
        · obtain ⟨x, hx, hxq⟩ := (mem_paths _ q).1 hq
          rw [← hxq]; exact hinv'.used x hx
        · exact List.mem_append_right _ ((rollback_paths hinv hcl hlo hst q).1 hq)
      exact slashAbove_ne _ _ hb (hinv'.leafU e.path hw q hqu (slashAbove_under _ _ hb))

variable (o2 : VMap → VMap) (h2 : IsPerm o2)
include h2

/-- rolling back a change that deletes no path with stored descendants restores what Get returned. -/
theorem rollback_restores (j : Nat) (hij : i < j) :
    live (commitValues j (commitValues i side ch o1) (rollbackValues side ch) o2) = live side := by
  have hok := stepOK_of_inv D U W lo i side ch hinv hcl hlo hst
  have hok2 := rollback_stepOK hinv hcl hlo hst o1 h1 hsafe j hij
  have hinv' := inv_commit D U W lo i side ch o1 hinv hcl hlo hst h1
  apply live_ext (commitValues j (commitValues i side ch o1) (rollbackValues side ch) o2) side
    (commit_nodup _ _ _ _ hinv'.nodup) hinv.nodup
  intro p
  rw [commit_liveAt o2 hok2 h2 p]
  unfold specAt
  rw [rollback_get hinv hcl hlo hst p]
  cases hc : VMap.get ch p with
  | some c =>
    simp only
    have := liveOpt_rbEntry hinv hcl hlo hst p
    simp only [liveOpt] at this
    exact this
  | none =>
    simp only
    rw [commit_liveAt o1 hok h1 p]
    unfold specAt
    rw [hc]
    simp only
    cases hl : liveAt side p with
    | none =>
      cases (Spec.deletes (rollbackValues side ch)).any (fun d => under p d) <;>
        cases (Spec.deletes ch).any (fun d => under p d) <;> simp
    | some v =>
      -- p is stored and readable: no delete of the change, nor of the rollback, reaches it
      have hstored : ∃ e ∈ side, e.path = p := by
        rw [liveAt_eq] at hl
        cases hg : VMap.get side p with
        | none => rw [hg] at hl; simp [liveOpt] at hl
        | some e => exact ⟨e, (get_some side p e hg).1, (get_some side p e hg).2⟩
      obtain ⟨e, he, hep⟩ := hstored
      have hfree : ∀ c' ∈ ch, (c'.deleted = true ∨ liveAt side c'.path = none) → under p c'.path = false := by
        intro c' hc' hcond
        cases hu : under p c'.path with
        | false => rfl
        | true =>
          exfalso
          have hne : p ≠ c'.path := by
            intro hpe
            have := (get_none ch p).1 hc c' hc'
            exact this hpe.symm
          have hb : strictlyBelow p c'.path = true := (strictlyBelow_iff _ _).2 ⟨under_hasPrefix _ _ hu, hne⟩
          have := (hsafe c' hc' hcond).1 e he
          rw [hep, hb] at this
          exact absurd this (by decide)
      have hB : (Spec.deletes ch).any (fun d => under p d) = false := by
        rw [List.any_eq_false]
        intro d hd
        obtain ⟨c', hc', hdel, hpd⟩ := (mem_deletes ch d).1 hd
        rw [← hpd, hfree c' hc' (Or.inl hdel)]; decide
      have hA : (Spec.deletes (rollbackValues side ch)).any (fun d => under p d) = false := by
        rw [List.any_eq_false]
        intro d hd
        obtain ⟨r, hr, hrd, hpd⟩ := (mem_deletes _ d).1 hd
        obtain ⟨c', hc', hp', hre⟩ := rollback_mem hinv hcl hlo hst r hr
        rw [hre] at hrd
        rw [← hpd, hp', hfree c' hc' (Or.inr (rbEntry_deleted hinv hcl hlo hst c'.path hrd))]; decide
      simp [hA, hB]

end

theorem readable_false (side : VMap) (hn : NodupP side) (p : Str) (h : liveAt side p = none) :
    readable side p = false := by
  simp only [readable, List.any_eq_false, Bool.and_eq_true, decide_eq_true_eq, Bool.not_eq_true', not_and,
    Bool.not_eq_false]
  intro e he hep
  rw [liveAt_eq, ← hep, get_of_mem side e hn he] at h
  simp only [liveOpt] at h
  by_cases hd : e.deleted = true
  · exact hd
  · simp [hd] at h

theorem rollbackSafe_spec (side ch : VMap) (hn : NodupP side) (h : rollbackSafe side ch = true) :
    RollbackSafe side ch := by
  simp only [rollbackSafe, List.all_eq_true, Bool.or_eq_true, Bool.not_eq_true', Bool.and_eq_true,
    decide_eq_true_eq, Bool.or_eq_false_iff, Bool.not_eq_false] at h
  intro c' hc' hcond
  rcases h c' hc' with ⟨h1, h2⟩ | ⟨h1, h2⟩
  · exfalso
    rcases hcond with hd | hl
    · rw [h1] at hd; exact absurd hd (by decide)
    · rw [readable_false side hn c'.path hl] at h2; exact absurd h2 (by decide)
  · exact ⟨h1, fun c hc => h2 c hc⟩

end OnosVerif.Config
