/- Helper lemmas for OnosVerif/Props/C03G.lean. -/
import OnosVerif.NBGet.Model

namespace OnosVerif.NBGet
open OnosVerif.Path

/-- the regenerated guard is `len(prefixPath) > len(cv.Path)`. -/
theorem fact_protoSkipGuard :
    Generated.protoSkipGuard = ("cmp>", "len(prefixPath)", "len(cv.Path)") := by decide

theorem guardSkips_eq (a b : Str) : guardSkips a b = some (decide (a.length > b.length)) := by
  simp [guardSkips, fact_protoSkipGuard]

/-! ### the PROTO loop -/

theorem protoUpdates_ok (pp : Str) : ∀ (l : List Stored),
    (∀ t ∈ l, ∃ p, reparse t.path = .ok p) →
    ∃ us, protoUpdates pp l = .ok us ∧
      (∀ s ∈ l, ¬(pp.length > s.path.length) → ∀ p, reparse s.path = .ok p → Upd.value p s.value ∈ us) ∧
      (∀ p v, Upd.value p v ∈ us → ∃ s ∈ l, ¬(pp.length > s.path.length) ∧ reparse s.path = .ok p ∧ v = s.value) ∧
      (∀ u ∈ us, ∃ p v, u = Upd.value p v) := by
  intro l
  induction l with
  | nil => intro _; exact ⟨[], rfl, by simp, by simp, by simp⟩
  | cons cv rest ih =>
    intro h
    obtain ⟨us, hus, h1, h2, h3⟩ := ih (fun t ht => h t (List.mem_cons_of_mem _ ht))
    obtain ⟨pc, hpc⟩ := h cv List.mem_cons_self
    by_cases hg : pp.length > cv.path.length
    · refine ⟨us, ?_, ?_, ?_, h3⟩
      · simp [protoUpdates, guardSkips_eq, hg, hus]
      · intro s hs hns p hp
        cases List.mem_cons.mp hs with
        | inl heq => subst heq; exact absurd hg hns
        | inr hr => exact h1 s hr hns p hp
      · intro p v hv
        obtain ⟨s, hs, r⟩ := h2 p v hv
        exact ⟨s, List.mem_cons_of_mem _ hs, r⟩
    · refine ⟨.value pc cv.value :: us, ?_, ?_, ?_, ?_⟩
      · simp [protoUpdates, guardSkips_eq, hg, hus, hpc]
      · intro s hs hns p hp
        cases List.mem_cons.mp hs with
        | inl heq =>
          subst heq
          rw [hpc] at hp
          cases hp
          exact List.mem_cons_self
        | inr hr => exact List.mem_cons_of_mem _ (h1 s hr hns p hp)
      · intro p v hv
        cases List.mem_cons.mp hv with
        | inl heq =>
          cases heq
          exact ⟨cv, List.mem_cons_self, hg, hpc, rfl⟩
        | inr hr =>
          obtain ⟨s, hs, r⟩ := h2 p v hr
          exact ⟨s, List.mem_cons_of_mem _ hs, r⟩
      · intro u hu
        cases List.mem_cons.mp hu with
        | inl heq => exact ⟨pc, cv.value, heq⟩
        | inr hr => exact h3 u hr

theorem mem_selected (q : Str) (vals : List Stored) (s : Stored) :
    s ∈ selected q vals ↔ s ∈ vals ∧ wmatch q s.path = true ∧ s.deleted = false := by
  simp [selected, List.mem_filter]

/-! ### literal queries: the expression is the text -/

/-- no `*` and no `...` in the text. -/
def literalText : Str → Bool
  | [] => true
  | '.' :: '.' :: '.' :: _ => false
  | c :: r => c ≠ '*' && literalText r

theorem wmatch_literal_prefix : ∀ (q r : Str), literalText q = true → wmatch q (q ++ r) = true := by
  intro q
  induction q using literalText.induct with
  | case1 => intro r _; simp [wmatch]
  | case2 _ => intro r h; simp [literalText] at h
  | case3 c rest hnd ih =>
    intro r h
    have h' : c ≠ '*' ∧ literalText rest = true := by
      rw [literalText] at h
      · simpa using h
      · exact hnd
    have hstar : c ≠ '*' := h'.1
    rw [List.cons_append, wmatch]
    · simp [ih r h'.2]
    · exact hnd
    · exact fun hq => hstar hq

end OnosVerif.NBGet
