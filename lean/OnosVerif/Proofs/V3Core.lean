/-
Basic lemmas about the protocol core (`OnosVerif/V3/Core.lean`): lookup/update of transactions,
shape of `cAct`, and the generic preservation principles for per-transaction invariants.
-/
import OnosVerif.V3.Core

namespace OnosVerif.V3

theorem Core.tx_zero (k : Core) : k.tx 0 = none := by simp [Core.tx]

theorem Core.tx_pos {k : Core} {i : Nat} {t : TxC} (h : k.tx i = some t) : 1 ≤ i := by
  unfold Core.tx at h
  split at h
  · simp at h
  · omega

theorem Core.tx_le {k : Core} {i : Nat} {t : TxC} (h : k.tx i = some t) : i ≤ k.txs.length := by
  unfold Core.tx at h
  split at h
  · simp at h
  · have := List.getElem?_eq_some_iff.mp h
    obtain ⟨hlt, _⟩ := this
    omega

theorem Core.tx_some_of_le {k : Core} {i : Nat} (h1 : 1 ≤ i) (h2 : i ≤ k.txs.length) : ∃ t, k.tx i = some t := by
  unfold Core.tx
  have : ¬ i = 0 := by omega
  simp only [this, if_false]
  have hlt : i - 1 < k.txs.length := by omega
  exact ⟨k.txs[i - 1], List.getElem?_eq_getElem hlt⟩

theorem Core.tx_setTx {k : Core} {i : Nat} {t t' : TxC} (h : k.tx i = some t) (j : Nat) :
    (k.setTx i t').tx j = if j = i then some t' else k.tx j := by
  have hi := Core.tx_pos h
  have hle := Core.tx_le h
  unfold Core.setTx Core.tx
  have h0 : ¬ i = 0 := by omega
  simp only [h0, if_false]
  by_cases hj0 : j = 0
  · subst hj0
    have : ¬ 0 = i := by omega
    simp [this]
  · simp only [hj0, if_false]
    by_cases hji : j = i
    · subst hji
      simp only [if_true]
      rw [List.getElem?_set_self]
      omega
    · simp only [hji, if_false]
      rw [List.getElem?_set_ne]
      omega

@[simp] theorem Core.setTx_cur (k : Core) (i : Nat) (t : TxC) : (k.setTx i t).cur = k.cur := by
  unfold Core.setTx; split <;> rfl

@[simp] theorem Core.setTx_hist (k : Core) (i : Nat) (t : TxC) : (k.setTx i t).hist = k.hist := by
  unfold Core.setTx; split <;> rfl

@[simp] theorem Core.setTx_length (k : Core) (i : Nat) (t : TxC) : (k.setTx i t).txs.length = k.txs.length := by
  unfold Core.setTx; split <;> simp

@[simp] theorem Core.addEvent_cur (k : Core) (a : Act) : (k.addEvent a).cur = k.cur := by
  unfold Core.addEvent; split <;> rfl

@[simp] theorem Core.addEvent_txs (k : Core) (a : Act) : (k.addEvent a).txs = k.txs := by
  unfold Core.addEvent; split <;> rfl

@[simp] theorem Core.addEvent_tx (k : Core) (a : Act) (j : Nat) : (k.addEvent a).tx j = k.tx j := by
  unfold Core.tx; simp

theorem Core.addEvent_hist (k : Core) (a : Act) : (k.addEvent a).hist = k.hist ++ (actEvent a).toList := by
  unfold Core.addEvent; split <;> simp_all

/-- a configuration write on the core -/
theorem cAct_cfg {k : Core} {a : Act} (h : a.isCfg = true) :
    cAct k a = ({ k with cur := cActCur k.cur a } : Core).addEvent a := by
  simp [cAct, h]

/-- a transaction write on the core -/
theorem cAct_tx {k : Core} {a : Act} {t : TxC} (h : a.isCfg = false) (ht : k.tx a.txIndex = some t) :
    cAct k a = (k.setTx a.txIndex (cActTx t a)).addEvent a := by
  simp [cAct, h, ht]

end OnosVerif.V3

namespace OnosVerif.V3

/-! ## The views of `cAct` -/

theorem cAct_cur (k : Core) (a : Act) : (cAct k a).cur = if a.isCfg then cActCur k.cur a else k.cur := by
  unfold cAct
  split
  · simp
  · split <;> simp

theorem cAct_len (k : Core) (a : Act) : (cAct k a).txs.length = k.txs.length := by
  unfold cAct
  split
  · simp
  · split <;> simp

theorem cAct_tx_view (k : Core) (a : Act) (j : Nat) :
    (cAct k a).tx j = if a.isCfg = false ∧ j = a.txIndex then (k.tx j).map (fun t => cActTx t a) else k.tx j := by
  unfold cAct
  by_cases hc : a.isCfg = true
  · simp [hc, Core.tx]
  · have hc' : a.isCfg = false := by simpa using hc
    simp only [hc', Bool.false_eq_true, if_false, true_and]
    cases ht : k.tx a.txIndex with
    | none =>
      simp only
      by_cases hj : j = a.txIndex
      · subst hj; simp [ht]
      · simp [hj]
    | some t =>
      simp only [Core.addEvent_tx]
      rw [Core.tx_setTx ht]
      by_cases hj : j = a.txIndex
      · subst hj; simp [ht]
      · simp [hj]

theorem cAct_hist_cfg (k : Core) (a : Act) (h : a.isCfg = true) :
    (cAct k a).hist = k.hist ++ (actEvent a).toList := by
  rw [cAct_cfg h, Core.addEvent_hist]

theorem cAct_hist_tx (k : Core) (a : Act) (t : TxC) (h : a.isCfg = false) (ht : k.tx a.txIndex = some t) :
    (cAct k a).hist = k.hist ++ (actEvent a).toList := by
  rw [cAct_tx h ht, Core.addEvent_hist]; simp

/-- every act of an enabled branch that writes a transaction writes transaction `i` -/
theorem Enabled.txIndex {k : Core} {i : Nat} {t : TxC} {acts : List Act} (he : Enabled k i t acts) :
    ∀ a ∈ acts, a.isCfg = false → a.txIndex = i := by
  cases he <;> simp [Act.isCfg, Act.txIndex]

/-- an enabled branch writes the transaction at most once and the configuration at most once -/
theorem Enabled.shape {k : Core} {i : Nat} {t : TxC} {acts : List Act} (he : Enabled k i t acts) :
    (∃ a, acts = [a]) ∨ (∃ a b, acts = [a, b] ∧ a.isCfg ≠ b.isCfg) := by
  cases he <;>
    first
    | exact Or.inl ⟨_, rfl⟩
    | exact Or.inr ⟨_, _, rfl, by simp [Act.isCfg]⟩

end OnosVerif.V3

namespace OnosVerif.V3

/-! ## Net effect of the writes of an enabled branch -/

theorem cActTx_cfg (t : TxC) (a : Act) (h : a.isCfg = true) : cActTx t a = t := by
  cases a <;> simp_all [Act.isCfg, cActTx]

theorem cActCur_tx (c : Cur) (a : Act) (h : a.isCfg = false) : cActCur c a = c := by
  cases a <;> simp_all [Act.isCfg, cActCur]

/-- the state after a write of an enabled branch, uniformly for both kinds of write -/
theorem cAct_net {k : Core} {i : Nat} {t : TxC} {a : Act} (ht : k.tx i = some t)
    (hi : a.isCfg = false → a.txIndex = i) :
    (∀ j, (cAct k a).tx j = if j = i then some (cActTx t a) else k.tx j) ∧
    (cAct k a).cur = cActCur k.cur a ∧
    (cAct k a).hist = k.hist ++ (actEvent a).toList ∧
    (cAct k a).txs.length = k.txs.length := by
  by_cases hc : a.isCfg = true
  · refine ⟨?_, ?_, cAct_hist_cfg k a hc, cAct_len k a⟩
    · intro j
      rw [cAct_tx_view]
      simp only [hc, Bool.true_eq_false, false_and, if_false]
      by_cases hj : j = i
      · subst hj; simp [ht, cActTx_cfg t a hc]
      · simp [hj]
    · rw [cAct_cur]; simp [hc]
  · have hc' : a.isCfg = false := by simpa using hc
    have hidx := hi hc'
    refine ⟨?_, ?_, ?_, cAct_len k a⟩
    · intro j
      rw [cAct_tx_view]
      simp only [hc', true_and, hidx]
      by_cases hj : j = i
      · subst hj; simp [ht]
      · simp [hj]
    · rw [cAct_cur]; simp [hc', cActCur_tx k.cur a hc']
    · exact cAct_hist_tx k a t hc' (by rw [hidx]; exact ht)

/-- one write of an enabled branch -/
theorem Enabled.net1 {k : Core} {i : Nat} {t : TxC} {a : Act} {rest : List Act}
    (he : Enabled k i t (a :: rest)) (ht : k.tx i = some t) :
    (∀ j, (cAct k a).tx j = if j = i then some (cActTx t a) else k.tx j) ∧
    (cAct k a).cur = cActCur k.cur a ∧
    (cAct k a).hist = k.hist ++ (actEvent a).toList ∧
    (cAct k a).txs.length = k.txs.length :=
  cAct_net ht (he.txIndex a (by simp))

/-- both writes of a two-write branch -/
theorem Enabled.net2 {k : Core} {i : Nat} {t : TxC} {a b : Act}
    (he : Enabled k i t [a, b]) (ht : k.tx i = some t) :
    (∀ j, (cAct (cAct k a) b).tx j = if j = i then some (cActTx (cActTx t a) b) else k.tx j) ∧
    (cAct (cAct k a) b).cur = cActCur (cActCur k.cur a) b ∧
    (cAct (cAct k a) b).hist = k.hist ++ (actEvent a).toList ++ (actEvent b).toList ∧
    (cAct (cAct k a) b).txs.length = k.txs.length := by
  obtain ⟨h1, h2, h3, h4⟩ := he.net1 ht
  have ht' : (cAct k a).tx i = some (cActTx t a) := by rw [h1]; simp
  obtain ⟨g1, g2, g3, g4⟩ := cAct_net (k := cAct k a) (a := b) ht' (he.txIndex b (by simp))
  refine ⟨?_, ?_, ?_, ?_⟩
  · intro j
    rw [g1, h1]
    by_cases hj : j = i <;> simp [hj]
  · rw [g2, h2]
  · rw [g3, h3]
  · rw [g4, h4]

end OnosVerif.V3
