/-
Layer 4 of the invariants of the protocol core: the ghost history (`HInv`), and with it the TLA+
`Order` predicate and commit-before-apply as invariants of `CReach`.
-/
import OnosVerif.Proofs.V3Hist
import OnosVerif.Proofs.V3Inv5
namespace OnosVerif.V3

structure HInv (k : Core) : Prop where
  ha : ∀ e ∈ k.hist, e.phase = .change → e.stage = .commit → e.status = .complete → e.index ≤ k.cur.cChange
  h2 : ∀ j t, k.tx j = some t → (t.cc = .complete ∨ (t.cc = .inProgress ∧ j = k.cur.cChange)) →
    (⟨.change, .commit, .complete, j⟩ : Event) ∈ k.hist
  hb : ∀ e ∈ k.hist, e.phase = .change → e.stage = .apply → e.status = .complete →
    ∃ t, k.tx e.index = some t ∧ t.cc = .complete ∧ t.cord ≤ k.cur.aOrdinal
  hr : ∀ e ∈ k.hist, e.phase = .rollback → e.status = .complete →
    k.cur.cTarget < k.cur.cChange ∧ e.index = k.cur.cChange
  hrc : ∀ j t, k.tx j = some t →
    (t.rc = some .complete ∨ (t.rc = some .inProgress ∧ k.cur.cRevision ≠ k.cur.cChange ∧ j = k.cur.cChange)) →
    (⟨.rollback, .commit, .complete, j⟩ : Event) ∈ k.hist

set_option linter.unusedSimpArgs false

set_option maxHeartbeats 4000000 in
theorem HInv.first_ha {k : Core} {i : Nat} {t : TxC} {a : Act} {rest : List Act} (hc : CInv k) (ho : OInv k)
    (hh : HInv k) (ht : k.tx i = some t) (he : Enabled k i t (a :: rest)) :
    ∀ e ∈ k.hist ++ (actEvent a).toList, e.phase = .change → e.stage = .commit → e.status = .complete →
      e.index ≤ (cActCur k.cur a).cChange := by
  obtain ⟨g1, g2, g3, g4⟩ := hc.cgl
  obtain ⟨x1,x2,x3,x4,x5,x6,x7,x8,x9,x10,x11,x12,x13,x14,x15,x16⟩ := hc.ctx ht
  obtain ⟨w1,w2,w3,w4,w5,w6,w7,w8⟩ := x1
  obtain ⟨o1,o2,o3,o4,o5,o6,o7,o8,o9,o10,o11,o12,o13,o14,o15⟩ := ho.one i t ht
  obtain ⟨og⟩ := ho.gl
  obtain ⟨a1,a2,a3,a4,a5⟩ := hh
  have hctx := fun j tj (hj : k.tx j = some tj) => hc.ctx hj
  have hp64 := @pred64_of_pos
  cases he <;> simp only [actEvent, cActCur, cActTx, Option.toList, List.append_nil, List.mem_append, List.mem_singleton, List.mem_cons, List.mem_nil_iff, or_false] <;> grind

set_option maxHeartbeats 4000000 in
theorem HInv.first_h2 {k : Core} {i : Nat} {t : TxC} {a : Act} {rest : List Act} (hc : CInv k) (ho : OInv k)
    (hh : HInv k) (ht : k.tx i = some t) (he : Enabled k i t (a :: rest)) :
    ∀ j tj, (if j = i then some (cActTx t a) else k.tx j) = some tj → (tj.cc = .complete ∨ (tj.cc = .inProgress ∧ j = (cActCur k.cur a).cChange)) →
      (⟨.change, .commit, .complete, j⟩ : Event) ∈ k.hist ++ (actEvent a).toList := by
  obtain ⟨g1, g2, g3, g4⟩ := hc.cgl
  obtain ⟨x1,x2,x3,x4,x5,x6,x7,x8,x9,x10,x11,x12,x13,x14,x15,x16⟩ := hc.ctx ht
  obtain ⟨w1,w2,w3,w4,w5,w6,w7,w8⟩ := x1
  obtain ⟨o1,o2,o3,o4,o5,o6,o7,o8,o9,o10,o11,o12,o13,o14,o15⟩ := ho.one i t ht
  obtain ⟨og⟩ := ho.gl
  obtain ⟨a1,a2,a3,a4,a5⟩ := hh
  have hctx := fun j tj (hj : k.tx j = some tj) => hc.ctx hj
  have hp64 := @pred64_of_pos
  cases he <;> simp only [actEvent, cActCur, cActTx, Option.toList, List.append_nil, List.mem_append, List.mem_singleton, List.mem_cons, List.mem_nil_iff, or_false] <;> grind

set_option maxHeartbeats 4000000 in
theorem HInv.first_hb {k : Core} {i : Nat} {t : TxC} {a : Act} {rest : List Act} (hc : CInv k) (ho : OInv k)
    (hh : HInv k) (ht : k.tx i = some t) (he : Enabled k i t (a :: rest)) :
    ∀ e ∈ k.hist ++ (actEvent a).toList, e.phase = .change → e.stage = .apply → e.status = .complete →
      ∃ tj, (if e.index = i then some (cActTx t a) else k.tx e.index) = some tj ∧ tj.cc = .complete ∧ tj.cord ≤ (cActCur k.cur a).aOrdinal := by
  obtain ⟨g1, g2, g3, g4⟩ := hc.cgl
  obtain ⟨x1,x2,x3,x4,x5,x6,x7,x8,x9,x10,x11,x12,x13,x14,x15,x16⟩ := hc.ctx ht
  obtain ⟨w1,w2,w3,w4,w5,w6,w7,w8⟩ := x1
  obtain ⟨o1,o2,o3,o4,o5,o6,o7,o8,o9,o10,o11,o12,o13,o14,o15⟩ := ho.one i t ht
  obtain ⟨og⟩ := ho.gl
  obtain ⟨a1,a2,a3,a4,a5⟩ := hh
  have hctx := fun j tj (hj : k.tx j = some tj) => hc.ctx hj
  have hp64 := @pred64_of_pos
  cases he <;> simp only [actEvent, cActCur, cActTx, Option.toList, List.append_nil, List.mem_append, List.mem_singleton, List.mem_cons, List.mem_nil_iff, or_false] <;> grind

set_option maxHeartbeats 4000000 in
theorem HInv.first_hr {k : Core} {i : Nat} {t : TxC} {a : Act} {rest : List Act} (hc : CInv k) (ho : OInv k)
    (hh : HInv k) (ht : k.tx i = some t) (he : Enabled k i t (a :: rest)) :
    ∀ e ∈ k.hist ++ (actEvent a).toList, e.phase = .rollback → e.status = .complete →
      (cActCur k.cur a).cTarget < (cActCur k.cur a).cChange ∧ e.index = (cActCur k.cur a).cChange := by
  obtain ⟨g1, g2, g3, g4⟩ := hc.cgl
  obtain ⟨x1,x2,x3,x4,x5,x6,x7,x8,x9,x10,x11,x12,x13,x14,x15,x16⟩ := hc.ctx ht
  obtain ⟨w1,w2,w3,w4,w5,w6,w7,w8⟩ := x1
  obtain ⟨o1,o2,o3,o4,o5,o6,o7,o8,o9,o10,o11,o12,o13,o14,o15⟩ := ho.one i t ht
  obtain ⟨og⟩ := ho.gl
  obtain ⟨a1,a2,a3,a4,a5⟩ := hh
  have hctx := fun j tj (hj : k.tx j = some tj) => hc.ctx hj
  have hp64 := @pred64_of_pos
  cases he <;> simp only [actEvent, cActCur, cActTx, Option.toList, List.append_nil, List.mem_append, List.mem_singleton, List.mem_cons, List.mem_nil_iff, or_false] <;> grind

set_option maxHeartbeats 4000000 in
theorem HInv.first_hrc {k : Core} {i : Nat} {t : TxC} {a : Act} {rest : List Act} (hc : CInv k) (ho : OInv k)
    (hh : HInv k) (ht : k.tx i = some t) (he : Enabled k i t (a :: rest)) :
    ∀ j tj, (if j = i then some (cActTx t a) else k.tx j) = some tj →
      (tj.rc = some .complete ∨ (tj.rc = some .inProgress ∧ (cActCur k.cur a).cRevision ≠ (cActCur k.cur a).cChange ∧ j = (cActCur k.cur a).cChange)) →
      (⟨.rollback, .commit, .complete, j⟩ : Event) ∈ k.hist ++ (actEvent a).toList := by
  obtain ⟨g1, g2, g3, g4⟩ := hc.cgl
  obtain ⟨x1,x2,x3,x4,x5,x6,x7,x8,x9,x10,x11,x12,x13,x14,x15,x16⟩ := hc.ctx ht
  obtain ⟨w1,w2,w3,w4,w5,w6,w7,w8⟩ := x1
  obtain ⟨o1,o2,o3,o4,o5,o6,o7,o8,o9,o10,o11,o12,o13,o14,o15⟩ := ho.one i t ht
  obtain ⟨og⟩ := ho.gl
  obtain ⟨a1,a2,a3,a4,a5⟩ := hh
  have hctx := fun j tj (hj : k.tx j = some tj) => hc.ctx hj
  have hp64 := @pred64_of_pos
  cases he <;> simp only [actEvent, cActCur, cActTx, Option.toList, List.append_nil, List.mem_append, List.mem_singleton, List.mem_cons, List.mem_nil_iff, or_false] <;> grind

set_option maxHeartbeats 4000000 in
theorem HInv.both_ha {k : Core} {i : Nat} {t : TxC} {a b : Act} (hc : CInv k) (ho : OInv k)
    (hh : HInv k) (ht : k.tx i = some t) (he : Enabled k i t [a, b]) :
    ∀ e ∈ k.hist ++ ((actEvent a).toList ++ (actEvent b).toList), e.phase = .change → e.stage = .commit → e.status = .complete →
      e.index ≤ (cActCur (cActCur k.cur a) b).cChange := by
  obtain ⟨g1, g2, g3, g4⟩ := hc.cgl
  obtain ⟨x1,x2,x3,x4,x5,x6,x7,x8,x9,x10,x11,x12,x13,x14,x15,x16⟩ := hc.ctx ht
  obtain ⟨w1,w2,w3,w4,w5,w6,w7,w8⟩ := x1
  obtain ⟨o1,o2,o3,o4,o5,o6,o7,o8,o9,o10,o11,o12,o13,o14,o15⟩ := ho.one i t ht
  obtain ⟨og⟩ := ho.gl
  obtain ⟨a1,a2,a3,a4,a5⟩ := hh
  have hctx := fun j tj (hj : k.tx j = some tj) => hc.ctx hj
  have hp64 := @pred64_of_pos
  cases he <;> simp only [actEvent, cActCur, cActTx, Option.toList, List.append_nil, List.mem_append, List.mem_singleton, List.mem_cons, List.mem_nil_iff, or_false] <;> grind

set_option maxHeartbeats 4000000 in
theorem HInv.both_h2 {k : Core} {i : Nat} {t : TxC} {a b : Act} (hc : CInv k) (ho : OInv k)
    (hh : HInv k) (ht : k.tx i = some t) (he : Enabled k i t [a, b]) :
    ∀ j tj, (if j = i then some (cActTx (cActTx t a) b) else k.tx j) = some tj → (tj.cc = .complete ∨ (tj.cc = .inProgress ∧ j = (cActCur (cActCur k.cur a) b).cChange)) →
      (⟨.change, .commit, .complete, j⟩ : Event) ∈ k.hist ++ ((actEvent a).toList ++ (actEvent b).toList) := by
  obtain ⟨g1, g2, g3, g4⟩ := hc.cgl
  obtain ⟨x1,x2,x3,x4,x5,x6,x7,x8,x9,x10,x11,x12,x13,x14,x15,x16⟩ := hc.ctx ht
  obtain ⟨w1,w2,w3,w4,w5,w6,w7,w8⟩ := x1
  obtain ⟨o1,o2,o3,o4,o5,o6,o7,o8,o9,o10,o11,o12,o13,o14,o15⟩ := ho.one i t ht
  obtain ⟨og⟩ := ho.gl
  obtain ⟨a1,a2,a3,a4,a5⟩ := hh
  have hctx := fun j tj (hj : k.tx j = some tj) => hc.ctx hj
  have hp64 := @pred64_of_pos
  cases he <;> simp only [actEvent, cActCur, cActTx, Option.toList, List.append_nil, List.mem_append, List.mem_singleton, List.mem_cons, List.mem_nil_iff, or_false] <;> grind

set_option maxHeartbeats 4000000 in
theorem HInv.both_hb {k : Core} {i : Nat} {t : TxC} {a b : Act} (hc : CInv k) (ho : OInv k)
    (hh : HInv k) (ht : k.tx i = some t) (he : Enabled k i t [a, b]) :
    ∀ e ∈ k.hist ++ ((actEvent a).toList ++ (actEvent b).toList), e.phase = .change → e.stage = .apply → e.status = .complete →
      ∃ tj, (if e.index = i then some (cActTx (cActTx t a) b) else k.tx e.index) = some tj ∧ tj.cc = .complete ∧ tj.cord ≤ (cActCur (cActCur k.cur a) b).aOrdinal := by
  obtain ⟨g1, g2, g3, g4⟩ := hc.cgl
  obtain ⟨x1,x2,x3,x4,x5,x6,x7,x8,x9,x10,x11,x12,x13,x14,x15,x16⟩ := hc.ctx ht
  obtain ⟨w1,w2,w3,w4,w5,w6,w7,w8⟩ := x1
  obtain ⟨o1,o2,o3,o4,o5,o6,o7,o8,o9,o10,o11,o12,o13,o14,o15⟩ := ho.one i t ht
  obtain ⟨og⟩ := ho.gl
  obtain ⟨a1,a2,a3,a4,a5⟩ := hh
  have hctx := fun j tj (hj : k.tx j = some tj) => hc.ctx hj
  have hp64 := @pred64_of_pos
  cases he <;> simp only [actEvent, cActCur, cActTx, Option.toList, List.append_nil, List.mem_append, List.mem_singleton, List.mem_cons, List.mem_nil_iff, or_false] <;> grind

set_option maxHeartbeats 4000000 in
theorem HInv.both_hr {k : Core} {i : Nat} {t : TxC} {a b : Act} (hc : CInv k) (ho : OInv k)
    (hh : HInv k) (ht : k.tx i = some t) (he : Enabled k i t [a, b]) :
    ∀ e ∈ k.hist ++ ((actEvent a).toList ++ (actEvent b).toList), e.phase = .rollback → e.status = .complete →
      (cActCur (cActCur k.cur a) b).cTarget < (cActCur (cActCur k.cur a) b).cChange ∧ e.index = (cActCur (cActCur k.cur a) b).cChange := by
  obtain ⟨g1, g2, g3, g4⟩ := hc.cgl
  obtain ⟨x1,x2,x3,x4,x5,x6,x7,x8,x9,x10,x11,x12,x13,x14,x15,x16⟩ := hc.ctx ht
  obtain ⟨w1,w2,w3,w4,w5,w6,w7,w8⟩ := x1
  obtain ⟨o1,o2,o3,o4,o5,o6,o7,o8,o9,o10,o11,o12,o13,o14,o15⟩ := ho.one i t ht
  obtain ⟨og⟩ := ho.gl
  obtain ⟨a1,a2,a3,a4,a5⟩ := hh
  have hctx := fun j tj (hj : k.tx j = some tj) => hc.ctx hj
  have hp64 := @pred64_of_pos
  cases he <;> simp only [actEvent, cActCur, cActTx, Option.toList, List.append_nil, List.mem_append, List.mem_singleton, List.mem_cons, List.mem_nil_iff, or_false] <;> grind

set_option maxHeartbeats 4000000 in
theorem HInv.both_hrc {k : Core} {i : Nat} {t : TxC} {a b : Act} (hc : CInv k) (ho : OInv k)
    (hh : HInv k) (ht : k.tx i = some t) (he : Enabled k i t [a, b]) :
    ∀ j tj, (if j = i then some (cActTx (cActTx t a) b) else k.tx j) = some tj →
      (tj.rc = some .complete ∨ (tj.rc = some .inProgress ∧ (cActCur (cActCur k.cur a) b).cRevision ≠ (cActCur (cActCur k.cur a) b).cChange ∧ j = (cActCur (cActCur k.cur a) b).cChange)) →
      (⟨.rollback, .commit, .complete, j⟩ : Event) ∈ k.hist ++ ((actEvent a).toList ++ (actEvent b).toList) := by
  obtain ⟨g1, g2, g3, g4⟩ := hc.cgl
  obtain ⟨x1,x2,x3,x4,x5,x6,x7,x8,x9,x10,x11,x12,x13,x14,x15,x16⟩ := hc.ctx ht
  obtain ⟨w1,w2,w3,w4,w5,w6,w7,w8⟩ := x1
  obtain ⟨o1,o2,o3,o4,o5,o6,o7,o8,o9,o10,o11,o12,o13,o14,o15⟩ := ho.one i t ht
  obtain ⟨og⟩ := ho.gl
  obtain ⟨a1,a2,a3,a4,a5⟩ := hh
  have hctx := fun j tj (hj : k.tx j = some tj) => hc.ctx hj
  have hp64 := @pred64_of_pos
  cases he <;> simp only [actEvent, cActCur, cActTx, Option.toList, List.append_nil, List.mem_append, List.mem_singleton, List.mem_cons, List.mem_nil_iff, or_false] <;> grind


/-- the ordering argument of the apply sequencer: every change whose apply completed has a smaller
    index than the change whose turn it is now -/
theorem applied_lt {k : Core} {i : Nat} {t : TxC} (ho : OInv k) (hh : HInv k) (ht : k.tx i = some t)
    (hcc : t.cc = .complete) (hO : k.cur.aOrdinal + 1 = t.cord) :
    ∀ e' ∈ k.hist, e'.phase = .change → e'.stage = .apply → e'.status = .complete → e'.index < i := by
  intro e' hm h1 h2 h3
  obtain ⟨tj, htj, hcj, hle⟩ := hh.hb e' hm h1 h2 h3
  by_cases hne : e'.index = i
  · rw [hne, ht] at htj
    cases htj
    omega
  · have p1 := (ho.two e'.index tj i t htj ht hne).mono
    have p2 := (ho.two i t e'.index tj ht htj (Ne.symm hne)).mono
    by_cases hlt : e'.index < i
    · exact hlt
    · have : i < e'.index := by omega
      have := p2 this hcc hcj
      omega

set_option maxHeartbeats 4000000 in
theorem HInv.first_order {k : Core} {i : Nat} {t : TxC} {a : Act} {rest : List Act} (hc : CInv k) (ho : OInv k)
    (hh : HInv k) (hO : OrderHist k.hist) (ht : k.tx i = some t) (he : Enabled k i t (a :: rest)) :
    OrderHist (k.hist ++ (actEvent a).toList) := by
  have hal := applied_lt ho hh ht
  obtain ⟨g1, g2, g3, g4⟩ := hc.cgl
  obtain ⟨x1,x2,x3,x4,x5,x6,x7,x8,x9,x10,x11,x12,x13,x14,x15,x16⟩ := hc.ctx ht
  obtain ⟨w1,w2,w3,w4,w5,w6,w7,w8⟩ := x1
  obtain ⟨o1,o2,o3,o4,o5,o6,o7,o8,o9,o10,o11,o12,o13,o14,o15⟩ := ho.one i t ht
  obtain ⟨a1,a2,a3,a4,a5⟩ := hh
  have hctx := fun j tj (hj : k.tx j = some tj) => hc.ctx hj
  cases he <;> simp only [actEvent, Option.toList, List.append_nil] <;>
    first
    | exact hO
    | (refine hO.append_other ?_; simp; done)
    | (apply hO.append_change; grind)
    | (apply hO.append_rollback <;> grind)

set_option maxHeartbeats 4000000 in
theorem HInv.both_order {k : Core} {i : Nat} {t : TxC} {a b : Act} (hc : CInv k) (ho : OInv k)
    (hh : HInv k) (hO : OrderHist k.hist) (ht : k.tx i = some t) (he : Enabled k i t [a, b]) :
    OrderHist (k.hist ++ ((actEvent a).toList ++ (actEvent b).toList)) := by
  have hal := applied_lt ho hh ht
  obtain ⟨g1, g2, g3, g4⟩ := hc.cgl
  obtain ⟨x1,x2,x3,x4,x5,x6,x7,x8,x9,x10,x11,x12,x13,x14,x15,x16⟩ := hc.ctx ht
  obtain ⟨w1,w2,w3,w4,w5,w6,w7,w8⟩ := x1
  obtain ⟨o1,o2,o3,o4,o5,o6,o7,o8,o9,o10,o11,o12,o13,o14,o15⟩ := ho.one i t ht
  obtain ⟨a1,a2,a3,a4,a5⟩ := hh
  have hctx := fun j tj (hj : k.tx j = some tj) => hc.ctx hj
  cases he <;> simp only [actEvent, Option.toList, List.append_nil, List.nil_append] <;>
    first
    | exact hO
    | (refine hO.append_other ?_; simp; done)
    | (apply hO.append_change; grind)
    | (apply hO.append_rollback <;> grind)

set_option maxHeartbeats 4000000 in
theorem HInv.first_cba {k : Core} {i : Nat} {t : TxC} {a : Act} {rest : List Act} (hc : CInv k) (ho : OInv k)
    (hh : HInv k) (hC : CommitBeforeApplyHist k.hist) (ht : k.tx i = some t) (he : Enabled k i t (a :: rest)) :
    CommitBeforeApplyHist (k.hist ++ (actEvent a).toList) := by
  obtain ⟨x1,x2,x3,x4,x5,x6,x7,x8,x9,x10,x11,x12,x13,x14,x15,x16⟩ := hc.ctx ht
  obtain ⟨w1,w2,w3,w4,w5,w6,w7,w8⟩ := x1
  obtain ⟨a1,a2,a3,a4,a5⟩ := hh
  have h2i := a2 i t ht
  have h5i := a5 i t ht
  cases he <;> simp only [actEvent, Option.toList, List.append_nil] <;>
    first
    | exact hC
    | (apply hC.append; grind)

set_option maxHeartbeats 4000000 in
theorem HInv.both_cba {k : Core} {i : Nat} {t : TxC} {a b : Act} (hc : CInv k) (ho : OInv k)
    (hh : HInv k) (hC : CommitBeforeApplyHist k.hist) (ht : k.tx i = some t) (he : Enabled k i t [a, b]) :
    CommitBeforeApplyHist (k.hist ++ ((actEvent a).toList ++ (actEvent b).toList)) := by
  obtain ⟨x1,x2,x3,x4,x5,x6,x7,x8,x9,x10,x11,x12,x13,x14,x15,x16⟩ := hc.ctx ht
  obtain ⟨w1,w2,w3,w4,w5,w6,w7,w8⟩ := x1
  obtain ⟨a1,a2,a3,a4,a5⟩ := hh
  have h2i := a2 i t ht
  have h5i := a5 i t ht
  cases he <;> simp only [actEvent, Option.toList, List.append_nil, List.nil_append] <;>
    first
    | exact hC
    | (apply hC.append; grind)


theorem HInv.init : HInv {} := by
  constructor <;> simp [Core.tx]

theorem HInv.first {k : Core} {i : Nat} {t : TxC} {a : Act} {rest : List Act} (hc : CInv k) (ho : OInv k)
    (hh : HInv k) (ht : k.tx i = some t) (he : Enabled k i t (a :: rest)) : HInv (cAct k a) := by
  have hu := he.upd1 ht
  constructor
  · intro e hm
    rw [hu.hist] at hm
    rw [hu.cur]
    exact HInv.first_ha hc ho hh ht he e hm
  · intro j tj hj
    rw [hu.tx] at hj
    rw [hu.cur, hu.hist]
    exact HInv.first_h2 hc ho hh ht he j tj hj
  · intro e hm h1 h2 h3
    rw [hu.hist] at hm
    obtain ⟨tj, b1, b2, b3⟩ := HInv.first_hb hc ho hh ht he e hm h1 h2 h3
    exact ⟨tj, by rw [hu.tx]; exact b1, b2, by rw [hu.cur]; exact b3⟩
  · intro e hm
    rw [hu.hist] at hm
    rw [hu.cur]
    exact HInv.first_hr hc ho hh ht he e hm
  · intro j tj hj
    rw [hu.tx] at hj
    rw [hu.cur, hu.hist]
    exact HInv.first_hrc hc ho hh ht he j tj hj

theorem HInv.both {k : Core} {i : Nat} {t : TxC} {a b : Act} (hc : CInv k) (ho : OInv k)
    (hh : HInv k) (ht : k.tx i = some t) (he : Enabled k i t [a, b]) : HInv (cAct (cAct k a) b) := by
  have hu := he.upd2 ht
  constructor
  · intro e hm
    rw [hu.hist] at hm
    rw [hu.cur]
    exact HInv.both_ha hc ho hh ht he e hm
  · intro j tj hj
    rw [hu.tx] at hj
    rw [hu.cur, hu.hist]
    exact HInv.both_h2 hc ho hh ht he j tj hj
  · intro e hm h1 h2 h3
    rw [hu.hist] at hm
    obtain ⟨tj, b1, b2, b3⟩ := HInv.both_hb hc ho hh ht he e hm h1 h2 h3
    exact ⟨tj, by rw [hu.tx]; exact b1, b2, by rw [hu.cur]; exact b3⟩
  · intro e hm
    rw [hu.hist] at hm
    rw [hu.cur]
    exact HInv.both_hr hc ho hh ht he e hm
  · intro j tj hj
    rw [hu.tx] at hj
    rw [hu.cur, hu.hist]
    exact HInv.both_hrc hc ho hh ht he j tj hj

theorem HInv.append {k : Core} (hh : HInv k) : HInv { k with txs := k.txs ++ [freshTx] } := by
  have htx := Core.tx_append k freshTx
  have hle : ∀ j t, k.tx j = some t → j ≠ k.txs.length + 1 := by
    intro j t hj e
    have := Core.tx_le hj
    omega
  constructor
  · exact hh.ha
  · intro j tj hj hcc
    rw [htx] at hj
    by_cases e : j = k.txs.length + 1
    · simp only [e, if_true, Option.some.injEq] at hj
      subst hj
      simp [freshTx] at hcc
    · simp only [e, if_false] at hj
      exact hh.h2 j tj hj hcc
  · intro e hm h1 h2 h3
    obtain ⟨tj, b1, b2, b3⟩ := hh.hb e hm h1 h2 h3
    refine ⟨tj, ?_, b2, b3⟩
    rw [htx]
    simp [hle _ _ b1, b1]
  · exact hh.hr
  · intro j tj hj hrc
    rw [htx] at hj
    by_cases e : j = k.txs.length + 1
    · simp only [e, if_true, Option.some.injEq] at hj
      subst hj
      simp [freshTx] at hrc
    · simp only [e, if_false] at hj
      exact hh.hrc j tj hj hrc

theorem HInv.rollback {k : Core} {i : Nat} {t : TxC} (hc : CInv k) (hh : HInv k) (ht : k.tx i = some t)
    (hcr : cCanRollback t = true) : HInv (k.setTx i (cRollback t)) := by
  have hu : Upd k i (cRollback t) k.cur [] (k.setTx i (cRollback t)) := Upd.ofSetTx ht
  have hwf := (hc.wf i t ht)
  simp only [cCanRollback, Bool.and_eq_true, decide_eq_true_eq] at hcr
  obtain ⟨hp, hcc⟩ := hcr
  have hrc0 : t.rc = none := by
    have := hwf.phase
    by_cases h : t.rc = none
    · exact h
    · have := this.mpr h
      rw [hp] at this
      cases this
  constructor
  · intro e hm
    rw [hu.hist, List.append_nil] at hm
    rw [hu.cur]
    exact hh.ha e hm
  · intro j tj hj hcc'
    rw [hu.hist, List.append_nil]
    rw [hu.cur] at hcc'
    rcases hu.tx_cases hj with ⟨rfl, rfl⟩ | ⟨_, hj'⟩
    · exact hh.h2 _ t ht (by simpa [cRollback] using hcc')
    · exact hh.h2 j tj hj' hcc'
  · intro e hm h1 h2 h3
    rw [hu.hist, List.append_nil] at hm
    obtain ⟨tj, b1, b2, b3⟩ := hh.hb e hm h1 h2 h3
    rw [hu.cur]
    by_cases he : e.index = i
    · rw [he, ht] at b1
      cases b1
      exact ⟨cRollback t, by rw [hu.tx]; simp [he], b2, b3⟩
    · exact ⟨tj, by rw [hu.tx]; simp [he, b1], b2, b3⟩
  · intro e hm
    rw [hu.hist, List.append_nil] at hm
    rw [hu.cur]
    exact hh.hr e hm
  · intro j tj hj hrc
    rw [hu.hist, List.append_nil]
    rw [hu.cur] at hrc
    rcases hu.tx_cases hj with ⟨rfl, rfl⟩ | ⟨_, hj'⟩
    · simp [cRollback] at hrc
    · exact hh.hrc j tj hj' hrc

/-- all invariant layers, with the TLA+ `Order` history predicate and commit-before-apply -/
structure FullInv (k : Core) : Prop where
  inv : Inv k
  f : FInv k
  h : HInv k
  order : OrderHist k.hist
  cba : CommitBeforeApplyHist k.hist

theorem FullInv.step {k k' : Core} (h : FullInv k) (hs : CStep k k') : FullInv k' := by
  cases hs with
  | append => exact ⟨h.inv.step (.append k), FInv.append h.inv.c h.f, h.h.append, h.order, h.cba⟩
  | rollback i t ht hc =>
    refine ⟨h.inv.step (.rollback k i t ht hc), FInv.rollback h.inv.c h.inv.o h.f ht hc, HInv.rollback h.inv.c h.h ht hc, ?_, ?_⟩
    · simpa using h.order
    · simpa using h.cba
  | first i t a rest ht he =>
    have hu := he.upd1 ht
    refine ⟨h.inv.step (.first k i t a rest ht he), FInv.first h.inv.c h.inv.o h.f ht he, HInv.first h.inv.c h.inv.o h.h ht he, ?_, ?_⟩
    · rw [hu.hist]; exact HInv.first_order h.inv.c h.inv.o h.h h.order ht he
    · rw [hu.hist]; exact HInv.first_cba h.inv.c h.inv.o h.h h.cba ht he
  | both i t a b ht he =>
    have hu := he.upd2 ht
    refine ⟨h.inv.step (.both k i t a b ht he), FInv.both h.inv.c h.inv.o h.f ht he, HInv.both h.inv.c h.inv.o h.h ht he, ?_, ?_⟩
    · rw [hu.hist]; exact HInv.both_order h.inv.c h.inv.o h.h h.order ht he
    · rw [hu.hist]; exact HInv.both_cba h.inv.c h.inv.o h.h h.cba ht he

theorem FullInv.reach {k : Core} (h : CReach k) : FullInv k := by
  induction h with
  | init => exact ⟨⟨CInv.init, OInv.init⟩, FInv.init, HInv.init, OrderHist.nil, CommitBeforeApplyHist.nil⟩
  | step k k' _ hs ih => exact ih.step hs

end OnosVerif.V3
