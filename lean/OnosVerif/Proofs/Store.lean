/- Helper lemmas for the C15 theorems about the compare-and-set stores (OnosVerif/Props/C15.lean). -/
import OnosVerif.Store.Model

namespace OnosVerif.Store

/-! ### association lists -/

theorem alGet_alSet_same {β : Type} (l : List (Key × β)) (k : Key) (v : β) :
    alGet (alSet l k v) k = some v := by
  unfold alSet alGet
  by_cases h : l.any (fun kv => kv.1 == k) = true
  · simp only [h, if_true]
    induction l with
    | nil => simp at h
    | cons a rest ih =>
      simp only [List.map_cons, List.find?_cons]
      by_cases ha : (a.1 == k) = true
      · simp [ha]
      · simp only [ha]
        simp only [List.any_cons, ha, Bool.false_or] at h
        simpa [ha] using ih h
  · have h' : l.any (fun kv => kv.1 == k) = false := by
      cases hb : l.any (fun kv => kv.1 == k) with
      | false => rfl
      | true => exact absurd hb h
    simp only [h', Bool.false_eq_true, if_false]
    have hn : ∀ a ∈ l, (a.1 == k) = false := by
      intro a ha
      cases hb : (a.1 == k) with
      | false => rfl
      | true => exact absurd (List.any_eq_true.mpr ⟨a, ha, hb⟩) h
    rw [List.find?_append]
    have : l.find? (fun kv => kv.1 == k) = none := List.find?_eq_none.mpr (fun a ha => by simp [hn a ha])
    simp [this]

theorem alGet_alSet_other {β : Type} (l : List (Key × β)) (k k' : Key) (v : β) (hk : k' ≠ k) :
    alGet (alSet l k v) k' = alGet l k' := by
  unfold alSet alGet
  have hkk : (k == k') = false := by
    cases h : (k == k') with
    | false => rfl
    | true => exact absurd (by simpa using h : k = k').symm hk
  by_cases h : l.any (fun kv => kv.1 == k) = true
  · simp only [h, if_true]
    induction l with
    | nil => rfl
    | cons a rest ih =>
      simp only [List.map_cons, List.find?_cons]
      by_cases ha : (a.1 == k) = true
      · have hak : a.1 = k := by simpa using ha
        have : (a.1 == k') = false := by rw [hak]; exact hkk
        simp only [ha, if_true, hkk, this]
        by_cases hr : rest.any (fun kv => kv.1 == k) = true
        · exact ih hr
        · have hn : ∀ b ∈ rest, (b.1 == k) = false := by
            intro b hb
            cases hbk : (b.1 == k) with
            | false => rfl
            | true => exact absurd (List.any_eq_true.mpr ⟨b, hb, hbk⟩) hr
          have : rest.map (fun kv => if (kv.1 == k) = true then (k, v) else kv) = rest := by
            conv => rhs; rw [← List.map_id rest]
            apply List.map_congr_left
            intro b hb; simp [hn b hb]
          rw [this]
      · simp only [ha]
        simp only [List.any_cons, ha, Bool.false_or] at h
        have := ih h
        simp only [Bool.false_eq_true, if_false]
        cases hak' : (a.1 == k') with
        | true => rfl
        | false => exact this
  · have h' : l.any (fun kv => kv.1 == k) = false := by
      cases hb : l.any (fun kv => kv.1 == k) with
      | false => rfl
      | true => exact absurd hb h
    simp only [h', Bool.false_eq_true, if_false]
    rw [List.find?_append]
    simp [hkk]

/-! ### the primitive: how versions, indexes and the clock move -/

namespace Prim
variable {α : Type}

theorem find_some_key {p : Prim α} {k : Key} {e : PEntry α} (h : p.find k = some e) : e.key = k := by
  unfold find at h
  have := List.find?_some h
  simpa using this

theorem find_replace_same (es : List (PEntry α)) (e old : PEntry α) (k : Key)
    (hf : es.find? (fun x => x.key == k) = some old) (he : e.key = k) :
    (replace es e).find? (fun x => x.key == k) = some e := by
  unfold replace
  induction es with
  | nil => simp at hf
  | cons a rest ih =>
    simp only [List.map_cons, List.find?_cons]
    by_cases ha : (a.key == k) = true
    · have hae : (a.key == e.key) = true := by rw [he]; exact ha
      have hek : (e.key == k) = true := by rw [he]; simp
      simp only [hae, if_true, hek]
    · have hne : (a.key == e.key) = false := by rw [he]; simpa using ha
      simp only [hne, Bool.false_eq_true, if_false, ha]
      simp only [List.find?_cons, ha] at hf
      exact ih hf

theorem find_replace_other (es : List (PEntry α)) (e : PEntry α) (k' : Key) (hk : e.key ≠ k') :
    (replace es e).find? (fun x => x.key == k') = es.find? (fun x => x.key == k') := by
  unfold replace
  induction es with
  | nil => rfl
  | cons a rest ih =>
    simp only [List.map_cons, List.find?_cons]
    by_cases ha : (a.key == e.key) = true
    · have hae : a.key = e.key := by simpa using ha
      have h1 : (e.key == k') = false := by simpa using hk
      have h2 : (a.key == k') = false := by rw [hae]; exact h1
      simp only [ha, if_true, h1, h2]
      exact ih
    · simp only [ha, Bool.false_eq_true, if_false]
      cases (a.key == k') with
      | true => rfl
      | false => exact ih

/-- `p ⊑ p'`: the clock did not go back, and every key either kept its version or received one
    above the old clock (and within the new one).  Every primitive command is such a move. -/
def Le (p p' : Prim α) : Prop :=
  p.clock ≤ p'.clock ∧ ∀ k, p'.version k = p.version k ∨ (p.clock < p'.version k ∧ p'.version k ≤ p'.clock)

theorem Le.refl (p : Prim α) : Le p p := ⟨Nat.le_refl _, fun _ => Or.inl rfl⟩

theorem Le.trans {p q r : Prim α} (h1 : Le p q) (h2 : Le q r) : Le p r := by
  refine ⟨Nat.le_trans h1.1 h2.1, fun k => ?_⟩
  rcases h2.2 k with h | ⟨ha, hb⟩
  · rcases h1.2 k with h' | ⟨hc, hd⟩
    · exact Or.inl (h.trans h')
    · exact Or.inr ⟨by rw [h]; exact hc, by rw [h]; exact Nat.le_trans hd h2.1⟩
  · exact Or.inr ⟨Nat.lt_of_le_of_lt h1.1 ha, hb⟩

theorem tick_le (p : Prim α) : Le p p.tick := ⟨Nat.le_succ _, fun _ => Or.inl rfl⟩

theorem version_tick (p : Prim α) (k : Key) : p.tick.version k = p.version k := rfl

/-- versions never exceed the clock. -/
def Wf (p : Prim α) : Prop := ∀ k, p.version k ≤ p.clock

theorem Wf.of_le {p p' : Prim α} (hw : Wf p) (h : Le p p') : Wf p' := by
  intro k
  rcases h.2 k with h' | ⟨_, hb⟩
  · rw [h']; exact Nat.le_trans (hw k) h.1
  · exact hb

theorem wf_empty : Wf ({} : Prim α) := fun _ => Nat.zero_le _

theorem version_le_of_le {p p' : Prim α} (hw : Wf p) (h : Le p p') (k : Key) : p.version k ≤ p'.version k := by
  rcases h.2 k with h' | ⟨ha, _⟩
  · rw [h']; exact Nat.le_refl _
  · exact Nat.le_of_lt (Nat.lt_of_le_of_lt (hw k) ha)

/-- `update`: the full case analysis in one statement. -/
theorem update_spec (p : Prim α) (k : Key) (v : α) (ifv : Nat) :
    (∃ err, p.update k v ifv = (p.tick, .error err) ∧
        (err = .notFound ∧ p.find k = none ∨
         err = .conflict ∧ ∃ old, p.find k = some old ∧ ifv ≠ 0 ∧ old.version ≠ ifv)) ∨
    (∃ old p' e, p.update k v ifv = (p', .ok e) ∧ p.find k = some old ∧ (ifv = 0 ∨ old.version = ifv) ∧
        e = { old with version := p.clock + 1, value := v } ∧ p'.clock = p.clock + 1 ∧ p'.lastIndex = p.lastIndex ∧
        p'.entries = replace p.entries e ∧ p'.log = p.log ++ [(k, p.clock + 1)]) := by
  unfold update
  cases hf : p.find k with
  | none => exact Or.inl ⟨.notFound, rfl, Or.inl ⟨rfl, rfl⟩⟩
  | some old =>
    by_cases hc : ifv ≠ 0 ∧ old.version ≠ ifv
    · dsimp only
      rw [if_pos hc]
      exact Or.inl ⟨.conflict, rfl, Or.inr ⟨rfl, old, rfl, hc.1, hc.2⟩⟩
    · dsimp only
      rw [if_neg hc]
      refine Or.inr ⟨old, _, _, rfl, rfl, ?_, rfl, rfl, rfl, rfl, rfl⟩
      by_cases h0 : ifv = 0
      · exact Or.inl h0
      · right
        by_cases hv : old.version = ifv
        · exact hv
        · exact absurd ⟨h0, hv⟩ hc

theorem update_le (p : Prim α) (k : Key) (v : α) (ifv : Nat) : Le p (p.update k v ifv).1 := by
  rcases update_spec p k v ifv with ⟨err, h, _⟩ | ⟨old, p', e, h, hf, _, he, hc, _, hes, _⟩
  · rw [h]; exact tick_le p
  · rw [h]
    refine ⟨by simp only [hc]; exact Nat.le_succ _, fun k' => ?_⟩
    have hek : e.key = k := by rw [he]; exact find_some_key (e := old) hf
    by_cases hk : k' = k
    · right
      subst hk
      have : p'.version k' = p.clock + 1 := by
        unfold version find
        rw [hes, find_replace_same p.entries e old k' hf hek]
        simp [he]
      rw [this, hc]
      exact ⟨Nat.lt_succ_self _, Nat.le_refl _⟩
    · left
      unfold version find
      rw [hes, find_replace_other p.entries e k' (by rw [hek]; exact fun h => hk h.symm)]

/-- a successful conditional update saw exactly the expected version. -/
theorem update_ok_version (p : Prim α) (k : Key) (v : α) (ifv : Nat) (h0 : ifv ≠ 0) (e : PEntry α) (p' : Prim α)
    (h : p.update k v ifv = (p', .ok e)) : p.version k = ifv ∧ e.version = p.clock + 1 ∧ p'.version k = p.clock + 1 := by
  rcases update_spec p k v ifv with ⟨err, h', _⟩ | ⟨old, p'', e', h', hf, hv, he, _, _, hes, _⟩
  · rw [h'] at h; cases h
  · rw [h'] at h
    cases h
    have hek : e.key = k := by rw [he]; exact find_some_key (e := old) hf
    refine ⟨?_, by rw [he], ?_⟩
    · rcases hv with hv | hv
      · exact absurd hv h0
      · unfold version; rw [hf]; exact hv
    · unfold version find
      rw [hes, find_replace_same p.entries e old k hf hek]
      simp [he]

theorem insert_spec (p : Prim α) (ix : Bool) (k : Key) (v : α) :
    (p.insert ix k v = (p.tick, .error .alreadyExists) ∧ (p.find k).isSome) ∨
    (∃ e p', p.insert ix k v = (p', .ok e) ∧ p.find k = none ∧
        e = { key := k, index := if ix then p.lastIndex + 1 else 0, version := p.clock + 1, value := v } ∧
        p'.clock = p.clock + 1 ∧ p'.lastIndex = (if ix then p.lastIndex + 1 else p.lastIndex) ∧
        p'.entries = p.entries ++ [e] ∧ p'.log = p.log ++ [(k, p.clock + 1)]) := by
  unfold insert
  cases hf : p.find k with
  | some old => exact Or.inl ⟨rfl, rfl⟩
  | none =>
    refine Or.inr ⟨_, _, rfl, rfl, rfl, rfl, ?_, rfl, rfl⟩
    cases ix <;> rfl

theorem insert_le (p : Prim α) (ix : Bool) (k : Key) (v : α) : Le p (p.insert ix k v).1 := by
  rcases insert_spec p ix k v with ⟨h, _⟩ | ⟨e, p', h, hf, he, hc, _, hes, _⟩
  · rw [h]; exact tick_le p
  · rw [h]
    refine ⟨by simp only [hc]; exact Nat.le_succ _, fun k' => ?_⟩
    by_cases hk : k' = k
    · right
      subst hk
      have : p'.version k' = p.clock + 1 := by
        unfold version find
        unfold find at hf
        rw [hes, List.find?_append, hf]
        simp [he]
      rw [this, hc]
      exact ⟨Nat.lt_succ_self _, Nat.le_refl _⟩
    · left
      unfold version find
      rw [hes, List.find?_append]
      have : (e.key == k') = false := by rw [he]; simpa using fun h => hk h.symm
      cases hf' : p.entries.find? (fun x => x.key == k') with
      | some x => simp
      | none => simp [this]

end Prim


/-! ### the store: every operation moves every primitive forward -/

def Store.Le (s s' : Store) : Prop := s'.kind = s.kind ∧ ∀ sp, Prim.Le (s.space sp) (s'.space sp)

def Store.Wf (s : Store) : Prop := ∀ sp, (s.space sp).Wf

theorem Store.Le.refl (s : Store) : Store.Le s s := ⟨rfl, fun _ => Prim.Le.refl _⟩

theorem Store.Le.trans {a b c : Store} (h1 : Store.Le a b) (h2 : Store.Le b c) : Store.Le a c :=
  ⟨h2.1.trans h1.1, fun sp => Prim.Le.trans (h1.2 sp) (h2.2 sp)⟩

theorem Store.Wf.of_le {s s' : Store} (hw : s.Wf) (h : Store.Le s s') : s'.Wf :=
  fun sp => Prim.Wf.of_le (hw sp) (h.2 sp)

theorem space_setSpace_same (s : Store) (sp : Key) (p : Prim Obj) : (s.setSpace sp p).space sp = p := by
  unfold Store.space Store.setSpace
  simp only [alGet_alSet_same]; rfl

theorem space_setSpace_other (s : Store) (sp sp' : Key) (p : Prim Obj) (h : sp' ≠ sp) :
    (s.setSpace sp p).space sp' = s.space sp' := by
  unfold Store.space Store.setSpace
  simp only [alGet_alSet_other _ _ _ _ h]

theorem setSpace_le (s : Store) (sp : Key) (p : Prim Obj) (h : Prim.Le (s.space sp) p) :
    Store.Le s (s.setSpace sp p) := by
  refine ⟨rfl, fun sp' => ?_⟩
  by_cases hs : sp' = sp
  · subst hs; rw [space_setSpace_same]; exact h
  · rw [space_setSpace_other _ _ _ _ hs]; exact Prim.Le.refl _

theorem alGet_append_none {β : Type} (l : List (Key × β)) (k k' : Key) (v : β) (h : alGet l k = none) :
    alGet (l ++ [(k, v)]) k' = if k' = k then some v else alGet l k' := by
  unfold alGet at *
  rw [List.find?_append]
  by_cases hk : k' = k
  · subst hk
    have : l.find? (fun kv => kv.1 == k') = none := by
      cases hf : l.find? (fun kv => kv.1 == k') with
      | none => rfl
      | some x => rw [hf] at h; simp at h
    simp [this]
  · have : (k == k') = false := by simpa using fun h' => hk h'.symm
    simp only [hk, if_false]
    cases l.find? (fun kv => kv.1 == k') with
    | some x => rfl
    | none => simp [this]

theorem touch_le (s : Store) (sp : Key) : Store.Le s (s.touch sp) := by
  unfold Store.touch
  by_cases h : s.kind == .tx3 ∧ (alGet s.spaces sp).isNone
  · rw [if_pos h]
    refine ⟨rfl, fun sp' => ?_⟩
    have hn : alGet s.spaces sp = none := by
      cases hg : alGet s.spaces sp with
      | none => rfl
      | some x => rw [hg] at h; simp at h
    unfold Store.space
    simp only [alGet_append_none _ _ _ _ hn]
    by_cases hs : sp' = sp
    · subst hs
      simp only [if_true, hn, Option.getD]
      exact ⟨Nat.zero_le _, fun _ => Or.inl rfl⟩
    · simp only [hs, if_false]; exact Prim.Le.refl _
  · rw [if_neg h]; exact Store.Le.refl s

theorem valuesHalf_le (s : Store) (m : Meth) (o : Obj) (last : Key) : Store.Le s (valuesHalf s m o last) := by
  unfold valuesHalf
  dsimp only
  split
  · split
    · exact ⟨rfl, fun _ => Prim.Le.refl _⟩
    · exact Store.Le.refl s
  · exact Store.Le.refl s

theorem finish_store (s : Store) (sp : Key) (o : Obj) (r : Prim Obj × Except Err (PEntry Obj)) :
    (finish s sp o r).store = s.setSpace sp r.1 := by
  unfold finish
  rcases r with ⟨p, e | e⟩ <;> rfl

theorem create_le (s : Store) (o : Obj) (last : Key) : Store.Le s (create s o last).store := by
  unfold create
  dsimp only
  split
  · exact Store.Le.refl s
  · rw [finish_store]
    apply Store.Le.trans (valuesHalf_le s .create (defaultIds s o) last)
    apply Store.Le.trans (touch_le _ (spaceOf s.kind (createObj s.kind (defaultIds s o))))
    exact setSpace_le _ _ _ (Prim.insert_le _ _ _ _)

theorem write_le (s : Store) (m : Meth) (o : Obj) (last : Key) : Store.Le s (write s m o last).store := by
  unfold write
  dsimp only
  split
  · exact Store.Le.refl s
  · split
    · apply Store.Le.trans (valuesHalf_le s m o last)
      apply Store.Le.trans (touch_le _ (spaceOf s.kind (writeObj s.kind m o)))
      exact setSpace_le _ _ _ (Prim.tick_le _)
    · rw [finish_store]
      apply Store.Le.trans (valuesHalf_le s m o last)
      apply Store.Le.trans (touch_le _ (spaceOf s.kind (writeObj s.kind m o)))
      exact setSpace_le _ _ _ (Prim.update_le _ _ _ _)

theorem get_le (s : Store) (q : Obj) : Store.Le s (get s q).1 := by
  unfold get; exact touch_le _ _

theorem getAlt_le (s : Store) (q : Obj) : Store.Le s (getAlt s q).1 := by
  unfold getAlt; exact touch_le _ _

theorem step_get_store (s : Store) (q : Obj) : (step s (.get q)).store = (get s q).1 := by
  simp only [step]
  rcases get s q with ⟨s', r | r⟩ <;> rfl

theorem step_getAlt_store (s : Store) (q : Obj) : (step s (.getAlt q)).store = (getAlt s q).1 := by
  simp only [step]
  rcases getAlt s q with ⟨s', r | r⟩ <;> rfl

theorem step_le (s : Store) (op : Op) : Store.Le s (step s op).store := by
  cases op with
  | create o l => exact create_le s o l
  | update o l => exact write_le s .update o l
  | updateStatus o l => exact write_le s .updateStatus o l
  | get q => rw [step_get_store]; exact get_le s q
  | getAlt q => rw [step_getAlt_store]; exact getAlt_le s q

theorem run_le (s : Store) (ops : List Op) : Store.Le s (run s ops) := by
  induction ops generalizing s with
  | nil => exact Store.Le.refl s
  | cons op rest ih => exact Store.Le.trans (step_le s op) (ih _)

theorem wf_init (k : Kind) : (Store.init k).Wf := by
  intro sp
  unfold Store.init Store.space
  dsimp only
  split
  · exact Prim.wf_empty
  · unfold alGet
    simp only [List.find?_cons, List.find?_nil]
    split <;> exact Prim.wf_empty


/-! ### what a successful write proves about the state it ran in -/

theorem guards_verZero (k : Kind) (m : Meth) (h : m ≠ .create) : (guards k m).contains verZero = true := by
  cases k <;> cases m <;> first | exact absurd rfl h | decide

theorem ifVersion_fact (k : Kind) (m : Meth) (h : m ≠ .create) : ifVersionField k m = .version := by
  cases k <;> cases m <;> first | exact absurd rfl h | decide

theorem version_ne_zero_of_guards (k : Kind) (m : Meth) (o : Obj) (hm : m ≠ .create)
    (h : ¬ firstFiring (guards k m) o = true) : o.version ≠ 0 := by
  intro h0
  apply h
  unfold firstFiring
  rw [List.any_eq_true]
  refine ⟨verZero, ?_, ?_⟩
  · have := guards_verZero k m hm
    rw [List.contains_iff_mem] at this
    exact this
  · simp [Guard.fires, verZero, h0]

theorem valuesHalf_space (s : Store) (m : Meth) (o : Obj) (last sp : Key) :
    (valuesHalf s m o last).space sp = s.space sp := by
  unfold valuesHalf
  dsimp only
  split
  · split <;> rfl
  · rfl

theorem valuesHalf_kind (s : Store) (m : Meth) (o : Obj) (last : Key) : (valuesHalf s m o last).kind = s.kind :=
  (valuesHalf_le s m o last).1

theorem touch_kind (s : Store) (sp : Key) : (s.touch sp).kind = s.kind := (touch_le s sp).1

theorem touch_version (s : Store) (sp sp' k : Key) : ((s.touch sp).space sp').version k = (s.space sp').version k := by
  unfold Store.touch
  by_cases h : s.kind == .tx3 ∧ (alGet s.spaces sp).isNone
  · rw [if_pos h]
    have hn : alGet s.spaces sp = none := by
      cases hg : alGet s.spaces sp with
      | none => rfl
      | some x => rw [hg] at h; simp at h
    unfold Store.space
    simp only [alGet_append_none _ _ _ _ hn]
    by_cases hs : sp' = sp
    · subst hs
      simp only [if_true, hn, Option.getD]
      rfl
    · simp only [hs, if_false]
  · rw [if_neg h]

theorem writeObj_ids (k : Kind) (m : Meth) (o : Obj) :
    spaceOf k (writeObj k m o) = spaceOf k o ∧ updateKey k (writeObj k m o) = updateKey k o ∧
    (writeObj k m o).version = o.version := by
  unfold writeObj
  dsimp only
  refine ⟨?_, ?_, ?_⟩ <;> (split <;> split <;> (try split) <;> cases k <;> rfl)

theorem finish_err_none (s : Store) (sp : Key) (o : Obj) (r : Prim Obj × Except Err (PEntry Obj))
    (h : (finish s sp o r).err = none) : ∃ e, r.2 = .ok e := by
  rcases r with ⟨p, e | e⟩
  · simp [finish] at h
  · exact ⟨e, rfl⟩

/-- a successful `Update`/`UpdateStatus` carried a non-zero version that was the record's version, and
    left the record with a version above the primitive's old clock. -/
theorem write_winner (s : Store) (m : Meth) (hm : m ≠ .create) (o : Obj) (last : Key)
    (h : (write s m o last).err = none) :
    (s.space (spaceOf s.kind o)).version (updateKey s.kind o) = o.version ∧ o.version ≠ 0 ∧
    (s.space (spaceOf s.kind o)).clock <
      ((write s m o last).store.space (spaceOf s.kind o)).version (updateKey s.kind o) := by
  unfold write at h ⊢
  dsimp only at h ⊢
  obtain ⟨hsp, hkey, hver⟩ := writeObj_ids s.kind m o
  split at h
  · simp at h
  · rename_i hg
    have hv0 := version_ne_zero_of_guards s.kind m o hm hg
    rw [if_neg hg]
    split at h
    · simp at h
    · rename_i hi
      rw [if_neg hi]
      obtain ⟨e, he⟩ := finish_err_none _ _ _ _ h
      rw [finish_store]
      rw [hsp, hkey] at he ⊢
      have hifv : ifVersionOf s.kind m (writeObj s.kind m o) = o.version := by
        unfold ifVersionOf
        rw [if_pos (ifVersion_fact s.kind m hm), hver]
      rw [hifv] at he ⊢
      generalize hpt : ((valuesHalf s m o last).touch (spaceOf s.kind o)).space (spaceOf s.kind o) = pt at he ⊢
      rcases hu : pt.update (updateKey s.kind o) (writeObj s.kind m o) o.version with ⟨p', r⟩
      rw [hu] at he
      simp only at he
      subst he
      obtain ⟨h1, _, h3⟩ := Prim.update_ok_version pt _ _ _ hv0 e p' hu
      have hptv : pt.version (updateKey s.kind o) = (s.space (spaceOf s.kind o)).version (updateKey s.kind o) := by
        rw [← hpt, touch_version, valuesHalf_space]
      have hptc : (s.space (spaceOf s.kind o)).clock ≤ pt.clock := by
        rw [← hpt]
        exact ((valuesHalf_le s m o last).trans (touch_le _ _)).2 _ |>.1
      rw [space_setSpace_same]
      refine ⟨by rw [← hptv]; exact h1, hv0, ?_⟩
      simp only
      rw [h3]
      exact Nat.lt_succ_of_le hptc


/-! ### at most one winner per (record, version) -/

/-- the record (space, key) and the version a write operation carries. -/
def Op.carries (k : Kind) : Op → Option (Key × Key × Nat)
  | .update o _ => some (spaceOf k o, updateKey k o, o.version)
  | .updateStatus o _ => some (spaceOf k o, updateKey k o, o.version)
  | _ => none

/-- a trace entry is a successful write of record `(sp, key)` that carried version `v`. -/
def isWinner (k : Kind) (sp key : Key) (v : Nat) (x : Op × Res) : Bool :=
  x.2.err.isNone && (Op.carries k x.1 == some (sp, key, v))

def winners (k : Kind) (sp key : Key) (v : Nat) (tr : List (Op × Res)) : Nat :=
  (tr.filter (isWinner k sp key v)).length

theorem winner_step (s : Store) (op : Op) (sp key : Key) (v : Nat)
    (h : isWinner s.kind sp key v (op, step s op) = true) :
    (s.space sp).version key = v ∧ v ≠ 0 ∧ (s.space sp).clock < ((step s op).store.space sp).version key := by
  unfold isWinner at h
  simp only [Bool.and_eq_true, Option.isNone_iff_eq_none, beq_iff_eq] at h
  obtain ⟨herr, hc⟩ := h
  cases op with
  | create o l => simp [Op.carries] at hc
  | get q => simp [Op.carries] at hc
  | getAlt q => simp [Op.carries] at hc
  | update o l =>
    simp only [Op.carries, Option.some.injEq, Prod.mk.injEq] at hc
    obtain ⟨h1, h2, h3⟩ := hc
    have := write_winner s .update (by decide) o l herr
    rw [h1, h2, h3] at this
    exact this
  | updateStatus o l =>
    simp only [Op.carries, Option.some.injEq, Prod.mk.injEq] at hc
    obtain ⟨h1, h2, h3⟩ := hc
    have := write_winner s .updateStatus (by decide) o l herr
    rw [h1, h2, h3] at this
    exact this

/-- version `v` of record `(sp, key)` is in the past: it can never be the record's version again. -/
def Dead (s : Store) (sp key : Key) (v : Nat) : Prop :=
  v ≤ (s.space sp).clock ∧ (s.space sp).version key ≠ v

theorem dead_step (s : Store) (op : Op) (sp key : Key) (v : Nat) (hd : Dead s sp key v) :
    Dead (step s op).store sp key v := by
  have hle := (step_le s op).2 sp
  refine ⟨Nat.le_trans hd.1 hle.1, ?_⟩
  rcases hle.2 key with h | ⟨h, _⟩
  · rw [h]; exact hd.2
  · exact Nat.ne_of_gt (Nat.lt_of_le_of_lt hd.1 h)

theorem dead_no_winners (s : Store) (ops : List Op) (sp key : Key) (v : Nat) (hd : Dead s sp key v) :
    winners s.kind sp key v (trace s ops) = 0 := by
  induction ops generalizing s with
  | nil => rfl
  | cons op rest ih =>
    unfold winners trace
    rw [List.filter_cons]
    have hnw : isWinner s.kind sp key v (op, step s op) = false := by
      cases hw : isWinner s.kind sp key v (op, step s op) with
      | false => rfl
      | true => exact absurd (winner_step s op sp key v hw).1 hd.2
    rw [hnw]
    simp only [Bool.false_eq_true, if_false]
    have hk : (step s op).store.kind = s.kind := (step_le s op).1
    have := ih (step s op).store (dead_step s op sp key v hd)
    rw [hk] at this
    exact this

theorem winners_le_one (s : Store) (hw : s.Wf) (ops : List Op) (sp key : Key) (v : Nat) :
    winners s.kind sp key v (trace s ops) ≤ 1 := by
  induction ops generalizing s with
  | nil => exact Nat.zero_le _
  | cons op rest ih =>
    have hk : (step s op).store.kind = s.kind := (step_le s op).1
    have hw' : (step s op).store.Wf := hw.of_le (step_le s op)
    unfold winners trace
    rw [List.filter_cons]
    cases hwin : isWinner s.kind sp key v (op, step s op) with
    | false =>
      simp only [Bool.false_eq_true, if_false]
      have := ih (step s op).store hw'
      rw [hk] at this
      exact this
    | true =>
      simp only [if_true, List.length_cons]
      obtain ⟨h1, _, h3⟩ := winner_step s op sp key v hwin
      have hle := (step_le s op).2 sp
      have hdead : Dead (step s op).store sp key v := by
        have hvc : v ≤ (s.space sp).clock := by rw [← h1]; exact hw sp key
        refine ⟨Nat.le_trans hvc hle.1, Nat.ne_of_gt (Nat.lt_of_le_of_lt hvc h3)⟩
      have := dead_no_winners (step s op).store rest sp key v hdead
      rw [hk] at this
      unfold winners at this
      rw [this]
      exact Nat.le_refl _


/-! ### log indexes -/

namespace Prim
variable {α : Type}

/-- `p ⊑ᵢ p'`: the last index did not go back, every present key stays present with its index. -/
def LeI (p p' : Prim α) : Prop :=
  p.lastIndex ≤ p'.lastIndex ∧ ∀ k, (p.find k).isSome → (p'.find k).isSome ∧ p'.indexOf k = p.indexOf k

theorem LeI.refl (p : Prim α) : LeI p p := ⟨Nat.le_refl _, fun _ h => ⟨h, rfl⟩⟩

theorem LeI.trans {p q r : Prim α} (h1 : LeI p q) (h2 : LeI q r) : LeI p r :=
  ⟨Nat.le_trans h1.1 h2.1, fun k hk =>
    ⟨(h2.2 k (h1.2 k hk).1).1, ((h2.2 k (h1.2 k hk).1).2).trans (h1.2 k hk).2⟩⟩

theorem tick_leI (p : Prim α) : LeI p p.tick := ⟨Nat.le_refl _, fun _ h => ⟨h, rfl⟩⟩

theorem update_leI (p : Prim α) (k : Key) (v : α) (ifv : Nat) : LeI p (p.update k v ifv).1 := by
  rcases update_spec p k v ifv with ⟨err, h, _⟩ | ⟨old, p', e, h, hf, _, he, _, hl, hes, _⟩
  · rw [h]; exact tick_leI p
  · rw [h]
    refine ⟨by simp only [hl]; exact Nat.le_refl _, fun k' hk' => ?_⟩
    have hek : e.key = k := by rw [he]; exact find_some_key (e := old) hf
    by_cases hk : k' = k
    · subst hk
      have hfind : p'.find k' = some e := by
        unfold find; rw [hes]; exact find_replace_same p.entries e old k' hf hek
      refine ⟨by rw [hfind]; rfl, ?_⟩
      unfold indexOf
      rw [hfind, hf, he]
      rfl
    · have hfind : p'.find k' = p.find k' := by
        unfold find; rw [hes]
        exact find_replace_other p.entries e k' (by rw [hek]; exact fun h => hk h.symm)
      refine ⟨by rw [hfind]; exact hk', ?_⟩
      unfold indexOf
      rw [hfind]

theorem insert_leI (p : Prim α) (ix : Bool) (k : Key) (v : α) : LeI p (p.insert ix k v).1 := by
  rcases insert_spec p ix k v with ⟨h, _⟩ | ⟨e, p', h, hf, he, _, hl, hes, _⟩
  · rw [h]; exact tick_leI p
  · rw [h]
    refine ⟨by simp only [hl]; cases ix <;> simp, fun k' hk' => ?_⟩
    have hfind : p'.find k' = p.find k' := by
      unfold find at hk' ⊢
      rw [hes, List.find?_append]
      cases hf' : p.entries.find? (fun x => x.key == k') with
      | some x => rfl
      | none => rw [hf'] at hk'; simp at hk'
    refine ⟨by rw [hfind]; exact hk', ?_⟩
    unfold indexOf
    rw [hfind]

/-- a successful indexed insert takes index `lastIndex + 1` and makes it the last index. -/
theorem insert_ok_index (p : Prim α) (k : Key) (v : α) (e : PEntry α) (p' : Prim α)
    (h : p.insert true k v = (p', .ok e)) :
    e.index = p.lastIndex + 1 ∧ p'.lastIndex = p.lastIndex + 1 ∧ e.version = p.clock + 1 ∧
    p'.version k = p.clock + 1 ∧ p.find k = none := by
  rcases insert_spec p true k v with ⟨h', _⟩ | ⟨e', p'', h', hf, he, _, hl, hes, _⟩
  · rw [h'] at h; cases h
  · rw [h'] at h
    cases h
    refine ⟨by rw [he]; rfl, by rw [hl]; rfl, by rw [he], ?_, hf⟩
    unfold version find
    unfold find at hf
    rw [hes, List.find?_append, hf]
    simp [he]

theorem insert_ok_version (p : Prim α) (ix : Bool) (k : Key) (v : α) (e : PEntry α) (p' : Prim α)
    (h : p.insert ix k v = (p', .ok e)) :
    e.version = p.clock + 1 ∧ p'.version k = p.clock + 1 ∧ p.find k = none := by
  rcases insert_spec p ix k v with ⟨h', _⟩ | ⟨e', p'', h', hf, he, _, _, hes, _⟩
  · rw [h'] at h; cases h
  · rw [h'] at h
    cases h
    refine ⟨by rw [he], ?_, hf⟩
    unfold version find
    unfold find at hf
    rw [hes, List.find?_append, hf]
    simp [he]

end Prim

def Store.LeI (s s' : Store) : Prop := ∀ sp, Prim.LeI (s.space sp) (s'.space sp)

theorem Store.LeI.refl (s : Store) : Store.LeI s s := fun _ => Prim.LeI.refl _

theorem Store.LeI.trans {a b c : Store} (h1 : Store.LeI a b) (h2 : Store.LeI b c) : Store.LeI a c :=
  fun sp => Prim.LeI.trans (h1 sp) (h2 sp)

theorem setSpace_leI (s : Store) (sp : Key) (p : Prim Obj) (h : Prim.LeI (s.space sp) p) :
    Store.LeI s (s.setSpace sp p) := by
  intro sp'
  by_cases hs : sp' = sp
  · subst hs; rw [space_setSpace_same]; exact h
  · rw [space_setSpace_other _ _ _ _ hs]; exact Prim.LeI.refl _

/-- `touch` adds an empty log or nothing: the target space looks the same to `find`/`lastIndex`. -/
theorem touch_space (s : Store) (sp sp' : Key) :
    ((s.touch sp).space sp').entries = (s.space sp').entries ∧
    ((s.touch sp).space sp').lastIndex = (s.space sp').lastIndex ∧
    (s.space sp').clock ≤ ((s.touch sp).space sp').clock := by
  unfold Store.touch
  by_cases h : s.kind == .tx3 ∧ (alGet s.spaces sp).isNone
  · rw [if_pos h]
    have hn : alGet s.spaces sp = none := by
      cases hg : alGet s.spaces sp with
      | none => rfl
      | some x => rw [hg] at h; simp at h
    unfold Store.space
    simp only [alGet_append_none _ _ _ _ hn]
    by_cases hs : sp' = sp
    · subst hs
      simp only [if_true, hn, Option.getD]
      refine ⟨?_, ?_, ?_⟩ <;> first | trivial | rfl | exact Nat.zero_le _
    · simp only [hs, if_false]
      refine ⟨?_, ?_, ?_⟩ <;> first | trivial | rfl | exact Nat.le_refl _
  · rw [if_neg h]; exact ⟨rfl, rfl, Nat.le_refl _⟩

theorem touch_leI (s : Store) (sp : Key) : Store.LeI s (s.touch sp) := by
  intro sp'
  obtain ⟨he, hl, _⟩ := touch_space s sp sp'
  refine ⟨by rw [hl]; exact Nat.le_refl _, fun k hk => ?_⟩
  have hfind : ((s.touch sp).space sp').find k = (s.space sp').find k := by
    unfold Prim.find; rw [he]
  refine ⟨by rw [hfind]; exact hk, ?_⟩
  unfold Prim.indexOf
  rw [hfind]

theorem valuesHalf_leI (s : Store) (m : Meth) (o : Obj) (last : Key) : Store.LeI s (valuesHalf s m o last) := by
  intro sp
  rw [valuesHalf_space]
  exact Prim.LeI.refl _

theorem create_leI (s : Store) (o : Obj) (last : Key) : Store.LeI s (create s o last).store := by
  unfold create
  dsimp only
  split
  · exact Store.LeI.refl s
  · rw [finish_store]
    apply Store.LeI.trans (valuesHalf_leI s .create (defaultIds s o) last)
    apply Store.LeI.trans (touch_leI _ (spaceOf s.kind (createObj s.kind (defaultIds s o))))
    exact setSpace_leI _ _ _ (Prim.insert_leI _ _ _ _)

theorem write_leI (s : Store) (m : Meth) (o : Obj) (last : Key) : Store.LeI s (write s m o last).store := by
  unfold write
  dsimp only
  split
  · exact Store.LeI.refl s
  · split
    · apply Store.LeI.trans (valuesHalf_leI s m o last)
      apply Store.LeI.trans (touch_leI _ (spaceOf s.kind (writeObj s.kind m o)))
      exact setSpace_leI _ _ _ (Prim.tick_leI _)
    · rw [finish_store]
      apply Store.LeI.trans (valuesHalf_leI s m o last)
      apply Store.LeI.trans (touch_leI _ (spaceOf s.kind (writeObj s.kind m o)))
      exact setSpace_leI _ _ _ (Prim.update_leI _ _ _ _)

theorem step_leI (s : Store) (op : Op) : Store.LeI s (step s op).store := by
  cases op with
  | create o l => exact create_leI s o l
  | update o l => exact write_leI s .update o l
  | updateStatus o l => exact write_leI s .updateStatus o l
  | get q => rw [step_get_store]; unfold get; exact touch_leI _ _
  | getAlt q => rw [step_getAlt_store]; unfold getAlt; exact touch_leI _ _

theorem run_leI (s : Store) (ops : List Op) : Store.LeI s (run s ops) := by
  induction ops generalizing s with
  | nil => exact Store.LeI.refl s
  | cons op rest ih => exact Store.LeI.trans (step_leI s op) (ih _)

theorem createObj_space (k : Kind) (o : Obj) : spaceOf k (createObj k o) = spaceOf k o := by
  unfold createObj
  dsimp only
  split <;> cases k <;> rfl

theorem finish_ok (s : Store) (sp : Key) (o : Obj) (p : Prim Obj) (e : PEntry Obj) :
    finish s sp o (p, .ok e) =
      { store := s.setSpace sp p,
        obj := { o with version := e.version, index := if createIndexed s.kind then e.index else o.index },
        err := none } := rfl

theorem ids_with (k : Kind) (o : Obj) (v i : Nat) :
    spaceOf k { o with version := v, index := i } = spaceOf k o ∧
    createKey k { o with version := v, index := i } = createKey k o := by
  cases k <;> exact ⟨rfl, rfl⟩

/-- a successful `Create`: on an indexed log the caller is handed index `lastIndex + 1` of that log, which
    becomes the log's last index; the version handed back is above the log's old clock and is the record's
    version; the key was absent. -/
theorem create_ok (s : Store) (o : Obj) (last : Key) (h : (create s o last).err = none) :
    (createIndexed s.kind = true →
      (create s o last).obj.index = (s.space (spaceOf s.kind (create s o last).obj)).lastIndex + 1 ∧
      ((create s o last).store.space (spaceOf s.kind (create s o last).obj)).lastIndex = (create s o last).obj.index) ∧
    (s.space (spaceOf s.kind (create s o last).obj)).clock < (create s o last).obj.version ∧
    ((create s o last).store.space (spaceOf s.kind (create s o last).obj)).version
        (createKey s.kind (create s o last).obj) = (create s o last).obj.version ∧
    ((s.space (spaceOf s.kind (create s o last).obj)).find (createKey s.kind (create s o last).obj)).isNone = true := by
  unfold create at h ⊢
  dsimp only at h ⊢
  split at h
  · simp at h
  · rename_i hg
    rw [if_neg hg]
    obtain ⟨e, he⟩ := finish_err_none _ _ _ _ h
    generalize ho1 : createObj s.kind (defaultIds s o) = o1 at he ⊢
    generalize hsp : spaceOf s.kind o1 = sp at he ⊢
    generalize hs2 : (valuesHalf s .create (defaultIds s o) last).touch sp = s2 at he ⊢
    have hkind : s2.kind = s.kind := by rw [← hs2, touch_kind, valuesHalf_kind]
    rcases hins : (s2.space sp).insert (createIndexed s.kind) (createKey s.kind o1) o1 with ⟨p', r⟩
    rw [hins] at he
    simp only at he
    subst he
    rw [finish_ok, hkind]
    simp only
    obtain ⟨hi1, hi2⟩ := ids_with s.kind o1 e.version (if createIndexed s.kind then e.index else o1.index)
    rw [hi1, hi2, hsp, space_setSpace_same]
    obtain ⟨hte, htl, htc⟩ := touch_space (valuesHalf s .create (defaultIds s o) last) sp sp
    rw [hs2, valuesHalf_space] at hte htl htc
    obtain ⟨hv1, hv2, hv3⟩ := Prim.insert_ok_version _ _ _ _ _ _ hins
    refine ⟨?_, ?_, ?_, ?_⟩
    · intro hix
      rw [hix] at hins ⊢
      obtain ⟨h1, h2, _⟩ := Prim.insert_ok_index _ _ _ _ _ hins
      simp only [if_true]
      rw [h1, h2, htl]
      exact ⟨rfl, rfl⟩
    · rw [hv1]; exact Nat.lt_succ_of_le htc
    · rw [hv2, hv1]
    · unfold Prim.find at hv3 ⊢
      rw [← hte, hv3]; rfl


/-- the log index a trace entry handed out, if it is a successful `Create` in log `sp`. -/
def createdIndex (k : Kind) (sp : Key) (x : Op × Res) : Option Nat :=
  match x.1 with
  | .create _ _ => if x.2.err.isNone ∧ spaceOf k x.2.obj = sp then some x.2.obj.index else none
  | _ => none

def createdIndexes (k : Kind) (sp : Key) (tr : List (Op × Res)) : List Nat := tr.filterMap (createdIndex k sp)

theorem created_increasing (s : Store) (hix : createIndexed s.kind = true) (ops : List Op) (sp : Key) :
    (∀ i ∈ createdIndexes s.kind sp (trace s ops), (s.space sp).lastIndex < i) ∧
    (createdIndexes s.kind sp (trace s ops)).Pairwise (· < ·) := by
  induction ops generalizing s with
  | nil => exact ⟨fun i hi => by simp [createdIndexes, trace] at hi, List.Pairwise.nil⟩
  | cons op rest ih =>
    have hk : (step s op).store.kind = s.kind := (step_le s op).1
    have hmono : (s.space sp).lastIndex ≤ ((step s op).store.space sp).lastIndex := (step_leI s op sp).1
    obtain ⟨ih1, ih2⟩ := ih (step s op).store (by rw [hk]; exact hix)
    rw [hk] at ih1 ih2
    unfold createdIndexes trace
    rw [List.filterMap_cons]
    cases hc : createdIndex s.kind sp (op, step s op) with
    | none =>
      simp only
      exact ⟨fun i hi => Nat.lt_of_le_of_lt hmono (ih1 i hi), ih2⟩
    | some i =>
      simp only
      -- the entry is a successful create in `sp`
      have hinfo : i = (s.space sp).lastIndex + 1 ∧ ((step s op).store.space sp).lastIndex = i := by
        unfold createdIndex at hc
        cases op with
        | create o l =>
          simp only at hc
          split at hc
          · rename_i hcond
            obtain ⟨herr, hsp⟩ := hcond
            simp only [Option.some.injEq] at hc
            have herr' : (create s o l).err = none := by simpa [step] using herr
            have := (create_ok s o l herr').1 hix
            simp only [step] at hsp hc
            rw [hsp] at this
            rw [← hc]
            exact ⟨this.1, by simp only [step]; exact this.2⟩
          · cases hc
        | update o l => cases hc
        | updateStatus o l => cases hc
        | get q => cases hc
        | getAlt q => cases hc
      refine ⟨?_, ?_⟩
      · intro j hj
        rcases List.mem_cons.mp hj with rfl | hj
        · rw [hinfo.1]; exact Nat.lt_succ_self _
        · exact Nat.lt_of_le_of_lt hmono (ih1 j hj)
      · refine List.Pairwise.cons ?_ ih2
        intro j hj
        have := ih1 j hj
        rw [hinfo.2] at this
        exact this


/-! ### a decidable well-formedness check -/

/-- every stored entry's version is at most its primitive's clock (true of every store built by operations). -/
def Store.wfb (s : Store) : Bool :=
  s.spaces.all (fun sp => sp.2.entries.all (fun e => decide (e.version ≤ sp.2.clock)))

theorem Prim.wf_of_all {α : Type} (p : Prim α) (h : p.entries.all (fun e => decide (e.version ≤ p.clock)) = true) : p.Wf := by
  intro k
  unfold Prim.version Prim.find
  cases hf : p.entries.find? (fun e => e.key == k) with
  | none => exact Nat.zero_le _
  | some e =>
    have hm := List.mem_of_find?_eq_some hf
    rw [List.all_eq_true] at h
    simpa using h e hm

theorem Store.wf_of_wfb (s : Store) (h : s.wfb = true) : s.Wf := by
  intro sp
  unfold Store.space alGet
  cases hf : s.spaces.find? (fun kv => kv.1 == sp) with
  | none => exact Prim.wf_empty
  | some x =>
    have hm := List.mem_of_find?_eq_some hf
    unfold Store.wfb at h
    rw [List.all_eq_true] at h
    exact Prim.wf_of_all x.2 (h x hm)


/-! ### a refused write -/

/-- the path values an `Update` (committed) / `UpdateStatus` (applied) carries. -/
def carried (m : Meth) (o : Obj) : Option Vals := if m == .updateStatus then o.avals else o.vals

theorem valuesHalf_eq_self (s : Store) (m : Meth) (o : Obj) (last : Key)
    (h : s.kind.isCfg = false ∨ carried m o = none) : valuesHalf s m o last = s := by
  unfold valuesHalf
  dsimp only
  rcases h with h | h
  · rw [if_neg (by simp [h])]
  · unfold carried at h
    split
    · rw [h]
    · rfl

theorem touch_sides (s : Store) (sp : Key) : (s.touch sp).sides = s.sides := by
  unfold Store.touch; split <;> rfl

theorem setSpace_entries (s : Store) (sp sp' : Key) (p : Prim Obj) (h : p.entries = (s.space sp).entries) :
    ((s.setSpace sp p).space sp').entries = (s.space sp').entries := by
  by_cases hs : sp' = sp
  · subst hs; rw [space_setSpace_same]; exact h
  · rw [space_setSpace_other _ _ _ _ hs]

/-- a refused `Update`/`UpdateStatus` that carries no path values (or goes to a store without side maps)
    leaves every entry and every side map as it was. -/
theorem write_refused_unchanged (s : Store) (m : Meth) (o : Obj) (last : Key)
    (herr : (write s m o last).err ≠ none) (h : s.kind.isCfg = false ∨ carried m o = none) :
    (write s m o last).store.sides = s.sides ∧
    ∀ sp, ((write s m o last).store.space sp).entries = (s.space sp).entries := by
  unfold write at herr ⊢
  dsimp only at herr ⊢
  rw [valuesHalf_eq_self s m o last h] at herr ⊢
  split
  · exact ⟨rfl, fun _ => rfl⟩
  · rename_i hg
    rw [if_neg hg] at herr
    generalize hsp : spaceOf s.kind (writeObj s.kind m o) = sp at herr ⊢
    have hte : ∀ sp', ((s.touch sp).space sp').entries = (s.space sp').entries := fun sp' => (touch_space s sp sp').1
    split
    · refine ⟨touch_sides s sp, fun sp' => ?_⟩
      exact (setSpace_entries (s.touch sp) sp sp' ((s.touch sp).space sp).tick rfl).trans (hte sp')
    · rename_i hi
      rw [if_neg hi] at herr
      rw [finish_store]
      refine ⟨touch_sides s sp, fun sp' => ?_⟩
      rcases Prim.update_spec ((s.touch sp).space sp) (updateKey s.kind (writeObj s.kind m o)) (writeObj s.kind m o)
          (ifVersionOf s.kind m (writeObj s.kind m o)) with ⟨err, hu, _⟩ | ⟨old, p', e, hu, _⟩
      · rw [hu]
        exact (setSpace_entries (s.touch sp) sp sp' ((s.touch sp).space sp).tick rfl).trans (hte sp')
      · rw [hu, finish_ok] at herr
        exact absurd rfl herr

/-- what a `Get` hands back (`none` = error). -/
def readBack (s : Store) (q : Obj) : Option Obj :=
  match (get s q).2 with
  | .ok o => some o
  | .error _ => none

end OnosVerif.Store
