/- `live` (what Get returns) and `Spec.view` as strictly sorted lists: equal as soon as they read
   the same at every path. -/
import OnosVerif.Proofs.ConfigSpec

namespace OnosVerif.Config
open OnosVerif.Path (Str strLt)
open OnosVerif.Path

/-- strictly sorted by path. -/
def SortedK (l : List (Str × Str)) : Prop := l.Pairwise (fun a b => strLt a.1 b.1 = true)

theorem sortedK_ext : ∀ (l m : List (Str × Str)), SortedK l → SortedK m → (∀ x, x ∈ l ↔ x ∈ m) → l = m
  | [], [], _, _, _ => rfl
  | [], b :: m, _, _, h => by have := (h b).2 List.mem_cons_self; simp at this
  | a :: l, [], _, _, h => by have := (h a).1 List.mem_cons_self; simp at this
  | a :: l, b :: m, hl, hm, h => by
    simp only [SortedK, List.pairwise_cons] at hl hm
    have hab : a = b := by
      rcases List.mem_cons.1 ((h a).1 List.mem_cons_self) with e | ha
      · exact e
      · rcases List.mem_cons.1 ((h b).2 List.mem_cons_self) with e | hb
        · exact e.symm
        · have h1 := hm.1 a ha
          have h2 := hl.1 b hb
          rw [strLt_asymm _ _ h1] at h2; exact absurd h2 (by decide)
    subst hab
    congr 1
    apply sortedK_ext l m hl.2 hm.2
    intro x
    constructor
    · intro hx
      rcases List.mem_cons.1 ((h x).1 (List.mem_cons_of_mem _ hx)) with e | hx'
      · subst e; exact absurd rfl (strLt_ne _ _ (hl.1 x hx))
      · exact hx'
    · intro hx
      rcases List.mem_cons.1 ((h x).2 (List.mem_cons_of_mem _ hx)) with e | hx'
      · subst e; exact absurd rfl (strLt_ne _ _ (hm.1 x hx))
      · exact hx'

/-! ### `Spec.view` -/

def pairTree (kv : Str × Str) : Tree.PV := { path := kv.1, val := .empty, deleted := false }

theorem insertPair_tree (e : Str × Str) : ∀ (xs : List (Str × Str)), (∀ x ∈ xs, x.1 ≠ e.1) →
    (Spec.insertPair e xs).map pairTree = Tree.insertPV (pairTree e) (xs.map pairTree)
  | [], _ => rfl
  | x :: xs, h => by
    have hx : x.1 ≠ e.1 := h x List.mem_cons_self
    simp only [Spec.insertPair, List.map_cons, Tree.insertPV, pairTree]
    cases h1 : strLt e.1 x.1 with
    | true =>
      have h2 : strLt x.1 e.1 = false := strLt_asymm _ _ h1
      simp [h2, pairTree]
    | false =>
      have h2 : strLt x.1 e.1 = true := by
        cases h2 : strLt x.1 e.1 with
        | true => rfl
        | false => exact absurd (strLt_connected _ _ h2 h1) hx
      simp only [h2, if_true, Bool.false_eq_true, if_false, List.map_cons, pairTree, List.cons.injEq, true_and]
      exact insertPair_tree e xs (fun y hy => h y (List.mem_cons_of_mem _ hy))

theorem mem_insertPair (e y : Str × Str) : ∀ (xs : List (Str × Str)), y ∈ Spec.insertPair e xs ↔ y = e ∨ y ∈ xs
  | [] => by simp [Spec.insertPair]
  | x :: xs => by
    simp only [Spec.insertPair]
    split
    · simp
    · simp only [List.mem_cons, mem_insertPair e y xs]
      constructor
      · rintro (h | h | h) <;> simp [h]
      · rintro (h | h | h) <;> simp [h]

theorem mem_view (y : Str × Str) : ∀ (st : Spec.State), y ∈ Spec.view st ↔ y ∈ st
  | [] => by simp [Spec.view]
  | x :: l => by
    have ih := mem_view y l
    simp only [Spec.view, List.foldr_cons] at ih ⊢
    rw [mem_insertPair, ih]; simp

theorem view_tree : ∀ (st : Spec.State), Spec.NodupK st →
    (Spec.view st).map pairTree = Tree.sortPVs (st.map pairTree)
  | [], _ => rfl
  | x :: l, h => by
    simp only [Spec.NodupK, List.pairwise_cons] at h
    have ih := view_tree l h.2
    simp only [Spec.view, Tree.sortPVs, List.foldr_cons, List.map_cons] at ih ⊢
    have hins := insertPair_tree x (List.foldr Spec.insertPair [] l)
      (fun y hy => fun e => h.1 y ((mem_view y l).1 hy) e.symm)
    rw [hins, ih]

theorem pathsDistinct_pairs : ∀ (st : Spec.State), Spec.NodupK st → Tree.pathsDistinct (st.map pairTree) = true
  | [], _ => rfl
  | x :: l, h => by
    simp only [Spec.NodupK, List.pairwise_cons] at h
    simp only [List.map_cons, Tree.pathsDistinct, Bool.and_eq_true, List.all_eq_true, List.mem_map,
      bne_iff_ne, ne_eq]
    refine ⟨?_, pathsDistinct_pairs l h.2⟩
    rintro q ⟨y, hy, rfl⟩
    exact fun e => h.1 y hy e.symm

theorem view_sorted (st : Spec.State) (h : Spec.NodupK st) : SortedK (Spec.view st) := by
  have := Tree.sortPVs_sortedLt (st.map pairTree) (pathsDistinct_pairs st h)
  rw [← view_tree st h] at this
  simp only [Tree.SortedLt, List.pairwise_map, pairTree] at this
  exact this

theorem mem_state_iff_get (st : Spec.State) (h : Spec.NodupK st) (p v : Str) :
    (p, v) ∈ st ↔ Spec.get st p = some v := by
  induction st with
  | nil => simp [Spec.get_nil]
  | cons x r ih =>
    simp only [Spec.NodupK, List.pairwise_cons] at h
    rw [Spec.get_cons, List.mem_cons]
    by_cases hx : x.1 = p
    · simp only [hx, if_true, Option.some.injEq]
      constructor
      · rintro (e | hm)
        · rw [← e]
        · exact absurd hx (fun e => h.1 (p, v) hm e)
      · intro hv
        left
        rw [← hx, ← hv]
    · simp only [hx, if_false]
      rw [← ih h.2]
      constructor
      · rintro (e | hm)
        · exact absurd (by rw [← e]) hx
        · exact hm
      · exact Or.inr

/-! ### `live` -/

theorem live_sorted (side : VMap) (h : NodupP side) : SortedK (live side) := by
  have hf : NodupP (side.filter (fun e => !e.deleted)) := List.Pairwise.sublist List.filter_sublist h
  have := Tree.sortPVs_sortedLt _ (pathsDistinct_tree _ hf)
  rw [← sortByPath_tree _ hf] at this
  simp only [Tree.SortedLt, List.pairwise_map, toTree] at this
  simp only [SortedK, live, List.pairwise_map]
  exact this

theorem mem_live (side : VMap) (h : NodupP side) (p v : Str) :
    (p, v) ∈ live side ↔ liveAt side p = some v := by
  simp only [live, List.mem_map, mem_sortByPath, List.mem_filter, Bool.not_eq_true', Prod.mk.injEq]
  rw [liveAt_eq]
  constructor
  · rintro ⟨e, ⟨hem, hed⟩, hp, hv⟩
    rw [← hp, get_of_mem side e h hem]
    simp [liveOpt, hed, hv]
  · intro hl
    cases hg : VMap.get side p with
    | none => rw [hg] at hl; simp [liveOpt] at hl
    | some e =>
      rw [hg] at hl
      simp only [liveOpt] at hl
      by_cases hed : e.deleted = true
      · simp [hed] at hl
      · simp only [hed, Bool.false_eq_true, if_false, Option.some.injEq] at hl
        exact ⟨e, ⟨(get_some side p e hg).1, by simpa using hed⟩, (get_some side p e hg).2, hl⟩

/-- reading the same at every path, the stored configuration and the reference configuration
    are shown as the same list. -/
theorem live_eq_view (side : VMap) (st : Spec.State) (hn : NodupP side) (hk : Spec.NodupK st)
    (h : ∀ p, liveAt side p = Spec.get st p) : live side = Spec.view st := by
  apply sortedK_ext _ _ (live_sorted side hn) (view_sorted st hk)
  rintro ⟨p, v⟩
  rw [mem_live side hn, mem_view, mem_state_iff_get st hk, h p]

end OnosVerif.Config
