/- Helper lemmas for the C16 theorems (OnosVerif/Props/C16.lean). -/
import OnosVerif.Path.Model
import OnosVerif.Path.WF

namespace OnosVerif.Path

/-! ### findUnescaped -/

theorem writeSafe_length_pos (e : Char) (s : Str) (h : s ≠ []) : writeSafe e s ≠ [] := by
  cases s with
  | nil => exact absurd rfl h
  | cons c cs => simp only [writeSafe]; split <;> simp

theorem findUnescSlow_nil (f : Char) (i : Nat) : findUnescSlow f i [] = ([], none) := by
  rw [findUnescSlow.eq_def]

theorem findUnescSlow_found (f : Char) (i : Nat) (cs : Str) :
    findUnescSlow f i (f :: cs) = ([], some i) := by
  rw [findUnescSlow.eq_def]; simp

theorem findUnescSlow_esc (f : Char) (hf : f ≠ '\\') (i : Nat) (d : Char) (ds : Str) :
    findUnescSlow f i ('\\' :: d :: ds) =
      (d :: (findUnescSlow f (i + 2) ds).1, (findUnescSlow f (i + 2) ds).2) := by
  have hne : ('\\' : Char) ≠ f := fun h => hf h.symm
  rw [findUnescSlow.eq_def]; simp [hne]

theorem findUnescSlow_plain (f : Char) (i : Nat) (c : Char) (cs : Str) (h1 : c ≠ f) (h2 : c ≠ '\\') :
    findUnescSlow f i (c :: cs) =
      (c :: (findUnescSlow f (i + 1) cs).1, (findUnescSlow f (i + 1) cs).2) := by
  rw [findUnescSlow.eq_def]; simp [h1, h2]

/-- unescaping an escaped string up to a following unescaped `f`. -/
theorem findUnescSlow_writeSafe_found (e f : Char) (hf : f ≠ '\\') (s rest : Str) (i : Nat)
    (hs : ∀ c ∈ s, c = f → c = e) :
    findUnescSlow f i (writeSafe e s ++ f :: rest) = (s, some (i + (writeSafe e s).length)) := by
  induction s generalizing i with
  | nil => simp [writeSafe, findUnescSlow_found]
  | cons c cs ih =>
    have hcs : ∀ c' ∈ cs, c' = f → c' = e := fun c' hc' => hs c' (List.mem_cons_of_mem _ hc')
    simp only [writeSafe]
    by_cases h1 : c = e ∨ c = '\\'
    · simp only [h1, if_true, List.cons_append]
      rw [findUnescSlow_esc f hf, ih (i + 2) hcs]
      simp only [List.length_cons]
      congr 2
      omega
    · simp only [h1, if_false, List.cons_append]
      have hcf : c ≠ f := by
        intro h
        have := hs c List.mem_cons_self h
        exact h1 (Or.inl this)
      have hcb : c ≠ '\\' := fun h => h1 (Or.inr h)
      rw [findUnescSlow_plain f i c _ hcf hcb, ih (i + 1) hcs]
      simp only [List.length_cons]
      congr 2
      omega

theorem findUnescSlow_writeSafe_none (e f : Char) (hf : f ≠ '\\') (s : Str) (i : Nat)
    (hs : ∀ c ∈ s, c = f → c = e) :
    findUnescSlow f i (writeSafe e s) = (s, none) := by
  induction s generalizing i with
  | nil => simp [writeSafe, findUnescSlow_nil]
  | cons c cs ih =>
    have hcs : ∀ c' ∈ cs, c' = f → c' = e := fun c' hc' => hs c' (List.mem_cons_of_mem _ hc')
    simp only [writeSafe]
    by_cases h1 : c = e ∨ c = '\\'
    · simp only [h1, if_true]
      rw [findUnescSlow_esc f hf, ih (i + 2) hcs]
    · simp only [h1, if_false]
      have hcf : c ≠ f := by
        intro h
        have := hs c List.mem_cons_self h
        exact h1 (Or.inl this)
      have hcb : c ≠ '\\' := fun h => h1 (Or.inr h)
      rw [findUnescSlow_plain f i c _ hcf hcb, ih (i + 1) hcs]

/-- a plain prefix (no `f`, no backslash) is returned as it is. -/
theorem findUnescSlow_plain_found (f : Char) (k rest : Str) (i : Nat)
    (hk : ∀ c ∈ k, c ≠ f ∧ c ≠ '\\') :
    findUnescSlow f i (k ++ f :: rest) = (k, some (i + k.length)) := by
  induction k generalizing i with
  | nil => simp [findUnescSlow_found]
  | cons c cs ih =>
    have h := hk c List.mem_cons_self
    have hcs : ∀ c' ∈ cs, c' ≠ f ∧ c' ≠ '\\' := fun c' hc' => hk c' (List.mem_cons_of_mem _ hc')
    rw [List.cons_append, findUnescSlow_plain f i c _ h.1 h.2, ih (i + 1) hcs]
    simp only [List.length_cons]
    congr 2
    omega

/-! the fast track of `findUnescaped` computes what the slow path computes -/

theorem indexOf_ge (f : Char) (s : Str) (i j : Nat) (h : indexOf f i s = some j) : i ≤ j := by
  induction s generalizing i with
  | nil => simp [indexOf] at h
  | cons c cs ih =>
    simp only [indexOf] at h
    split at h
    · simp at h; omega
    · have := ih (i + 1) h; omega

theorem findUnescSlow_noBackslash (f : Char) (s : Str) (i : Nat) (hs : ∀ c ∈ s, c ≠ '\\') :
    findUnescSlow f i s =
      match indexOf f i s with
      | none => (s, none)
      | some j => (s.take (j - i), some j) := by
  induction s generalizing i with
  | nil => simp [findUnescSlow_nil, indexOf]
  | cons c cs ih =>
    have hc : c ≠ '\\' := hs c List.mem_cons_self
    have hcs : ∀ c' ∈ cs, c' ≠ '\\' := fun c' hc' => hs c' (List.mem_cons_of_mem _ hc')
    simp only [indexOf]
    by_cases hcf : c = f
    · subst hcf; simp [findUnescSlow_found]
    · simp only [hcf, if_false]
      rw [findUnescSlow_plain f i c _ hcf hc, ih (i + 1) hcs]
      cases hidx : indexOf f (i + 1) cs with
      | none => simp
      | some j =>
        have := indexOf_ge f cs (i + 1) j hidx
        simp only
        have : j - i = (j - (i + 1)) + 1 := by omega
        rw [this, List.take_succ_cons]

theorem findUnescaped_eq_slow (s : Str) (f : Char) : findUnescaped s f = findUnescSlow f 0 s := by
  unfold findUnescaped
  split
  · rename_i h
    have hs : ∀ c ∈ s, c ≠ '\\' := by
      intro c hc hcb
      subst hcb
      simp [hc] at h
    rw [findUnescSlow_noBackslash f s 0 hs]
    cases indexOf f 0 s <;> simp
  · rfl

/-! ### strLt, mapInsert, sortKeys -/

theorem strLt_irrefl (a : Str) : strLt a a = false := by
  induction a with
  | nil => rfl
  | cons c cs ih => simp [strLt, ih]

theorem strLt_asymm (a b : Str) (h : strLt a b = true) : strLt b a = false := by
  induction a generalizing b with
  | nil => cases b <;> simp [strLt] at h ⊢
  | cons c cs ih =>
    cases b with
    | nil => simp [strLt] at h
    | cons d ds =>
      simp only [strLt] at h ⊢
      by_cases h1 : c.toNat < d.toNat
      · have : ¬ d.toNat < c.toNat := by omega
        simp [this, h1]
      · simp only [h1, if_false] at h
        by_cases h2 : d.toNat < c.toNat
        · simp [h2] at h
        · simp only [h2, if_false] at h
          simp [h1, h2, ih ds h]

theorem strLt_ne (a b : Str) (h : strLt a b = true) : a ≠ b := by
  intro hab; subst hab; rw [strLt_irrefl] at h; exact absurd h (by simp)

theorem mapInsert_last (k v : Str) (acc : List (Str × Str))
    (h : ∀ kv ∈ acc, strLt kv.1 k = true) : mapInsert k v acc = acc ++ [(k, v)] := by
  induction acc with
  | nil => rfl
  | cons a rest ih =>
    obtain ⟨k', v'⟩ := a
    have h1 : strLt k' k = true := h (k', v') List.mem_cons_self
    have h2 : strLt k k' = false := strLt_asymm _ _ h1
    have h3 : k ≠ k' := fun e => strLt_ne _ _ h1 e.symm
    simp only [mapInsert, h2, h3, if_false, List.cons_append]
    rw [ih (fun kv hkv => h kv (List.mem_cons_of_mem _ hkv))]
    simp

theorem mapInsert_first (k v : Str) (acc : List (Str × Str))
    (h : ∀ kv ∈ acc, strLt k kv.1 = true) : mapInsert k v acc = (k, v) :: acc := by
  cases acc with
  | nil => rfl
  | cons a rest =>
    obtain ⟨k', v'⟩ := a
    have h1 : strLt k k' = true := h (k', v') List.mem_cons_self
    simp [mapInsert, h1]

theorem sortKeys_sorted (m : List (Str × Str)) (h : keysSorted m = true) : sortKeys m = m := by
  induction m with
  | nil => rfl
  | cons a rest ih =>
    simp only [keysSorted, Bool.and_eq_true, List.all_eq_true] at h
    have : sortKeys (a :: rest) = mapInsert a.1 a.2 (sortKeys rest) := rfl
    rw [this, ih h.2, mapInsert_first _ _ _ h.1]

/-! ### parseKey / parseKeys / parseElement on printed text -/

theorem drop_append_cons (k : Str) (x : Char) (X : Str) : (k ++ x :: X).drop (k.length + 1) = X := by
  induction k with
  | nil => rfl
  | cons c cs ih => simpa using ih

theorem drop_append_len (k X : Str) : (k ++ X).drop k.length = X := by
  induction k with
  | nil => rfl
  | cons c cs ih => simpa using ih

theorem take_append_len (k X : Str) : (k ++ X).take k.length = k := by
  induction k with
  | nil => simp
  | cons c cs ih => simpa using ih

def keysText (ks : List (Str × Str)) : Str := ks.flatMap strKey

theorem strKey_append (k v rest : Str) :
    strKey (k, v) ++ rest = '[' :: (k ++ '=' :: (writeSafe ']' v ++ ']' :: rest)) := by
  simp [strKey]

theorem parseKey_strKey (k v rest : Str) (hk : keyNameOK k = true) (hv : keyValOK v = true) :
    parseKey (strKey (k, v) ++ rest) = .ok (k, v, rest) := by
  rw [strKey_append]
  simp only [keyNameOK, keyValOK, Bool.and_eq_true, List.all_eq_true, Bool.not_eq_true',
    decide_eq_true_eq] at hk hv
  have hkplain : ∀ c ∈ k, c ≠ '=' ∧ c ≠ '\\' := fun c hc => ⟨(hk.2 c hc).1.1, (hk.2 c hc).1.2⟩
  have h1 := findUnescSlow_plain_found '=' k (writeSafe ']' v ++ ']' :: rest) 0 hkplain
  have h2 := findUnescSlow_writeSafe_found ']' ']' (by decide) v rest 0 (fun _ _ h => h)
  simp only [parseKey, findUnescaped_eq_slow, h1, Nat.zero_add, hk.1]
  have hd : (('[' : Char) :: (k ++ '=' :: (writeSafe ']' v ++ ']' :: rest))).drop (1 + k.length + 1)
      = writeSafe ']' v ++ ']' :: rest := by
    have : 1 + k.length + 1 = (k.length + 1) + 1 := by omega
    rw [this, List.drop_succ_cons, drop_append_cons]
  simp only [hd, h2, Nat.zero_add, hv, drop_append_cons]
  simp

theorem keysText_cons (kv : Str × Str) (ks : List (Str × Str)) :
    keysText (kv :: ks) = strKey kv ++ keysText ks := by
  simp [keysText]

theorem strKey_length_pos (kv : Str × Str) : 0 < (strKey kv).length := by
  simp [strKey]

theorem parseKeys_keysText (ks acc : List (Str × Str)) (fuel : Nat)
    (hfuel : (keysText ks).length ≤ fuel)
    (hok : ∀ kv ∈ ks, keyNameOK kv.1 = true ∧ keyValOK kv.2 = true)
    (hsorted : keysSorted ks = true)
    (hacc : ∀ a ∈ acc, ∀ b ∈ ks, strLt a.1 b.1 = true) :
    parseKeys fuel (keysText ks) acc = .ok (acc ++ ks) := by
  induction ks generalizing acc fuel with
  | nil =>
    cases fuel <;> simp [parseKeys, keysText]
  | cons kv ks ih =>
    obtain ⟨k, v⟩ := kv
    have hpos := strKey_length_pos (k, v)
    rw [keysText_cons] at hfuel ⊢
    rw [List.length_append] at hfuel
    cases fuel with
    | zero => omega
    | succ fuel =>
      have hne : (strKey (k, v) ++ keysText ks).isEmpty = false := by
        simp [strKey]
      have hkv := hok (k, v) List.mem_cons_self
      simp only [parseKeys, hne, parseKey_strKey k v (keysText ks) hkv.1 hkv.2]
      simp only [keysSorted, Bool.and_eq_true, List.all_eq_true] at hsorted
      have hins : mapInsert k v acc = acc ++ [(k, v)] :=
        mapInsert_last k v acc (fun a ha => hacc a ha (k, v) List.mem_cons_self)
      simp only [Bool.false_eq_true, if_false, hins]
      rw [ih (acc ++ [(k, v)]) fuel (by omega)
        (fun kv' h' => hok kv' (List.mem_cons_of_mem _ h')) hsorted.2]
      · simp
      · intro a ha b hb
        rcases List.mem_append.mp ha with h | h
        · exact hacc a h b (List.mem_cons_of_mem _ hb)
        · simp only [List.mem_singleton] at h
          subst h
          exact hsorted.1 b hb

/-- the text of one element without its leading `/` (keys already in canonical order). -/
def elemBody (e : Elem) : Str := writeSafe '/' e.name ++ keysText e.keys

theorem strElem_eq (e : Elem) (h : keysSorted e.keys = true) : strElem e = '/' :: elemBody e := by
  simp [strElem, elemBody, keysText, sortKeys_sorted e.keys h]

theorem nameOK_spec (n : Str) (h : nameOK n = true) : n ≠ [] ∧ ∀ c ∈ n, c ≠ '[' := by
  simp only [nameOK, Bool.and_eq_true, Bool.not_eq_true', List.all_eq_true, decide_eq_true_eq] at h
  refine ⟨?_, h.2⟩
  intro hn; subst hn; simp at h

theorem parseElement_elemBody (e : Elem) (h : elemWF e = true) : parseElement (elemBody e) = .ok e := by
  obtain ⟨name, keys⟩ := e
  simp only [elemWF, Bool.and_eq_true, List.all_eq_true] at h
  obtain ⟨⟨hname, hkeys⟩, hsorted⟩ := h
  obtain ⟨hne, hnb⟩ := nameOK_spec name hname
  have hs : ∀ c ∈ name, c = '[' → c = '/' := fun c hc h => absurd h (hnb c hc)
  cases keys with
  | nil =>
    simp only [elemBody, keysText, List.flatMap_nil, List.append_nil, parseElement,
      findUnescaped_eq_slow, findUnescSlow_writeSafe_none '/' '[' (by decide) name 0 hs]
  | cons kv ks =>
    have hkt : keysText (kv :: ks) = '[' :: (kv.1 ++ '=' :: (writeSafe ']' kv.2 ++ ']' :: keysText ks)) := by
      rw [keysText_cons]; obtain ⟨k, v⟩ := kv; exact strKey_append k v _
    have hfound := findUnescSlow_writeSafe_found '/' '[' (by decide) name
      (kv.1 ++ '=' :: (writeSafe ']' kv.2 ++ ']' :: keysText ks)) 0 hs
    have hnameE : name.isEmpty = false := by
      cases name with
      | nil => exact absurd rfl hne
      | cons _ _ => rfl
    simp only [elemBody, parseElement, findUnescaped_eq_slow]
    rw [hkt, hfound]
    simp only [Nat.zero_add, hnameE, Bool.false_eq_true, if_false, drop_append_len]
    rw [← hkt]
    have hpk := parseKeys_keysText (kv :: ks) [] (keysText (kv :: ks)).length (Nat.le_refl _)
      (fun kv' h' => by simpa [Bool.and_eq_true] using hkeys kv' h') hsorted (by simp)
    rw [hpk]
    simp

/-! ### the scanner of `nextTokenIndex` on printed text -/

theorem scan_name (name rest : Str) (i : Nat) (h : ∀ c ∈ name, c ≠ '[') :
    nextTokAux false false i (writeSafe '/' name ++ rest)
      = nextTokAux false false (i + (writeSafe '/' name).length) rest := by
  induction name generalizing i with
  | nil => simp [writeSafe]
  | cons c cs ih =>
    have hc : c ≠ '[' := h c List.mem_cons_self
    have hcs : ∀ c' ∈ cs, c' ≠ '[' := fun c' hc' => h c' (List.mem_cons_of_mem _ hc')
    simp only [writeSafe]
    by_cases h1 : c = '/'
    · subst h1
      simp only [true_or, if_true, List.cons_append, nextTokAux, List.length_cons]
      simp only [show ('\\' : Char) ≠ '[' by decide, show ('\\' : Char) ≠ ']' by decide,
        show ('/' : Char) ≠ '[' by decide, show ('/' : Char) ≠ ']' by decide,
        show ('/' : Char) ≠ '\\' by decide, if_false, if_true, Bool.not_false, Bool.not_true,
        Bool.and_false, Bool.false_eq_true]
      rw [ih (i + 1 + 1) hcs]; congr 1; omega
    · by_cases h2 : c = '\\'
      · subst h2
        simp only [or_true, if_true, List.cons_append, nextTokAux, List.length_cons]
        simp only [show ('\\' : Char) ≠ '[' by decide, show ('\\' : Char) ≠ ']' by decide,
          if_false, if_true, Bool.not_false, Bool.not_true]
        rw [ih (i + 1 + 1) hcs]; congr 1; omega
      · simp only [h1, h2, or_self, if_false, List.cons_append, nextTokAux, hc, List.length_cons]
        by_cases h3 : c = ']'
        · simp only [h3, if_true, Bool.false_eq_true, if_false]
          rw [ih (i + 1) hcs]; congr 1; omega
        · simp only [h3, if_false]
          rw [ih (i + 1) hcs]; congr 1; omega

theorem scan_value (v rest : Str) (i : Nat) :
    nextTokAux true false i (writeSafe ']' v ++ rest)
      = nextTokAux true false (i + (writeSafe ']' v).length) rest := by
  induction v generalizing i with
  | nil => simp [writeSafe]
  | cons c cs ih =>
    simp only [writeSafe]
    by_cases h1 : c = ']'
    · subst h1
      simp only [true_or, if_true, List.cons_append, nextTokAux, List.length_cons]
      simp only [show ('\\' : Char) ≠ '[' by decide, show ('\\' : Char) ≠ ']' by decide,
        show (']' : Char) ≠ '[' by decide, if_false, if_true, Bool.not_false]
      rw [ih (i + 1 + 1)]; congr 1; omega
    · by_cases h2 : c = '\\'
      · subst h2
        simp only [or_true, if_true, List.cons_append, nextTokAux, List.length_cons]
        simp only [show ('\\' : Char) ≠ '[' by decide, show ('\\' : Char) ≠ ']' by decide,
          if_false, if_true, Bool.not_false, Bool.not_true]
        rw [ih (i + 1 + 1)]; congr 1; omega
      · simp only [h1, h2, or_self, if_false, List.cons_append, nextTokAux, List.length_cons]
        by_cases h3 : c = '['
        · simp only [h3, if_true]
          rw [ih (i + 1)]; congr 1; omega
        · simp only [h3, if_false]
          by_cases h4 : c = '/'
          · simp only [h4, if_true, Bool.not_true, Bool.false_and, Bool.false_eq_true, if_false]
            rw [ih (i + 1)]; congr 1; omega
          · simp only [h4, if_false]
            rw [ih (i + 1)]; congr 1; omega

theorem scan_keyName (k rest : Str) (i : Nat) (h : ∀ c ∈ k, c ≠ ']' ∧ c ≠ '\\') :
    nextTokAux true false i (k ++ rest) = nextTokAux true false (i + k.length) rest := by
  induction k generalizing i with
  | nil => simp
  | cons c cs ih =>
    have hc := h c List.mem_cons_self
    have hcs : ∀ c' ∈ cs, c' ≠ ']' ∧ c' ≠ '\\' := fun c' hc' => h c' (List.mem_cons_of_mem _ hc')
    simp only [List.cons_append, nextTokAux, hc.1, hc.2, if_false, List.length_cons]
    by_cases h3 : c = '['
    · simp only [h3, if_true]
      rw [ih (i + 1) hcs]; congr 1; omega
    · simp only [h3, if_false]
      by_cases h4 : c = '/'
      · simp only [h4, if_true, Bool.not_true, Bool.false_and, Bool.false_eq_true, if_false]
        rw [ih (i + 1) hcs]; congr 1; omega
      · simp only [h4, if_false]
        rw [ih (i + 1) hcs]; congr 1; omega

theorem scan_key (k v rest : Str) (i : Nat) (hk : keyNameOK k = true) :
    nextTokAux false false i (strKey (k, v) ++ rest)
      = nextTokAux false false (i + (strKey (k, v)).length) rest := by
  simp only [keyNameOK, Bool.and_eq_true, List.all_eq_true, decide_eq_true_eq] at hk
  have hkn : ∀ c ∈ k, c ≠ ']' ∧ c ≠ '\\' := fun c hc => ⟨(hk.2 c hc).2, (hk.2 c hc).1.2⟩
  rw [strKey_append]
  simp only [nextTokAux, if_true]
  rw [scan_keyName k _ (i + 1) hkn]
  simp only [nextTokAux, show ('=' : Char) ≠ '[' by decide, show ('=' : Char) ≠ ']' by decide,
    show ('=' : Char) ≠ '\\' by decide, show ('=' : Char) ≠ '/' by decide, if_false]
  rw [scan_value v _ _]
  simp only [nextTokAux, show (']' : Char) ≠ '[' by decide, if_false, if_true, Bool.false_eq_true]
  congr 1
  simp [strKey]
  omega

theorem scan_keys (ks : List (Str × Str)) (rest : Str) (i : Nat)
    (h : ∀ kv ∈ ks, keyNameOK kv.1 = true) :
    nextTokAux false false i (keysText ks ++ rest)
      = nextTokAux false false (i + (keysText ks).length) rest := by
  induction ks generalizing i with
  | nil => simp [keysText]
  | cons kv ks ih =>
    obtain ⟨k, v⟩ := kv
    rw [keysText_cons, List.append_assoc, scan_key k v _ i (h (k, v) List.mem_cons_self),
      ih _ (fun kv' h' => h kv' (List.mem_cons_of_mem _ h'))]
    congr 1
    simp only [List.length_append]
    omega

theorem scan_elemBody (e : Elem) (rest : Str) (i : Nat) (h : elemWF e = true) :
    nextTokAux false false i (elemBody e ++ rest)
      = nextTokAux false false (i + (elemBody e).length) rest := by
  simp only [elemWF, Bool.and_eq_true, List.all_eq_true] at h
  obtain ⟨⟨hname, hkeys⟩, _⟩ := h
  obtain ⟨_, hnb⟩ := nameOK_spec e.name hname
  simp only [elemBody, List.append_assoc]
  rw [scan_name e.name _ i hnb, scan_keys e.keys rest _ (fun kv hkv => (hkeys kv hkv).1)]
  congr 1
  simp only [List.length_append]
  omega

/-! ### SplitPath on printed text -/

theorem strPathElem_cons (e : Elem) (es : GPath) (h : keysSorted e.keys = true) :
    strPathElem (e :: es) = '/' :: (elemBody e ++ strPathElem es) := by
  simp [strPathElem, strElem_eq e h]

theorem elemBody_ne_nil (e : Elem) (h : elemWF e = true) : elemBody e ≠ [] := by
  simp only [elemWF, Bool.and_eq_true] at h
  obtain ⟨hne, _⟩ := nameOK_spec e.name h.1.1
  have := writeSafe_length_pos '/' e.name hne
  intro hb
  simp only [elemBody, List.append_eq_nil_iff] at hb
  exact this hb.1

theorem splitLoop_nil (fuel : Nat) : splitLoop fuel [] = [] := by
  cases fuel <;> simp [splitLoop]

theorem elemWF_sorted (e : Elem) (h : elemWF e = true) : keysSorted e.keys = true := by
  simp only [elemWF, Bool.and_eq_true] at h; exact h.2

theorem splitLoop_text (es : GPath) (e : Elem) (fuel : Nat)
    (hwf : pathWF (e :: es) = true)
    (hfuel : (elemBody e ++ strPathElem es).length ≤ fuel) :
    splitLoop fuel (elemBody e ++ strPathElem es) = elemBody e :: es.map elemBody := by
  induction es generalizing e fuel with
  | nil =>
    simp only [pathWF, List.all_cons, List.all_nil, Bool.and_true] at hwf
    have hne := elemBody_ne_nil e hwf
    simp only [strPathElem, List.flatMap_nil, List.append_nil] at hfuel ⊢
    cases fuel with
    | zero =>
      cases hb : elemBody e with
      | nil => exact absurd hb hne
      | cons _ _ => rw [hb] at hfuel; simp at hfuel
    | succ fuel =>
      have hE : (elemBody e).isEmpty = false := by
        cases hb : elemBody e with
        | nil => exact absurd hb hne
        | cons _ _ => rfl
      have hscan := scan_elemBody e [] 0 hwf
      simp only [List.append_nil, nextTokAux, Nat.zero_add] at hscan
      simp only [splitLoop, hE, Bool.false_eq_true, if_false, nextTokenIndex, hscan,
        List.take_length, List.drop_length, stripSlash, splitLoop_nil, List.map_nil]
  | cons e' es' ih =>
    simp only [pathWF, List.all_cons, Bool.and_eq_true] at hwf
    obtain ⟨hwe, hwe', hwes⟩ := hwf
    have hne := elemBody_ne_nil e hwe
    have hrest : strPathElem (e' :: es') = '/' :: (elemBody e' ++ strPathElem es') :=
      strPathElem_cons e' es' (elemWF_sorted e' hwe')
    rw [hrest] at hfuel ⊢
    cases fuel with
    | zero =>
      simp at hfuel
    | succ fuel =>
      have hE : (elemBody e ++ '/' :: (elemBody e' ++ strPathElem es')).isEmpty = false := by
        cases hb : elemBody e with
        | nil => exact absurd hb hne
        | cons _ _ => rfl
      have hscan := scan_elemBody e ('/' :: (elemBody e' ++ strPathElem es')) 0 hwe
      simp only [nextTokAux, Nat.zero_add, show ('/' : Char) ≠ '[' by decide,
        show ('/' : Char) ≠ ']' by decide, show ('/' : Char) ≠ '\\' by decide, if_false, if_true,
        Bool.not_false, Bool.and_self] at hscan
      have hwf' : pathWF (e' :: es') = true := by
        simp only [pathWF, List.all_cons, Bool.and_eq_true]; exact ⟨hwe', hwes⟩
      have hfuel' : (elemBody e' ++ strPathElem es').length ≤ fuel := by
        simp only [List.length_append, List.length_cons] at hfuel ⊢; omega
      simp only [splitLoop, hE, Bool.false_eq_true, if_false, nextTokenIndex, hscan,
        take_append_len, drop_append_len, stripSlash, List.map_cons]
      rw [ih e' fuel hwf' hfuel']

theorem splitPath_strPathElem (p : GPath) (hwf : pathWF p = true) :
    splitPath (strPathElem p) = p.map elemBody := by
  cases p with
  | nil => simp [splitPath, strPathElem, stripSlash, splitLoop]
  | cons e es =>
    have hwe : elemWF e = true := by
      simp only [pathWF, List.all_cons, Bool.and_eq_true] at hwf; exact hwf.1
    rw [strPathElem_cons e es (elemWF_sorted e hwe)]
    simp only [splitPath, stripSlash, List.length_cons]
    exact splitLoop_text es e _ hwf (by omega)

theorem parseElements_bodies (p : GPath) (hwf : pathWF p = true) :
    parseElements (p.map elemBody) = .ok p := by
  induction p with
  | nil => rfl
  | cons e es ih =>
    simp only [pathWF, List.all_cons, Bool.and_eq_true] at hwf
    simp only [List.map_cons, parseElements, parseElement_elemBody e hwf.1]
    rw [ih (by simpa [pathWF] using hwf.2)]

/-! ### GetParentPath -/

theorem lastIndexOf_append (f : Char) (a b : Str) (i : Nat) (last : Option Nat) :
    lastIndexOf f i (a ++ b) last = lastIndexOf f (i + a.length) b (lastIndexOf f i a last) := by
  induction a generalizing i last with
  | nil => simp [lastIndexOf]
  | cons c cs ih =>
    simp only [List.cons_append, lastIndexOf, List.length_cons]
    rw [ih]; congr 1; omega

theorem lastIndexOf_absent (f : Char) (b : Str) (i : Nat) (last : Option Nat) (h : ∀ c ∈ b, c ≠ f) :
    lastIndexOf f i b last = last := by
  induction b generalizing i last with
  | nil => rfl
  | cons c cs ih =>
    simp only [lastIndexOf, h c List.mem_cons_self, if_false]
    exact ih _ _ (fun c' hc' => h c' (List.mem_cons_of_mem _ hc'))

theorem mem_writeSafe (e : Char) (s : Str) (c : Char) (h : c ∈ writeSafe e s) : c = '\\' ∨ c ∈ s := by
  induction s with
  | nil => simp [writeSafe] at h
  | cons d ds ih =>
    simp only [writeSafe] at h
    split at h
    · simp only [List.mem_cons] at h
      rcases h with h | h | h
      · exact Or.inl h
      · exact Or.inr (by simp [h])
      · rcases ih h with h' | h'
        · exact Or.inl h'
        · exact Or.inr (List.mem_cons_of_mem _ h')
    · simp only [List.mem_cons] at h
      rcases h with h | h
      · exact Or.inr (by simp [h])
      · rcases ih h with h' | h'
        · exact Or.inl h'
        · exact Or.inr (List.mem_cons_of_mem _ h')

theorem elemBody_noSlash (e : Elem) (h : elemNoSlash e = true) : ∀ c ∈ elemBody e, c ≠ '/' := by
  simp only [elemNoSlash, Bool.and_eq_true, List.all_eq_true, decide_eq_true_eq] at h
  obtain ⟨hn, hk⟩ := h
  intro c hc
  simp only [elemBody, List.mem_append] at hc
  rcases hc with hc | hc
  · rcases mem_writeSafe _ _ _ hc with h' | h'
    · subst h'; decide
    · exact hn c h'
  · simp only [keysText, List.mem_flatMap] at hc
    obtain ⟨kv, hkv, hc⟩ := hc
    have := hk kv hkv
    simp only [strKey, List.mem_cons, List.mem_append] at hc
    rcases hc with hc | hc | hc | hc | hc
    · subst hc; decide
    · exact this.1 c hc
    · subst hc; decide
    · rcases mem_writeSafe _ _ _ hc with h' | h'
      · subst h'; decide
      · exact this.2 c h'
    · simp only [List.not_mem_nil, or_false] at hc
      subst hc; decide

theorem strPathElem_append_single (p : GPath) (e : Elem) (h : keysSorted e.keys = true) :
    strPathElem (p ++ [e]) = strPathElem p ++ '/' :: elemBody e := by
  simp [strPathElem, strElem_eq e h]

theorem getParentPath_append (p : GPath) (e : Elem) (hs : keysSorted e.keys = true)
    (hns : elemNoSlash e = true) :
    getParentPath (strPathElem (p ++ [e])) = strPathElem p := by
  rw [strPathElem_append_single p e hs]
  unfold getParentPath
  rw [lastIndexOf_append]
  simp only [lastIndexOf, if_true, Nat.zero_add]
  rw [lastIndexOf_absent '/' (elemBody e) _ _ (elemBody_noSlash e hns)]
  simp only
  split
  · rename_i h0
    exact (List.eq_nil_of_length_eq_zero h0).symm
  · exact take_append_len _ _

end OnosVerif.Path

namespace OnosVerif.Path

/-! ### the property's quantifier implies the proofs' well-formedness -/

theorem identChar_plain (c : Char) (h : identChar c = true) :
    c ≠ '[' ∧ c ≠ '=' ∧ c ≠ '\\' ∧ c ≠ ']' ∧ c ≠ '/' := by
  refine ⟨?_, ?_, ?_, ?_, ?_⟩ <;> (intro hc; subst hc; revert h; decide)

theorem identStart_plain (c : Char) (h : identStart c = true) :
    c ≠ '[' ∧ c ≠ '=' ∧ c ≠ '\\' ∧ c ≠ ']' ∧ c ≠ '/' := by
  refine ⟨?_, ?_, ?_, ?_, ?_⟩ <;> (intro hc; subst hc; revert h; decide)

theorem isIdent_plain (s : Str) (h : isIdent s = true) :
    s ≠ [] ∧ ∀ c ∈ s, c ≠ '[' ∧ c ≠ '=' ∧ c ≠ '\\' ∧ c ≠ ']' ∧ c ≠ '/' := by
  cases s with
  | nil => simp [isIdent] at h
  | cons c cs =>
    simp only [isIdent, Bool.and_eq_true, List.all_eq_true] at h
    refine ⟨by simp, ?_⟩
    intro c' hc'
    simp only [List.mem_cons] at hc'
    rcases hc' with hc' | hc'
    · subst hc'; exact identStart_plain _ h.1
    · exact identChar_plain _ (h.2 c' hc')

theorem splitColon_spec (s : Str) :
    (∀ a, splitColon s = (a, none) → s = a) ∧
    (∀ a b, splitColon s = (a, some b) → s = a ++ ':' :: b) := by
  induction s with
  | nil => simp [splitColon]
  | cons c cs ih =>
    simp only [splitColon]
    by_cases hc : c = ':'
    · subst hc; simp
    · simp only [hc, if_false, Prod.mk.injEq]
      constructor
      · intro a ⟨h1, h2⟩
        subst h1
        have := ih.1 (splitColon cs).1 (by rw [← h2])
        rw [← this]
      · intro a b ⟨h1, h2⟩
        subst h1
        have := ih.2 (splitColon cs).1 b (by rw [← h2])
        simp only [List.cons_append]
        rw [← this]

theorem isYangName_plain (s : Str) (h : isYangName s = true) :
    s ≠ [] ∧ ∀ c ∈ s, c ≠ '[' ∧ c ≠ '=' ∧ c ≠ '\\' ∧ c ≠ ']' ∧ c ≠ '/' := by
  unfold isYangName at h
  split at h
  · rename_i a hsp
    have := (splitColon_spec s).1 a hsp
    subst this; exact isIdent_plain _ h
  · rename_i a b hsp
    have hs := (splitColon_spec s).2 a b hsp
    simp only [Bool.and_eq_true] at h
    obtain ⟨ha1, ha2⟩ := isIdent_plain a h.1
    obtain ⟨_, hb2⟩ := isIdent_plain b h.2
    rw [hs]
    refine ⟨by cases a <;> simp_all, ?_⟩
    intro c hc
    simp only [List.mem_append, List.mem_cons] at hc
    rcases hc with hc | hc | hc
    · exact ha2 c hc
    · subst hc; decide
    · exact hb2 c hc

theorem elemAccepted_wf (e : Elem) (h : elemAccepted e = true) : elemWF e = true := by
  simp only [elemAccepted, Bool.and_eq_true, List.all_eq_true] at h
  obtain ⟨⟨hn, hk⟩, hsorted⟩ := h
  obtain ⟨hne, hnc⟩ := isYangName_plain e.name hn
  simp only [elemWF, Bool.and_eq_true, List.all_eq_true, nameOK, keyNameOK, Bool.not_eq_true',
    decide_eq_true_eq]
  refine ⟨⟨⟨?_, fun c hc => (hnc c hc).1⟩, ?_⟩, hsorted⟩
  · cases hn' : e.name with
    | nil => exact absurd hn' hne
    | cons _ _ => rfl
  · intro kv hkv
    have := hk kv hkv
    obtain ⟨hkne, hkc⟩ := isYangName_plain kv.1 this.1
    refine ⟨⟨?_, fun c hc => ⟨⟨(hkc c hc).2.1, (hkc c hc).2.2.1⟩, (hkc c hc).2.2.2.1⟩⟩, this.2⟩
    cases hn' : kv.1 with
    | nil => exact absurd hn' hkne
    | cons _ _ => rfl

theorem pathAccepted_wf (p : GPath) (h : pathAccepted p = true) : pathWF p = true := by
  simp only [pathAccepted, pathWF, List.all_eq_true] at h ⊢
  exact fun e he => elemAccepted_wf e (h e he)

end OnosVerif.Path
