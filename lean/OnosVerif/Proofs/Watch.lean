/- Helper lemmas for the C15 theorems about the watch machine (OnosVerif/Props/C15.lean). -/
import OnosVerif.Store.Watch

namespace OnosVerif.Store.Watch
open OnosVerif.Store

/-! ### `lastFor` -/

theorem lastFor_append (k : Key) (a b : List Ev) :
    lastFor k (a ++ b) = match lastFor k b with | some x => some x | none => lastFor k a := by
  induction a with
  | nil =>
    simp only [List.nil_append]
    cases lastFor k b <;> rfl
  | cons e rest ih =>
    obtain ⟨k', v⟩ := e
    simp only [List.cons_append, lastFor]
    rw [ih]
    cases hb : lastFor k b with
    | some x => rfl
    | none => rfl

theorem lastFor_append_none (k : Key) (a b : List Ev) (h : lastFor k b = none) : lastFor k (a ++ b) = lastFor k a := by
  rw [lastFor_append, h]

theorem lastFor_append_some (k : Key) (a b : List Ev) (x : Nat) (h : lastFor k b = some x) :
    lastFor k (a ++ b) = some x := by
  rw [lastFor_append, h]

theorem lastFor_single_same (k : Key) (v : Nat) : lastFor k [(k, v)] = some v := by
  simp [lastFor]

theorem lastFor_single_other (k k' : Key) (v : Nat) (h : k' ≠ k) : lastFor k [(k', v)] = none := by
  simp [lastFor, h]

/-- replacing a middle segment by one with the same last `k`-event does not change the last `k`-event. -/
theorem lastFor_congr_mid (k : Key) (a b b' c : List Ev) (h : lastFor k b = lastFor k b') :
    lastFor k (a ++ b ++ c) = lastFor k (a ++ b' ++ c) := by
  rw [lastFor_append, lastFor_append k (a ++ b'), lastFor_append k a b, lastFor_append k a b', h]

theorem lastFor_filter (k : Key) (p : Key → Bool) (hp : p k = true) (l : List Ev) :
    lastFor k (l.filter (fun e => p e.1)) = lastFor k l := by
  induction l with
  | nil => rfl
  | cons e rest ih =>
    obtain ⟨k', v⟩ := e
    by_cases hk : k' = k
    · subst hk
      simp only [List.filter_cons, hp, if_true, lastFor, ih]
    · rw [List.filter_cons]
      cases hpk : p k' with
      | true => simp only [if_true, lastFor, ih]
      | false =>
        simp only [Bool.false_eq_true, if_false, lastFor, ih, hk]
        cases lastFor k rest <;> rfl

theorem lastFor_none_of_not_mem (k : Key) (l : List Ev) (h : ∀ e ∈ l, e.1 ≠ k) : lastFor k l = none := by
  induction l with
  | nil => rfl
  | cons e rest ih =>
    obtain ⟨k', v⟩ := e
    simp only [lastFor]
    rw [ih (fun e he => h e (List.mem_cons_of_mem _ he))]
    have : k' ≠ k := h (k', v) (List.mem_cons_self ..)
    simp [this]

/-! ### the snapshot shows the current version of every covered record -/

theorem mem_keysOf (k : Key) (l : List Ev) : k ∈ keysOf l ↔ ∃ v, (k, v) ∈ l := by
  induction l with
  | nil => simp [keysOf]
  | cons e rest ih =>
    obtain ⟨k', v'⟩ := e
    simp only [keysOf, List.mem_cons, List.mem_filter, decide_eq_true_eq, Prod.mk.injEq]
    constructor
    · rintro (h | ⟨h, _⟩)
      · exact ⟨v', Or.inl ⟨h, rfl⟩⟩
      · obtain ⟨v, hv⟩ := ih.mp h
        exact ⟨v, Or.inr hv⟩
    · rintro ⟨v, (⟨h, _⟩ | h)⟩
      · exact Or.inl h
      · by_cases hk : k = k'
        · exact Or.inl hk
        · exact Or.inr ⟨ih.mpr ⟨v, h⟩, hk⟩

theorem keysOf_nodup (l : List Ev) : (keysOf l).Nodup := by
  induction l with
  | nil => exact List.nodup_nil
  | cons e rest ih =>
    obtain ⟨k', v'⟩ := e
    simp only [keysOf]
    refine List.nodup_cons.mpr ⟨?_, ih.filter _⟩
    simp [List.mem_filter]

theorem lastFor_isSome_iff (k : Key) (l : List Ev) : (lastFor k l).isSome = true ↔ k ∈ keysOf l := by
  rw [mem_keysOf]
  induction l with
  | nil => simp [lastFor]
  | cons e rest ih =>
    obtain ⟨k', v'⟩ := e
    simp only [lastFor, List.mem_cons, Prod.mk.injEq]
    cases hl : lastFor k rest with
    | some x =>
      simp only [Option.isSome_some, true_iff]
      rw [hl] at ih
      obtain ⟨v, hv⟩ := ih.mp rfl
      exact ⟨v, Or.inr hv⟩
    | none =>
      rw [hl] at ih
      simp only [Option.isSome_none, Bool.false_eq_true, false_iff, not_exists] at ih
      by_cases hk : k' = k
      · simp only [hk, if_true, Option.isSome_some, true_iff]
        exact ⟨v', Or.inl ⟨trivial, rfl⟩⟩
      · simp only [hk, if_false, Option.isSome_none, Bool.false_eq_true, false_iff, not_exists]
        intro v hv
        rcases hv with ⟨h, _⟩ | h
        · exact hk h.symm
        · exact ih v h

/-- in a list of pairwise different keys mapped to `f key`, the last `k`-event is `f k`. -/
theorem lastFor_map_nodup (k : Key) (f : Key → Nat) (ks : List Key) (hn : ks.Nodup) :
    lastFor k (ks.map (fun k' => (k', f k'))) = if k ∈ ks then some (f k) else none := by
  induction ks with
  | nil => rfl
  | cons a rest ih =>
    have hn' := List.nodup_cons.mp hn
    simp only [List.map_cons, lastFor, ih hn'.2, List.mem_cons]
    by_cases hk : k ∈ rest
    · have : a ≠ k := fun h => hn'.1 (h ▸ hk)
      simp [hk]
    · by_cases ha : a = k
      · subst ha; simp [hk]
      · have : k ≠ a := fun h => ha h.symm
        simp [hk, ha, this]

theorem lastFor_snapshot (w : Watcher) (evs : List Ev) (k : Key) (hc : covers w k = true) :
    lastFor k (snapshot w evs) = lastFor k evs := by
  unfold snapshot
  rw [lastFor_map_nodup k (cur evs) _ ((keysOf_nodup evs).filter _)]
  simp only [List.mem_filter, hc, and_true]
  by_cases hk : k ∈ keysOf evs
  · simp only [hk, if_true]
    have := (lastFor_isSome_iff k evs).mpr hk
    unfold cur
    cases hl : lastFor k evs with
    | none => rw [hl] at this; simp at this
    | some x => rfl
  · simp only [hk, if_false]
    have : ¬ (lastFor k evs).isSome = true := fun h => hk ((lastFor_isSome_iff k evs).mp h)
    cases hl : lastFor k evs with
    | none => rfl
    | some x => rw [hl] at this; simp at this


/-! ### what a watcher has seen and will still be handed, in order -/

/-- events the per-watch goroutine holds or is about to read for the consumer. -/
def pendingOf (w : Watcher) (evs : List Ev) : List Ev :=
  match w.phase with
  | .replayRead => snapshot w evs
  | .replaying p => p
  | .forwarding e => [e]
  | _ => []

/-- the event the dispatcher still has to hand to watcher `i`. -/
def dispPart (d : Disp) (i : Nat) : List Ev :=
  match d with
  | .sending e rest => if i ∈ rest then [e] else []
  | .idle => []

/-- the events the dispatcher has not taken yet, as far as they concern the watcher. -/
def tailFor (s : St) (w : Watcher) : List Ev := (s.evs.drop s.dpos).filter (fun e => covers w e.1)

/-- delivered, then everything on its way, in delivery order. -/
def stream (s : St) (i : Nat) (w : Watcher) : List Ev :=
  w.delivered ++ pendingOf w s.evs ++ w.queue ++ dispPart s.disp i ++ tailFor s w

/-- the last version of every covered record in that stream is the store's current one (without replay:
    for records written since the registration). -/
def Good (s : St) (i : Nat) (w : Watcher) : Prop :=
  ∀ k, covers w k = true →
    (w.replay = true → lastFor k (stream s i w) = lastFor k s.evs) ∧
    (w.replay = false → lastFor k (s.evs.drop w.regAt) = none ∨ lastFor k (stream s i w) = lastFor k s.evs)

structure Inv (cfg : Cfg) (s : St) : Prop where
  dpos_le : s.dpos ≤ s.evs.length
  regAt_le : ∀ (i : Nat) (w : Watcher), s.ws[i]? = some w → w.regAt ≤ s.evs.length
  reg : ∀ (i : Nat) (w : Watcher), s.ws[i]? = some w → w.phase.active = true → w.registered = true
  snap : ∀ e rest, s.disp = .sending e rest → rest.Nodup ∧ ∀ i ∈ rest, i < s.ws.length
  own : cfg.ownStream = true → s.disp = .idle
  noq : cfg.ownStream = false → ∀ (i : Nat) (w : Watcher), s.ws[i]? = some w → w.queue = []
  good : ∀ (i : Nat) (w : Watcher), s.ws[i]? = some w → w.phase.active = true → Good s i w
  /-- no watcher has left without the drain goroutine, when the code has no such way out -/
  nogone : (cfg.earlyExitsDrain = true ∨ cfg.hasEarlyExit = false) →
    ∀ (i : Nat) (w : Watcher), s.ws[i]? = some w → w.phase ≠ .gone
  /-- the process is alive, when the code closes the consumer channel once -/
  nocrash : cfg.doubleClose = false → s.crashed = false

theorem inv_init (cfg : Cfg) : Inv cfg {} :=
  { dpos_le := Nat.le_refl _
    regAt_le := fun i w h => by simp at h
    reg := fun i w h => by simp at h
    snap := fun e rest h => by simp at h
    own := fun _ => rfl
    noq := fun _ i w h => by simp at h
    good := fun i w h => by simp at h
    nogone := fun _ i w h => by simp at h
    nocrash := fun _ => rfl }

theorem covers_key_eq {w w' : Watcher} (h : w'.key = w.key) (k : Key) : covers w' k = covers w k := by
  unfold covers; rw [h]

theorem snapshot_key_eq {w w' : Watcher} (h : w'.key = w.key) (evs : List Ev) : snapshot w' evs = snapshot w evs := by
  unfold snapshot
  have : covers w' = covers w := funext (covers_key_eq h)
  rw [this]

theorem tailFor_key_eq {w w' : Watcher} (h : w'.key = w.key) (s s' : St) (he : s'.evs = s.evs) (hd : s'.dpos = s.dpos) :
    tailFor s' w' = tailFor s w := by
  unfold tailFor
  have : (fun e : Ev => covers w' e.1) = (fun e => covers w e.1) := funext (fun e => covers_key_eq h e.1)
  rw [this, he, hd]

/-- transfer of `Good` along a step that leaves the events alone and the watcher's stream unchanged. -/
theorem good_transfer {s s' : St} {i : Nat} {w w' : Watcher} (he : s'.evs = s.evs) (hk : w'.key = w.key)
    (hr : w'.replay = w.replay) (ha : w'.regAt = w.regAt) (hs : stream s' i w' = stream s i w)
    (hg : Good s i w) : Good s' i w' := by
  intro k hc
  have hc' : covers w k = true := by rw [← covers_key_eq hk]; exact hc
  rw [hs, he, hr, ha]
  exact hg k hc'

theorem dispPart_next (e : Ev) (rest : List Nat) (i : Nat) :
    dispPart (Disp.next e rest) i = if i ∈ rest then [e] else [] := by
  cases rest with
  | nil => simp [Disp.next, dispPart]
  | cons a r => rfl

theorem dispPart_idle (i : Nat) : dispPart .idle i = [] := rfl

theorem mem_listeners (ws : List Watcher) (k : Key) (i : Nat) (w : Watcher) (h : ws[i]? = some w) :
    i ∈ listeners ws k ↔ (w.registered = true ∧ covers w k = true) := by
  unfold listeners
  rw [List.mem_filter, List.mem_range]
  rcases List.getElem?_eq_some_iff.mp h with ⟨hi, hw⟩
  rw [List.getElem?_eq_getElem hi]
  simp [hi, hw]

theorem listeners_nodup (ws : List Watcher) (k : Key) : (listeners ws k).Nodup :=
  List.nodup_range.filter _

theorem listeners_lt (ws : List Watcher) (k : Key) : ∀ i ∈ listeners ws k, i < ws.length := by
  intro i hi
  unfold listeners at hi
  exact List.mem_range.mp (List.mem_filter.mp hi).1

theorem lt_of_getElem? {α : Type} {l : List α} {i : Nat} {a : α} (h : l[i]? = some a) : i < l.length := by
  rcases List.getElem?_eq_some_iff.mp h with ⟨hi, _⟩; exact hi

/-! ### steps that replace one watcher -/

theorem setW_get_self (s : St) (i : Nat) (w w' : Watcher) (h : s.ws[i]? = some w) : (setW s i w').ws[i]? = some w' := by
  unfold setW
  exact List.getElem?_set_self (lt_of_getElem? h)

theorem setW_get_ne (s : St) (i j : Nat) (w' : Watcher) (h : i ≠ j) : (setW s i w').ws[j]? = s.ws[j]? := by
  unfold setW
  exact List.getElem?_set_ne h

/-- a step `setW s i w'` that keeps every global component, keeps the identity fields of watcher `i`
    and its stream (or retires it), and does not unregister an active watcher, preserves the invariant. -/
theorem inv_setW (cfg : Cfg) (s : St) (i : Nat) (w w' : Watcher) (hi : Inv cfg s) (hw : s.ws[i]? = some w)
    (hk : w'.key = w.key) (hr : w'.replay = w.replay) (ha : w'.regAt = w.regAt)
    (hq : cfg.ownStream = false → w'.queue = [])
    (hreg : w'.phase.active = true → w'.registered = true)
    (hs : w'.phase.active = true → w.phase.active = true ∧ stream (setW s i w') i w' = stream s i w)
    (hgone : (cfg.earlyExitsDrain = true ∨ cfg.hasEarlyExit = false) → w.phase ≠ .gone → w'.phase ≠ .gone) :
    Inv cfg (setW s i w') := by
  have hlen : (setW s i w').ws.length = s.ws.length := by unfold setW; exact List.length_set
  refine
    { dpos_le := hi.dpos_le
      regAt_le := ?_
      reg := ?_
      snap := fun e rest h => by
        obtain ⟨h1, h2⟩ := hi.snap e rest h
        exact ⟨h1, fun j hj => by rw [hlen]; exact h2 j hj⟩
      own := hi.own
      noq := ?_
      good := ?_
      nogone := fun hcnd j wj hj => by
        by_cases hij : i = j
        · subst hij
          rw [setW_get_self s i w w' hw] at hj
          cases hj
          exact hgone hcnd (hi.nogone hcnd i w hw)
        · rw [setW_get_ne s i j w' hij] at hj
          exact hi.nogone hcnd j wj hj
      nocrash := hi.nocrash }
  · intro j wj hj
    by_cases hij : i = j
    · subst hij
      rw [setW_get_self s i w w' hw] at hj
      cases hj
      rw [ha]; exact hi.regAt_le i w hw
    · rw [setW_get_ne s i j w' hij] at hj
      exact hi.regAt_le j wj hj
  · intro j wj hj hact
    by_cases hij : i = j
    · subst hij
      rw [setW_get_self s i w w' hw] at hj
      cases hj
      exact hreg hact
    · rw [setW_get_ne s i j w' hij] at hj
      exact hi.reg j wj hj hact
  · intro ho j wj hj
    by_cases hij : i = j
    · subst hij
      rw [setW_get_self s i w w' hw] at hj
      cases hj
      exact hq ho
    · rw [setW_get_ne s i j w' hij] at hj
      exact hi.noq ho j wj hj
  · intro j wj hj hact
    by_cases hij : i = j
    · subst hij
      rw [setW_get_self s i w w' hw] at hj
      cases hj
      obtain ⟨hwa, hst⟩ := hs hact
      exact good_transfer rfl hk hr ha hst (hi.good i w hw hwa)
    · rw [setW_get_ne s i j w' hij] at hj
      exact good_transfer rfl rfl rfl rfl rfl (hi.good j wj hj hact)


theorem stream_setW (s : St) (i j : Nat) (w' x : Watcher) : stream (setW s i w') j x = stream s j x := rfl

theorem stream_eq_of (s : St) (i : Nat) (w w' : Watcher) (hk : w'.key = w.key)
    (h : w'.delivered ++ pendingOf w' s.evs ++ w'.queue = w.delivered ++ pendingOf w s.evs ++ w.queue) :
    stream s i w' = stream s i w := by
  unfold stream
  rw [h, tailFor_key_eq hk s s rfl rfl]

/-- flag changes (`stopReading`, `resumeReading`, `cancel`). -/
theorem inv_flag (cfg : Cfg) (s s' : St) (i : Nat) (f : Watcher → Watcher) (hi : Inv cfg s)
    (hf : ∀ w, (f w).key = w.key ∧ (f w).replay = w.replay ∧ (f w).regAt = w.regAt ∧ (f w).queue = w.queue ∧
      (f w).phase = w.phase ∧ (f w).registered = w.registered ∧ (f w).delivered = w.delivered)
    (h : stepFlag s i f = some s') : Inv cfg s' := by
  unfold stepFlag at h
  cases hw : s.ws[i]? with
  | none => rw [hw] at h; cases h
  | some w =>
    rw [hw] at h
    simp only [Option.some.injEq] at h
    subst h
    obtain ⟨h1, h2, h3, h4, h5, h6, h7⟩ := hf w
    refine inv_setW cfg s i w (f w) hi hw h1 h2 h3 ?_ ?_ ?_ (fun _ hg => by rw [h5]; exact hg)
    · intro ho; rw [h4]; exact hi.noq ho i w hw
    · intro ha; rw [h6]; rw [h5] at ha; exact hi.reg i w hw ha
    · intro ha
      rw [h5] at ha
      refine ⟨ha, ?_⟩
      rw [stream_setW]
      apply stream_eq_of s i w (f w) h1
      unfold pendingOf
      rw [h7, h4, h5, snapshot_key_eq h1]

theorem inv_deliver (cfg : Cfg) (s s' : St) (i : Nat) (hi : Inv cfg s) (h : stepDeliver s i = some s') : Inv cfg s' := by
  unfold stepDeliver at h
  cases hw : s.ws[i]? with
  | none => rw [hw] at h; cases h
  | some w =>
    rw [hw] at h
    simp only at h
    split at h
    · cases hp : w.phase with
      | replaying pend =>
        rw [hp] at h
        cases pend with
        | nil =>
          simp only [Option.some.injEq] at h
          subst h
          refine inv_setW cfg s i w _ hi hw rfl rfl rfl ?_ ?_ ?_ (fun _ _ => by first | (simp; done) | (dsimp only; split <;> simp))
          · intro ho; exact hi.noq ho i w hw
          · intro _; rfl
          · intro _
            refine ⟨by rw [hp]; rfl, ?_⟩
            rw [stream_setW]
            refine stream_eq_of s i w _ rfl ?_
            simp [pendingOf, hp]
        | cons e rest =>
          simp only [Option.some.injEq] at h
          subst h
          refine inv_setW cfg s i w _ hi hw rfl rfl rfl ?_ ?_ ?_ (fun _ _ => by first | (simp; done) | (dsimp only; split <;> simp))
          · intro ho; exact hi.noq ho i w hw
          · intro _
            have := hi.reg i w hw (by rw [hp]; rfl)
            simp [this]
          · intro _
            refine ⟨by rw [hp]; rfl, ?_⟩
            rw [stream_setW]
            refine stream_eq_of s i w _ rfl ?_
            cases rest with
            | nil => simp [pendingOf, hp]
            | cons r rs => simp [pendingOf, hp]
      | forwarding e =>
        rw [hp] at h
        simp only [Option.some.injEq] at h
        subst h
        refine inv_setW cfg s i w _ hi hw rfl rfl rfl ?_ ?_ ?_ (fun _ _ => by first | (simp; done) | (dsimp only; split <;> simp))
        · intro ho; exact hi.noq ho i w hw
        · intro _; exact hi.reg i w hw (by rw [hp]; rfl)
        · intro _
          refine ⟨by rw [hp]; rfl, ?_⟩
          rw [stream_setW]
          refine stream_eq_of s i w _ rfl ?_
          simp [pendingOf, hp]
      | replayRead => rw [hp] at h; cases h
      | loop => rw [hp] at h; cases h
      | drained => rw [hp] at h; cases h
      | gone => rw [hp] at h; cases h
    · cases h

theorem inv_replayRead (cfg : Cfg) (s s' : St) (i : Nat) (hi : Inv cfg s) (h : stepReplayRead s i = some s') : Inv cfg s' := by
  unfold stepReplayRead at h
  cases hw : s.ws[i]? with
  | none => rw [hw] at h; cases h
  | some w =>
    rw [hw] at h
    simp only at h
    split at h
    · rename_i hp
      simp only [Option.some.injEq] at h
      subst h
      refine inv_setW cfg s i w _ hi hw rfl rfl rfl ?_ ?_ ?_ (fun _ _ => by first | (simp; done) | (dsimp only; split <;> simp))
      · intro ho; exact hi.noq ho i w hw
      · intro _
        have := hi.reg i w hw (by rw [hp]; rfl)
        simp [this]
      · intro _
        refine ⟨by rw [hp]; rfl, ?_⟩
        rw [stream_setW]
        refine stream_eq_of s i w _ rfl ?_
        cases hsn : snapshot w s.evs with
        | nil => simp [pendingOf, hp, hsn]
        | cons a b => simp [pendingOf, hp, hsn]
    · cases h

theorem inv_pull (cfg : Cfg) (s s' : St) (i : Nat) (hi : Inv cfg s) (h : stepPull s i = some s') : Inv cfg s' := by
  unfold stepPull at h
  cases hw : s.ws[i]? with
  | none => rw [hw] at h; cases h
  | some w =>
    rw [hw] at h
    simp only at h
    split at h
    · rename_i e rest hp hq
      simp only [Option.some.injEq] at h
      subst h
      refine inv_setW cfg s i w _ hi hw rfl rfl rfl ?_ ?_ ?_ (fun _ _ => by first | (simp; done) | (dsimp only; split <;> simp))
      · intro ho
        have := hi.noq ho i w hw
        rw [hq] at this
        cases this
      · intro _; exact hi.reg i w hw (by rw [hp]; rfl)
      · intro _
        refine ⟨by rw [hp]; rfl, ?_⟩
        rw [stream_setW]
        refine stream_eq_of s i w _ rfl ?_
        simp [pendingOf, hp, hq]
    · cases h

/-- a watcher leaves (any exit): nothing is claimed about it any more. -/
theorem inv_retire (cfg : Cfg) (s : St) (i : Nat) (w : Watcher) (ph : Phase) (hph : ph.active = false)
    (hng : (cfg.earlyExitsDrain = true ∨ cfg.hasEarlyExit = false) → ph ≠ .gone)
    (hi : Inv cfg s) (hw : s.ws[i]? = some w) :
    Inv cfg (setW s i { w with phase := ph, registered := false }) := by
  refine inv_setW cfg s i w _ hi hw rfl rfl rfl ?_ ?_ ?_ (fun hc _ => hng hc)
  · intro ho; exact hi.noq ho i w hw
  · intro ha; simp only at ha; rw [hph] at ha; cases ha
  · intro ha; simp only at ha; rw [hph] at ha; cases ha

theorem inv_exit (cfg : Cfg) (s s' : St) (i : Nat) (hi : Inv cfg s) (h : stepExit cfg s i = some s') : Inv cfg s' := by
  unfold stepExit at h
  cases hw : s.ws[i]? with
  | none => rw [hw] at h; cases h
  | some w =>
    rw [hw] at h
    simp only at h
    split at h
    · split at h
      · simp only [Option.some.injEq] at h
        subst h
        rename_i hdc
        exact { dpos_le := hi.dpos_le, regAt_le := hi.regAt_le, reg := hi.reg, snap := hi.snap, own := hi.own,
                noq := hi.noq, good := fun j wj hj ha => good_transfer rfl rfl rfl rfl rfl (hi.good j wj hj ha),
                nogone := hi.nogone, nocrash := fun hf => by rw [hf] at hdc; cases hdc }
      · simp only [Option.some.injEq] at h
        subst h
        exact inv_retire cfg s i w .drained rfl (fun _ => by simp) hi hw
    · cases h

theorem inv_exitEarly (cfg : Cfg) (s s' : St) (i : Nat) (hi : Inv cfg s) (h : stepExitEarly cfg s i = some s') : Inv cfg s' := by
  unfold stepExitEarly at h
  cases hw : s.ws[i]? with
  | none => rw [hw] at h; cases h
  | some w =>
    rw [hw] at h
    simp only at h
    split at h
    · rename_i hcond
      have hee : cfg.hasEarlyExit = true := by
        simp only [Bool.and_eq_true] at hcond; exact hcond.1.1
      simp only [Option.some.injEq] at h
      subst h
      cases hd : cfg.earlyExitsDrain with
      | true => simp only [if_true]; exact inv_retire cfg s i w .drained rfl (fun _ => by simp) hi hw
      | false =>
        simp only [Bool.false_eq_true, if_false]
        refine inv_retire cfg s i w .gone rfl (fun hc => ?_) hi hw
        rcases hc with hc | hc
        · rw [hd] at hc; cases hc
        · rw [hee] at hc; cases hc
    · cases h


theorem enq1_fields (e : Ev) (w : Watcher) :
    (enq1 e w).key = w.key ∧ (enq1 e w).replay = w.replay ∧ (enq1 e w).regAt = w.regAt ∧
    (enq1 e w).phase = w.phase ∧ (enq1 e w).registered = w.registered ∧ (enq1 e w).delivered = w.delivered := by
  unfold enq1
  split <;> exact ⟨rfl, rfl, rfl, rfl, rfl, rfl⟩

theorem enq1_queue (e : Ev) (w : Watcher) (hreg : w.registered = true) :
    (enq1 e w).queue = if covers w e.1 = true then w.queue ++ [e] else w.queue := by
  unfold enq1
  rw [hreg]
  simp only [Bool.true_and]
  split <;> rfl

theorem pendingOf_congr (w w' : Watcher) (evs : List Ev) (hk : w'.key = w.key) (hp : w'.phase = w.phase) :
    pendingOf w' evs = pendingOf w evs := by
  unfold pendingOf
  rw [hp, snapshot_key_eq hk]

/-- own-stream stores: the primitive moves the next event from its log into the watcher's stream. -/
theorem stream_enq1 (s s' : St) (e : Ev) (w : Watcher) (j : Nat) (hd : s.disp = .idle)
    (hdrop : s.evs.drop s.dpos = e :: s.evs.drop (s.dpos + 1)) (hreg : w.registered = true)
    (he' : s'.evs = s.evs) (hp' : s'.dpos = s.dpos + 1) (hd' : s'.disp = .idle) :
    stream s' j (enq1 e w) = stream s j w := by
  obtain ⟨hk, _, _, hp, _, hdel⟩ := enq1_fields e w
  unfold stream
  rw [he', pendingOf_congr w (enq1 e w) _ hk hp, hdel, enq1_queue e w hreg]
  have htail : tailFor s' (enq1 e w) = (s.evs.drop (s.dpos + 1)).filter (fun x => covers w x.1) := by
    unfold tailFor
    have : (fun x : Ev => covers (enq1 e w) x.1) = (fun x => covers w x.1) := funext (fun x => covers_key_eq hk x.1)
    rw [this, he', hp']
  rw [htail]
  unfold tailFor
  rw [hdrop, List.filter_cons]
  simp only [hd, hd', dispPart_idle, List.append_nil]
  by_cases hc : covers w e.1 = true
  · simp [hc]
  · simp [hc]

/-! ### the dispatcher -/

theorem drop_pick {α : Type} (l : List α) (n : Nat) (e : α) (h : l[n]? = some e) : l.drop n = e :: l.drop (n + 1) := by
  rcases List.getElem?_eq_some_iff.mp h with ⟨hn, he⟩
  rw [List.drop_eq_getElem_cons hn, he]

theorem next_sending (e e' : Ev) (l rest : List Nat) (h : Disp.next e l = .sending e' rest) : e' = e ∧ rest = l := by
  cases l with
  | nil => simp [Disp.next] at h
  | cons a r =>
    simp only [Disp.next, Disp.sending.injEq] at h
    exact ⟨h.1.symm, h.2.symm⟩

theorem inv_pick (cfg : Cfg) (s s' : St) (hi : Inv cfg s) (h : stepPick cfg s = some s') : Inv cfg s' := by
  unfold stepPick at h
  cases hd : s.disp with
  | sending e rest => rw [hd] at h; cases h
  | idle =>
    rw [hd] at h
    simp only at h
    cases he : s.evs[s.dpos]? with
    | none => rw [he] at h; cases h
    | some e =>
      rw [he] at h
      simp only at h
      have hlt : s.dpos < s.evs.length := lt_of_getElem? he
      have hdrop := drop_pick s.evs s.dpos e he
      cases ho : cfg.ownStream with
      | false =>
        rw [ho] at h
        simp only [Bool.false_eq_true, if_false, Option.some.injEq] at h
        subst h
        refine
          { dpos_le := hlt
            regAt_le := hi.regAt_le
            reg := hi.reg
            snap := fun e' rest' hs => by
              obtain ⟨_, hr⟩ := next_sending e e' _ rest' hs
              rw [hr]
              exact ⟨listeners_nodup _ _, listeners_lt _ _⟩
            own := fun ho' => by rw [ho] at ho'; cases ho'
            noq := hi.noq
            good := ?_
            nogone := hi.nogone
            nocrash := hi.nocrash }
        intro j w hj ha
        have hreg := hi.reg j w hj ha
        refine good_transfer (s := s) rfl rfl rfl rfl ?_ (hi.good j w hj ha)
        unfold stream tailFor
        simp only [hd, dispPart_next, dispPart_idle, hdrop, List.filter_cons]
        have hmem := mem_listeners s.ws e.1 j w hj
        by_cases hc : covers w e.1 = true
        · have : j ∈ listeners s.ws e.1 := hmem.mpr ⟨hreg, hc⟩
          simp [this, hc]
        · have : ¬ j ∈ listeners s.ws e.1 := fun hm => hc (hmem.mp hm).2
          simp [this, hc]
      | true =>
        rw [ho] at h
        simp only [if_true, Option.some.injEq] at h
        subst h
        have hget : ∀ j : Nat, (enqueue s.ws e)[j]? = (s.ws[j]?).map (enq1 e) := by
          intro j; unfold enqueue; exact List.getElem?_map
        have back : ∀ (j : Nat) (w' : Watcher), (enqueue s.ws e)[j]? = some w' → ∃ w, s.ws[j]? = some w ∧ w' = enq1 e w := by
          intro j w' hj
          rw [hget j] at hj
          cases hw : s.ws[j]? with
          | none => rw [hw] at hj; cases hj
          | some w =>
            rw [hw] at hj
            simp only [Option.map_some, Option.some.injEq] at hj
            exact ⟨w, rfl, hj.symm⟩
        refine
          { dpos_le := hlt
            regAt_le := ?_
            reg := ?_
            snap := fun e' rest' hs => by cases hs
            own := fun _ => rfl
            noq := fun ho' => by rw [ho] at ho'; cases ho'
            good := ?_
            nogone := fun hc j w' hj => by
              obtain ⟨w, hw, rfl⟩ := back j w' hj
              rw [(enq1_fields e w).2.2.2.1]
              exact hi.nogone hc j w hw
            nocrash := hi.nocrash }
        · intro j w' hj
          obtain ⟨w, hw, rfl⟩ := back j w' hj
          rw [(enq1_fields e w).2.2.1]
          exact hi.regAt_le j w hw
        · intro j w' hj ha
          obtain ⟨w, hw, rfl⟩ := back j w' hj
          rw [(enq1_fields e w).2.2.2.1] at ha
          rw [(enq1_fields e w).2.2.2.2.1]
          exact hi.reg j w hw ha
        · intro j w' hj ha
          obtain ⟨w, hw, rfl⟩ := back j w' hj
          rw [(enq1_fields e w).2.2.2.1] at ha
          have hreg := hi.reg j w hw ha
          refine good_transfer (s := s) rfl (enq1_fields e w).1 (enq1_fields e w).2.1 (enq1_fields e w).2.2.1 ?_
            (hi.good j w hw ha)
          exact stream_enq1 s _ e w j hd hdrop hreg rfl rfl rfl


theorem dispPart_tail (e : Ev) (rest : List Nat) (j i : Nat) (h : i ≠ j) :
    dispPart (Disp.next e rest) i = dispPart (.sending e (j :: rest)) i := by
  rw [dispPart_next]
  unfold dispPart
  simp [h]

theorem not_own_of_sending (cfg : Cfg) (s : St) (hi : Inv cfg s) (e : Ev) (rest : List Nat)
    (hd : s.disp = .sending e rest) : cfg.ownStream = false := by
  cases ho : cfg.ownStream with
  | false => rfl
  | true => have := hi.own ho; rw [hd] at this; cases this

theorem inv_send (cfg : Cfg) (s s' : St) (hi : Inv cfg s) (h : stepSend s = some s') : Inv cfg s' := by
  unfold stepSend at h
  cases hd : s.disp with
  | idle => rw [hd] at h; cases h
  | sending e l =>
    have hown := not_own_of_sending cfg s hi e l hd
    rw [hd] at h
    cases l with
    | nil =>
      simp only [Option.some.injEq] at h
      subst h
      exact
        { dpos_le := hi.dpos_le, regAt_le := hi.regAt_le, reg := hi.reg
          snap := fun e' r' hs => by cases hs
          own := fun _ => rfl
          noq := hi.noq
          good := fun i w hw ha => by
            refine good_transfer (s := s) rfl rfl rfl rfl ?_ (hi.good i w hw ha)
            unfold stream tailFor
            simp [hd, dispPart]
          nogone := hi.nogone
          nocrash := hi.nocrash }
    | cons j rest =>
      simp only at h
      obtain ⟨hnd, hlt⟩ := hi.snap e (j :: rest) hd
      have hjr : j ∉ rest := (List.nodup_cons.mp hnd).1
      have hrn : rest.Nodup := (List.nodup_cons.mp hnd).2
      cases hw : s.ws[j]? with
      | none => rw [hw] at h; cases h
      | some wj =>
        rw [hw] at h
        simp only at h
        cases hp : wj.phase with
        | loop =>
          rw [hp] at h
          simp only [Option.some.injEq] at h
          subst h
          have hq : wj.queue = [] := hi.noq hown j wj hw
          have hlen : (setW s j { wj with phase := .forwarding e }).ws.length = s.ws.length := by
            unfold setW; exact List.length_set
          refine
            { dpos_le := hi.dpos_le
              regAt_le := ?_
              reg := ?_
              snap := fun e' r' hs => by
                obtain ⟨_, hr⟩ := next_sending e e' rest r' hs
                rw [hr]
                exact ⟨hrn, fun i hir => by
                  have := hlt i (List.mem_cons_of_mem _ hir)
                  show i < (setW s j { wj with phase := .forwarding e }).ws.length
                  rw [hlen]; exact this⟩
              own := fun ho => by rw [hown] at ho; cases ho
              noq := ?_
              good := ?_
              nogone := fun hc i w' hi' => by
                have hi'' : (setW s j { wj with phase := .forwarding e }).ws[i]? = some w' := hi'
                by_cases hij : j = i
                · subst hij
                  rw [setW_get_self s j wj _ hw] at hi''
                  cases hi''
                  simp
                · rw [setW_get_ne s j i _ hij] at hi''
                  exact hi.nogone hc i w' hi''
              nocrash := hi.nocrash }
          · intro i w' hi'
            have hi'' : (setW s j { wj with phase := .forwarding e }).ws[i]? = some w' := hi'
            by_cases hij : j = i
            · subst hij
              rw [setW_get_self s j wj _ hw] at hi''
              cases hi''
              exact hi.regAt_le j wj hw
            · rw [setW_get_ne s j i _ hij] at hi''
              exact hi.regAt_le i w' hi''
          · intro i w' hi' ha
            have hi'' : (setW s j { wj with phase := .forwarding e }).ws[i]? = some w' := hi'
            by_cases hij : j = i
            · subst hij
              rw [setW_get_self s j wj _ hw] at hi''
              cases hi''
              exact hi.reg j wj hw (by rw [hp]; rfl)
            · rw [setW_get_ne s j i _ hij] at hi''
              exact hi.reg i w' hi'' ha
          · intro ho i w' hi'
            have hi'' : (setW s j { wj with phase := .forwarding e }).ws[i]? = some w' := hi'
            by_cases hij : j = i
            · subst hij
              rw [setW_get_self s j wj _ hw] at hi''
              cases hi''
              exact hq
            · rw [setW_get_ne s j i _ hij] at hi''
              exact hi.noq ho i w' hi''
          · intro i w' hi' ha
            have hi'' : (setW s j { wj with phase := .forwarding e }).ws[i]? = some w' := hi'
            by_cases hij : j = i
            · subst hij
              rw [setW_get_self s j wj _ hw] at hi''
              cases hi''
              refine good_transfer (s := s) (w := wj) rfl rfl rfl rfl ?_ (hi.good j wj hw (by rw [hp]; rfl))
              unfold stream tailFor
              simp only [dispPart_next, hjr, if_false, hd]
              simp [pendingOf, hp, hq, dispPart, setW, covers]
            · rw [setW_get_ne s j i _ hij] at hi''
              refine good_transfer (s := s) (w := w') rfl rfl rfl rfl ?_ (hi.good i w' hi'' ha)
              unfold stream tailFor
              have := dispPart_tail e rest j i (fun h => hij h.symm)
              simp only [hd]
              rw [← this]
              rfl
        | drained =>
          rw [hp] at h
          simp only [Option.some.injEq] at h
          subst h
          refine
            { dpos_le := hi.dpos_le, regAt_le := hi.regAt_le, reg := hi.reg
              snap := fun e' r' hs => by
                obtain ⟨_, hr⟩ := next_sending e e' rest r' hs
                rw [hr]
                exact ⟨hrn, fun i hir => hlt i (List.mem_cons_of_mem _ hir)⟩
              own := fun ho => by rw [hown] at ho; cases ho
              noq := hi.noq
              good := ?_
              nogone := hi.nogone
              nocrash := hi.nocrash }
          intro i w hw' ha
          have hij : i ≠ j := by
            intro hij
            subst hij
            have hw'' : s.ws[i]? = some w := hw'
            rw [hw] at hw''
            cases hw''
            rw [hp] at ha
            cases ha
          refine good_transfer (s := s) (w := w) rfl rfl rfl rfl ?_ (hi.good i w hw' ha)
          unfold stream tailFor
          have := dispPart_tail e rest j i hij
          simp only [hd]
          rw [← this]
        | replayRead => rw [hp] at h; cases h
        | replaying p => rw [hp] at h; cases h
        | forwarding e' => rw [hp] at h; cases h
        | gone => rw [hp] at h; cases h


/-! ### a store write -/

theorem stream_split (s : St) (i : Nat) (w : Watcher) :
    stream s i w = w.delivered ++ pendingOf w s.evs ++ (w.queue ++ dispPart s.disp i ++ tailFor s w) := by
  unfold stream
  simp only [List.append_assoc]

theorem lastFor_pendingOf_write (w : Watcher) (evs : List Ev) (ev : Ev) (k : Key) (hc : covers w k = true)
    (hk : ev.1 ≠ k) : lastFor k (pendingOf w (evs ++ [ev])) = lastFor k (pendingOf w evs) := by
  unfold pendingOf
  cases w.phase with
  | replayRead =>
    simp only
    rw [lastFor_snapshot w _ k hc, lastFor_snapshot w _ k hc, lastFor_append_none]
    obtain ⟨k', v⟩ := ev
    exact lastFor_single_other k k' v hk
  | replaying p => rfl
  | forwarding e => rfl
  | loop => rfl
  | drained => rfl
  | gone => rfl

theorem inv_write (cfg : Cfg) (s : St) (k0 : Key) (hi : Inv cfg s) : Inv cfg (stepWrite s k0) := by
  unfold stepWrite
  refine
    { dpos_le := by
        show s.dpos ≤ (s.evs ++ [(k0, cur s.evs k0 + 1)]).length
        rw [List.length_append]; exact Nat.le_trans hi.dpos_le (Nat.le_add_right _ _)
      regAt_le := fun i w hw => by
        show w.regAt ≤ (s.evs ++ [(k0, cur s.evs k0 + 1)]).length
        rw [List.length_append]; exact Nat.le_trans (hi.regAt_le i w hw) (Nat.le_add_right _ _)
      reg := hi.reg
      snap := hi.snap
      own := hi.own
      noq := hi.noq
      good := ?_
      nogone := hi.nogone
      nocrash := hi.nocrash }
  intro i w hw ha k hc
  have hg := hi.good i w hw ha k hc
  have hw' : s.ws[i]? = some w := hw
  -- shape of the new stream
  have htail : tailFor { s with evs := s.evs ++ [(k0, cur s.evs k0 + 1)] } w =
      tailFor s w ++ (if covers w k0 = true then [(k0, cur s.evs k0 + 1)] else []) := by
    unfold tailFor
    show List.filter _ (List.drop s.dpos (s.evs ++ [(k0, cur s.evs k0 + 1)])) = _
    rw [List.drop_append_of_le_length hi.dpos_le, List.filter_append]
    simp only [List.filter_cons, List.filter_nil]
  have hstream : stream { s with evs := s.evs ++ [(k0, cur s.evs k0 + 1)] } i w =
      w.delivered ++ pendingOf w (s.evs ++ [(k0, cur s.evs k0 + 1)]) ++ (w.queue ++ dispPart s.disp i ++ tailFor s w) ++
        (if covers w k0 = true then [(k0, cur s.evs k0 + 1)] else []) := by
    rw [stream_split, htail]
    simp only [List.append_assoc]
  have hevs : ∀ k', lastFor k' (s.evs ++ [(k0, cur s.evs k0 + 1)]) =
      if k0 = k' then some (cur s.evs k0 + 1) else lastFor k' s.evs := by
    intro k'
    by_cases hk : k0 = k'
    · subst hk
      rw [lastFor_append_some _ _ _ _ (lastFor_single_same k0 _)]; simp
    · rw [lastFor_append_none _ _ _ (lastFor_single_other k' k0 _ hk)]; simp [hk]
  by_cases hk : k0 = k
  · -- the written record itself: the new event is the last one in the stream
    subst hk
    have hlast : lastFor k0 (stream { s with evs := s.evs ++ [(k0, cur s.evs k0 + 1)] } i w) = some (cur s.evs k0 + 1) := by
      rw [hstream]
      simp only [hc, if_true]
      exact lastFor_append_some _ _ _ _ (lastFor_single_same k0 _)
    have he : lastFor k0 (s.evs ++ [(k0, cur s.evs k0 + 1)]) = some (cur s.evs k0 + 1) := by
      rw [hevs]; simp
    exact ⟨fun _ => by rw [hlast]; exact he.symm, fun _ => Or.inr (by rw [hlast]; exact he.symm)⟩
  · -- another record: its last event in the stream is where it was
    have hX : lastFor k (if covers w k0 = true then [(k0, cur s.evs k0 + 1)] else []) = none := by
      split
      · exact lastFor_single_other k k0 _ hk
      · rfl
    have hlast : lastFor k (stream { s with evs := s.evs ++ [(k0, cur s.evs k0 + 1)] } i w) = lastFor k (stream s i w) := by
      rw [hstream, lastFor_append_none _ _ _ hX, stream_split]
      exact lastFor_congr_mid k _ _ _ _ (lastFor_pendingOf_write w s.evs _ k hc hk)
    have he : lastFor k (s.evs ++ [(k0, cur s.evs k0 + 1)]) = lastFor k s.evs := by
      rw [hevs]; simp [hk]
    refine ⟨fun hr => by rw [hlast, he]; exact hg.1 hr, fun hr => ?_⟩
    rcases hg.2 hr with h | h
    · left
      show lastFor k (List.drop w.regAt (s.evs ++ [(k0, cur s.evs k0 + 1)])) = none
      rw [List.drop_append_of_le_length (hi.regAt_le i w hw'), lastFor_append_none _ _ _ (lastFor_single_other k k0 _ hk)]
      exact h
    · right
      rw [hlast, he]; exact h

/-! ### a new watcher -/

theorem newWatcher_fields (cfg : Cfg) (hrf : cfg.registerFirst = true) (evs : List Ev) (key : Option Key) (replay : Bool) :
    (newWatcher cfg evs key replay).replay = replay ∧
    (newWatcher cfg evs key replay).phase = (if replay = true then Phase.replayRead else Phase.loop) ∧
    (newWatcher cfg evs key replay).registered = true ∧ (newWatcher cfg evs key replay).regAt = evs.length ∧
    (newWatcher cfg evs key replay).delivered = [] ∧ (newWatcher cfg evs key replay).queue = [] := by
  unfold newWatcher
  simp [hrf]

theorem inv_watch (cfg : Cfg) (hrf : cfg.registerFirst = true) (s : St) (key : Option Key) (replay : Bool)
    (hi : Inv cfg s) : Inv cfg (stepWatch cfg s key replay) := by
  unfold stepWatch
  obtain ⟨hf1, hf2, hf3, hf4, hf5, hf6⟩ := newWatcher_fields cfg hrf s.evs key replay
  generalize newWatcher cfg s.evs key replay = wn at hf1 hf2 hf3 hf4 hf5 hf6
  have hget : ∀ (i : Nat) (w : Watcher), (s.ws ++ [wn])[i]? = some w → s.ws[i]? = some w ∨ (i = s.ws.length ∧ w = wn) := by
    intro i w h
    by_cases hlt : i < s.ws.length
    · rw [List.getElem?_append_left hlt] at h; exact Or.inl h
    · rw [List.getElem?_append_right (Nat.le_of_not_lt hlt)] at h
      have : i - s.ws.length = 0 := by
        cases hd : i - s.ws.length with
        | zero => rfl
        | succ n => rw [hd] at h; simp at h
      rw [this] at h
      simp only [List.getElem?_cons_zero, Option.some.injEq] at h
      exact Or.inr ⟨by omega, h.symm⟩
  refine
    { dpos_le := hi.dpos_le
      regAt_le := ?_
      reg := ?_
      snap := fun e rest hs => by
        obtain ⟨h1, h2⟩ := hi.snap e rest hs
        refine ⟨h1, fun i hir => ?_⟩
        show i < (s.ws ++ [wn]).length
        rw [List.length_append]
        exact Nat.lt_of_lt_of_le (h2 i hir) (Nat.le_add_right _ _)
      own := hi.own
      noq := ?_
      good := ?_
      nogone := fun hc i w h => by
        rcases hget i w h with h' | ⟨_, rfl⟩
        · exact hi.nogone hc i w h'
        · rw [hf2]; split <;> simp
      nocrash := hi.nocrash }
  · intro i w h
    rcases hget i w h with h' | ⟨_, rfl⟩
    · exact hi.regAt_le i w h'
    · rw [hf4]; exact Nat.le_refl _
  · intro i w h ha
    rcases hget i w h with h' | ⟨_, rfl⟩
    · exact hi.reg i w h' ha
    · exact hf3
  · intro ho i w h
    rcases hget i w h with h' | ⟨_, rfl⟩
    · exact hi.noq ho i w h'
    · exact hf6
  · intro i w h ha
    rcases hget i w h with h' | ⟨hil, rfl⟩
    · exact good_transfer (s := s) (w := w) rfl rfl rfl rfl rfl (hi.good i w h' ha)
    · -- the new watcher: nothing delivered, nothing queued, not in the dispatcher's copy
      intro k hc
      have hdp : dispPart s.disp i = [] := by
        unfold dispPart
        cases hd : s.disp with
        | idle => rfl
        | sending e rest =>
          simp only
          have : i ∉ rest := fun hm => by
            have := (hi.snap e rest hd).2 i hm
            omega
          simp [this]
      have hstream : stream { s with ws := s.ws ++ [w] } i w = pendingOf w s.evs ++ tailFor s w := by
        unfold stream
        show w.delivered ++ pendingOf w s.evs ++ w.queue ++ dispPart s.disp i ++ tailFor s w = _
        rw [hdp, hf5, hf6]
        simp
      have htl : lastFor k (tailFor s w) = lastFor k (s.evs.drop s.dpos) := by
        unfold tailFor
        exact lastFor_filter k (covers w) hc _
      have hsplit : lastFor k s.evs = match lastFor k (s.evs.drop s.dpos) with
          | some x => some x | none => lastFor k (s.evs.take s.dpos) := by
        conv => lhs; rw [← List.take_append_drop s.dpos s.evs]
        exact lastFor_append k _ _
      refine ⟨fun hr => ?_, fun hr => ?_⟩
      · have hrep : replay = true := by rw [hf1] at hr; exact hr
        have hpend : pendingOf w s.evs = snapshot w s.evs := by
          unfold pendingOf; rw [hf2, hrep]; rfl
        show lastFor k (stream { s with ws := s.ws ++ [w] } i w) = lastFor k s.evs
        rw [hstream, lastFor_append, htl, hpend, lastFor_snapshot w s.evs k hc]
        cases hd : lastFor k (s.evs.drop s.dpos) with
        | some x => rw [hsplit, hd]
        | none => rfl
      · left
        show lastFor k (List.drop w.regAt s.evs) = none
        rw [hf4]
        simp only [List.drop_length]
        rfl

/-! ### every reachable state satisfies the invariant -/

theorem inv_step (cfg : Cfg) (hrf : cfg.registerFirst = true) (s s' : St) (st : Step) (hi : Inv cfg s)
    (h : step cfg s st = some s') : Inv cfg s' := by
  unfold step at h
  split at h
  · cases h
  · cases st with
    | write k => simp only [Option.some.injEq] at h; subst h; exact inv_write cfg s k hi
    | watch key replay => simp only [Option.some.injEq] at h; subst h; exact inv_watch cfg hrf s key replay hi
    | stopReading i =>
      simp only at h
      exact inv_flag cfg s s' i (fun w => { w with reading := false }) hi (fun w => ⟨rfl, rfl, rfl, rfl, rfl, rfl, rfl⟩) h
    | resumeReading i =>
      simp only at h
      exact inv_flag cfg s s' i (fun w => { w with reading := true }) hi (fun w => ⟨rfl, rfl, rfl, rfl, rfl, rfl, rfl⟩) h
    | cancel i =>
      simp only at h
      exact inv_flag cfg s s' i (fun w => { w with cancelled := true }) hi (fun w => ⟨rfl, rfl, rfl, rfl, rfl, rfl, rfl⟩) h
    | pick => simp only at h; exact inv_pick cfg s s' hi h
    | send => simp only at h; exact inv_send cfg s s' hi h
    | pull i => simp only at h; exact inv_pull cfg s s' i hi h
    | replayRead i => simp only at h; exact inv_replayRead cfg s s' i hi h
    | deliver i => simp only at h; exact inv_deliver cfg s s' i hi h
    | exit i => simp only at h; exact inv_exit cfg s s' i hi h
    | exitEarly i => simp only at h; exact inv_exitEarly cfg s s' i hi h

theorem inv_run (cfg : Cfg) (hrf : cfg.registerFirst = true) (s s' : St) (steps : List Step) (hi : Inv cfg s)
    (h : run cfg s steps = some s') : Inv cfg s' := by
  induction steps generalizing s with
  | nil => simp only [run, Option.some.injEq] at h; subst h; exact hi
  | cons st rest ih =>
    simp only [run] at h
    cases hs : step cfg s st with
    | none => rw [hs] at h; cases h
    | some s1 =>
      rw [hs] at h
      exact ih s1 (inv_step cfg hrf s s1 st hi hs) h

theorem inv_reachable (cfg : Cfg) (hrf : cfg.registerFirst = true) (s : St) (h : Reachable cfg s) : Inv cfg s := by
  obtain ⟨steps, hs⟩ := h
  exact inv_run cfg hrf {} s steps (inv_init cfg) hs


/-! ### at quiescence a watcher has seen the latest state -/

theorem sees_latest_of_inv (cfg : Cfg) (s : St) (hi : Inv cfg s) (hd : s.disp = .idle) (hp : s.dpos = s.evs.length)
    (i : Nat) (w : Watcher) (hw : s.ws[i]? = some w) (hloop : w.phase = .loop) (hq : w.queue = [])
    (k : Key) (hc : covers w k = true) :
    (w.replay = true → lastFor k w.delivered = lastFor k s.evs) ∧
    (w.replay = false → lastFor k (s.evs.drop w.regAt) = none ∨ lastFor k w.delivered = lastFor k s.evs) := by
  have hst : stream s i w = w.delivered := by
    unfold stream tailFor pendingOf
    rw [hloop, hq, hd, hp, List.drop_length]
    simp [dispPart]
  have := hi.good i w hw (by rw [hloop]; rfl) k hc
  rw [hst] at this
  exact this

/-! ### the dispatcher is never stuck behind a cancelled watcher (unless that watcher is `gone`) -/

theorem step_not_crashed (cfg : Cfg) (s : St) (st : Step) (hc : s.crashed = false) :
    step cfg s st = (match st with
      | .write k => some (stepWrite s k)
      | .watch key replay => some (stepWatch cfg s key replay)
      | .stopReading i => stepFlag s i (fun w => { w with reading := false })
      | .resumeReading i => stepFlag s i (fun w => { w with reading := true })
      | .cancel i => stepFlag s i (fun w => { w with cancelled := true })
      | .pick => stepPick cfg s
      | .pull i => stepPull s i
      | .send => stepSend s
      | .replayRead i => stepReplayRead s i
      | .deliver i => stepDeliver s i
      | .exit i => stepExit cfg s i
      | .exitEarly i => stepExitEarly cfg s i) := by
  unfold step
  rw [hc]
  simp only [Bool.false_eq_true, if_false]
  cases st <;> rfl

/-- work is left, every consumer that stopped reading has cancelled, nobody is `gone`: some goroutine of the
    store can move. -/
theorem no_deadlock (cfg : Cfg) (hg : cfg.guardedSends = true) (s : St) (hi : Inv cfg s) (hc : s.crashed = false)
    (hall : ∀ (i : Nat) (w : Watcher), s.ws[i]? = some w → w.reading = true ∨ w.cancelled = true)
    (hgone : ∀ (i : Nat) (w : Watcher), s.ws[i]? = some w → w.phase ≠ .gone)
    (hwork : s.disp ≠ .idle ∨ s.dpos < s.evs.length) :
    ∃ st : Step, st.isEnv = false ∧ (step cfg s st).isSome = true := by
  cases hd : s.disp with
  | idle =>
    have hlt : s.dpos < s.evs.length := by
      rcases hwork with h | h
      · exact absurd hd h
      · exact h
    refine ⟨.pick, rfl, ?_⟩
    rw [step_not_crashed cfg s _ hc]
    simp only [stepPick, hd, List.getElem?_eq_getElem hlt]
    split <;> rfl
  | sending e l =>
    cases l with
    | nil =>
      refine ⟨.send, rfl, ?_⟩
      rw [step_not_crashed cfg s _ hc]
      simp [stepSend, hd]
    | cons j rest =>
      have hj : j < s.ws.length := (hi.snap e (j :: rest) hd).2 j (List.mem_cons_self ..)
      have hw : s.ws[j]? = some s.ws[j] := List.getElem?_eq_getElem hj
      generalize s.ws[j] = wj at hw
      have hrc := hall j wj hw
      cases hp : wj.phase with
      | loop =>
        refine ⟨.send, rfl, ?_⟩
        rw [step_not_crashed cfg s _ hc]
        simp [stepSend, hd, hw, hp]
      | drained =>
        refine ⟨.send, rfl, ?_⟩
        rw [step_not_crashed cfg s _ hc]
        simp [stepSend, hd, hw, hp]
      | replayRead =>
        refine ⟨.replayRead j, rfl, ?_⟩
        rw [step_not_crashed cfg s _ hc]
        simp [stepReplayRead, hw, hp]
      | replaying p =>
        rcases hrc with hr | hcn
        · refine ⟨.deliver j, rfl, ?_⟩
          rw [step_not_crashed cfg s _ hc]
          cases p <;> simp [stepDeliver, hw, hp, hr]
        · refine ⟨.exit j, rfl, ?_⟩
          rw [step_not_crashed cfg s _ hc]
          simp only [stepExit, hw, hp, hcn, hg, Phase.isReplaying, Bool.or_true, Bool.and_true, if_true]
          split <;> rfl
      | forwarding e' =>
        rcases hrc with hr | hcn
        · refine ⟨.deliver j, rfl, ?_⟩
          rw [step_not_crashed cfg s _ hc]
          simp [stepDeliver, hw, hp, hr]
        · refine ⟨.exit j, rfl, ?_⟩
          rw [step_not_crashed cfg s _ hc]
          simp only [stepExit, hw, hp, hcn, hg, Phase.isForwarding, Bool.or_true, Bool.true_or, Bool.and_true, if_true]
          split <;> rfl
      | gone => exact absurd hp (hgone j wj hw)

end OnosVerif.Store.Watch
