/- Helper lemmas for the chunking theorems of C05 (OnosVerif/Props/C05.lean). -/
import OnosVerif.Tree.Chunks

namespace OnosVerif.Tree

theorem chunksAux_flatten {α : Type} (n : Nat) (hn : 0 < n) :
    ∀ (fuel : Nat) (d : List α), d.length ≤ fuel → (chunksAux n fuel d).flatten = d := by
  intro fuel
  induction fuel with
  | zero =>
    intro d h
    have : d = [] := List.eq_nil_of_length_eq_zero (by omega)
    subst this; rfl
  | succ f ih =>
    intro d h
    unfold chunksAux
    by_cases he : d.isEmpty = true
    · simp only [he, if_true]
      have : d = [] := by simpa using he
      subst this; rfl
    · have he' : d.isEmpty = false := by simpa using he
      simp only [he', Bool.false_eq_true, if_false]
      by_cases hl : n < d.length
      · simp only [hl, if_true, List.flatten_cons]
        rw [ih (d.drop n) (by simp only [List.length_drop]; omega)]
        exact List.take_append_drop n d
      · simp [hl]

theorem chunksAux_mem {α : Type} (n : Nat) (hn : 0 < n) :
    ∀ (fuel : Nat) (d : List α) (c : List α), c ∈ chunksAux n fuel d → c ≠ [] ∧ c.length ≤ n := by
  intro fuel
  induction fuel with
  | zero => intro d c h; simp [chunksAux] at h
  | succ f ih =>
    intro d c h
    unfold chunksAux at h
    by_cases he : d.isEmpty = true
    · simp [he] at h
    · have he' : d.isEmpty = false := by simpa using he
      simp only [he', Bool.false_eq_true, if_false] at h
      by_cases hl : n < d.length
      · simp only [hl, if_true, List.mem_cons] at h
        rcases h with h | h
        · subst h
          constructor
          · intro hc
            have : (d.take n).length = 0 := by rw [hc]; rfl
            simp only [List.length_take] at this
            omega
          · simp only [List.length_take]; omega
        · exact ih _ _ h
      · simp only [hl] at h
        have hc : c = d := by simpa using h
        subst hc
        constructor
        · intro hc; apply he; simp [hc]
        · omega

/-- every chunk but the last is full. -/
theorem chunksAux_full {α : Type} (n : Nat) :
    ∀ (fuel : Nat) (d : List α) (i : Nat), i + 1 < (chunksAux n fuel d).length →
      ∀ c, (chunksAux n fuel d)[i]? = some c → c.length = n := by
  intro fuel
  induction fuel with
  | zero => intro d i h; simp [chunksAux] at h
  | succ f ih =>
    intro d i h c hc
    unfold chunksAux at h hc
    by_cases he : d.isEmpty = true
    · simp [he] at h
    · have he' : d.isEmpty = false := by simpa using he
      simp only [he', Bool.false_eq_true, if_false] at h hc
      by_cases hl : n < d.length
      · simp only [hl, if_true] at h hc
        cases i with
        | zero =>
          simp only [List.getElem?_cons_zero, Option.some.injEq] at hc
          subst hc
          simp only [List.length_take]; omega
        | succ j =>
          simp only [List.getElem?_cons_succ] at hc
          simp only [List.length_cons] at h
          exact ih _ j (by omega) c hc
      · simp [hl] at h

/-- the number of chunks is ⌈len/n⌉. -/
theorem chunksAux_length {α : Type} (n : Nat) (hn : 0 < n) :
    ∀ (fuel : Nat) (d : List α), d.length ≤ fuel → (chunksAux n fuel d).length = (d.length + n - 1) / n := by
  intro fuel
  induction fuel with
  | zero =>
    intro d h
    have : d = [] := List.eq_nil_of_length_eq_zero (by omega)
    subst this
    simp only [chunksAux, List.length_nil]
    rw [Nat.div_eq_of_lt]; omega
  | succ f ih =>
    intro d h
    unfold chunksAux
    by_cases he : d.isEmpty = true
    · have : d = [] := by simpa using he
      subst this
      simp only [List.isEmpty_nil, if_true, List.length_nil]
      rw [Nat.div_eq_of_lt]; omega
    · have he' : d.isEmpty = false := by simpa using he
      simp only [he', Bool.false_eq_true, if_false]
      have hpos : 0 < d.length := by
        cases d with
        | nil => simp at he
        | cons _ _ => simp
      by_cases hl : n < d.length
      · simp only [hl, if_true, List.length_cons]
        rw [ih (d.drop n) (by simp only [List.length_drop]; omega)]
        simp only [List.length_drop]
        have : d.length + n - 1 = (d.length - n + n - 1) + n := by omega
        rw [this, Nat.add_div_right _ hn]
      · simp only [hl]
        have h1 : (d.length + n - 1) / n = 1 := by
          have : d.length + n - 1 = (d.length - 1) + n := by omega
          rw [this, Nat.add_div_right _ hn, Nat.div_eq_of_lt (by omega)]
        simp [h1]

end OnosVerif.Tree
