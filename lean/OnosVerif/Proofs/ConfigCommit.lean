/- One commit of the value path against one request of the gNMI reference semantics, path by path,
   under explicit conditions on the stored side map and the change (`StepOK`). -/
import OnosVerif.Proofs.ConfigStore

namespace OnosVerif.Config
open OnosVerif.Path (Str)

/-- what a Get reads at `p`. -/
def liveAt (m : VMap) (p : Str) : Option Str :=
  match VMap.get m p with
  | some e => if e.deleted then none else some e.value
  | none => none

/-- one request of the reference semantics, path by path, on a reading `f` of the configuration. -/
def specAt (f : Str → Option Str) (change : VMap) (p : Str) : Option Str :=
  match VMap.get change p with
  | some c => if c.deleted then none else some c.value
  | none => if (Spec.deletes change).any (fun d => under p d) then none else f p

/-- the conditions under which one commit refines one gNMI request. -/
structure StepOK (idx : Nat) (side change : VMap) : Prop where
  nodupSide : NodupP side
  nodupChange : NodupP change
  nonemptySide : ∀ e ∈ side, e.path ≠ []
  nonemptyChange : ∀ c ∈ change, c.path ≠ []
  /-- a change value never carries the index of the stored entry it replaces (`store` skips an
      entry whose index did not change) -/
  idxFresh : ∀ c ∈ change, ∀ e, VMap.get side c.path = some e → c.index ≠ e.index
  /-- the transaction index differs from the index of every stored entry (for the cascade) -/
  idxMark : ∀ e ∈ side, idx ≠ e.index
  /-- (c) nothing in the change lies strictly below a deleted path of the same change -/
  noSelf : NoSelfCascade change
  /-- (d) a deleted path is a textual prefix only of paths it contains at an element boundary -/
  boundary : ∀ c ∈ change, c.deleted = true → ∀ q, q ∈ paths side → hasPrefix q c.path = true → under q c.path = true
  /-- no live entry strictly below a stored tombstone -/
  liveFree : ∀ t ∈ side, t.deleted = true → ∀ e ∈ side, e.deleted = false → strictlyBelow e.path t.path = false
  /-- (a) no new write strictly below a stored tombstone -/
  writeFree : ∀ c ∈ change, c.deleted = false → ∀ t ∈ side, t.deleted = true → strictlyBelow c.path t.path = false
  /-- (e) a live stored leaf has no stored or requested path beneath it at a `/` -/
  leafFree : ∀ e ∈ side, e.deleted = false → ∀ q, q ∈ paths side ∨ q ∈ paths change → slashAbove e.path q = false

theorem get_perm (a b : VMap) (hp : a.Perm b) (hn : NodupP b) (p : Str) : VMap.get a p = VMap.get b p := by
  have hna : NodupP a := hp.symm.pairwise hn (fun {x y} h => fun e => h e.symm)
  cases hb : VMap.get b p with
  | none =>
    apply (get_none a p).2
    intro e he
    exact (get_none b p).1 hb e (hp.mem_iff.1 he)
  | some e =>
    obtain ⟨h1, h2⟩ := get_some b p e hb
    rw [← h2]
    exact get_of_mem a e hna (hp.mem_iff.2 h1)

theorem strictlyBelow_iff (q p : Str) : strictlyBelow q p = true ↔ hasPrefix q p = true ∧ q ≠ p := by
  simp [strictlyBelow]

theorem strictlyBelow_trans (a b c : Str) (h1 : strictlyBelow a b = true) (h2 : hasPrefix b c = true) :
    strictlyBelow a c = true := by
  rw [strictlyBelow_iff] at h1 ⊢
  refine ⟨hasPrefix_trans _ _ _ h1.1 h2, ?_⟩
  intro hac
  subst hac
  -- a below b below a: same length
  obtain ⟨r1, hr1⟩ := (hasPrefix_iff _ _).1 h1.1
  obtain ⟨r2, hr2⟩ := (hasPrefix_iff _ _).1 h2
  have hl := congrArg List.length hr1
  have hl2 := congrArg List.length hr2
  simp only [List.length_append] at hl hl2
  have : r1 = [] := List.eq_nil_of_length_eq_zero (by omega)
  subst this
  exact h1.2 (by simpa using hr1)

theorem under_hasPrefix (q p : Str) (h : under q p = true) : hasPrefix q p = true := by
  simp only [under, Bool.or_eq_true, decide_eq_true_eq] at h
  rcases h with (h | h) | h
  · rw [h]; exact hasPrefix_refl p
  · exact slashAbove_hasPrefix p q h
  · obtain ⟨r, hr⟩ := (hasPrefix_iff _ _).1 h
    exact (hasPrefix_iff q p).2 ⟨'[' :: r, by rw [hr]; simp⟩

theorem under_refl (p : Str) : under p p = true := by simp [under]

section commit
variable {idx : Nat} {side change : VMap} (ordU : VMap → VMap)

/-- the pieces of one commit. -/
theorem commitValues_eq :
    commitValues idx side change ordU =
      storeLoop (prunePathValues (applyAll (ordU (addDeleteChildren idx change [] side).1)
        (addDeleteChildren idx change [] side).2) true)
        (applyAll (ordU (addDeleteChildren idx change [] side).1) (addDeleteChildren idx change [] side).2) side := rfl

variable (hok : StepOK idx side change) (hperm : IsPerm ordU)
include hok hperm

/-- the updated change at `p`. -/
theorem upd_get (p : Str) :
    VMap.get (ordU (addDeleteChildren idx change [] side).1) p =
      match VMap.get change p with
      | some c => some c
      | none =>
        match VMap.get side p with
        | some v => if (Spec.deletes change).any (fun d => strictlyBelow p d) then some (mark idx v) else none
        | none => none := by
  have hnu := (adc_nodup idx change [] side (by simp [NodupP]) hok.nodupSide).1
  rw [get_perm _ _ (hperm _) hnu, adc_upd_get idx change [] side hok.nodupSide hok.nodupChange hok.noSelf p]
  cases VMap.get change p with
  | some c => rfl
  | none => cases VMap.get side p <;> simp [get_nil]

theorem us_nodup : NodupP (ordU (addDeleteChildren idx change [] side).1) := by
  have hnu := (adc_nodup idx change [] side (by simp [NodupP]) hok.nodupSide).1
  exact (hperm _).symm.pairwise hnu (fun {x y} h => fun e => h e.symm)

/-- every path of the updated change is a path of the change or of the side map. -/
theorem us_paths (u : PV) (hu : u ∈ ordU (addDeleteChildren idx change [] side).1) :
    u.path ∈ paths side ∨ u.path ∈ paths change := by
  have hg := get_of_mem _ u (us_nodup ordU hok hperm) hu
  rw [upd_get ordU hok hperm] at hg
  cases hc : VMap.get change u.path with
  | some c => exact Or.inr ((mem_paths_iff_get change u.path).2 ⟨c, hc⟩)
  | none =>
    rw [hc] at hg
    cases hs : VMap.get side u.path with
    | some v => exact Or.inl ((mem_paths_iff_get side u.path).2 ⟨v, hs⟩)
    | none => rw [hs] at hg; simp at hg

/-- every tombstone of the in-memory map is at or below a deleted path of the change, or sits at
    the path of a stored tombstone. -/
theorem values_tombstone (t : PV)
    (hg : VMap.get (applyAll (ordU (addDeleteChildren idx change [] side).1)
      (addDeleteChildren idx change [] side).2) t.path = some t) (ht : t.deleted = true) :
    (∃ c' ∈ change, c'.deleted = true ∧ hasPrefix t.path c'.path = true) ∨
    (∃ v ∈ side, v.deleted = true ∧ v.path = t.path) := by
  have hall := applyAll_get (ordU (addDeleteChildren idx change [] side).1)
    (addDeleteChildren idx change [] side).2 (us_nodup ordU hok hperm) t.path
  have hupd := upd_get ordU hok hperm t.path
  have hstore := adc_store_get idx change [] side hok.nodupSide t.path
  cases hu : VMap.get (ordU (addDeleteChildren idx change [] side).1) t.path with
  | some u =>
    rw [hu] at hall hupd
    simp only at hall
    have htu : t = u := by
      rcases hall with h | ⟨_, h, _⟩
      · rw [hg] at h; exact Option.some.inj h
      · rw [hg] at h; simp at h
    subst htu
    cases hc : VMap.get change t.path with
    | some c =>
      rw [hc] at hupd
      have : t = c := Option.some.inj hupd
      subst this
      exact Or.inl ⟨t, (get_some change _ t hc).1, ht, hasPrefix_refl _⟩
    | none =>
      rw [hc] at hupd
      cases hs : VMap.get side t.path with
      | none => rw [hs] at hupd; simp at hupd
      | some v =>
        rw [hs] at hupd
        simp only at hupd
        by_cases hany : (Spec.deletes change).any (fun d => strictlyBelow t.path d) = true
        · obtain ⟨d, hd, hb⟩ := List.any_eq_true.1 hany
          obtain ⟨c', hc', hdel, hp⟩ := (mem_deletes change d).1 hd
          exact Or.inl ⟨c', hc', hdel, by rw [hp]; exact ((strictlyBelow_iff _ _).1 hb).1⟩
        · simp [hany] at hupd
  | none =>
    rw [hu] at hall hupd
    simp only at hall
    have hval : VMap.get (addDeleteChildren idx change [] side).2 t.path = some t := by
      rcases hall with h | ⟨e, _, _, h, _⟩
      · rw [← h]; exact hg
      · rw [hg] at h; simp at h
    rw [hstore] at hval
    cases hs : VMap.get side t.path with
    | none => rw [hs] at hval; simp at hval
    | some v =>
      rw [hs] at hval
      simp only [Option.map_some, Option.some.injEq] at hval
      have hvp := get_path side _ v hs
      -- not cascaded, else the updated change would hold it
      have hnany : (Spec.deletes change).any (fun d => strictlyBelow t.path d) = false := by
        cases hc : VMap.get change t.path with
        | some c => rw [hc] at hupd; simp at hupd
        | none =>
          rw [hc, hs] at hupd
          simp only at hupd
          cases hany : (Spec.deletes change).any (fun d => strictlyBelow t.path d) with
          | false => rfl
          | true => rw [hany] at hupd; simp at hupd
      simp only [markIf, hvp, hnany, Bool.false_eq_true, if_false] at hval
      subst hval
      exact Or.inr ⟨v, (get_some side _ v hs).1, ht, hvp⟩

/-- a path that is not strictly below a deleted path of the change nor below a stored tombstone is
    not pruned from the in-memory map. -/
theorem not_covered (p : Str)
    (h1 : ∀ c' ∈ change, c'.deleted = true → strictlyBelow p c'.path = false)
    (h2 : ∀ v ∈ side, v.deleted = true → strictlyBelow p v.path = false) :
    covered (applyAll (ordU (addDeleteChildren idx change [] side).1)
      (addDeleteChildren idx change [] side).2) p = false := by
  simp only [covered, List.any_eq_false, Bool.and_eq_true, bne_iff_ne, ne_eq, not_and, Bool.not_eq_true]
  intro t htm htdp
  obtain ⟨htd, htp⟩ := htdp
  have hnv : NodupP (applyAll (ordU (addDeleteChildren idx change [] side).1)
      (addDeleteChildren idx change [] side).2) :=
    applyAll_nodup _ _ (adc_nodup idx change [] side (by simp [NodupP]) hok.nodupSide).2
  have hg := get_of_mem _ t hnv htm
  cases hpre : hasPrefix p t.path with
  | false => rfl
  | true =>
    exfalso
    have hsb : strictlyBelow p t.path = true := (strictlyBelow_iff _ _).2 ⟨hpre, fun e => htp e.symm⟩
    rcases values_tombstone ordU hok hperm t hg htd with ⟨c', hc', hdel, hpc⟩ | ⟨v, hv, hvd, hvp⟩
    · have := strictlyBelow_trans _ _ _ hsb hpc
      rw [h1 c' hc' hdel] at this
      exact absurd this (by decide)
    · rw [← hvp, h2 v hv hvd] at hsb
      exact absurd hsb (by decide)

end commit

/-- the in-memory map `config.Values` at the moment `configurations.Update` is called. -/
def memValues (idx : Nat) (side change : VMap) (ordU : VMap → VMap) : VMap :=
  applyAll (ordU (addDeleteChildren idx change [] side).1) (addDeleteChildren idx change [] side).2

section commit2
variable {idx : Nat} {side change : VMap} (ordU : VMap → VMap)
variable (hok : StepOK idx side change) (hperm : IsPerm ordU)
include hok hperm

theorem memValues_nodup : NodupP (memValues idx side change ordU) :=
  applyAll_nodup _ _ (adc_nodup idx change [] side (by simp [NodupP]) hok.nodupSide).2

/-- the in-memory map at `p`, in terms of the updated change and the side map. -/
theorem memValues_get (p : Str) :
    match VMap.get (ordU (addDeleteChildren idx change [] side).1) p with
    | some u => VMap.get (memValues idx side change ordU) p = some u ∨
        (u.deleted = true ∧ VMap.get (memValues idx side change ordU) p = none ∧
          ∃ q, (q ∈ paths side ∨ q ∈ paths change) ∧ slashAbove p q = true)
    | none => VMap.get (memValues idx side change ordU) p =
          (VMap.get side p).map (markIf idx (Spec.deletes change)) ∨
        (∃ e, VMap.get side p = some e ∧ (markIf idx (Spec.deletes change) e).deleted = true ∧
          VMap.get (memValues idx side change ordU) p = none ∧
          ∃ q, (q ∈ paths side ∨ q ∈ paths change) ∧ slashAbove p q = true) := by
  have hall := applyAll_get (ordU (addDeleteChildren idx change [] side).1)
    (addDeleteChildren idx change [] side).2 (us_nodup ordU hok hperm) p
  have hstore := adc_store_get idx change [] side hok.nodupSide p
  cases hu : VMap.get (ordU (addDeleteChildren idx change [] side).1) p with
  | some u =>
    rw [hu] at hall
    simp only at hall ⊢
    rcases hall with h | ⟨h1, h2, u', hu', h3⟩
    · exact Or.inl h
    · exact Or.inr ⟨h1, h2, u'.path, us_paths ordU hok hperm u' hu', h3⟩
  | none =>
    rw [hu] at hall
    simp only at hall ⊢
    rcases hall with h | ⟨e, h1, h2, h3, u', hu', h4⟩
    · left; rw [← hstore]; exact h
    · right
      rw [hstore] at h1
      cases hs : VMap.get side p with
      | none => rw [hs] at h1; simp at h1
      | some v =>
        rw [hs] at h1
        simp only [Option.map_some, Option.some.injEq] at h1
        exact ⟨v, rfl, by rw [h1]; exact h2, h3, u'.path, us_paths ordU hok hperm u' hu', h4⟩

theorem memValues_nonempty (e : PV) (he : e ∈ memValues idx side change ordU) : e.path ≠ [] := by
  have hg := get_of_mem _ e (memValues_nodup ordU hok hperm) he
  have hm := memValues_get ordU hok hperm e.path
  cases hu : VMap.get (ordU (addDeleteChildren idx change [] side).1) e.path with
  | some u =>
    have hum := (get_some _ _ u hu).1
    rcases us_paths ordU hok hperm u hum with h | h
    · rw [(get_some _ _ u hu).2] at h
      obtain ⟨x, hx⟩ := (mem_paths_iff_get side e.path).1 h
      rw [← (get_some _ _ x hx).2]
      exact hok.nonemptySide x (get_some _ _ x hx).1
    · rw [(get_some _ _ u hu).2] at h
      obtain ⟨x, hx⟩ := (mem_paths_iff_get change e.path).1 h
      rw [← (get_some _ _ x hx).2]
      exact hok.nonemptyChange x (get_some _ _ x hx).1
  | none =>
    rw [hu] at hm
    simp only at hm
    cases hs : VMap.get side e.path with
    | none =>
      rw [hs] at hm
      rcases hm with h | ⟨_, h, _⟩
      · rw [hg] at h; simp at h
      · simp at h
    | some x =>
      rw [← (get_some _ _ x hs).2]
      exact hok.nonemptySide x (get_some _ _ x hs).1

/-- the side map after the commit, path by path. -/
theorem commit_get (p : Str) :
    VMap.get (commitValues idx side change ordU) p =
      match VMap.get (memValues idx side change ordU) p with
      | none => VMap.get side p
      | some pv => storeAt (!covered (memValues idx side change ordU) p) pv (VMap.get side p) := by
  have hnv := memValues_nodup ordU hok hperm
  show VMap.get (storeLoop (prunePathValues (memValues idx side change ordU) true)
    (memValues idx side change ordU) side) p = _
  rw [storeLoop_get _ _ _ hnv p]
  cases hg : VMap.get (memValues idx side change ordU) p with
  | none => rfl
  | some pv =>
    simp only
    rw [inPruned_iff _ hnv (fun e he => memValues_nonempty ordU hok hperm e he) p
      ((mem_paths_iff_get _ p).2 ⟨pv, hg⟩)]

end commit2

end OnosVerif.Config
