/- One commit refines one gNMI request (path by path), under `StepOK`. -/
import OnosVerif.Proofs.ConfigCommit

namespace OnosVerif.Config
open OnosVerif.Path (Str)

/-- what a Get reads from an entry. -/
def liveOpt : Option PV → Option Str
  | some e => if e.deleted then none else some e.value
  | none => none

theorem liveAt_eq (m : VMap) (p : Str) : liveAt m p = liveOpt (VMap.get m p) := by
  unfold liveAt liveOpt; cases VMap.get m p <;> rfl

theorem storeAt_new (b : Bool) (pv : PV) (old : Option PV) (hd : pv.deleted = true)
    (hidx : ∀ e, old = some e → pv.index ≠ e.index) : liveOpt (storeAt b pv old) = none := by
  cases old with
  | none => cases b <;> simp [storeAt, liveOpt, hd]
  | some e =>
    have := hidx e rfl
    cases b <;> simp [storeAt, liveOpt, hd, this]

theorem storeAt_live (pv : PV) (old : Option PV) (hidx : ∀ e, old = some e → pv.index ≠ e.index) :
    storeAt true pv old = some pv := by
  cases old with
  | none => simp [storeAt]
  | some e => have := hidx e rfl; simp [storeAt, this]

theorem storeAt_same (b : Bool) (e : PV) (hd : e.deleted = true) : liveOpt (storeAt b e (some e)) = none := by
  cases b <;> simp [storeAt, liveOpt, hd]

section
variable {idx : Nat} {side change : VMap} (ordU : VMap → VMap)
variable (hok : StepOK idx side change) (hperm : IsPerm ordU)
include hok hperm

/-- **one commit = one gNMI request**, read path by path. -/
theorem commit_liveAt (p : Str) :
    liveAt (commitValues idx side change ordU) p = specAt (liveAt side) change p := by
  have hget := commit_get ordU hok hperm p
  have hupd := upd_get ordU hok hperm p
  have hmem := memValues_get ordU hok hperm p
  rw [liveAt_eq, hget]
  unfold specAt
  cases hc : VMap.get change p with
  | some c =>
    rw [hc] at hupd
    rw [hupd] at hmem
    simp only at hmem ⊢
    obtain ⟨hcm, hcp⟩ := get_some change p c hc
    have hidx : ∀ e, VMap.get side p = some e → c.index ≠ e.index := by
      intro e he
      exact hok.idxFresh c hcm e (by rw [hcp]; exact he)
    by_cases hcd : c.deleted = true
    · simp only [hcd, if_true]
      rcases hmem with hv | ⟨_, hv, q, hq, habove⟩
      · rw [hv]; simp only
        exact storeAt_new _ c _ hcd hidx
      · rw [hv]; simp only
        cases hs : VMap.get side p with
        | none => rfl
        | some e =>
          by_cases hed : e.deleted = true
          · simp [liveOpt, hed]
          · exfalso
            have hed' : e.deleted = false := by simpa using hed
            obtain ⟨hem, hep⟩ := get_some side p e hs
            have := hok.leafFree e hem hed' q hq
            rw [hep, habove] at this
            exact absurd this (by decide)
    · have hcd' : c.deleted = false := by simpa using hcd
      simp only [hcd', Bool.false_eq_true, if_false]
      rcases hmem with hv | ⟨hd, _⟩
      · rw [hv]; simp only
        have hnc : covered (memValues idx side change ordU) p = false := by
          apply not_covered ordU hok hperm p
          · intro c' hc' hdel
            rw [← hcp]; exact hok.noSelf c hcm c' hc' hdel
          · intro v hv' hvd
            rw [← hcp]; exact hok.writeFree c hcm hcd' v hv' hvd
        rw [hnc]
        simp only [Bool.not_false]
        rw [storeAt_live c _ hidx]
        simp [liveOpt, hcd']
      · rw [hcd'] at hd; exact absurd hd (by decide)
  | none =>
    rw [hc] at hupd
    simp only
    cases hs : VMap.get side p with
    | none =>
      rw [hs] at hupd
      simp only at hupd
      rw [hupd] at hmem
      simp only [hs, Option.map_none] at hmem
      have hv : VMap.get (memValues idx side change ordU) p = none := by
        rcases hmem with h | ⟨e, h, _⟩
        · exact h
        · simp at h
      rw [hv]
      simp only [hs, liveOpt]
      have : liveAt side p = none := by rw [liveAt_eq, hs]; rfl
      rw [this]; simp
    | some e =>
      rw [hs] at hupd
      simp only at hupd
      obtain ⟨hem, hep⟩ := get_some side p e hs
      have hlive : liveAt side p = liveOpt (some e) := by rw [liveAt_eq, hs]
      by_cases hcas : (Spec.deletes change).any (fun d => strictlyBelow p d) = true
      · -- cascaded
        simp only [hcas, if_true] at hupd
        rw [hupd] at hmem
        simp only at hmem
        have hunder : (Spec.deletes change).any (fun d => under p d) = true := by
          obtain ⟨d, hd, hb⟩ := List.any_eq_true.1 hcas
          obtain ⟨c', hc', hdel, hpd⟩ := (mem_deletes change d).1 hd
          apply List.any_eq_true.2
          refine ⟨d, hd, ?_⟩
          rw [← hpd]
          apply hok.boundary c' hc' hdel p ((mem_paths_iff_get side p).2 ⟨e, hs⟩)
          rw [hpd]; exact ((strictlyBelow_iff _ _).1 hb).1
        simp only [hunder, if_true]
        rcases hmem with hv | ⟨_, hv, q, hq, habove⟩
        · rw [hv]; simp only
          apply storeAt_new _ _ _ (mark_deleted idx e)
          intro e' he'
          have : e' = e := (Option.some.inj he').symm
          subst this
          rw [mark_index]
          exact hok.idxMark e' hem
        · rw [hv]; simp only
          by_cases hed : e.deleted = true
          · simp [liveOpt, hed]
          · exfalso
            have hed' : e.deleted = false := by simpa using hed
            have := hok.leafFree e hem hed' q hq
            rw [hep, habove] at this
            exact absurd this (by decide)
      · -- not cascaded
        have hcas' : (Spec.deletes change).any (fun d => strictlyBelow p d) = false := by simpa using hcas
        simp only [hcas', Bool.false_eq_true, if_false] at hupd
        rw [hupd] at hmem
        have hmk : markIf idx (Spec.deletes change) e = e := by
          simp only [markIf, hep, hcas', Bool.false_eq_true, if_false]
        simp only [hs, Option.map_some, hmk, Option.some.injEq] at hmem
        by_cases hed : e.deleted = true
        · -- a stored tombstone stays unreadable
          have hrhs : (if (Spec.deletes change).any (fun d => under p d) = true then none
              else liveAt side p) = none := by
            rw [hlive]; simp [liveOpt, hed]
          rw [hrhs]
          rcases hmem with hv | ⟨e', he', _, hv, _⟩
          · rw [hv]; simp only; exact storeAt_same _ e hed
          · rw [hv]; simp [liveOpt, hed]
        · have hed' : e.deleted = false := by simpa using hed
          have hv : VMap.get (memValues idx side change ordU) p = some e := by
            rcases hmem with hv | ⟨e', he', hd', _⟩
            · exact hv
            · subst he'; rw [hmk, hed'] at hd'; exact absurd hd' (by decide)
          rw [hv]
          simp only
          have hnc : covered (memValues idx side change ordU) p = false := by
            apply not_covered ordU hok hperm p
            · intro c' hc' hdel
              cases hb : strictlyBelow p c'.path with
              | false => rfl
              | true =>
                exfalso
                have : (Spec.deletes change).any (fun d => strictlyBelow p d) = true :=
                  List.any_eq_true.2 ⟨c'.path, (mem_deletes change _).2 ⟨c', hc', hdel, rfl⟩, hb⟩
                rw [hcas'] at this; exact absurd this (by decide)
            · intro v hv' hvd
              rw [← hep]; exact hok.liveFree v hv' hvd e hem hed'
          rw [hnc]
          simp only [Bool.not_false]
          have hsame : storeAt true e (some e) = some e := by simp [storeAt]
          rw [hsame]
          -- the reference semantics keeps it too
          have hnu : (Spec.deletes change).any (fun d => under p d) = false := by
            rw [List.any_eq_false]
            intro d hd hu
            obtain ⟨c', hc', hdel, hpd⟩ := (mem_deletes change d).1 hd
            by_cases hpe : p = d
            · rw [hpe, ← hpd] at hc
              have := (get_none change c'.path).1 hc c' hc'
              exact this rfl
            · have hb : strictlyBelow p d = true := (strictlyBelow_iff _ _).2 ⟨under_hasPrefix _ _ hu, hpe⟩
              have : (Spec.deletes change).any (fun d => strictlyBelow p d) = true :=
                List.any_eq_true.2 ⟨d, hd, hb⟩
              rw [hcas'] at this; exact absurd this (by decide)
          rw [hnu, hlive]
          simp

end

end OnosVerif.Config
