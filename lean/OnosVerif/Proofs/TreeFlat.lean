/- Membership in the flattener's output, member by member; small facts about key maps and schemas. -/
import OnosVerif.Proofs.TreeGood

namespace OnosVerif.Tree
open OnosVerif.Path (Str GPath Elem)

theorem mem_flatM (sch : Schema) (np : List Str) (pre : GPath) (y : GPath × Json) :
    ∀ (m : List (Str × Json)), y ∈ flatM sch np pre m ↔ ∃ k v, (k, v) ∈ m ∧ y ∈ flatJ sch np pre k v
  | [] => by simp [flatM]
  | (k, v) :: r => by
    rw [flatM, List.mem_append, mem_flatM sch np pre y r]
    constructor
    · rintro (h | ⟨k', v', h1, h2⟩)
      · exact ⟨k, v, List.mem_cons_self, h⟩
      · exact ⟨k', v', List.mem_cons_of_mem _ h1, h2⟩
    · rintro ⟨k', v', h1, h2⟩
      rcases List.mem_cons.1 h1 with h | h
      · simp only [Prod.mk.injEq] at h
        rw [h.1, h.2] at h2
        exact Or.inl h2
      · exact Or.inr ⟨k', v', h, h2⟩

theorem mem_flatA (sch : Schema) (np : List Str) (pre : GPath) (name : Str) (keys : List Str) (y : GPath × Json) :
    ∀ (items : List Json), y ∈ flatA sch np pre name keys items ↔
      ∃ it ∈ items, y ∈ flatItem sch np pre name keys it
  | [] => by simp [flatA]
  | it :: r => by
    rw [flatA, List.mem_append, mem_flatA sch np pre name keys y r]
    simp

theorem flatJ_obj (sch : Schema) (np : List Str) (pre : GPath) (name : Str) (m : List (Str × Json)) :
    flatJ sch np pre name (.obj m) = flatM sch (np ++ [name]) (pre ++ [{ name := name, keys := [] }]) m := by
  rw [flatJ]

theorem flatJ_arr (sch : Schema) (np : List Str) (pre : GPath) (name : Str) (items : List Json) :
    flatJ sch np pre name (.arr items) =
      flatA sch (np ++ [name]) pre name (schemaLookup sch (np ++ [name])) items := by
  rw [flatJ]

theorem flatItem_obj (sch : Schema) (np : List Str) (pre : GPath) (name : Str) (keys : List Str)
    (m : List (Str × Json)) :
    flatItem sch np pre name keys (.obj m) = flatM sch np (pre ++ [itemElem name keys m]) m := by
  rw [flatItem]

/-- a value stored by `handleLeafValue` is read back as one leaf. -/
theorem flatJ_leaf (rfc : Bool) (sch : Schema) (np : List Str) (pre : GPath) (name : Str) (v : Val) (j : Json)
    (h : leafJson rfc v = some j) :
    flatJ sch np pre name j = [(pre ++ [{ name := name, keys := [] }], j)] := by
  cases v with
  | empty => simp [leafJson] at h
  | str s => simp only [leafJson, Option.some.injEq] at h; subst h; rw [flatJ]
  | int n w =>
    simp only [leafJson, Option.some.injEq] at h
    subst h
    split <;> rw [flatJ]
  | uint n w =>
    simp only [leafJson, Option.some.injEq] at h
    subst h
    split <;> rw [flatJ]
  | bool b => simp only [leafJson, Option.some.injEq] at h; subst h; rw [flatJ]

theorem flatJ_str (sch : Schema) (np : List Str) (pre : GPath) (name : Str) (t : Str) :
    flatJ sch np pre name (.str t) = [(pre ++ [{ name := name, keys := [] }], .str t)] := by
  rw [flatJ]

/-! ### key maps -/

/-- the members of a fresh list item. -/
def keyMembers (K : List (Str × Str)) : List (Str × Json) := K.map fun kv => (kv.1, Json.str kv.2)

theorem keyObj_eq (K : List (Str × Str)) : keyObj K = .obj (keyMembers K) := rfl

theorem objGet_keyMembers : ∀ (K : List (Str × Str)) (n : Str),
    objGet (keyMembers K) n = (lookupKey K n).map Json.str
  | [], _ => rfl
  | (k, t) :: r, n => by
    simp only [keyMembers, List.map_cons, objGet, lookupKey]
    by_cases h : n = k
    · simp [h]
    · simp only [h, if_false]
      exact objGet_keyMembers r n

theorem keyMembers_sorted : ∀ (K : List (Str × Str)), Path.keysSorted K = true → ObjSorted (keyMembers K)
  | [], _ => List.Pairwise.nil
  | (k, t) :: r, h => by
    simp only [Path.keysSorted, Bool.and_eq_true, List.all_eq_true] at h
    simp only [keyMembers, List.map_cons, ObjSorted, List.pairwise_cons, List.mem_map]
    refine ⟨?_, keyMembers_sorted r h.2⟩
    rintro b ⟨kv, hkv, hb⟩
    subst hb
    exact h.1 kv hkv

theorem mem_of_lookupKey : ∀ (K : List (Str × Str)) (k t : Str), lookupKey K k = some t → (k, t) ∈ K
  | [], _, _, h => by simp [lookupKey] at h
  | (k', t') :: r, k, t, h => by
    unfold lookupKey at h
    by_cases hk : k = k'
    · subst hk
      simp only [if_true, Option.some.injEq] at h
      subst h; exact List.mem_cons_self
    · simp only [hk, if_false] at h
      exact List.mem_cons_of_mem _ (mem_of_lookupKey r k t h)

theorem itemElem_of_fullMatch (e : Elem) (KN : List Str) (mi : List (Str × Json))
    (hkn : e.keys.map (·.1) = KN) (hf : FullMatch e.keys (.obj mi)) : itemElem e.name KN mi = e := by
  obtain ⟨mi', hm, hall⟩ := hf
  cases hm
  apply elem_ext
  · rfl
  · simp only [itemElem]
    rw [← hkn, List.map_map]
    have : ∀ (ks : List (Str × Str)), (∀ kt ∈ ks, ∃ l, objGet mi kt.1 = some l ∧ convertBasicType l = kt.2) →
        ks.map ((fun k => (k, itemKeyText mi k)) ∘ fun x => x.1) = ks := by
      intro ks
      induction ks with
      | nil => intro _; rfl
      | cons kt r ih =>
        intro h
        obtain ⟨l, hl, ht⟩ := h kt List.mem_cons_self
        simp only [List.map_cons, Function.comp, itemKeyText, hl, ht]
        rw [List.cons.injEq]
        exact ⟨rfl, ih (fun x hx => h x (List.mem_cons_of_mem _ hx))⟩
    exact this e.keys hall

/-! ### Forall2 and membership -/

theorem Forall2.right_mem {α β : Type} {R : α → β → Prop} : ∀ {l : List α} {m : List β}, Forall2 R l m →
    ∀ b ∈ m, ∃ a ∈ l, R a b
  | _, _, .nil, b, hb => by simp at hb
  | _, _, .cons hab ht, b, hb => by
    rcases List.mem_cons.1 hb with h | h
    · subst h; exact ⟨_, List.mem_cons_self, hab⟩
    · obtain ⟨a, ha, hr⟩ := Forall2.right_mem ht b h
      exact ⟨a, List.mem_cons_of_mem _ ha, hr⟩

theorem Forall2.left_mem {α β : Type} {R : α → β → Prop} : ∀ {l : List α} {m : List β}, Forall2 R l m →
    ∀ a ∈ l, ∃ b ∈ m, R a b
  | _, _, .nil, a, ha => by simp at ha
  | _, _, .cons hab ht, a, ha => by
    rcases List.mem_cons.1 ha with h | h
    · subst h; exact ⟨_, List.mem_cons_self, hab⟩
    · obtain ⟨b, hb, hr⟩ := Forall2.left_mem ht a h
      exact ⟨b, List.mem_cons_of_mem _ hb, hr⟩

/-! ### schema -/

/-- the schema knows the key names of every list node the path/values of `S` go through
    (`np`: the element names leading to the node `S` arrives at). -/
def SchemaOK (sch : Schema) (np : List Str) (S : List Entry) : Prop :=
  ∀ x ∈ S, ∀ y ∈ schemaOfPath np x.1, schemaLookup sch y.1 = y.2

theorem schemaOK_sub (sch : Schema) (np : List Str) (S : List Entry) (e : Elem) (h : SchemaOK sch np S) :
    SchemaOK sch (np ++ [e.name]) (sub S e) := by
  intro y hy z hz
  obtain ⟨_, hx⟩ := (mem_sub S e y).1 hy
  apply h _ hx z
  simp only [schemaOfPath]
  split
  · exact hz
  · exact List.mem_cons_of_mem _ hz

theorem schemaOK_head (sch : Schema) (np : List Str) (S : List Entry) (h : SchemaOK sch np S)
    (x : Entry) (hx : x ∈ S) (e : Elem) (r : GPath) (hp : x.1 = e :: r) (hk : e.keys ≠ []) :
    schemaLookup sch (np ++ [e.name]) = e.keys.map (·.1) := by
  apply h x hx (np ++ [e.name], e.keys.map (·.1))
  rw [hp]
  simp only [schemaOfPath]
  have : e.keys.isEmpty = false := by
    cases hke : e.keys with
    | nil => exact absurd hke hk
    | cons _ _ => rfl
  simp [this]

end OnosVerif.Tree
