/-
A progress measure of the v3 transaction records: every write of a transaction record (and every
accepted rollback request) strictly increases a measure that is bounded by 9 per transaction, so a
schedule without swallowed conflicts changes the transaction records at most 9·n times.
-/
import OnosVerif.Proofs.V3Core
import OnosVerif.Proofs.V3Bridge3
namespace OnosVerif.V3

/-! ## A progress measure of the transaction records -/

def psRank : PS → Nat
  | .pending => 0
  | .inProgress => 1
  | _ => 2

def optRank : Option PS → Nat
  | none => 0
  | some s => psRank s

/-- how far a transaction record has moved: every status only moves forward
    (Pending < InProgress < Complete / Aborted / Canceled / Failed), a rollback request counts one -/
def txRank (t : TxC) : Nat :=
  psRank t.cc + psRank t.ca + (if t.phase = .rollback then 1 + optRank t.rc + optRank t.ra else 0)

def progress (k : Core) : Nat := (k.txs.map txRank).sum

theorem psRank_le (s : PS) : psRank s ≤ 2 := by cases s <;> simp [psRank]
theorem optRank_le (s : Option PS) : optRank s ≤ 2 := by
  cases s with
  | none => simp [optRank]
  | some s => exact psRank_le s

theorem txRank_le (t : TxC) : txRank t ≤ 9 := by
  have := psRank_le t.cc; have := psRank_le t.ca; have := optRank_le t.rc; have := optRank_le t.ra
  unfold txRank; split <;> omega

theorem sum_rank_le (l : List TxC) : (l.map txRank).sum ≤ 9 * l.length := by
  induction l with
  | nil => simp
  | cons t rest ih =>
    have := txRank_le t
    simp only [List.map_cons, List.sum_cons, List.length_cons]; omega

theorem progress_le (k : Core) : progress k ≤ 9 * k.txs.length := sum_rank_le k.txs

theorem sum_set (l : List TxC) (n : Nat) (x : TxC) (h : n < l.length) :
    ((l.set n x).map txRank).sum + txRank l[n] = (l.map txRank).sum + txRank x := by
  induction l generalizing n with
  | nil => simp at h
  | cons t rest ih =>
    cases n with
    | zero => simp only [List.set_cons_zero, List.map_cons, List.sum_cons, List.getElem_cons_zero]; omega
    | succ m =>
      have := ih m (by simpa using h)
      simp only [List.set_cons_succ, List.map_cons, List.sum_cons, List.getElem_cons_succ]; omega

theorem progress_upd {k k' : Core} {i : Nat} {t t' : TxC} (ht : k.tx i = some t)
    (hu : ∀ j, k'.tx j = if j = i then some t' else k.tx j) (hl : k'.txs.length = k.txs.length) :
    progress k' + txRank t = progress k + txRank t' := by
  have hi := Core.tx_pos ht
  have hle := Core.tx_le ht
  have hlt : i - 1 < k.txs.length := by omega
  have hget : k.txs[i - 1] = t := by
    have : k.txs[i - 1]? = some t := by
      have := ht; unfold Core.tx at this
      simpa [show ¬ i = 0 by omega] using this
    exact (List.getElem?_eq_some_iff.mp this).2
  have heq : k'.txs = k.txs.set (i - 1) t' := by
    apply List.ext_getElem?
    intro n
    have h1 := hu (n + 1)
    unfold Core.tx at h1
    simp only [Nat.add_one_ne_zero, if_false, Nat.add_sub_cancel] at h1
    rw [h1]
    by_cases hn : n + 1 = i
    · have : n = i - 1 := by omega
      subst this
      simp [hn, hlt]
    · simp only [hn, if_false]
      rw [List.getElem?_set_ne (by omega)]
  unfold progress
  rw [heq, ← hget]
  exact sum_set k.txs (i - 1) t' hlt

theorem Enabled.rank1 {k : Core} {i : Nat} {t : TxC} {a : Act} {rest : List Act}
    (he : Enabled k i t (a :: rest)) :
    txRank t ≤ txRank (cActTx t a) ∧ (a.isCfg = false → txRank t < txRank (cActTx t a)) := by
  cases he <;> simp_all [cActTx, txRank, psRank, optRank, Act.isCfg] <;>
    (have := psRank_le t.ca; simp only [psRank] at this; omega)

theorem Enabled.rank2 {k : Core} {i : Nat} {t : TxC} {a b : Act} (he : Enabled k i t [a, b]) :
    txRank t < txRank (cActTx (cActTx t a) b) := by
  cases he <;> simp_all [cActTx, txRank, psRank, optRank] <;>
    (have := psRank_le t.ca; simp only [psRank] at this; omega)

/-- `k'` is `k` with the same transaction records, or with more progress, or with a new record -/
structure Adv (k k' : Core) : Prop where
  mono : progress k ≤ progress k'
  len : k.txs.length ≤ k'.txs.length
  strict : k'.txs = k.txs ∨ progress k < progress k' ∨ k.txs.length < k'.txs.length

theorem Adv.refl (k : Core) : Adv k k := ⟨Nat.le_refl _, Nat.le_refl _, Or.inl rfl⟩

theorem Adv.trans {k k' k'' : Core} (h1 : Adv k k') (h2 : Adv k' k'') : Adv k k'' := by
  refine ⟨Nat.le_trans h1.mono h2.mono, Nat.le_trans h1.len h2.len, ?_⟩
  have := h1.mono; have := h2.mono; have := h1.len; have := h2.len
  rcases h1.strict with e1 | s1 | l1
  · rcases h2.strict with e2 | s2 | l2
    · left; rw [e2, e1]
    · right; left; omega
    · right; right; omega
  · right; left; omega
  · right; right; omega

theorem CStep.adv {k k' : Core} (h : CStep k k') : Adv k k' := by
  cases h with
  | append =>
    refine ⟨?_, ?_, Or.inr (Or.inr ?_)⟩ <;> simp [progress, txRank, freshTx, psRank]
  | rollback i t ht hc =>
    have hu := Core.tx_setTx (t' := cRollback t) ht
    have hl : (k.setTx i (cRollback t)).txs.length = k.txs.length := by
      unfold Core.setTx; split <;> simp
    have := progress_upd ht hu hl
    have hr : txRank (cRollback t) = txRank t + 1 := by
      simp only [cCanRollback, Bool.and_eq_true, decide_eq_true_eq] at hc
      simp [txRank, cRollback, hc.1, optRank, psRank]
    exact ⟨by omega, by omega, Or.inr (Or.inl (by omega))⟩
  | first i t a rest ht he =>
    obtain ⟨hu, _, _, hl⟩ := he.net1 ht
    have := progress_upd ht hu hl
    obtain ⟨r1, r2⟩ := he.rank1
    refine ⟨by omega, by omega, ?_⟩
    by_cases hc : a.isCfg = true
    · left
      rw [cAct_cfg hc]
      unfold Core.addEvent; split <;> rfl
    · right; left
      have := r2 (by simpa using hc)
      omega
  | both i t a b ht he =>
    obtain ⟨hu, _, _, hl⟩ := he.net2 ht
    have := progress_upd ht hu hl
    have := he.rank2
    exact ⟨by omega, by omega, Or.inr (Or.inl (by omega))⟩

end OnosVerif.V3

namespace OnosVerif.V3

theorem CStar.adv {k k' : Core} (h : CStar k k') : Adv k k' := by
  induction h with
  | refl => exact Adv.refl _
  | tail _ hs ih => exact ih.trans hs.adv

/-- does this step change the protocol state of an existing transaction record? -/
def txChanged (s : Sys) (a : Action) : Bool :=
  decide ((core (step s a)).txs ≠ (core s).txs ∧ (step s a).txs.length = s.txs.length)

/-- the number of steps of a schedule that change an existing transaction record -/
def txChanges (s : Sys) : List Action → Nat
  | [] => 0
  | a :: rest => (if txChanged s a then 1 else 0) + txChanges (step s a) rest

theorem step_adv (s : Sys) (a : Action) (hsafe : safeAction a = true) (hsf : stepStoreFail s a = false) :
    Adv (core s) (core (step s a)) := (step_star s a hsafe hsf).adv

theorem run_progress (s : Sys) (acts : List Action) (hsafe : safeSchedule acts = true)
    (hsf : storeNeverFails s acts = true) :
    progress (core s) + txChanges s acts ≤ progress (core (run s acts)) := by
  induction acts generalizing s with
  | nil => simp [txChanges, run]
  | cons a rest ih =>
    simp only [safeSchedule, List.all_cons, Bool.and_eq_true] at hsafe
    simp only [storeNeverFails, Bool.and_eq_true, Bool.not_eq_eq_eq_not, Bool.not_true] at hsf
    have hadv := step_adv s a hsafe.1 hsf.1
    have := ih (step s a) hsafe.2 hsf.2
    simp only [run, List.foldl_cons, txChanges] at this ⊢
    have hm := hadv.mono
    by_cases hc : txChanged s a = true
    · simp only [hc, if_true]
      simp only [txChanged, decide_eq_true_eq] at hc
      have hlen : (core (step s a)).txs.length = (core s).txs.length := by
        simpa [core] using hc.2
      rcases hadv.strict with e | st | l
      · exact absurd e hc.1
      · omega
      · omega
    · have hc' : txChanged s a = false := by simpa using hc
      simp only [hc', Bool.false_eq_true, if_false]
      omega

end OnosVerif.V3
