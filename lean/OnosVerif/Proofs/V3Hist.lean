/-
History lemmas: the TLA+ `Order` predicate (and commit-before-apply) are stable under appending
events, and what has to be known about a new Complete event.
-/
import OnosVerif.V3.Spec
import OnosVerif.Proofs.V3Inv3

namespace OnosVerif.V3

theorem getElem?_append_of_lt {α : Type} {l l' : List α} {i : Nat} (h : i < l.length) :
    (l ++ l')[i]? = l[i]? := List.getElem?_append_left h

theorem getElem?_lt {α : Type} {l : List α} {i : Nat} {x : α} (h : l[i]? = some x) : i < l.length := by
  have := List.getElem?_eq_some_iff.mp h
  exact this.1

theorem IsOrderedChange.mono {h : List Event} {p : Stage} {i : Nat} (ev : List Event)
    (ho : IsOrderedChange h p i) : IsOrderedChange (h ++ ev) p i := by
  obtain ⟨e, he, h1, h2, h3, h4⟩ := ho
  have hi := getElem?_lt he
  refine ⟨e, by rw [getElem?_append_of_lt hi]; exact he, h1, h2, h3, ?_⟩
  rintro ⟨j, e', hj, hje, r⟩
  apply h4
  refine ⟨j, e', hj, ?_, r⟩
  rw [getElem?_append_of_lt (by omega)] at hje
  exact hje

theorem IsOrderedRollback.mono {h : List Event} {p : Stage} {i : Nat} (ev : List Event)
    (ho : IsOrderedRollback h p i) : IsOrderedRollback (h ++ ev) p i := by
  obtain ⟨e, he, h1, h2, h3, ⟨j0, e0, hj0, hje0, r0⟩, h5⟩ := ho
  have hi := getElem?_lt he
  refine ⟨e, by rw [getElem?_append_of_lt hi]; exact he, h1, h2, h3, ⟨j0, e0, hj0, ?_, r0⟩, ?_⟩
  · rw [getElem?_append_of_lt (by omega)]; exact hje0
  · rintro ⟨j, e', hj, hje, a1, a2, a3, a4, a5⟩
    apply h5
    rw [getElem?_append_of_lt (by omega)] at hje
    refine ⟨j, e', hj, hje, a1, a2, a3, a4, ?_⟩
    rintro ⟨k, e'', hk1, hk2, hke, r⟩
    apply a5
    refine ⟨k, e'', hk1, hk2, ?_, r⟩
    rw [getElem?_append_of_lt (by omega)]
    exact hke

/-- appending an event that is not Complete -/
theorem OrderHist.append_other {h : List Event} {e : Event} (ho : OrderHist h) (hne : e.status ≠ .complete) :
    OrderHist (h ++ [e]) := by
  intro i e' hi hc
  by_cases hlt : i < h.length
  · rw [getElem?_append_of_lt hlt] at hi
    rcases ho i e' hi hc with r | r | r | r
    · exact Or.inl (r.mono _)
    · exact Or.inr (Or.inl (r.mono _))
    · exact Or.inr (Or.inr (Or.inl (r.mono _)))
    · exact Or.inr (Or.inr (Or.inr (r.mono _)))
  · have hlen := getElem?_lt hi
    simp only [List.length_append, List.length_cons, List.length_nil] at hlen
    have : i = h.length := by omega
    subst this
    simp at hi
    subst hi
    exact absurd hc hne

theorem OrderHist.nil : OrderHist [] := by
  intro i e hi; simp at hi

/-- appending a Complete event of a change: all earlier ones of the same stage have smaller indices -/
theorem OrderHist.append_change {h : List Event} {p : Stage} {n : Nat} (ho : OrderHist h)
    (hlt : ∀ e' ∈ h, e'.phase = .change → e'.stage = p → e'.status = .complete → e'.index < n) :
    OrderHist (h ++ [⟨.change, p, .complete, n⟩]) := by
  intro i e' hi hc
  by_cases hl : i < h.length
  · rw [getElem?_append_of_lt hl] at hi
    rcases ho i e' hi hc with r | r | r | r
    · exact Or.inl (r.mono _)
    · exact Or.inr (Or.inl (r.mono _))
    · exact Or.inr (Or.inr (Or.inl (r.mono _)))
    · exact Or.inr (Or.inr (Or.inr (r.mono _)))
  · have hlen := getElem?_lt hi
    simp only [List.length_append, List.length_cons, List.length_nil] at hlen
    have : i = h.length := by omega
    subst this
    have key : IsOrderedChange (h ++ [⟨.change, p, .complete, n⟩]) p h.length := by
      refine ⟨⟨.change, p, .complete, n⟩, by simp, rfl, rfl, rfl, ?_⟩
      rintro ⟨j, e'', hj, hje, a1, a2, a3, a4⟩
      rw [getElem?_append_of_lt hj] at hje
      have hm : e'' ∈ h := List.mem_of_getElem? hje
      have := hlt e'' hm a1 a2 a3
      simp only at a4
      omega
    cases p
    · exact Or.inl key
    · exact Or.inr (Or.inl key)

/-- appending a Complete event of a rollback: the change was completed before and no change of a
    later index has completed that stage -/
theorem OrderHist.append_rollback {h : List Event} {p : Stage} {n : Nat} (ho : OrderHist h)
    (hex : ∃ e' ∈ h, e'.phase = .change ∧ e'.status = .complete ∧ e'.index = n)
    (hle : ∀ e' ∈ h, e'.phase = .change → e'.stage = p → e'.status = .complete → e'.index ≤ n) :
    OrderHist (h ++ [⟨.rollback, p, .complete, n⟩]) := by
  intro i e' hi hc
  by_cases hl : i < h.length
  · rw [getElem?_append_of_lt hl] at hi
    rcases ho i e' hi hc with r | r | r | r
    · exact Or.inl (r.mono _)
    · exact Or.inr (Or.inl (r.mono _))
    · exact Or.inr (Or.inr (Or.inl (r.mono _)))
    · exact Or.inr (Or.inr (Or.inr (r.mono _)))
  · have hlen := getElem?_lt hi
    simp only [List.length_append, List.length_cons, List.length_nil] at hlen
    have : i = h.length := by omega
    subst this
    have key : IsOrderedRollback (h ++ [⟨.rollback, p, .complete, n⟩]) p h.length := by
      obtain ⟨e0, hm0, b1, b2, b3⟩ := hex
      obtain ⟨j0, hj0, hje0⟩ := List.getElem_of_mem hm0
      refine ⟨⟨.rollback, p, .complete, n⟩, by simp, rfl, rfl, rfl, ⟨j0, e0, hj0, ?_, b1, b2, b3⟩, ?_⟩
      · rw [getElem?_append_of_lt hj0]
        exact (List.getElem?_eq_some_iff.mpr ⟨hj0, hje0⟩)
      · rintro ⟨j, e'', hj, hje, a1, a2, a3, a4, _⟩
        rw [getElem?_append_of_lt hj] at hje
        have hm : e'' ∈ h := List.mem_of_getElem? hje
        have := hle e'' hm a1 a2 a3
        simp only at a4
        omega
    cases p
    · exact Or.inr (Or.inr (Or.inl key))
    · exact Or.inr (Or.inr (Or.inr key))

theorem CommitBeforeApplyHist.nil : CommitBeforeApplyHist [] := by
  intro i e hi; simp at hi

/-- appending an event: an apply-stage event needs its commit Complete event in the history -/
theorem CommitBeforeApplyHist.append {h : List Event} {e : Event} (hc : CommitBeforeApplyHist h)
    (hne : e.stage = .apply → (⟨e.phase, .commit, .complete, e.index⟩ : Event) ∈ h) :
    CommitBeforeApplyHist (h ++ [e]) := by
  intro i e' hi hs
  by_cases hl : i < h.length
  · rw [getElem?_append_of_lt hl] at hi
    obtain ⟨j, hj, hje⟩ := hc i e' hi hs
    exact ⟨j, hj, by rw [getElem?_append_of_lt (by omega)]; exact hje⟩
  · have hlen := getElem?_lt hi
    simp only [List.length_append, List.length_cons, List.length_nil] at hlen
    have : i = h.length := by omega
    subst this
    simp at hi
    subst hi
    obtain ⟨j, hj, hje⟩ := List.getElem_of_mem (hne hs)
    exact ⟨j, hj, by rw [getElem?_append_of_lt hj]; exact List.getElem?_eq_some_iff.mpr ⟨hj, hje⟩⟩

end OnosVerif.V3
