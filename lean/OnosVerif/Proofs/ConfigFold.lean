/- Clean histories: the fold of commits refines the fold of gNMI requests. -/
import OnosVerif.Proofs.ConfigView

namespace OnosVerif.Config
open OnosVerif.Path (Str)

theorem indexed_cons (lo : Nat) (t : Step) (rest : List Step) (h : indexed lo (t :: rest) = true) :
    lo < t.idx ∧ (∀ c ∈ t.change, c.index = t.idx) ∧ indexed t.idx rest = true := by
  simp only [indexed, Bool.and_eq_true, decide_eq_true_eq, List.all_eq_true] at h
  exact ⟨h.1.1, h.1.2, h.2⟩

/-- the refinement along a clean history, from any state that satisfies the invariant. -/
theorem run_refines : ∀ (steps : List Step) (D U W : List Str) (lo : Nat) (side : VMap) (st : Spec.State),
    Inv D U W lo side → Spec.NodupK st → (∀ p, liveAt side p = Spec.get st p) →
    cleanFrom D U W (steps.map (·.change)) = true → indexed lo steps = true →
    (∀ t ∈ steps, IsPerm t.ordU) →
    (∃ D' U' W' lo', Inv D' U' W' lo' (runTwin side steps)) ∧
      Spec.NodupK (Spec.run st (steps.map (·.change))) ∧
      ∀ p, liveAt (runTwin side steps) p = Spec.get (Spec.run st (steps.map (·.change))) p
  | [], D, U, W, lo, side, st, hinv, hk, hread, _, _, _ => ⟨⟨D, U, W, lo, hinv⟩, hk, hread⟩
  | t :: rest, D, U, W, lo, side, st, hinv, hk, hread, hclean, hidx, hperm => by
    simp only [List.map_cons, cleanFrom, Bool.and_eq_true] at hclean
    obtain ⟨hcs, hcr⟩ := hclean
    have hcl := cleanStep_spec D U W t.change hcs
    obtain ⟨hlo, hst, hir⟩ := indexed_cons lo t rest hidx
    have hp := hperm t List.mem_cons_self
    have hok := stepOK_of_inv D U W lo t.idx side t.change hinv hcl hlo hst
    have hinv' := inv_commit D U W lo t.idx side t.change t.ordU hinv hcl hlo hst hp
    have hread' : ∀ p, liveAt (commitValues t.idx side t.change t.ordU) p =
        Spec.get (Spec.apply st t.change) p := by
      intro p
      rw [commit_liveAt t.ordU hok hp p, spec_apply_get st t.change hcl.nodup p]
      unfold specAt
      cases VMap.get t.change p with
      | some c => rfl
      | none => simp only [hread p]
    have := run_refines rest _ _ _ t.idx _ (Spec.apply st t.change) hinv' (Spec.apply_nodup st t.change hk)
      hread' hcr hir (fun t' ht' => hperm t' (List.mem_cons_of_mem _ ht'))
    simpa [runTwin, Spec.run] using this

end OnosVerif.Config
