/- `addPathToTree` touches exactly one member of the node it is applied to: the loop of `BuildTree`
   at one node factors into independent folds, one per member name. -/
import OnosVerif.Proofs.TreeScan
import OnosVerif.Tree.Spec

namespace OnosVerif.Tree
open OnosVerif.Path (Str GPath Elem)

variable (rfc : Bool) (ord : List (Str × Str) → List (Str × Str))

/-- the slice found under a list name, from the member's current value. -/
def sliceOf : Option Json → Option (List Json)
  | none => some []
  | some (.arr items) => some items
  | some _ => none

/-- effect of one path/value on the member it touches (`none`: the member is left as it is). -/
def memberStep (x : Entry) (old : Option Json) : Except Err (Option Json) :=
  match x.1 with
  | [] => .error .panic
  | [_] => .ok (leafJson rfc x.2)
  | e :: e' :: rest =>
    if e.keys.isEmpty then
      match addElems rfc ord (e' :: rest) x.2 (old.getD (.obj [])) with
      | .error err => .error err
      | .ok c => .ok (some c)
    else
      match sliceOf old with
      | none => .error .listConv
      | some items =>
        match listStep e.keys (ord e.keys) items
            (fun it => addElems rfc ord (e' :: rest) x.2 it) (fun _ => .error .panic) with
        | .error err => .error err
        | .ok items' => .ok (some (.arr items'))

/-- the name of the member a path touches. -/
def memberName (x : Entry) : Str :=
  match x.1 with
  | [] => []
  | e :: _ => e.name

def setMember (n : Str) (y : Option Json) (m : List (Str × Json)) : List (Str × Json) :=
  match y with
  | none => m
  | some j => objSet n j m

def upd (y cur : Option Json) : Option Json :=
  match y with
  | some j => some j
  | none => cur

/-- a single-element path names its leaf by the bare element name. -/
def leafPlain (x : Entry) : Prop := ∀ e, x.1 = [e] → elemText e = e.name

theorem getSlice_eq (m : List (Str × Json)) (n : Str) : getSlice m n = sliceOf (objGet m n) := by
  unfold getSlice sliceOf
  cases objGet m n with
  | none => rfl
  | some j => cases j <;> rfl

theorem addElems_member (x : Entry) (m : List (Str × Json)) (hl : leafPlain x) (hne : x.1 ≠ []) :
    addElems rfc ord x.1 x.2 (.obj m) =
      match memberStep rfc ord x (objGet m (memberName x)) with
      | .error e => .error e
      | .ok y => .ok (.obj (setMember (memberName x) y m)) := by
  obtain ⟨p, v⟩ := x
  cases p with
  | nil => exact absurd rfl hne
  | cons e r =>
    cases r with
    | nil =>
      have := hl e rfl
      simp only [addElems, memberStep, memberName, setLeaf, this, setMember]
      cases leafJson rfc v <;> rfl
    | cons e' rest =>
      simp only [addElems, memberStep, memberName, getSlice_eq]
      by_cases hk : e.keys.isEmpty = true
      · simp only [hk, if_true]
        cases hg : objGet m e.name with
        | none =>
          simp only [Option.getD_none]
          cases addElems rfc ord (e' :: rest) v (.obj []) <;> rfl
        | some c =>
          simp only [Option.getD_some]
          cases addElems rfc ord (e' :: rest) v c <;> rfl
      · simp only [hk, if_false]
        cases sliceOf (objGet m e.name) with
        | none => rfl
        | some items =>
          simp only
          cases listStep e.keys (ord e.keys) items (fun it => addElems rfc ord (e' :: rest) v it)
            (fun _ => .error .panic) <;> rfl

theorem objGet_setMember (n n2 : Str) (y : Option Json) (m : List (Str × Json)) :
    objGet (setMember n y m) n2 = if n2 = n then upd y (objGet m n) else objGet m n2 := by
  cases y with
  | none =>
    simp only [setMember, upd]
    by_cases h : n2 = n
    · simp [h]
    · simp [h]
  | some j =>
    simp only [setMember, upd, objGet_objSet]

theorem setMember_sorted (n : Str) (y : Option Json) (m : List (Str × Json)) (h : ObjSorted m) :
    ObjSorted (setMember n y m) := by
  cases y with
  | none => exact h
  | some j => exact objSet_sorted n j m h

/-- the fold of `memberStep` over the path/values that touch one member. -/
def memberFold : List Entry → Option Json → Except Err (Option Json)
  | [], cur => .ok cur
  | x :: xs, cur =>
    match memberStep rfc ord x cur with
    | .error e => .error e
    | .ok y => memberFold xs (upd y cur)

/-- the path/values of `S` that touch member `n`. -/
def touching (S : List Entry) (n : Str) : List Entry := S.filter (fun x => decide (memberName x = n))

/-- the loop of `BuildTree` at one node succeeds iff every member's own fold succeeds, and then
    every member holds the result of its fold. -/
theorem addAllE_members : ∀ (S : List Entry) (m : List (Str × Json)),
    (∀ x ∈ S, leafPlain x ∧ x.1 ≠ []) → ObjSorted m →
    (∀ n, ∃ r, memberFold rfc ord (touching S n) (objGet m n) = .ok r) →
    ∃ m', addAllE rfc ord S (.obj m) = .ok (.obj m') ∧ ObjSorted m' ∧
      ∀ n, memberFold rfc ord (touching S n) (objGet m n) = .ok (objGet m' n)
  | [], m, _, hs, _ => ⟨m, rfl, hs, fun n => rfl⟩
  | x :: xs, m, hx, hs, hok => by
    have hx0 := hx x List.mem_cons_self
    obtain ⟨r0, hr0⟩ := hok (memberName x)
    have ht0 : touching (x :: xs) (memberName x) = x :: touching xs (memberName x) := by
      simp [touching]
    rw [ht0] at hr0
    simp only [memberFold] at hr0
    cases hstep : memberStep rfc ord x (objGet m (memberName x)) with
    | error e => rw [hstep] at hr0; simp at hr0
    | ok y =>
      rw [hstep] at hr0
      simp only at hr0
      have hadd : addElems rfc ord x.1 x.2 (.obj m) = .ok (.obj (setMember (memberName x) y m)) := by
        rw [addElems_member rfc ord x m hx0.1 hx0.2, hstep]
      have hother : ∀ n, n ≠ memberName x → touching (x :: xs) n = touching xs n := by
        intro n hn
        simp only [touching, List.filter_cons]
        have : decide (memberName x = n) = false := by simp [Ne.symm hn]
        simp [this]
      obtain ⟨m', h1, h2, h3⟩ := addAllE_members xs (setMember (memberName x) y m)
        (fun z hz => hx z (List.mem_cons_of_mem _ hz)) (setMember_sorted _ _ _ hs)
        (by
          intro n
          rw [objGet_setMember]
          by_cases hn : n = memberName x
          · subst hn; simp only [if_true]; exact ⟨r0, hr0⟩
          · simp only [hn, if_false]
            obtain ⟨r, hr⟩ := hok n
            rw [hother n hn] at hr
            exact ⟨r, hr⟩)
      refine ⟨m', ?_, h2, ?_⟩
      · obtain ⟨p, v⟩ := x
        simp only [addAllE]
        simp only at hadd
        rw [hadd]
        exact h1
      · intro n
        have h3n := h3 n
        rw [objGet_setMember] at h3n
        by_cases hn : n = memberName x
        · subst hn
          simp only [if_true] at h3n
          rw [ht0]
          simp only [memberFold, hstep]
          exact h3n
        · simp only [hn, if_false] at h3n
          rw [hother n hn]
          exact h3n

end OnosVerif.Tree
