/- The list-entry lookup of `addPathToTree` (`scanItem`, `scanItems`, `listStep`): what it computes,
   and that the iteration order of the key map does not matter. -/
import OnosVerif.Proofs.TreeObj

namespace OnosVerif.Tree
open OnosVerif.Path (Str)

/-- the key `kv` is present in the item with another text. -/
def keyClash (m : List (Str × Json)) (kv : Str × Str) : Bool :=
  match objGet m kv.1 with
  | some j => convertBasicType j != kv.2
  | none => false

/-- the key `kv` is present in the item (whatever its text). -/
def keyPresent (m : List (Str × Json)) (kv : Str × Str) : Bool := (objGet m kv.1).isSome

/-- some key of the map is present in the item with another text. -/
def clash (m : List (Str × Json)) (km : List (Str × Str)) : Bool := km.any (keyClash m)

/-- how many keys of the map are present in the item. -/
def present (m : List (Str × Json)) (km : List (Str × Str)) : Nat := km.countP (keyPresent m)

theorem scanItem_clash (m : List (Str × Json)) (i : Nat) : ∀ (km : List (Str × Str)) (st : Nat × Option Nat),
    clash m km = true → (scanItem m i km st).1 = 0
  | [], _, h => by simp [clash] at h
  | (k, v) :: rest, (fk, sel), h => by
    unfold scanItem
    cases hg : objGet m k with
    | none =>
      simp only
      apply scanItem_clash m i rest
      simpa [clash, keyClash, hg] using h
    | some l =>
      simp only
      by_cases he : convertBasicType l = v
      · simp only [he, if_true]
        apply scanItem_clash m i rest
        simpa [clash, keyClash, hg, he] using h
      · simp [he]

theorem scanItem_noclash (m : List (Str × Json)) (i : Nat) : ∀ (km : List (Str × Str)) (fk : Nat) (sel : Option Nat),
    clash m km = false →
    scanItem m i km (fk, sel) = (fk + present m km, if 0 < present m km then some i else sel)
  | [], fk, sel, _ => by simp [scanItem, present]
  | (k, v) :: rest, fk, sel, h => by
    simp only [clash, List.any_cons, Bool.or_eq_false_iff] at h
    obtain ⟨h1, h2⟩ := h
    unfold scanItem
    cases hg : objGet m k with
    | none =>
      simp only
      rw [scanItem_noclash m i rest fk sel h2]
      have : present m ((k, v) :: rest) = present m rest := by
        simp [present, keyPresent, hg]
      rw [this]
    | some l =>
      simp only [keyClash, hg, bne_eq_false_iff_eq] at h1
      simp only [h1, if_true]
      rw [scanItem_noclash m i rest (fk + 1) (some i) h2]
      have : present m ((k, v) :: rest) = present m rest + 1 := by
        simp [present, keyPresent, hg]
      rw [this]
      refine Prod.ext (by simp only; omega) ?_
      simp only
      split <;> simp

theorem clash_perm (m : List (Str × Json)) (a b : List (Str × Str)) (h : a.Perm b) : clash m a = clash m b := by
  rw [Bool.eq_iff_iff]
  simp only [clash, List.any_eq_true]
  constructor
  · rintro ⟨x, hx, hc⟩; exact ⟨x, h.mem_iff.1 hx, hc⟩
  · rintro ⟨x, hx, hc⟩; exact ⟨x, h.mem_iff.2 hx, hc⟩

theorem present_perm (m : List (Str × Json)) (a b : List (Str × Str)) (h : a.Perm b) : present m a = present m b :=
  h.countP_eq _

/-- two scan states that `listStep` cannot tell apart. -/
def StEquiv (s t : Nat × Option Nat) : Prop := s.1 = t.1 ∧ (0 < s.1 → s.2 = t.2)

theorem scanItem_equiv (m : List (Str × Json)) (i : Nat) (a b : List (Str × Str)) (h : a.Perm b)
    (s t : Nat × Option Nat) (hst : StEquiv s t) : StEquiv (scanItem m i a s) (scanItem m i b t) := by
  obtain ⟨fk, sel⟩ := s
  obtain ⟨fk', sel'⟩ := t
  obtain ⟨h1, h2⟩ := hst
  simp only at h1 h2
  subst h1
  cases hc : clash m a with
  | true =>
    have hc' : clash m b = true := by rw [← clash_perm m a b h]; exact hc
    have e1 := scanItem_clash m i a (fk, sel) hc
    have e2 := scanItem_clash m i b (fk, sel') hc'
    exact ⟨by rw [e1, e2], by rw [e1]; intro h; exact absurd h (Nat.lt_irrefl 0)⟩
  | false =>
    have hc' : clash m b = false := by rw [← clash_perm m a b h]; exact hc
    rw [scanItem_noclash m i a fk sel hc, scanItem_noclash m i b fk sel' hc', present_perm m a b h]
    refine ⟨rfl, ?_⟩
    simp only
    intro hpos
    by_cases hp : 0 < present m b
    · simp [hp]
    · simp only [hp, if_false]
      exact h2 (by omega)

theorem scanItems_equiv (a b : List (Str × Str)) (h : a.Perm b) : ∀ (items : List Json) (i : Nat)
    (s t : Nat × Option Nat), StEquiv s t →
    (∃ e, scanItems a items i s = .error e ∧ scanItems b items i t = .error e) ∨
    (∃ s' t', scanItems a items i s = .ok s' ∧ scanItems b items i t = .ok t' ∧ StEquiv s' t')
  | [], _, s, t, hst => Or.inr ⟨s, t, rfl, rfl, hst⟩
  | it :: rest, i, s, t, hst => by
    cases it with
    | obj m =>
      simp only [scanItems]
      exact scanItems_equiv a b h rest (i + 1) _ _ (scanItem_equiv m i a b h s t hst)
    | str _ => exact Or.inl ⟨.itemConv, rfl, rfl⟩
    | num _ => exact Or.inl ⟨.itemConv, rfl, rfl⟩
    | bool _ => exact Or.inl ⟨.itemConv, rfl, rfl⟩
    | arr _ => exact Or.inl ⟨.itemConv, rfl, rfl⟩

/-- `listStep` does not depend on the order in which the key map is ranged over. -/
theorem listStep_perm (km a b : List (Str × Str)) (ha : a.Perm km) (hb : b.Perm km) (items : List Json)
    (recur : Json → Except Err Json) (nilRecur : Unit → Except Err Unit) :
    listStep km a items recur nilRecur = listStep km b items recur nilRecur := by
  have hab : a.Perm b := ha.trans hb.symm
  unfold listStep
  rcases scanItems_equiv a b hab items 0 (0, none) (0, none) ⟨rfl, fun _ => rfl⟩ with
    ⟨e, h1, h2⟩ | ⟨⟨fk, sel⟩, ⟨fk', sel'⟩, h1, h2, h3, h4⟩
  · rw [h1, h2]
  · rw [h1, h2]
    simp only at h3 h4
    subst h3
    simp only
    by_cases hlt : fk < km.length
    · simp [hlt]
    · simp only [hlt, if_false]
      by_cases hpos : 0 < fk
      · rw [h4 hpos]
      · -- fk = 0 and the key map is empty: nothing was ranged over
        have hkm : km = [] := by
          cases km with
          | nil => rfl
          | cons _ _ => simp only [List.length_cons] at hlt; omega
        subst hkm
        have ea : a = [] := List.Perm.eq_nil ha
        have eb : b = [] := List.Perm.eq_nil hb
        subst ea; subst eb
        rw [h1] at h2
        cases h2
        rfl

end OnosVerif.Tree
