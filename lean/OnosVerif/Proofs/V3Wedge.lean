/-
The rollback wedge: once `commitRollback` has moved `Committed.Target` to the rollback index
(rollback mode), no step of the protocol ever moves `Committed.Change` again — every transaction
beyond it stays commit-Pending for ever.
-/
import OnosVerif.Proofs.V3Inv4
import OnosVerif.Proofs.V3Bridge3
namespace OnosVerif.V3

/-- rollback mode (`Committed.Target` below `Committed.Change`) is absorbing: no step of the core
    leaves it or moves `Committed.Change` -/
theorem rbmode_absorbing {k k' : Core} (hc : CInv k) (hm : k.cur.cTarget < k.cur.cChange) (hs : CStep k k') :
    k'.cur.cTarget < k'.cur.cChange ∧ k'.cur.cChange = k.cur.cChange := by
  cases hs with
  | append => exact ⟨hm, rfl⟩
  | rollback i t ht hcr => simp only [Core.setTx_cur]; exact ⟨hm, trivial⟩
  | first i t a rest ht he =>
    have hu := he.upd1 ht
    obtain ⟨g1, g2, g3, g4⟩ := hc.cgl
    obtain ⟨x1,x2,x3,x4,x5,x6,x7,x8,x9,x10,x11,x12,x13,x14,x15,x16⟩ := hc.ctx ht
    obtain ⟨w1,w2,w3,w4,w5,w6,w7,w8⟩ := x1
    rw [hu.cur]
    cases he <;> simp only [cActCur] <;> grind
  | both i t a b ht he =>
    have hu := he.upd2 ht
    obtain ⟨g1, g2, g3, g4⟩ := hc.cgl
    obtain ⟨x1,x2,x3,x4,x5,x6,x7,x8,x9,x10,x11,x12,x13,x14,x15,x16⟩ := hc.ctx ht
    obtain ⟨w1,w2,w3,w4,w5,w6,w7,w8⟩ := x1
    rw [hu.cur]
    cases he <;> simp only [cActCur] <;> grind

theorem rbmode_star {k k' : Core} (hr : CReach k) (hm : k.cur.cTarget < k.cur.cChange) (hs : CStar k k') :
    k'.cur.cTarget < k'.cur.cChange ∧ k'.cur.cChange = k.cur.cChange := by
  induction hs with
  | refl => exact ⟨hm, rfl⟩
  | tail h1 hs ih =>
    have hr' := hr.star h1
    obtain ⟨a, b⟩ := rbmode_absorbing (CInv.reach hr') ih.1 hs
    exact ⟨a, b.trans ih.2⟩


theorem run_append (s : Sys) (a b : List Action) : run s (a ++ b) = run (run s a) b := by
  simp [run, List.foldl_append]

theorem safeSchedule_append (a b : List Action) :
    safeSchedule (a ++ b) = (safeSchedule a && safeSchedule b) := by
  simp [safeSchedule, List.all_append]

theorem storeNeverFails_append (s : Sys) (a b : List Action) :
    storeNeverFails s (a ++ b) = (storeNeverFails s a && storeNeverFails (run s a) b) := by
  induction a generalizing s with
  | nil => simp [storeNeverFails, run]
  | cons x rest ih =>
    simp only [List.cons_append, storeNeverFails, ih, run, List.foldl_cons, Bool.and_assoc]

/-- a safe schedule is a sequence of core steps -/
theorem run_star (s : Sys) (acts : List Action)
    (hsafe : safeSchedule acts = true) (hsf : storeNeverFails s acts = true) :
    CStar (core s) (core (run s acts)) := by
  induction acts generalizing s with
  | nil => exact .refl _
  | cons a rest ih =>
    simp only [safeSchedule, List.all_cons, Bool.and_eq_true] at hsafe
    simp only [storeNeverFails, Bool.and_eq_true, Bool.not_eq_eq_eq_not, Bool.not_true] at hsf
    simp only [run, List.foldl_cons]
    exact (step_star s a hsafe.1 hsf.1).trans (ih (step s a) hsafe.2 hsf.2)

end OnosVerif.V3
