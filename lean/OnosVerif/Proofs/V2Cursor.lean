/-
Commit-cursor discipline of the v2 twin (for C02, C07): the committed index of a target only
grows, merges are logged in strictly increasing index order per target (so no change is merged
twice and none is merged out of order), for every interleaving of effects, lost/failed writes,
crashes and faults.
-/
import OnosVerif.Proofs.V2Lookup
import OnosVerif.Proofs.V2Plans
import OnosVerif.Proofs.V2Phase

namespace OnosVerif.V2
open OnosVerif.Config (PV VMap)

/-- record-local guard of a configuration update, as far as the commit cursor is concerned -/
def CfgOK (c : Cfg) : CfgUpd → Prop
  | .commit idx _ => c.committed < idx
  | .abortBoth idx => c.committed < idx
  | .abortCommitted idx => c.committed < idx
  | _ => True

theorem applyCfgUpd_committed (c : Cfg) (u : CfgUpd) (h : CfgOK c u) :
    c.committed ≤ (applyCfgUpd c u).committed ∧ (applyCfgUpd c u).target = c.target := by
  cases u <;> simp only [CfgOK] at h <;> simp [applyCfgUpd] <;> omega

def JustC (s : Sys) : Effect → Prop
  | .cfg t ver u _ _ _ => ∃ c, s.cfg? t = some c ∧ ver ≤ c.version ∧ (c.version = ver → CfgOK c u)
  | .prop id ver (.setPrev n) => ∃ p, s.prop? id = some p ∧ ver ≤ p.version ∧ (p.version = ver → n < p.index)
  | .createProp p => p.prev = 0 ∧ 1 ≤ p.index
  | _ => True

structure CursorInv (s : Sys) : Prop where
  prop_prev : ∀ id p, s.prop? id = some p → p.prev < p.index
  log_bound : ∀ m ∈ s.commitLog, ∃ c, s.cfg? m.1 = some c ∧ m.2 ≤ c.committed
  log_sorted : s.commitLog.Pairwise (fun a b => a.1 = b.1 → a.2 < b.2)
  tx_pos : ∀ t ∈ s.txs, 1 ≤ t.index

/-- how configurations and proposals may change in one step, as far as the cursor argument needs -/
structure EvolvesC (s s' : Sys) : Prop where
  cfg : ∀ t c, s.cfg? t = some c → ∃ c', s'.cfg? t = some c' ∧ c.version ≤ c'.version ∧
      (c'.version = c.version → c'.committed = c.committed) ∧ c.committed ≤ c'.committed
  prop : ∀ id p, s.prop? id = some p → ∃ p', s'.prop? id = some p' ∧ p.version ≤ p'.version ∧
      p'.index = p.index

theorem EvolvesC.of_eq (s s' : Sys) (hc : s'.cfgs = s.cfgs) (hp : s'.props = s.props) : EvolvesC s s' := by
  constructor
  · intro t c h
    exact ⟨c, by unfold Sys.cfg? at h ⊢; rw [hc]; exact h, Nat.le_refl _, fun _ => rfl, Nat.le_refl _⟩
  · intro id p h
    exact ⟨p, by unfold Sys.prop? at h ⊢; rw [hp]; exact h, Nat.le_refl _, rfl⟩

theorem justC_stable (s s' : Sys) (hev : EvolvesC s s') (e : Effect) (h : JustC s e) : JustC s' e := by
  cases e with
  | cfg t ver u sh ash oc =>
    obtain ⟨c, hc, hle, hg⟩ := h
    obtain ⟨c', hc', hv, heq, _⟩ := hev.cfg t c hc
    refine ⟨c', hc', Nat.le_trans hle hv, ?_⟩
    intro hver
    have hcv : c.version = ver := Nat.le_antisymm (by omega) hle
    have hcm : c'.committed = c.committed := heq (by omega)
    have := hg hcv
    cases u <;> simp only [CfgOK] at this ⊢ <;> omega
  | prop id ver u =>
    cases u with
    | setPrev n =>
      obtain ⟨p, hp, hle, hg⟩ := h
      obtain ⟨p', hp', hv, hi⟩ := hev.prop id p hp
      refine ⟨p', hp', Nat.le_trans hle hv, ?_⟩
      intro hver
      have hpv : p.version = ver := Nat.le_antisymm (by omega) hle
      rw [hi]; exact hg hpv
    | _ => trivial
  | createProp p => exact h
  | _ => trivial

/-! ### plans are justified -/

theorem statusWrite_justC (s : Sys) (t : Tgt) (c : Cfg) (hc : s.cfg? t = some c) (a v : VMap)
    (u : CfgUpd) (oc : OnConflict) (hu : CfgOK c u) : ∀ e ∈ statusWrite c a v u oc, JustC s e := by
  have hct := cfg?_target s t c hc
  intro e he
  unfold statusWrite at he
  simp only [List.mem_append, List.mem_singleton] at he
  rcases he with he | he
  · split at he
    · simp at he
    · simp only [List.mem_singleton] at he; subst he; trivial
  · subst he
    exact ⟨c, by rw [hct]; exact hc, Nat.le_refl _, fun _ => hu⟩

theorem initCreates_justC (s : Sys) (hinv : CursorInv s) (i : Nat) (t : Tx) (ht : s.tx? i = some t) :
    (∀ e ∈ initCreatesChange s t, JustC s e) ∧ (∀ tg, ∀ e ∈ initCreatesRollback s t tg, JustC s e) := by
  have hpos : 1 ≤ t.index := hinv.tx_pos t (by unfold Sys.tx? at ht; exact List.mem_of_find?_eq_some ht)
  constructor
  · intro e he
    unfold initCreatesChange at he
    simp only [List.mem_filterMap] at he
    obtain ⟨c, _, hc⟩ := he
    split at hc
    · simp at hc
    · simp only [Option.some.injEq] at hc
      subst hc; exact ⟨rfl, hpos⟩
  · intro tg e he
    unfold initCreatesRollback at he
    simp only [List.mem_filterMap] at he
    obtain ⟨c, _, hc⟩ := he
    split at hc
    · simp at hc
    · simp only [Option.some.injEq] at hc
      subst hc; exact ⟨rfl, hpos⟩

/-- an effect that is not a configuration entry write, a `setPrev`, or a creation needs nothing -/
theorem justC_trivial (s : Sys) (e : Effect)
    (h : (∃ i v u, e = .tx i v u) ∨ (∃ t n, e = .createCfg t n) ∨ (∃ t v, e = .cfgVals t v) ∨
      (∃ t v, e = .cfgAVals t v) ∨ (∃ r, e = .dev r) ∨
      (∃ id v u, e = .prop id v u ∧ ∀ n, u ≠ .setPrev n)) : JustC s e := by
  rcases h with ⟨_, _, _, h⟩ | ⟨_, _, h⟩ | ⟨_, _, h⟩ | ⟨_, _, h⟩ | ⟨_, h⟩ | ⟨_, _, u, h, hu⟩ <;> subst h <;>
    try trivial
  cases u <;> first | trivial | exact absurd rfl (hu _)

/-- shape of the effects of the transaction reconciler -/
def TxShape (e : Effect) : Prop :=
  (∃ i v u, e = Effect.tx i v u) ∨ (∃ id v u, e = Effect.prop id v u ∧ ∀ n, u ≠ .setPrev n)

theorem txShape_justC (s : Sys) (e : Effect) (h : TxShape e) : JustC s e := by
  rcases h with h | h
  · exact justC_trivial s e (Or.inl h)
  · exact justC_trivial s e (Or.inr (Or.inr (Or.inr (Or.inr (Or.inr h)))))

theorem tx_plan_justC (s : Sys) (hinv : CursorInv s) (i : Nat) :
    ∀ e ∈ (txReconcile s i).effects, JustC s e := by
  intro e he
  unfold txReconcile at he
  cases ht : s.tx? i with
  | none => simp [ht, Plan.nop] at he
  | some t =>
    obtain ⟨hcr1, hcr2⟩ := initCreates_justC s hinv i t ht
    simp only [ht] at he
    have htx : ∀ u, JustC s (.tx t.index t.version u) := fun u => txShape_justC s _ (Or.inl ⟨_, _, _, rfl⟩)
    have hpr : ∀ id v (u : PropUpd), (∀ n, u ≠ .setPrev n) → JustC s (.prop id v u) :=
      fun id v u hu => txShape_justC s _ (Or.inr ⟨_, _, _, rfl, hu⟩)
    split at he
    · -- apply
      unfold txApply at he
      repeat' split at he
      all_goals first
        | (simp [Plan.nop] at he; done)
        | (rename_i ps _
           rcases txApplyLoop_spec t ps true e he with h | ⟨f, h⟩ | ⟨p, _, h, _⟩ <;> subst h
           · exact htx _
           · exact htx _
           · exact hpr _ _ _ (by intro n h; cases h))
    · split at he
      · unfold txAbort at he
        repeat' split at he
        all_goals first
          | (simp [Plan.nop] at he; done)
          | (rename_i ps _
             rcases txAbortLoop_spec t ps true e he with h | ⟨p, _, h, _⟩ <;> subst h
             · exact htx _
             · exact hpr _ _ _ (by intro n h; cases h))
      · split at he
        · unfold txCommit at he
          repeat' split at he
          all_goals first
            | (simp [Plan.nop] at he; done)
            | (simp only [List.mem_singleton] at he; subst he; exact htx _)
            | (rename_i ps _
               rcases txCommitLoop_spec t ps true e he with h | ⟨p, _, h, _⟩ <;> subst h
               · exact htx _
               · exact hpr _ _ _ (by intro n h; cases h))
        · split at he
          · unfold txValidate at he
            repeat' split at he
            all_goals first
              | (simp [Plan.nop] at he; done)
              | (simp only [List.mem_singleton] at he; subst he; exact htx _)
              | (rename_i ps _
                 rcases txValidateLoop_spec t ps true e he with ⟨h, _⟩ | ⟨f, h⟩ | ⟨p, _, h, _⟩ <;> subst h
                 · exact htx _
                 · exact htx _
                 · exact hpr _ _ _ (by intro n h; cases h))
          · split at he
            · unfold txInitialize txInitProposals at he
              repeat' split at he
              all_goals first
                | (simp [Plan.nop] at he; done)
                | (simp only [List.mem_singleton] at he; subst he; exact htx _)
                | (simp only [List.mem_append, List.mem_singleton] at he
                   rcases he with he | he
                   · first | exact hcr1 e he | exact hcr2 _ e he
                   · subst he; exact htx _)
            · simp only [List.mem_singleton] at he
              subst he; exact htx _

theorem prop_plan_justC (s : Sys) (hinv : CursorInv s) (id : PropId) (env : Env) :
    ∀ e ∈ (propReconcile s id env).effects, JustC s e := by
  intro e he
  unfold propReconcile at he
  cases hp : s.prop? id with
  | none => simp [hp, Plan.nop] at he
  | some p =>
    have hk := prop?_key s id p hp
    have hprev := hinv.prop_prev id p hp
    simp only [hp] at he
    have hpr : ∀ id v (u : PropUpd), (∀ n, u ≠ .setPrev n) → JustC s (.prop id v u) :=
      fun id v u hu => justC_trivial s _ (Or.inr (Or.inr (Or.inr (Or.inr (Or.inr ⟨_, _, _, rfl, hu⟩)))))
    have hdev : ∀ r, JustC s (.dev r) := fun r => trivial
    split at he
    · -- apply
      unfold propApply at he
      cases hc : s.cfg? p.target with
      | none => (repeat' split at he) <;> simp_all [Plan.nop]
      | some c =>
        simp only [hc] at he
        repeat' split at he
        all_goals first
          | (simp [Plan.nop] at he; done)
          | (simp only [List.mem_singleton] at he; subst he; exact hpr _ _ _ (by intro n h; cases h))
          | (simp only [List.mem_append, List.mem_cons, List.mem_singleton, List.not_mem_nil, or_false] at he
             rcases he with (he | he) | he
             · subst he; exact hdev _
             · exact statusWrite_justC s _ c hc _ _ _ _ (by simp [CfgOK]) e he
             · subst he; exact hpr _ _ _ (by intro n h; cases h))
    · split at he
      · -- abort
        unfold propAbort at he
        cases hc : s.cfg? p.target with
        | none => (repeat' split at he) <;> simp_all [Plan.nop]
        | some c =>
          simp only [hc] at he
          repeat' split at he
          all_goals first
            | (simp [Plan.nop] at he; done)
            | (rename_i hg
               simp only [List.mem_append, List.mem_singleton] at he
               rcases he with he | he
               · refine statusWrite_justC s _ c hc _ _ _ _ ?_ e he
                 simp only [CfgOK]; omega
               · subst he; exact hpr _ _ _ (by intro n h; cases h))
            | (rename_i hg
               refine statusWrite_justC s _ c hc _ _ _ _ ?_ e he
               simp only [CfgOK]; omega)
            | (simp only [List.mem_append, List.mem_singleton] at he
               rcases he with he | he
               · exact statusWrite_justC s _ c hc _ _ _ _ (by simp [CfgOK]) e he
               · subst he; exact hpr _ _ _ (by intro n h; cases h))
      · split at he
        · -- commit
          unfold propCommit at he
          cases hc : s.cfg? p.target with
          | none => (repeat' split at he) <;> simp_all [Plan.nop]
          | some c =>
            have hct := cfg?_target s _ c hc
            simp only [hc] at he
            repeat' split at he
            all_goals first
              | (simp [Plan.nop] at he; done)
              | (simp only [List.mem_singleton] at he; subst he; exact hpr _ _ _ (by intro n h; cases h))
              | (rename_i hg
                 simp only [List.mem_cons, List.mem_singleton, List.not_mem_nil, or_false] at he
                 rcases he with he | he | he
                 · subst he; trivial
                 · subst he
                   exact ⟨c, hc, Nat.le_refl _, fun _ => by simp only [CfgOK]; omega⟩
                 · subst he; exact hpr _ _ _ (by intro n h; cases h))
        · split at he
          · -- validate
            unfold propValidate at he
            repeat' split at he
            all_goals first
              | (simp [Plan.nop] at he; done)
              | (simp only [List.mem_singleton] at he; subst he; exact hpr _ _ _ (by intro n h; cases h))
          · split at he
            · -- initialize
              unfold propInitialize at he
              cases hc : s.cfg? p.target with
              | none =>
                simp only [hc] at he
                repeat' split at he
                all_goals first
                  | (simp [Plan.nop] at he; done)
                  | (simp only [List.mem_singleton] at he; subst he; trivial)
              | some c =>
                simp only [hc] at he
                repeat' split at he
                all_goals first
                  | (simp [Plan.nop] at he; done)
                  | exact statusWrite_justC s _ c hc _ _ _ _ (by simp [CfgOK]) e he
                  | (simp only [List.mem_singleton] at he; subst he
                     exact ⟨p, by rw [hk]; exact hp, Nat.le_refl _, fun _ => by omega⟩)
                  | (simp only [List.mem_singleton] at he; subst he
                     exact hpr _ _ _ (by intro n h; cases h))
            · simp only [List.mem_singleton] at he
              subst he; exact hpr _ _ _ (by intro n h; cases h)

theorem cfg_plan_justC (s : Sys) (t : Tgt) (env : Env) :
    ∀ e ∈ (cfgReconcile s t env).effects, JustC s e := by
  intro e he
  unfold cfgReconcile at he
  cases hc : s.cfg? t with
  | none => simp [hc, Plan.nop] at he
  | some c =>
    simp only [hc] at he
    have hsync : ∀ g n, ∀ e ∈ syncEffects c g n, JustC s e := by
      intro g n e he
      unfold syncEffects at he
      simp only [List.mem_map] at he
      obtain ⟨_, _, h⟩ := he
      subst h; trivial
    repeat' split at he
    all_goals first
      | (simp [Plan.nop] at he; done)
      | exact statusWrite_justC s _ c hc _ _ _ _ (by simp [CfgOK]) e he
      | exact hsync _ _ e he
      | (simp only [List.mem_append] at he
         rcases he with he | he
         · exact hsync _ _ e he
         · exact statusWrite_justC s _ c hc _ _ _ _ (by simp [CfgOK]) e he)

theorem mast_plan_justC (s : Sys) (t : Tgt) (env : Env) :
    ∀ e ∈ (mastReconcile s t env).effects, JustC s e := by
  intro e he
  unfold mastReconcile at he
  cases hc : s.cfg? t with
  | none => simp [hc, Plan.nop] at he
  | some c =>
    simp only [hc] at he
    repeat' split at he
    all_goals first
      | (simp [Plan.nop] at he; done)
      | exact statusWrite_justC s _ c hc _ _ _ _ (by simp [CfgOK]) e he

theorem plan_justC (s : Sys) (hinv : CursorInv s) (id : Id) (env : Env) :
    ∀ e ∈ (reconcile s id env).effects, JustC s e := by
  cases id with
  | tx i => exact tx_plan_justC s hinv i
  | prop pid => exact prop_plan_justC s hinv pid env
  | cfg t => exact cfg_plan_justC s t env
  | mast t => exact mast_plan_justC s t env

end OnosVerif.V2
