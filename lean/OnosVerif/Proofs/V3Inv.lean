/-
Invariants of the protocol core under schedules without swallowed conflicts (`CReach`).
Layer 1: well-formedness of every transaction record (`TxWF`).
Layer 2: the commit cursors (`CInv`): `Committed.Change` is the frontier of the log, at most one
transaction is between Pending and Complete, and the commit side is either in normal mode
(`Committed.Target ∈ {Change, Change+1}`) or in rollback mode (the last log entry is being rolled
back, `Committed.Target` = its rollback index — from which the code never returns).
-/
import OnosVerif.Proofs.V3Core

namespace OnosVerif.V3

/-! ## Layer 1: transaction records -/

structure TxWF (t : TxC) : Prop where
  ccdom : t.cc = .pending ∨ t.cc = .inProgress ∨ t.cc = .complete ∨ t.cc = .failed
  ca_cc : t.ca = .pending ∨ t.ca = .canceled ∨ t.cc = .complete
  cancel : t.ca = .canceled ↔ t.cc = .failed
  phase : t.phase = .rollback ↔ t.rc ≠ none
  rcra : t.rc = none ↔ t.ra = none
  rc_cc : t.rc ≠ none → t.cc = .complete
  ra_rc : t.ra = none ∨ t.ra = some .pending ∨ t.rc = some .complete
  rcdom : t.rc = none ∨ t.rc = some .pending ∨ t.rc = some .inProgress ∨ t.rc = some .complete

theorem TxWF.fresh : TxWF freshTx := by
  constructor <;> simp [freshTx]

theorem TxWF.rollback {t : TxC} (h : TxWF t) (hc : cCanRollback t = true) : TxWF (cRollback t) := by
  simp only [cCanRollback, Bool.and_eq_true, decide_eq_true_eq] at hc
  obtain ⟨hp, hcc⟩ := hc
  have h1 := h.ca_cc
  have h2 := h.cancel
  constructor <;> simp_all [cRollback]

/-- every transaction write of an enabled branch keeps the record well-formed -/
theorem TxWF.act {k : Core} {i : Nat} {t : TxC} {acts : List Act} (he : Enabled k i t acts) (h : TxWF t) :
    ∀ a ∈ acts, TxWF (cActTx t a) := by
  have h1 := h.ccdom
  have h2 := h.ca_cc
  have h3 := h.cancel
  have h4 := h.phase
  have h5 := h.rcra
  have h6 := h.rc_cc
  have h7 := h.ra_rc
  have h8 := h.rcdom
  cases he <;> intro a ha <;> simp only [List.mem_cons, List.mem_nil_iff, or_false] at ha <;>
    (try rcases ha with rfl | rfl) <;> (try subst ha) <;>
    constructor <;> simp_all [cActTx]

end OnosVerif.V3

namespace OnosVerif.V3

/-! ## Layer 2: the commit cursors -/

/-- `k'` is `k` with transaction `i` replaced by `t'`, the cursors by `c'` and `evs` appended to the history -/
structure Upd (k : Core) (i : Nat) (t' : TxC) (c' : Cur) (evs : List Event) (k' : Core) : Prop where
  tx : ∀ j, k'.tx j = if j = i then some t' else k.tx j
  cur : k'.cur = c'
  hist : k'.hist = k.hist ++ evs
  len : k'.txs.length = k.txs.length

theorem Enabled.upd1 {k : Core} {i : Nat} {t : TxC} {a : Act} {rest : List Act}
    (he : Enabled k i t (a :: rest)) (ht : k.tx i = some t) :
    Upd k i (cActTx t a) (cActCur k.cur a) (actEvent a).toList (cAct k a) := by
  obtain ⟨h1, h2, h3, h4⟩ := he.net1 ht
  exact ⟨h1, h2, h3, h4⟩

theorem Enabled.upd2 {k : Core} {i : Nat} {t : TxC} {a b : Act}
    (he : Enabled k i t [a, b]) (ht : k.tx i = some t) :
    Upd k i (cActTx (cActTx t a) b) (cActCur (cActCur k.cur a) b)
      ((actEvent a).toList ++ (actEvent b).toList) (cAct (cAct k a) b) := by
  obtain ⟨h1, h2, h3, h4⟩ := he.net2 ht
  exact ⟨h1, h2, by rw [h3, List.append_assoc], h4⟩

structure CInv (k : Core) : Prop where
  wf : ∀ j t, k.tx j = some t → TxWF t
  K_le : k.cur.cChange ≤ k.txs.length
  idx : k.cur.cIndex = k.cur.cChange
  rev_le : k.cur.cRevision ≤ k.cur.cChange
  beyond : ∀ j t, k.tx j = some t → k.cur.cChange + 1 < j → t.cc = .pending
  below : ∀ j t, k.tx j = some t → j < k.cur.cChange → t.cc = .complete ∨ t.cc = .failed
  atK : ∀ t, k.tx k.cur.cChange = some t → t.cc ≠ .pending
  next : ∀ t, k.tx (k.cur.cChange + 1) = some t → t.cc ≠ .complete
  tgt : ∀ t, k.tx (k.cur.cChange + 1) = some t → t.cc ≠ .pending → k.cur.cTarget = k.cur.cChange + 1
  prev : k.cur.cTarget = k.cur.cChange + 1 → ∀ t, k.tx k.cur.cChange = some t → t.cc = .complete ∨ t.cc = .failed
  ridx_lt : ∀ j t, k.tx j = some t → t.ridx < j
  tgt_le : k.cur.cTarget ≤ k.cur.cChange + 1
  -- normal mode
  n_rc : k.cur.cChange ≤ k.cur.cTarget → ∀ j t, k.tx j = some t → t.rc = none ∨ t.rc = some .pending
  n_rev : k.cur.cChange ≤ k.cur.cTarget → ∀ j t, k.tx j = some t → t.cc = .complete → j ≤ k.cur.cRevision
  n_lag : k.cur.cChange ≤ k.cur.cTarget → ∀ t, k.tx k.cur.cChange = some t → t.cc = .inProgress → k.cur.cRevision = k.cur.cChange
  -- rollback mode
  r_last : k.cur.cTarget < k.cur.cChange → ∃ t, k.tx k.cur.cChange = some t ∧ t.cc = .complete ∧ t.rc ≠ none ∧
    k.cur.cTarget = t.ridx ∧
    ((k.cur.cRevision = k.cur.cChange ∧ (t.rc = some .pending ∨ t.rc = some .inProgress)) ∨
     (k.cur.cRevision = t.ridx ∧ (t.rc = some .inProgress ∨ t.rc = some .complete)))
  r_others : k.cur.cTarget < k.cur.cChange → ∀ j t, k.tx j = some t → j ≠ k.cur.cChange → t.rc = none ∨ t.rc = some .pending
  r_later : k.cur.cTarget < k.cur.cChange → ∀ j t, k.tx j = some t → k.cur.cChange < j → t.cc = .pending

end OnosVerif.V3

namespace OnosVerif.V3

theorem Upd.tx_cases {k k' : Core} {i : Nat} {t' : TxC} {c' : Cur} {evs : List Event}
    (hu : Upd k i t' c' evs k') {j : Nat} {tj : TxC} (hj : k'.tx j = some tj) :
    (j = i ∧ tj = t') ∨ (j ≠ i ∧ k.tx j = some tj) := by
  rw [hu.tx] at hj
  by_cases hji : j = i
  · left; simp [hji] at hj; exact ⟨hji, hj.symm⟩
  · right; simp [hji] at hj; exact ⟨hji, hj⟩

theorem Upd.tx_self {k k' : Core} {i : Nat} {t' : TxC} {c' : Cur} {evs : List Event}
    (hu : Upd k i t' c' evs k') : k'.tx i = some t' := by
  rw [hu.tx]; simp

theorem Upd.tx_other {k k' : Core} {i : Nat} {t' : TxC} {c' : Cur} {evs : List Event}
    (hu : Upd k i t' c' evs k') {j : Nat} (hji : j ≠ i) : k'.tx j = k.tx j := by
  rw [hu.tx]; simp [hji]

/-- commit-side frame: an update that keeps `cc`, `rc`, `ridx` of the written record and the four
    commit cursors preserves the commit invariant -/
theorem CInv.frame {k k' : Core} {i : Nat} {t t' : TxC} {c' : Cur} {evs : List Event}
    (h : CInv k) (ht : k.tx i = some t) (hu : Upd k i t' c' evs k') (hwf : TxWF t')
    (hcc : t'.cc = t.cc) (hrc : t'.rc = t.rc) (hri : t'.ridx = t.ridx)
    (h1 : c'.cIndex = k.cur.cIndex) (h2 : c'.cChange = k.cur.cChange)
    (h3 : c'.cTarget = k.cur.cTarget) (h4 : c'.cRevision = k.cur.cRevision) : CInv k' := by
  have key : ∀ j tj, k'.tx j = some tj → ∃ tj0, k.tx j = some tj0 ∧ tj.cc = tj0.cc ∧ tj.rc = tj0.rc ∧ tj.ridx = tj0.ridx := by
    intro j tj hj
    rcases hu.tx_cases hj with ⟨rfl, rfl⟩ | ⟨_, hj'⟩
    · exact ⟨t, ht, hcc, hrc, hri⟩
    · exact ⟨tj, hj', rfl, rfl, rfl⟩
  constructor
  · intro j tj hj
    rcases hu.tx_cases hj with ⟨rfl, rfl⟩ | ⟨_, hj'⟩
    · exact hwf
    · exact h.wf j tj hj'
  · rw [hu.cur, hu.len, h2]; exact h.K_le
  · rw [hu.cur, h1, h2]; exact h.idx
  · rw [hu.cur, h2, h4]; exact h.rev_le
  · intro j tj hj hlt
    obtain ⟨tj0, hj0, e1, _, _⟩ := key j tj hj
    rw [hu.cur, h2] at hlt
    rw [e1]; exact h.beyond j tj0 hj0 hlt
  · intro j tj hj hlt
    obtain ⟨tj0, hj0, e1, _, _⟩ := key j tj hj
    rw [hu.cur, h2] at hlt
    rw [e1]; exact h.below j tj0 hj0 hlt
  · intro tj hj
    rw [hu.cur, h2] at hj
    obtain ⟨tj0, hj0, e1, _, _⟩ := key _ tj hj
    rw [e1]; exact h.atK tj0 hj0
  · intro tj hj
    rw [hu.cur, h2] at hj
    obtain ⟨tj0, hj0, e1, _, _⟩ := key _ tj hj
    rw [e1]; exact h.next tj0 hj0
  · intro tj hj hne
    rw [hu.cur, h2] at hj
    obtain ⟨tj0, hj0, e1, _, _⟩ := key _ tj hj
    rw [hu.cur, h2, h3]; rw [e1] at hne; exact h.tgt tj0 hj0 hne
  · intro htg tj hj
    rw [hu.cur, h2] at hj
    rw [hu.cur, h2, h3] at htg
    obtain ⟨tj0, hj0, e1, _, _⟩ := key _ tj hj
    rw [e1]; exact h.prev htg tj0 hj0
  · intro j tj hj
    obtain ⟨tj0, hj0, _, _, e3⟩ := key j tj hj
    rw [e3]; exact h.ridx_lt j tj0 hj0
  · rw [hu.cur, h2, h3]; exact h.tgt_le
  · intro hm j tj hj
    rw [hu.cur, h2, h3] at hm
    obtain ⟨tj0, hj0, _, e2, _⟩ := key j tj hj
    rw [e2]; exact h.n_rc hm j tj0 hj0
  · intro hm j tj hj hc
    rw [hu.cur, h2, h3] at hm
    obtain ⟨tj0, hj0, e1, _, _⟩ := key j tj hj
    rw [hu.cur, h4]; rw [e1] at hc; exact h.n_rev hm j tj0 hj0 hc
  · intro hm tj hj hc
    rw [hu.cur, h2] at hj
    rw [hu.cur, h2, h3] at hm
    obtain ⟨tj0, hj0, e1, _, _⟩ := key _ tj hj
    rw [hu.cur, h2, h4]; rw [e1] at hc; exact h.n_lag hm tj0 hj0 hc
  · intro hm
    rw [hu.cur, h2, h3] at hm
    obtain ⟨tK, hK, a1, a2, a3, a4⟩ := h.r_last hm
    by_cases hKi : k.cur.cChange = i
    · have : t = tK := by rw [hKi] at hK; rw [ht] at hK; exact Option.some.inj hK
      subst this
      refine ⟨t', ?_, ?_, ?_, ?_, ?_⟩
      · rw [hu.cur, h2, hKi]; exact hu.tx_self
      · rw [hcc]; exact a1
      · rw [hrc]; exact a2
      · rw [hu.cur, h3, hri]; exact a3
      · rw [hu.cur, h2, h4, hri, hrc]; exact a4
    · refine ⟨tK, ?_, a1, a2, ?_, ?_⟩
      · rw [hu.cur, h2, hu.tx_other hKi]; exact hK
      · rw [hu.cur, h3]; exact a3
      · rw [hu.cur, h2, h4]; exact a4
  · intro hm j tj hj hne
    rw [hu.cur, h2, h3] at hm
    rw [hu.cur, h2] at hne
    obtain ⟨tj0, hj0, _, e2, _⟩ := key j tj hj
    rw [e2]; exact h.r_others hm j tj0 hj0 hne
  · intro hm j tj hj hlt
    rw [hu.cur, h2, h3] at hm
    rw [hu.cur, h2] at hlt
    obtain ⟨tj0, hj0, e1, _, _⟩ := key j tj hj
    rw [e1]; exact h.r_later hm j tj0 hj0 hlt

end OnosVerif.V3

namespace OnosVerif.V3

theorem TxWF.act2 {k : Core} {i : Nat} {t : TxC} {a b : Act} (he : Enabled k i t [a, b]) (h : TxWF t) :
    TxWF (cActTx (cActTx t a) b) := by
  have h1 := h.ccdom
  have h2 := h.ca_cc
  have h3 := h.cancel
  have h4 := h.phase
  have h5 := h.rcra
  have h6 := h.rc_cc
  have h7 := h.ra_rc
  have h8 := h.rcdom
  cases he <;> constructor <;> simp_all [cActTx]

/-- what `cPrevBusyCommit = some false` says when `Committed.Index = Committed.Target` -/
theorem prevBusyCommit_false {k : Core} {tK : TxC} (h : CInv k) (hB : cPrevBusyCommit k = some false)
    (hI : k.cur.cIndex = k.cur.cTarget) (hK : k.tx k.cur.cChange = some tK) :
    tK.cc = .complete ∨ tK.cc = .failed := by
  have hidx := h.idx
  have hwf := (h.wf _ _ hK).ccdom
  unfold cPrevBusyCommit at hB
  rw [hidx, hK] at hB
  simp only at hB
  have : k.cur.cTarget = k.cur.cChange := by omega
  rcases hwf with h1 | h1 | h1 | h1 <;> simp_all [PS.leInProgress, PS.toNat]

/-- what `cPrevBusyRbCommit = some false` says when `Committed.Index = i` -/
theorem prevBusyRbCommit_false {k : Core} {i : Nat} {t : TxC} (h : CInv k) (hB : cPrevBusyRbCommit k i = some false)
    (hI : k.cur.cIndex = i) (ht : k.tx i = some t) : t.cc = .complete := by
  unfold cPrevBusyRbCommit at hB
  rw [hI, ht] at hB
  simp only at hB
  by_cases hc : t.cc = .complete
  · exact hc
  · simp [hc] at hB

set_option maxHeartbeats 1000000 in
theorem CInv.first {k : Core} {i : Nat} {t : TxC} {a : Act} {rest : List Act} (h : CInv k)
    (ht : k.tx i = some t) (he : Enabled k i t (a :: rest)) : CInv (cAct k a) := by
  have hu := he.upd1 ht
  have hi := Core.tx_pos ht
  have hle := Core.tx_le ht
  have hwf' := TxWF.act he (h.wf i t ht) a (by simp)
  have hwft := h.wf i t ht
  have hpb : cPrevBusyCommit k = some false → k.cur.cIndex = k.cur.cTarget →
      ∀ tK, k.tx k.cur.cChange = some tK → tK.cc = .complete ∨ tK.cc = .failed :=
    fun hB hI tK hK => prevBusyCommit_false h hB hI hK
  have hpr : cPrevBusyRbCommit k i = some false → k.cur.cIndex = i → t.cc = .complete :=
    fun hB hI => prevBusyRbCommit_false h hB hI ht
  generalize cAct k a = k' at hu
  cases he <;>
    first
    | exact CInv.frame h ht hu hwf' rfl rfl rfl rfl rfl rfl rfl
    | (obtain ⟨a1,a2,a3,a4,a5,a6,a7,a8,a9,a10,a11,a12,a13,a14,a15,a16,a17,a18⟩ := h
       obtain ⟨u1,u2,u3,u4⟩ := hu
       obtain ⟨w1,w2,w3,w4,w5,w6,w7,w8⟩ := hwft
       simp only [cActTx, cActCur] at u1 u2 hwf'
       constructor <;> grind)

set_option maxHeartbeats 1000000 in
theorem CInv.both {k : Core} {i : Nat} {t : TxC} {a b : Act} (h : CInv k)
    (ht : k.tx i = some t) (he : Enabled k i t [a, b]) : CInv (cAct (cAct k a) b) := by
  have hu := he.upd2 ht
  have hi := Core.tx_pos ht
  have hle := Core.tx_le ht
  have hwf' := TxWF.act2 he (h.wf i t ht)
  have hwft := h.wf i t ht
  have hpb : cPrevBusyCommit k = some false → k.cur.cIndex = k.cur.cTarget →
      ∀ tK, k.tx k.cur.cChange = some tK → tK.cc = .complete ∨ tK.cc = .failed :=
    fun hB hI tK hK => prevBusyCommit_false h hB hI hK
  have hpr : cPrevBusyRbCommit k i = some false → k.cur.cIndex = i → t.cc = .complete :=
    fun hB hI => prevBusyRbCommit_false h hB hI ht
  generalize cAct (cAct k a) b = k' at hu
  cases he <;>
    first
    | exact CInv.frame h ht hu hwf' rfl rfl rfl rfl rfl rfl rfl
    | (obtain ⟨a1,a2,a3,a4,a5,a6,a7,a8,a9,a10,a11,a12,a13,a14,a15,a16,a17,a18⟩ := h
       obtain ⟨u1,u2,u3,u4⟩ := hu
       obtain ⟨w1,w2,w3,w4,w5,w6,w7,w8⟩ := hwft
       simp only [cActTx, cActCur] at u1 u2 hwf'
       constructor <;> grind)

end OnosVerif.V3

namespace OnosVerif.V3

theorem Core.tx_append (k : Core) (t : TxC) (j : Nat) :
    ({ k with txs := k.txs ++ [t] } : Core).tx j = if j = k.txs.length + 1 then some t else k.tx j := by
  unfold Core.tx
  by_cases hj0 : j = 0
  · subst hj0; simp
  · simp only [hj0, if_false]
    by_cases hj : j = k.txs.length + 1
    · subst hj; simp
    · simp only [hj, if_false]
      by_cases hlt : j - 1 < k.txs.length
      · rw [List.getElem?_append_left hlt]
      · have h1 : k.txs.length ≤ j - 1 := by omega
        rw [List.getElem?_eq_none (by simp; omega), List.getElem?_eq_none h1]

theorem Core.tx_none_of_gt {k : Core} {j : Nat} (h : k.txs.length < j) : k.tx j = none := by
  unfold Core.tx
  have : ¬ j = 0 := by omega
  simp only [this, if_false]
  exact List.getElem?_eq_none (by omega)

theorem CInv.init : CInv {} := by
  constructor <;> simp [Core.tx]

end OnosVerif.V3

namespace OnosVerif.V3

theorem CInv.append {k : Core} (h : CInv k) : CInv { k with txs := k.txs ++ [freshTx] } := by
  have hnone : k.tx (k.txs.length + 1) = none := Core.tx_none_of_gt (by omega)
  have hle : ∀ j t, k.tx j = some t → j ≤ k.txs.length := fun j t hj => Core.tx_le hj
  have hfresh := TxWF.fresh
  have htx := Core.tx_append k freshTx
  have hcur : ({ k with txs := k.txs ++ [freshTx] } : Core).cur = k.cur := rfl
  have hlen : ({ k with txs := k.txs ++ [freshTx] } : Core).txs.length = k.txs.length + 1 := by simp
  have hf1 : freshTx.cc = .pending := rfl
  have hf2 : freshTx.rc = none := rfl
  have hf3 : freshTx.ridx = 0 := rfl
  generalize ({ k with txs := k.txs ++ [freshTx] } : Core) = k' at htx hcur hlen ⊢
  obtain ⟨a1,a2,a3,a4,a5,a6,a7,a8,a9,a10,a11,a12,a13,a14,a15,a16,a17,a18⟩ := h
  constructor <;> grind

theorem CInv.rollback {k : Core} {i : Nat} {t : TxC} (h : CInv k) (ht : k.tx i = some t)
    (hc : cCanRollback t = true) : CInv (k.setTx i (cRollback t)) := by
  have hi := Core.tx_pos ht
  have htx := Core.tx_setTx (t' := cRollback t) ht
  have hcur := Core.setTx_cur k i (cRollback t)
  have hlen := Core.setTx_length k i (cRollback t)
  have hwf' := (h.wf i t ht).rollback hc
  have hwft := h.wf i t ht
  simp only [cCanRollback, Bool.and_eq_true, decide_eq_true_eq] at hc
  obtain ⟨hp, hcc⟩ := hc
  have e1 : (cRollback t).cc = t.cc := rfl
  have e2 : (cRollback t).rc = some .pending := rfl
  have e3 : (cRollback t).ridx = t.ridx := rfl
  generalize cRollback t = t' at *
  generalize k.setTx i t' = k' at *
  obtain ⟨a1,a2,a3,a4,a5,a6,a7,a8,a9,a10,a11,a12,a13,a14,a15,a16,a17,a18⟩ := h
  obtain ⟨w1,w2,w3,w4,w5,w6,w7,w8⟩ := hwft
  constructor <;> grind

theorem CInv.step {k k' : Core} (h : CInv k) (hs : CStep k k') : CInv k' := by
  cases hs with
  | append => exact h.append
  | rollback i t ht hc => exact h.rollback ht hc
  | first i t a rest ht he => exact h.first ht he
  | both i t a b ht he => exact h.both ht he

theorem CInv.reach {k : Core} (h : CReach k) : CInv k := by
  induction h with
  | init => exact CInv.init
  | step k k' _ hs ih => exact ih.step hs

end OnosVerif.V3
