/-
The twins of the v2 configuration and mastership reconcilers equal the control skeletons
regenerated from pkg/controller/v2/configuration/controller.go and
pkg/controller/v2/mastership/controller.go.
-/
import OnosVerif.Generated.Facts
import OnosVerif.Proofs.V2SkelProp
import OnosVerif.Proofs.V2Plans

namespace OnosVerif.V2.Skel
open OnosVerif.Generated
open OnosVerif.V2

theorem collapse_sets (c : Cfg) (early : Bool) :
    collapse (syncedToks c early ++ [.write "r.updateConfigurationStatus"]) =
      syncedToks c early ++ [.write "r.updateConfigurationStatus"] := by
  cases early <;> simp [syncedToks, collapse]

/-- n ≥ 1 iterations of the re-synchronisation loop collapse to one request token -/
theorem collapse_sync {α : Type} (l : List α) (h : l ≠ []) (c : Cfg) (early : Bool) :
    collapse (l.flatMap (fun _ => [Tok.write "conn.Set"]) ++ (syncedToks c early ++ [.write "r.updateConfigurationStatus"])) =
      .write "conn.Set" :: (syncedToks c early ++ [.write "r.updateConfigurationStatus"]) := by
  induction l with
  | nil => contradiction
  | cons x t ih =>
    cases t with
    | nil =>
      cases early <;> simp [syncedToks, collapse]
    | cons y t' =>
      have := ih (by simp)
      simp only [List.flatMap_cons, List.cons_append, List.nil_append] at this ⊢
      rw [collapse]
      exact this

theorem toksCfg_statusWrite (c : Cfg) (early : Bool) (a v : Config.VMap) (u : CfgUpd) (oc : OnConflict) :
    (statusWrite c a v u oc).flatMap (effToksCfg c early) =
      effToksCfg c early (.cfg c.target c.version u (some v) [] oc) := by
  unfold statusWrite
  cases a <;> simp [effToksCfg]

macro "skel_cfg" : tactic => `(tactic| simp_all [Nat.blt_eq, Nat.ble_eq, cfgStateCode, proj, proj_append, plumbing,
  planTraceCfg, toksCfg_statusWrite, effToksCfg, syncedToks, collapse, cfgUpdToks, Plan.nop])

theorem permute_ne_nil {α : Type} (n : Nat) (l : List α) (h : l ≠ []) : permute n l ≠ [] := by
  cases l with
  | nil => contradiction
  | cons x t =>
    intro hp
    have := mem_permute_of_mem n (x :: t) x List.mem_cons_self
    rw [hp] at this
    cases this

/-- `reconcileConfiguration`, on the path where every re-synchronisation request is accepted (a
    refused or failing request ends the invocation inside the loop; the twin records the requests
    made before it).  `hne`: something is recorded as applied whenever the applied index is not 0. -/
theorem skel_cfg_reconcile (s : Sys) (t : Tgt) (c : Cfg) (env : Env) (hc : s.cfg? t = some c)
    (hok : env.syncOk ≥ (permute env.ordU (groupByIndex c.aview)).length ∨ env.dev = .ok)
    (hne : c.applied ≠ 0 → groupByIndex c.aview ≠ []) :
    proj (v2sk_cfg_reconcile (gCfgOf c (s.rel? c.master) env false)) =
      planTraceCfg c (c.applied == 0) (cfgReconcile s t env) := by
  unfold v2sk_cfg_reconcile cfgReconcile
  gCfgOf_atoms
  simp only [hc]
  cases hp : env.persistent
  · -- not persistent
    by_cases h1 : c.state = .synchronizing
    · gsplit h2 : c.master = 0
      · skel_cfg
      · gsplit h3 : c.applied = 0
        · skel_cfg
        · rcases Option.eq_none_or_eq_some (s.rel? c.master) with hr | ⟨rel, hr⟩ <;> simp only [hr]
          · skel_cfg
          · cases hconn : rel.conn
            · skel_cfg
            · have hg := permute_ne_nil env.ordU _ (hne h3)
              have hsync : List.flatMap (effToksCfg c false)
                    (syncEffects c (permute env.ordU (groupByIndex c.aview)) (permute env.ordU (groupByIndex c.aview)).length) =
                  (permute env.ordU (groupByIndex c.aview)).flatMap (fun _ => [Tok.write "conn.Set"]) := by
                unfold syncEffects
                rw [List.take_length, List.flatMap_map]
                rfl
              have hb : (c.applied == 0) = false := by simp [h3]
              simp only [h1, hok, hconn, planTraceCfg, List.flatMap_append, hb, if_true, Bool.true_eq_false,
                if_false]
              rw [hsync, toksCfg_statusWrite]
              have hcs := collapse_sync _ hg c false
              simp only [syncedToks, Bool.false_eq_true, if_false, List.cons_append, List.nil_append] at hcs
              simp [hconn, effToksCfg, proj, plumbing, syncedToks, hcs]
    · have h1' : (cfgStateCode c.state != 1) = true := by cases hs : c.state <;> simp_all [cfgStateCode]
      gsplit h2 : c.appliedTerm < c.term <;> skel_cfg
  · -- persistent
    have h3 : cfgStateCode c.state = 3 ↔ c.state = .persisted := by cases c.state <;> simp [cfgStateCode]
    by_cases h1 : c.state = .persisted <;> gsplit h2 : c.appliedTerm < c.term <;> (try simp [h3]) <;> skel_cfg

/-- `reconcileConfiguration` when the first re-synchronisation request is not accepted: the
    invocation ends there — with the error (the configuration stays SYNCHRONIZING and is retried)
    unless the answer is the superseded-master refusal — and nothing is written: in particular the
    configuration is NOT reported SYNCHRONIZED.  (The twin does not record a request that was not
    accepted; the traces agree up to that request.) -/
theorem skel_cfg_reconcile_refused (s : Sys) (t : Tgt) (c : Cfg) (env : Env) (rel : Rel) (hc : s.cfg? t = some c)
    (hp : env.persistent = false) (h1 : c.state = .synchronizing) (h2 : c.master ≠ 0) (h3 : c.applied ≠ 0)
    (hr : s.rel? c.master = some rel) (hconn : rel.conn = true)
    (hs : env.syncOk = 0) (hd : env.dev ≠ .ok) (hne : groupByIndex c.aview ≠ []) :
    proj (v2sk_cfg_reconcile (gCfgOf c (s.rel? c.master) env true)) =
      .write "conn.Set" :: planTraceCfg c false (cfgReconcile s t env) := by
  have hg := permute_ne_nil env.ordU _ hne
  have hlen : ¬ (0 ≥ (permute env.ordU (groupByIndex c.aview)).length) := by
    cases hl : permute env.ordU (groupByIndex c.aview) with
    | nil => exact absurd hl hg
    | cons x t => simp
  unfold v2sk_cfg_reconcile cfgReconcile
  gCfgOf_atoms
  simp only [hc, hp, hr]
  have hdev : env.dev = .retry ∨ env.dev = .wait ∨ ∃ f, env.dev = .fail f := by
    cases h : env.dev <;> simp_all
  rcases hdev with hdev | hdev | ⟨f, hdev⟩ <;>
    simp [hdev, h1, h2, h3, hconn, hs, hlen, syncEffects, cfgStateCode, proj, proj_append, plumbing, planTraceCfg,
      effToksCfg, collapse, Plan.nop]

/-- `mastReconcile` with what it reads from the state as arguments -/
def mastPlan (c? : Option Cfg) (live : List Rel) (pick : Nat) : Plan :=
  match c? with
  | none => .nop
  | some c =>
    if live.any (fun r => r.id = c.master) then .nop
    else if live.isEmpty then
      if c.master = 0 then .nop
      else { effects := statusWrite c c.aview c.view .resign .swallow }
    else
      let r := (live[pick % live.length]?).getD default
      { effects := statusWrite c c.aview c.view (.elect r.id) .swallow }

theorem mastReconcile_eq (s : Sys) (t : Tgt) (env : Env) :
    mastReconcile s t env = mastPlan (s.cfg? t) (s.rels.filter (fun r => r.target = t)) env.pick := rfl

theorem skel_mast_plan (c? : Option Cfg) (L : List Rel) (pick : Nat) :
    proj (v2sk_mast_reconcile (gMastOf (c?.getD default) c?.isNone
        (L.any (fun r => r.id = (c?.getD default).master)) L.length)) =
      .misc "defer" :: planTraceMast (c?.getD default) (mastPlan c? L pick) := by
  unfold v2sk_mast_reconcile mastPlan
  gMastOf_atoms
  cases c? with
  | none => simp [proj, plumbing, planTraceMast, Plan.nop]
  | some c0 =>
    simp only [Option.isNone_some, Option.getD_some, Bool.false_eq_true, if_false]
    by_cases hl : L.any (fun r => r.id = c0.master) = true
    · simp [hl, proj, proj_append, plumbing, planTraceMast, Plan.nop]
    · cases L with
      | nil =>
        by_cases hm : c0.master = 0 <;>
          simp [hm, proj, proj_append, plumbing, planTraceMast, toks_statusWrite, effToks, cfgUpdToks, Plan.nop]
      | cons x L' =>
        simp only [Bool.not_eq_true] at hl
        simp [hl, proj, proj_append, plumbing, planTraceMast, toks_statusWrite, effToks, cfgUpdToks, Plan.nop]

/-- the mastership `Reconcile`: nothing while the master is one of the live relations of the
    target; resign when there is none left; otherwise a new term with one of them (which one is
    `rand.Intn`, the twin's `env.pick`) -/
theorem skel_mast_reconcile (s : Sys) (t : Tgt) (env : Env) :
    proj (v2sk_mast_reconcile (gMastOf ((s.cfg? t).getD default) (s.cfg? t).isNone
        ((s.rels.filter (fun r => r.target = t)).any (fun r => r.id = ((s.cfg? t).getD default).master))
        (s.rels.filter (fun r => r.target = t)).length)) =
      .misc "defer" :: planTraceMast ((s.cfg? t).getD default) (mastReconcile s t env) := by
  rw [mastReconcile_eq]
  exact skel_mast_plan _ _ _

end OnosVerif.V2.Skel
