/- Path/values sorted by path *text* arrive grouped: between two paths that share a proper element
   prefix every path shares it (`Interval`). -/
import OnosVerif.Proofs.TreeBridge

namespace OnosVerif.Tree
open OnosVerif.Path (Str GPath Elem elemBody keysText strPathElem strLt)
open OnosVerif.Path

theorem keysText_noSlash : ∀ (ks : List (Str × Str)),
    (∀ kv ∈ ks, nameSimple kv.1 = true ∧ keyValSimple kv.2 = true) → ∀ c ∈ keysText ks, c ≠ '/'
  | [], _, c, hc => by simp [keysText] at hc
  | (k, v) :: r, h, c, hc => by
    obtain ⟨hk, hv⟩ := h (k, v) List.mem_cons_self
    rw [keysText_cons_simple k v r hv] at hc
    have hkc := (nameSimple_spec k hk).2
    have hvc := (keyValSimple_spec v hv).2
    simp only [List.cons_append, List.mem_cons, List.mem_append] at hc
    rcases hc with h1 | (h1 | h1 | h1) | h1 | h1
    · subst h1; decide
    · exact (hkc c h1).1
    · subst h1; decide
    · exact (hvc c h1).2.2
    · subst h1; decide
    · exact keysText_noSlash r (fun kv hkv => h kv (List.mem_cons_of_mem _ hkv)) c h1

theorem body_noSlash (e : Elem) (h : elemOK e = true) : ∀ c ∈ elemBody e, c ≠ '/' := by
  obtain ⟨hn, _, hk⟩ := elemOK_spec e h
  rw [body_name e h]
  intro c hc
  rcases List.mem_append.1 hc with h1 | h1
  · exact ((nameSimple_spec e.name hn).2 c h1).1
  · exact keysText_noSlash e.keys hk c h1

/-- cutting two texts at their first `/`. -/
theorem split_at_slash : ∀ (a b X Y : Str), (∀ c ∈ a, c ≠ '/') → (∀ c ∈ b, c ≠ '/') →
    (X = [] ∨ ∃ X', X = '/' :: X') → (∃ Y', Y = '/' :: Y') → a ++ X = b ++ Y → a = b ∧ X = Y
  | [], [], _, _, _, _, _, _, h => ⟨rfl, by simpa using h⟩
  | [], y :: b, X, Y, _, hb, hX, _, h => by
    exfalso
    simp only [List.nil_append, List.cons_append] at h
    rcases hX with hX | ⟨X', hX⟩
    · subst hX; simp at h
    · subst hX
      simp only [List.cons.injEq] at h
      exact hb y List.mem_cons_self h.1.symm
  | x :: a, [], X, Y, ha, _, _, hY, h => by
    exfalso
    obtain ⟨Y', hY⟩ := hY
    subst hY
    simp only [List.nil_append, List.cons_append, List.cons.injEq] at h
    exact ha x List.mem_cons_self h.1
  | x :: a, y :: b, X, Y, ha, hb, hX, hY, h => by
    simp only [List.cons_append, List.cons.injEq] at h
    obtain ⟨h1, h2⟩ := split_at_slash a b X Y (fun c hc => ha c (List.mem_cons_of_mem _ hc))
      (fun c hc => hb c (List.mem_cons_of_mem _ hc)) hX hY h.2
    exact ⟨by rw [h.1, h1], h2⟩

theorem strPathElem_head (r : GPath) (hne : r ≠ []) (hs : ∀ e ∈ r, keysSorted e.keys = true) :
    ∃ R, strPathElem r = '/' :: R := by
  cases r with
  | nil => exact absurd rfl hne
  | cons e r' => exact ⟨_, strPathElem_cons e r' (hs e List.mem_cons_self)⟩

theorem strPathElem_append (q r : GPath) : strPathElem (q ++ r) = strPathElem q ++ strPathElem r := by
  simp [strPathElem, List.flatMap_append]

theorem elemBody_inj (e f : Elem) (he : elemOK e = true) (hf : elemOK f = true) (h : elemBody e = elemBody f) :
    e = f := by
  have h1 := parseElement_elemBody e (elemOK_wf e he)
  have h2 := parseElement_elemBody f (elemOK_wf f hf)
  rw [h] at h1
  rw [h1] at h2
  exact Except.ok.inj h2

/-- a text that continues the text of `q` with a `/` belongs to a path that starts with `q`. -/
theorem prefix_of_text : ∀ (q c : GPath) (R : Str), (∀ e ∈ q, elemOK e = true) → (∀ e ∈ c, elemOK e = true) →
    strPathElem c = strPathElem q ++ '/' :: R → c.take q.length = q
  | [], _, _, _, _, _ => by simp
  | e :: q', c, R, hq, hc, h => by
    have heOK := hq e List.mem_cons_self
    cases c with
    | nil => simp [strPathElem] at h
    | cons f c' =>
      have hfOK := hc f List.mem_cons_self
      rw [strPathElem_cons f c' (elemOK_spec f hfOK).2.1, strPathElem_cons e q' (elemOK_spec e heOK).2.1] at h
      simp only [List.cons_append, List.cons.injEq, true_and, List.append_assoc] at h
      have hX : strPathElem c' = [] ∨ ∃ X', strPathElem c' = '/' :: X' := by
        cases c' with
        | nil => exact Or.inl rfl
        | cons g c'' =>
          exact Or.inr (strPathElem_head (g :: c'') (by simp)
            (fun x hx => (elemOK_spec x (hc x (List.mem_cons_of_mem _ hx))).2.1))
      have hY : ∃ Y', strPathElem q' ++ '/' :: R = '/' :: Y' := by
        cases q' with
        | nil => exact ⟨R, rfl⟩
        | cons g q'' =>
          obtain ⟨Z, hZ⟩ := strPathElem_head (g :: q'') (by simp)
            (fun x hx => (elemOK_spec x (hq x (List.mem_cons_of_mem _ hx))).2.1)
          exact ⟨Z ++ '/' :: R, by rw [hZ]; rfl⟩
      obtain ⟨h1, h2⟩ := split_at_slash _ _ _ _ (body_noSlash f hfOK) (body_noSlash e heOK) hX hY h
      have hfe : f = e := elemBody_inj f e hfOK heOK h1
      subst hfe
      simp only [List.length_cons, List.take_succ_cons, List.cons.injEq, true_and]
      exact prefix_of_text q' c' R (fun x hx => hq x (List.mem_cons_of_mem _ hx))
        (fun x hx => hc x (List.mem_cons_of_mem _ hx)) h2

theorem eq_append_of_isPrefixOf : ∀ (d t : Str), d.isPrefixOf t = true → ∃ R, t = d ++ R
  | [], t, _ => ⟨t, rfl⟩
  | _ :: _, [], h => by simp [List.isPrefixOf] at h
  | x :: d, y :: t, h => by
    simp only [List.isPrefixOf, Bool.and_eq_true, beq_iff_eq] at h
    obtain ⟨R, hR⟩ := eq_append_of_isPrefixOf d t h.2
    exact ⟨R, by rw [h.1, hR]; rfl⟩

theorem isPrefixOf_append (d R : Str) : d.isPrefixOf (d ++ R) = true := by
  induction d with
  | nil => rfl
  | cons x d ih => simp [List.isPrefixOf, ih]

/-- sorted by text (non-strictly). -/
def SortedText (S : List Entry) : Prop :=
  S.Pairwise (fun a b => strLt (strPathElem b.1) (strPathElem a.1) = false)

theorem interval_of_sorted (S : List Entry) (hok : ∀ x ∈ S, pathOK x.1 = true) (hs : SortedText S) :
    Interval S := by
  intro a c b hsub n hna hnb htake
  have hpw := hs.sublist hsub
  simp only [List.pairwise_cons, List.mem_cons, List.mem_singleton, forall_eq_or_imp, forall_eq] at hpw
  obtain ⟨⟨hac, hab⟩, ⟨hcb, _⟩, _⟩ := hpw
  have ha := hok a (hsub.subset (by simp))
  have hc := hok c (hsub.subset (by simp))
  have hb := hok b (hsub.subset (by simp))
  -- the common prefix and what follows it
  have hadec : a.1 = a.1.take n ++ a.1.drop n := (List.take_append_drop n a.1).symm
  have hbdec : b.1 = a.1.take n ++ b.1.drop n := by rw [htake]; exact (List.take_append_drop n b.1).symm
  have hadrop : a.1.drop n ≠ [] := by
    intro h
    have := congrArg List.length h
    simp only [List.length_drop, List.length_nil] at this
    omega
  have hbdrop : b.1.drop n ≠ [] := by
    intro h
    have := congrArg List.length h
    simp only [List.length_drop, List.length_nil] at this
    omega
  have hsa : ∀ e ∈ a.1.drop n, keysSorted e.keys = true := fun e he =>
    (elemOK_spec e (pathOK_all _ ha e (List.mem_of_mem_drop he))).2.1
  have hsb : ∀ e ∈ b.1.drop n, keysSorted e.keys = true := fun e he =>
    (elemOK_spec e (pathOK_all _ hb e (List.mem_of_mem_drop he))).2.1
  obtain ⟨Ra, hRa⟩ := strPathElem_head _ hadrop hsa
  obtain ⟨Rb, hRb⟩ := strPathElem_head _ hbdrop hsb
  have hta : strPathElem a.1 = (strPathElem (a.1.take n) ++ ['/']) ++ Ra := by
    conv => lhs; rw [hadec]
    rw [strPathElem_append, hRa]; simp
  have htb : strPathElem b.1 = (strPathElem (a.1.take n) ++ ['/']) ++ Rb := by
    conv => lhs; rw [hbdec]
    rw [strPathElem_append, hRb]; simp
  -- d ≤ ta ≤ tc ≤ tb and d is a prefix of tb: d is a prefix of tc
  have hda : strLt (strPathElem a.1) (strPathElem (a.1.take n) ++ ['/']) = false := by
    by_cases he : strPathElem (a.1.take n) ++ ['/'] = strPathElem a.1
    · rw [he]; exact strLt_irrefl _
    · exact strLt_asymm _ _ (strLt_of_prefix _ _ (by rw [hta]; exact isPrefixOf_append _ _) he)
  have hdc : strLt (strPathElem c.1) (strPathElem (a.1.take n) ++ ['/']) = false :=
    strLe_trans _ _ _ hda hac
  have hpre := prefix_interval (strPathElem (a.1.take n) ++ ['/']) (strPathElem c.1) (strPathElem b.1)
    hdc hcb (by rw [htb]; exact isPrefixOf_append _ _)
  obtain ⟨R, hR⟩ := eq_append_of_isPrefixOf _ _ hpre
  have := prefix_of_text (a.1.take n) c.1 R
    (fun e he => pathOK_all _ ha e (List.mem_of_mem_take he)) (pathOK_all _ hc)
    (by rw [hR]; simp)
  have hlen : (a.1.take n).length = n := by
    simp only [List.length_take]; omega
  rw [hlen] at this
  exact this

end OnosVerif.Tree
