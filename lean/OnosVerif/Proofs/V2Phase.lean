/-
Phase discipline of the v2 twin (for C01, C07): record-local guards of every update (`TxOK`,
`PropOK`), the justification of a pending effect (`Just`: if its compare-and-set succeeds, the record
is still the one the invocation read, so the guards it evaluated still hold), the invariant
`PhaseInv`, and its preservation by every step of the world — for all interleavings of effects,
faults, failed writes and crashes.
-/
import OnosVerif.Proofs.V2Lookup

namespace OnosVerif.V2

/-! ### record-local guards -/

def TxOK (t : Tx) : TxUpd → Prop
  | .openInit => t.init = .none ∧ t.validate = .none ∧ t.commit = .none ∧ t.apply = .none ∧ t.abort = .none
  | .setProposals _ => t.init = .opened ∧ t.validate = .none ∧ t.commit = .none ∧ t.apply = .none ∧ t.abort = .none ∧
      t.proposals = none
  | .initFailed _ => t.init = .opened ∧ t.validate = .none ∧ t.commit = .none ∧ t.apply = .none ∧ t.abort = .none
  | .initDone => t.init = .opened ∧ t.validate = .none ∧ t.commit = .none ∧ t.apply = .none ∧ t.abort = .none ∧
      t.proposals ≠ none
  | .openValidate => t.init = .done ∧ t.validate = .none ∧ t.commit = .none ∧ t.apply = .none ∧ t.abort = .none
  | .validateFailed _ => t.validate = .opened ∧ t.commit = .none ∧ t.apply = .none ∧ t.abort = .none
  | .validateDone => t.validate = .opened ∧ t.commit = .none ∧ t.apply = .none ∧ t.abort = .none
  | .openCommit => t.validate = .done ∧ t.commit = .none ∧ t.apply = .none ∧ t.abort = .none
  | .commitDone => t.commit = .opened ∧ t.apply = .none ∧ t.abort = .none
  | .openApply => t.commit = .done ∧ t.apply = .none ∧ t.abort = .none
  | .applyFailed _ => t.apply = .opened
  | .applyDone => t.apply = .opened
  | .abortDone => t.abort = .opened ∧ t.apply = .none

/-- what holds of every transaction record -/
structure TxInv (t : Tx) : Prop where
  validate_init : t.validate ≠ .none → t.init = .done
  commit_validate : t.commit ≠ .none → t.validate = .done
  apply_commit : t.apply ≠ .none → t.commit = .done
  abort_excl : t.abort ≠ .none → t.commit = .none ∧ t.apply = .none
  vfailed_abort : t.validate = .failed → t.abort ≠ .none
  vfailed_state : t.validate = .failed → t.state = .failed

theorem TxInv_apply (t : Tx) (u : TxUpd) (hi : TxInv t) (hok : TxOK t u) : TxInv (applyTxUpd t u) := by
  obtain ⟨h1, h2, h3, h4, h5, h6⟩ := hi
  cases u <;> simp only [TxOK] at hok <;> constructor <;> simp_all [applyTxUpd]

/-- phases of a transaction never go back to nil and finished phases stay -/
theorem applyTxUpd_mono (t : Tx) (u : TxUpd) (hok : TxOK t u) :
    (t.commit ≠ .none → (applyTxUpd t u).commit ≠ .none) ∧
    (t.validate = .done → (applyTxUpd t u).validate = .done) ∧
    (t.validate = .failed → (applyTxUpd t u).validate = .failed) ∧
    (applyTxUpd t u).index = t.index := by
  cases u <;> simp only [TxOK] at hok <;> simp_all [applyTxUpd]

def PropOK (p : Proposal) : PropUpd → Prop
  | .openInit => p.init = .none ∧ p.validate = .none ∧ p.commit = .none ∧ p.apply = .none ∧ p.abort = .none
  | .setNext _ => True
  | .setPrev _ => True
  | .initDone => p.init = .opened ∧ p.validate = .none ∧ p.commit = .none ∧ p.apply = .none ∧ p.abort = .none
  | .openValidate => p.validate = .none
  | .validateFailed _ => p.validate = .opened ∧ p.commit = .none ∧ p.apply = .none ∧ p.abort = .none
  | .validateDone _ _ => p.validate = .opened ∧ p.commit = .none ∧ p.apply = .none ∧ p.abort = .none
  | .openCommit => p.commit = .none
  | .commitDone => p.commit = .opened ∧ p.apply = .none ∧ p.abort = .none
  | .openApply => p.apply = .none
  | .applyDone _ => p.apply = .opened
  | .applyFailed _ _ => p.apply = .opened
  | .openAbort => p.abort = .none
  | .abortDone => p.abort = .opened ∧ p.apply = .none

theorem applyPropUpd_mono (p : Proposal) (u : PropUpd) (hok : PropOK p u) :
    (p.commit ≠ .none → (applyPropUpd p u).commit ≠ .none) ∧
    (p.validate = .done → (applyPropUpd p u).validate = .done) ∧
    (p.validate = .failed → (applyPropUpd p u).validate = .failed) ∧
    (applyPropUpd p u).index = p.index ∧ (applyPropUpd p u).target = p.target := by
  cases u <;> simp only [PropOK] at hok <;> simp_all [applyPropUpd]

/-! ### the invariant -/

/-- every listed proposal of the transaction exists and is validated -/
def AllValidated (s : Sys) (t : Tx) : Prop :=
  ∃ ps, t.proposals = some ps ∧ ∀ pid ∈ ps, ∃ p, s.prop? pid = some p ∧ p.validate = .done

structure PhaseInv (s : Sys) : Prop where
  txinv : ∀ i t, s.tx? i = some t → TxInv t
  validated : ∀ i t, s.tx? i = some t → t.validate = .done → AllValidated s t
  prop_commit : ∀ id p, s.prop? id = some p → p.commit ≠ .none →
    ∃ t, s.tx? p.index = some t ∧ t.commit ≠ .none
  merged : ∀ m ∈ s.commitLog, ∃ p, s.prop? m = some p ∧ p.commit ≠ .none
  tx_bound : ∀ t ∈ s.txs, t.index ≤ s.txs.length
  props_index : ∀ i t, s.tx? i = some t → ∀ ps, t.proposals = some ps → ∀ pid ∈ ps, pid.2 = i
  init_props : ∀ i t, s.tx? i = some t → t.init = .done → t.proposals ≠ none

/-- justification of a pending effect in the current state: the record it addresses exists, its
    version is not in the future, and if the compare-and-set would succeed now (the record is still
    the one the invocation read) the guards the invocation evaluated hold -/
def Just (s : Sys) : Effect → Prop
  | .tx i ver u => ∃ t, s.tx? i = some t ∧ ver ≤ t.version ∧
      (t.version = ver → TxOK t u ∧ (u = .validateDone → AllValidated s t) ∧
        (∀ ps, u = .setProposals ps → ∀ pid ∈ ps, pid.2 = i))
  | .prop id ver u => ∃ p, s.prop? id = some p ∧ ver ≤ p.version ∧
      (p.version = ver → PropOK p u ∧
        (u = .openCommit → ∃ t, s.tx? p.index = some t ∧ t.commit ≠ .none))
  | .createProp p => p.commit = .none ∧ p.validate = .none
  | .cfg t _ (.commit idx _) _ _ _ => ∃ p, s.prop? (t, idx) = some p ∧ p.commit ≠ .none
  | _ => True

/-! ### every effect of a plan is justified in the state the plan was computed from -/

theorem getProps_spec (s : Sys) (ids : List PropId) (ps : List Proposal) (h : getProps s ids = some ps) :
    ∀ p ∈ ps, ∃ id ∈ ids, s.prop? id = some p := by
  induction ids generalizing ps with
  | nil => simp [getProps] at h; subst h; simp
  | cons id rest ih =>
    simp only [getProps] at h
    split at h
    · rename_i p ps' hp hps
      simp only [Option.some.injEq] at h
      subst h
      intro q hq
      simp only [List.mem_cons] at hq
      rcases hq with hq | hq
      · subst hq; exact ⟨id, List.mem_cons_self, hp⟩
      · obtain ⟨id', hid', hq'⟩ := ih ps' hps q hq
        exact ⟨id', List.mem_cons_of_mem _ hid', hq'⟩
    · simp at h

theorem getProps_all (s : Sys) (ids : List PropId) (ps : List Proposal) (h : getProps s ids = some ps) :
    ∀ id ∈ ids, ∃ p ∈ ps, s.prop? id = some p := by
  induction ids generalizing ps with
  | nil => simp
  | cons id rest ih =>
    simp only [getProps] at h
    split at h
    · rename_i p ps' hp hps
      simp only [Option.some.injEq] at h
      subst h
      intro id' hid'
      simp only [List.mem_cons] at hid'
      rcases hid' with hid' | hid'
      · subst hid'; exact ⟨p, List.mem_cons_self, hp⟩
      · obtain ⟨q, hq, hq'⟩ := ih ps' hps id' hid'
        exact ⟨q, List.mem_cons_of_mem _ hq, hq'⟩
    · simp at h

/-- an effect issued by one of the four per-proposal loops of the transaction reconciler -/
def LoopEffect (t : Tx) (ps : List Proposal) (e : Effect) : Prop :=
  (∃ u, e = .tx t.index t.version u) ∨
  (∃ p ∈ ps, ∃ u, e = .prop (p.target, p.index) p.version u ∧ PropOK p u)

theorem txValidateLoop_spec (t : Tx) (ps : List Proposal) (flag : Bool) :
    ∀ e ∈ (txValidateLoop t ps flag).effects,
      (e = .tx t.index t.version .validateDone ∧ flag = true ∧ ∀ p ∈ ps, p.validate = .done) ∨
      (∃ f, e = .tx t.index t.version (.validateFailed f)) ∨
      (∃ p ∈ ps, e = .prop (p.target, p.index) p.version .openValidate ∧ p.validate = .none) := by
  induction ps generalizing flag with
  | nil =>
    intro e he
    simp only [txValidateLoop] at he
    split at he
    · simp only [List.mem_singleton] at he
      exact Or.inl ⟨he, by assumption, by simp⟩
    · simp [Plan.nop] at he
  | cons p rest ih =>
    intro e he
    simp only [txValidateLoop] at he
    split at he
    · rename_i hv
      simp only [List.mem_singleton] at he
      exact Or.inr (Or.inr ⟨p, List.mem_cons_self, he, hv⟩)
    · rcases ih false e he with h | h | h
      · simp at h
      · exact Or.inr (Or.inl h)
      · obtain ⟨q, hq, h⟩ := h
        exact Or.inr (Or.inr ⟨q, List.mem_cons_of_mem _ hq, h⟩)
    · simp only [List.mem_singleton] at he
      exact Or.inr (Or.inl ⟨_, he⟩)
    · rename_i hv
      rcases ih flag e he with h | h | h
      · refine Or.inl ⟨h.1, h.2.1, ?_⟩
        intro q hq
        simp only [List.mem_cons] at hq
        rcases hq with hq | hq
        · subst hq; exact hv
        · exact h.2.2 q hq
      · exact Or.inr (Or.inl h)
      · obtain ⟨q, hq, h⟩ := h
        exact Or.inr (Or.inr ⟨q, List.mem_cons_of_mem _ hq, h⟩)

theorem txCommitLoop_spec (t : Tx) (ps : List Proposal) (flag : Bool) :
    ∀ e ∈ (txCommitLoop t ps flag).effects,
      e = .tx t.index t.version .commitDone ∨
      (∃ p ∈ ps, e = .prop (p.target, p.index) p.version .openCommit ∧ p.commit = .none) := by
  induction ps generalizing flag with
  | nil =>
    intro e he
    simp only [txCommitLoop] at he
    split at he
    · simp only [List.mem_singleton] at he; exact Or.inl he
    · simp [Plan.nop] at he
  | cons p rest ih =>
    intro e he
    simp only [txCommitLoop] at he
    split at he
    · rename_i hv
      simp only [List.mem_singleton] at he
      exact Or.inr ⟨p, List.mem_cons_self, he, hv⟩
    · rcases ih false e he with h | h
      · exact Or.inl h
      · obtain ⟨q, hq, h⟩ := h
        exact Or.inr ⟨q, List.mem_cons_of_mem _ hq, h⟩
    · rcases ih flag e he with h | h
      · exact Or.inl h
      · obtain ⟨q, hq, h⟩ := h
        exact Or.inr ⟨q, List.mem_cons_of_mem _ hq, h⟩

theorem txAbortLoop_spec (t : Tx) (ps : List Proposal) (flag : Bool) :
    ∀ e ∈ (txAbortLoop t ps flag).effects,
      e = .tx t.index t.version .abortDone ∨
      (∃ p ∈ ps, e = .prop (p.target, p.index) p.version .openAbort ∧ p.abort = .none) := by
  induction ps generalizing flag with
  | nil =>
    intro e he
    simp only [txAbortLoop] at he
    split at he
    · simp only [List.mem_singleton] at he; exact Or.inl he
    · simp [Plan.nop] at he
  | cons p rest ih =>
    intro e he
    simp only [txAbortLoop] at he
    split at he
    · rename_i hv
      simp only [List.mem_singleton] at he
      exact Or.inr ⟨p, List.mem_cons_self, he, hv⟩
    · rcases ih false e he with h | h
      · exact Or.inl h
      · obtain ⟨q, hq, h⟩ := h
        exact Or.inr ⟨q, List.mem_cons_of_mem _ hq, h⟩
    · rcases ih flag e he with h | h
      · exact Or.inl h
      · obtain ⟨q, hq, h⟩ := h
        exact Or.inr ⟨q, List.mem_cons_of_mem _ hq, h⟩

theorem txApplyLoop_spec (t : Tx) (ps : List Proposal) (flag : Bool) :
    ∀ e ∈ (txApplyLoop t ps flag).effects,
      e = .tx t.index t.version .applyDone ∨ (∃ f, e = .tx t.index t.version (.applyFailed f)) ∨
      (∃ p ∈ ps, e = .prop (p.target, p.index) p.version .openApply ∧ p.apply = .none) := by
  induction ps generalizing flag with
  | nil =>
    intro e he
    simp only [txApplyLoop] at he
    split at he
    · simp only [List.mem_singleton] at he; exact Or.inl he
    · simp [Plan.nop] at he
  | cons p rest ih =>
    intro e he
    simp only [txApplyLoop] at he
    split at he
    · rename_i hv
      simp only [List.mem_singleton] at he
      exact Or.inr (Or.inr ⟨p, List.mem_cons_self, he, hv⟩)
    · rcases ih false e he with h | h | h
      · exact Or.inl h
      · exact Or.inr (Or.inl h)
      · obtain ⟨q, hq, h⟩ := h
        exact Or.inr (Or.inr ⟨q, List.mem_cons_of_mem _ hq, h⟩)
    · simp only [List.mem_singleton] at he
      exact Or.inr (Or.inl ⟨_, he⟩)
    · rcases ih flag e he with h | h | h
      · exact Or.inl h
      · exact Or.inr (Or.inl h)
      · obtain ⟨q, hq, h⟩ := h
        exact Or.inr (Or.inr ⟨q, List.mem_cons_of_mem _ hq, h⟩)

theorem just_tx_self (s : Sys) (i : Nat) (t : Tx) (h : s.tx? i = some t) (u : TxUpd)
    (hok : TxOK t u) (hv : u = .validateDone → AllValidated s t)
    (hsp : ∀ ps, u = .setProposals ps → ∀ pid ∈ ps, pid.2 = t.index := by intro ps h; cases h) :
    Just s (.tx t.index t.version u) := by
  have hi := tx?_index s i t h
  exact ⟨t, by rw [hi]; exact h, Nat.le_refl _, fun _ => ⟨hok, hv, hsp⟩⟩

theorem just_prop_self (s : Sys) (id : PropId) (p : Proposal) (h : s.prop? id = some p) (u : PropUpd)
    (hok : PropOK p u)
    (hc : u = .openCommit → ∃ t, s.tx? p.index = some t ∧ t.commit ≠ .none) :
    Just s (.prop (p.target, p.index) p.version u) := by
  have hk := prop?_key s id p h
  exact ⟨p, by rw [hk]; exact h, Nat.le_refl _, fun _ => ⟨hok, hc⟩⟩

/-- the proposals a transaction lists, as read by its loops -/
theorem listed_props (s : Sys) (hinv : PhaseInv s) (i : Nat) (t : Tx) (ht : s.tx? i = some t)
    (ps : List Proposal) (hps : getProps s (t.proposals.getD []) = some ps) :
    ∀ p ∈ ps, p.index = t.index ∧ ∃ id, s.prop? id = some p := by
  intro p hp
  cases hprops : t.proposals with
  | none =>
    simp only [hprops, Option.getD_none, getProps, Option.some.injEq] at hps
    subst hps; simp at hp
  | some ids =>
    simp only [hprops, Option.getD_some] at hps
    obtain ⟨id, hid, hpid⟩ := getProps_spec s ids ps hps p hp
    have h1 := hinv.props_index i t ht ids hprops id hid
    have h2 := prop?_key s id p hpid
    have hti := tx?_index s i t ht
    refine ⟨?_, id, hpid⟩
    have : p.index = id.2 := by rw [← h2]
    rw [this, h1, hti]

theorem txApply_just (s : Sys) (hinv : PhaseInv s) (i : Nat) (t : Tx) (ht : s.tx? i = some t) :
    ∀ e ∈ (txApply s t).effects, Just s e := by
  intro e he
  unfold txApply at he
  cases hap : t.apply <;> simp only [hap] at he <;> try (simp [Plan.nop] at he)
  cases hps : getProps s (t.proposals.getD []) with
  | none => simp [hps, Plan.nop] at he
  | some ps =>
    simp only [hps] at he
    rcases txApplyLoop_spec t ps true e he with h | ⟨f, h⟩ | ⟨p, hp, h, hpn⟩
    · subst h; exact just_tx_self s i t ht _ (by simpa [TxOK] using hap) (by simp)
    · subst h; exact just_tx_self s i t ht _ (by simpa [TxOK] using hap) (by simp)
    · subst h
      obtain ⟨_, id, hpid⟩ := listed_props s hinv i t ht ps hps p hp
      exact just_prop_self s id p hpid _ (by simpa [PropOK] using hpn) (by simp)

theorem txAbort_just (s : Sys) (hinv : PhaseInv s) (i : Nat) (t : Tx) (ht : s.tx? i = some t)
    (hapn : t.apply = .none) :
    ∀ e ∈ (txAbort s t).effects, Just s e := by
  intro e he
  unfold txAbort at he
  cases hab : t.abort <;> simp only [hab] at he <;> try (simp [Plan.nop] at he)
  cases hps : getProps s (t.proposals.getD []) with
  | none => simp [hps, Plan.nop] at he
  | some ps =>
    simp only [hps] at he
    rcases txAbortLoop_spec t ps true e he with h | ⟨p, hp, h, hpn⟩
    · subst h; exact just_tx_self s i t ht _ (by simp only [TxOK]; exact ⟨hab, hapn⟩) (by simp)
    · subst h
      obtain ⟨_, id, hpid⟩ := listed_props s hinv i t ht ps hps p hp
      exact just_prop_self s id p hpid _ (by simpa [PropOK] using hpn) (by simp)

theorem txCommit_just (s : Sys) (hinv : PhaseInv s) (i : Nat) (t : Tx) (ht : s.tx? i = some t)
    (hapn : t.apply = .none) (habn : t.abort = .none) :
    ∀ e ∈ (txCommit s t).effects, Just s e := by
  intro e he
  have hti := tx?_index s i t ht
  unfold txCommit at he
  cases hc : t.commit <;> simp only [hc] at he <;> try (simp [Plan.nop] at he)
  · -- COMMITTING
    cases hps : getProps s (t.proposals.getD []) with
    | none => simp [hps, Plan.nop] at he
    | some ps =>
      simp only [hps] at he
      rcases txCommitLoop_spec t ps true e he with h | ⟨p, hp, h, hpn⟩
      · subst h; exact just_tx_self s i t ht _ (by simp only [TxOK]; exact ⟨hc, hapn, habn⟩) (by simp)
      · subst h
        obtain ⟨hidx, id, hpid⟩ := listed_props s hinv i t ht ps hps p hp
        refine just_prop_self s id p hpid _ (by simpa [PropOK] using hpn) ?_
        intro _
        refine ⟨t, ?_, by rw [hc]; simp⟩
        rw [hidx, hti]; exact ht
  · -- COMMITTED
    cases hps : getProps s (t.proposals.getD []) with
    | none => simp [hps, Plan.nop] at he
    | some ps =>
      simp only [hps] at he
      split at he
      · simp [Plan.nop] at he
      · simp only [List.mem_singleton] at he
        subst he
        exact just_tx_self s i t ht _ (by simp only [TxOK]; exact ⟨hc, hapn, habn⟩) (by simp)

theorem txValidate_just (s : Sys) (hinv : PhaseInv s) (i : Nat) (t : Tx) (ht : s.tx? i = some t)
    (hapn : t.apply = .none) (habn : t.abort = .none) (hcn : t.commit = .none) :
    ∀ e ∈ (txValidate s t).effects, Just s e := by
  intro e he
  unfold txValidate at he
  cases hv : t.validate <;> simp only [hv] at he <;> try (simp [Plan.nop] at he)
  · -- VALIDATING
    cases hps : getProps s (t.proposals.getD []) with
    | none => simp [hps, Plan.nop] at he
    | some ps =>
      simp only [hps] at he
      rcases txValidateLoop_spec t ps true e he with ⟨h, _, hall⟩ | ⟨f, h⟩ | ⟨p, hp, h, hpn⟩
      · subst h
        refine just_tx_self s i t ht _ (by simp only [TxOK]; exact ⟨hv, hcn, hapn, habn⟩) ?_
        intro _
        cases hprops : t.proposals with
        | none =>
          exfalso
          have hid := (hinv.txinv i t ht).validate_init (by rw [hv]; simp)
          exact hinv.init_props i t ht hid hprops
        | some ids =>
          simp only [hprops, Option.getD_some] at hps
          refine ⟨ids, hprops, ?_⟩
          intro pid hpid
          obtain ⟨p, hp, hpp⟩ := getProps_all s ids ps hps pid hpid
          exact ⟨p, hpp, hall p hp⟩
      · subst h; exact just_tx_self s i t ht _ (by simp only [TxOK]; exact ⟨hv, hcn, hapn, habn⟩) (by simp)
      · subst h
        obtain ⟨_, id, hpid⟩ := listed_props s hinv i t ht ps hps p hp
        exact just_prop_self s id p hpid _ (by simpa [PropOK] using hpn) (by simp)
  · -- VALIDATED
    cases hps : getProps s (t.proposals.getD []) with
    | none => simp [hps, Plan.nop] at he
    | some ps =>
      simp only [hps] at he
      split at he
      · simp [Plan.nop] at he
      · simp only [List.mem_singleton] at he
        subst he
        exact just_tx_self s i t ht _ (by simp only [TxOK]; exact ⟨hv, hcn, hapn, habn⟩) (by simp)

theorem initCreatesChange_just (s : Sys) (t : Tx) : ∀ e ∈ initCreatesChange s t, Just s e := by
  intro e he
  unfold initCreatesChange at he
  simp only [List.mem_filterMap] at he
  obtain ⟨c, _, hc⟩ := he
  split at hc
  · simp at hc
  · simp only [Option.some.injEq] at hc
    subst hc
    simp [Just]

theorem initCreatesRollback_just (s : Sys) (t tg : Tx) : ∀ e ∈ initCreatesRollback s t tg, Just s e := by
  intro e he
  unfold initCreatesRollback at he
  simp only [List.mem_filterMap] at he
  obtain ⟨c, _, hc⟩ := he
  split at hc
  · simp at hc
  · simp only [Option.some.injEq] at hc
    subst hc
    simp [Just]

theorem txInitProposals_just (s : Sys) (i : Nat) (t : Tx) (ht : s.tx? i = some t)
    (hapn : t.apply = .none) (habn : t.abort = .none) (hcn : t.commit = .none) (hvn : t.validate = .none)
    (hin : t.init = .opened) :
    ∀ e ∈ (txInitProposals s t).effects, Just s e := by
  intro e he
  have hfail : ∀ f, Just s (.tx t.index t.version (.initFailed f)) := fun f =>
    just_tx_self s i t ht _ (by simp only [TxOK]; exact ⟨hin, hvn, hcn, hapn, habn⟩) (by simp)
  have hset : t.proposals = none → ∀ (l : List (Tgt × Config.VMap)),
      Just s (.tx t.index t.version (.setProposals (l.map fun c => (c.1, t.index)))) := fun hnone l =>
    just_tx_self s i t ht _ (by simp only [TxOK]; exact ⟨hin, hvn, hcn, hapn, habn, hnone⟩) (by simp)
      (by
        intro ps h pid hpid
        simp only [TxUpd.setProposals.injEq] at h
        subst h
        simp only [List.mem_map] at hpid
        obtain ⟨c, _, hc⟩ := hpid
        rw [← hc])
  unfold txInitProposals at he
  cases hpr : t.proposals with
  | none =>
    simp only [hpr] at he
    cases hrb : t.isRollback with
    | false =>
      simp only [hrb, Bool.not_false, if_true, List.mem_append, List.mem_singleton] at he
      rcases he with he | he
      · exact initCreatesChange_just s t e he
      · subst he; exact hset hpr _
    | true =>
      simp only [hrb, Bool.not_true, Bool.false_eq_true, if_false] at he
      cases htg : s.tx? t.rollbackIndex with
      | none =>
        simp only [htg, List.mem_singleton] at he
        subst he; exact hfail _
      | some tg =>
        simp only [htg] at he
        cases htr : tg.isRollback with
        | true =>
          simp only [htr, if_true, List.mem_singleton] at he
          subst he; exact hfail _
        | false =>
          simp only [htr, Bool.false_eq_true, if_false, List.mem_append, List.mem_singleton] at he
          rcases he with he | he
          · exact initCreatesRollback_just s t _ e he
          · subst he; exact hset hpr _
  | some ids =>
    simp only [hpr] at he
    cases hps : getProps s ids with
    | none => simp [hps, Plan.nop] at he
    | some ps =>
      simp only [hps] at he
      split at he
      · simp only [List.mem_singleton] at he
        subst he
        exact just_tx_self s i t ht _
          (by simp only [TxOK]; exact ⟨hin, hvn, hcn, hapn, habn, by rw [hpr]; simp⟩) (by simp)
      · simp [Plan.nop] at he

theorem txInitialize_just (s : Sys) (i : Nat) (t : Tx) (ht : s.tx? i = some t)
    (hapn : t.apply = .none) (habn : t.abort = .none) (hcn : t.commit = .none) (hvn : t.validate = .none) :
    ∀ e ∈ (txInitialize s t).effects, Just s e := by
  intro e he
  unfold txInitialize at he
  cases hin : t.init <;> simp only [hin] at he <;> try (simp [Plan.nop] at he)
  · -- INITIALIZING
    split at he
    · simp [Plan.nop] at he
    · exact txInitProposals_just s i t ht hapn habn hcn hvn hin e he
  · -- INITIALIZED
    cases hps : getProps s (t.proposals.getD []) with
    | none => simp [hps, Plan.nop] at he
    | some ps =>
      simp only [hps] at he
      split at he
      · simp [Plan.nop] at he
      · simp only [List.mem_singleton] at he
        subst he
        exact just_tx_self s i t ht _ (by simp only [TxOK]; exact ⟨hin, hvn, hcn, hapn, habn⟩) (by simp)

theorem tx_plan_just (s : Sys) (hinv : PhaseInv s) (i : Nat) :
    ∀ e ∈ (txReconcile s i).effects, Just s e := by
  intro e he
  unfold txReconcile at he
  cases ht : s.tx? i with
  | none => simp [ht, Plan.nop] at he
  | some t =>
    simp only [ht] at he
    by_cases hap : t.apply = .none
    · by_cases hab : t.abort = .none
      · by_cases hc : t.commit = .none
        · by_cases hv : t.validate = .none
          · by_cases hin : t.init = .none
            · simp only [hap, hab, hc, hv, hin, ne_eq, not_true_eq_false, if_false,
                List.mem_singleton] at he
              subst he
              exact just_tx_self s i t ht _ (by simp only [TxOK]; exact ⟨hin, hv, hc, hap, hab⟩) (by simp)
            · simp only [hap, hab, hc, hv, hin, ne_eq, not_true_eq_false, not_false_eq_true, if_false,
                if_true] at he
              exact txInitialize_just s i t ht hap hab hc hv e he
          · simp only [hap, hab, hc, hv, ne_eq, not_true_eq_false, not_false_eq_true, if_false,
              if_true] at he
            exact txValidate_just s hinv i t ht hap hab hc e he
        · simp only [hap, hab, hc, ne_eq, not_true_eq_false, not_false_eq_true, if_false, if_true] at he
          exact txCommit_just s hinv i t ht hap hab e he
      · simp only [hap, hab, ne_eq, not_true_eq_false, not_false_eq_true, if_false, if_true] at he
        exact txAbort_just s hinv i t ht hap e he
    · simp only [hap, ne_eq, not_false_eq_true, if_true] at he
      exact txApply_just s hinv i t ht e he

/-! proposal, configuration and mastership plans -/

theorem statusWrite_just (s : Sys) (c : Cfg) (ap v : Config.VMap) (u : CfgUpd) (oc : OnConflict)
    (hu : ∀ a b, u ≠ .commit a b) : ∀ e ∈ statusWrite c ap v u oc, Just s e := by
  intro e he
  unfold statusWrite at he
  simp only [List.mem_append, List.mem_singleton] at he
  rcases he with he | he
  · split at he
    · simp at he
    · simp only [List.mem_singleton] at he; subst he; simp [Just]
  · subst he
    cases u <;> simp [Just] <;> exact absurd rfl (hu _ _)

theorem propInitialize_just (s : Sys) (id : PropId) (p : Proposal) (hp : s.prop? id = some p)
    (hapn : p.apply = .none) (habn : p.abort = .none) (hcn : p.commit = .none) (hvn : p.validate = .none) :
    ∀ e ∈ (propInitialize s p).effects, Just s e := by
  intro e he
  unfold propInitialize at he
  cases hin : p.init <;> simp only [hin] at he <;> try (simp [Plan.nop] at he)
  cases hc : s.cfg? p.target with
  | none =>
    simp only [hc, List.mem_singleton] at he
    subst he; simp [Just]
  | some c =>
    simp only [hc] at he
    have hsp : ∀ e ∈ statusWrite c c.aview c.view (.setProposed p.index) .error, Just s e :=
      statusWrite_just s c _ _ _ _ (by intro a b h; cases h)
    split at he
    · split at he
      · cases hpp : s.prop? (p.target, c.proposed) with
        | none => simp only [hpp] at he; exact hsp e he
        | some prevP =>
          simp only [hpp] at he
          split at he
          · simp only [List.mem_singleton] at he
            subst he
            exact just_prop_self s _ prevP hpp _ (by simp [PropOK]) (by simp)
          · split at he
            · simp only [List.mem_singleton] at he
              subst he
              exact just_prop_self s id p hp _ (by simp [PropOK]) (by simp)
            · exact hsp e he
      · exact hsp e he
    · simp only [List.mem_singleton] at he
      subst he
      exact just_prop_self s id p hp _ (by simp only [PropOK]; exact ⟨hin, hvn, hcn, hapn, habn⟩) (by simp)

theorem propValidate_just (s : Sys) (id : PropId) (p : Proposal) (hp : s.prop? id = some p) (env : Env)
    (hapn : p.apply = .none) (habn : p.abort = .none) (hcn : p.commit = .none) :
    ∀ e ∈ (propValidate s p env).effects, Just s e := by
  intro e he
  have hfail : ∀ f, Just s (.prop (p.target, p.index) p.version (.validateFailed f)) → True := fun _ _ => trivial
  unfold propValidate at he
  cases hv : p.validate <;> simp only [hv] at he <;> try (simp [Plan.nop] at he)
  have hok : ∀ u, ((∃ f, u = .validateFailed f) ∨ (∃ a b, u = .validateDone a b)) →
      Just s (.prop (p.target, p.index) p.version u) := by
    intro u hu
    refine just_prop_self s id p hp u ?_ ?_
    · rcases hu with ⟨f, h⟩ | ⟨a, b, h⟩ <;> subst h <;> simp only [PropOK] <;> exact ⟨hv, hcn, hapn, habn⟩
    · rcases hu with ⟨f, h⟩ | ⟨a, b, h⟩ <;> subst h <;> simp
  cases hc : s.cfg? p.target with
  | none => simp [hc, Plan.nop] at he
  | some c =>
    simp only [hc] at he
    split at he
    · simp at he
    · cases hpl : env.plugin with
      | none =>
        simp only [hpl, List.mem_singleton] at he
        subst he; exact hok _ (Or.inl ⟨_, rfl⟩)
      | some verdict =>
        simp only [hpl] at he
        have hfin : ∀ a b, ∀ e ∈ (if verdict = true then
            ({ effects := [.prop (p.target, p.index) p.version (.validateDone a b)] } : Plan)
            else { effects := [.prop (p.target, p.index) p.version (.validateFailed .invalid)] }).effects,
            Just s e := by
          intro a b e he
          split at he <;> simp only [List.mem_singleton] at he <;> subst he
          · exact hok _ (Or.inr ⟨_, _, rfl⟩)
          · exact hok _ (Or.inl ⟨_, rfl⟩)
        repeat' split at he
        all_goals first
          | exact hfin _ _ e he
          | (simp only [List.mem_singleton] at he; subst he; exact hok _ (Or.inl ⟨_, rfl⟩))
          | (simp only [List.mem_singleton] at he; subst he; exact hok _ (Or.inr ⟨_, _, rfl⟩))

theorem propAbort_just (s : Sys) (id : PropId) (p : Proposal) (hp : s.prop? id = some p)
    (hapn : p.apply = .none) :
    ∀ e ∈ (propAbort s p).effects, Just s e := by
  intro e he
  unfold propAbort at he
  cases hab : p.abort <;> simp only [hab] at he <;>
    try (first | (simp [Plan.nop] at he; done) | (split at he <;> simp [Plan.nop] at he; done))
  cases hc : s.cfg? p.target with
  | none => simp [hc, Plan.nop] at he
  | some c =>
    simp only [hc] at he
    have hdone : Just s (.prop (p.target, p.index) p.version .abortDone) :=
      just_prop_self s id p hp _ (by simp only [PropOK]; exact ⟨hab, hapn⟩) (by simp)
    repeat' split at he
    all_goals first
      | (simp [Plan.nop] at he; done)
      | (simp only [List.mem_append, List.mem_singleton] at he
         rcases he with he | he
         · exact statusWrite_just s c _ _ _ _ (by intro a b h; cases h) e he
         · subst he; exact hdone)
      | exact statusWrite_just s c _ _ _ _ (by intro a b h; cases h) e he

theorem propCommit_just (s : Sys) (id : PropId) (p : Proposal) (hp : s.prop? id = some p) (env : Env)
    (hapn : p.apply = .none) (habn : p.abort = .none) :
    ∀ e ∈ (propCommit s p env).effects, Just s e := by
  intro e he
  have hk := prop?_key s id p hp
  unfold propCommit at he
  cases hcm : p.commit <;> simp only [hcm] at he <;> try (simp [Plan.nop] at he)
  · -- COMMITTING
    have hdone : Just s (.prop (p.target, p.index) p.version .commitDone) :=
      just_prop_self s id p hp _ (by simp only [PropOK]; exact ⟨hcm, hapn, habn⟩) (by simp)
    cases hc : s.cfg? p.target with
    | none => simp [hc, Plan.nop] at he
    | some c =>
      simp only [hc] at he
      split at he
      · simp only [List.mem_cons, List.mem_singleton, List.not_mem_nil, or_false] at he
        rcases he with he | he | he
        · subst he; simp [Just]
        · subst he
          simp only [Just]
          exact ⟨p, by rw [hk]; exact hp, by rw [hcm]; simp⟩
        · subst he; exact hdone
      · simp only [List.mem_singleton] at he
        subst he; exact hdone
  · -- COMMITTED
    split at he <;> simp [Plan.nop] at he

theorem propApply_just (s : Sys) (id : PropId) (p : Proposal) (hp : s.prop? id = some p) (env : Env) :
    ∀ e ∈ (propApply s p env).effects, Just s e := by
  intro e he
  unfold propApply at he
  cases hap : p.apply <;> simp only [hap] at he <;> try (simp [Plan.nop] at he)
  · -- APPLYING
    have hdone : ∀ u, ((∃ a, u = .applyDone a) ∨ (∃ f a, u = .applyFailed f a)) →
        Just s (.prop (p.target, p.index) p.version u) := by
      intro u hu
      refine just_prop_self s id p hp u ?_ ?_
      · rcases hu with ⟨a, h⟩ | ⟨f, a, h⟩ <;> subst h <;> simp only [PropOK] <;> exact hap
      · rcases hu with ⟨a, h⟩ | ⟨f, a, h⟩ <;> subst h <;> simp
    cases hc : s.cfg? p.target with
    | none => simp [hc, Plan.nop] at he
    | some c =>
      simp only [hc] at he
      repeat' split at he
      all_goals first
        | (simp [Plan.nop] at he; done)
        | (simp only [List.mem_singleton] at he; subst he; exact hdone _ (Or.inl ⟨_, rfl⟩))
        | (simp only [List.mem_append, List.mem_cons, List.mem_singleton, List.not_mem_nil, or_false] at he
           rcases he with he | he | he
           · subst he; simp [Just]
           · exact statusWrite_just s c _ _ _ _ (by intro a b h; cases h) e he
           · subst he
             first | exact hdone _ (Or.inl ⟨_, rfl⟩) | exact hdone _ (Or.inr ⟨_, _, rfl⟩))
  · -- APPLIED
    split at he <;> simp [Plan.nop] at he
  · -- apply FAILED (same requeue)
    split at he <;> simp [Plan.nop] at he

theorem prop_plan_just (s : Sys) (id : PropId) (env : Env) :
    ∀ e ∈ (propReconcile s id env).effects, Just s e := by
  intro e he
  unfold propReconcile at he
  cases hp : s.prop? id with
  | none => simp [hp, Plan.nop] at he
  | some p =>
    simp only [hp] at he
    by_cases hap : p.apply = .none
    · by_cases hab : p.abort = .none
      · by_cases hc : p.commit = .none
        · by_cases hv : p.validate = .none
          · by_cases hin : p.init = .none
            · simp only [hap, hab, hc, hv, hin, ne_eq, not_true_eq_false, if_false,
                List.mem_singleton] at he
              subst he
              have hk := prop?_key s id p hp
              rw [← hk]
              exact just_prop_self s id p hp _ (by simp only [PropOK]; exact ⟨hin, hv, hc, hap, hab⟩) (by simp)
            · simp only [hap, hab, hc, hv, hin, ne_eq, not_true_eq_false, not_false_eq_true, if_false,
                if_true] at he
              exact propInitialize_just s id p hp hap hab hc hv e he
          · simp only [hap, hab, hc, hv, ne_eq, not_true_eq_false, not_false_eq_true, if_false,
              if_true] at he
            exact propValidate_just s id p hp env hap hab hc e he
        · simp only [hap, hab, hc, ne_eq, not_true_eq_false, not_false_eq_true, if_false, if_true] at he
          exact propCommit_just s id p hp env hap hab e he
      · simp only [hap, hab, ne_eq, not_true_eq_false, not_false_eq_true, if_false, if_true] at he
        exact propAbort_just s id p hp hap e he
    · simp only [hap, ne_eq, not_false_eq_true, if_true] at he
      exact propApply_just s id p hp env e he

theorem syncEffects_just (s : Sys) (c : Cfg) (g : List (Nat × List Config.PV)) (n : Nat) :
    ∀ e ∈ syncEffects c g n, Just s e := by
  intro e he
  unfold syncEffects at he
  simp only [List.mem_map] at he
  obtain ⟨_, _, h⟩ := he
  subst h; simp [Just]

theorem cfg_plan_just (s : Sys) (t : Tgt) (env : Env) :
    ∀ e ∈ (cfgReconcile s t env).effects, Just s e := by
  intro e he
  unfold cfgReconcile at he
  cases hc : s.cfg? t with
  | none => simp [hc, Plan.nop] at he
  | some c =>
    simp only [hc] at he
    repeat' split at he
    all_goals first
      | (simp [Plan.nop] at he; done)
      | exact statusWrite_just s c _ _ _ _ (by intro a b h; cases h) e he
      | exact syncEffects_just s c _ _ e he
      | (simp only [List.mem_append] at he
         rcases he with he | he
         · exact syncEffects_just s c _ _ e he
         · exact statusWrite_just s c _ _ _ _ (by intro a b h; cases h) e he)

theorem mast_plan_just (s : Sys) (t : Tgt) (env : Env) :
    ∀ e ∈ (mastReconcile s t env).effects, Just s e := by
  intro e he
  unfold mastReconcile at he
  cases hc : s.cfg? t with
  | none => simp [hc, Plan.nop] at he
  | some c =>
    simp only [hc] at he
    repeat' split at he
    all_goals first
      | (simp [Plan.nop] at he; done)
      | exact statusWrite_just s c _ _ _ _ (by intro a b h; cases h) e he

/-- every effect of every plan is justified in the state it was computed from -/
theorem plan_just (s : Sys) (hinv : PhaseInv s) (id : Id) (env : Env) :
    ∀ e ∈ (reconcile s id env).effects, Just s e := by
  cases id with
  | tx i => exact tx_plan_just s hinv i
  | prop pid => exact prop_plan_just s pid env
  | cfg t => exact cfg_plan_just s t env
  | mast t => exact mast_plan_just s t env

end OnosVerif.V2
