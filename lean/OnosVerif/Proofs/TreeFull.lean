/- List items that carry a given key set (`FullMatch`): how the lookup of `addPathToTree` treats
   them, and that building below an entry keeps its key leaves readable as its keys. -/
import OnosVerif.Proofs.TreeMember

namespace OnosVerif.Tree
open OnosVerif.Path (Str GPath Elem)

/-- the item is a map in which every key of `ks` is present and reads (as text) as its value. -/
def FullMatch (ks : List (Str × Str)) (j : Json) : Prop :=
  ∃ mi, j = .obj mi ∧ ∀ kt ∈ ks, ∃ l, objGet mi kt.1 = some l ∧ convertBasicType l = kt.2

/-- the item is a map in which some key of `ks` is present with another text. -/
def Clashes (ks : List (Str × Str)) (j : Json) : Prop := ∃ mi, j = .obj mi ∧ clash mi ks = true

theorem fullMatch_noclash (ks okm : List (Str × Str)) (mi : List (Str × Json)) (hp : okm.Perm ks)
    (h : FullMatch ks (.obj mi)) : clash mi okm = false ∧ present mi okm = ks.length := by
  obtain ⟨mi', hm, hall⟩ := h
  cases hm
  constructor
  · rw [clash_perm mi okm ks hp]
    simp only [clash, List.any_eq_false]
    intro kt hkt
    obtain ⟨l, hl, ht⟩ := hall kt hkt
    simp [keyClash, hl, ht]
  · rw [present_perm mi okm ks hp]
    simp only [present]
    rw [List.countP_eq_length]
    intro kt hkt
    obtain ⟨l, hl, _⟩ := hall kt hkt
    simp [keyPresent, hl]

/-- same key names, different key sets: some key has two different values. -/
theorem keys_differ : ∀ (a b : List (Str × Str)), a.map (·.1) = b.map (·.1) → a ≠ b →
    ∃ k t t', (k, t) ∈ a ∧ (k, t') ∈ b ∧ t ≠ t'
  | [], [], _, h => absurd rfl h
  | [], _ :: _, h, _ => by simp at h
  | _ :: _, [], h, _ => by simp at h
  | (k, t) :: a, (k', t') :: b, h, hne => by
    simp only [List.map_cons, List.cons.injEq] at h
    obtain ⟨hk, hr⟩ := h
    subst hk
    by_cases ht : t = t'
    · subst ht
      have : a ≠ b := fun e => hne (by rw [e])
      obtain ⟨k2, t2, t2', h1, h2, h3⟩ := keys_differ a b hr this
      exact ⟨k2, t2, t2', List.mem_cons_of_mem _ h1, List.mem_cons_of_mem _ h2, h3⟩
    · exact ⟨k, t, t', List.mem_cons_self, List.mem_cons_self, ht⟩

theorem fullMatch_clashes (ks ks' : List (Str × Str)) (j : Json) (hn : ks.map (·.1) = ks'.map (·.1))
    (hne : ks ≠ ks') (h : FullMatch ks' j) : Clashes ks j := by
  obtain ⟨mi, hm, hall⟩ := h
  refine ⟨mi, hm, ?_⟩
  obtain ⟨k, t, t', h1, h2, h3⟩ := keys_differ ks ks' hn hne
  obtain ⟨l, hl, ht⟩ := hall (k, t') h2
  simp only [clash, List.any_eq_true]
  refine ⟨(k, t), h1, ?_⟩
  simp only [keyClash, hl, bne_iff_ne, ne_eq]
  simp only at ht
  rw [ht]
  exact fun e => h3 e.symm

theorem clashes_perm (ks okm : List (Str × Str)) (j : Json) (hp : okm.Perm ks) (h : Clashes ks j) :
    Clashes okm j := by
  obtain ⟨mi, hm, hc⟩ := h
  exact ⟨mi, hm, by rw [clash_perm mi okm ks hp]; exact hc⟩

/-! ### scanning -/

theorem scanItems_all_clash (okm : List (Str × Str)) : ∀ (items : List Json) (i : Nat) (sel : Option Nat),
    (∀ it ∈ items, Clashes okm it) → ∃ sel', scanItems okm items i (0, sel) = .ok (0, sel')
  | [], _, sel, _ => ⟨sel, rfl⟩
  | it :: rest, i, sel, h => by
    obtain ⟨mi, hm, hc⟩ := h it List.mem_cons_self
    subst hm
    simp only [scanItems]
    have h1 := scanItem_clash mi i okm (0, sel) hc
    have : scanItem mi i okm (0, sel) = (0, (scanItem mi i okm (0, sel)).2) := Prod.ext h1 rfl
    rw [this]
    exact scanItems_all_clash okm rest (i + 1) _ (fun x hx => h x (List.mem_cons_of_mem _ hx))

theorem scanItems_append (okm : List (Str × Str)) : ∀ (a b : List Json) (i : Nat) (st : Nat × Option Nat),
    scanItems okm (a ++ b) i st =
      match scanItems okm a i st with
      | .error e => .error e
      | .ok st' => scanItems okm b (i + a.length) st'
  | [], b, i, st => by simp [scanItems]
  | it :: rest, b, i, st => by
    cases it with
    | obj m =>
      simp only [List.cons_append, scanItems, List.length_cons]
      rw [scanItems_append okm rest b (i + 1)]
      have : i + 1 + rest.length = i + (rest.length + 1) := by omega
      rw [this]
    | str _ => rfl
    | num _ => rfl
    | bool _ => rfl
    | arr _ => rfl

theorem scanItems_ok_of_objs (okm : List (Str × Str)) : ∀ (items : List Json) (i : Nat) (st : Nat × Option Nat),
    (∀ it ∈ items, ∃ mi, it = .obj mi) → ∃ st', scanItems okm items i st = .ok st'
  | [], _, st, _ => ⟨st, rfl⟩
  | it :: rest, i, st, h => by
    obtain ⟨mi, hm⟩ := h it List.mem_cons_self
    subst hm
    simp only [scanItems]
    exact scanItems_ok_of_objs okm rest (i + 1) _ (fun x hx => h x (List.mem_cons_of_mem _ hx))

/-- a new entry: every existing item carries another key set. -/
theorem listStep_new (ks okm : List (Str × Str)) (items : List Json) (recur : Json → Except Err Json)
    (nilRecur : Unit → Except Err Unit) (hks : ks ≠ [])
    (hc : ∀ it ∈ items, Clashes okm it) :
    listStep ks okm items recur nilRecur =
      match recur (keyObj ks) with
      | .error e => .error e
      | .ok item => .ok (items ++ [item]) := by
  obtain ⟨sel', hs⟩ := scanItems_all_clash okm items 0 none hc
  unfold listStep
  rw [hs]
  have : 0 < ks.length := by
    cases ks with
    | nil => exact absurd rfl hks
    | cons _ _ => simp
  simp only [this, if_true]
  cases recur (keyObj ks) <;> rfl

/-- the entry was the last one created: it is found, whatever stands before it. -/
theorem listStep_last (ks okm : List (Str × Str)) (init : List Json) (last : Json)
    (recur : Json → Except Err Json) (nilRecur : Unit → Except Err Unit) (hks : ks ≠ [])
    (hp : okm.Perm ks) (hobjs : ∀ it ∈ init, ∃ mi, it = .obj mi) (hf : FullMatch ks last) :
    listStep ks okm (init ++ [last]) recur nilRecur =
      match recur last with
      | .error e => .error e
      | .ok it' => .ok (init ++ [it']) := by
  obtain ⟨⟨fk0, sel0⟩, hs0⟩ := scanItems_ok_of_objs okm init 0 (0, none) hobjs
  have hf' := hf
  obtain ⟨mi, hm, _⟩ := hf'
  subst hm
  obtain ⟨hnc, hpr⟩ := fullMatch_noclash ks okm mi hp hf
  have hpos : 0 < ks.length := by
    cases ks with
    | nil => exact absurd rfl hks
    | cons _ _ => simp
  unfold listStep
  rw [scanItems_append, hs0]
  simp only [scanItems, Nat.zero_add]
  rw [scanItem_noclash mi init.length okm fk0 sel0 hnc, hpr]
  simp only [hpos, if_true]
  have hnlt : ¬ (fk0 + ks.length < ks.length) := by omega
  simp only [hnlt, if_false]
  have hget : (init ++ [Json.obj mi])[init.length]? = some (Json.obj mi) := by simp
  rw [hget]
  simp only
  cases recur (Json.obj mi) with
  | error e => rfl
  | ok it' => simp

/-! ### building below an entry keeps its keys -/

theorem lookupKey_of_mem : ∀ (ks : List (Str × Str)) (k t : Str), Path.keysSorted ks = true → (k, t) ∈ ks →
    lookupKey ks k = some t
  | [], _, _, _, h => by simp at h
  | (k', t') :: r, k, t, hs, h => by
    simp only [Path.keysSorted, Bool.and_eq_true, List.all_eq_true] at hs
    unfold lookupKey
    rcases List.mem_cons.1 h with h | h
    · simp only [Prod.mk.injEq] at h
      simp [h.1, h.2]
    · have hlt := hs.1 (k, t) h
      have hne : k ≠ k' := fun e => Path.strLt_ne _ _ hlt e.symm
      simp only [hne, if_false]
      exact lookupKey_of_mem r k t hs.2 h

theorem fullMatch_keyObj (ks : List (Str × Str)) (hs : Path.keysSorted ks = true) : FullMatch ks (keyObj ks) := by
  refine ⟨_, rfl, ?_⟩
  intro kt hkt
  refine ⟨.str kt.2, ?_, rfl⟩
  induction ks with
  | nil => simp at hkt
  | cons a r ih =>
    simp only [Path.keysSorted, Bool.and_eq_true, List.all_eq_true] at hs
    simp only [List.map_cons, objGet]
    rcases List.mem_cons.1 hkt with h | h
    · subst h; simp
    · have hlt := hs.1 kt h
      have hne : kt.1 ≠ a.1 := fun e => Path.strLt_ne _ _ hlt e.symm
      simp only [hne, if_false]
      exact ih hs.2 h

variable (rfc : Bool) (ord : List (Str × Str) → List (Str × Str))

/-- one path/value added below a list entry leaves every key of the entry present with its text,
    provided an element named like a key is the key leaf with an agreeing value (`headOK`). -/
theorem addElems_fullMatch (ks : List (Str × Str)) (hs : Path.keysSorted ks = true) (x : Entry) (j j' : Json)
    (hl : leafPlain x) (hne : x.1 ≠ []) (hh : headOK rfc ks x.1 x.2 = true) (hf : FullMatch ks j)
    (hadd : addElems rfc ord x.1 x.2 j = .ok j') : FullMatch ks j' := by
  obtain ⟨mi, hm, hall⟩ := hf
  subst hm
  rw [addElems_member rfc ord x mi hl hne] at hadd
  cases hstep : memberStep rfc ord x (objGet mi (memberName x)) with
  | error e => rw [hstep] at hadd; simp at hadd
  | ok y =>
    rw [hstep] at hadd
    simp only [Except.ok.injEq] at hadd
    subst hadd
    refine ⟨_, rfl, ?_⟩
    intro kt hkt
    rw [objGet_setMember]
    by_cases hk : kt.1 = memberName x
    · simp only [hk, if_true]
      obtain ⟨p, v⟩ := x
      cases p with
      | nil => exact absurd rfl hne
      | cons e rest =>
        simp only [memberName] at hk
        have hlk := lookupKey_of_mem ks kt.1 kt.2 hs hkt
        simp only [headOK, ← hk, hlk, Bool.and_eq_true, List.isEmpty_iff] at hh
        obtain ⟨hrest, hval⟩ := hh
        subst hrest
        simp only [memberStep, Except.ok.injEq] at hstep
        subst hstep
        simp only [memberName, ← hk]
        cases hlj : leafJson rfc v with
        | none =>
          simp only [upd]
          exact hall kt hkt
        | some l =>
          simp only [upd]
          refine ⟨l, rfl, ?_⟩
          simp only [valMatches, hlj, beq_iff_eq] at hval
          exact hval
    · simp only [hk, if_false]
      exact hall kt hkt

end OnosVerif.Tree
