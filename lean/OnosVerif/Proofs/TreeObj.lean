/- Association-list lemmas for the Go maps of the tree twin (`objGet`, `objSet`). -/
import OnosVerif.Tree.Model
import OnosVerif.Proofs.StrOrder

namespace OnosVerif.Tree
open OnosVerif.Path (Str strLt)
open OnosVerif.Path

theorem objSet_lt (k k' : Str) (v v' : Json) (r : List (Str × Json)) (h : strLt k k' = true) :
    objSet k v ((k', v') :: r) = (k, v) :: (k', v') :: r := by
  simp [objSet, h]

theorem objSet_eq (k : Str) (v v' : Json) (r : List (Str × Json)) :
    objSet k v ((k, v') :: r) = (k, v) :: r := by
  simp [objSet, strLt_irrefl]

theorem objSet_gt (k k' : Str) (v v' : Json) (r : List (Str × Json)) (h1 : strLt k k' = false) (h2 : k ≠ k') :
    objSet k v ((k', v') :: r) = (k', v') :: objSet k v r := by
  simp [objSet, h1, h2]

/-- the three cases of one comparison in `objSet`. -/
theorem objSet_cases (k k' : Str) : strLt k k' = true ∨ k = k' ∨ (strLt k k' = false ∧ k ≠ k') := by
  cases h : strLt k k' with
  | true => exact Or.inl rfl
  | false =>
    by_cases h2 : k = k'
    · exact Or.inr (Or.inl h2)
    · exact Or.inr (Or.inr ⟨rfl, h2⟩)

theorem objGet_objSet_same (k : Str) (v : Json) : ∀ (m : List (Str × Json)), objGet (objSet k v m) k = some v
  | [] => by simp [objSet, objGet]
  | (k', v') :: r => by
    rcases objSet_cases k k' with h | h | ⟨h1, h2⟩
    · rw [objSet_lt _ _ _ _ _ h]; simp [objGet]
    · subst h; rw [objSet_eq]; simp [objGet]
    · rw [objSet_gt _ _ _ _ _ h1 h2]
      simp only [objGet, h2, if_false]
      exact objGet_objSet_same k v r

theorem objGet_objSet_other (k k2 : Str) (v : Json) (hne : k2 ≠ k) :
    ∀ (m : List (Str × Json)), objGet (objSet k v m) k2 = objGet m k2
  | [] => by simp [objSet, objGet, hne]
  | (k', v') :: r => by
    rcases objSet_cases k k' with h | h | ⟨h1, h2⟩
    · rw [objSet_lt _ _ _ _ _ h]; simp [objGet, hne]
    · subst h; rw [objSet_eq]; simp [objGet, hne]
    · rw [objSet_gt _ _ _ _ _ h1 h2]
      simp only [objGet]
      rw [objGet_objSet_other k k2 v hne r]

theorem objGet_objSet (k k2 : Str) (v : Json) (m : List (Str × Json)) :
    objGet (objSet k v m) k2 = if k2 = k then some v else objGet m k2 := by
  by_cases h : k2 = k
  · subst h; simp [objGet_objSet_same]
  · simp [h, objGet_objSet_other k k2 v h m]

/-- the keys of the association list are strictly increasing (the canonical form of a Go map). -/
def ObjSorted (m : List (Str × Json)) : Prop := m.Pairwise (fun a b => strLt a.1 b.1 = true)

theorem mem_objSet (k : Str) (v : Json) (x : Str × Json) : ∀ (m : List (Str × Json)),
    x ∈ objSet k v m → x = (k, v) ∨ x ∈ m
  | [], h => by simp [objSet] at h; exact Or.inl h
  | (k', v') :: r, h => by
    rcases objSet_cases k k' with h0 | h0 | ⟨h1, h2⟩
    · rw [objSet_lt _ _ _ _ _ h0] at h
      rcases List.mem_cons.1 h with h | h
      · exact Or.inl h
      · exact Or.inr h
    · subst h0; rw [objSet_eq] at h
      rcases List.mem_cons.1 h with h | h
      · exact Or.inl h
      · exact Or.inr (List.mem_cons_of_mem _ h)
    · rw [objSet_gt _ _ _ _ _ h1 h2] at h
      rcases List.mem_cons.1 h with h | h
      · exact Or.inr (by rw [h]; exact List.mem_cons_self)
      · rcases mem_objSet k v x r h with h | h
        · exact Or.inl h
        · exact Or.inr (List.mem_cons_of_mem _ h)

theorem objSet_sorted (k : Str) (v : Json) : ∀ (m : List (Str × Json)), ObjSorted m → ObjSorted (objSet k v m)
  | [], _ => by simp [objSet, ObjSorted]
  | (k', v') :: r, h => by
    have h' := h
    simp only [ObjSorted, List.pairwise_cons] at h'
    rcases objSet_cases k k' with h0 | h0 | ⟨h1, h2⟩
    · rw [objSet_lt _ _ _ _ _ h0]
      simp only [ObjSorted, List.pairwise_cons]
      refine ⟨?_, h'⟩
      intro b hb
      rcases List.mem_cons.1 hb with hb | hb
      · subst hb; exact h0
      · exact strLt_trans _ _ _ h0 (h'.1 b hb)
    · subst h0; rw [objSet_eq]
      simp only [ObjSorted, List.pairwise_cons]
      exact h'
    · rw [objSet_gt _ _ _ _ _ h1 h2]
      simp only [ObjSorted, List.pairwise_cons]
      refine ⟨?_, objSet_sorted k v r h'.2⟩
      intro b hb
      rcases mem_objSet k v b r hb with hb | hb
      · subst hb
        cases hlt : strLt k' k with
        | true => rfl
        | false => exact absurd (strLt_connected _ _ h1 hlt) h2
      · exact h'.1 b hb

theorem objGet_of_mem : ∀ (m : List (Str × Json)) (k : Str) (v : Json), ObjSorted m → (k, v) ∈ m → objGet m k = some v
  | [], _, _, _, h => by simp at h
  | (k', v') :: r, k, v, hs, h => by
    simp only [ObjSorted, List.pairwise_cons] at hs
    unfold objGet
    by_cases hk : k = k'
    · subst hk
      simp only [if_true]
      rcases List.mem_cons.1 h with h | h
      · simp only [Prod.mk.injEq, true_and] at h; rw [h]
      · exact absurd rfl (strLt_ne _ _ (hs.1 (k, v) h))
    · simp only [hk, if_false]
      rcases List.mem_cons.1 h with h | h
      · simp only [Prod.mk.injEq] at h; exact absurd h.1 hk
      · exact objGet_of_mem r k v hs.2 h

theorem mem_of_objGet : ∀ (m : List (Str × Json)) (k : Str) (v : Json), objGet m k = some v → (k, v) ∈ m
  | [], _, _, h => by simp [objGet] at h
  | (k', v') :: r, k, v, h => by
    unfold objGet at h
    by_cases hk : k = k'
    · subst hk
      simp only [if_true, Option.some.injEq] at h
      subst h; exact List.mem_cons_self
    · simp only [hk, if_false] at h
      exact List.mem_cons_of_mem _ (mem_of_objGet r k v h)

theorem mem_iff_objGet (m : List (Str × Json)) (hs : ObjSorted m) (k : Str) (v : Json) :
    (k, v) ∈ m ↔ objGet m k = some v :=
  ⟨objGet_of_mem m k v hs, mem_of_objGet m k v⟩

end OnosVerif.Tree
