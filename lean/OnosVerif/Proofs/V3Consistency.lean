/-
The committed half of spec/Config.tla `Consistency` on the twin's state, for histories without
rollback requests: the transaction that is the committed revision has each of its values in
`Committed.Values` as `Get` returns them — for the paths that are not in the committed side map.

The invariant `VC` is preserved by every write of `commitChange` / `applyChange`, by the writes of
the configuration and mastership reconcilers, and by every injected store behaviour except a racing
rollback request: lost (swallowed) configuration writes, failing writes and side-map-only writes
included.
-/
import OnosVerif.Proofs.V3Values
import OnosVerif.Proofs.V3Bridge3
namespace OnosVerif.V3

/-- the committed conjunct of `Consistency`, for the paths that are not in the committed side map
    (which `Create` fills and nothing in the v3 controllers ever writes again, `run_cside`) -/
def CommittedExcept (s : Sys) : Prop :=
  ∀ i t, getTx s i = some t → s.cfg.cRevision = i → ∀ kv ∈ t.values, kv.1 ∉ vKeys s.cside →
    vLookup (view s).cVals kv.1 = some kv.2

/-- the acts of `commitChange` / `applyChange` -/
def Act.isChangeAct : Act → Bool
  | .cTarget _ | .tCommitBegin _ _ _ | .tCommitFailed _ | .cSkip _ | .cCommit _ _ | .tCommitDone _ _
  | .tApplyBegin _ | .tApplyAbort _ | .aSkip _ _ | .aTarget _ | .tApplyDone _ | .tApplyFailed _ _
  | .aFailed _ _ | .aApply _ _ _ => true
  | _ => false

/-- the invariant behind `CommittedExcept` for histories without rollback requests -/
structure VC (s : Sys) : Prop where
  wf : ∀ i t, getTx s i = some t → (vKeys t.values).Nodup ∧ t.phase = .change
  rev_le : s.cfg.cRevision ≤ s.txs.length
  cons : CommittedExcept s

theorem getTx_setTx {s : Sys} {i : Nat} {t t' : Tx} (h : getTx s i = some t) (j : Nat) :
    getTx (setTx s i t') j = if j = i then some t' else getTx s j := by
  unfold getTx at h ⊢
  unfold setTx
  by_cases hi : i = 0
  · simp [hi] at h
  · simp only [hi, if_false] at h ⊢
    have hlt := (List.getElem?_eq_some_iff.mp h).1
    by_cases hj0 : j = 0
    · subst hj0
      have : ¬ 0 = i := fun e => hi e.symm
      simp [this]
    · simp only [hj0, if_false]
      by_cases hji : j = i
      · subst hji
        simp only [if_true]
        rw [List.getElem?_set_self hlt]
      · simp only [hji, if_false]
        rw [List.getElem?_set_ne (by omega)]

theorem view_cVals_absorb (s : Sys) (k : Str) :
    vLookup (vOverlay (view s).cVals s.cside) k = vLookup (view s).cVals k := by
  simp only [view]
  exact vLookup_vOverlay_idem _ _ _

/-- a writer that re-embeds `Get`'s committed values and keeps the cursors and the transactions -/
theorem VC.absorb {s s' : Sys} (h : VC s) (htx : s'.txs = s.txs) (hcs : s'.cside = s.cside)
    (hrev : s'.cfg.cRevision = s.cfg.cRevision)
    (hv : s'.cfg.cValues = (view s).cVals ∨ s'.cfg.cValues = s.cfg.cValues) : VC s' := by
  have hget : ∀ j, getTx s' j = getTx s j := by intro j; unfold getTx; rw [htx]
  refine ⟨fun i t hi => h.wf i t (by rw [← hget]; exact hi), by rw [hrev, htx]; exact h.rev_le, ?_⟩
  intro i t hi hr kv hm hn
  rw [hget] at hi
  rw [hrev] at hr
  rw [hcs] at hn
  have := h.cons i t hi hr kv hm hn
  rcases hv with hv | hv
  · simp only [view, hv, hcs]
    rw [← this]
    exact view_cVals_absorb s kv.1
  · simp only [view, hv, hcs]
    exact this

end OnosVerif.V3

namespace OnosVerif.V3

theorem addEvent_fields (s : Sys) (a : Act) :
    (addEvent s a).txs = s.txs ∧ (addEvent s a).cfg = s.cfg ∧ (addEvent s a).cside = s.cside ∧
    (addEvent s a).side = s.side := by
  unfold addEvent; split <;> simp

theorem actTx_values (t : Tx) (a : Act) : (actTx t a).values = t.values ∧ (actTx t a).phase = t.phase := by
  cases a <;> simp [actTx]

theorem VC.applyAct {s : Sys} {a : Act} {last : Option Str} {i : Nat} {t : Tx} (h : VC s)
    (hc : a.isChangeAct = true) (ht : getTx s i = some t) (hidx : a.isCfg = false → a.txIndex = i)
    (hcommit : ∀ j vals, a = .cCommit j vals → j = i ∧ vals = t.values) : VC (applyAct s a last) := by
  unfold OnosVerif.V3.applyAct
  by_cases hcfg : a.isCfg = true
  · simp only [hcfg, if_true]
    split
    · exact h
    · rename_i side hs
      -- name the written state and keep what matters about it
      have hX1 : ({ s with side := side, cfg := { actCfg s.cfg a with cValues := (actValues (view s) a).1, ver := s.cfg.ver + 1 } } : Sys).txs = s.txs := rfl
      have hX2 : ({ s with side := side, cfg := { actCfg s.cfg a with cValues := (actValues (view s) a).1, ver := s.cfg.ver + 1 } } : Sys).cside = s.cside := rfl
      have hX3 : ({ s with side := side, cfg := { actCfg s.cfg a with cValues := (actValues (view s) a).1, ver := s.cfg.ver + 1 } } : Sys).cfg.cValues = (actValues (view s) a).1 := rfl
      have hX4 : ({ s with side := side, cfg := { actCfg s.cfg a with cValues := (actValues (view s) a).1, ver := s.cfg.ver + 1 } } : Sys).cfg.cRevision = (actCfg s.cfg a).cRevision := rfl
      generalize ({ s with side := side, cfg := { actCfg s.cfg a with cValues := (actValues (view s) a).1, ver := s.cfg.ver + 1 } } : Sys) = X at hX1 hX2 hX3 hX4 ⊢
      obtain ⟨e1, e2, e3, e4⟩ := addEvent_fields X a
      have hget : ∀ j', getTx (addEvent X a) j' = getTx s j' := by
        intro j'; unfold getTx; rw [e1, hX1]
      -- the commit itself, or a write that only re-embeds the committed values
      by_cases hcm : ∃ j vals, a = .cCommit j vals
      · obtain ⟨j, vals, rfl⟩ := hcm
        obtain ⟨rfl, rfl⟩ := hcommit j vals rfl
        have hj : j ≤ s.txs.length := by
          unfold getTx at ht
          split at ht
          · simp at ht
          · have := (List.getElem?_eq_some_iff.mp ht).1
            omega
        refine ⟨fun i' t' hi' => h.wf i' t' (by rw [← hget]; exact hi'), ?_, ?_⟩
        · rw [e2, e1, hX4, hX1]; simpa [actCfg] using hj
        · intro i' t' hi' hr kv hm hn
          rw [hget] at hi'
          rw [e2, hX4] at hr
          simp only [actCfg] at hr
          subst hr
          rw [ht] at hi'
          cases hi'
          rw [e3, hX2] at hn
          have hv : (view (addEvent X (.cCommit j t.values))).cVals =
              vOverlay (vOverlay (view s).cVals t.values) s.cside := by
            simp only [view]
            rw [e2, e3, hX3, hX2]
            rfl
          rw [hv, vLookup_vOverlay_notMem _ _ _ hn]
          exact vLookup_vOverlay_mem _ _ _ _ hm (h.wf _ _ ht).1
      · refine VC.absorb h (by rw [e1, hX1]) (by rw [e3, hX2]) ?_ (Or.inl ?_)
        · rw [e2, hX4]
          cases a <;> simp_all [actCfg, Act.isChangeAct, Act.isCfg]
        · rw [e2, hX3]
          cases a <;> simp_all [actValues, Act.isChangeAct, Act.isCfg]
  · have hcfg' : a.isCfg = false := by simpa using hcfg
    simp only [hcfg', Bool.false_eq_true, if_false]
    rw [hidx hcfg', ht]
    simp only
    obtain ⟨e1, e2, e3, e4⟩ := addEvent_fields (setTx s i { actTx t a with ver := t.ver + 1 }) a
    have hget : ∀ j, getTx (addEvent (setTx s i { actTx t a with ver := t.ver + 1 }) a) j =
        if j = i then some { actTx t a with ver := t.ver + 1 } else getTx s j := by
      intro j
      have : getTx (addEvent (setTx s i { actTx t a with ver := t.ver + 1 }) a) j =
          getTx (setTx s i { actTx t a with ver := t.ver + 1 }) j := by unfold getTx; rw [e1]
      rw [this, getTx_setTx ht]
    have hcfgs : (setTx s i { actTx t a with ver := t.ver + 1 }).cfg = s.cfg ∧
        (setTx s i { actTx t a with ver := t.ver + 1 }).cside = s.cside ∧
        (setTx s i { actTx t a with ver := t.ver + 1 }).txs.length = s.txs.length := by
      unfold setTx; split <;> simp
    obtain ⟨av, ap⟩ := actTx_values t a
    refine ⟨?_, ?_, ?_⟩
    · intro j tj hj
      rw [hget] at hj
      by_cases e : j = i
      · simp only [e, if_true, Option.some.injEq] at hj
        subst hj
        exact ⟨by simpa [av] using (h.wf i t ht).1, by simpa [ap] using (h.wf i t ht).2⟩
      · simp only [e, if_false] at hj
        exact h.wf j tj hj
    · rw [e2, e1, hcfgs.1, hcfgs.2.2]; exact h.rev_le
    · intro j tj hj hr kv hm hn
      rw [hget] at hj
      rw [e2, hcfgs.1] at hr
      rw [e3, hcfgs.2.1] at hn
      have hview : (view (addEvent (setTx s i { actTx t a with ver := t.ver + 1 }) a)).cVals = (view s).cVals := by
        simp only [view, e2, e3, hcfgs.1, hcfgs.2.1]
      rw [hview]
      by_cases e : j = i
      · simp only [e, if_true, Option.some.injEq] at hj
        subst hj
        exact h.cons i t ht (by rw [← e]; exact hr) kv (by simpa [av] using hm) hn
      · simp only [e, if_false] at hj
        exact h.cons j tj hj hr kv hm hn

end OnosVerif.V3

namespace OnosVerif.V3

theorem VC.touchCfg {s : Sys} (h : VC s) : VC (touchCfg s) :=
  VC.absorb h rfl rfl rfl (Or.inl rfl)

theorem VC.sideWrite {s : Sys} (h : VC s) (v : Values) (last : Option Str) : VC (sideWrite s v last) := by
  unfold OnosVerif.V3.sideWrite
  split
  · exact h
  · exact VC.absorb h rfl rfl rfl (Or.inr rfl)

theorem VC.touchTx {s : Sys} (h : VC s) (i : Nat) : VC (touchTx s i) := by
  unfold OnosVerif.V3.touchTx
  cases ht : getTx s i with
  | none => exact h
  | some t =>
    simp only
    have hget := getTx_setTx (t' := { t with ver := t.ver + 1 }) ht
    have hcfgs : (setTx s i { t with ver := t.ver + 1 }).cfg = s.cfg ∧
        (setTx s i { t with ver := t.ver + 1 }).cside = s.cside ∧
        (setTx s i { t with ver := t.ver + 1 }).txs.length = s.txs.length := by
      unfold setTx; split <;> simp
    refine ⟨?_, by rw [hcfgs.1, hcfgs.2.2]; exact h.rev_le, ?_⟩
    · intro j tj hj
      rw [hget] at hj
      by_cases e : j = i
      · simp only [e, if_true, Option.some.injEq] at hj
        subst hj
        exact h.wf i t ht
      · simp only [e, if_false] at hj
        exact h.wf j tj hj
    · intro j tj hj hr kv hm hn
      rw [hget] at hj
      rw [hcfgs.1] at hr
      rw [hcfgs.2.1] at hn
      have hview : (view (setTx s i { t with ver := t.ver + 1 })).cVals = (view s).cVals := by
        simp only [view, hcfgs.1, hcfgs.2.1]
      rw [hview]
      by_cases e : j = i
      · simp only [e, if_true, Option.some.injEq] at hj
        subst hj
        exact h.cons i t ht (by rw [← e]; exact hr) kv hm hn
      · simp only [e, if_false] at hj
        exact h.cons j tj hj hr kv hm hn

/-- what is planned for a transaction in the Change phase -/
def PlanOK (i : Nat) (t : Tx) (acts : List Act) : Prop :=
  ∀ a ∈ acts, a.isChangeAct = true ∧ (a.isCfg = false → a.txIndex = i) ∧
    (∀ j vals, a = .cCommit j vals → j = i ∧ vals = t.values)

theorem afterSend_cases (s : Sys) (c : Cfg) (values : Values) (cls : AnsClass) (i : Nat)
    (okActs : List Act) (failActs : Fail → List Act) :
    (afterSend s c values cls i okActs failActs).acts = [] ∨
    (afterSend s c values cls i okActs failActs).acts = okActs ∨
    ∃ f, (afterSend s c values cls i okActs failActs).acts = failActs f := by
  unfold afterSend
  split
  · left; rfl
  · split
    · right; left; rfl
    · left; rfl
    · left; rfl
    · right; right; exact ⟨_, rfl⟩

theorem commitChange_planOK {s : Sys} {i : Nat} {t : Tx} {v : View} {verdict : Verdict} {p : Plan}
    (h : commitChange s i t v verdict = .plan p) : PlanOK i t p.acts := by
  unfold commitChange at h
  simp only at h
  repeat' (split at h)
  all_goals (first | (simp only [Outcome.plan.injEq, reduceCtorEq] at h; subst h) | (exact absurd h (by simp)))
  all_goals (intro a ha; simp only [List.mem_cons, List.mem_nil_iff, or_false, List.not_mem_nil] at ha)
  all_goals (rcases ha with rfl | rfl <;> simp [Act.isChangeAct, Act.isCfg, Act.txIndex])

theorem applyChange_planOK {s : Sys} {i : Nat} {t : Tx} {v : View} {ans : DevAns} {p : Plan}
    (h : applyChange s i t v ans = .plan p) : PlanOK i t p.acts := by
  unfold applyChange at h
  simp only at h
  repeat' (split at h)
  all_goals (first | (simp only [Outcome.plan.injEq, reduceCtorEq] at h; subst h) | (exact absurd h (by simp)))
  all_goals (intro a ha)
  all_goals
    first
    | (simp only [List.mem_cons, List.mem_nil_iff, or_false, List.not_mem_nil] at ha
       first
       | (rcases ha with rfl | rfl <;> simp [Act.isChangeAct, Act.isCfg, Act.txIndex])
       | (subst ha; simp [Act.isChangeAct, Act.isCfg, Act.txIndex]))
    | skip
  all_goals
    rcases afterSend_cases s v.c (addDeleteChildren i t.values v.cVals) (classify ans) i
        [.aApply i t.cord (addDeleteChildren i t.values v.cVals), .tApplyDone i]
        (fun f => [.tApplyFailed i f, .aFailed i t.cord]) with h0 | h0 | ⟨f, h0⟩ <;>
      rw [h0] at ha <;> simp only [List.mem_cons, List.mem_nil_iff, or_false, List.not_mem_nil] at ha
    · rcases ha with rfl | rfl <;> simp [Act.isChangeAct, Act.isCfg, Act.txIndex]
    · rcases ha with rfl | rfl <;> simp [Act.isChangeAct, Act.isCfg, Act.txIndex]

end OnosVerif.V3

namespace OnosVerif.V3


theorem runActs_fst_cases (s : Sys) (i : Nat) (last : Option Str) (a : Act) (rest : List Act) (inj : List Inj) :
    ∃ s', ((runActs s i last (a :: rest) inj).1 = s' ∨
           (runActs s i last (a :: rest) inj).1 = (runActs s' i last rest inj.tail).1) ∧
      (s' = applyAct s a last ∨ s' = s ∨ s' = sideWrite (touchCfg s) (actValues (view s) a).2 last ∨
       s' = touchTx s i ∨ s' = sideWrite s (actValues (view s) a).2 last ∨
       (inj.headD .ok = .race ∧ s' = (nbRollback s i).1)) := by
  rw [runActs]
  cases hj : inj.headD Inj.ok <;> simp only
  all_goals repeat' split
  all_goals
    first
    | (refine ⟨_, Or.inr rfl, ?_⟩; simp; done)
    | (refine ⟨_, Or.inl rfl, ?_⟩; simp; done)
    | skip

theorem getTx_congr {s s' : Sys} (h : s'.txs = s.txs) (j : Nat) : getTx s' j = getTx s j := by
  unfold getTx; rw [h]

theorem applyAct_values (s : Sys) (a : Act) (last : Option Str) (j : Nat) :
    (getTx (applyAct s a last) j).map (·.values) = (getTx s j).map (·.values) := by
  unfold OnosVerif.V3.applyAct
  split
  · simp only
    split
    · rfl
    · rw [getTx_congr (s := s) (by rw [(addEvent_fields _ a).1])]
  · cases ht : getTx s a.txIndex with
    | none => rfl
    | some t =>
      simp only
      rw [getTx_congr (addEvent_fields _ a).1, getTx_setTx ht]
      by_cases e : j = a.txIndex
      · simp only [e, if_true, ht, Option.map_some, (actTx_values t a).1]
      · simp only [e, if_false]

theorem touchTx_values (s : Sys) (i j : Nat) :
    (getTx (touchTx s i) j).map (·.values) = (getTx s j).map (·.values) := by
  unfold OnosVerif.V3.touchTx
  cases ht : getTx s i with
  | none => rfl
  | some t =>
    simp only
    rw [getTx_setTx ht]
    by_cases e : j = i
    · simp only [e, if_true, ht, Option.map_some]
    · simp only [e, if_false]

theorem sideWrite_txs (s : Sys) (v : Values) (last : Option Str) : (sideWrite s v last).txs = s.txs := by
  unfold OnosVerif.V3.sideWrite; split <;> rfl

def noRace (inj : List Inj) : Bool := inj.all (· != .race)

theorem VC.runActs {i : Nat} {vals : Values} {last : Option Str} :
    ∀ (acts : List Act) (inj : List Inj) (s : Sys), VC s →
      (getTx s i).map (·.values) = some vals →
      (∀ a ∈ acts, a.isChangeAct = true ∧ (a.isCfg = false → a.txIndex = i) ∧
        (∀ j v, a = .cCommit j v → j = i ∧ v = vals)) →
      noRace inj = true →
      VC (runActs s i last acts inj).1 := by
  intro acts
  induction acts with
  | nil => intro inj s h _ _ _; simpa [OnosVerif.V3.runActs] using h
  | cons a rest ih =>
    intro inj s h hv hacts hnr
    obtain ⟨s', hres, hs'⟩ := runActs_fst_cases s i last a rest inj
    obtain ⟨t, ht, htv⟩ : ∃ t, getTx s i = some t ∧ t.values = vals := by
      cases hg : getTx s i with
      | none => simp [hg] at hv
      | some t => exact ⟨t, rfl, by simpa [hg] using hv⟩
    obtain ⟨hca, hia, hcm⟩ := hacts a (by simp)
    have hnr' : noRace inj.tail = true := by
      cases inj with
      | nil => rfl
      | cons x xs => simp only [noRace, List.all_cons, Bool.and_eq_true] at hnr; exact hnr.2
    have hhead : inj.headD .ok ≠ .race := by
      cases inj with
      | nil => simp
      | cons x xs =>
        simp only [noRace, List.all_cons, Bool.and_eq_true] at hnr
        simpa using hnr.1
    have key : VC s' ∧ (getTx s' i).map (·.values) = some vals := by
      rcases hs' with rfl | rfl | rfl | rfl | rfl | ⟨hr, _⟩
      · exact ⟨VC.applyAct h hca ht hia (fun j v e => by rw [htv]; exact hcm j v e), by rw [applyAct_values]; exact hv⟩
      · exact ⟨h, hv⟩
      · exact ⟨VC.sideWrite (VC.touchCfg h) _ _, by rw [getTx_congr (s := s) (by rw [sideWrite_txs]; rfl)]; exact hv⟩
      · exact ⟨VC.touchTx h i, by rw [touchTx_values]; exact hv⟩
      · exact ⟨VC.sideWrite h _ _, by rw [getTx_congr (sideWrite_txs _ _ _)]; exact hv⟩
      · exact absurd hr hhead
    rcases hres with e | e
    · rw [e]; exact key.1
    · rw [e]; exact ih inj.tail s' key.1 key.2 (fun b hb => hacts b (by simp [hb])) hnr'

end OnosVerif.V3

namespace OnosVerif.V3

theorem VC.envCfgWrite {s : Sys} (h : VC s) (c : Cfg) (inj : List Inj) (last : Option Str)
    (hc : c.cRevision = s.cfg.cRevision) : VC (envCfgWrite s c inj last).1 := by
  unfold OnosVerif.V3.envCfgWrite
  dsimp only
  split
  · dsimp only
    split
    · exact h
    · exact VC.absorb h rfl rfl hc (Or.inl rfl)
  · dsimp only
    split
    · exact h
    · exact VC.absorb h rfl rfl hc (Or.inl rfl)
  · exact h
  · exact VC.sideWrite (VC.touchCfg h) _ _
  · exact VC.sideWrite h _ _

theorem VC.dev {s : Sys} (h : VC s) (d : List (Str × Str)) : VC { s with dev := d } :=
  VC.absorb h rfl rfl rfl (Or.inr rfl)

theorem VC.stepCfg {s : Sys} (h : VC s) (ans : Str) (inj : List Inj) (last : Option Str) (order : List Nat) :
    VC (stepCfg s ans inj last order).1 := by
  unfold OnosVerif.V3.stepCfg
  dsimp only
  repeat' split
  all_goals first | exact h | (dsimp only; exact VC.envCfgWrite h _ _ _ rfl) | (dsimp only; exact VC.envCfgWrite (VC.dev h _) _ _ _ rfl)

theorem VC.stepMast {s : Sys} (h : VC s) (pick : Option Str) (inj : List Inj) (last : Option Str) :
    VC (stepMast s pick inj last).1 := by
  unfold OnosVerif.V3.stepMast
  dsimp only
  repeat' split
  all_goals first | exact h | (dsimp only; exact VC.envCfgWrite h _ _ _ rfl)

theorem VC.stepEnv {s : Sys} (h : VC s) (e : EnvOp) : VC (stepEnv s e) := by
  cases e <;> simp only [OnosVerif.V3.stepEnv] <;> (try split) <;>
    first | exact h | exact VC.absorb h rfl rfl rfl (Or.inr rfl)

theorem VC.devSet {s : Sys} (h : VC s) (v : Values) (e : Nat) (n : Str) : VC (devSet s v e n).1 := by
  obtain ⟨d, hd⟩ := devSet_shape s v e n
  rw [hd]; exact VC.dev h d

theorem VC.nbAppend {s : Sys} (h : VC s) (vals : Values) (hn : (vKeys vals).Nodup) : VC (nbAppend s vals) := by
  have hget : ∀ j t, getTx (OnosVerif.V3.nbAppend s vals) j = some t →
      getTx s j = some t ∨ (j = s.txs.length + 1 ∧ t = { values := vals, ver := 1 }) := by
    intro j t hj
    unfold getTx at hj ⊢
    simp only [OnosVerif.V3.nbAppend] at hj
    split at hj
    · simp at hj
    · rename_i hj0
      simp only [hj0, if_false]
      by_cases hlt : j - 1 < s.txs.length
      · left; rw [List.getElem?_append_left hlt] at hj; exact hj
      · right
        rw [List.getElem?_append_right (by omega)] at hj
        have : j - 1 - s.txs.length = 0 := by
          cases hk : j - 1 - s.txs.length with
          | zero => rfl
          | succ k => rw [hk] at hj; simp at hj
        rw [this] at hj
        simp only [List.getElem?_cons_zero, Option.some.injEq] at hj
        exact ⟨by omega, hj.symm⟩
  refine ⟨?_, ?_, ?_⟩
  · intro j t hj
    rcases hget j t hj with h1 | ⟨_, rfl⟩
    · exact h.wf j t h1
    · exact ⟨hn, rfl⟩
  · simp only [OnosVerif.V3.nbAppend, List.length_append, List.length_cons, List.length_nil]
    have := h.rev_le; omega
  · intro j t hj hr kv hm hnm
    rcases hget j t hj with h1 | ⟨e, _⟩
    · exact h.cons j t h1 hr kv hm hnm
    · have := h.rev_le
      have hr' : s.cfg.cRevision = j := hr
      omega

end OnosVerif.V3

namespace OnosVerif.V3

theorem planTx_planOK {s : Sys} (h : VC s) {i : Nat} {verdict : Verdict} {ans : DevAns} {p : Plan}
    (hp : planTx s i verdict ans = .plan p) : ∃ t, getTx s i = some t ∧ PlanOK i t p.acts := by
  unfold planTx at hp
  cases hg : getTx s i with
  | none => rw [hg] at hp; cases hp
  | some t =>
    rw [hg] at hp
    simp only [(h.wf i t hg).2] at hp
    refine ⟨t, rfl, ?_⟩
    cases hc : commitChange s i t (view s) verdict with
    | fall => rw [hc] at hp; exact applyChange_planOK hp
    | panic e => rw [hc] at hp; cases hp
    | plan p' =>
      rw [hc] at hp
      simp only [Outcome.orElse, Outcome.plan.injEq] at hp
      subst hp
      exact commitChange_planOK hc

theorem VC.stepTx {s : Sys} (h : VC s) (i : Nat) (verdict : Verdict) (ans : Str) (inj : List Inj)
    (last : Option Str) (hnr : noRace inj = true) : VC (stepTx s i verdict ans inj last).1 := by
  unfold OnosVerif.V3.stepTx
  simp only
  cases hp : planTx s i verdict (effAns (effName s ans)) with
  | fall => exact h
  | panic e => exact h
  | plan p =>
    simp only
    obtain ⟨t, hg, hok⟩ := planTx_planOK h hp
    have key : ∀ d, VC (OnosVerif.V3.runActs { s with dev := d } i last p.acts inj).1 := by
      intro d
      refine VC.runActs p.acts inj _ (VC.dev h d) (vals := t.values) ?_ ?_ hnr
      · have : getTx { s with dev := d } i = getTx s i := rfl
        rw [this, hg]; rfl
      · exact hok
    cases hsend : p.send with
    | none => simp only; exact key s.dev
    | some values =>
      simp only
      obtain ⟨d, hd⟩ := devSet_shape s values s.cfg.aTerm ans
      rw [hd]
      exact key d

/-- schedules of the committed-consistency theorem: no rollback request (neither a northbound one
    nor a racing one), and every appended change names each path once -/
def changeOnly : Action → Bool
  | .append vals => decide (vKeys vals).Nodup
  | .rollback _ => false
  | .tx _ _ _ inj _ => noRace inj
  | _ => true

theorem VC.step {s : Sys} (h : VC s) (a : Action) (ha : changeOnly a = true) : VC (step s a) := by
  cases a with
  | append vals => exact VC.nbAppend h vals (by simpa [changeOnly] using ha)
  | rollback i => simp [changeOnly] at ha
  | tx i verdict ans inj last => exact VC.stepTx h i verdict ans inj last (by simpa [changeOnly] using ha)
  | cfg ans inj last order => exact VC.stepCfg h ans inj last order
  | mast pick inj last => exact VC.stepMast h pick inj last
  | env e => exact VC.stepEnv h e

theorem VC.init (seed : Nat) : VC (initSys seed) := by
  refine ⟨?_, ?_, ?_⟩
  · intro i t hi; simp [getTx, initSys] at hi
  · simp [initSys]
  · intro i t hi; simp [getTx, initSys] at hi

theorem VC.run {s : Sys} (h : VC s) (acts : List Action) (ha : acts.all changeOnly = true) : VC (run s acts) := by
  induction acts generalizing s with
  | nil => exact h
  | cons a rest ih =>
    simp only [List.all_cons, Bool.and_eq_true] at ha
    simp only [OnosVerif.V3.run, List.foldl_cons]
    exact ih (VC.step h a ha.1) ha.2

end OnosVerif.V3

/-! ## The committed side map is never written -/
namespace OnosVerif.V3

theorem setTx_cside (s : Sys) (i : Nat) (t : Tx) : (setTx s i t).cside = s.cside := by
  unfold setTx; split <;> rfl

theorem applyAct_cside (s : Sys) (a : Act) (last : Option Str) : (applyAct s a last).cside = s.cside := by
  unfold applyAct
  split
  · simp only
    split
    · rfl
    · rw [(addEvent_fields _ a).2.2.1]
  · split
    · rw [(addEvent_fields _ a).2.2.1, setTx_cside]
    · rfl

theorem sideWrite_cside (s : Sys) (v : Values) (last : Option Str) : (sideWrite s v last).cside = s.cside := by
  unfold sideWrite; split <;> rfl

theorem touchTx_cside (s : Sys) (i : Nat) : (touchTx s i).cside = s.cside := by
  unfold touchTx; split
  · exact setTx_cside _ _ _
  · rfl

theorem nbRollback_cside (s : Sys) (i : Nat) : (nbRollback s i).1.cside = s.cside := by
  unfold nbRollback
  split
  · split
    · exact setTx_cside _ _ _
    · rfl
  · rfl

theorem runActs_cside (i : Nat) (last : Option Str) :
    ∀ (acts : List Act) (inj : List Inj) (s : Sys), (runActs s i last acts inj).1.cside = s.cside := by
  intro acts
  induction acts with
  | nil => intro inj s; simp [runActs]
  | cons a rest ih =>
    intro inj s
    obtain ⟨s', hres, hs'⟩ := runActs_fst_cases s i last a rest inj
    have key : s'.cside = s.cside := by
      rcases hs' with rfl | rfl | rfl | rfl | rfl | ⟨_, rfl⟩
      · exact applyAct_cside _ _ _
      · rfl
      · rw [sideWrite_cside]; rfl
      · exact touchTx_cside _ _
      · exact sideWrite_cside _ _ _
      · exact nbRollback_cside _ _
    rcases hres with e | e
    · rw [e, key]
    · rw [e, ih, key]

theorem stepTx_cside (s : Sys) (i : Nat) (verdict : Verdict) (ans : Str) (inj : List Inj) (last : Option Str) :
    (stepTx s i verdict ans inj last).1.cside = s.cside := by
  unfold stepTx
  simp only
  cases hp : planTx s i verdict (effAns (effName s ans)) with
  | fall => rfl
  | panic e => rfl
  | plan p =>
    simp only
    cases hsend : p.send with
    | none => simp only; rw [runActs_cside]
    | some values =>
      simp only
      obtain ⟨d, hd⟩ := devSet_shape s values s.cfg.aTerm ans
      rw [hd, runActs_cside]

theorem envCfgWrite_cside (s : Sys) (c : Cfg) (inj : List Inj) (last : Option Str) :
    (envCfgWrite s c inj last).1.cside = s.cside := by
  unfold envCfgWrite
  dsimp only
  split
  · dsimp only; split <;> rfl
  · dsimp only; split <;> rfl
  · rfl
  · dsimp only; rw [sideWrite_cside]; rfl
  · dsimp only; rw [sideWrite_cside]

theorem stepCfg_cside (s : Sys) (ans : Str) (inj : List Inj) (last : Option Str) (order : List Nat) :
    (stepCfg s ans inj last order).1.cside = s.cside := by
  unfold stepCfg
  dsimp only
  repeat' split
  all_goals first | rfl | (dsimp only; exact envCfgWrite_cside _ _ _ _) | (dsimp only; exact (envCfgWrite_cside _ _ _ _).trans rfl)

theorem stepMast_cside (s : Sys) (pick : Option Str) (inj : List Inj) (last : Option Str) :
    (stepMast s pick inj last).1.cside = s.cside := by
  unfold stepMast
  dsimp only
  repeat' split
  all_goals first | rfl | (dsimp only; exact envCfgWrite_cside _ _ _ _)

theorem stepEnv_cside (s : Sys) (e : EnvOp) : (stepEnv s e).cside = s.cside := by
  cases e <;> simp only [stepEnv] <;> (try split) <;> rfl

theorem step_cside (s : Sys) (a : Action) : (step s a).cside = s.cside := by
  cases a with
  | append vals => rfl
  | rollback i => exact nbRollback_cside s i
  | tx i verdict ans inj last => exact stepTx_cside s i verdict ans inj last
  | cfg ans inj last order => exact stepCfg_cside s ans inj last order
  | mast pick inj last => exact stepMast_cside s pick inj last
  | env e => exact stepEnv_cside s e

/-- nothing in the v3 controllers writes the committed side map (`Create` is its only writer) -/
theorem run_cside (s : Sys) (acts : List Action) : (run s acts).cside = s.cside := by
  induction acts generalizing s with
  | nil => rfl
  | cons a rest ih =>
    simp only [run, List.foldl_cons]
    exact (ih (step s a)).trans (step_cside s a)

end OnosVerif.V3
