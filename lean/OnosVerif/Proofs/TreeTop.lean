/- From the decidable preconditions on the path/values that survive pruning to the build theorem
   for `buildTree` (the text-level twin). -/
import OnosVerif.Proofs.TreeSorted
import OnosVerif.Proofs.TreePrune

namespace OnosVerif.Tree
open OnosVerif.Path (Str GPath Elem strPathElem strLt)

variable (rfc : Bool) (ord : List (Str × Str) → List (Str × Str))

theorem allPairs_pairwise {α : Type} (r : α → α → Bool) : ∀ (l : List α), allPairs r l = true →
    l.Pairwise (fun x y => r x y = true)
  | [], _ => List.Pairwise.nil
  | x :: l, h => by
    simp only [allPairs, Bool.and_eq_true, List.all_eq_true] at h
    exact List.Pairwise.cons h.1 (allPairs_pairwise r l h.2)

theorem consistent_spec (S : List Entry) (h : consistent rfc S = true) :
    (∀ x ∈ S, pathOK x.1 = true ∧ keyChainOK rfc x.2 x.1 = true) ∧
      S.Pairwise (fun x y => compat x.1 y.1 = true) := by
  simp only [consistent, Bool.and_eq_true, List.all_eq_true] at h
  exact ⟨h.1, allPairs_pairwise _ S h.2⟩

theorem schemaOK_of_uniform (S : List Entry) (h : uniformKeys (S.map (·.1)) = true) :
    SchemaOK (schemaOf (S.map (·.1))) [] S := by
  intro x hx y hy
  simp only [uniformKeys, List.all_eq_true, beq_iff_eq] at h
  apply h y
  simp only [schemaOf, List.mem_flatMap, List.mem_map]
  exact ⟨x.1, ⟨x, hx, rfl⟩, hy⟩

theorem strPathElem_length : ∀ (p : GPath), p.length ≤ (strPathElem p).length
  | [] => Nat.zero_le _
  | e :: p => by
    have ih := strPathElem_length p
    simp only [strPathElem, List.flatMap_cons, List.length_append, List.length_cons, Path.strElem] at ih ⊢
    omega

/-- the loop of `BuildTree` on the texts of well-formed paths is the loop on their elements. -/
theorem addAll_eq_addAllE : ∀ (S : List Entry) (root : Json), (∀ x ∈ S, pathOK x.1 = true) →
    addAll rfc ord (S.map Entry.toPV) root = addAllE rfc ord S root
  | [], _, _ => rfl
  | (p, v) :: S, root, h => by
    simp only [List.map_cons, addAll, Entry.toPV, addAllE]
    rw [addPath_eq_addElems rfc ord p _ v root (h (p, v) List.mem_cons_self) (strPathElem_length p)]
    cases addElems rfc ord p v root with
    | error e => rfl
    | ok r => exact addAll_eq_addAllE S r (fun x hx => h x (List.mem_cons_of_mem _ hx))

theorem exists_depth : ∀ (S : List Entry), ∃ d, ∀ x ∈ S, x.1.length ≤ d
  | [] => ⟨0, by simp⟩
  | x :: S => by
    obtain ⟨d, hd⟩ := exists_depth S
    refine ⟨max d x.1.length, ?_⟩
    intro y hy
    rcases List.mem_cons.1 hy with h | h
    · subst h; exact Nat.le_max_right _ _
    · exact Nat.le_trans (hd y h) (Nat.le_max_left _ _)

theorem sortedText_of_prune (pvs : List PV) (S : List Entry) (hd : pathsDistinct pvs = true)
    (hp : prunePathValues pvs false = S.map Entry.toPV) : SortedText S := by
  have h1 : SortedLe (prunePathValues pvs false) := by
    rw [prune_textual pvs false hd (by simp)]
    exact List.Pairwise.sublist List.filter_sublist (sortPVs_sorted pvs)
  rw [hp] at h1
  simp only [SortedLe, List.pairwise_map, Entry.toPV] at h1
  exact h1

/-- the build theorem for the text-level twin, for any schema that knows the list nodes of `S`. -/
theorem flatten_build_sch (hord : IsOrder ord) (sch : Schema) (pvs : List PV) (S : List Entry)
    (hd : pathsDistinct pvs = true) (hp : prunePathValues pvs false = S.map Entry.toPV)
    (hc : consistent rfc S = true) (hsch : SchemaOK sch [] S) :
    ∃ m, buildTree rfc ord pvs = .ok (.obj m) ∧
      (∀ y, y ∈ flattenDoc sch (.obj m) ↔ Expected rfc S y) ∧
      ((flattenDoc sch (.obj m)).map (·.1)).Nodup := by
  obtain ⟨heach, hpair⟩ := consistent_spec rfc S hc
  have hok : ∀ x ∈ S, pathOK x.1 = true := fun x hx => (heach x hx).1
  have hg : GoodAt rfc [] S :=
    ⟨rfl, fun x hx => ⟨(heach x hx).1, (heach x hx).2, by
        cases hx1 : x.1 with
        | nil => rfl
        | cons e r => simp [headOK, lookupKey]⟩,
      hpair, interval_of_sorted S hok (sortedText_of_prune pvs S hd hp)⟩
  obtain ⟨d, hdepth⟩ := exists_depth S
  obtain ⟨m, hadd, _, hflat, hnodup⟩ := build_main rfc ord hord sch d S [] [] [] hdepth hg hsch
  refine ⟨m, ?_, ?_, hnodup⟩
  · unfold buildTree
    rw [hp, addAll_eq_addAllE rfc ord S _ hok]
    exact hadd
  · rintro ⟨q, j⟩
    simp only [flattenDoc]
    rw [hflat q j]
    constructor
    · rintro ⟨q', hq, hexp | ⟨k, t, hkt, _⟩⟩
      · simp only [List.nil_append] at hq; subst hq; exact hexp
      · simp at hkt
    · intro hexp
      exact ⟨q, by simp, Or.inl hexp⟩

/-- the build theorem for the text-level twin, with the schema read off the paths. -/
theorem flatten_build (hord : IsOrder ord) (pvs : List PV) (S : List Entry)
    (hd : pathsDistinct pvs = true) (hp : prunePathValues pvs false = S.map Entry.toPV)
    (hc : consistent rfc S = true) (hu : uniformKeys (S.map (·.1)) = true) :
    ∃ m, buildTree rfc ord pvs = .ok (.obj m) ∧
      (∀ y, y ∈ flattenDoc (schemaOf (S.map (·.1))) (.obj m) ↔ Expected rfc S y) ∧
      ((flattenDoc (schemaOf (S.map (·.1))) (.obj m)).map (·.1)).Nodup :=
  flatten_build_sch rfc ord hord _ pvs S hd hp hc (schemaOK_of_uniform S hu)

/-! ### no tombstones, any order -/

/-- insertion by path text (the entry-level image of `insertPV`). -/
def insertE (x : Entry) : List Entry → List Entry
  | [] => [x]
  | y :: r => if strLt (strPathElem y.1) (strPathElem x.1) then y :: insertE x r else x :: y :: r

def sortE (l : List Entry) : List Entry := l.foldr insertE []

theorem insertE_map (x : Entry) : ∀ (l : List Entry),
    (insertE x l).map Entry.toPV = insertPV x.toPV (l.map Entry.toPV)
  | [] => rfl
  | y :: r => by
    simp only [insertE, List.map_cons, insertPV, Entry.toPV]
    split
    · simp only [List.map_cons, Entry.toPV, List.cons.injEq, true_and]
      exact insertE_map x r
    · rfl

theorem sortE_map : ∀ (l : List Entry), (sortE l).map Entry.toPV = sortPVs (l.map Entry.toPV)
  | [] => rfl
  | x :: l => by
    have ih := sortE_map l
    simp only [sortE, sortPVs, List.foldr_cons, List.map_cons] at ih ⊢
    rw [insertE_map, ih]

theorem mem_insertE (x y : Entry) : ∀ (l : List Entry), y ∈ insertE x l ↔ y = x ∨ y ∈ l
  | [] => by simp [insertE]
  | z :: r => by
    simp only [insertE]
    split
    · simp only [List.mem_cons, mem_insertE x y r]
      constructor
      · rintro (h | h | h) <;> simp [h]
      · rintro (h | h | h) <;> simp [h]
    · simp

theorem insertE_perm (x : Entry) : ∀ (l : List Entry), (insertE x l).Perm (x :: l)
  | [] => List.Perm.refl _
  | y :: r => by
    simp only [insertE]
    split
    · exact ((insertE_perm x r).cons y).trans (List.Perm.swap x y r)
    · exact List.Perm.refl _

theorem sortE_perm : ∀ (l : List Entry), (sortE l).Perm l
  | [] => List.Perm.refl _
  | x :: l => by
    have ih := sortE_perm l
    simp only [sortE, List.foldr_cons] at ih ⊢
    exact (insertE_perm x _).trans (ih.cons x)

theorem prune_live (pvs : List PV) (hd : pathsDistinct pvs = true) (hl : ∀ p ∈ pvs, p.deleted = false) :
    prunePathValues pvs false = sortPVs pvs := by
  rw [prune_textual pvs false hd (by simp)]
  unfold pruneSpec
  apply List.filter_eq_self.2
  intro p hp
  have hpl := hl p ((mem_sortPVs p pvs).1 hp)
  have hcov : coveredIn hasPrefix pvs p = false := by
    simp only [coveredIn, List.any_eq_false]
    intro d hdm
    simp [hl d hdm]
  simp [hcov, isTombstone, hpl]

theorem compat_symm : ∀ (p q : GPath), compat p q = compat q p
  | [], q => by rw [compat_nil_left, compat_nil_right]
  | _ :: _, [] => by simp [compat]
  | a :: p, b :: q => by
    simp only [compat]
    by_cases hab : a = b
    · subst hab; simp only [if_true]; exact compat_symm p q
    · have hba : ¬ b = a := fun h => hab h.symm
      simp only [hab, hba, if_false]
      rw [Bool.eq_iff_iff]
      simp only [Bool.or_eq_true, bne_iff_ne, ne_eq, beq_iff_eq]
      constructor
      · rintro (h | h)
        · exact Or.inl (fun e => h e.symm)
        · exact Or.inr h.symm
      · rintro (h | h)
        · exact Or.inl (fun e => h e.symm)
        · exact Or.inr h.symm

theorem compat_irrefl : ∀ (p : GPath), compat p p = false
  | [] => rfl
  | a :: p => by simp [compat, compat_irrefl p]

theorem allPairs_of_pairwise {α : Type} (r : α → α → Bool) : ∀ (l : List α),
    l.Pairwise (fun x y => r x y = true) → allPairs r l = true
  | [], _ => rfl
  | x :: l, h => by
    rw [List.pairwise_cons] at h
    simp only [allPairs, Bool.and_eq_true, List.all_eq_true]
    exact ⟨h.1, allPairs_of_pairwise r l h.2⟩

theorem consistent_perm (S S' : List Entry) (hp : S'.Perm S) (h : consistent rfc S = true) :
    consistent rfc S' = true := by
  obtain ⟨heach, hpair⟩ := consistent_spec rfc S h
  simp only [consistent, Bool.and_eq_true, List.all_eq_true]
  refine ⟨fun x hx => ?_, allPairs_of_pairwise _ S' ?_⟩
  · have := heach x (hp.mem_iff.1 hx)
    simp [this.1, this.2]
  · exact hp.symm.pairwise hpair (fun {x y} hxy => by rw [compat_symm]; exact hxy)

theorem strPathElem_inj (p q : GPath) (hp : pathOK p = true) (hq : pathOK q = true)
    (h : strPathElem p = strPathElem q) : p = q := by
  have h1 : Path.parsePath (strPathElem p) = .ok p := by
    unfold Path.parsePath
    rw [Path.splitPath_strPathElem p (pathOK_wf p hp)]
    exact Path.parseElements_bodies p (pathOK_wf p hp)
  have h2 : Path.parsePath (strPathElem q) = .ok q := by
    unfold Path.parsePath
    rw [Path.splitPath_strPathElem q (pathOK_wf q hq)]
    exact Path.parseElements_bodies q (pathOK_wf q hq)
  rw [h] at h1
  rw [h1] at h2
  exact Except.ok.inj h2

theorem pathsDistinct_of_consistent (S : List Entry) (h : consistent rfc S = true) :
    pathsDistinct (S.map Entry.toPV) = true := by
  obtain ⟨heach, hpair⟩ := consistent_spec rfc S h
  clear h
  induction S with
  | nil => rfl
  | cons x S ih =>
    rw [List.pairwise_cons] at hpair
    simp only [List.map_cons, pathsDistinct, Bool.and_eq_true, List.all_eq_true, List.mem_map,
      bne_iff_ne, ne_eq]
    refine ⟨?_, ih (fun y hy => heach y (List.mem_cons_of_mem _ hy)) hpair.2⟩
    rintro q ⟨y, hy, rfl⟩ heq
    simp only [Entry.toPV] at heq
    have := strPathElem_inj y.1 x.1 (heach y (List.mem_cons_of_mem _ hy)).1 (heach x List.mem_cons_self).1 heq
    have hc := hpair.1 y hy
    rw [this, compat_irrefl] at hc
    exact absurd hc (by decide)

/-- the build theorem for a consistent set of live path/values, given in any order. -/
theorem flatten_build_live (hord : IsOrder ord) (S : List Entry)
    (hc : consistent rfc S = true) (hu : uniformKeys (S.map (·.1)) = true) :
    ∃ m, buildTree rfc ord (S.map Entry.toPV) = .ok (.obj m) ∧
      (∀ y, y ∈ flattenDoc (schemaOf (S.map (·.1))) (.obj m) ↔ Expected rfc S y) ∧
      ((flattenDoc (schemaOf (S.map (·.1))) (.obj m)).map (·.1)).Nodup := by
  have hperm := sortE_perm S
  have hd := pathsDistinct_of_consistent rfc S hc
  have hp : prunePathValues (S.map Entry.toPV) false = (sortE S).map Entry.toPV := by
    rw [prune_live _ hd (by
      intro p hp
      obtain ⟨x, _, rfl⟩ := List.mem_map.1 hp
      rfl), sortE_map]
  have hsch : SchemaOK (schemaOf (S.map (·.1))) [] (sortE S) := by
    intro x hx
    exact schemaOK_of_uniform S hu x (hperm.mem_iff.1 hx)
  obtain ⟨m, h1, h2, h3⟩ := flatten_build_sch rfc ord hord _ (S.map Entry.toPV) (sortE S) hd hp
    (consistent_perm rfc S (sortE S) hperm hc) hsch
  refine ⟨m, h1, ?_, h3⟩
  intro y
  rw [h2 y]
  have hexp : ∀ z, z ∈ explicitLeaves rfc (sortE S) ↔ z ∈ explicitLeaves rfc S := fun z =>
    (hperm.filterMap _).mem_iff
  have himp : ∀ z, z ∈ impliedLeaves (sortE S) ↔ z ∈ impliedLeaves S := fun z =>
    (hperm.flatMap_right _).mem_iff
  have hpaths : y.1 ∈ (explicitLeaves rfc (sortE S)).map (·.1) ↔ y.1 ∈ (explicitLeaves rfc S).map (·.1) :=
    ((hperm.filterMap _).map _).mem_iff
  simp only [Expected]
  rw [hexp, himp, hpaths]

end OnosVerif.Tree
