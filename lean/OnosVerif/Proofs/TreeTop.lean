/- From the decidable preconditions on the path/values that survive pruning to the build theorem
   for `buildTree` (the text-level twin). -/
import OnosVerif.Proofs.TreeSorted
import OnosVerif.Proofs.TreePrune

namespace OnosVerif.Tree
open OnosVerif.Path (Str GPath Elem strPathElem strLt)

variable (rfc : Bool) (ord : List (Str × Str) → List (Str × Str))

theorem allPairs_pairwise {α : Type} (r : α → α → Bool) : ∀ (l : List α), allPairs r l = true →
    l.Pairwise (fun x y => r x y = true)
  | [], _ => List.Pairwise.nil
  | x :: l, h => by
    simp only [allPairs, Bool.and_eq_true, List.all_eq_true] at h
    exact List.Pairwise.cons h.1 (allPairs_pairwise r l h.2)

theorem consistent_spec (S : List Entry) (h : consistent rfc S = true) :
    (∀ x ∈ S, pathOK x.1 = true ∧ keyChainOK rfc x.2 x.1 = true) ∧
      S.Pairwise (fun x y => compat x.1 y.1 = true) := by
  simp only [consistent, Bool.and_eq_true, List.all_eq_true] at h
  exact ⟨h.1, allPairs_pairwise _ S h.2⟩

theorem schemaOK_of_uniform (S : List Entry) (h : uniformKeys (S.map (·.1)) = true) :
    SchemaOK (schemaOf (S.map (·.1))) [] S := by
  intro x hx y hy
  simp only [uniformKeys, List.all_eq_true, beq_iff_eq] at h
  apply h y
  simp only [schemaOf, List.mem_flatMap, List.mem_map]
  exact ⟨x.1, ⟨x, hx, rfl⟩, hy⟩

theorem strPathElem_length : ∀ (p : GPath), p.length ≤ (strPathElem p).length
  | [] => Nat.zero_le _
  | e :: p => by
    have ih := strPathElem_length p
    simp only [strPathElem, List.flatMap_cons, List.length_append, List.length_cons, Path.strElem] at ih ⊢
    omega

/-- the loop of `BuildTree` on the texts of well-formed paths is the loop on their elements. -/
theorem addAll_eq_addAllE : ∀ (S : List Entry) (root : Json), (∀ x ∈ S, pathOK x.1 = true) →
    addAll rfc ord (S.map Entry.toPV) root = addAllE rfc ord S root
  | [], _, _ => rfl
  | (p, v) :: S, root, h => by
    simp only [List.map_cons, addAll, Entry.toPV, addAllE]
    rw [addPath_eq_addElems rfc ord p _ v root (h (p, v) List.mem_cons_self) (strPathElem_length p)]
    cases addElems rfc ord p v root with
    | error e => rfl
    | ok r => exact addAll_eq_addAllE S r (fun x hx => h x (List.mem_cons_of_mem _ hx))

theorem exists_depth : ∀ (S : List Entry), ∃ d, ∀ x ∈ S, x.1.length ≤ d
  | [] => ⟨0, by simp⟩
  | x :: S => by
    obtain ⟨d, hd⟩ := exists_depth S
    refine ⟨max d x.1.length, ?_⟩
    intro y hy
    rcases List.mem_cons.1 hy with h | h
    · subst h; exact Nat.le_max_right _ _
    · exact Nat.le_trans (hd y h) (Nat.le_max_left _ _)

theorem sortedText_of_prune (pvs : List PV) (S : List Entry) (hd : pathsDistinct pvs = true)
    (hp : prunePathValues pvs false = S.map Entry.toPV) : SortedText S := by
  have h1 : SortedLe (prunePathValues pvs false) := by
    rw [prune_textual pvs false hd (by simp)]
    exact List.Pairwise.sublist List.filter_sublist (sortPVs_sorted pvs)
  rw [hp] at h1
  simp only [SortedLe, List.pairwise_map, Entry.toPV] at h1
  exact h1

/-- the build theorem for the text-level twin. -/
theorem flatten_build (hord : IsOrder ord) (pvs : List PV) (S : List Entry)
    (hd : pathsDistinct pvs = true) (hp : prunePathValues pvs false = S.map Entry.toPV)
    (hc : consistent rfc S = true) (hu : uniformKeys (S.map (·.1)) = true) :
    ∃ m, buildTree rfc ord pvs = .ok (.obj m) ∧
      (∀ y, y ∈ flattenDoc (schemaOf (S.map (·.1))) (.obj m) ↔ Expected rfc S y) ∧
      ((flattenDoc (schemaOf (S.map (·.1))) (.obj m)).map (·.1)).Nodup := by
  obtain ⟨heach, hpair⟩ := consistent_spec rfc S hc
  have hok : ∀ x ∈ S, pathOK x.1 = true := fun x hx => (heach x hx).1
  have hg : GoodAt rfc [] S :=
    ⟨rfl, fun x hx => ⟨(heach x hx).1, (heach x hx).2, by
        cases hx1 : x.1 with
        | nil => rfl
        | cons e r => simp [headOK, lookupKey]⟩,
      hpair, interval_of_sorted S hok (sortedText_of_prune pvs S hd hp)⟩
  obtain ⟨d, hdepth⟩ := exists_depth S
  obtain ⟨m, hadd, _, hflat, hnodup⟩ := build_main rfc ord hord (schemaOf (S.map (·.1))) d S [] [] [] hdepth hg
    (schemaOK_of_uniform S hu)
  refine ⟨m, ?_, ?_, hnodup⟩
  · unfold buildTree
    rw [hp, addAll_eq_addAllE rfc ord S _ hok]
    exact hadd
  · rintro ⟨q, j⟩
    simp only [flattenDoc]
    rw [hflat q j]
    constructor
    · rintro ⟨q', hq, hexp | ⟨k, t, hkt, _⟩⟩
      · simp only [List.nil_append] at hq; subst hq; exact hexp
      · simp at hkt
    · intro hexp
      exact ⟨q, by simp, Or.inl hexp⟩

end OnosVerif.Tree
