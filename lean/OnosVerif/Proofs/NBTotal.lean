/- Totality lemmas for the C12 theorems: which handler programs of the twin can end in a panic. -/
import OnosVerif.Proofs.NB
import OnosVerif.Proofs.NBRegex

namespace OnosVerif.NB
open OnosVerif.Path

/-- the program does not end in a Go panic -/
def NoPanic {α : Type} (r : Except Fail α) : Prop := ∀ s, r ≠ .error (.panic s)

theorem noPanic_ok {α : Type} (a : α) : NoPanic (Except.ok a : Except Fail α) := by
  intro s h; cases h

theorem noPanic_refused {α : Type} (c : Code) (k : Cause) : NoPanic (Except.error (.refused c k) : Except Fail α) := by
  intro s h; cases h

theorem noPanic_of_eq {α β : Type} {r : Except Fail α} (h : NoPanic r) {e : Fail} (he : r = .error e) :
    NoPanic (Except.error e : Except Fail β) := by
  intro s hs; cases hs; exact h s he

/-! ### ExtractIndexNames never slices out of bounds -/

/-- the shape of every match of `(\[.*?]).*?` -/
def Bracketed (m : Str) : Prop := ∃ b, m = '[' :: (b ++ [']'])

theorem idxScan_bracketed (s : Str) : ∀ (st : Option Str), (∀ acc, st = some acc → ∃ b, acc = '[' :: b) →
    ∀ m ∈ idxScan st s, Bracketed m := by
  induction s with
  | nil => intro st _ m hm; cases st <;> simp [idxScan] at hm
  | cons c cs ih =>
    intro st hst m hm
    cases st with
    | none =>
      simp only [idxScan] at hm
      split at hm
      · exact ih (some ['[']) (by intro acc h; cases h; exact ⟨[], rfl⟩) m hm
      · exact ih none (by intro acc h; cases h) m hm
    | some acc =>
      obtain ⟨b, hb⟩ := hst acc rfl
      simp only [idxScan] at hm
      split at hm
      · rcases List.mem_cons.mp hm with h1 | h1
        · exact ⟨b, by rw [h1, hb]; rfl⟩
        · exact ih none (by intro acc h; cases h) m h1
      · split at hm
        · exact ih none (by intro acc h; cases h) m hm
        · exact ih (some (acc ++ [c])) (by intro a h; cases h; exact ⟨b ++ [c], by rw [hb]; rfl⟩) m hm

theorem indexMatches_bracketed (path : Str) : ∀ m ∈ indexMatches path, Bracketed m :=
  idxScan_bracketed path none (by intro acc h; cases h)

theorem lastIndexOf_spec (c : Char) : ∀ (s : Str) (i : Nat) (last : Option Nat) (j : Nat),
    lastIndexOf c i s last = some j → last = some j ∨ ∃ k, j = i + k ∧ s[k]? = some c := by
  intro s
  induction s with
  | nil => intro i last j h; simp only [lastIndexOf] at h; exact Or.inl h
  | cons a r ih =>
    intro i last j h
    simp only [lastIndexOf] at h
    rcases ih (i + 1) _ j h with h1 | ⟨k, hk, hc⟩
    · split at h1
      · rename_i hac
        simp only [Option.some.injEq] at h1
        exact Or.inr ⟨0, by omega, by simp [hac]⟩
      · exact Or.inl h1
    · exact Or.inr ⟨k + 1, by omega, by simpa using hc⟩

theorem lastIndexOf_isSome_of_head (c : Char) (r : Str) : ∃ j, lastIndexOf c 0 (c :: r) none = some j := by
  have : ∀ (s : Str) (i : Nat) (l : Nat), ∃ j, lastIndexOf c i s (some l) = some j := by
    intro s
    induction s with
    | nil => intro i l; exact ⟨l, rfl⟩
    | cons a r ih =>
      intro i l
      simp only [lastIndexOf]
      split
      · exact ih (i + 1) i
      · exact ih (i + 1) l
  simp only [lastIndexOf, if_true]
  exact this r 1 0

theorem slice_ok (s : Str) (lo hi : Nat) (h1 : lo ≤ hi) (h2 : hi ≤ s.length) :
    slice s lo hi = .ok ((s.take hi).drop lo) := by
  simp [slice, h1, h2]

theorem bracketed_eq_bounds (m : Str) (hb : Bracketed m) (eq : Nat) (h : lastIndexChar '=' m = some eq) :
    1 ≤ eq ∧ eq + 1 ≤ m.length - 1 := by
  obtain ⟨b, rfl⟩ := hb
  unfold lastIndexChar at h
  rcases lastIndexOf_spec '=' _ 0 none eq h with h1 | ⟨k, hk, hc⟩
  · cases h1
  · simp only [Nat.zero_add] at hk
    subst hk
    have hlt : eq < ('[' :: (b ++ [']'])).length := by
      have := List.getElem?_eq_some_iff.mp hc
      exact this.1
    constructor
    · cases eq with
      | zero => simp at hc
      | succ n => omega
    · simp only [List.length_cons, List.length_append, List.length_nil] at hlt ⊢
      by_cases hlast : eq = b.length + 1
      · subst hlast
        have : ('[' :: (b ++ [']']))[b.length + 1]? = some ']' := by
          simp [List.getElem?_cons_succ, List.getElem?_append_right]
        rw [this] at hc
        simp at hc
      · omega

theorem extractIndexLoop_ok : ∀ (ms : List Str), (∀ m ∈ ms, Bracketed m) →
    ∃ ns vs, extractIndexLoop ms = .ok (ns, vs) ∧ ns.length = vs.length := by
  intro ms
  induction ms with
  | nil => intro _; exact ⟨[], [], rfl, rfl⟩
  | cons m r ih =>
    intro hb
    obtain ⟨ns, vs, hr, hl⟩ := ih (fun x hx => hb x (List.mem_cons_of_mem _ hx))
    cases he : lastIndexChar '=' m with
    | none =>
      simp only [extractIndexLoop, he]
      exact ⟨ns, vs, hr, hl⟩
    | some eq =>
      obtain ⟨h1, h2⟩ := bracketed_eq_bounds m (hb m List.mem_cons_self) eq he
      have hlen : m.length - 1 ≤ m.length := Nat.sub_le _ _
      simp only [extractIndexLoop, he, slice_ok m 1 eq h1 (by omega), slice_ok m (eq + 1) (m.length - 1) h2 hlen, hr]
      exact ⟨_ :: ns, _ :: vs, rfl, by simp [hl]⟩

/-- `ExtractIndexNames` (as repaired) is total, and returns as many values as names -/
theorem extractIndexNames_ok (path : Str) :
    ∃ ns vs, extractIndexNames path = .ok (ns, vs) ∧ ns.length = vs.length :=
  extractIndexLoop_ok _ (indexMatches_bracketed path)

theorem searchText_ok (path : Str) : ∃ s, searchText path = .ok s := by
  unfold searchText
  obtain ⟨ns, vs, h, _⟩ := extractIndexNames_ok path
  simp only [h]
  split
  · split <;> exact ⟨_, rfl⟩
  · exact ⟨_, rfl⟩

theorem findPathFromModel_noPanic (path : Str) (rw : List (Str × RWPath)) (exact : Bool) :
    NoPanic (findPathFromModel path rw exact) := by
  unfold findPathFromModel
  split
  · exact noPanic_ok _
  · split
    · exact noPanic_refused _ _
    · obtain ⟨s, hs⟩ := searchText_ok path
      rw [hs]
      simp only
      split
      · exact noPanic_ok _
      · exact noPanic_refused _ _

/-! ### CheckKeyValue -/

theorem indexValueAllowed_ok (hc : indexAllowedClass.isSome = true) (v : Str) : ∃ b, indexValueAllowed v = .ok b := by
  unfold indexValueAllowed
  cases h : indexAllowedClass with
  | none => rw [h] at hc; cases hc
  | some cls => exact ⟨_, rfl⟩

theorem checkKeyLoop_noPanic (hc : indexAllowedClass.isSome = true) (rw : RWPath) (v : Str) (own : Option Nat) :
    ∀ (ns vs : List Str) (i : Nat), ns.length = vs.length → NoPanic (checkKeyLoop rw v own i ns vs) := by
  intro ns
  induction ns with
  | nil => intro vs i _; simp only [checkKeyLoop]; exact noPanic_refused _ _
  | cons n r ih =>
    intro vs i hl
    cases vs with
    | nil => simp at hl
    | cons x xs =>
      simp only [checkKeyLoop]
      obtain ⟨b, hb⟩ := indexValueAllowed_ok hc x
      rw [hb]
      cases b with
      | false => exact noPanic_refused _ _
      | true =>
        simp only
        split
        · exact noPanic_ok _
        · exact ih xs (i + 1) (by simpa using hl)

theorem checkKeyValue_noPanic (hc : indexAllowedClass.isSome = true) (path : Str) (rw : RWPath) (v : Str) :
    NoPanic (checkKeyValue path rw v) := by
  unfold checkKeyValue
  obtain ⟨ns, vs, h, hl⟩ := extractIndexNames_ok path
  rw [h]
  simp only
  split
  · exact noPanic_ok _
  · exact checkKeyLoop_noPanic hc rw v _ ns vs 0 hl

/-! ### doUpdateOrReplace, doDelete -/

theorem updEntries_noPanic (hc : indexAllowedClass.isSome = true) (abs : Abs) (pl : Plugin) (pfx : Option PathMsg) (u : Update) :
    NoPanic (updEntries abs pl pfx u) := by
  unfold updEntries
  split
  · split
    · exact noPanic_refused _ _
    · exact noPanic_ok _
  · simp only
    split
    · rename_i e he
      exact noPanic_of_eq (findPathFromModel_noPanic _ _ _) he
    · split
      · exact noPanic_refused _ _
      · split
        · rename_i e he
          exact noPanic_of_eq (checkKeyValue_noPanic hc _ _ _) he
        · exact noPanic_ok _

theorem strPathMsg_head (p : Option PathMsg) : ∃ r, strPathMsg p = '/' :: r := by
  unfold strPathMsg
  cases p with
  | none => exact ⟨[], rfl⟩
  | some p =>
    simp only
    split
    · rename_i h
      cases he : p.elem with
      | nil => simp [he] at h
      | cons a r => exact ⟨writeSafe '/' a.name ++ (sortKeys a.keys).flatMap strKey ++ r.flatMap strElem,
          by simp [strPathElem, strElem]⟩
    · split
      · exact ⟨_, rfl⟩
      · exact ⟨[], rfl⟩

theorem effPath_head (pfx p : Option PathMsg) : ∃ r, effPath pfx p = '/' :: r := by
  unfold effPath
  split
  · exact strPathMsg_head p
  · obtain ⟨r, hr⟩ := strPathMsg_head pfx
    exact ⟨r ++ strPathMsg p, by rw [hr]; rfl⟩

theorem delPath_noPanic (pl : Plugin) (pfx : Option PathMsg) (p : PathMsg) : NoPanic (delPath pl pfx p) := by
  unfold delPath
  simp only
  have h1 := findPathFromModel_noPanic (effPath pfx (some p)) pl.rw false
  split
  · rename_i e he
    exact noPanic_of_eq h1 he
  · split
    · obtain ⟨r, hr⟩ := effPath_head pfx (some p)
      obtain ⟨j, hj⟩ := lastIndexOf_isSome_of_head '/' r
      have hj' : lastIndexChar '/' (effPath pfx (some p)) = some j := by rw [hr]; exact hj
      rw [hj']
      simp only
      have hlt : j ≤ (effPath pfx (some p)).length := by
        rcases lastIndexOf_spec '/' _ 0 none j hj' with h2 | ⟨k, hk, hc⟩
        · cases h2
        · have := (List.getElem?_eq_some_iff.mp hc).1
          omega
      rw [slice_ok _ 0 j (Nat.zero_le _) hlt]
      exact noPanic_ok _
    · exact noPanic_ok _

/-! ### the loops of Set -/

theorem resolveNew_noPanic (env : Env) (ov : OvMap) (t : Str) : NoPanic (resolveNew env ov t) := by
  unfold resolveNew
  split
  · exact noPanic_refused _ _
  · exact noPanic_refused _ _
  · split
    · split
      · exact noPanic_refused _ _
      · exact noPanic_ok _
    · split
      · exact noPanic_refused _ _
      · exact noPanic_ok _

theorem getTargetInfo_noPanic (env : Env) (st : SetSt) (t : Str) : NoPanic (getTargetInfo env st t) := by
  unfold getTargetInfo
  split
  · exact noPanic_ok _
  · split
    · rename_i e he
      exact noPanic_of_eq (resolveNew_noPanic env st.overrides t) he
    · exact noPanic_ok _

theorem applyOp_noPanic (hc : indexAllowedClass.isSome = true) (abs : Abs) (env : Env) (pfx : Option PathMsg)
    (st : SetSt) (op : Op) : NoPanic (applyOp abs env pfx st op) := by
  unfold applyOp
  simp only
  split
  · rename_i e he
    exact noPanic_of_eq (getTargetInfo_noPanic env st _) he
  · rename_i st1 ti hg
    cases op with
    | del p =>
      simp only
      split
      · rename_i e he
        exact noPanic_of_eq (delPath_noPanic ti.plugin pfx p) he
      · exact noPanic_ok _
    | upd u =>
      simp only
      split
      · rename_i e he
        exact noPanic_of_eq (updEntries_noPanic hc abs ti.plugin pfx u) he
      · exact noPanic_ok _

theorem applyOps_noPanic (hc : indexAllowedClass.isSome = true) (abs : Abs) (env : Env) (pfx : Option PathMsg)
    (ops : List Op) : ∀ (st : SetSt), NoPanic (applyOps abs env pfx st ops) := by
  induction ops with
  | nil => intro st; exact noPanic_ok _
  | cons op r ih =>
    intro st
    simp only [applyOps]
    split
    · rename_i e he
      exact noPanic_of_eq (applyOp_noPanic hc abs env pfx st op) he
    · exact ih _

theorem limitCheck_noPanic (limit : Int) (n : Nat) (ts : List (Str × TInfo)) : NoPanic (limitCheck limit n ts) := by
  unfold limitCheck
  split
  · split
    · exact noPanic_refused _ _
    · split
      · exact noPanic_refused _ _
      · exact noPanic_ok _
  · exact noPanic_ok _

theorem pathsValid_noPanic (hv : validPathClass.isSome = true) : ∀ (ps : List Str), NoPanic (pathsValid ps) := by
  intro ps
  induction ps with
  | nil => exact noPanic_ok _
  | cons p r ih =>
    simp only [pathsValid]
    have : ∃ b, isPathValid p = .ok b := by
      unfold isPathValid
      cases h : validPathClass with
      | none => rw [h] at hv; cases hv
      | some cls => exact ⟨_, rfl⟩
    obtain ⟨b, hb⟩ := this
    rw [hb]
    cases b with
    | false => exact noPanic_refused _ _
    | true => exact ih

theorem pathsUsable_noPanic (hv : validPathClass.isSome = true) : ∀ (ps : List Str), NoPanic (pathsUsable ps) := by
  intro ps
  induction ps with
  | nil => exact noPanic_ok _
  | cons p r ih =>
    simp only [pathsUsable]
    have : ∃ b, isPathValid p = .ok b := by
      unfold isPathValid
      cases h : validPathClass with
      | none => rw [h] at hv; cases hv
      | some cls => exact ⟨_, rfl⟩
    obtain ⟨b, hb⟩ := this
    rw [hb]
    cases b with
    | false => exact noPanic_refused _ _
    | true =>
      simp only
      split
      · exact noPanic_refused _ _
      · exact ih

theorem computeChanges_noPanic (hv : validPathClass.isSome = true) : ∀ (ts : List (Str × TInfo)), NoPanic (computeChanges ts) := by
  intro ts
  induction ts with
  | nil => exact noPanic_ok _
  | cons e r ih =>
    obtain ⟨t, ti⟩ := e
    simp only [computeChanges]
    have h1 : NoPanic (computeChange ti) := by
      unfold computeChange
      have := pathsUsable_noPanic hv (ti.updates.map Prod.fst ++ ti.removes)
      split
      · rename_i e he
        exact noPanic_of_eq this he
      · exact noPanic_ok _
    split
    · rename_i e he
      exact noPanic_of_eq h1 he
    · split
      · rename_i e he
        exact noPanic_of_eq ih he
      · exact noPanic_ok _

/-- `Set` before the store never panics -/
theorem setPre_noPanic (hc : indexAllowedClass.isSome = true) (hv : validPathClass.isSome = true)
    (abs : Abs) (env : Env) (req : SetReq) : NoPanic (setPre abs env req) := by
  unfold setPre
  split
  · exact noPanic_refused _ _
  · rename_i ov ho
    split
    · exact noPanic_refused _ _
    · split
      · exact noPanic_refused _ _
      · split
        · rename_i e he
          exact noPanic_of_eq (applyOps_noPanic hc abs env req.pfx (opsOf req) ⟨[], ov⟩) he
        · rename_i st _
          split
          · rename_i e he
            exact noPanic_of_eq (limitCheck_noPanic env.limit _ st.targets) he
          · split
            · rename_i e he
              exact noPanic_of_eq (computeChanges_noPanic hv st.targets) he
            · exact noPanic_ok _

/-! ### Get -/

theorem addTarget_noPanic (st : NBState) (ov : OvMap) (t : Str) : NoPanic (addTarget st ov t) := by
  unfold addTarget
  split
  · exact noPanic_refused _ _
  · exact noPanic_refused _ _
  · simp only
    split
    · exact noPanic_refused _ _
    · split
      · exact noPanic_refused _ _
      · exact noPanic_ok _

theorem getLoop_noPanic (st : NBState) (ov : OvMap) (pfx : Option PathMsg) :
    ∀ (ps : List PathMsg) (seen : List Str), NoPanic (getLoop st ov pfx seen ps) := by
  intro ps
  induction ps with
  | nil => intro seen; exact noPanic_ok _
  | cons p r ih =>
    intro seen
    simp only [getLoop]
    split
    · exact noPanic_ok _
    · split
      · exact noPanic_refused _ _
      · split
        · rename_i e he
          split at he
          · cases he
          · exact noPanic_of_eq (addTarget_noPanic st ov _) he
        · exact ih _

theorem getRegexps_noPanic (pfx : Option PathMsg) : ∀ (ps : List PathMsg), NoPanic (getRegexps pfx ps) := by
  intro ps
  induction ps with
  | nil => exact noPanic_ok _
  | cons p r ih =>
    simp only [getRegexps]
    have : ∃ t, getPathRegexp pfx p = .ok t := by
      unfold getPathRegexp
      exact matchWildcardRegexp_total _ _
    obtain ⟨t, ht⟩ := this
    rw [ht]
    exact ih

theorem getState_noPanic (st : NBState) (pfx : Option PathMsg) (ps : List PathMsg) : NoPanic (getState st pfx ps) := by
  unfold getState
  split
  · exact noPanic_refused _ _
  · split
    · exact noPanic_ok _
    · exact noPanic_refused _ _

/-- `Get` before the stored values are read never panics -/
theorem handleGet_noPanic (st : NBState) (req : GetReq) : NoPanic (handleGet st req) := by
  unfold handleGet
  split
  · exact noPanic_refused _ _
  · split
    · exact noPanic_refused _ _
    · split
      · exact getState_noPanic _ _ _
      · split
        · exact noPanic_refused _ _
        · rename_i ov ho
          split
          · rename_i e he
            exact noPanic_of_eq (getLoop_noPanic st ov req.pfx _ _) he
          · exact noPanic_ok _
          · split
            · split
              · exact noPanic_ok _
              · split
                · exact noPanic_refused _ _
                · split
                  · exact noPanic_refused _ _
                  · rename_i e hne he
                    exact noPanic_of_eq (addTarget_noPanic st ov _) he
                  · obtain ⟨t, ht⟩ := matchWildcardRegexp_total (strPathMsg req.pfx) false
                    rw [ht]
                    exact noPanic_ok _
            · split
              · rename_i e he
                exact noPanic_of_eq (getRegexps_noPanic _ _) he
              · exact noPanic_ok _

/-! ### Subscribe, admin -/

theorem splitSubscribe_noPanic (pfx : Option PathMsg) (subs : List (Option PathMsg)) :
    NoPanic (splitSubscribe pfx subs) := by
  unfold splitSubscribe
  simp only
  split
  · exact noPanic_ok _
  · split
    · exact noPanic_refused _ _
    · exact noPanic_ok _

theorem handleSubMsg_noPanic (st : NBState) (m : SubMsg) : NoPanic (handleSubMsg st m).1 := by
  unfold handleSubMsg
  cases m with
  | subscribe pfx subs =>
    simp only
    split
    · exact noPanic_refused _ _
    · split
      · rename_i e he
        exact noPanic_of_eq (splitSubscribe_noPanic pfx subs) he
      · exact noPanic_ok _
  | poll =>
    simp only
    split
    · exact noPanic_refused _ _
    · exact noPanic_ok _
  | other => exact noPanic_refused _ _

theorem handleSubStream_noPanic : ∀ (ms : List SubMsg) (st : NBState), ∀ o ∈ handleSubStream st ms, NoPanic o := by
  intro ms
  induction ms with
  | nil => intro st o ho; simp [handleSubStream] at ho
  | cons m r ih =>
    intro st o ho
    have h1 := handleSubMsg_noPanic st m
    simp only [handleSubStream] at ho
    split at ho
    · rename_i e st' he
      simp only [List.mem_singleton] at ho
      subst ho
      rw [he] at h1
      exact h1
    · rename_i oc st' he
      rcases List.mem_cons.mp ho with h2 | h2
      · subst h2; exact noPanic_ok _
      · exact ih st' o h2

theorem leafUpdates_noPanic (hc : indexAllowedClass.isSome = true) (abs : Abs) (pl : Plugin) (pfx : Option PathMsg) :
    ∀ (us : List Update) (acc : List (Str × TV)), NoPanic (leafUpdates abs pl pfx us acc) := by
  intro us
  induction us with
  | nil => intro acc; exact noPanic_ok _
  | cons u r ih =>
    intro acc
    simp only [leafUpdates]
    split
    · rename_i e he
      exact noPanic_of_eq (updEntries_noPanic hc abs pl pfx u) he
    · exact ih _

theorem leafDeletes_noPanic (pl : Plugin) (pfx : Option PathMsg) : ∀ (ds : List PathMsg), NoPanic (leafDeletes pl pfx ds) := by
  intro ds
  induction ds with
  | nil => exact noPanic_ok _
  | cons d r ih =>
    simp only [leafDeletes]
    split
    · rename_i e he
      exact noPanic_of_eq (delPath_noPanic pl pfx d) he
    · exact ih

theorem leafMerge_noPanic (hc : indexAllowedClass.isSome = true) (hv : validPathClass.isSome = true)
    (abs : Abs) (pl : Plugin) (change : Option SetReq) : NoPanic (leafMerge abs pl change) := by
  unfold leafMerge
  split
  · exact noPanic_ok _
  · split
    · split
      · rename_i e he
        exact noPanic_of_eq (leafUpdates_noPanic hc abs pl _ _ _) he
      · split
        · rename_i e he
          exact noPanic_of_eq (leafDeletes_noPanic pl _ _) he
        · split
          · exact noPanic_refused _ _
          · rename_i e hne he
            exact noPanic_of_eq (pathsValid_noPanic hv _) he
          · exact noPanic_ok _
    · exact noPanic_ok _

/-- `LeafSelectionQuery` never panics -/
theorem handleLeafSel_noPanic (hc : indexAllowedClass.isSome = true) (hv : validPathClass.isSome = true)
    (abs : Abs) (st : NBState) (req : LeafSelReq) : NoPanic (handleLeafSel abs st req) := by
  unfold handleLeafSel
  split
  · exact noPanic_refused _ _
  · split
    · exact noPanic_refused _ _
    · split
      · rename_i e he
        exact noPanic_of_eq (leafMerge_noPanic hc hv abs _ _) he
      · exact noPanic_ok _

end OnosVerif.NB
