/-
The twin's `applyChange` and `applyRollback` equal the control skeletons regenerated from
pkg/controller/v3/transaction/controller.go, for every state in which the function does not panic
and whose ordinals are not zero where the code subtracts one (a uint64 that would wrap).
-/
import OnosVerif.Proofs.V3Skel

namespace OnosVerif.V3.Skel
open OnosVerif.Generated
open OnosVerif.V3

theorem pred64_pos (n : Nat) (h : n ≠ 0) : pred64 n = n - 1 := by simp [pred64, h]

theorem classify_cases (ans : DevAns) :
    (classify ans = .ok ∧ ans = .ok) ∨
    (classify ans = .retry ∧ (ans = .unavailable ∨ ans = .canceled ∨ ans = .deadlineExceeded)) ∨
    (classify ans = .superseded ∧ ans = .permissionDenied) ∨
    (∃ f, classify ans = .fail f ∧ ans ≠ .ok ∧ ans ≠ .unavailable ∧ ans ≠ .canceled ∧
      ans ≠ .deadlineExceeded ∧ ans ≠ .permissionDenied) := by
  cases ans <;> first
    | exact Or.inl (by decide)
    | exact Or.inr (Or.inl (by decide))
    | exact Or.inr (Or.inr (Or.inl (by decide)))
    | exact Or.inr (Or.inr (Or.inr ⟨_, rfl, by decide, by decide, by decide, by decide, by decide⟩))

macro "v3a" : tactic => `(tactic| simp_all [Nat.blt_eq, Nat.ble_eq, optPS, proj, proj_append, plumbing,
  outcomeTraceA, actToks, applyRet, viaSend, ansCode, failCode])

macro "v3c" : tactic => `(tactic| ((try intro _) <;> v3a))

theorem ble_leIn (p : PS) : Nat.ble p.toNat 1 = p.leInProgress := by cases p <;> rfl
theorem leIn_iff (p : PS) : (p = .pending ∨ p = .inProgress) ↔ p.leInProgress = true := by
  cases p <;> simp [PS.leInProgress, PS.toNat]

theorem skel_v3_applyChange (s : Sys) (i : Nat) (t : Tx) (v : View) (ans : DevAns)
    (hnp : ∀ p, applyChange s i t v ans ≠ .panic p) (hord : t.cord ≠ 0) :
    proj (v3sk_applyChange (gV3Of i t v.c (getTx s v.c.aIndex).isNone ((getTx s v.c.aIndex).getD default)
        (xApply s v.c (addDeleteChildren i t.values v.cVals) ans (classify ans)))) =
      outcomeTraceA (t.ca == .aborted || t.ca == .failed) v.c (applyChange s i t v ans) := by
  revert hnp
  unfold v3sk_applyChange applyChange prevBusyApply
  gV3Of_atoms
  rw [pred64_pos _ hord]
  generalize v.c = c
  generalize hvals : addDeleteChildren i t.values v.cVals = values
  by_cases hcc' : ¬ t.cc = .complete
  · intro _; simp [hcc', outcomeTraceA, proj]
  have hcc : t.cc = .complete := Decidable.not_not.mp hcc'
  clear hcc'
  simp only [hcc, toNat_complete, ne_eq, not_true_eq_false, if_false]
  obtain ⟨x, hca⟩ : ∃ x, t.ca = x := ⟨_, rfl⟩
  simp only [hca]
  cases x
  · -- PENDING
    simp only [toNat_pending]
    g3split h1 : c.aOrdinal = t.cord - 1
    · g3split h2 : c.aTarget = i
      · v3c
      · rcases Option.eq_none_or_eq_some (getTx s c.aIndex) with hp | ⟨p, hp⟩ <;> simp [hp]
        · g3split h3 : c.aRevision < t.ridx <;> v3c
        · rcases Option.eq_none_or_eq_some p.ra with hra | ⟨ra, hra⟩ <;> simp only [hra] <;>
            by_cases h4 : c.aTarget = c.aIndex <;> by_cases h5 : c.aTarget < c.aIndex <;>
            by_cases h3 : c.aRevision < t.ridx <;>
            simp only [h4, h5, h3, ↓reduceIte, Nat.lt_irrefl, false_and] <;>
            cases hb : p.ca.leInProgress <;>
            (try cases hc : ra.leInProgress) <;>
            simp_all [leIn_iff, Nat.blt_eq, Nat.ble_eq, optPS, proj, proj_append, plumbing,
              outcomeTraceA, actToks, applyRet, viaSend]
    · v3c
  · -- IN_PROGRESS
    simp only [toNat_inProgress]
    have hn : (!canSend s c || !sendable values) = !(canSend s c && sendable values) := by
      cases canSend s c <;> cases sendable values <;> rfl
    by_cases h1 : c.aOrdinal = t.cord ∧ c.aRevision = i
    · simp [h1]; v3c
    · have h1a : (decide (c.aOrdinal = t.cord) && decide (c.aRevision = i)) = false := by
        simpa using h1
      have h1b : (c.aOrdinal == t.cord && c.aRevision == i) = false := by
        simpa using h1
      simp only [h1a, h1b, afterSend, xApply, hn]
      by_cases hs : (canSend s c && sendable values) = true
      · simp only [hs]
        rcases classify_cases ans with ⟨hc, ha⟩ | ⟨hc, ha⟩ | ⟨hc, ha⟩ | ⟨f, hc, ha⟩
        · subst ha; v3c
        · rcases ha with rfl | rfl | rfl <;> v3c
        · subst ha; v3c
        · cases ans <;> v3c
      · simp only [hs]; v3c
  · -- COMPLETE
    v3c
  · -- ABORTED
    g3split h1 : c.aOrdinal < t.cord <;> v3c
  · -- CANCELED
    v3c
  · -- FAILED
    g3split h1 : c.aOrdinal < t.cord <;> v3c

theorem classifyRb_cases (ans : DevAns) :
    (classifyRb ans = .ok ∧ ans = .ok) ∨
    (classifyRb ans = .retry ∧ (ans = .unavailable ∨ ans = .canceled ∨ ans = .deadlineExceeded)) ∨
    (classifyRb ans = .superseded ∧ ans = .permissionDenied) ∨
    (∃ f, classifyRb ans = .fail f ∧ ans ≠ .ok ∧ ans ≠ .unavailable ∧ ans ≠ .canceled ∧
      ans ≠ .deadlineExceeded ∧ ans ≠ .permissionDenied) := by
  cases ans <;> first
    | exact Or.inl (by decide)
    | exact Or.inr (Or.inl (by decide))
    | exact Or.inr (Or.inr (Or.inl (by decide)))
    | exact Or.inr (Or.inr (Or.inr ⟨_, rfl, by decide, by decide, by decide, by decide, by decide⟩))

theorem blt_ltC (p : PS) : Nat.blt p.toNat 2 = p.ltComplete := by cases p <;> rfl
theorem ltC_iff (p : PS) : (p = .pending ∨ p = .inProgress) ↔ p.ltComplete = true := by
  cases p <;> simp [PS.ltComplete, PS.toNat]

macro "v3r" : tactic => `(tactic| ((try intro _) <;> simp_all [-Nat.not_lt, ltC_iff, Nat.blt_eq, Nat.ble_eq, optPS, proj, proj_append, plumbing,
  outcomeTraceA, actToks, applyRet, viaSend, ansCode, failCode, finishChangeApply]))

/-- the rollback apply proper (PENDING): ordinal, target, previous transaction -/
macro "v3proper" s:term "," c:term "," t:term "," i:term : tactic => `(tactic| (
  by_cases h1 : ($c).aOrdinal = ($t).rord - 1 <;> (try simp only [h1, ↓reduceIte, bne_self_eq_false, Bool.false_eq_true, ne_eq, not_true_eq_false, not_false_eq_true]) <;>
  by_cases h2 : ($c).aTarget = ($t).ridx <;> (try simp only [h2, ↓reduceIte, beq_self_eq_true]) <;>
  rcases Option.eq_none_or_eq_some (getTx $s ($c).aIndex) with hp | ⟨p, hp⟩ <;> (try simp only [hp, Option.isNone_none, Option.isNone_some, Option.getD_some]) <;>
  (try (rcases Option.eq_none_or_eq_some p.ra with hpra | ⟨pra, hpra⟩ <;> (try simp only [hpra]) <;>
    by_cases h4 : ($c).aIndex = $i <;> by_cases h5 : $i < ($c).aIndex <;>
    simp only [h4, h5, ↓reduceIte, Nat.lt_irrefl, false_and, gt_iff_lt] <;>
    cases hb : p.ca.ltComplete <;> (try cases hc : pra.ltComplete))) <;>
  v3r))

set_option maxHeartbeats 4000000 in
theorem skel_v3_applyRollback (s : Sys) (i : Nat) (t : Tx) (v : View) (ans : DevAns)
    (hnp : ∀ p, applyRollback s i t v ans ≠ .panic p) (hord : t.cord ≠ 0) (hrord : t.rord ≠ 0) :
    proj (v3sk_applyRollback (gV3Of i t v.c (getTx s v.c.aIndex).isNone ((getTx s v.c.aIndex).getD default)
        (xApply s v.c (addDeleteChildren i t.rvals v.cVals) ans (classifyRb ans)))) =
      outcomeTraceA false v.c (applyRollback s i t v ans) := by
  revert hnp
  unfold v3sk_applyRollback applyRollback finishChangeApply prevBusyRbAbort prevBusyRbApply
  gV3Of_atoms
  rw [pred64_pos _ hord, pred64_pos _ hrord]
  generalize v.c = c
  generalize hvals : addDeleteChildren i t.rvals v.cVals = values
  rcases Option.eq_none_or_eq_some t.rc with hrc | ⟨rc, hrc⟩ <;> simp only [hrc]
  · v3r
  rcases Option.eq_none_or_eq_some t.ra with hra | ⟨ra, hra⟩ <;> simp only [hra]
  · cases rc <;> v3r
  cases rc <;> try (cases ra <;> v3r; done)
  -- rollback commit COMPLETE
  cases ra
  · -- rollback apply PENDING
    obtain ⟨x, hca⟩ : ∃ x, t.ca = x := ⟨_, rfl⟩
    simp only [hca]
    cases x
    · -- change apply PENDING: abort it first
      by_cases hA1 : c.aOrdinal = t.cord - 1 <;> by_cases hA2 : c.aTarget = i <;>
        (try simp only [hA1, hA2, ↓reduceIte, beq_self_eq_true, bne_self_eq_false, Bool.true_and, Bool.false_and,
          Bool.and_false, Bool.and_true, ne_eq, not_true_eq_false, not_false_eq_true, decide_true, decide_false,
          Bool.false_eq_true, Bool.not_true, Bool.not_false]) <;>
        rcases Option.eq_none_or_eq_some (getTx s c.aIndex) with hp | ⟨p, hp⟩ <;>
        (try simp only [hp, Option.isNone_none, Option.isNone_some, Option.getD_some]) <;>
        (try (rcases Option.eq_none_or_eq_some p.ra with hpra | ⟨pra, hpra⟩ <;> (try simp only [hpra]) <;>
          by_cases h4 : c.aTarget = c.aIndex <;> by_cases h5 : c.aTarget < c.aIndex <;>
          (try simp only [Nat.blt_eq, Bool.and_eq_true, beq_iff_eq, h4, h5, ↓reduceIte, Nat.lt_irrefl, false_and]) <;>
          cases hb : p.ca.ltComplete <;> (try cases hc : pra.ltComplete))) <;>
        v3r
    · -- change apply IN_PROGRESS
      g3split h0 : c.aOrdinal = t.cord <;> v3r
    · -- COMPLETE
      v3proper s, c, t, i
    · -- ABORTED
      g3split h0 : c.aOrdinal < t.cord
      · v3r
      · v3proper s, c, t, i
    · -- CANCELED
      v3proper s, c, t, i
    · -- FAILED
      g3split h0 : c.aOrdinal < t.cord
      · v3r
      · v3proper s, c, t, i
  · -- IN_PROGRESS
    have hn : (!canSend s c || !sendable values) = !(canSend s c && sendable values) := by
      cases canSend s c <;> cases sendable values <;> rfl
    by_cases h1 : c.aOrdinal = t.rord ∧ c.aRevision = t.ridx
    · simp [h1]; v3r
    · have h1a : (decide (c.aOrdinal = t.rord) && decide (c.aRevision = t.ridx)) = false := by
        simpa using h1
      have h1b : (c.aOrdinal == t.rord && c.aRevision == t.ridx) = false := by
        simpa using h1
      simp only [h1a, h1b, afterSend, xApply, hn]
      by_cases hs : (canSend s c && sendable values) = true
      · simp only [hs]
        rcases classifyRb_cases ans with ⟨hc, ha⟩ | ⟨hc, ha⟩ | ⟨hc, ha⟩ | ⟨f, hc, ha⟩
        · subst ha; v3r
        · rcases ha with rfl | rfl | rfl <;> v3r
        · subst ha; v3r
        · cases ans <;> v3r
      · simp only [hs]; v3r
  all_goals v3r

end OnosVerif.V3.Skel
