/- Helper lemmas for the C14 theorems (OnosVerif/Props/C14.lean). -/
import OnosVerif.Rbac.Model
import OnosVerif.Rbac.Spec

namespace OnosVerif.Rbac
open OnosVerif.ErrTable

/-! ### splitBy -/

theorem splitBy_nil (p : Char → Bool) : splitBy p [] = [[]] := rfl

theorem splitBy_cons_sep (p : Char → Bool) (c : Char) (cs : Str) (h : p c = true) :
    splitBy p (c :: cs) = [] :: splitBy p cs := by
  simp [splitBy, splitAux, h]

theorem splitBy_cons_non (p : Char → Bool) (c : Char) (cs : Str) (h : p c = false) :
    splitBy p (c :: cs) = (c :: (splitAux p cs).1) :: (splitAux p cs).2 := by
  simp [splitBy, splitAux, h]

/-- a separator-free string is its own single piece. -/
theorem splitBy_free (p : Char → Bool) (w : Str) (h : ∀ c ∈ w, p c = false) : splitBy p w = [w] := by
  induction w with
  | nil => rfl
  | cons c cs ih =>
    have hc : p c = false := h c List.mem_cons_self
    have hcs : ∀ c' ∈ cs, p c' = false := fun c' hc' => h c' (List.mem_cons_of_mem _ hc')
    have := ih hcs
    simp only [splitBy, List.cons.injEq] at this
    rw [splitBy_cons_non p c cs hc, this.1, this.2]

/-- splitting distributes over a separator. -/
theorem splitBy_append_sep (p : Char → Bool) (a : Str) (d : Char) (b : Str) (hd : p d = true) :
    splitBy p (a ++ d :: b) = splitBy p a ++ splitBy p b := by
  induction a with
  | nil => simp [splitBy_cons_sep p d b hd, splitBy_nil]
  | cons c cs ih =>
    simp only [splitBy, List.cons_append] at ih ⊢
    have h1 := (List.cons.inj ih).1
    have h2 := (List.cons.inj ih).2
    by_cases hc : p c = true
    · simp [splitAux, hc, h1, h2]
    · have hc' : p c = false := by simpa using hc
      simp [splitAux, hc', h1, h2]

/-- either `s` is separator-free or it decomposes at its first separator. -/
theorem first_sep (p : Char → Bool) (s : Str) :
    (∀ c ∈ s, p c = false) ∨ ∃ a d b, s = a ++ d :: b ∧ (∀ c ∈ a, p c = false) ∧ p d = true := by
  induction s with
  | nil => left; intro c hc; cases hc
  | cons c cs ih =>
    by_cases hc : p c = true
    · right; exact ⟨[], c, cs, rfl, (by intro c hc; cases hc), hc⟩
    · have hc' : p c = false := by simpa using hc
      rcases ih with h | ⟨a, d, b, hs, ha, hd⟩
      · left
        intro x hx
        rcases List.mem_cons.mp hx with rfl | h'
        · exact hc'
        · exact h x h'
      · right
        refine ⟨c :: a, d, b, by simp [hs], ?_, hd⟩
        intro x hx
        rcases List.mem_cons.mp hx with rfl | h'
        · exact hc'
        · exact ha x h'

theorem boundL_cons_append (p : Char → Bool) (a : Str) (d : Char) (pre : Str) (hd : p d = true)
    (h : BoundL p pre) : BoundL p (a ++ d :: pre) := by
  rcases h with rfl | ⟨pre', c, rfl, hc⟩
  · right; exact ⟨a, d, rfl, hd⟩
  · right; exact ⟨a ++ d :: pre', c, by simp, hc⟩

/-- soundness: every piece computed by `splitBy` is a piece in the sense of the specification. -/
theorem splitBy_sound (p : Char → Bool) (n : Nat) : ∀ (s : Str), s.length ≤ n → ∀ w ∈ splitBy p s, IsPiece p w s := by
  induction n with
  | zero =>
    intro s hs w hw
    have : s = [] := List.eq_nil_of_length_eq_zero (Nat.le_zero.mp hs)
    subst this
    simp [splitBy_nil] at hw
    subst hw
    exact ⟨(by intro c hc; cases hc), [], [], rfl, Or.inl rfl, Or.inl rfl⟩
  | succ n ih =>
    intro s hs w hw
    rcases first_sep p s with hfree | ⟨a, d, b, rfl, ha, hd⟩
    · rw [splitBy_free p s hfree] at hw
      simp at hw
      subst hw
      exact ⟨hfree, [], [], by simp, Or.inl rfl, Or.inl rfl⟩
    · rw [splitBy_append_sep p a d b hd, splitBy_free p a ha] at hw
      rcases List.mem_append.mp hw with h1 | h2
      · simp at h1
        subst h1
        exact ⟨ha, [], d :: b, by simp, Or.inl rfl, Or.inr ⟨d, b, rfl, hd⟩⟩
      · have hb : b.length ≤ n := by
          simp only [List.length_append, List.length_cons] at hs
          omega
        obtain ⟨hwf, pre, post, hb', hl, hr⟩ := ih b hb w h2
        refine ⟨hwf, a ++ d :: pre, post, by simp [hb'], boundL_cons_append p a d pre hd hl, hr⟩

/-- completeness: every piece in the sense of the specification is computed by `splitBy`. -/
theorem splitBy_complete (p : Char → Bool) (w s : Str) (h : IsPiece p w s) : w ∈ splitBy p s := by
  obtain ⟨hw, pre, post, rfl, hl, hr⟩ := h
  have hmid : w ∈ splitBy p (w ++ post) := by
    rcases hr with rfl | ⟨c, post', rfl, hc⟩
    · simp [splitBy_free p w hw]
    · rw [splitBy_append_sep p w c post' hc, splitBy_free p w hw]; simp
  rcases hl with rfl | ⟨pre', c, rfl, hc⟩
  · simpa using hmid
  · have : pre' ++ [c] ++ w ++ post = pre' ++ c :: (w ++ post) := by simp
    rw [this, splitBy_append_sep p pre' c (w ++ post) hc]
    exact List.mem_append_right _ hmid

theorem splitBy_mem_iff (p : Char → Bool) (w s : Str) : w ∈ splitBy p s ↔ IsPiece p w s :=
  ⟨fun h => splitBy_sound p s.length s (Nat.le_refl _) w h, splitBy_complete p w s⟩

/-- `FieldsFunc` yields exactly the non-empty pieces. -/
theorem fieldsFunc_mem_iff (p : Char → Bool) (w s : Str) :
    w ∈ fieldsFunc p s ↔ w ≠ [] ∧ IsPiece p w s := by
  simp only [fieldsFunc, List.mem_filter, splitBy_mem_iff]
  constructor
  · rintro ⟨h1, h2⟩
    refine ⟨?_, h1⟩
    intro h; subst h; simp at h2
  · rintro ⟨h1, h2⟩
    refine ⟨h2, ?_⟩
    cases w with
    | nil => exact absurd rfl h1
    | cons _ _ => rfl

theorem isAdminGroup_iff (setting g : Str) : isAdminGroup setting g = true ↔ IsAdminGroup setting g := by
  simp only [isAdminGroup, List.contains_iff_mem, IsAdminGroup]
  exact fieldsFunc_mem_iff isAdminSep g setting


/-! ### metadata -/

theorem mdLookup_wf (md : MD) (h : mdWF md = true) (k : Str) (v : List Str)
    (hv : mdLookup md k = some v) : v ≠ [] := by
  induction md with
  | nil => simp [mdLookup] at hv
  | cons kv rest ih =>
    obtain ⟨k', v'⟩ := kv
    simp only [mdWF, List.all_cons, Bool.and_eq_true] at h
    simp only [mdLookup] at hv
    split at hv
    · have : v' = v := by simpa using hv
      subst this
      simpa using h.1
    · exact ih h.2 hv

/-- on well-formed metadata `Get` does not panic and yields the first value. -/
theorem mdGet_wf (md : MD) (h : mdWF md = true) (key : Str) (hk : toLower key = key) :
    mdGet md key = .ok (firstValue md key) := by
  unfold mdGet firstValue
  rw [hk]
  cases hl : mdLookup md key with
  | none => rfl
  | some v =>
    cases v with
    | nil => exact absurd rfl (mdLookup_wf md h key [] hl)
    | cons a b => rfl

/-- whenever `Get` answers, it answers the first value. -/
theorem mdGet_ok (md : MD) (key v : Str) (hk : toLower key = key) (h : mdGet md key = .ok v) :
    v = firstValue md key := by
  unfold mdGet at h
  unfold firstValue
  rw [hk] at h
  cases hl : mdLookup md key with
  | none => rw [hl] at h; simpa using h.symm
  | some l =>
    rw [hl] at h
    cases l with
    | nil => simp at h
    | cons a b => simpa using h.symm

theorem lower_name : toLower kName = kName := by decide
theorem lower_user : toLower kUser = kUser := by decide
theorem lower_groups : toLower kGroups = kGroups := by decide
theorem lower_email : toLower kEmail = kEmail := by decide

/-! ### the interpreter under the current facts -/

/-- some caller group equals some entry of the setting (what the loop nest computes today). -/
def matchSpec (setting gv : Str) : Bool :=
  (splitOn ';' gv).any fun g => (fieldsFunc isAdminSep setting).any fun a => g == a

theorem evalAtoms_rbac (g a s : Str) :
    evalAtoms { g := some g, admin := some a, setting := some s } Generated.rbacAtoms = (g == a) := by
  simp [evalAtoms, evalAtom, operand, Generated.rbacAtoms]

theorem adminEntries_rbac (s : Str) :
    adminEntries "fieldsenv" ",; " s = some (fieldsFunc isAdminSep s) := rfl

theorem groupMatch_unfold (setting : Str) (md : MD) :
    groupMatch setting md = (mdGet md kGroups >>= fun gv => pure (matchSpec setting gv)) := by
  unfold groupMatch
  simp only [Generated.rbacLoops, adminEntries_rbac, evalAtoms_rbac]
  rfl

theorem skipGuard_unfold (md : MD) : skipGuard md = allEmpty md [kName, kUser, kGroups] := rfl

theorem matchSpec_eq (setting gv : Str) :
    matchSpec setting gv = (splitOn ';' gv).any (isAdminGroup setting) := by
  unfold matchSpec isAdminGroup
  congr 1
  funext g
  rw [Bool.eq_iff_iff]
  simp [List.any_eq_true]

/-- `TemporaryEvaluate` as a two-step computation over the three `Get`s it performs. -/
theorem temporaryEvaluate_unfold (setting : Str) (md : MD) :
    temporaryEvaluate setting md =
      (allEmpty md [kName, kUser, kGroups] >>= fun skip =>
        if skip then pure Verdict.permit
        else mdGet md kGroups >>= fun gv =>
          pure (if matchSpec setting gv then Verdict.permit else Verdict.refuse (some Code.unauthenticated))) := by
  unfold temporaryEvaluate
  rw [skipGuard_unfold]
  simp only [groupMatch_unfold]
  cases allEmpty md [kName, kUser, kGroups] with
  | error e => rfl
  | ok skip =>
    cases skip with
    | true => rfl
    | false =>
      cases mdGet md kGroups with
      | error e => rfl
      | ok gv =>
        cases hm : matchSpec setting gv <;>
          simp [hm, bind, Except.bind, pure, Except.pure, Generated.rbacRefuseWhen, Generated.rbacRefuseCode] <;> decide

theorem allEmpty_wf (md : MD) (h : mdWF md = true) :
    allEmpty md [kName, kUser, kGroups] = .ok (!identityPresent md) := by
  simp only [allEmpty, mdGet_wf md h kName lower_name, mdGet_wf md h kUser lower_user,
    mdGet_wf md h kGroups lower_groups, identityPresent, bind, Except.bind, pure, Except.pure]
  by_cases h1 : firstValue md kName = [] <;> by_cases h2 : firstValue md kUser = [] <;>
    by_cases h3 : firstValue md kGroups = [] <;> simp [h1, h2, h3]

/-- closed form of `TemporaryEvaluate` on well-formed metadata. -/
theorem temporaryEvaluate_closed (setting : Str) (md : MD) (h : mdWF md = true) :
    temporaryEvaluate setting md =
      .ok (if identityPresent md then
              (if (callerGroups md).any (isAdminGroup setting) then Verdict.permit
               else Verdict.refuse (some Code.unauthenticated))
           else Verdict.permit) := by
  rw [temporaryEvaluate_unfold, allEmpty_wf md h, mdGet_wf md h kGroups lower_groups]
  cases hi : identityPresent md <;>
    simp [bind, Except.bind, pure, Except.pure, matchSpec_eq, callerGroups]


/-- the verdict `TemporaryEvaluate` gives whenever it does not panic. -/
def closedVerdict (setting : Str) (md : MD) : Verdict :=
  if identityPresent md then
    (if (callerGroups md).any (isAdminGroup setting) then Verdict.permit
     else Verdict.refuse (some Code.unauthenticated))
  else Verdict.permit

theorem allEmpty_ok (md : MD) (b : Bool) (h : allEmpty md [kName, kUser, kGroups] = .ok b) :
    b = !identityPresent md := by
  simp only [allEmpty, bind, Except.bind, pure, Except.pure] at h
  cases h1 : mdGet md kName with
  | error e => rw [h1] at h; simp at h
  | ok v1 =>
    have e1 := mdGet_ok md kName v1 lower_name h1
    rw [h1] at h
    by_cases hv1 : v1 = []
    · simp only [hv1, if_true] at h
      cases h2 : mdGet md kUser with
      | error e => rw [h2] at h; simp at h
      | ok v2 =>
        have e2 := mdGet_ok md kUser v2 lower_user h2
        rw [h2] at h
        by_cases hv2 : v2 = []
        · simp only [hv2, if_true] at h
          cases h3 : mdGet md kGroups with
          | error e => rw [h3] at h; simp at h
          | ok v3 =>
            have e3 := mdGet_ok md kGroups v3 lower_groups h3
            rw [h3] at h
            by_cases hv3 : v3 = []
            · simp only [hv3, if_true] at h
              have : b = true := by simpa using h.symm
              simp [this, identityPresent, ← e1, ← e2, ← e3, hv1, hv2, hv3]
            · simp only [hv3, if_false] at h
              have : b = false := by simpa using h.symm
              simp [this, identityPresent, ← e3, hv3]
        · simp only [hv2, if_false] at h
          have : b = false := by simpa using h.symm
          simp [this, identityPresent, ← e2, hv2]
    · simp only [hv1, if_false] at h
      have : b = false := by simpa using h.symm
      simp [this, identityPresent, ← e1, hv1]

/-- whenever `TemporaryEvaluate` answers, it answers the closed form (no assumption on the metadata). -/
theorem temporaryEvaluate_ok (setting : Str) (md : MD) (v : Verdict)
    (h : temporaryEvaluate setting md = .ok v) : v = closedVerdict setting md := by
  rw [temporaryEvaluate_unfold] at h
  cases ha : allEmpty md [kName, kUser, kGroups] with
  | error e => rw [ha] at h; simp [bind, Except.bind] at h
  | ok skip =>
    have hs := allEmpty_ok md skip ha
    rw [ha] at h
    cases skip with
    | true =>
      have hi : identityPresent md = false := by simpa using hs
      simp [bind, Except.bind, pure, Except.pure] at h
      simp [closedVerdict, hi, ← h]
    | false =>
      have hi : identityPresent md = true := by simpa using hs
      simp only [bind, Except.bind] at h
      cases hg : mdGet md kGroups with
      | error e => rw [hg] at h; simp at h
      | ok gv =>
        have eg := mdGet_ok md kGroups gv lower_groups hg
        rw [hg] at h
        simp [pure, Except.pure] at h
        simp [closedVerdict, hi, ← h, matchSpec_eq, callerGroups, eg]

/-! ### the check inside Set -/

def setKeys : List Str := [kUser, kName, kEmail, kGroups, kUser, kName]

theorem serverCalls_zero : serverCallsBeforeRbac = 0 ∧ serverCallsInRefusal = 0 := by decide

theorem checkDominates_true : checkDominates = true := by decide

/-- `Set` under the current facts. -/
theorem setHandler_unfold (setting : Str) (md : MD) (rest : Str → Rest) :
    setHandler setting md rest =
      (touchKeys md setKeys >>= fun _ =>
       userName md [kUser, kName] >>= fun user =>
       temporaryEvaluate setting md >>= fun v =>
        match v with
        | .permit => pure { outcome := .passed user, serverCalls := (rest user).calls, appended := (rest user).appended }
        | .refuse _ => pure { outcome := .refused (some Code.unauthenticated), serverCalls := 0, appended := 0 }) := by
  unfold setHandler
  have hk : Generated.setMdKeysBeforeRbac.map String.toList = setKeys := by decide
  have hu : Generated.setUserNameKeys.map String.toList = [kUser, kName] := by decide
  have he : (ErrType.ofName Generated.setRbacRefusalError).map statusOfType = some Code.unauthenticated := by decide
  rw [hk, hu, he, checkDominates_true, serverCalls_zero.1, serverCalls_zero.2]
  cases touchKeys md setKeys with
  | error e => rfl
  | ok _ =>
    cases userName md [kUser, kName] with
    | error e => rfl
    | ok user =>
      cases temporaryEvaluate setting md with
      | error e => simp [bind, Except.bind, Generated.setRbacPresent]
      | ok v =>
        cases v <;> simp [bind, Except.bind, pure, Except.pure, Generated.setRbacPresent]

/-- a refused `Set`: the verdict was a refusal and nothing was touched. -/
theorem setHandler_refused (setting : Str) (md : MD) (rest : Str → Rest) (r : SetResult) (c : Option Code)
    (h : setHandler setting md rest = .ok r) (ho : r.outcome = .refused c) :
    r = { outcome := .refused (some Code.unauthenticated), serverCalls := 0, appended := 0 } ∧
    ∃ c', temporaryEvaluate setting md = .ok (.refuse c') := by
  rw [setHandler_unfold] at h
  cases ht : touchKeys md setKeys with
  | error e => rw [ht] at h; simp [bind, Except.bind] at h
  | ok _ =>
    rw [ht] at h
    cases hu : userName md [kUser, kName] with
    | error e => rw [hu] at h; simp [bind, Except.bind] at h
    | ok user =>
      rw [hu] at h
      cases hv : temporaryEvaluate setting md with
      | error e => rw [hv] at h; simp [bind, Except.bind] at h
      | ok v =>
        rw [hv] at h
        cases v with
        | permit =>
          simp [bind, Except.bind, pure, Except.pure] at h
          rw [← h] at ho
          simp at ho
        | refuse c' =>
          simp [bind, Except.bind, pure, Except.pure] at h
          exact ⟨h.symm, c', rfl⟩

/-- a `Set` that got past the check: the verdict was `permit`, the user name is the one computed. -/
theorem setHandler_passed (setting : Str) (md : MD) (rest : Str → Rest) (r : SetResult) (u : Str)
    (h : setHandler setting md rest = .ok r) (ho : r.outcome = .passed u) :
    temporaryEvaluate setting md = .ok .permit ∧ userName md [kUser, kName] = .ok u ∧
    r.serverCalls = (rest u).calls ∧ r.appended = (rest u).appended := by
  rw [setHandler_unfold] at h
  cases ht : touchKeys md setKeys with
  | error e => rw [ht] at h; simp [bind, Except.bind] at h
  | ok _ =>
    rw [ht] at h
    cases hu : userName md [kUser, kName] with
    | error e => rw [hu] at h; simp [bind, Except.bind] at h
    | ok user =>
      rw [hu] at h
      cases hv : temporaryEvaluate setting md with
      | error e => rw [hv] at h; simp [bind, Except.bind] at h
      | ok v =>
        rw [hv] at h
        cases v with
        | permit =>
          simp [bind, Except.bind, pure, Except.pure] at h
          rw [← h] at ho
          simp at ho
          subst ho
          simp [← h]
        | refuse c' =>
          simp [bind, Except.bind, pure, Except.pure] at h
          rw [← h] at ho
          simp at ho

theorem touchKeys_wf (md : MD) (h : mdWF md = true) : touchKeys md setKeys = .ok () := by
  simp [touchKeys, setKeys, mdGet_wf md h kName lower_name, mdGet_wf md h kUser lower_user,
    mdGet_wf md h kGroups lower_groups, mdGet_wf md h kEmail lower_email, bind, Except.bind, pure, Except.pure]

theorem userName_wf (md : MD) (h : mdWF md = true) :
    userName md [kUser, kName] =
      .ok (if firstValue md kUser = [] then firstValue md kName else firstValue md kUser) := by
  simp only [userName, mdGet_wf md h kName lower_name, mdGet_wf md h kUser lower_user, bind, Except.bind, pure, Except.pure]
  split <;> rfl

/-! ### the interceptor -/

theorem mdLookup_mdPut (md : MD) (k k' : Str) (v : List Str) :
    mdLookup (mdPut md k v) k' = if k = k' then some v else mdLookup md k' := by
  induction md with
  | nil => simp [mdPut, mdLookup]
  | cons kv rest ih =>
    obtain ⟨k0, v0⟩ := kv
    simp only [mdPut]
    by_cases h0 : k0 = k
    · subst h0
      simp only [if_true, mdLookup]
      by_cases h1 : k0 = k' <;> simp [h1]
    · simp only [h0, if_false, mdLookup, ih]
      by_cases h1 : k0 = k'
      · have : k ≠ k' := fun h => h0 (h1.trans h.symm)
        simp [h1, this]
      · simp [h1]

/-- values stored under `key`, none when the key is absent. -/
def valuesAt (md : MD) (key : Str) : List Str := (mdLookup md key).getD []

theorem valuesAt_mdSet (md : MD) (k v key : Str) :
    valuesAt (mdSet md k v) key = if toLower k = key then [v] else valuesAt md key := by
  simp only [valuesAt, mdSet, mdLookup_mdPut]
  split <;> rfl

theorem valuesAt_mdAdd (md : MD) (k v key : Str) :
    valuesAt (mdAdd md k v) key = if toLower k = key then valuesAt md key ++ [v] else valuesAt md key := by
  simp only [valuesAt, mdAdd, mdLookup_mdPut]
  split
  · next h => subst h; rfl
  · rfl

theorem valuesAt_addAll (l : List Str) (md : MD) (k key : Str) :
    valuesAt (l.foldl (fun m v => mdAdd m k v) md) key =
      if toLower k = key then valuesAt md key ++ l else valuesAt md key := by
  induction l generalizing md with
  | nil => simp
  | cons v vs ih =>
    simp only [List.foldl_cons, ih, valuesAt_mdAdd]
    split <;> simp

/-- the values a claim contributes under `groups`. -/
def claimGroupValues (kc : Str × Claim) : List Str :=
  if toLower kc.1 = kGroups then
    match kc.2 with
    | .str s => [s]
    | .list l => l
  else []

theorem valuesAt_applyClaim (md : MD) (kc : Str × Claim) (v : Str)
    (hv : v ∈ valuesAt (applyClaim md kc) kGroups) :
    v ∈ valuesAt md kGroups ∨ v ∈ claimGroupValues kc := by
  obtain ⟨k, c⟩ := kc
  cases c with
  | str s =>
    simp only [applyClaim, valuesAt_mdSet] at hv
    by_cases hk : toLower k = kGroups
    · simp only [hk, if_true] at hv
      right; simpa [claimGroupValues, hk] using hv
    · simp only [hk, if_false] at hv
      left; exact hv
  | list l =>
    simp only [applyClaim, valuesAt_addAll] at hv
    by_cases hk : toLower k = kGroups
    · simp only [hk, if_true, List.mem_append] at hv
      rcases hv with h | h
      · left; exact h
      · right; simpa [claimGroupValues, hk] using h
    · simp only [hk, if_false] at hv
      left; exact hv

/-- every `groups` value behind the interceptor was sent by the client or is named by the token. -/
theorem valuesAt_authIncoming (claims : List (Str × Claim)) (client : MD) (v : Str)
    (hv : v ∈ valuesAt (authIncoming client claims) kGroups) :
    v ∈ valuesAt client kGroups ∨ v ∈ claims.flatMap claimGroupValues := by
  induction claims generalizing client with
  | nil => left; simpa [authIncoming] using hv
  | cons kc rest ih =>
    simp only [authIncoming, List.foldl_cons] at hv
    rcases ih (applyClaim client kc) hv with h | h
    · rcases valuesAt_applyClaim client kc v h with h' | h'
      · left; exact h'
      · right; simp only [List.flatMap_cons, List.mem_append]; left; exact h'
    · right; simp only [List.flatMap_cons, List.mem_append]; right; exact h

theorem firstValue_mem (md : MD) (key : Str) (h : firstValue md key ≠ []) :
    firstValue md key ∈ valuesAt md key := by
  unfold firstValue at h ⊢
  unfold valuesAt
  cases hl : mdLookup md key with
  | none => rw [hl] at h; simp at h
  | some l =>
    cases l with
    | nil => rw [hl] at h; simp at h
    | cons a b => simp

theorem tokenGroups_eq (claims : List (Str × Claim)) :
    tokenGroups claims = (claims.flatMap claimGroupValues).flatMap (splitOn ';') := by
  induction claims with
  | nil => rfl
  | cons kc rest ih =>
    obtain ⟨k, c⟩ := kc
    simp only [tokenGroups, List.flatMap_cons, List.flatMap_append] at ih ⊢
    rw [ih]
    congr 1
    by_cases hk : toLower k = kGroups
    · cases c <;> simp [claimGroupValues, hk]
    · simp [claimGroupValues, hk]

/-! ### FromIncomingContext -/

theorem mdLookup_foldl_put (raw : MD) (key : Str) :
    ∀ acc : MD, (raw.map (fun kv => toLower kv.1)).Nodup →
      mdLookup (raw.foldl (fun out kv => mdPut out (toLower kv.1) kv.2) acc) key =
        match raw.find? (fun kv => decide (toLower kv.1 = key)) with
        | some kv => some kv.2
        | none => mdLookup acc key := by
  induction raw with
  | nil => intro acc _; rfl
  | cons kv rest ih =>
    intro acc hnd
    simp only [List.map_cons, List.nodup_cons] at hnd
    simp only [List.foldl_cons]
    rw [ih _ hnd.2, mdLookup_mdPut]
    by_cases hk : toLower kv.1 = key
    · have hnone : rest.find? (fun kv => decide (toLower kv.1 = key)) = none := by
        rw [List.find?_eq_none]
        intro x hx
        simp only [decide_eq_true_eq]
        intro hxk
        apply hnd.1
        rw [hk, ← hxk]
        exact List.mem_map.mpr ⟨x, hx, rfl⟩
      simp [List.find?, hk, hnone]
    · simp [List.find?, hk]

/-- the handlers' view of incoming metadata: a key is found under its lower-cased form, whatever
    its case on arrival (keys that do not collide after lower-casing). -/
theorem mdLookup_fromIncoming (raw : MD) (key : Str)
    (hnd : (raw.map (fun kv => toLower kv.1)).Nodup) :
    mdLookup (fromIncoming raw) key =
      (raw.find? (fun kv => decide (toLower kv.1 = key))).map (·.2) := by
  unfold fromIncoming
  rw [mdLookup_foldl_put raw key [] hnd]
  cases raw.find? (fun kv => decide (toLower kv.1 = key)) <;> rfl

/-! ### listing -/

theorem listed_facts (roc : Str) (groups : List Str) (id : Str) :
    listed roc groups id = groups.any fun g => id == g || g == roc := by
  simp [listed, Generated.listShape, Generated.listAtoms, evalAtoms, evalAtom, operand]

theorem reportAllTargets_facts (oidc : Str) (rocEnv : Option Str) (groups entities : List Str) :
    reportAllTargets oidc rocEnv groups entities =
      if oidc ≠ [] then entities.filter (fun id => groups.any fun g => id == g || g == rocAdmin rocEnv)
      else entities := by
  unfold reportAllTargets
  have h1 : (Generated.listGuardEnv == Generated.oidcServerURLEnv) = true := by decide
  have h2 : Generated.listElseAppends = true := rfl
  simp only [h1, h2, Bool.true_and, if_true]
  by_cases ho : oidc = []
  · simp [ho]
  · simp only [ho, ne_eq, not_false_eq_true, decide_true, if_true]
    congr 1
    funext id
    exact listed_facts _ _ _

/-- the ROC-admin group name under the current override rule: the default, or a non-empty override. -/
theorem rocAdmin_facts (rocEnv : Option Str) :
    rocAdmin rocEnv =
      match rocEnv with
      | some v => if v = [] then Generated.listRocDefault.toList else v
      | none => Generated.listRocDefault.toList := by
  unfold rocAdmin
  simp only [Generated.listRocOverride]
  cases rocEnv <;> rfl

/-- the ROC-admin group name is never the empty string. -/
theorem rocAdmin_ne_nil (rocEnv : Option Str) : rocAdmin rocEnv ≠ [] := by
  rw [rocAdmin_facts]
  have hd : Generated.listRocDefault.toList ≠ [] := by decide
  cases rocEnv with
  | none => exact hd
  | some v =>
    by_cases hv : v = []
    · simp only [hv, if_true]; exact hd
    · simp only [hv, if_false]; exact hv

end OnosVerif.Rbac
