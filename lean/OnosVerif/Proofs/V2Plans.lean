/-
Plan-level facts of the v2 twin: what a single reconcile invocation can issue, for EVERY state it
may be started in (no reachability needed).  Used by C02, C04, C09, C10, C11.
-/
import OnosVerif.V2.Sys

namespace OnosVerif.V2
open OnosVerif.Config (PV VMap)

/-! ### mastership -/

/-- what the mastership reconciler can write -/
theorem mast_effects (s : Sys) (t : Tgt) (env : Env) :
    ∀ e ∈ (mastReconcile s t env).effects,
      (∃ v, e = .cfgAVals t v) ∨
      ∃ c, s.cfg? t = some c ∧
        ((c.master ≠ 0 ∧ (∀ r ∈ s.rels, r.target = t → False) ∧
            ∃ sh, e = .cfg t c.version .resign sh [] .swallow) ∨
         (∃ r ∈ s.rels, r.target = t ∧ (∀ r' ∈ s.rels, r'.target = t → r'.id ≠ c.master) ∧
            ∃ sh, e = .cfg t c.version (.elect r.id) sh [] .swallow)) := by
  intro e he
  unfold mastReconcile at he
  cases hc : s.cfg? t with
  | none => simp [hc, Plan.nop] at he
  | some c =>
    have hct := by
      unfold Sys.cfg? at hc
      have := List.find?_some hc
      simpa using this
    simp only [hc] at he
    split at he
    · simp [Plan.nop] at he
    · rename_i hnm
      split at he
      · rename_i hempty
        split at he
        · simp [Plan.nop] at he
        · rename_i hm0
          unfold statusWrite at he
          simp only [List.mem_append, List.mem_singleton] at he
          rcases he with he | he
          · split at he
            · simp at he
            · simp only [List.mem_singleton] at he
              exact Or.inl ⟨_, by rw [he, hct]⟩
          · refine Or.inr ⟨c, rfl, Or.inl ⟨hm0, ?_, _, by rw [he, hct]⟩⟩
            intro r hr hrt
            have : r ∈ s.rels.filter (fun r => r.target = t) := by
              simp [List.mem_filter, hr, hrt]
            simp only [List.isEmpty_iff] at hempty
            rw [hempty] at this
            cases this
      · rename_i hne
        unfold statusWrite at he
        simp only [List.mem_append, List.mem_singleton] at he
        rcases he with he | he
        · split at he
          · simp at he
          · simp only [List.mem_singleton] at he
            exact Or.inl ⟨_, by rw [he, hct]⟩
        · -- the picked relation is one of the live relations of the target
          let live := s.rels.filter (fun r => r.target = t)
          have hlive : live ≠ [] := by
            intro h
            apply hne
            show (s.rels.filter (fun r => r.target = t)).isEmpty = true
            rw [show s.rels.filter (fun r => r.target = t) = live from rfl, h]; rfl
          have hpick : (live[env.pick % live.length]?).getD default ∈ live := by
            have hlen : 0 < live.length := List.length_pos_iff.mpr hlive
            have hlt : env.pick % live.length < live.length := Nat.mod_lt _ hlen
            rw [List.getElem?_eq_getElem hlt]
            exact List.getElem_mem hlt
          have hr := List.mem_filter.mp hpick
          refine Or.inr ⟨c, rfl, Or.inr ⟨_, hr.1, by simpa using hr.2, ?_, _, by rw [he, hct]⟩⟩
          intro r' hr' hrt' hid
          apply hnm
          simp only [List.any_eq_true, List.mem_filter, decide_eq_true_eq]
          exact ⟨r', ⟨hr', by simpa using hrt'⟩, hid⟩

/-- an election raises the term by exactly one and installs the picked relation; a resignation
    keeps the term -/
theorem elect_term (c : Cfg) (m : Nat) :
    (applyCfgUpd c (.elect m)).term = c.term + 1 ∧ (applyCfgUpd c (.elect m)).master = m := ⟨rfl, rfl⟩

theorem resign_term (c : Cfg) :
    (applyCfgUpd c .resign).term = c.term ∧ (applyCfgUpd c .resign).master = 0 := ⟨rfl, rfl⟩

/-- no update ever lowers the term -/
theorem applyCfgUpd_term_mono (c : Cfg) (u : CfgUpd) : c.term ≤ (applyCfgUpd c u).term := by
  cases u <;> simp [applyCfgUpd]

/-! ### what is sent southbound -/

def Effect.isDev : Effect → Bool
  | .dev _ => true
  | _ => false

theorem dev_not_mem_statusWrite (r : DevReq) (c : Cfg) (a v : VMap) (u : CfgUpd) (oc : OnConflict) :
    Effect.dev r ∉ statusWrite c a v u oc := by
  unfold statusWrite
  simp only [List.mem_append, List.mem_singleton, not_or]
  constructor
  · split <;> simp
  · simp

theorem propAbort_nodev (s : Sys) (p : Proposal) (r : DevReq) : Effect.dev r ∉ (propAbort s p).effects := by
  unfold propAbort
  repeat' split
  all_goals simp [Plan.nop, dev_not_mem_statusWrite]

theorem propCommit_nodev (s : Sys) (p : Proposal) (env : Env) (r : DevReq) :
    Effect.dev r ∉ (propCommit s p env).effects := by
  unfold propCommit
  repeat' split
  all_goals simp [Plan.nop]

theorem propValidate_nodev (s : Sys) (p : Proposal) (env : Env) (r : DevReq) :
    Effect.dev r ∉ (propValidate s p env).effects := by
  unfold propValidate
  repeat' split
  all_goals simp [Plan.nop]

theorem propInitialize_nodev (s : Sys) (p : Proposal) (r : DevReq) :
    Effect.dev r ∉ (propInitialize s p).effects := by
  unfold propInitialize
  repeat' split
  all_goals simp [Plan.nop, dev_not_mem_statusWrite]

/-- every request a proposal invocation plans carries the configuration's term and master as read,
    and is planned only for the master's live connection, after re-synchronisation in that term,
    strictly after the applied cursor reached the proposal's predecessor -/
theorem prop_dev_guard (s : Sys) (id : PropId) (env : Env) (r : DevReq)
    (h : .dev r ∈ (propReconcile s id env).effects) :
    ∃ p c rel, s.prop? id = some p ∧ s.cfg? p.target = some c ∧ p.apply = .opened ∧
      r.target = p.target ∧ r.term = c.term ∧ r.conn = c.master ∧ r.kind = .apply p.index ∧
      c.master ≠ 0 ∧ s.rel? c.master = some rel ∧ rel.conn = true ∧
      c.state ≠ .synchronizing ∧ ¬ c.appliedTerm < c.term ∧
      c.applied < p.index ∧ (p.prev = 0 ∨ c.applied = p.prev) ∧
      ((r.accepted = true ∧ env.dev = .ok) ∨ (r.accepted = false ∧ ∃ f, env.dev = .fail f)) := by
  unfold propReconcile at h
  cases hp : s.prop? id with
  | none => simp [hp, Plan.nop] at h
  | some p =>
    simp only [hp] at h
    have hnodev : ∀ (pl : Plan), (∀ e ∈ pl.effects, Effect.isDev e = false) → .dev r ∈ pl.effects → False := by
      intro pl hall hm
      have := hall _ hm
      simp [Effect.isDev] at this
    split at h
    · -- apply phase
      unfold propApply at h
      cases hap : p.apply <;> simp only [hap] at h <;> try (simp [Plan.nop] at h)
      · cases hc : s.cfg? p.target with
        | none => simp [hc, Plan.nop] at h
        | some c =>
          simp only [hc] at h
          split at h
          · simp at h
          · rename_i hge
            split at h
            · simp at h
            · rename_i hprev
              split at h
              · simp [Plan.nop] at h
              · rename_i hsync
                split at h
                · simp [Plan.nop] at h
                · rename_i hterm
                  split at h
                  · simp [Plan.nop] at h
                  · rename_i hm0
                    cases hrel : s.rel? c.master with
                    | none => simp [hrel, Plan.nop] at h
                    | some rel =>
                      simp only [hrel] at h
                      split at h
                      · simp [Plan.nop] at h
                      · rename_i hconn
                        have hprev' : p.prev = 0 ∨ c.applied = p.prev := by
                          by_cases h0 : p.prev = 0
                          · exact Or.inl h0
                          · right
                            by_cases h1 : c.applied = p.prev
                            · exact h1
                            · exact absurd ⟨h0, h1⟩ hprev
                        have hfin : ∀ r', r' = r →
                            (r'.target = p.target ∧ r'.term = c.term ∧ r'.conn = c.master ∧ r'.kind = .apply p.index) →
                            ((r'.accepted = true ∧ env.dev = DevResp.ok) ∨ (r'.accepted = false ∧ ∃ f, env.dev = DevResp.fail f)) →
                            _ := fun r' hr' hf hd =>
                          (⟨p, c, rel, rfl, hc, hap, hr' ▸ hf.1, hr' ▸ hf.2.1, hr' ▸ hf.2.2.1, hr' ▸ hf.2.2.2,
                            hm0, hrel, by simpa using hconn, hsync, hterm, by omega, hprev', hr' ▸ hd⟩ :
                            ∃ p' c' rel', some p = some p' ∧ s.cfg? p'.target = some c' ∧ p'.apply = .opened ∧
                              r.target = p'.target ∧ r.term = c'.term ∧ r.conn = c'.master ∧ r.kind = .apply p'.index ∧
                              c'.master ≠ 0 ∧ s.rel? c'.master = some rel' ∧ rel'.conn = true ∧
                              c'.state ≠ .synchronizing ∧ ¬ c'.appliedTerm < c'.term ∧
                              c'.applied < p'.index ∧ (p'.prev = 0 ∨ c'.applied = p'.prev) ∧
                              ((r.accepted = true ∧ env.dev = DevResp.ok) ∨ (r.accepted = false ∧ ∃ f, env.dev = DevResp.fail f)))
                        split at h
                        · simp at h
                        · simp [Plan.nop] at h
                        · -- refused
                          rename_i f hdev
                          simp only [List.mem_append, List.mem_cons, List.mem_singleton, List.not_mem_nil,
                            or_false, dev_not_mem_statusWrite, false_or, or_false, Effect.dev.injEq,
                            reduceCtorEq] at h
                          exact hfin _ h.symm ⟨rfl, rfl, rfl, rfl⟩ (Or.inr ⟨rfl, f, hdev⟩)
                        · -- accepted
                          rename_i hdev
                          simp only [List.mem_append, List.mem_cons, List.mem_singleton, List.not_mem_nil,
                            or_false, dev_not_mem_statusWrite, false_or, or_false, Effect.dev.injEq,
                            reduceCtorEq] at h
                          exact hfin _ h.symm ⟨rfl, rfl, rfl, rfl⟩ (Or.inl ⟨rfl, hdev⟩)
      · split at h <;> simp [Plan.nop] at h
      · split at h <;> simp [Plan.nop] at h
    · split at h
      · exact absurd h (propAbort_nodev s p r)
      · split at h
        · exact absurd h (propCommit_nodev s p env r)
        · split at h
          · exact absurd h (propValidate_nodev s p env r)
          · split at h
            · exact absurd h (propInitialize_nodev s p r)
            · simp at h

theorem mem_of_mem_perms {α : Type} (l : List α) : ∀ p ∈ perms l, ∀ x ∈ p, x ∈ l := by
  induction l with
  | nil => intro p hp x hx; simp [perms] at hp; subst hp; exact hx
  | cons a xs ih =>
    intro p hp x hx
    simp only [perms, List.mem_flatMap, List.mem_map, List.mem_range] at hp
    obtain ⟨q, hq, i, _, hpe⟩ := hp
    subst hpe
    simp only [List.mem_append, List.mem_cons] at hx
    rcases hx with hx | hx | hx
    · exact List.mem_cons_of_mem _ (ih q hq x (List.mem_of_mem_take hx))
    · subst hx; exact List.mem_cons_self
    · exact List.mem_cons_of_mem _ (ih q hq x (List.mem_of_mem_drop hx))

theorem mem_of_mem_permute {α : Type} (n : Nat) (l : List α) (x : α) (h : x ∈ permute n l) : x ∈ l := by
  unfold permute at h
  split at h
  · exact h
  · simp only at h
    cases hg : (perms l)[n % (perms l).length]? with
    | none => simp only [hg, Option.getD_none] at h; exact h
    | some p =>
      simp only [hg, Option.getD_some] at h
      exact mem_of_mem_perms l p (List.mem_of_getElem? hg) x h

theorem mem_groupByIndex (vals : VMap) (g : Nat × List PV) (e : PV)
    (hg : g ∈ groupByIndex vals) (he : e ∈ g.2) : e ∈ vals := by
  unfold groupByIndex at hg
  -- generalise the fold: every member of every group of the accumulator comes from the input
  have key : ∀ (l : VMap) (acc : List (Nat × List PV)),
      (∀ g ∈ acc, ∀ e ∈ g.2, e ∈ vals) → (∀ e ∈ l, e ∈ vals) →
      ∀ g ∈ l.foldl (fun acc e =>
        if acc.any (fun g => g.1 = e.index) then acc.map (fun g => if g.1 = e.index then (g.1, g.2 ++ [e]) else g)
        else acc ++ [(e.index, [e])]) acc, ∀ e ∈ g.2, e ∈ vals := by
    intro l
    induction l with
    | nil => intro acc hacc _; exact hacc
    | cons x xs ih =>
      intro acc hacc hl
      simp only [List.foldl_cons]
      apply ih
      · intro g hg e he
        split at hg
        · simp only [List.mem_map] at hg
          obtain ⟨g0, hg0, hge⟩ := hg
          split at hge
          · subst hge
            simp only [List.mem_append, List.mem_singleton] at he
            rcases he with he | he
            · exact hacc g0 hg0 e he
            · subst he; exact hl _ List.mem_cons_self
          · subst hge; exact hacc g0 hg0 e he
        · simp only [List.mem_append, List.mem_singleton] at hg
          rcases hg with hg | hg
          · exact hacc g hg e he
          · subst hg
            simp only [List.mem_singleton] at he
            subst he; exact hl _ List.mem_cons_self
      · exact fun e he => hl e (List.mem_cons_of_mem _ he)
  exact key vals [] (by intro g hg; cases hg) (fun e he => he) g hg e he

/-- every request the configuration reconciler plans is a re-push of applied values, in the
    SYNCHRONIZING state, over the master's live connection, carrying the current term -/
theorem cfg_dev_guard (s : Sys) (t : Tgt) (env : Env) (r : DevReq)
    (h : .dev r ∈ (cfgReconcile s t env).effects) :
    ∃ c rel, s.cfg? t = some c ∧ c.state = .synchronizing ∧ env.persistent = false ∧
      r.target = c.target ∧ r.term = c.term ∧ r.conn = c.master ∧ c.master ≠ 0 ∧
      s.rel? c.master = some rel ∧ rel.conn = true ∧
      (∃ idx, r.kind = .sync idx) ∧ ∀ e ∈ r.payload, e ∈ c.aview := by
  unfold cfgReconcile at h
  cases hc : s.cfg? t with
  | none => simp [hc, Plan.nop] at h
  | some c =>
    simp only [hc] at h
    have hsync : ∀ (g : List (Nat × List PV)) (n : Nat), (∀ x ∈ g, ∀ e ∈ x.2, e ∈ c.aview) →
        .dev r ∈ syncEffects c g n →
        r.target = c.target ∧ r.term = c.term ∧ r.conn = c.master ∧ (∃ idx, r.kind = .sync idx) ∧
          ∀ e ∈ r.payload, e ∈ c.aview := by
      intro g n hg hm
      unfold syncEffects at hm
      simp only [List.mem_map] at hm
      obtain ⟨x, hx, hxe⟩ := hm
      simp only [Effect.dev.injEq] at hxe
      subst hxe
      exact ⟨rfl, rfl, rfl, ⟨_, rfl⟩, hg x (List.mem_of_mem_take hx)⟩
    have hperm : ∀ x ∈ permute env.ordU (groupByIndex c.aview), ∀ e ∈ x.2, e ∈ c.aview := by
      intro x hx e he
      have hx' : x ∈ groupByIndex c.aview := mem_of_mem_permute _ _ _ hx
      exact mem_groupByIndex _ x e hx' he
    split at h
    · split at h <;> simp [Plan.nop, dev_not_mem_statusWrite] at h
    · rename_i hpers
      split at h
      · split at h <;> simp [Plan.nop, dev_not_mem_statusWrite] at h
      · rename_i hst
        split at h
        · simp [Plan.nop] at h
        · rename_i hm0
          split at h
          · simp [dev_not_mem_statusWrite] at h
          · cases hrel : s.rel? c.master with
            | none => simp [hrel, Plan.nop] at h
            | some rel =>
              simp only [hrel] at h
              split at h
              · simp [Plan.nop] at h
              · rename_i hconn
                have hfin : ∀ g n, .dev r ∈ syncEffects c g n → (∀ x ∈ g, ∀ e ∈ x.2, e ∈ c.aview) → _ :=
                  fun g n hm hg =>
                    let ⟨a1, a2, a3, a4, a5⟩ := hsync g n hg hm
                    (⟨c, rel, rfl, by simpa using hst, by simpa using hpers, a1, a2, a3, hm0, hrel,
                      by simpa using hconn, a4, a5⟩ :
                      ∃ c' rel', some c = some c' ∧ c'.state = CfgState.synchronizing ∧ env.persistent = false ∧
                        r.target = c'.target ∧ r.term = c'.term ∧ r.conn = c'.master ∧ c'.master ≠ 0 ∧
                        s.rel? c'.master = some rel' ∧ rel'.conn = true ∧
                        (∃ idx, r.kind = ReqKind.sync idx) ∧ ∀ e ∈ r.payload, e ∈ c'.aview)
                split at h
                · simp only [List.mem_append, dev_not_mem_statusWrite, or_false] at h
                  exact hfin _ _ h hperm
                · split at h
                  · exact hfin _ _ h hperm
                  · exact hfin _ _ h hperm

/-! ### locality -/

/-- the target an effect writes to (none for transaction records) -/
def Effect.tgt : Effect → Option Tgt
  | .tx _ _ _ => none
  | .prop id _ _ => some id.1
  | .createProp p => some p.target
  | .createCfg t _ => some t
  | .cfgVals t _ => some t
  | .cfgAVals t _ => some t
  | .cfg t _ _ _ _ _ => some t
  | .dev r => some r.target

theorem statusWrite_tgt (c : Cfg) (a v : VMap) (u : CfgUpd) (oc : OnConflict) :
    ∀ e ∈ statusWrite c a v u oc, e.tgt = some c.target := by
  intro e he
  unfold statusWrite at he
  simp only [List.mem_append, List.mem_singleton] at he
  rcases he with he | he
  · split at he
    · simp at he
    · simp only [List.mem_singleton] at he; subst he; rfl
  · subst he; rfl

theorem prop?_target (s : Sys) (id : PropId) (p : Proposal) (h : s.prop? id = some p) :
    p.target = id.1 ∧ p.index = id.2 := by
  unfold Sys.prop? at h
  have := List.find?_some h
  simpa using this

theorem cfg?_tgt (s : Sys) (t : Tgt) (c : Cfg) (h : s.cfg? t = some c) : c.target = t := by
  unfold Sys.cfg? at h
  have := List.find?_some h
  simpa using this

/-- a proposal invocation writes only records of its own target (its proposal, the chain
    neighbour, the target's configuration, the target's device) and never a transaction record:
    whatever happens to it — a refusal included — other targets are not touched -/
theorem prop_plan_local (s : Sys) (id : PropId) (env : Env) :
    ∀ e ∈ (propReconcile s id env).effects, e.tgt = some id.1 := by
  intro e he
  unfold propReconcile at he
  cases hp : s.prop? id with
  | none => simp [hp, Plan.nop] at he
  | some p =>
    obtain ⟨hpt, _⟩ := prop?_target s id p hp
    simp only [hp] at he
    have hsw : ∀ c, s.cfg? p.target = some c → ∀ a v u oc, ∀ e ∈ statusWrite c a v u oc, e.tgt = some id.1 := by
      intro c hc a v u oc e he
      rw [statusWrite_tgt c a v u oc e he, cfg?_tgt s _ c hc, hpt]
    split at he
    · unfold propApply at he
      cases hc : s.cfg? p.target with
      | none => (repeat' split at he) <;> simp_all [Plan.nop]
      | some c =>
        simp only [hc] at he
        repeat' split at he
        all_goals first
          | (simp [Plan.nop] at he; done)
          | (simp only [List.mem_singleton] at he; subst he; simp [Effect.tgt, hpt]; done)
          | (simp only [List.mem_append, List.mem_cons, List.mem_singleton, List.not_mem_nil, or_false] at he
             rcases he with (he | he) | he
             · subst he; simp [Effect.tgt, hpt]
             · exact hsw c hc _ _ _ _ e he
             · subst he; simp [Effect.tgt, hpt])
    · split at he
      · unfold propAbort at he
        cases hc : s.cfg? p.target with
        | none => (repeat' split at he) <;> simp_all [Plan.nop]
        | some c =>
          simp only [hc] at he
          repeat' split at he
          all_goals first
            | (simp [Plan.nop] at he; done)
            | exact hsw c hc _ _ _ _ e he
            | (simp only [List.mem_append, List.mem_singleton] at he
               rcases he with he | he
               · exact hsw c hc _ _ _ _ e he
               · subst he; simp [Effect.tgt, hpt])
      · split at he
        · unfold propCommit at he
          repeat' split at he
          all_goals first
            | (simp [Plan.nop] at he; done)
            | (simp only [List.mem_cons, List.mem_singleton, List.not_mem_nil, or_false] at he
               rcases he with he | he | he <;> subst he <;> simp [Effect.tgt, hpt])
            | (simp only [List.mem_singleton] at he; subst he; simp [Effect.tgt, hpt])
        · split at he
          · unfold propValidate at he
            repeat' split at he
            all_goals first
              | (simp [Plan.nop] at he; done)
              | (simp only [List.mem_singleton] at he; subst he; simp [Effect.tgt, hpt])
          · split at he
            · unfold propInitialize at he
              cases hc : s.cfg? p.target with
              | none =>
                simp only [hc] at he
                repeat' split at he
                all_goals first
                  | (simp [Plan.nop] at he; done)
                  | (simp only [List.mem_singleton] at he; subst he; simp [Effect.tgt, hpt])
              | some c =>
                simp only [hc] at he
                repeat' split at he
                all_goals first
                  | (simp [Plan.nop] at he; done)
                  | exact hsw c hc _ _ _ _ e he
                  | (simp only [List.mem_singleton] at he; subst he; simp [Effect.tgt, hpt]; done)
                  | (simp only [List.mem_singleton] at he; subst he
                     rename_i prevP hprev _
                     have := (prop?_target s _ prevP hprev).1
                     simp [Effect.tgt, this, hpt])
            · simp only [List.mem_singleton] at he
              subst he; rfl

end OnosVerif.V2

namespace OnosVerif.V2
open OnosVerif.Config (PV VMap)

/-- one step of the grouping fold -/
def groupStep (acc : List (Nat × List PV)) (e : PV) : List (Nat × List PV) :=
  if acc.any (fun g => g.1 = e.index) then acc.map (fun g => if g.1 = e.index then (g.1, g.2 ++ [e]) else g)
  else acc ++ [(e.index, [e])]

theorem groupByIndex_eq (vals : VMap) : groupByIndex vals = vals.foldl groupStep [] := rfl

theorem groupStep_keeps (acc : List (Nat × List PV)) (e x : PV) (h : ∃ g ∈ acc, x ∈ g.2) :
    ∃ g ∈ groupStep acc e, x ∈ g.2 := by
  obtain ⟨g, hg, hx⟩ := h
  unfold groupStep
  split
  · by_cases hge : g.1 = e.index
    · exact ⟨(g.1, g.2 ++ [e]), List.mem_map.mpr ⟨g, hg, by simp [hge]⟩, by simp [hx]⟩
    · exact ⟨g, List.mem_map.mpr ⟨g, hg, by simp [hge]⟩, hx⟩
  · exact ⟨g, List.mem_append_left _ hg, hx⟩

theorem groupStep_adds (acc : List (Nat × List PV)) (e : PV) : ∃ g ∈ groupStep acc e, e ∈ g.2 := by
  unfold groupStep
  split
  · rename_i h
    simp only [List.any_eq_true, decide_eq_true_eq] at h
    obtain ⟨g, hg, hge⟩ := h
    exact ⟨(g.1, g.2 ++ [e]), List.mem_map.mpr ⟨g, hg, by simp [hge]⟩, by simp⟩
  · exact ⟨(e.index, [e]), by simp, by simp⟩

/-- the re-synchronisation groups cover every applied value -/
theorem groupByIndex_complete (vals : VMap) : ∀ x ∈ vals, ∃ g ∈ groupByIndex vals, x ∈ g.2 := by
  rw [groupByIndex_eq]
  have key : ∀ (l : VMap) (acc : List (Nat × List PV)) (x : PV),
      (x ∈ l ∨ ∃ g ∈ acc, x ∈ g.2) → ∃ g ∈ l.foldl groupStep acc, x ∈ g.2 := by
    intro l
    induction l with
    | nil =>
      intro acc x h
      rcases h with h | h
      · cases h
      · exact h
    | cons y ys ih =>
      intro acc x h
      simp only [List.foldl_cons]
      apply ih
      rcases h with h | h
      · simp only [List.mem_cons] at h
        rcases h with h | h
        · subst h; exact Or.inr (groupStep_adds acc x)
        · exact Or.inl h
      · exact Or.inr (groupStep_keeps acc y x h)
  intro x hx
  exact key vals [] x (Or.inl hx)

end OnosVerif.V2

namespace OnosVerif.V2

theorem mem_perms_complete {α : Type} (l : List α) : ∀ p ∈ perms l, ∀ x ∈ l, x ∈ p := by
  induction l with
  | nil => intro p _ x hx; cases hx
  | cons a xs ih =>
    intro p hp x hx
    simp only [perms, List.mem_flatMap, List.mem_map, List.mem_range] at hp
    obtain ⟨q, hq, i, _, hpe⟩ := hp
    subst hpe
    simp only [List.mem_cons] at hx
    simp only [List.mem_append, List.mem_cons]
    rcases hx with hx | hx
    · exact Or.inr (Or.inl hx)
    · have hxq := ih q hq x hx
      rw [← List.take_append_drop i q] at hxq
      simp only [List.mem_append] at hxq
      rcases hxq with h | h
      · exact Or.inl h
      · exact Or.inr (Or.inr h)

theorem mem_permute_of_mem {α : Type} (n : Nat) (l : List α) (x : α) (h : x ∈ l) : x ∈ permute n l := by
  unfold permute
  split
  · exact h
  · simp only
    cases hg : (perms l)[n % (perms l).length]? with
    | none => simpa using h
    | some p =>
      simp only [Option.getD_some]
      exact mem_perms_complete l p (List.mem_of_getElem? hg) x h

end OnosVerif.V2
