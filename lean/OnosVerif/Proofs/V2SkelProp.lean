/-
The twin of the v2 proposal reconciler equals the control skeleton regenerated from
pkg/controller/v2/proposal/controller.go, function by function, for every state.
-/
import OnosVerif.Generated.Facts
import OnosVerif.Proofs.V2SkelAtoms

namespace OnosVerif.V2.Skel
open OnosVerif.Generated
open OnosVerif.V2

theorem ph_cases (x : Ph) (h : x ≠ .none) : x = .opened ∨ x = .done ∨ x = .failed := by
  cases x <;> simp_all

/-- `configurations.UpdateStatus`: the side-map half is inside the store call -/
theorem toks_statusWrite (w : Writers) (c : Cfg) (a v : Config.VMap) (u : CfgUpd) (oc : OnConflict) :
    (statusWrite c a v u oc).flatMap (effToks w c) = cfgUpdToks c u ++ [.write w.cfgStatus] := by
  unfold statusWrite
  cases a <;> simp [effToks]

/-- evaluation of the bridge's own definitions, using the case hypotheses -/
macro "skel_all" : tactic => `(tactic| simp_all [Nat.blt_eq, Nat.ble_eq, phCode, fCode, cfgStateCode, devCode, devFailure, proj, proj_append, plumbing, planTraceProp, retProp, effToks,
  propUpdToks, cfgUpdToks, toks_statusWrite, Plan.nop])

/-- bring the conditions of both sides to the top -/
macro "skel_lift" : tactic => `(tactic| simp only [proj_ite, append_ite, cons_ite, planTraceProp_ite, Plan.nop,
  List.append_assoc, List.cons_append, List.nil_append])

/-- case split on a guard, and rewrite the guard itself (both sides mention it) before anything
    normalises the hypothesis -/
macro "gsplit " h:ident " : " t:term : tactic => `(tactic| (by_cases $h:ident : $t <;> simp [$h:ident, Nat.blt_eq, Nat.ble_eq]))

/-- evaluation of the bridge's own definitions -/
macro "skel_eval" : tactic => `(tactic| simp [Nat.blt_eq, Nat.ble_eq, phCode, fCode, cfgStateCode, devCode, devFailure, proj, proj_append, plumbing, planTraceProp, retProp, effToks,
  propUpdToks, cfgUpdToks, toks_statusWrite, Plan.nop])

theorem skel_prop_abort (s : Sys) (p : Proposal) (env : Env) (o : Option Proposal)
    (hph : p.abort ≠ .none) (hnext : p.next ≠ p.index) :
    proj (v2sk_prop_abort (gProp s p o env)) =
      planTraceProp (p.target, p.index) ((s.cfg? p.target).getD default) (propAbort s p) := by
  unfold v2sk_prop_abort propAbort gProp
  gPropOf_atoms
  rcases ph_cases _ hph with hab | hab | hab <;> simp only [hab]
  · -- ABORTING
    cases hc : s.cfg? p.target with
    | none => skel_eval
    | some c =>
      simp only [phCode, Option.getD_some, Option.isNone_some]
      by_cases h1 : c.committed = p.prev <;> by_cases h2 : c.applied = p.prev <;>
        by_cases h3 : c.committed ≥ p.index <;> simp [h1, h2, h3, Nat.ble_eq] <;> skel_all
  · -- ABORTED
    by_cases h : p.next = 0 <;> skel_all
  · skel_eval

theorem skel_prop_commit (s : Sys) (p : Proposal) (env : Env) (o : Option Proposal)
    (hph : p.commit ≠ .none) (hnext : p.next ≠ p.index) :
    proj (v2sk_prop_commit (gProp s p o env)) =
      planTraceProp (p.target, p.index) ((s.cfg? p.target).getD default) (propCommit s p env) := by
  unfold v2sk_prop_commit propCommit gProp
  gPropOf_atoms
  rcases ph_cases _ hph with hab | hab | hab <;> simp only [hab]
  · -- COMMITTING
    cases hc : s.cfg? p.target with
    | none => skel_eval
    | some c =>
      simp only [phCode, Option.getD_some, Option.isNone_some]
      by_cases h1 : c.committed = p.prev <;> by_cases hr : p.isRollback = true <;> skel_all
  · -- COMMITTED
    by_cases h : p.next = 0 <;> skel_all
  · skel_eval

theorem skel_prop_initialize (s : Sys) (p : Proposal) (env : Env)
    (hph : p.init ≠ .none) :
    proj (v2sk_prop_initialize (gProp s p (s.prop? (p.target, ((s.cfg? p.target).getD default).proposed)) env)) =
      planTraceProp (p.target, p.index) ((s.cfg? p.target).getD default) (propInitialize s p) := by
  unfold v2sk_prop_initialize propInitialize gProp
  gPropOf_atoms
  rcases ph_cases _ hph with hab | hab | hab <;> simp only [hab]
  · -- INITIALIZING
    cases hc : s.cfg? p.target with
    | none => skel_eval
    | some c =>
      simp only [phCode, Option.getD_some, Option.isNone_some]
      gsplit h1 : c.proposed < p.index
      · gsplit h2 : 0 < c.proposed
        · rcases Option.eq_none_or_eq_some (s.prop? (p.target, c.proposed)) with ho | ⟨q, ho⟩ <;> simp only [ho]
          · skel_all
          · by_cases h3 : q.next = 0 <;> by_cases h4 : p.prev = 0 <;> skel_all
        · skel_all
      · skel_all
  · skel_eval
  · skel_eval

theorem skel_prop_validate (s : Sys) (p : Proposal) (env : Env)
    (hph : p.validate ≠ .none) (hprev : p.prev ≠ p.index) :
    proj (v2sk_prop_validate (gProp s p (s.prop? (p.target, p.rollbackOf)) env)) =
      planTraceProp (p.target, p.index) ((s.cfg? p.target).getD default) (propValidate s p env) := by
  unfold v2sk_prop_validate propValidate gProp
  gPropOf_atoms
  rcases ph_cases _ hph with hab | hab | hab <;> simp only [hab]
  · -- VALIDATING
    cases hc : s.cfg? p.target with
    | none => skel_eval
    | some c =>
      simp only [phCode, Option.getD_some, Option.isNone_some]
      cases hpl : env.plugin with
      | none =>
        gsplit h1 : p.prev = 0
        · skel_all
        · gsplit h2 : c.committed = p.prev <;> skel_all
      | some verdict =>
        gsplit h1 : p.prev = 0
        · by_cases hr : p.isRollback = true
          · gsplit h3 : c.index = p.rollbackOf
            · rcases Option.eq_none_or_eq_some (s.prop? (p.target, p.rollbackOf)) with ho | ⟨q, ho⟩ <;> simp only [ho]
              · cases verdict <;> skel_all
              · by_cases hq : q.isRollback = true <;> cases verdict <;> skel_all
            · cases verdict <;> skel_all
          · cases verdict <;> skel_all
        · gsplit h2 : c.committed = p.prev
          · by_cases hr : p.isRollback = true
            · gsplit h3 : c.index = p.rollbackOf
              · rcases Option.eq_none_or_eq_some (s.prop? (p.target, p.rollbackOf)) with ho | ⟨q, ho⟩ <;> simp only [ho]
                · cases verdict <;> skel_all
                · by_cases hq : q.isRollback = true <;> cases verdict <;> skel_all
              · cases verdict <;> skel_all
            · cases verdict <;> skel_all
          · skel_all
  · skel_eval
  · skel_eval

@[simp] theorem cfgStateCode_eq_one (x : CfgState) : cfgStateCode x = 1 ↔ x = .synchronizing := by
  cases x <;> simp [cfgStateCode]

set_option hygiene false in
/-- the part of reconcileApply after the two cursor guards -/
macro "apply_tail" : tactic => `(tactic| (
  gsplit h3 : c.state = .synchronizing
  · skel_all
  · gsplit h4 : c.appliedTerm < c.term
    · skel_all
    · gsplit h5 : c.master = 0
      · skel_all
      · rcases Option.eq_none_or_eq_some (s.rel? c.master) with hr | ⟨rel, hr⟩ <;> simp only [hr]
        · skel_all
        · cases hconn : rel.conn
          · skel_all
          · by_cases hrb : p.isRollback = true <;> rcases hd with hd | ⟨f, hd⟩ <;> skel_all))

theorem skel_prop_apply (s : Sys) (p : Proposal) (env : Env) (o : Option Proposal)
    (hph : p.apply ≠ .none) (hprev : p.prev ≠ p.index) (hnext : p.next ≠ p.index)
    (hd : env.dev = .ok ∨ ∃ f, env.dev = .fail f) :
    proj (v2sk_prop_apply (gProp s p o env)) =
      planTraceProp (p.target, p.index) ((s.cfg? p.target).getD default) (propApply s p env) := by
  unfold v2sk_prop_apply propApply gProp
  gPropOf_atoms
  rcases ph_cases _ hph with hab | hab | hab <;> simp only [hab]
  · -- APPLYING
    cases hc : s.cfg? p.target with
    | none => skel_eval
    | some c =>
      simp only [phCode, Option.getD_some, Option.isNone_some]
      gsplit h0 : c.applied ≥ p.index
      · skel_all
      · gsplit h1 : p.prev = 0
        · apply_tail
        · gsplit h2 : c.applied = p.prev
          · apply_tail
          · skel_all
  · by_cases h : p.next = 0 <;> skel_all
  · by_cases h : p.next = 0 <;> skel_all

macro "skel_or" : tactic => `(tactic| first | (apply Or.inl; skel_all; done) | (apply Or.inr; skel_all; done))

set_option hygiene false in
macro "apply_tail_t" : tactic => `(tactic| (
  gsplit h3 : c.state = .synchronizing
  · skel_or
  · gsplit h4 : c.appliedTerm < c.term
    · skel_or
    · gsplit h5 : c.master = 0
      · skel_or
      · rcases Option.eq_none_or_eq_some (s.rel? c.master) with hr | ⟨rel, hr⟩ <;> simp only [hr]
        · skel_or
        · cases hconn : rel.conn
          · skel_or
          · by_cases hrb : p.isRollback = true <;> rcases hd with hd | hd <;> skel_or))

/-- A transient answer (`retry`: Unavailable / Canceled / DeadlineExceeded, the invocation returns the
    error; `wait`: PermissionDenied, it returns nil): the twin's plan records no southbound request
    for it, the Go code has made one — the traces agree up to that request. -/
theorem skel_prop_apply_transient (s : Sys) (p : Proposal) (env : Env) (o : Option Proposal)
    (hph : p.apply ≠ .none) (hprev : p.prev ≠ p.index) (hnext : p.next ≠ p.index)
    (hd : env.dev = .retry ∨ env.dev = .wait) :
    proj (v2sk_prop_apply (gProp s p o env)) =
      planTraceProp (p.target, p.index) ((s.cfg? p.target).getD default) (propApply s p env) ∨
    proj (v2sk_prop_apply (gProp s p o env)) =
      .write "conn.Set" :: planTraceProp (p.target, p.index) ((s.cfg? p.target).getD default) (propApply s p env) := by
  unfold v2sk_prop_apply propApply gProp
  gPropOf_atoms
  rcases ph_cases _ hph with hab | hab | hab <;> simp only [hab]
  · -- APPLYING
    cases hc : s.cfg? p.target with
    | none => apply Or.inl; skel_eval
    | some c =>
      simp only [phCode, Option.getD_some, Option.isNone_some]
      gsplit h0 : c.applied ≥ p.index
      · skel_or
      · gsplit h1 : p.prev = 0
        · apply_tail_t
        · gsplit h2 : c.applied = p.prev
          · apply_tail_t
          · skel_or
  · by_cases h : p.next = 0 <;> skel_or
  · by_cases h : p.next = 0 <;> skel_or

/-- the phase dispatch (`reconcileProposal`, the twin's `propReconcile`): the first non-nil phase in
    the order Apply, Abort, Commit, Validate, Initialize decides which function runs; a proposal
    without phases gets its Initialize phase -/
theorem skel_prop_dispatch (s : Sys) (p : Proposal) (env : Env) (o : Option Proposal) :
    v2sk_prop_dispatch (gProp s p o env) =
      if p.apply ≠ .none then [.call "r.reconcileApply", .ret "call" []]
      else if p.abort ≠ .none then [.call "r.reconcileAbort", .ret "call" []]
      else if p.commit ≠ .none then [.call "r.reconcileCommit", .ret "call" []]
      else if p.validate ≠ .none then [.call "r.reconcileValidate", .ret "call" []]
      else if p.init ≠ .none then [.call "r.reconcileInitialize", .ret "call" []]
      else planTraceProp (p.target, p.index) default
        { effects := [.prop (p.target, p.index) p.version .openInit] } := by
  unfold v2sk_prop_dispatch gProp
  gPropOf_atoms
  by_cases h1 : p.apply = .none <;> by_cases h2 : p.abort = .none <;> by_cases h3 : p.commit = .none <;>
    by_cases h4 : p.validate = .none <;> by_cases h5 : p.init = .none <;> skel_all

/-- `updateProposalStatus` returns the store's error unless it is NotFound or Conflict: a lost
    compare-and-set lets the invocation go on (the twin: `continues` on `conflictSwallowed` / `missing`
    for `Effect.prop`) -/
theorem skel_prop_updateStatus (g : V2G) :
    proj (v2sk_prop_updateStatus g) =
      .write "r.proposals.UpdateStatus" ::
        (if g.b "err@r.proposals.UpdateStatus#1" &&
            !(g.b "errors.IsNotFound(err)@r.proposals.UpdateStatus#1") &&
            !(g.b "errors.IsConflict(err)@r.proposals.UpdateStatus#1") then [.ret "err" []] else [.ret "nil" []]) := by
  unfold v2sk_prop_updateStatus
  cases g.b "err@r.proposals.UpdateStatus#1" <;> cases g.b "errors.IsNotFound(err)@r.proposals.UpdateStatus#1" <;>
    cases g.b "errors.IsConflict(err)@r.proposals.UpdateStatus#1" <;> simp [proj]

end OnosVerif.V2.Skel
