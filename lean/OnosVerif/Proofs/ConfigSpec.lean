/- The reference semantics read path by path (`Spec.get (Spec.apply st ch) p = specAt …`). -/
import OnosVerif.Proofs.ConfigPreserve

namespace OnosVerif.Config
open OnosVerif.Path (Str)

namespace Spec

/-- the paths of a configuration are pairwise different. -/
def NodupK (st : State) : Prop := st.Pairwise (fun a b => a.1 ≠ b.1)

theorem get_nil (p : Str) : get [] p = none := rfl

theorem get_cons (kv : Str × Str) (r : State) (p : Str) :
    get (kv :: r) p = if kv.1 = p then some kv.2 else get r p := by
  simp only [get, List.find?_cons]
  by_cases h : kv.1 = p <;> simp [h]

theorem get_none_iff (st : State) (p : Str) : get st p = none ↔ ∀ kv ∈ st, kv.1 ≠ p := by
  induction st with
  | nil => simp [get_nil]
  | cons x r ih =>
    rw [get_cons]
    by_cases hx : x.1 = p
    · simp [hx]
    · simp only [hx, if_false, ih, List.mem_cons, forall_eq_or_imp, ne_eq, not_false_eq_true, true_and]

theorem any_eq_get (st : State) (p : Str) : st.any (fun kv => kv.1 = p) = (get st p).isSome := by
  induction st with
  | nil => rfl
  | cons x r ih =>
    rw [get_cons]
    simp only [List.any_cons, ih]
    by_cases hx : x.1 = p <;> simp [hx]

theorem get_map_replace (p v q : Str) : ∀ (st : State),
    get (st.map (fun kv => if kv.1 = p then (p, v) else kv)) q =
      if q = p then (if st.any (fun kv => kv.1 = p) then some v else none) else get st q
  | [] => by simp [get_nil]
  | x :: r => by
    have ih := get_map_replace p v q r
    simp only [List.map_cons, get_cons, List.any_cons]
    by_cases hx : x.1 = p
    · by_cases hq : q = p
      · subst hq; simp [hx]
      · have h1 : ¬ p = q := fun h => hq h.symm
        have h2 : ¬ x.1 = q := fun h => hq (by rw [← h, hx])
        simp only [hx, if_true, h1, if_false, hq, h2]
        rw [ih]; simp [hq]
    · by_cases hq : q = p
      · subst hq
        simp only [hx, if_false, if_true, decide_false, Bool.false_or]
        rw [ih]; simp
      · simp only [hx, if_false, hq]
        by_cases hxq : x.1 = q
        · simp [hxq]
        · simp only [hxq, if_false]
          rw [ih]; simp [hq]

theorem get_append_single (st : State) (kv : Str × Str) (q : Str) :
    get (st ++ [kv]) q = match get st q with
      | some x => some x
      | none => if kv.1 = q then some kv.2 else none := by
  induction st with
  | nil => simp [get_cons, get_nil]
  | cons x r ih =>
    simp only [List.cons_append, get_cons]
    by_cases hx : x.1 = q
    · simp [hx]
    · simp only [hx, if_false]; exact ih

theorem get_set (st : State) (p v q : Str) : get (set st p v) q = if q = p then some v else get st q := by
  unfold set
  by_cases hh : st.any (fun kv => kv.1 = p) = true
  · simp only [hh, if_true]
    rw [get_map_replace]; simp [hh]
  · simp only [hh, Bool.false_eq_true, if_false]
    rw [get_append_single]
    have hnone : get st p = none := by
      have := any_eq_get st p
      cases hg : get st p with
      | none => rfl
      | some _ => rw [hg] at this; simp only [Option.isSome_some] at this; exact absurd this hh
    by_cases hq : q = p
    · subst hq; simp [hnone]
    · have : ¬ p = q := fun h => hq h.symm
      simp only [hq, if_false, this]
      cases get st q <;> rfl

theorem get_filter (f : Str → Bool) : ∀ (st : State) (q : Str),
    get (st.filter (fun kv => f kv.1)) q = if f q then get st q else none
  | [], q => by simp [get_nil]
  | x :: r, q => by
    have ih := get_filter f r q
    simp only [List.filter_cons]
    by_cases hf : f x.1 = true
    · simp only [hf, if_true, get_cons]
      by_cases hx : x.1 = q
      · subst hx; simp [hf]
      · simp only [hx, if_false]; exact ih
    · simp only [hf, Bool.false_eq_true, if_false, get_cons]
      rw [ih]
      by_cases hx : x.1 = q
      · subst hx; simp [hf]
      · simp [hx]

theorem keys_set (st : State) (p v : Str) :
    (set st p v).map (·.1) = if st.any (fun kv => kv.1 = p) then st.map (·.1) else st.map (·.1) ++ [p] := by
  unfold set
  by_cases hh : st.any (fun kv => kv.1 = p) = true
  · simp only [hh, if_true, List.map_map]
    apply List.map_congr_left
    intro x _
    simp only [Function.comp]
    by_cases hx : x.1 = p <;> simp [hx]
  · simp [hh]

theorem nodupK_iff (st : State) : NodupK st ↔ (st.map (·.1)).Nodup := by
  simp [NodupK, List.Nodup, List.pairwise_map]

theorem nodupK_set (st : State) (p v : Str) (h : NodupK st) : NodupK (set st p v) := by
  rw [nodupK_iff] at h ⊢
  rw [keys_set]
  by_cases hh : st.any (fun kv => kv.1 = p) = true
  · simp [hh, h]
  · simp only [hh, Bool.false_eq_true, if_false]
    rw [List.nodup_append]
    refine ⟨h, by simp, ?_⟩
    intro a ha b hb hab
    simp only [List.mem_singleton] at hb
    apply hh
    simp only [List.any_eq_true, decide_eq_true_eq]
    simp only [List.mem_map] at ha
    obtain ⟨x, hx, hxa⟩ := ha
    exact ⟨x, hx, by rw [hxa, hab, hb]⟩

theorem foldl_set_get : ∀ (cs : VMap) (st : State) (q : Str), NodupP cs →
    get (cs.foldl (fun s c => set s c.path c.value) st) q =
      match VMap.get cs q with
      | some c => some c.value
      | none => get st q
  | [], st, q, _ => by simp [Config.get_nil]
  | c :: rest, st, q, hn => by
    have hn' := hn
    simp only [NodupP, List.pairwise_cons] at hn'
    simp only [List.foldl_cons]
    rw [foldl_set_get rest _ q hn'.2, Config.get_cons]
    by_cases hc : c.path = q
    · subst hc
      have : VMap.get rest c.path = none := (Config.get_none rest c.path).2 (fun e he h => hn'.1 e he h.symm)
      simp [this, get_set]
    · have hc' : ¬ q = c.path := fun h => hc h.symm
      simp only [hc, if_false, get_set, hc']

theorem foldl_set_nodup : ∀ (cs : VMap) (st : State), NodupK st →
    NodupK (cs.foldl (fun s c => set s c.path c.value) st)
  | [], _, h => h
  | c :: rest, st, h => foldl_set_nodup rest _ (nodupK_set st c.path c.value h)

theorem apply_nodup (st : State) (change : VMap) (h : NodupK st) : NodupK (apply st change) :=
  foldl_set_nodup _ _ (List.Pairwise.sublist List.filter_sublist h)

end Spec

theorem get_filter_live (change : VMap) (hn : NodupP change) (q : Str) :
    VMap.get (change.filter (fun c => !c.deleted)) q =
      match VMap.get change q with
      | some c => if c.deleted then none else some c
      | none => none := by
  induction change with
  | nil => simp [get_nil]
  | cons x r ih =>
    have hn' := hn
    simp only [NodupP, List.pairwise_cons] at hn'
    rw [get_cons]
    simp only [List.filter_cons]
    by_cases hx : x.path = q
    · subst hx
      have hr : VMap.get r x.path = none := (get_none r x.path).2 (fun e he h => hn'.1 e he h.symm)
      by_cases hd : x.deleted = true
      · simp only [hd, Bool.not_true, Bool.false_eq_true, if_false, if_true]
        rw [ih hn'.2, hr]
      · have hd' : x.deleted = false := by simpa using hd
        simp [hd', get_cons]
    · by_cases hd : x.deleted = true
      · simp only [hd, Bool.not_true, Bool.false_eq_true, if_false, hx]
        exact ih hn'.2
      · have hd' : x.deleted = false := by simpa using hd
        simp only [hd', Bool.not_false, if_true, get_cons, hx, if_false]
        exact ih hn'.2

/-- the reference semantics of one request, read path by path. -/
theorem spec_apply_get (st : Spec.State) (change : VMap) (hn : NodupP change) (p : Str) :
    Spec.get (Spec.apply st change) p = specAt (Spec.get st) change p := by
  unfold Spec.apply specAt
  have hnf : NodupP (change.filter (fun c => !c.deleted)) := List.Pairwise.sublist List.filter_sublist hn
  rw [Spec.foldl_set_get _ _ p hnf, get_filter_live change hn p]
  cases hc : VMap.get change p with
  | some c =>
    simp only
    by_cases hd : c.deleted = true
    · simp only [hd, if_true]
      rw [Spec.get_filter (fun q => !(Spec.deletes change).any (fun d => under q d))]
      have : (Spec.deletes change).any (fun d => under p d) = true := by
        apply List.any_eq_true.2
        exact ⟨c.path, (mem_deletes change _).2 ⟨c, (get_some change p c hc).1, hd, rfl⟩,
          by rw [(get_some change p c hc).2]; exact under_refl p⟩
      simp [this]
    · simp [hd]
  | none =>
    simp only
    rw [Spec.get_filter (fun q => !(Spec.deletes change).any (fun d => under q d))]
    cases (Spec.deletes change).any (fun d => under p d) <;> simp

end OnosVerif.Config
