/- `applyChangeToConfig` and the loop of `reconcileCommit` over the updated change, extensionally. -/
import OnosVerif.Proofs.ConfigCascade

namespace OnosVerif.Config
open OnosVerif.Path (Str getParentPath lastIndexOf)

/-! ### textual prefixes -/

theorem hasPrefix_iff : ∀ (s p : Str), hasPrefix s p = true ↔ ∃ r, s = p ++ r
  | s, [] => by simp [hasPrefix]
  | [], _ :: _ => by simp [hasPrefix]
  | c :: cs, p :: ps => by
    simp only [hasPrefix, Bool.and_eq_true, decide_eq_true_eq, hasPrefix_iff cs ps, List.cons_append,
      List.cons.injEq]
    constructor
    · rintro ⟨h, r, hr⟩; exact ⟨r, h, hr⟩
    · rintro ⟨r, h, hr⟩; exact ⟨h, r, hr⟩

theorem hasPrefix_refl (s : Str) : hasPrefix s s = true := (hasPrefix_iff s s).2 ⟨[], by simp⟩

theorem hasPrefix_trans (a b c : Str) (h1 : hasPrefix a b = true) (h2 : hasPrefix b c = true) :
    hasPrefix a c = true := by
  obtain ⟨r1, h1⟩ := (hasPrefix_iff a b).1 h1
  obtain ⟨r2, h2⟩ := (hasPrefix_iff b c).1 h2
  exact (hasPrefix_iff a c).2 ⟨r2 ++ r1, by rw [h1, h2]; simp⟩

/-- `a` is above `q` at a `/`: `q` starts with `a ++ "/"`. -/
def slashAbove (a q : Str) : Bool := hasPrefix q (a ++ ['/'])

theorem slashAbove_hasPrefix (a q : Str) (h : slashAbove a q = true) : hasPrefix q a = true := by
  obtain ⟨r, hr⟩ := (hasPrefix_iff _ _).1 h
  exact (hasPrefix_iff q a).2 ⟨'/' :: r, by rw [hr]; simp⟩

theorem slashAbove_ne (a q : Str) (h : slashAbove a q = true) : q ≠ a := by
  obtain ⟨r, hr⟩ := (hasPrefix_iff _ _).1 h
  intro hq
  rw [hq] at hr
  have := congrArg List.length hr
  simp at this

theorem slashAbove_under (a q : Str) (h : slashAbove a q = true) : under q a = true := by
  simp only [under, Bool.or_eq_true]
  exact Or.inl (Or.inr h)

theorem slashAbove_trans (a b q : Str) (h1 : slashAbove a b = true) (h2 : hasPrefix q b = true) :
    slashAbove a q = true := hasPrefix_trans _ _ _ h2 h1

/-! ### GetParentPath -/

theorem lastIndexOf_spec (f : Char) : ∀ (s : Str) (i : Nat) (last : Option Nat) (j : Nat),
    lastIndexOf f i s last = some j → last = some j ∨ (i ≤ j ∧ s[j - i]? = some f)
  | [], _, last, j, h => by simp only [lastIndexOf] at h; exact Or.inl h
  | c :: cs, i, last, j, h => by
    simp only [lastIndexOf] at h
    rcases lastIndexOf_spec f cs (i + 1) _ j h with h1 | ⟨h1, h2⟩
    · by_cases hc : c = f
      · simp only [hc, if_true, Option.some.injEq] at h1
        subst h1
        right; simp [hc]
      · simp only [hc, if_false] at h1
        exact Or.inl h1
    · right
      refine ⟨by omega, ?_⟩
      have : j - i = (j - (i + 1)) + 1 := by omega
      rw [this, List.getElem?_cons_succ]
      exact h2

theorem getParentPath_spec (path : Str) (h : getParentPath path ≠ []) :
    slashAbove (getParentPath path) path = true := by
  unfold getParentPath at h ⊢
  cases hl : lastIndexOf '/' 0 path none with
  | none => rw [hl] at h; exact absurd rfl h
  | some i =>
    rw [hl] at h
    simp only at h ⊢
    by_cases hi : i = 0
    · simp [hi] at h
    · simp only [hi, if_false]
      rcases lastIndexOf_spec '/' path 0 none i hl with h1 | ⟨_, h2⟩
      · simp at h1
      · simp only [Nat.sub_zero] at h2
        apply (hasPrefix_iff _ _).2
        refine ⟨path.drop (i + 1), ?_⟩
        have hlt : i < path.length := by
          by_cases hlt : i < path.length
          · exact hlt
          · rw [List.getElem?_eq_none (by omega)] at h2; simp at h2
        have hdrop : path.drop i = '/' :: path.drop (i + 1) := by
          rw [List.drop_eq_getElem_cons hlt]
          have : path[i] = '/' := by
            rw [List.getElem?_eq_getElem hlt] at h2
            exact Option.some.inj h2
          rw [this]
        calc path = path.take i ++ path.drop i := (List.take_append_drop i path).symm
          _ = path.take i ++ ['/'] ++ path.drop (i + 1) := by rw [hdrop]; simp

theorem deletedParent_spec (values : VMap) : ∀ (fuel : Nat) (path : Str) (v : PV),
    deletedParent values fuel path = some v →
    v.deleted = true ∧ VMap.get values v.path = some v ∧ slashAbove v.path path = true
  | 0, _, _, h => by simp [deletedParent] at h
  | fuel + 1, path, v, h => by
    simp only [deletedParent] at h
    by_cases hpe : (getParentPath path).isEmpty = true
    · simp [hpe] at h
    · simp only [hpe, Bool.false_eq_true, if_false] at h
      have hne : getParentPath path ≠ [] := by
        intro hh; rw [hh] at hpe; simp at hpe
      have hpar := getParentPath_spec path hne
      cases hg : VMap.get values (getParentPath path) with
      | none =>
        rw [hg] at h
        obtain ⟨h1, h2, h3⟩ := deletedParent_spec values fuel _ v h
        exact ⟨h1, h2, slashAbove_trans _ _ _ h3 (slashAbove_hasPrefix _ _ hpar)⟩
      | some w =>
        rw [hg] at h
        simp only at h
        by_cases hw : w.deleted = true
        · simp only [hw, if_true, Option.some.injEq] at h
          subst h
          have hwp := get_path values _ w hg
          exact ⟨hw, by rw [hwp]; exact hg, by rw [hwp]; exact hpar⟩
        · simp only [hw, Bool.false_eq_true, if_false] at h
          obtain ⟨h1, h2, h3⟩ := deletedParent_spec values fuel _ v h
          exact ⟨h1, h2, slashAbove_trans _ _ _ h3 (slashAbove_hasPrefix _ _ hpar)⟩

theorem applyChange_eq (values : VMap) (u : PV) :
    applyChangeToConfig values u =
      match deletedParent (values.set u) u.path.length u.path with
      | some v => ((values.set u).erase v.path, some v)
      | none => (values.set u, none) := rfl

/-- one `applyChangeToConfig`: the value is set; possibly one *deleted* entry above it is removed. -/
theorem applyChange_get (values : VMap) (u : PV) :
    (∀ p, VMap.get (applyChangeToConfig values u).1 p = if p = u.path then some u else VMap.get values p) ∨
    (∃ t, t.deleted = true ∧ VMap.get values t.path = some t ∧ slashAbove t.path u.path = true ∧
      ∀ p, VMap.get (applyChangeToConfig values u).1 p =
        if p = t.path then none else if p = u.path then some u else VMap.get values p) := by
  rw [applyChange_eq]
  cases hd : deletedParent (values.set u) u.path.length u.path with
  | none =>
    left; intro p
    simp only [get_set]
  | some t =>
    right
    obtain ⟨h1, h2, h3⟩ := deletedParent_spec _ _ _ t hd
    have hne : t.path ≠ u.path := fun h => slashAbove_ne _ _ h3 h.symm
    rw [get_set, if_neg hne] at h2
    refine ⟨t, h1, h2, h3, ?_⟩
    intro p
    simp only [get_erase, get_set]

theorem applyChange_nodup (values : VMap) (u : PV) (h : NodupP values) :
    NodupP (applyChangeToConfig values u).1 := by
  rw [applyChange_eq]
  cases deletedParent (values.set u) u.path.length u.path with
  | none => exact nodupP_set _ _ h
  | some t => exact nodupP_erase _ _ (nodupP_set _ _ h)

theorem applyAll_nodup : ∀ (us vals : VMap), NodupP vals → NodupP (applyAll us vals)
  | [], _, h => h
  | u :: rest, vals, h => applyAll_nodup rest _ (applyChange_nodup vals u h)

/-- the loop over the updated change, path by path: a value of the updated change is there (a
    deleted one may have been removed again by a later value below it); any other path holds what it
    held, except that a deleted entry may have been removed by a value below it. -/
theorem applyAll_get : ∀ (us vals : VMap), NodupP us → ∀ p,
    match VMap.get us p with
    | some u => VMap.get (applyAll us vals) p = some u ∨
        (u.deleted = true ∧ VMap.get (applyAll us vals) p = none ∧ ∃ u' ∈ us, slashAbove p u'.path = true)
    | none => VMap.get (applyAll us vals) p = VMap.get vals p ∨
        (∃ e, VMap.get vals p = some e ∧ e.deleted = true ∧ VMap.get (applyAll us vals) p = none ∧
          ∃ u' ∈ us, slashAbove p u'.path = true)
  | [], vals, _, p => by simp [get_nil, applyAll]
  | u0 :: rest, vals, hn, p => by
    have hn' := hn
    simp only [NodupP, List.pairwise_cons] at hn'
    have hrest0 : VMap.get rest u0.path = none := (get_none rest u0.path).2 (fun e he h => hn'.1 e he h.symm)
    have ih := applyAll_get rest (applyChangeToConfig vals u0).1 hn'.2 p
    simp only [applyAll]
    rw [get_cons]
    by_cases hp : u0.path = p
    · subst hp
      simp only [if_true]
      rw [hrest0] at ih
      simp only at ih
      -- the entry at u0.path after the first step is u0
      have hfirst : VMap.get (applyChangeToConfig vals u0).1 u0.path = some u0 := by
        rcases applyChange_get vals u0 with h | ⟨t, _, _, h3, h⟩
        · rw [h]; simp
        · rw [h]
          have : ¬ u0.path = t.path := fun e => slashAbove_ne _ _ h3 e
          simp [this]
      rcases ih with ih | ⟨e, he, hed, hnone, u', hu', habove⟩
      · left; rw [ih, hfirst]
      · rw [hfirst] at he
        have := Option.some.inj he
        subst this
        right
        exact ⟨hed, hnone, u', List.mem_cons_of_mem _ hu', habove⟩
    · simp only [hp, if_false]
      cases hgr : VMap.get rest p with
      | some u =>
        rw [hgr] at ih
        simp only at ih ⊢
        rcases ih with ih | ⟨hd, hnone, u', hu', habove⟩
        · exact Or.inl ih
        · exact Or.inr ⟨hd, hnone, u', List.mem_cons_of_mem _ hu', habove⟩
      | none =>
        rw [hgr] at ih
        simp only at ih ⊢
        have hp' : ¬ p = u0.path := fun h => hp h.symm
        rcases applyChange_get vals u0 with h | ⟨t, htd, htg, htabove, h⟩
        · rw [h p, if_neg hp'] at ih
          rcases ih with ih | ⟨e, he, hed, hnone, u', hu', habove⟩
          · exact Or.inl ih
          · exact Or.inr ⟨e, he, hed, hnone, u', List.mem_cons_of_mem _ hu', habove⟩
        · rw [h p] at ih
          by_cases hpt : p = t.path
          · subst hpt
            simp only [if_true] at ih
            rcases ih with ih | ⟨e, he, _⟩
            · exact Or.inr ⟨t, htg, htd, ih, u0, List.mem_cons_self, htabove⟩
            · simp at he
          · simp only [hpt, if_false, hp'] at ih
            rcases ih with ih | ⟨e, he, hed, hnone, u', hu', habove⟩
            · exact Or.inl ih
            · exact Or.inr ⟨e, he, hed, hnone, u', List.mem_cons_of_mem _ hu', habove⟩

end OnosVerif.Config
