/-
Bridge, part 2: what leaves the core unchanged, and the reflexive-transitive closure of `CStep`.
-/
import OnosVerif.Proofs.V3Bridge
namespace OnosVerif.V3

/-! ## What leaves the core unchanged -/

theorem Core.setTx_self {k : Core} {i : Nat} {t : TxC} (h : k.tx i = some t) : k.setTx i t = k := by
  unfold Core.setTx
  unfold Core.tx at h
  split
  · rfl
  · rename_i h0
    simp only [h0, if_false] at h
    have := List.getElem?_eq_some_iff.mp h
    obtain ⟨hlt, he⟩ := this
    have : k.txs.set (i - 1) t = k.txs := by
      rw [← he]; exact List.set_getElem_self hlt
    rw [this]

theorem core_sideWrite (s : Sys) (v : Values) (last : Option Str) : core (sideWrite s v last) = core s := by
  unfold sideWrite; split <;> rfl

theorem core_touchCfg (s : Sys) : core (touchCfg s) = core s := rfl

theorem core_touchTx (s : Sys) (i : Nat) : core (touchTx s i) = core s := by
  unfold touchTx
  cases h : getTx s i with
  | none => rfl
  | some t =>
    simp only
    rw [core_setTx h]
    exact Core.setTx_self (t := t.core) (core_tx_some h)

theorem core_devSet (s : Sys) (v : Values) (e : Nat) (n : Str) : core (devSet s v e n).1 = core s := by
  unfold devSet
  split
  · rfl
  · dsimp only
    split <;> rfl

theorem core_stepEnv (s : Sys) (e : EnvOp) : core (stepEnv s e) = core s := by
  cases e <;> simp only [stepEnv] <;> (try split) <;> rfl

theorem core_envCfgWrite (s : Sys) (c : Cfg) (inj : List Inj) (last : Option Str) (hc : c.cur = s.cfg.cur) :
    core (envCfgWrite s c inj last).1 = core s := by
  unfold envCfgWrite
  dsimp only
  split
  · dsimp only
    split
    · rfl
    · simp only [core]
      congr 1
  · dsimp only
    split
    · rfl
    · simp only [core]
      congr 1
  · rfl
  · dsimp only
    rw [core_sideWrite, core_touchCfg]
  · dsimp only
    rw [core_sideWrite]

end OnosVerif.V3

namespace OnosVerif.V3

theorem core_stepCfg (s : Sys) (ans : Str) (inj : List Inj) (last : Option Str) (order : List Nat) :
    core (stepCfg s ans inj last order).1 = core s := by
  unfold stepCfg
  dsimp only
  repeat' split
  all_goals first | rfl | (dsimp only; exact core_envCfgWrite _ _ _ _ rfl) | (dsimp only; exact (core_envCfgWrite _ _ _ _ rfl).trans rfl)

end OnosVerif.V3

namespace OnosVerif.V3

theorem core_stepMast (s : Sys) (pick : Option Str) (inj : List Inj) (last : Option Str) :
    core (stepMast s pick inj last).1 = core s := by
  unfold stepMast
  dsimp only
  repeat' split
  all_goals first | rfl | (dsimp only; exact core_envCfgWrite _ _ _ _ rfl) | (dsimp only; exact (core_envCfgWrite _ _ _ _ rfl).trans rfl)

theorem core_nbAppend (s : Sys) (vals : Values) :
    core (nbAppend s vals) = { core s with txs := (core s).txs ++ [freshTx] } := by
  simp [nbAppend, core, Tx.core, freshTx]

inductive CStar : Core → Core → Prop
  | refl (k : Core) : CStar k k
  | tail {k k' k'' : Core} (h : CStar k k') (hs : CStep k' k'') : CStar k k''

theorem CStar.single {k k' : Core} (hs : CStep k k') : CStar k k' := .tail (.refl k) hs

theorem CStar.trans {k k' k'' : Core} (h1 : CStar k k') (h2 : CStar k' k'') : CStar k k'' := by
  induction h2 with
  | refl => exact h1
  | tail _ hs ih => exact .tail ih hs

theorem CReach.star {k k' : Core} (h : CReach k) (hs : CStar k k') : CReach k' := by
  induction hs with
  | refl => exact h
  | tail _ hs ih => exact .step _ _ ih hs

theorem CStar.of_eq {k k' : Core} (h : k' = k) : CStar k k' := by subst h; exact .refl _

/-- a northbound rollback request on the twin is a rollback step of the core (or nothing) -/
theorem nbRollback_star (s : Sys) (i : Nat) : CStar (core s) (core (nbRollback s i).1) := by
  unfold nbRollback
  cases hg : getTx s i with
  | none => exact .refl _
  | some t =>
    simp only
    split
    · rename_i hc
      simp only
      rw [core_setTx hg]
      apply CStar.single
      have : ({ t with phase := .rollback, rc := some .pending, ra := some .pending, ver := t.ver + 1 } : Tx).core
          = cRollback t.core := rfl
      rw [this]
      exact CStep.rollback (core s) i t.core (core_tx_some hg) (by simp only [canRollback, Bool.and_eq_true, decide_eq_true_eq] at hc; simp [cCanRollback, Tx.core, hc.1, hc.2])
    · exact .refl _

end OnosVerif.V3
