/-
Mastership terms never decrease — along every run of the world, unconditionally (no invariant is
needed: no configuration update lowers the term, whatever state it is applied to).
-/
import OnosVerif.Proofs.V2Lookup
import OnosVerif.Proofs.V2Plans

namespace OnosVerif.V2

/-- configurations persist and their term does not decrease -/
def TermLe (s s' : Sys) : Prop :=
  ∀ t c, s.cfg? t = some c → ∃ c', s'.cfg? t = some c' ∧ c.term ≤ c'.term

theorem TermLe.of_cfgs_eq (s s' : Sys) (h : s'.cfgs = s.cfgs) : TermLe s s' := by
  intro t c hc
  exact ⟨c, by unfold Sys.cfg? at hc ⊢; rw [h]; exact hc, Nat.le_refl _⟩

theorem TermLe.trans (a b c : Sys) (h1 : TermLe a b) (h2 : TermLe b c) : TermLe a c := by
  intro t x hx
  obtain ⟨y, hy, hxy⟩ := h1 t x hx
  obtain ⟨z, hz, hyz⟩ := h2 t y hy
  exact ⟨z, hz, Nat.le_trans hxy hyz⟩

theorem termLe_setCfg (s : Sys) (t : Tgt) (c c' : Cfg) (hc : s.cfg? t = some c)
    (ht : c'.target = c.target) (hterm : c.term ≤ c'.term) : TermLe s (s.setCfg c') := by
  have hct := cfg?_target s t c hc
  intro t2 c2 h2
  rw [cfg?_setCfg]
  by_cases h : t2 = c'.target
  · simp only [h, if_true]
    have : t2 = t := by rw [h, ht, hct]
    subst this
    rw [hc] at h2
    simp only [Option.some.injEq] at h2
    subst h2
    rw [← h, hc]
    exact ⟨c', rfl, hterm⟩
  · simp only [h, if_false]
    exact ⟨c2, h2, Nat.le_refl _⟩

theorem exec_termLe (s : Sys) (e : Effect) : TermLe s (exec s e).1 := by
  cases e with
  | tx i ver u =>
    simp only [exec]
    cases s.tx? i with
    | none => exact TermLe.of_cfgs_eq _ _ rfl
    | some t => simp only; split <;> exact TermLe.of_cfgs_eq _ _ rfl
  | prop id ver u =>
    simp only [exec]
    cases s.prop? id with
    | none => exact TermLe.of_cfgs_eq _ _ rfl
    | some p => simp only; split <;> exact TermLe.of_cfgs_eq _ _ rfl
  | createProp p =>
    simp only [exec]
    cases s.prop? (p.target, p.index) <;> exact TermLe.of_cfgs_eq _ _ rfl
  | createCfg t n =>
    simp only [exec]
    cases hc : s.cfg? t with
    | some c => exact TermLe.of_cfgs_eq _ _ rfl
    | none =>
      intro t2 c2 h2
      refine ⟨c2, ?_, Nat.le_refl _⟩
      unfold Sys.cfg? at h2 ⊢
      simp only
      rw [find?_append_absent, h2]
  | cfgVals t v =>
    simp only [exec]
    cases hc : s.cfg? t with
    | none => exact TermLe.of_cfgs_eq _ _ rfl
    | some c => exact termLe_setCfg s t c _ hc rfl (Nat.le_refl _)
  | cfgAVals t v =>
    simp only [exec]
    cases hc : s.cfg? t with
    | none => exact TermLe.of_cfgs_eq _ _ rfl
    | some c => exact termLe_setCfg s t c _ hc rfl (Nat.le_refl _)
  | cfg t ver u sh ash oc =>
    simp only [exec]
    cases hc : s.cfg? t with
    | none => exact TermLe.of_cfgs_eq _ _ rfl
    | some c =>
      simp only
      split
      · have hbase : TermLe s (s.setCfg { applyCfgUpd c u with version := c.version + 1, shadow := sh.getD [], ashadow := ash }) :=
          termLe_setCfg s t c _ hc (by cases u <;> rfl) (applyCfgUpd_term_mono c u)
        cases u <;> exact hbase
      · exact TermLe.of_cfgs_eq _ _ rfl
  | dev r =>
    apply TermLe.of_cfgs_eq
    simp only [exec]
    by_cases h : r.accepted = true
    · simp only [h, if_true, Sys.setDev]; split <;> rfl
    · simp only [h, if_false]; rfl

theorem step_termLe (w : World) (st : Step) : TermLe w.sys (step w st).sys := by
  cases st with
  | begin id env =>
    simp only [step]
    split
    · exact TermLe.of_cfgs_eq _ _ rfl
    · split <;> exact TermLe.of_cfgs_eq _ _ rfl
  | adv k =>
    simp only [step]
    cases w.pend[k]? with
    | none => exact TermLe.of_cfgs_eq _ _ rfl
    | some p =>
      simp only
      cases p.effects with
      | nil => exact TermLe.of_cfgs_eq _ _ rfl
      | cons e rest =>
        simp only
        split
        · split <;> exact exec_termLe w.sys e
        · exact exec_termLe w.sys e
  | failNext k =>
    simp only [step]
    cases w.pend[k]? <;> exact TermLe.of_cfgs_eq _ _ rfl
  | crash => exact TermLe.of_cfgs_eq _ _ rfl
  | nbSet tx => exact TermLe.of_cfgs_eq _ _ rfl
  | fault f =>
    apply TermLe.of_cfgs_eq
    cases f <;> simp only [step, applyFault, Sys.setDev] <;> (try split) <;> rfl

theorem run_termLe (w : World) (steps : List Step) : TermLe w.sys (run w steps).sys := by
  induction steps generalizing w with
  | nil => exact TermLe.of_cfgs_eq _ _ rfl
  | cons st rest ih => exact TermLe.trans _ _ _ (step_termLe w st) (ih (step w st))

end OnosVerif.V2
