/-
Layer 3 of the invariants of the protocol core: ordinals and the apply sequencer (`OInv`).
Ordinals are handed out by `Committed.Ordinal` in commit order, so they are distinct and increase
with the log index among committed changes; `Applied.Ordinal` processes them one by one, which is
what makes applies (and aborts, and failures) happen in commit order.
-/
import OnosVerif.Proofs.V3Inv2

namespace OnosVerif.V3

structure OGl (c : Cur) (n : Nat) : Prop where
  a_le : c.aOrdinal ≤ c.cOrdinal

structure OTx (c : Cur) (n : Nat) (j : Nat) (t : TxC) : Prop where
  cord1 : t.cc = .complete → 1 ≤ t.cord ∧ t.cord ≤ c.cOrdinal
  rord1 : t.rc = some .complete → 1 ≤ t.rord ∧ t.rord ≤ c.cOrdinal
  selfr : t.cc = .complete → t.rc = some .complete → t.cord < t.rord
  lagA : j = c.cChange → t.cc = .inProgress → c.aOrdinal < c.cOrdinal
  rlagA : j = c.cChange → t.rc = some .inProgress → c.cRevision ≠ c.cChange → c.aOrdinal < c.cOrdinal ∧ t.cord < c.cOrdinal
  a1 : t.ca = .inProgress → c.aOrdinal + 1 = t.cord ∨ (c.aOrdinal = t.cord ∧ c.aRevision = j)
  a2 : (t.ca = .aborted ∨ t.ca = .failed) → t.cord ≤ c.aOrdinal + 1
  a3 : t.ca = .complete → t.cord ≤ c.aOrdinal
  a4 : t.ca = .pending → t.cc = .complete → c.aOrdinal < t.cord
  a1r : t.ra = some .inProgress → c.aOrdinal + 1 = t.rord ∨ c.aOrdinal = t.rord
  a3r : (t.ra = some .complete ∨ t.ra = some .failed) → t.rord ≤ c.aOrdinal
  a4r : t.ra = some .pending → t.rc = some .complete → c.aOrdinal < t.rord
  radom : t.ra = none ∨ t.ra = some .pending ∨ t.ra = some .inProgress ∨ t.ra = some .complete ∨ t.ra = some .failed
  cadom : t.ca = .pending ∨ t.ca = .inProgress ∨ t.ca = .complete ∨ t.ca = .aborted ∨ t.ca = .failed ∨ t.ca = .canceled

structure OPair (c : Cur) (j1 : Nat) (t1 : TxC) (j2 : Nat) (t2 : TxC) : Prop where
  mono : j1 < j2 → t1.cc = .complete → t2.cc = .complete → t1.cord < t2.cord
  rordgt : t1.cc = .complete → t2.rc = some .complete → t1.cord < t2.rord
  lag : j2 = c.cChange → t2.cc = .inProgress → t1.cc = .complete → t1.cord < c.cOrdinal
  rlag : j2 = c.cChange → t2.rc = some .inProgress → c.cRevision ≠ c.cChange → t1.cc = .complete → t1.cord < c.cOrdinal

abbrev OInv := Inv3 OGl OTx OPair

theorem OInv.init : OInv {} := by
  constructor
  · exact ⟨by simp⟩
  · intro j t h; simp [Core.tx] at h
  · intro j1 t1 j2 t2 h; simp [Core.tx] at h

theorem pred64_of_pos {n : Nat} (h : 1 ≤ n) : pred64 n + 1 = n := by
  unfold pred64
  have : ¬ n = 0 := by omega
  simp only [this, if_false]
  omega

end OnosVerif.V3
