/-
Layer 3 of the invariants of the protocol core: ordinals and the apply sequencer (`OInv`).
Ordinals are handed out by `Committed.Ordinal` in commit order, so they are distinct and increase
with the log index among committed changes; `Applied.Ordinal` processes them one by one, which is
what makes applies (and aborts, and failures) happen in commit order.
-/
import OnosVerif.Proofs.V3Inv2

namespace OnosVerif.V3

structure OGl (c : Cur) (n : Nat) : Prop where
  a_le : c.aOrdinal ≤ c.cOrdinal

structure OTx (c : Cur) (n : Nat) (j : Nat) (t : TxC) : Prop where
  cord1 : t.cc = .complete → 1 ≤ t.cord ∧ t.cord ≤ c.cOrdinal
  rord1 : t.rc = some .complete → 1 ≤ t.rord ∧ t.rord ≤ c.cOrdinal
  selfr : t.cc = .complete → t.rc = some .complete → t.cord < t.rord
  lagA : j = c.cChange → t.cc = .inProgress → c.aOrdinal < c.cOrdinal
  rlagA : j = c.cChange → t.rc = some .inProgress → c.cRevision ≠ c.cChange → c.aOrdinal < c.cOrdinal ∧ t.cord < c.cOrdinal
  a1 : t.ca = .inProgress → (c.aOrdinal + 1 = t.cord ∧ c.aTarget = j) ∨
    (c.aOrdinal = t.cord ∧ c.aRevision = j ∧ c.aIndex = j ∧ c.aTarget = j)
  ra_ca : (t.ra = some .inProgress ∨ t.ra = some .complete ∨ t.ra = some .failed) → t.ca ≠ .pending ∧ t.ca ≠ .inProgress
  a2 : (t.ca = .aborted ∨ t.ca = .failed) → t.cord ≤ c.aOrdinal + 1
  a3 : t.ca = .complete → t.cord ≤ c.aOrdinal
  a4 : t.ca = .pending → t.cc = .complete → c.aOrdinal < t.cord
  a1r : t.ra = some .inProgress → c.aOrdinal + 1 = t.rord ∨ c.aOrdinal = t.rord
  a3r : (t.ra = some .complete ∨ t.ra = some .failed) → t.rord ≤ c.aOrdinal
  a4r : t.ra = some .pending → t.rc = some .complete → c.aOrdinal < t.rord
  radom : t.ra = none ∨ t.ra = some .pending ∨ t.ra = some .inProgress ∨ t.ra = some .complete ∨ t.ra = some .failed
  cadom : t.ca = .pending ∨ t.ca = .inProgress ∨ t.ca = .complete ∨ t.ca = .aborted ∨ t.ca = .failed ∨ t.ca = .canceled

structure OPair (c : Cur) (j1 : Nat) (t1 : TxC) (j2 : Nat) (t2 : TxC) : Prop where
  mono : j1 < j2 → t1.cc = .complete → t2.cc = .complete → t1.cord < t2.cord
  rordgt : t1.cc = .complete → t2.rc = some .complete → t1.cord < t2.rord
  lag : j2 = c.cChange → t2.cc = .inProgress → t1.cc = .complete → t1.cord < c.cOrdinal
  rlag : j2 = c.cChange → t2.rc = some .inProgress → c.cRevision ≠ c.cChange → t1.cc = .complete → t1.cord < c.cOrdinal
  one_ip : t1.ca = .inProgress → t2.ca = .inProgress → False
  ab_ip : (t1.ca = .aborted ∨ t1.ca = .failed) → c.aOrdinal < t1.cord → t2.ca ≠ .inProgress

abbrev OInv := Inv3 OGl OTx OPair

theorem OInv.init : OInv {} := by
  constructor
  · exact ⟨by simp⟩
  · intro j t h; simp [Core.tx] at h
  · intro j1 t1 j2 t2 h; simp [Core.tx] at h

/-- what the `prevTransaction` tests say about the transaction at `Applied.Index` -/
structure PB (k : Core) (i : Nat) (j : Nat) (t : TxC) : Prop where
  apply : j = k.cur.aIndex → cPrevBusyApply k = some false →
    ¬ (k.cur.aTarget = k.cur.aIndex ∧ (t.ca = .pending ∨ t.ca = .inProgress))
  rbAbort : j = k.cur.aIndex → cPrevBusyRbAbort k = some false →
    ¬ (k.cur.aTarget = k.cur.aIndex ∧ (t.ca = .pending ∨ t.ca = .inProgress))
  rbApply : j = k.cur.aIndex → cPrevBusyRbApply k i = some false →
    ¬ (k.cur.aIndex = i ∧ (t.ca = .pending ∨ t.ca = .inProgress))
  commit : j = k.cur.cIndex → cPrevBusyCommit k = some false →
    ¬ (k.cur.cTarget = k.cur.cIndex ∧ (t.cc = .pending ∨ t.cc = .inProgress))

theorem PB.of {k : Core} {i j : Nat} {t : TxC} (hj : k.tx j = some t) : PB k i j t := by
  constructor
  · intro e hB
    subst e
    unfold cPrevBusyApply at hB
    rw [hj] at hB
    simp only at hB
    rintro ⟨h1, h2 | h2⟩ <;> simp_all [PS.leInProgress, PS.toNat]
  · intro e hB
    subst e
    unfold cPrevBusyRbAbort at hB
    rw [hj] at hB
    simp only at hB
    rintro ⟨h1, h2 | h2⟩ <;> simp_all [PS.ltComplete, PS.toNat]
  · intro e hB
    subst e
    unfold cPrevBusyRbApply at hB
    rw [hj] at hB
    simp only at hB
    rintro ⟨h1, h2 | h2⟩ <;> simp_all [PS.ltComplete, PS.toNat]
  · intro e hB
    subst e
    unfold cPrevBusyCommit at hB
    rw [hj] at hB
    simp only at hB
    rintro ⟨h1, h2 | h2⟩ <;> simp_all [PS.leInProgress, PS.toNat]

theorem pred64_of_pos {n : Nat} (h : 1 ≤ n) : pred64 n + 1 = n := by
  unfold pred64
  have : ¬ n = 0 := by omega
  simp only [this, if_false]
  omega

/-! ## Preservation by the writes of an enabled branch

The eight lemmas below are the closed first-order obligations of `Inv3.upd` for the first write and
for both writes of every branch (`cases he`), discharged by `grind`. -/

set_option maxHeartbeats 4000000 in
theorem OInv.first_g {k : Core} {i : Nat} {t : TxC} {a : Act} {rest : List Act} (hc : CInv k) (h : OInv k)
    (ht : k.tx i = some t) (he : Enabled k i t (a :: rest)) :
    OGl (cActCur k.cur a) k.txs.length := by
  obtain ⟨g1, g2, g3, g4⟩ := hc.cgl
  obtain ⟨x1,x2,x3,x4,x5,x6,x7,x8,x9,x10,x11,x12,x13,x14,x15,x16⟩ := hc.ctx ht
  obtain ⟨w1,w2,w3,w4,w5,w6,w7,w8⟩ := x1
  obtain ⟨o1,o2,o3,o4,o5,o6,o7,o8,o9,o10,o11,o12,o13,o14,o15⟩ := h.one i t ht
  obtain ⟨og⟩ := h.gl
  obtain ⟨b1,b2,b3,b4⟩ := PB.of (i := i) ht
  have hp64 := @pred64_of_pos
  cases he <;> simp only [cActTx, cActCur] <;> constructor <;> grind

set_option maxHeartbeats 4000000 in
theorem OInv.first_s {k : Core} {i : Nat} {t : TxC} {a : Act} {rest : List Act} (hc : CInv k) (h : OInv k)
    (ht : k.tx i = some t) (he : Enabled k i t (a :: rest)) :
    OTx (cActCur k.cur a) k.txs.length i (cActTx t a) := by
  obtain ⟨g1, g2, g3, g4⟩ := hc.cgl
  obtain ⟨x1,x2,x3,x4,x5,x6,x7,x8,x9,x10,x11,x12,x13,x14,x15,x16⟩ := hc.ctx ht
  obtain ⟨w1,w2,w3,w4,w5,w6,w7,w8⟩ := x1
  obtain ⟨o1,o2,o3,o4,o5,o6,o7,o8,o9,o10,o11,o12,o13,o14,o15⟩ := h.one i t ht
  obtain ⟨og⟩ := h.gl
  obtain ⟨b1,b2,b3,b4⟩ := PB.of (i := i) ht
  have hp64 := @pred64_of_pos
  cases he <;> simp only [cActTx, cActCur] <;> constructor <;> grind

set_option maxHeartbeats 8000000 in
theorem OInv.first_o {k : Core} {i : Nat} {t : TxC} {a : Act} {rest : List Act} (hc : CInv k) (h : OInv k)
    (ht : k.tx i = some t) (he : Enabled k i t (a :: rest)) :
    ∀ j tj, j ≠ i → (CTx k.cur k.txs.length j tj ∧ PB k i j tj) → OTx k.cur k.txs.length j tj →
      OPair k.cur j tj i t → OPair k.cur i t j tj →
      OTx (cActCur k.cur a) k.txs.length j tj ∧ OPair (cActCur k.cur a) j tj i (cActTx t a) ∧ OPair (cActCur k.cur a) i (cActTx t a) j tj := by
  obtain ⟨g1, g2, g3, g4⟩ := hc.cgl
  obtain ⟨x1,x2,x3,x4,x5,x6,x7,x8,x9,x10,x11,x12,x13,x14,x15,x16⟩ := hc.ctx ht
  obtain ⟨w1,w2,w3,w4,w5,w6,w7,w8⟩ := x1
  obtain ⟨o1,o2,o3,o4,o5,o6,o7,o8,o9,o10,o11,o12,o13,o14,o15⟩ := h.one i t ht
  obtain ⟨og⟩ := h.gl
  obtain ⟨b1,b2,b3,b4⟩ := PB.of (i := i) ht
  have hp64 := @pred64_of_pos
  intro j tj hne hx h1 h2 h3
  obtain ⟨⟨y1,y2,y3,y4,y5,y6,y7,y8,y9,y10,y11,y12,y13,y14,y15,y16⟩, ⟨z1,z2,z3,z4⟩⟩ := hx
  obtain ⟨v1,v2,v3,v4,v5,v6,v7,v8⟩ := y1
  obtain ⟨p1,p2,p3,p4,p5,p6,p7,p8,p9,p10,p11,p12,p13,p14,p15⟩ := h1
  obtain ⟨q1,q2,q3,q4,q5,q6⟩ := h2
  obtain ⟨r1,r2,r3,r4,r5,r6⟩ := h3
  cases he <;> simp only [cActTx, cActCur] <;> refine ⟨?_, ?_, ?_⟩ <;> constructor <;> grind

set_option maxHeartbeats 8000000 in
theorem OInv.first_p {k : Core} {i : Nat} {t : TxC} {a : Act} {rest : List Act} (hc : CInv k) (h : OInv k)
    (ht : k.tx i = some t) (he : Enabled k i t (a :: rest)) :
    ∀ j1 t1 j2 t2, j1 ≠ i → j2 ≠ i → j1 ≠ j2 →
      (CTx k.cur k.txs.length j1 t1 ∧ PB k i j1 t1) → (CTx k.cur k.txs.length j2 t2 ∧ PB k i j2 t2) →
      OTx k.cur k.txs.length j1 t1 → OTx k.cur k.txs.length j2 t2 →
      OPair k.cur j1 t1 i t → OPair k.cur i t j1 t1 → OPair k.cur j2 t2 i t → OPair k.cur i t j2 t2 →
      OPair k.cur j1 t1 j2 t2 → OPair (cActCur k.cur a) j1 t1 j2 t2 := by
  obtain ⟨g1, g2, g3, g4⟩ := hc.cgl
  obtain ⟨x1,x2,x3,x4,x5,x6,x7,x8,x9,x10,x11,x12,x13,x14,x15,x16⟩ := hc.ctx ht
  obtain ⟨w1,w2,w3,w4,w5,w6,w7,w8⟩ := x1
  obtain ⟨o1,o2,o3,o4,o5,o6,o7,o8,o9,o10,o11,o12,o13,o14,o15⟩ := h.one i t ht
  obtain ⟨og⟩ := h.gl
  obtain ⟨b1,b2,b3,b4⟩ := PB.of (i := i) ht
  have hp64 := @pred64_of_pos
  intro j1 t1 j2 t2 hn1 hn2 hne hx1 hx2 h1 h2 h3 h4 h5 h6 h7
  obtain ⟨⟨y1,y2,y3,y4,y5,y6,y7,y8,y9,y10,y11,y12,y13,y14,y15,y16⟩, ⟨z1,z2,z3,z4⟩⟩ := hx1
  obtain ⟨v1,v2,v3,v4,v5,v6,v7,v8⟩ := y1
  obtain ⟨⟨Y1,Y2,Y3,Y4,Y5,Y6,Y7,Y8,Y9,Y10,Y11,Y12,Y13,Y14,Y15,Y16⟩, ⟨Z1,Z2,Z3,Z4⟩⟩ := hx2
  obtain ⟨V1,V2,V3,V4,V5,V6,V7,V8⟩ := Y1
  obtain ⟨p1,p2,p3,p4,p5,p6,p7,p8,p9,p10,p11,p12,p13,p14,p15⟩ := h1
  obtain ⟨P1,P2,P3,P4,P5,P6,P7,P8,P9,P10,P11,P12,P13,P14,P15⟩ := h2
  obtain ⟨q1,q2,q3,q4,q5,q6⟩ := h3
  obtain ⟨r1,r2,r3,r4,r5,r6⟩ := h4
  obtain ⟨Q1,Q2,Q3,Q4,Q5,Q6⟩ := h5
  obtain ⟨R1,R2,R3,R4,R5,R6⟩ := h6
  obtain ⟨s1,s2,s3,s4,s5,s6⟩ := h7
  cases he <;> simp only [cActTx, cActCur] <;> constructor <;> grind

set_option maxHeartbeats 4000000 in
theorem OInv.both_g {k : Core} {i : Nat} {t : TxC} {a b : Act} (hc : CInv k) (h : OInv k)
    (ht : k.tx i = some t) (he : Enabled k i t [a, b]) :
    OGl (cActCur (cActCur k.cur a) b) k.txs.length := by
  obtain ⟨g1, g2, g3, g4⟩ := hc.cgl
  obtain ⟨x1,x2,x3,x4,x5,x6,x7,x8,x9,x10,x11,x12,x13,x14,x15,x16⟩ := hc.ctx ht
  obtain ⟨w1,w2,w3,w4,w5,w6,w7,w8⟩ := x1
  obtain ⟨o1,o2,o3,o4,o5,o6,o7,o8,o9,o10,o11,o12,o13,o14,o15⟩ := h.one i t ht
  obtain ⟨og⟩ := h.gl
  obtain ⟨b1,b2,b3,b4⟩ := PB.of (i := i) ht
  have hp64 := @pred64_of_pos
  cases he <;> simp only [cActTx, cActCur] <;> constructor <;> grind

set_option maxHeartbeats 4000000 in
theorem OInv.both_s {k : Core} {i : Nat} {t : TxC} {a b : Act} (hc : CInv k) (h : OInv k)
    (ht : k.tx i = some t) (he : Enabled k i t [a, b]) :
    OTx (cActCur (cActCur k.cur a) b) k.txs.length i (cActTx (cActTx t a) b) := by
  obtain ⟨g1, g2, g3, g4⟩ := hc.cgl
  obtain ⟨x1,x2,x3,x4,x5,x6,x7,x8,x9,x10,x11,x12,x13,x14,x15,x16⟩ := hc.ctx ht
  obtain ⟨w1,w2,w3,w4,w5,w6,w7,w8⟩ := x1
  obtain ⟨o1,o2,o3,o4,o5,o6,o7,o8,o9,o10,o11,o12,o13,o14,o15⟩ := h.one i t ht
  obtain ⟨og⟩ := h.gl
  obtain ⟨b1,b2,b3,b4⟩ := PB.of (i := i) ht
  have hp64 := @pred64_of_pos
  cases he <;> simp only [cActTx, cActCur] <;> constructor <;> grind

set_option maxHeartbeats 8000000 in
theorem OInv.both_o {k : Core} {i : Nat} {t : TxC} {a b : Act} (hc : CInv k) (h : OInv k)
    (ht : k.tx i = some t) (he : Enabled k i t [a, b]) :
    ∀ j tj, j ≠ i → (CTx k.cur k.txs.length j tj ∧ PB k i j tj) → OTx k.cur k.txs.length j tj →
      OPair k.cur j tj i t → OPair k.cur i t j tj →
      OTx (cActCur (cActCur k.cur a) b) k.txs.length j tj ∧ OPair (cActCur (cActCur k.cur a) b) j tj i (cActTx (cActTx t a) b) ∧ OPair (cActCur (cActCur k.cur a) b) i (cActTx (cActTx t a) b) j tj := by
  obtain ⟨g1, g2, g3, g4⟩ := hc.cgl
  obtain ⟨x1,x2,x3,x4,x5,x6,x7,x8,x9,x10,x11,x12,x13,x14,x15,x16⟩ := hc.ctx ht
  obtain ⟨w1,w2,w3,w4,w5,w6,w7,w8⟩ := x1
  obtain ⟨o1,o2,o3,o4,o5,o6,o7,o8,o9,o10,o11,o12,o13,o14,o15⟩ := h.one i t ht
  obtain ⟨og⟩ := h.gl
  obtain ⟨b1,b2,b3,b4⟩ := PB.of (i := i) ht
  have hp64 := @pred64_of_pos
  intro j tj hne hx h1 h2 h3
  obtain ⟨⟨y1,y2,y3,y4,y5,y6,y7,y8,y9,y10,y11,y12,y13,y14,y15,y16⟩, ⟨z1,z2,z3,z4⟩⟩ := hx
  obtain ⟨v1,v2,v3,v4,v5,v6,v7,v8⟩ := y1
  obtain ⟨p1,p2,p3,p4,p5,p6,p7,p8,p9,p10,p11,p12,p13,p14,p15⟩ := h1
  obtain ⟨q1,q2,q3,q4,q5,q6⟩ := h2
  obtain ⟨r1,r2,r3,r4,r5,r6⟩ := h3
  cases he <;> simp only [cActTx, cActCur] <;> refine ⟨?_, ?_, ?_⟩ <;> constructor <;> grind

set_option maxHeartbeats 8000000 in
theorem OInv.both_p {k : Core} {i : Nat} {t : TxC} {a b : Act} (hc : CInv k) (h : OInv k)
    (ht : k.tx i = some t) (he : Enabled k i t [a, b]) :
    ∀ j1 t1 j2 t2, j1 ≠ i → j2 ≠ i → j1 ≠ j2 →
      (CTx k.cur k.txs.length j1 t1 ∧ PB k i j1 t1) → (CTx k.cur k.txs.length j2 t2 ∧ PB k i j2 t2) →
      OTx k.cur k.txs.length j1 t1 → OTx k.cur k.txs.length j2 t2 →
      OPair k.cur j1 t1 i t → OPair k.cur i t j1 t1 → OPair k.cur j2 t2 i t → OPair k.cur i t j2 t2 →
      OPair k.cur j1 t1 j2 t2 → OPair (cActCur (cActCur k.cur a) b) j1 t1 j2 t2 := by
  obtain ⟨g1, g2, g3, g4⟩ := hc.cgl
  obtain ⟨x1,x2,x3,x4,x5,x6,x7,x8,x9,x10,x11,x12,x13,x14,x15,x16⟩ := hc.ctx ht
  obtain ⟨w1,w2,w3,w4,w5,w6,w7,w8⟩ := x1
  obtain ⟨o1,o2,o3,o4,o5,o6,o7,o8,o9,o10,o11,o12,o13,o14,o15⟩ := h.one i t ht
  obtain ⟨og⟩ := h.gl
  obtain ⟨b1,b2,b3,b4⟩ := PB.of (i := i) ht
  have hp64 := @pred64_of_pos
  intro j1 t1 j2 t2 hn1 hn2 hne hx1 hx2 h1 h2 h3 h4 h5 h6 h7
  obtain ⟨⟨y1,y2,y3,y4,y5,y6,y7,y8,y9,y10,y11,y12,y13,y14,y15,y16⟩, ⟨z1,z2,z3,z4⟩⟩ := hx1
  obtain ⟨v1,v2,v3,v4,v5,v6,v7,v8⟩ := y1
  obtain ⟨⟨Y1,Y2,Y3,Y4,Y5,Y6,Y7,Y8,Y9,Y10,Y11,Y12,Y13,Y14,Y15,Y16⟩, ⟨Z1,Z2,Z3,Z4⟩⟩ := hx2
  obtain ⟨V1,V2,V3,V4,V5,V6,V7,V8⟩ := Y1
  obtain ⟨p1,p2,p3,p4,p5,p6,p7,p8,p9,p10,p11,p12,p13,p14,p15⟩ := h1
  obtain ⟨P1,P2,P3,P4,P5,P6,P7,P8,P9,P10,P11,P12,P13,P14,P15⟩ := h2
  obtain ⟨q1,q2,q3,q4,q5,q6⟩ := h3
  obtain ⟨r1,r2,r3,r4,r5,r6⟩ := h4
  obtain ⟨Q1,Q2,Q3,Q4,Q5,Q6⟩ := h5
  obtain ⟨R1,R2,R3,R4,R5,R6⟩ := h6
  obtain ⟨s1,s2,s3,s4,s5,s6⟩ := h7
  cases he <;> simp only [cActTx, cActCur] <;> constructor <;> grind


theorem OInv.first {k : Core} {i : Nat} {t : TxC} {a : Act} {rest : List Act} (hc : CInv k) (h : OInv k)
    (ht : k.tx i = some t) (he : Enabled k i t (a :: rest)) : OInv (cAct k a) :=
  h.upd (X := fun j tj => CTx k.cur k.txs.length j tj ∧ PB k i j tj) ht (he.upd1 ht)
    (fun _ _ hj _ => ⟨hc.ctx hj, PB.of hj⟩)
    (OInv.first_g hc h ht he) (OInv.first_s hc h ht he) (OInv.first_o hc h ht he) (OInv.first_p hc h ht he)

theorem OInv.both {k : Core} {i : Nat} {t : TxC} {a b : Act} (hc : CInv k) (h : OInv k)
    (ht : k.tx i = some t) (he : Enabled k i t [a, b]) : OInv (cAct (cAct k a) b) :=
  h.upd (X := fun j tj => CTx k.cur k.txs.length j tj ∧ PB k i j tj) ht (he.upd2 ht)
    (fun _ _ hj _ => ⟨hc.ctx hj, PB.of hj⟩)
    (OInv.both_g hc h ht he) (OInv.both_s hc h ht he) (OInv.both_o hc h ht he) (OInv.both_p hc h ht he)


theorem Upd.ofSetTx {k : Core} {i : Nat} {t t' : TxC} (ht : k.tx i = some t) :
    Upd k i t' k.cur [] (k.setTx i t') :=
  ⟨Core.tx_setTx ht, Core.setTx_cur k i t', by simp, Core.setTx_length k i t'⟩

theorem Inv3.append {G : Cur → Nat → Prop} {P1 : Cur → Nat → Nat → TxC → Prop}
    {P2 : Cur → Nat → TxC → Nat → TxC → Prop} {X : Nat → TxC → Prop} {k : Core}
    (h : Inv3 G P1 P2 k) (hx : ∀ j tj, k.tx j = some tj → X j tj)
    (hg : G k.cur (k.txs.length + 1))
    (hf : P1 k.cur (k.txs.length + 1) (k.txs.length + 1) freshTx)
    (h1 : ∀ j t, X j t → P1 k.cur k.txs.length j t →
      P1 k.cur (k.txs.length + 1) j t ∧ P2 k.cur j t (k.txs.length + 1) freshTx ∧ P2 k.cur (k.txs.length + 1) freshTx j t) :
    Inv3 G P1 P2 { k with txs := k.txs ++ [freshTx] } := by
  have htx := Core.tx_append k freshTx
  have hlen : ({ k with txs := k.txs ++ [freshTx] } : Core).txs.length = k.txs.length + 1 := by simp
  have hcur : ({ k with txs := k.txs ++ [freshTx] } : Core).cur = k.cur := rfl
  have hle : ∀ j t, k.tx j = some t → j ≠ k.txs.length + 1 := by
    intro j t hj e
    have := Core.tx_le hj
    omega
  constructor
  · rw [hlen, hcur]; exact hg
  · intro j t hj
    rw [hlen, hcur]
    rw [htx] at hj
    by_cases e : j = k.txs.length + 1
    · simp only [e, if_true, Option.some.injEq] at hj
      subst hj; rw [e]; exact hf
    · simp only [e, if_false] at hj
      exact (h1 j t (hx j t hj) (h.one j t hj)).1
  · intro j1 t1 j2 t2 hj1 hj2 hne
    rw [hcur]
    rw [htx] at hj1 hj2
    by_cases e1 : j1 = k.txs.length + 1
    · simp only [e1, if_true, Option.some.injEq] at hj1
      subst hj1
      by_cases e2 : j2 = k.txs.length + 1
      · omega
      · simp only [e2, if_false] at hj2
        rw [e1]
        exact (h1 j2 t2 (hx j2 t2 hj2) (h.one j2 t2 hj2)).2.2
    · simp only [e1, if_false] at hj1
      by_cases e2 : j2 = k.txs.length + 1
      · simp only [e2, if_true, Option.some.injEq] at hj2
        subst hj2
        rw [e2]
        exact (h1 j1 t1 (hx j1 t1 hj1) (h.one j1 t1 hj1)).2.1
      · simp only [e2, if_false] at hj2
        exact h.two j1 t1 j2 t2 hj1 hj2 hne

theorem OInv.append {k : Core} (hc : CInv k) (h : OInv k) : OInv { k with txs := k.txs ++ [freshTx] } := by
  obtain ⟨og⟩ := h.gl
  obtain ⟨g1, g2, g3, g4⟩ := hc.cgl
  refine Inv3.append (X := fun j tj => CTx k.cur k.txs.length j tj) h (fun _ _ hj => hc.ctx hj) ⟨og⟩ ?_ ?_
  · constructor <;> simp [freshTx] <;> omega
  · intro j t hx h1
    obtain ⟨y1,y2,y3,y4,y5,y6,y7,y8,y9,y10,y11,y12,y13,y14,y15,y16⟩ := hx
    obtain ⟨p1,p2,p3,p4,p5,p6,p7,p8,p9,p10,p11,p12,p13,p14,p15⟩ := h1
    refine ⟨⟨p1,p2,p3,p4,p5,p6,p7,p8,p9,p10,p11,p12,p13,p14,p15⟩, ?_, ?_⟩ <;> constructor <;> simp [freshTx] <;> grind

theorem OInv.rollback {k : Core} {i : Nat} {t : TxC} (hc : CInv k) (h : OInv k) (ht : k.tx i = some t)
    (hcr : cCanRollback t = true) : OInv (k.setTx i (cRollback t)) := by
  simp only [cCanRollback, Bool.and_eq_true, decide_eq_true_eq] at hcr
  obtain ⟨hp, hcc⟩ := hcr
  obtain ⟨x1,x2,x3,x4,x5,x6,x7,x8,x9,x10,x11,x12,x13,x14,x15,x16⟩ := hc.ctx ht
  obtain ⟨w1,w2,w3,w4,w5,w6,w7,w8⟩ := x1
  obtain ⟨o1,o2,o3,o4,o5,o6,o7,o8,o9,o10,o11,o12,o13,o14,o15⟩ := h.one i t ht
  obtain ⟨og⟩ := h.gl
  refine h.upd (X := fun j tj => CTx k.cur k.txs.length j tj) ht (Upd.ofSetTx ht) (fun _ _ hj _ => hc.ctx hj) ⟨og⟩ ?_ ?_ ?_
  · constructor <;> simp only [cRollback] <;> grind
  · intro j tj hne hx h1 h2 h3
    obtain ⟨y1,y2,y3,y4,y5,y6,y7,y8,y9,y10,y11,y12,y13,y14,y15,y16⟩ := hx
    obtain ⟨p1,p2,p3,p4,p5,p6,p7,p8,p9,p10,p11,p12,p13,p14,p15⟩ := h1
    obtain ⟨q1,q2,q3,q4,q5,q6⟩ := h2
    obtain ⟨r1,r2,r3,r4,r5,r6⟩ := h3
    refine ⟨⟨p1,p2,p3,p4,p5,p6,p7,p8,p9,p10,p11,p12,p13,p14,p15⟩, ?_, ?_⟩ <;> constructor <;> simp only [cRollback] <;> grind
  · intro j1 t1 j2 t2 _ _ _ _ _ _ _ _ _ _ _ h7
    exact h7


/-- the two invariant layers together -/
structure Inv (k : Core) : Prop where
  c : CInv k
  o : OInv k

theorem Inv.step {k k' : Core} (h : Inv k) (hs : CStep k k') : Inv k' := by
  cases hs with
  | append => exact ⟨h.c.append, OInv.append h.c h.o⟩
  | rollback i t ht hc => exact ⟨h.c.rollback ht hc, OInv.rollback h.c h.o ht hc⟩
  | first i t a rest ht he => exact ⟨h.c.first ht he, OInv.first h.c h.o ht he⟩
  | both i t a b ht he => exact ⟨h.c.both ht he, OInv.both h.c h.o ht he⟩

theorem Inv.reach {k : Core} (h : CReach k) : Inv k := by
  induction h with
  | init => exact ⟨CInv.init, OInv.init⟩
  | step k k' _ hs ih => exact ih.step hs

end OnosVerif.V3
