/- A clean commit preserves the invariant of the side map. -/
import OnosVerif.Proofs.ConfigInv

namespace OnosVerif.Config
open OnosVerif.Path (Str)

section
variable {idx : Nat} {side change : VMap} (ordU : VMap → VMap)
variable (hok : StepOK idx side change) (hperm : IsPerm ordU)
include hok hperm

/-- every entry of the side map after a commit is an old entry, a value of the change, or an old
    entry below a deleted path of the change, marked. -/
theorem commit_entry (p : Str) (x : PV) (hx : VMap.get (commitValues idx side change ordU) p = some x) :
    x ∈ side ∨ x ∈ change ∨
      (∃ v ∈ side, x = mark idx v ∧ ∃ c' ∈ change, c'.deleted = true ∧ strictlyBelow v.path c'.path = true) := by
  rw [commit_get ordU hok hperm p] at hx
  have hupd := upd_get ordU hok hperm p
  have hmem := memValues_get ordU hok hperm p
  -- what the in-memory map can hold at p
  have hpv : ∀ pv, VMap.get (memValues idx side change ordU) p = some pv →
      pv ∈ side ∨ pv ∈ change ∨
        (∃ v ∈ side, pv = mark idx v ∧ ∃ c' ∈ change, c'.deleted = true ∧ strictlyBelow v.path c'.path = true) := by
    intro pv hpv
    have hmarked : ∀ v, VMap.get side p = some v →
        (Spec.deletes change).any (fun d => strictlyBelow p d) = true →
        ∃ c' ∈ change, c'.deleted = true ∧ strictlyBelow v.path c'.path = true := by
      intro v hv hany
      obtain ⟨d, hd, hb⟩ := List.any_eq_true.1 hany
      obtain ⟨c', hc', hdel, hpd⟩ := (mem_deletes change d).1 hd
      exact ⟨c', hc', hdel, by rw [(get_some side p v hv).2, hpd]; exact hb⟩
    cases hu : VMap.get (ordU (addDeleteChildren idx change [] side).1) p with
    | some u =>
      rw [hu] at hmem hupd
      simp only at hmem
      have : pv = u := by
        rcases hmem with h | ⟨_, h, _⟩
        · rw [hpv] at h; exact Option.some.inj h
        · rw [hpv] at h; simp at h
      subst this
      cases hc : VMap.get change p with
      | some c =>
        rw [hc] at hupd
        have : pv = c := Option.some.inj hupd
        subst this
        exact Or.inr (Or.inl (get_some change p pv hc).1)
      | none =>
        rw [hc] at hupd
        cases hs : VMap.get side p with
        | none => rw [hs] at hupd; simp at hupd
        | some v =>
          rw [hs] at hupd
          simp only at hupd
          by_cases hany : (Spec.deletes change).any (fun d => strictlyBelow p d) = true
          · simp only [hany, if_true, Option.some.injEq] at hupd
            exact Or.inr (Or.inr ⟨v, (get_some side p v hs).1, hupd, hmarked v hs hany⟩)
          · simp [hany] at hupd
    | none =>
      rw [hu] at hmem
      simp only at hmem
      cases hs : VMap.get side p with
      | none =>
        rw [hs] at hmem
        rcases hmem with h | ⟨_, h, _⟩
        · rw [hpv] at h; simp at h
        · simp at h
      | some v =>
        rw [hs] at hmem
        simp only [Option.map_some] at hmem
        have hpvv : pv = markIf idx (Spec.deletes change) v := by
          rcases hmem with h | ⟨_, _, _, h, _⟩
          · rw [hpv] at h; exact Option.some.inj h
          · rw [hpv] at h; simp at h
        by_cases hany : (Spec.deletes change).any (fun d => strictlyBelow p d) = true
        · right; right
          refine ⟨v, (get_some side p v hs).1, ?_, hmarked v hs hany⟩
          rw [hpvv]; simp only [markIf, (get_some side p v hs).2, hany, if_true]
        · left
          have : pv = v := by
            rw [hpvv]; simp only [markIf, (get_some side p v hs).2, hany, Bool.false_eq_true, if_false]
          rw [this]; exact (get_some side p v hs).1
  cases hv : VMap.get (memValues idx side change ordU) p with
  | none =>
    rw [hv] at hx
    exact Or.inl (get_some side p x hx).1
  | some pv =>
    rw [hv] at hx
    simp only at hx
    cases hs : VMap.get side p with
    | none =>
      rw [hs] at hx
      simp only [storeAt] at hx
      split at hx
      · rw [← Option.some.inj hx]; exact hpv pv hv
      · simp at hx
    | some entry =>
      rw [hs] at hx
      simp only [storeAt] at hx
      split at hx
      · simp at hx
      · split at hx
        · rw [← Option.some.inj hx]; exact hpv pv hv
        · rw [← Option.some.inj hx]; exact Or.inl (get_some side p entry hs).1

end

/-- `specAt` reads a value: it is an update of the request, or an old value not under a delete. -/
theorem specAt_some (f : Str → Option Str) (change : VMap) (p v : Str) (h : specAt f change p = some v) :
    (∃ c ∈ change, c.deleted = false ∧ c.path = p ∧ c.value = v) ∨
    (VMap.get change p = none ∧ (Spec.deletes change).any (fun d => under p d) = false ∧ f p = some v) := by
  unfold specAt at h
  cases hc : VMap.get change p with
  | some c =>
    rw [hc] at h
    simp only at h
    by_cases hd : c.deleted = true
    · simp [hd] at h
    · simp only [hd, Bool.false_eq_true, if_false, Option.some.injEq] at h
      exact Or.inl ⟨c, (get_some change p c hc).1, by simpa using hd, (get_some change p c hc).2, h⟩
  | none =>
    rw [hc] at h
    simp only at h
    cases hany : (Spec.deletes change).any (fun d => under p d) with
    | true => rw [hany] at h; simp at h
    | false => rw [hany] at h; exact Or.inr ⟨rfl, rfl, by simpa using h⟩

theorem mem_written (ch : VMap) (p : Str) : p ∈ written ch ↔ ∃ c ∈ ch, c.deleted = false ∧ c.path = p := by
  simp [written, List.mem_map, List.mem_filter, and_assoc]

/-- a clean commit preserves the invariant. -/
theorem inv_commit (D U W : List Str) (lo idx : Nat) (side ch : VMap) (ordU : VMap → VMap)
    (hinv : Inv D U W lo side) (hcl : CleanStepP D U W ch) (hlo : lo < idx)
    (hst : ∀ c ∈ ch, c.index = idx) (hperm : IsPerm ordU) :
    Inv (D ++ Spec.deletes ch) (U ++ paths ch) (W ++ written ch) idx (commitValues idx side ch ordU) := by
  have hok := stepOK_of_inv D U W lo idx side ch hinv hcl hlo hst
  have hnod : NodupP (commitValues idx side ch ordU) :=
    storeLoop_nodup _ _ _ hinv.nodup
  have hentry : ∀ x ∈ commitValues idx side ch ordU, x ∈ side ∨ x ∈ ch ∨
      (∃ v ∈ side, x = mark idx v ∧ ∃ c' ∈ ch, c'.deleted = true ∧ strictlyBelow v.path c'.path = true) :=
    fun x hx => commit_entry ordU hok hperm x.path x (get_of_mem _ x hnod hx)
  have hlive := commit_liveAt ordU hok hperm
  refine ⟨hnod, ?_, ?_, ?_, ?_, ?_, ?_, ?_⟩
  · intro x hx
    rcases hentry x hx with h | h | ⟨v, hv, hxv, _⟩
    · exact hinv.nonempty x h
    · exact hcl.nonempty x h
    · rw [hxv, mark_path]; exact hinv.nonempty v hv
  · intro x hx
    rcases hentry x hx with h | h | ⟨v, hv, hxv, _⟩
    · have := hinv.idx x h; omega
    · rw [hst x h]; exact Nat.le_refl _
    · rw [hxv, mark_index]; exact Nat.le_refl _
  · intro x hx
    rcases hentry x hx with h | h | ⟨v, hv, hxv, _⟩
    · exact List.mem_append_left _ (hinv.used x h)
    · exact List.mem_append_right _ (by simp only [paths, List.mem_map]; exact ⟨x, h, rfl⟩)
    · rw [hxv, mark_path]; exact List.mem_append_left _ (hinv.used v hv)
  · intro p v hp
    rw [hlive p] at hp
    rcases specAt_some _ _ _ _ hp with ⟨c, hc, hcd, hcp, _⟩ | ⟨_, _, hold⟩
    · exact List.mem_append_right _ ((mem_written ch p).2 ⟨c, hc, hcd, hcp⟩)
    · exact List.mem_append_left _ (hinv.liveW p v hold)
  · intro p v hp d hd
    rw [hlive p] at hp
    rcases specAt_some _ _ _ _ hp with ⟨c, hc, hcd, hcp, _⟩ | ⟨hnone, hnu, hold⟩
    · rcases List.mem_append.1 hd with hd | hd
      · rw [← hcp]; exact hcl.a c hc d hd
      · obtain ⟨c', hc', hdel, hpd⟩ := (mem_deletes ch d).1 hd
        rw [← hcp, ← hpd]; exact hok.noSelf c hc c' hc' hdel
    · rcases List.mem_append.1 hd with hd | hd
      · exact hinv.liveD p v hold d hd
      · cases hb : strictlyBelow p d with
        | false => rfl
        | true =>
          exfalso
          obtain ⟨c', hc', hdel, hpd⟩ := (mem_deletes ch d).1 hd
          -- p is stored (it is readable), so the deleted path contains it at an element boundary
          have hps : p ∈ paths side := by
            rw [liveAt_eq] at hold
            cases hg : VMap.get side p with
            | none => rw [hg] at hold; simp [liveOpt] at hold
            | some e => exact (mem_paths_iff_get side p).2 ⟨e, hg⟩
          have hu := hok.boundary c' hc' hdel p hps (by rw [hpd]; exact ((strictlyBelow_iff _ _).1 hb).1)
          have : (Spec.deletes ch).any (fun d => under p d) = true :=
            List.any_eq_true.2 ⟨d, hd, by rw [← hpd]; exact hu⟩
          rw [hnu] at this; exact absurd this (by decide)
  · intro t ht htd
    rcases hentry t ht with h | h | ⟨v, hv, hxv, c', hc', hdel, hb⟩
    · obtain ⟨d, hd, hpre⟩ := hinv.tomb t h htd
      exact ⟨d, List.mem_append_left _ hd, hpre⟩
    · exact ⟨t.path, List.mem_append_right _ ((mem_deletes ch _).2 ⟨t, h, htd, rfl⟩), hasPrefix_refl _⟩
    · refine ⟨c'.path, List.mem_append_right _ ((mem_deletes ch _).2 ⟨c', hc', hdel, rfl⟩), ?_⟩
      rw [hxv, mark_path]; exact ((strictlyBelow_iff _ _).1 hb).1
  · intro w hw q hq hu
    rcases List.mem_append.1 hw with hw | hw
    · rcases List.mem_append.1 hq with hq | hq
      · exact hinv.leafU w hw q hq hu
      · simp only [paths, List.mem_map] at hq
        obtain ⟨c, hc, hcq⟩ := hq
        rw [← hcq] at hu ⊢
        exact hcl.e2 c hc w hw hu
    · obtain ⟨c, hc, hcd, hcp⟩ := (mem_written ch w).1 hw
      rw [← hcp] at hu ⊢
      exact hcl.e1 c hc hcd q (List.mem_append.1 hq) hu

end OnosVerif.Config
