/- The invariant of the side map along a clean history, and that it yields `StepOK`. -/
import OnosVerif.Proofs.ConfigRefine

namespace OnosVerif.Config
open OnosVerif.Path (Str)

/-- `Inv D U W lo side`: what holds of the stored side map after a clean history whose requests
    deleted the paths `D`, used the paths `U`, wrote the paths `W`, the last index being `lo`. -/
structure Inv (D U W : List Str) (lo : Nat) (side : VMap) : Prop where
  nodup : NodupP side
  nonempty : ∀ e ∈ side, e.path ≠ []
  idx : ∀ e ∈ side, e.index ≤ lo
  used : ∀ e ∈ side, e.path ∈ U
  /-- a readable path was written -/
  liveW : ∀ p v, liveAt side p = some v → p ∈ W
  /-- a readable path is not strictly (textually) below a path deleted at any time -/
  liveD : ∀ p v, liveAt side p = some v → ∀ d ∈ D, strictlyBelow p d = false
  /-- every stored tombstone is at or (textually) below a path deleted at some time -/
  tomb : ∀ t ∈ side, t.deleted = true → ∃ d ∈ D, hasPrefix t.path d = true
  /-- nothing was ever used beneath a written leaf -/
  leafU : ∀ w ∈ W, ∀ q ∈ U, under q w = true → q = w

theorem inv_empty : Inv [] [] [] 0 [] :=
  ⟨List.Pairwise.nil, by simp, by simp, by simp, by simp [liveAt, get_nil], by simp, by simp, by simp⟩

theorem nodupPaths_spec : ∀ (m : VMap), nodupPaths m = true → NodupP m
  | [], _ => List.Pairwise.nil
  | e :: r, h => by
    simp only [nodupPaths, Bool.and_eq_true, List.all_eq_true, decide_eq_true_eq] at h
    exact List.Pairwise.cons (fun x hx e' => h.1 x hx e'.symm) (nodupPaths_spec r h.2)

/-- the conditions of one clean request, as propositions. -/
structure CleanStepP (D U W : List Str) (ch : VMap) : Prop where
  nodup : NodupP ch
  nonempty : ∀ c ∈ ch, c.path ≠ []
  a : ∀ c ∈ ch, ∀ d ∈ D, strictlyBelow c.path d = false
  c : ∀ c ∈ ch, ∀ c' ∈ ch, c'.deleted = true → c'.path = c.path ∨ hasPrefix c.path c'.path = false
  d : ∀ c ∈ ch, c.deleted = true → ∀ q, q ∈ U ∨ q ∈ paths ch → hasPrefix q c.path = true → under q c.path = true
  e1 : ∀ c ∈ ch, c.deleted = false → ∀ q, q ∈ U ∨ q ∈ paths ch → under q c.path = true → q = c.path
  e2 : ∀ c ∈ ch, ∀ w ∈ W, under c.path w = true → c.path = w

theorem cleanStep_spec (D U W : List Str) (ch : VMap) (h : cleanStep D U W ch = true) :
    CleanStepP D U W ch := by
  simp only [cleanStep, Bool.and_eq_true, List.all_eq_true, Bool.or_eq_true, Bool.not_eq_true',
    decide_eq_true_eq, List.mem_append, List.isEmpty_eq_false_iff] at h
  obtain ⟨⟨hn, hne⟩, hall⟩ := h
  refine ⟨nodupPaths_spec ch hn, hne, ?_, ?_, ?_, ?_, ?_⟩
  · intro c hc d hd
    exact (hall c hc).1.1.1.1.1 d hd
  · intro c hc c' hc' hdel
    rcases (hall c hc).1.1.1.2 c' hc' with (h | h) | h
    · exact Or.inl h
    · rw [hdel] at h; exact absurd h (by decide)
    · exact Or.inr h
  · intro c hc hdel q hq hpre
    rcases (hall c hc).1.1.2 with h | h
    · rw [hdel] at h; exact absurd h (by decide)
    · rcases h q hq with h | h
      · rw [hpre] at h; exact absurd h (by decide)
      · exact h
  · intro c hc hdel q hq hu
    rcases (hall c hc).1.2 with h | h
    · rw [hdel] at h; exact absurd h (by decide)
    · rcases h q hq with h | h
      · rw [hu] at h; exact absurd h (by decide)
      · exact h
  · intro c hc w hw hu
    rcases (hall c hc).2 w hw with h | h
    · rw [hu] at h; exact absurd h (by decide)
    · exact h

theorem liveAt_of_mem (side : VMap) (hn : NodupP side) (e : PV) (he : e ∈ side) (hd : e.deleted = false) :
    liveAt side e.path = some e.value := by
  rw [liveAt_eq, get_of_mem side e hn he]
  simp [liveOpt, hd]

/-- from the invariant and a clean request: the conditions of the single-commit theorem. -/
theorem stepOK_of_inv (D U W : List Str) (lo idx : Nat) (side ch : VMap) (hinv : Inv D U W lo side)
    (hcl : CleanStepP D U W ch) (hlo : lo < idx) (hst : ∀ c ∈ ch, c.index = idx) :
    StepOK idx side ch := by
  refine ⟨hinv.nodup, hcl.nodup, hinv.nonempty, hcl.nonempty, ?_, ?_, ?_, ?_, ?_, ?_, ?_⟩
  · intro c hc e he
    have h1 := hst c hc
    have h2 := hinv.idx e (get_some side _ e he).1
    omega
  · intro e he; have := hinv.idx e he; omega
  · intro c hc c' hc' hdel
    rcases hcl.c c hc c' hc' hdel with h | h
    · simp [strictlyBelow, h]
    · simp [strictlyBelow, h]
  · intro c hc hdel q hq hpre
    obtain ⟨x, hx⟩ := (mem_paths_iff_get side q).1 hq
    have := hinv.used x (get_some side q x hx).1
    rw [(get_some side q x hx).2] at this
    exact hcl.d c hc hdel q (Or.inl this) hpre
  · intro t ht htd e he hed
    obtain ⟨d, hd, hpre⟩ := hinv.tomb t ht htd
    cases hb : strictlyBelow e.path t.path with
    | false => rfl
    | true =>
      have := strictlyBelow_trans _ _ _ hb hpre
      rw [hinv.liveD e.path e.value (liveAt_of_mem side hinv.nodup e he hed) d hd] at this
      exact absurd this (by decide)
  · intro c hc hcd t ht htd
    obtain ⟨d, hd, hpre⟩ := hinv.tomb t ht htd
    cases hb : strictlyBelow c.path t.path with
    | false => rfl
    | true =>
      have := strictlyBelow_trans _ _ _ hb hpre
      rw [hcl.a c hc d hd] at this
      exact absurd this (by decide)
  · intro e he hed q hq
    have hw := hinv.liveW e.path e.value (liveAt_of_mem side hinv.nodup e he hed)
    cases hb : slashAbove e.path q with
    | false => rfl
    | true =>
      exfalso
      have hu := slashAbove_under _ _ hb
      have hne := slashAbove_ne _ _ hb
      rcases hq with hq | hq
      · obtain ⟨x, hx⟩ := (mem_paths_iff_get side q).1 hq
        have hxu := hinv.used x (get_some side q x hx).1
        rw [(get_some side q x hx).2] at hxu
        exact hne (hinv.leafU e.path hw q hxu hu)
      · simp only [paths, List.mem_map] at hq
        obtain ⟨c, hc, hcq⟩ := hq
        rw [← hcq] at hu hne
        exact hne (hcl.e2 c hc e.path hw hu)

end OnosVerif.Config
