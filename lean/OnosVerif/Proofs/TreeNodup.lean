/- No path is read twice from the document: members have different names, the items of a list
   different key sets. -/
import OnosVerif.Proofs.TreeMemberSpec

namespace OnosVerif.Tree
open OnosVerif.Path (Str GPath Elem strLt)

/-- the paths read from a node are pairwise different. -/
def FlatNodup (sch : Schema) (np : List Str) (pre : GPath) (m : List (Str × Json)) : Prop :=
  ((flatM sch np pre m).map (·.1)).Nodup

theorem flatM_nodup (sch : Schema) (np : List Str) (pre : GPath) : ∀ (m : List (Str × Json)), ObjSorted m →
    (∀ k v, (k, v) ∈ m → ((flatJ sch np pre k v).map (·.1)).Nodup) →
    (∀ k v, (k, v) ∈ m → ∀ y ∈ flatJ sch np pre k v, ∃ a q0, y.1 = pre ++ a :: q0 ∧ a.name = k) →
    FlatNodup sch np pre m
  | [], _, _, _ => by simp [FlatNodup, flatM]
  | (k, v) :: r, hs, hn, hp => by
    simp only [ObjSorted, List.pairwise_cons] at hs
    have ih := flatM_nodup sch np pre r hs.2 (fun k' v' h => hn k' v' (List.mem_cons_of_mem _ h))
      (fun k' v' h => hp k' v' (List.mem_cons_of_mem _ h))
    simp only [FlatNodup] at ih ⊢
    rw [flatM, List.map_append, List.nodup_append]
    refine ⟨hn k v List.mem_cons_self, ih, ?_⟩
    intro q1 hq1 q2 hq2 heq
    obtain ⟨y1, hy1, rfl⟩ := List.mem_map.1 hq1
    obtain ⟨y2, hy2, hy2e⟩ := List.mem_map.1 hq2
    obtain ⟨a1, q01, hp1, hn1⟩ := hp k v List.mem_cons_self y1 hy1
    obtain ⟨k', v', hkv', hy2'⟩ := (mem_flatM sch np pre y2 r).1 hy2
    obtain ⟨a2, q02, hp2, hn2⟩ := hp k' v' (List.mem_cons_of_mem _ hkv') y2 hy2'
    rw [← hy2e, hp1, hp2] at heq
    have := List.append_cancel_left heq
    simp only [List.cons.injEq] at this
    have hkk : k = k' := by rw [← hn1, ← hn2, this.1]
    exact Path.strLt_ne _ _ (hs.1 (k', v') hkv') hkk

/-- what is known about an item when its paths are to be told apart from those of other items. -/
def ItemPaths (sch : Schema) (np : List Str) (pre : GPath) (n : Str) (KN : List Str) (e : Elem) (it : Json) : Prop :=
  ((flatItem sch np pre n KN it).map (·.1)).Nodup ∧
    ∀ y ∈ flatItem sch np pre n KN it, ∃ q', y.1 = (pre ++ [e]) ++ q'

theorem flatA_nodup (sch : Schema) (np : List Str) (pre : GPath) (n : Str) (KN : List Str) :
    ∀ (hs : List Elem) (items : List Json), Forall2 (ItemPaths sch np pre n KN) hs items → hs.Nodup →
      ((flatA sch np pre n KN items).map (·.1)).Nodup ∧
        ∀ y ∈ flatA sch np pre n KN items, ∃ e ∈ hs, ∃ q', y.1 = (pre ++ [e]) ++ q'
  | _, _, .nil, _ => by simp [flatA]
  | _, _, .cons (a := e) (b := it) (l := hs') (m := items') hit hrest, hnd => by
    rw [List.nodup_cons] at hnd
    obtain ⟨ihn, ihp⟩ := flatA_nodup sch np pre n KN hs' items' hrest hnd.2
    constructor
    · rw [flatA, List.map_append, List.nodup_append]
      refine ⟨hit.1, ihn, ?_⟩
      intro q1 hq1 q2 hq2 heq
      obtain ⟨y1, hy1, rfl⟩ := List.mem_map.1 hq1
      obtain ⟨y2, hy2, hy2e⟩ := List.mem_map.1 hq2
      obtain ⟨q1', hp1⟩ := hit.2 y1 hy1
      obtain ⟨e2, he2, q2', hp2⟩ := ihp y2 hy2
      rw [← hy2e, hp1, hp2] at heq
      simp only [List.append_assoc] at heq
      have := List.append_cancel_left heq
      simp only [List.singleton_append, List.cons.injEq] at this
      exact hnd.1 (by rw [this.1]; exact he2)
    · intro y hy
      rw [flatA, List.mem_append] at hy
      rcases hy with hy | hy
      · obtain ⟨q', hq'⟩ := hit.2 y hy
        exact ⟨e, List.mem_cons_self, q', hq'⟩
      · obtain ⟨e2, he2, q', hq'⟩ := ihp y hy
        exact ⟨e2, List.mem_cons_of_mem _ he2, q', hq'⟩

end OnosVerif.Tree
