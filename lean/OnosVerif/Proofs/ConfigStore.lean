/- `configurationStore.store` (the loop over the entries of the passed map), extensionally. -/
import OnosVerif.Proofs.ConfigPrune

namespace OnosVerif.Config
open OnosVerif.Path (Str)

/-- the side-map entry at `p` after `store` has looked at the value `pv` for that path. -/
def storeAt (inP : Bool) (pv : PV) (old : Option PV) : Option PV :=
  match old with
  | none => if inP then some pv else none
  | some entry => if !inP then none else if pv.index ≠ entry.index then some pv else some entry

theorem nodupP_append_single (m : VMap) (e : PV) (h : NodupP m) (hg : VMap.get m e.path = none) :
    NodupP (m ++ [e]) := by
  simp only [NodupP, List.pairwise_append, List.pairwise_cons, List.Pairwise.nil, List.mem_singleton,
    and_true, forall_eq]
  refine ⟨h, by simp, ?_⟩
  intro a ha
  exact (get_none m e.path).1 hg a ha

theorem storeLoop_nodup (pruned : List PV) : ∀ (vals side : VMap), NodupP side → NodupP (storeLoop pruned vals side)
  | [], _, h => h
  | pv :: rest, side, h => by
    simp only [storeLoop]
    cases hg : VMap.get side pv.path with
    | none =>
      simp only
      apply storeLoop_nodup pruned rest
      split
      · exact nodupP_append_single side pv h hg
      · exact h
    | some entry =>
      simp only
      split
      · exact storeLoop_nodup pruned rest _ (nodupP_erase _ _ h)
      · split
        · exact storeLoop_nodup pruned rest _ (nodupP_set _ _ h)
        · exact storeLoop_nodup pruned rest _ h

theorem storeLoop_get (pruned : List PV) : ∀ (vals side : VMap), NodupP vals → ∀ p,
    VMap.get (storeLoop pruned vals side) p =
      match VMap.get vals p with
      | none => VMap.get side p
      | some pv => storeAt (pruned.any (fun e => e.path = p)) pv (VMap.get side p)
  | [], side, _, p => by simp [storeLoop, get_nil]
  | pv0 :: rest, side, hn, p => by
    have hn' := hn
    simp only [NodupP, List.pairwise_cons] at hn'
    have hrest0 : VMap.get rest pv0.path = none := (get_none rest pv0.path).2 (fun e he h => hn'.1 e he h.symm)
    -- the side map after the first entry
    have hside1 : ∀ side1, (∀ q, VMap.get side1 q = if q = pv0.path then
          storeAt (pruned.any (fun e => e.path = pv0.path)) pv0 (VMap.get side pv0.path) else VMap.get side q) →
        VMap.get (storeLoop pruned rest side1) p =
          match VMap.get (pv0 :: rest) p with
          | none => VMap.get side p
          | some pv => storeAt (pruned.any (fun e => e.path = p)) pv (VMap.get side p) := by
      intro side1 h1
      rw [storeLoop_get pruned rest side1 hn'.2 p, get_cons]
      by_cases hp : pv0.path = p
      · subst hp
        simp only [hrest0, if_true]
        rw [h1]; simp
      · have hp' : ¬ p = pv0.path := fun h => hp h.symm
        simp only [hp, if_false, h1 p, hp']
    simp only [storeLoop]
    cases hg : VMap.get side pv0.path with
    | none =>
      simp only
      apply hside1
      intro q
      by_cases hin : (pruned.any fun e => e.path = pv0.path) = true
      · simp only [hin, if_true, get_append_single, storeAt]
        by_cases hq : q = pv0.path
        · subst hq; simp [hg]
        · have : ¬ pv0.path = q := fun h => hq h.symm
          simp only [hq, if_false, this]
          cases VMap.get side q <;> rfl
      · have hin' : (pruned.any fun e => e.path = pv0.path) = false := by simpa using hin
        simp only [hin', Bool.false_eq_true, if_false, storeAt]
        by_cases hq : q = pv0.path
        · subst hq; simp [hg]
        · simp [hq]
    | some entry =>
      simp only
      by_cases hin : (pruned.any fun e => e.path = pv0.path) = true
      · simp only [hin, Bool.not_true, Bool.false_eq_true, if_false]
        by_cases hidx : pv0.index ≠ entry.index
        · simp only [hidx, ne_eq, not_false_eq_true, decide_true, if_true]
          apply hside1
          intro q
          simp only [get_set, storeAt, hg, hin, Bool.not_true, Bool.false_eq_true, if_false, hidx, ne_eq,
            not_false_eq_true, if_true]
        · simp only [hidx, decide_false, Bool.false_eq_true, if_false]
          apply hside1
          intro q
          by_cases hq : q = pv0.path
          · subst hq
            simp only [if_true, storeAt, hg, hin, Bool.not_true, Bool.false_eq_true, if_false, hidx]
          · simp [hq]
      · have hin' : (pruned.any fun e => e.path = pv0.path) = false := by simpa using hin
        simp only [hin', Bool.not_false, if_true]
        apply hside1
        intro q
        simp only [get_erase, storeAt, hg, hin', Bool.not_false, if_true]

end OnosVerif.Config
