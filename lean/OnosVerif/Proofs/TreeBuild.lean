/- The build theorem at element level: the loop of `BuildTree` over grouped, consistent path/values
   succeeds, and the flattener reads back exactly the expected leaves. -/
import OnosVerif.Proofs.TreeMemberSpec
import OnosVerif.Proofs.TreeNodup
import OnosVerif.Proofs.TreeOrd

namespace OnosVerif.Tree
open OnosVerif.Path (Str GPath Elem)

variable (rfc : Bool) (ord : List (Str × Str) → List (Str × Str))

theorem sub_touching (e : Elem) : ∀ (S : List Entry), sub (touching S e.name) e = sub S e
  | [] => rfl
  | x :: S => by
    have ih := sub_touching e S
    simp only [touching, List.filter_cons] at ih ⊢
    by_cases hp : memberName x = e.name
    · simp only [hp, decide_true, if_true]
      simp only [sub, List.filterMap_cons] at ih ⊢
      rw [ih]
    · simp only [hp, decide_false, Bool.false_eq_true, if_false]
      rw [ih]
      simp only [sub, List.filterMap_cons]
      obtain ⟨p, v⟩ := x
      cases p with
      | nil => rfl
      | cons a r =>
        cases r with
        | nil => rfl
        | cons e' rest =>
          have : a ≠ e := by
            intro hae; apply hp; simp [memberName, hae]
          simp [this]

theorem noReturn_of_interval (L : List Entry) (h : Interval L) (hlen : ∀ x ∈ L, 2 ≤ x.1.length) : NoReturn L := by
  intro a c b hsub hab
  have ha : a ∈ L := hsub.subset (by simp)
  have hc : c ∈ L := hsub.subset (by simp)
  have hb : b ∈ L := hsub.subset (by simp)
  have la := hlen a ha
  have lc := hlen c hc
  have lb := hlen b hb
  obtain ⟨pa, va⟩ := a
  obtain ⟨pc, vc⟩ := c
  obtain ⟨pb, vb⟩ := b
  simp only at la lb lc
  cases pa with
  | nil => simp at la
  | cons a1 ra =>
    cases pb with
    | nil => simp at lb
    | cons b1 rb =>
      cases pc with
      | nil => simp at lc
      | cons c1 rc =>
        simp only [headOf, List.head?_cons, Option.some.injEq] at hab ⊢
        have := h _ _ _ hsub 1 (by simp only [List.length_cons] at la ⊢; omega)
          (by simp only [List.length_cons] at lb ⊢; omega) (by simp [hab])
        simpa using this

theorem memberStep_step_some (x : Entry) (e : Elem) (hx : IsStep e x) (cur y : Option Json)
    (h : memberStep rfc ord x cur = .ok y) : ∃ w, y = some w := by
  obtain ⟨e', rest, hp⟩ := hx
  obtain ⟨p, v⟩ := x
  simp only at hp
  subst hp
  simp only [memberStep] at h
  split at h
  · split at h
    · simp at h
    · simp only [Except.ok.injEq] at h; exact ⟨_, h.symm⟩
  · split at h
    · simp at h
    · split at h
      · simp at h
      · simp only [Except.ok.injEq] at h; exact ⟨_, h.symm⟩

theorem memberFold_none_list (L : List Entry) (hL : ∀ x ∈ L, ∃ e, IsStep e x ∧ e.keys ≠ []) (hne : L ≠ []) :
    memberFold rfc ord L none = memberFold rfc ord L (some (.arr [])) := by
  cases L with
  | nil => exact absurd rfl hne
  | cons x L' =>
    obtain ⟨e, hx, hk⟩ := hL x List.mem_cons_self
    simp only [memberFold]
    rw [memberStep_none_list rfc ord x e hx hk]
    cases hstep : memberStep rfc ord x (some (.arr [])) with
    | error err => rfl
    | ok y =>
      obtain ⟨w, hw⟩ := memberStep_step_some rfc ord x e hx _ y hstep
      subst hw
      rfl

theorem lookupKey_none_of_step (K : List (Str × Str)) (x : Entry) (e : Elem) (hx : IsStep e x)
    (hh : headOK rfc K x.1 x.2 = true) : lookupKey K e.name = none := by
  obtain ⟨e', rest, hp⟩ := hx
  rw [hp] at hh
  simp only [headOK] at hh
  cases hl : lookupKey K e.name with
  | none => rfl
  | some t => rw [hl] at hh; simp at hh

/-- the flattener's reading of the node built from `S` below an entry with keys `K`. -/
def FlatChar (sch : Schema) (np : List Str) (pre : GPath) (K : List (Str × Str)) (S : List Entry)
    (m : List (Str × Json)) : Prop :=
  ∀ q j, (q, j) ∈ flatM sch np pre m ↔ ∃ q', q = pre ++ q' ∧ ExpAt rfc K S (q', j)

theorem expAt_nonempty (K : List (Str × Str)) (S : List Entry) (hS : ∀ x ∈ S, x.1 ≠ []) (j : Json) :
    ¬ ExpAt rfc K S ([], j) := by
  rintro (h | ⟨k, t, _, hp, _⟩)
  · exact expected_nonempty rfc S hS j h
  · simp at hp

/-- one level of the build theorem: if every child node is built as specified, so is this node. -/
theorem build_step (hord : IsOrder ord) (sch : Schema) (S : List Entry) (K : List (Str × Str))
    (np : List Str) (pre : GPath) (hg : GoodAt rfc K S) (hsch : SchemaOK sch np S)
    (hch : ∀ e : Elem, (∃ x ∈ S, IsStep e x) →
      ∃ mc, addAllE rfc ord (sub S e) (keyObj e.keys) = .ok (.obj mc) ∧ ObjSorted mc ∧
        FlatChar rfc sch (np ++ [e.name]) (pre ++ [e]) e.keys (sub S e) mc ∧
        FlatNodup sch (np ++ [e.name]) (pre ++ [e]) mc) :
    ∃ m, addAllE rfc ord S (keyObj K) = .ok (.obj m) ∧ ObjSorted m ∧ FlatChar rfc sch np pre K S m ∧
      FlatNodup sch np pre m := by
  have hplain : ∀ x ∈ S, leafPlain x ∧ x.1 ≠ [] := fun x hx =>
    ⟨leafPlain_of_pathOK x (hg.each x hx).1, pathOK_nonempty _ (hg.each x hx).1⟩
  -- every member: its fold succeeds and is read back as specified
  have hfold : ∀ n, ∃ r, memberFold rfc ord (touching S n) (objGet (keyMembers K) n) = .ok r ∧
      MemberSpec rfc sch np pre K S n r ∧
      (∀ w, r = some w → ((flatJ sch np pre n w).map (·.1)).Nodup) := by
    intro n
    rw [objGet_keyMembers]
    rcases touching_kinds rfc K S n hg with ht | ⟨v, ht⟩ | ⟨hne, hsteps⟩ | ⟨hne, KN, hL⟩
    · rw [ht]
      refine ⟨_, rfl, memberSpec_untouched rfc sch np pre K S n hg.keysK ht, ?_⟩
      intro w hw
      cases hl : lookupKey K n with
      | none => rw [hl] at hw; simp at hw
      | some t =>
        rw [hl] at hw
        simp only [Option.map_some, Option.some.injEq] at hw
        subst hw
        rw [flatJ_str]; simp
    · rw [ht]
      refine ⟨_, rfl, memberSpec_leaf rfc sch np pre K S n hg.keysK v ht, ?_⟩
      intro w hw
      cases hlj : leafJson rfc v with
      | some j1 =>
        rw [hlj] at hw
        simp only [upd, Option.some.injEq] at hw
        subst hw
        rw [flatJ_leaf rfc sch np pre n v j1 hlj]; simp
      | none =>
        rw [hlj] at hw
        simp only [upd] at hw
        cases hl : lookupKey K n with
        | none => rw [hl] at hw; simp at hw
        | some t =>
          rw [hl] at hw
          simp only [Option.map_some, Option.some.injEq] at hw
          subst hw
          rw [flatJ_str]; simp
    · -- container
      obtain ⟨x, hx⟩ := List.exists_mem_of_ne_nil _ hne
      have hxS := ((mem_touching S n x).1 hx).1
      have hnK : lookupKey K n = none :=
        lookupKey_none_of_step rfc K x { name := n, keys := [] } (hsteps x hx) (hg.each x hxS).2.2
      obtain ⟨mc, hadd, _, hflat, hnodup⟩ := hch { name := n, keys := [] } ⟨x, hxS, hsteps x hx⟩
      refine ⟨some (.obj mc), ?_, memberSpec_container rfc sch np pre K S n mc hne hsteps hnK hflat, ?_⟩
      rotate_left
      · intro w hw
        simp only [Option.some.injEq] at hw
        subst hw
        rw [flatJ_obj]
        exact hnodup
      rw [hnK, memberFold_container rfc ord { name := n, keys := [] } rfl _ _ hsteps]
      have hsubeq : tails (touching S n) = sub S { name := n, keys := [] } := by
        rw [← sub_of_steps _ _ hsteps]
        exact sub_touching { name := n, keys := [] } S
      cases hLc : touching S n with
      | nil => exact absurd hLc hne
      | cons y L' =>
        simp only [Option.map_none, Option.getD_none]
        rw [← hLc, hsubeq]
        have : keyObj ({ name := n, keys := [] } : Elem).keys = Json.obj [] := rfl
        rw [this] at hadd
        rw [hadd]
    · -- list
      obtain ⟨x, hx⟩ := List.exists_mem_of_ne_nil _ hne
      have hxS := ((mem_touching S n x).1 hx).1
      obtain ⟨e0, he0, hn0, hk0, hkn0, _, e0', rest0, hp0, _⟩ := hL x hx
      have hnK : lookupKey K n = none := by
        rw [← hn0]
        exact lookupKey_none_of_step rfc K x e0 ⟨e0', rest0, hp0⟩ (hg.each x hxS).2.2
      have hstepL : ∀ y ∈ touching S n, ∃ e, IsStep e y ∧ e.keys ≠ [] := by
        intro y hy
        obtain ⟨e, _, _, hk, _, _, e', rest, hp, _⟩ := hL y hy
        exact ⟨e, ⟨e', rest, hp⟩, hk⟩
      have hsubl : (touching S n).Sublist S := List.filter_sublist
      have hnr : NoReturn (touching S n) := by
        apply noReturn_of_interval _ (hg.interval.sublist hsubl)
        intro y hy
        obtain ⟨e, hst, _⟩ := hstepL y hy
        obtain ⟨e', rest, hp⟩ := hst
        rw [hp]; simp
      have hsubS : ∀ e, (∃ y ∈ touching S n, headOf y = some e) → sub (touching S n) e = sub S e ∧
          ∃ y ∈ S, IsStep e y := by
        rintro e ⟨y, hy, hye⟩
        obtain ⟨e1, h1, hn1, _, _, _, e', rest, hp, _⟩ := hL y hy
        have : e1 = e := by rw [hye] at h1; exact (Option.some.inj h1).symm
        subst this
        refine ⟨by rw [← hn1]; exact sub_touching e1 S, y, ((mem_touching S n y).1 hy).1, e', rest, hp⟩
      obtain ⟨hs, items, hf, hsnd, hmem, hall⟩ := memberFold_list rfc ord hord n KN (touching S n).length
        (touching S n) [] (Nat.le_refl _) hL hnr (by simp) (by simp)
        (by
          intro e he
          obtain ⟨hsub, hstep⟩ := hsubS e he
          obtain ⟨mc, hadd, _, _⟩ := hch e hstep
          exact ⟨_, by rw [hsub]; exact hadd⟩)
      have hschn : schemaLookup sch (np ++ [n]) = KN := by
        rw [← hn0, ← hkn0]
        exact schemaOK_head sch np S hsch x hxS e0 (e0' :: rest0) hp0 hk0
      have hitem : ∀ e it, ((∃ y ∈ touching S n, headOf y = some e) ∧ FullMatch e.keys it ∧
          addAllE rfc ord (sub (touching S n) e) (keyObj e.keys) = .ok it) →
          e.name = n ∧ e.keys.map (·.1) = KN ∧ ∃ mc, it = .obj mc ∧ FullMatch e.keys (.obj mc) ∧
            FlatChar rfc sch (np ++ [n]) (pre ++ [e]) e.keys (sub S e) mc ∧
            FlatNodup sch (np ++ [n]) (pre ++ [e]) mc := by
        intro e it ⟨he, hfm, hadd⟩
        obtain ⟨hsub, hstep⟩ := hsubS e he
        obtain ⟨mc, haddc, _, hflat, hnodup⟩ := hch e hstep
        rw [hsub, haddc] at hadd
        simp only [Except.ok.injEq] at hadd
        subst hadd
        obtain ⟨y, hy, hye⟩ := he
        obtain ⟨e1, h1, hn1, _, hkn1, _⟩ := hL y hy
        have : e1 = e := by rw [hye] at h1; exact (Option.some.inj h1).symm
        subst this
        refine ⟨hn1, hkn1, mc, rfl, hfm, ?_, ?_⟩
        · rw [← hn1]; exact hflat
        · rw [← hn1]; exact hnodup
      refine ⟨some (.arr items), ?_, ?_, ?_⟩
      · rw [hnK]
        simp only [Option.map_none]
        rw [memberFold_none_list rfc ord _ hstepL hne, hf]
        simp
      rotate_left
      · intro w hw
        simp only [Option.some.injEq] at hw
        subst hw
        rw [flatJ_arr, hschn]
        refine (flatA_nodup sch (np ++ [n]) pre n KN hs items (Forall2.imp ?_ hall) hsnd).1
        intro e it h
        obtain ⟨hen, hekn, mc, hmc, hfm, hflat, hnodup⟩ := hitem e it h
        subst hmc
        have hie : itemElem n KN mc = e := by
          rw [← hen]; exact itemElem_of_fullMatch e KN mc hekn hfm
        refine ⟨?_, ?_⟩
        · rw [flatItem_obj, hie]; exact hnodup
        · intro y hy
          rw [flatItem_obj, hie] at hy
          obtain ⟨q', hq', _⟩ := (hflat y.1 y.2).1 hy
          exact ⟨q', hq'⟩
      · apply memberSpec_list rfc sch np pre K S n KN hs items hL hnK hschn hmem
        refine Forall2.imp ?_ hall
        intro e it h
        obtain ⟨_, _, mc, hmc, hfm, hflat, _⟩ := hitem e it h
        exact ⟨mc, hmc, hfm, hflat⟩
  -- assemble
  have hokall : ∀ n, ∃ r, memberFold rfc ord (touching S n) (objGet (keyMembers K) n) = .ok r := by
    intro n; obtain ⟨r, hr, _⟩ := hfold n; exact ⟨r, hr⟩
  obtain ⟨m', hadd, hsorted, hget⟩ := addAllE_members rfc ord S (keyMembers K) hplain
    (keyMembers_sorted K hg.keysK) hokall
  have hspec : ∀ n, MemberSpec rfc sch np pre K S n (objGet m' n) ∧
      (∀ w, objGet m' n = some w → ((flatJ sch np pre n w).map (·.1)).Nodup) := by
    intro n
    obtain ⟨r, hr, hs, hnd⟩ := hfold n
    have := hget n
    rw [hr] at this
    simp only [Except.ok.injEq] at this
    rw [← this]
    exact ⟨hs, hnd⟩
  refine ⟨m', by rw [keyObj_eq]; exact hadd, hsorted, ?_, ?_⟩
  rotate_left
  · apply flatM_nodup sch np pre m' hsorted
    · intro k v hkv
      exact (hspec k).2 v ((mem_iff_objGet m' hsorted k v).1 hkv)
    · intro k v hkv y hy
      obtain ⟨a, q0, hqa, han, _⟩ := ((hspec k).1 y.1 y.2).1 ⟨v, (mem_iff_objGet m' hsorted k v).1 hkv, hy⟩
      exact ⟨a, q0, hqa, han⟩
  have hspec : ∀ n, MemberSpec rfc sch np pre K S n (objGet m' n) := fun n => (hspec n).1
  intro q j
  rw [mem_flatM]
  constructor
  · rintro ⟨k, v, hkv, hq⟩
    have hg' := (mem_iff_objGet m' hsorted k v).1 hkv
    obtain ⟨a, q0, hqa, _, hexp⟩ := (hspec k q j).1 ⟨v, hg', hq⟩
    exact ⟨a :: q0, hqa, hexp⟩
  · rintro ⟨q', hq', hexp⟩
    cases q' with
    | nil => exact absurd hexp (expAt_nonempty rfc K S (fun x hx => (hplain x hx).2) j)
    | cons a q0 =>
      obtain ⟨w, hw, hq⟩ := (hspec a.name q j).2 ⟨a, q0, hq', rfl, hexp⟩
      exact ⟨a.name, w, (mem_iff_objGet m' hsorted a.name w).2 hw, hq⟩

/-- the build theorem at element level, for every depth. -/
theorem build_main (hord : IsOrder ord) (sch : Schema) : ∀ (d : Nat) (S : List Entry) (K : List (Str × Str))
    (np : List Str) (pre : GPath), (∀ x ∈ S, x.1.length ≤ d) → GoodAt rfc K S → SchemaOK sch np S →
    ∃ m, addAllE rfc ord S (keyObj K) = .ok (.obj m) ∧ ObjSorted m ∧ FlatChar rfc sch np pre K S m ∧
      FlatNodup sch np pre m := by
  intro d
  induction d with
  | zero =>
    intro S K np pre hlen hg hsch
    apply build_step rfc ord hord sch S K np pre hg hsch
    rintro e ⟨x, hx, e', rest, hp⟩
    have := hlen x hx
    rw [hp] at this
    simp at this
  | succ d ih =>
    intro S K np pre hlen hg hsch
    apply build_step rfc ord hord sch S K np pre hg hsch
    rintro e ⟨x, hx, e', rest, hp⟩
    have heOK : Path.keysSorted e.keys = true := by
      have := (hg.each x hx).1
      rw [hp] at this
      have := (pathOK_tail e e' rest this).2
      simp only [elemOK, Bool.and_eq_true] at this
      exact this.1.2
    apply ih (sub S e) e.keys (np ++ [e.name]) (pre ++ [e])
    · intro y hy
      have := hlen _ ((mem_sub S e y).1 hy).2
      simp only [List.length_cons] at this
      omega
    · exact goodAt_sub rfc K S e hg heOK
    · exact schemaOK_sub sch np S e hsch

end OnosVerif.Tree
