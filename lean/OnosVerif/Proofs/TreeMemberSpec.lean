/- What the flattener reads from one member of a node, for each kind of member, in terms of the
   expected leaf set. -/
import OnosVerif.Proofs.TreeFlat

namespace OnosVerif.Tree
open OnosVerif.Path (Str GPath Elem)

variable (rfc : Bool)

theorem expected_nil (y : GPath × Json) : ¬ Expected rfc [] y := by
  rintro (h | ⟨h, _⟩)
  · simp [explicitLeaves] at h
  · simp [impliedLeaves] at h

theorem memberName_of_head (x : Entry) (a : Elem) (h : headOf x = some a) : memberName x = a.name := by
  obtain ⟨p, v⟩ := x
  cases p with
  | nil => simp [headOf] at h
  | cons b r =>
    simp only [headOf, List.head?_cons, Option.some.injEq] at h
    simp [memberName, h]

/-- nothing starts with `a`: nothing is expected under `a`. -/
theorem expected_none (S : List Entry) (a : Elem) (q0 : GPath) (j : Json)
    (h : ∀ x ∈ S, headOf x ≠ some a) : ¬ Expected rfc S (a :: q0, j) := by
  intro he
  have := (expected_narrow rfc S [] a q0 j (fun x hx => by
    constructor
    · intro hxs; exact absurd hx (h x hxs)
    · intro hn; simp at hn)).1 he
  exact expected_nil rfc _ this

/-- everything that starts with `e` goes *through* `e`: the expected leaves under `e` are those
    of the path/values below `e`, plus the key leaves of `e`. -/
theorem expected_child (S : List Entry) (e : Elem) (q0 : GPath) (j : Json)
    (hsteps : ∀ x ∈ S, headOf x = some e → IsStep e x) (hne : sub S e ≠ []) :
    Expected rfc S (e :: q0, j) ↔ ExpAt rfc e.keys (sub S e) (q0, j) := by
  rw [expected_narrow rfc S (lift e (sub S e)) e q0 j]
  · exact expected_lift rfc e (sub S e) (fun y hy => ((mem_sub S e y).1 hy).1) hne q0 j
  · intro x hx
    constructor
    · intro hxs
      obtain ⟨e', rest, hp⟩ := hsteps x hxs hx
      obtain ⟨p, v⟩ := x
      simp only at hp
      subst hp
      simp only [lift, List.mem_map]
      exact ⟨(e' :: rest, v), (mem_sub S e _).2 ⟨by simp, hxs⟩, rfl⟩
    · intro hl
      simp only [lift, List.mem_map] at hl
      obtain ⟨y, hy, hxy⟩ := hl
      rw [← hxy]
      exact ((mem_sub S e y).1 hy).2

/-- the flattener's reading of member `n` (holding `val`) is exactly the expected leaves whose
    path starts with an element named `n`. -/
def MemberSpec (sch : Schema) (np : List Str) (pre : GPath) (K : List (Str × Str)) (S : List Entry)
    (n : Str) (val : Option Json) : Prop :=
  ∀ q j, (∃ w, val = some w ∧ (q, j) ∈ flatJ sch np pre n w) ↔
    (∃ a q0, q = pre ++ a :: q0 ∧ a.name = n ∧ ExpAt rfc K S (a :: q0, j))

variable (sch : Schema) (np : List Str) (pre : GPath) (K : List (Str × Str)) (S : List Entry) (n : Str)

/-- no path/value touches the member: it is a key leaf of the entry, or absent. -/
theorem memberSpec_untouched (hK : Path.keysSorted K = true) (ht : touching S n = []) :
    MemberSpec rfc sch np pre K S n ((lookupKey K n).map Json.str) := by
  have hnone : ∀ a : Elem, a.name = n → ∀ x ∈ S, headOf x ≠ some a := by
    intro a ha x hx hh
    have : x ∈ touching S n := (mem_touching S n x).2 ⟨hx, by rw [memberName_of_head x a hh, ha]⟩
    rw [ht] at this
    simp at this
  intro q j
  constructor
  · rintro ⟨w, hw, hq⟩
    cases hl : lookupKey K n with
    | none => rw [hl] at hw; simp at hw
    | some t =>
      rw [hl] at hw
      simp only [Option.map_some, Option.some.injEq] at hw
      subst hw
      rw [flatJ_str, List.mem_singleton, Prod.mk.injEq] at hq
      refine ⟨{ name := n, keys := [] }, [], hq.1, rfl, Or.inr ⟨n, t, mem_of_lookupKey K n t hl, rfl, hq.2, ?_⟩⟩
      intro hex
      obtain ⟨v, j', hv, _⟩ := (mem_explicitPaths rfc S _).1 hex
      exact hnone { name := n, keys := [] } rfl _ hv rfl
  · rintro ⟨a, q0, hq, ha, hexp | ⟨k, t, hkt, hp, hj, _⟩⟩
    · exact absurd hexp (expected_none rfc S a q0 j (hnone a ha))
    · simp only [List.cons.injEq] at hp
      obtain ⟨hak, hq0⟩ := hp
      subst hq0
      have hkn : k = n := by rw [← ha, hak]
      subst hkn
      refine ⟨.str t, by rw [lookupKey_of_mem K k t hK hkt]; rfl, ?_⟩
      rw [flatJ_str, hq, hak]
      simp only at hj
      rw [hj]
      exact List.mem_singleton.2 rfl

/-- the member is a leaf. -/
theorem memberSpec_leaf (hK : Path.keysSorted K = true) (v : Val)
    (ht : touching S n = [([{ name := n, keys := [] }], v)]) :
    MemberSpec rfc sch np pre K S n (upd (leafJson rfc v) ((lookupKey K n).map Json.str)) := by
  have hin : ([{ name := n, keys := [] }], v) ∈ S := by
    have : ([{ name := n, keys := [] }], v) ∈ touching S n := by rw [ht]; exact List.mem_singleton.2 rfl
    exact ((mem_touching S n _).1 this).1
  have honly : ∀ a : Elem, a.name = n → ∀ x ∈ S, headOf x = some a → x = ([{ name := n, keys := [] }], v) := by
    intro a ha x hx hh
    have : x ∈ touching S n := (mem_touching S n x).2 ⟨hx, by rw [memberName_of_head x a hh, ha]⟩
    rw [ht] at this
    exact List.mem_singleton.1 this
  intro q j
  constructor
  · rintro ⟨w, hw, hq⟩
    cases hlj : leafJson rfc v with
    | some j1 =>
      rw [hlj] at hw
      simp only [upd, Option.some.injEq] at hw
      subst hw
      rw [flatJ_leaf rfc sch np pre n v j1 hlj, List.mem_singleton, Prod.mk.injEq] at hq
      refine ⟨{ name := n, keys := [] }, [], hq.1, rfl, Or.inl (Or.inl ?_)⟩
      rw [hq.2]
      exact (mem_explicitLeaves rfc S _ _).2 ⟨v, hin, hlj⟩
    | none =>
      rw [hlj] at hw
      simp only [upd] at hw
      cases hl : lookupKey K n with
      | none => rw [hl] at hw; simp at hw
      | some t =>
        rw [hl] at hw
        simp only [Option.map_some, Option.some.injEq] at hw
        subst hw
        rw [flatJ_str, List.mem_singleton, Prod.mk.injEq] at hq
        refine ⟨{ name := n, keys := [] }, [], hq.1, rfl,
          Or.inr ⟨n, t, mem_of_lookupKey K n t hl, rfl, hq.2, ?_⟩⟩
        intro hex
        obtain ⟨v', j', hv', hj'⟩ := (mem_explicitPaths rfc S _).1 hex
        have := honly { name := n, keys := [] } rfl _ hv' rfl
        simp only [Prod.mk.injEq, true_and] at this
        subst this
        rw [hlj] at hj'
        simp at hj'
  · rintro ⟨a, q0, hq, ha, hexp | ⟨k, t, hkt, hp, hj, hnex⟩⟩
    · by_cases hae : a = { name := n, keys := [] }
      · subst hae
        have hnarrow := (expected_narrow rfc S [([{ name := n, keys := [] }], v)] { name := n, keys := [] } q0 j
          (fun x hx => by
            constructor
            · intro hxs; exact List.mem_singleton.2 (honly _ rfl x hxs hx)
            · intro hxl; rw [List.mem_singleton.1 hxl]; exact hin)).1 hexp
        rcases hnarrow with h | ⟨h, _⟩
        · obtain ⟨v', hv', hj'⟩ := (mem_explicitLeaves rfc _ _ _).1 h
          simp only [List.mem_singleton, Prod.mk.injEq, List.cons.injEq, true_and] at hv'
          obtain ⟨hq0, hvv⟩ := hv'
          subst hq0; subst hvv
          refine ⟨j, by rw [hj']; rfl, ?_⟩
          rw [flatJ_leaf rfc sch np pre n v' j hj', hq]
          exact List.mem_singleton.2 rfl
        · simp [impliedLeaves, keyLeavesOfPath] at h
      · exfalso
        apply expected_none rfc S a q0 j _ hexp
        intro x hx hh
        have := honly a ha x hx hh
        subst this
        simp only [headOf, List.head?_cons, Option.some.injEq] at hh
        exact hae hh.symm
    · simp only [List.cons.injEq] at hp
      obtain ⟨hak, hq0⟩ := hp
      subst hq0
      have hkn : k = n := by rw [← ha, hak]
      subst hkn
      have hlj : leafJson rfc v = none := by
        cases hlj : leafJson rfc v with
        | none => rfl
        | some j' =>
          exfalso
          apply hnex
          rw [hak]
          exact (mem_explicitPaths rfc S _).2 ⟨v, j', hin, hlj⟩
      refine ⟨.str t, by rw [hlj, lookupKey_of_mem K k t hK hkt]; rfl, ?_⟩
      rw [flatJ_str, hq, hak]
      simp only at hj
      rw [hj]
      exact List.mem_singleton.2 rfl

/-- the member is a container. -/
theorem memberSpec_container (mc : List (Str × Json)) (hne : touching S n ≠ [])
    (hsteps : ∀ x ∈ touching S n, IsStep { name := n, keys := [] } x)
    (hnK : lookupKey K n = none)
    (hchild : ∀ q j, (q, j) ∈ flatM sch (np ++ [n]) (pre ++ [{ name := n, keys := [] }]) mc ↔
      ∃ q', q = (pre ++ [{ name := n, keys := [] }]) ++ q' ∧
        ExpAt rfc [] (sub S { name := n, keys := [] }) (q', j)) :
    MemberSpec rfc sch np pre K S n (some (.obj mc)) := by
  have hst : ∀ x ∈ S, headOf x = some { name := n, keys := [] } → IsStep { name := n, keys := [] } x := by
    intro x hx hh
    exact hsteps x ((mem_touching S n x).2 ⟨hx, by rw [memberName_of_head x _ hh]⟩)
  have hsubne : sub S { name := n, keys := [] } ≠ [] := by
    cases hL : touching S n with
    | nil => exact absurd hL hne
    | cons x L' =>
      have hx : x ∈ touching S n := by rw [hL]; exact List.mem_cons_self
      obtain ⟨e', rest, hp⟩ := hsteps x hx
      have hxs := ((mem_touching S n x).1 hx).1
      intro hempty
      have : (e' :: rest, x.2) ∈ sub S { name := n, keys := [] } :=
        (mem_sub S _ _).2 ⟨by simp, by rw [← hp]; exact hxs⟩
      rw [hempty] at this
      simp at this
  intro q j
  constructor
  · rintro ⟨w, hw, hq⟩
    simp only [Option.some.injEq] at hw
    subst hw
    rw [flatJ_obj] at hq
    obtain ⟨q', hq', hexp⟩ := (hchild q j).1 hq
    refine ⟨{ name := n, keys := [] }, q', by rw [hq']; simp, rfl, Or.inl ?_⟩
    exact (expected_child rfc S _ q' j hst hsubne).2 hexp
  · rintro ⟨a, q0, hq, ha, hexp | ⟨k, t, hkt, hp, _, _⟩⟩
    · by_cases hae : a = { name := n, keys := [] }
      · subst hae
        refine ⟨.obj mc, rfl, ?_⟩
        rw [flatJ_obj]
        apply (hchild q j).2
        exact ⟨q0, by rw [hq]; simp, (expected_child rfc S _ q0 j hst hsubne).1 hexp⟩
      · exfalso
        apply expected_none rfc S a q0 j _ hexp
        intro x hx hh
        obtain ⟨e', rest, hp⟩ := hsteps x ((mem_touching S n x).2 ⟨hx, by rw [memberName_of_head x a hh, ha]⟩)
        simp only [headOf, hp, List.head?_cons, Option.some.injEq] at hh
        exact hae hh.symm
    · exfalso
      simp only [List.cons.injEq] at hp
      have hkn : k = n := by rw [← ha, hp.1]
      subst hkn
      have hK' : ∃ t', lookupKey K k = some t' := by
        clear hnK hp
        induction K with
        | nil => simp at hkt
        | cons kv r ih =>
          unfold lookupKey
          by_cases hk : k = kv.1
          · exact ⟨kv.2, by simp [hk]⟩
          · simp only [hk, if_false]
            apply ih
            rcases List.mem_cons.1 hkt with h | h
            · exact absurd (by rw [← h]) hk
            · exact h
      obtain ⟨t', ht'⟩ := hK'
      rw [hnK] at ht'
      simp at ht'

end OnosVerif.Tree

namespace OnosVerif.Tree
open OnosVerif.Path (Str GPath Elem)

variable (rfc : Bool)
variable (sch : Schema) (np : List Str) (pre : GPath) (K : List (Str × Str)) (S : List Entry) (n : Str)

theorem lookupKey_some_of_mem : ∀ (K : List (Str × Str)) (k t : Str), (k, t) ∈ K → ∃ t', lookupKey K k = some t'
  | [], _, _, h => by simp at h
  | kv :: r, k, t, h => by
    unfold lookupKey
    by_cases hk : k = kv.1
    · exact ⟨kv.2, by simp [hk]⟩
    · simp only [hk, if_false]
      rcases List.mem_cons.1 h with h | h
      · exact absurd (by rw [← h]) hk
      · exact lookupKey_some_of_mem r k t h

/-- what is known about the item built for entry `e` of the list. -/
def ItemSpec (e : Elem) (it : Json) : Prop :=
  ∃ me, it = .obj me ∧ FullMatch e.keys (.obj me) ∧
    ∀ q j, (q, j) ∈ flatM sch (np ++ [n]) (pre ++ [e]) me ↔
      ∃ q', q = (pre ++ [e]) ++ q' ∧ ExpAt rfc e.keys (sub S e) (q', j)

/-- the member is a list. -/
theorem memberSpec_list (KN : List Str) (hs : List Elem) (items : List Json)
    (hL : ∀ x ∈ touching S n, ListEntryOK rfc n KN x)
    (hnK : lookupKey K n = none)
    (hsch : schemaLookup sch (np ++ [n]) = KN)
    (hmem : ∀ e, e ∈ hs ↔ ∃ x ∈ touching S n, headOf x = some e)
    (hall : Forall2 (ItemSpec rfc sch np pre S n) hs items) :
    MemberSpec rfc sch np pre K S n (some (.arr items)) := by
  -- facts about an entry of the list
  have hentry : ∀ e ∈ hs, e.name = n ∧ e.keys.map (·.1) = KN ∧
      (∀ x ∈ S, headOf x = some e → IsStep e x) ∧ sub S e ≠ [] := by
    intro e he
    obtain ⟨x, hx, hxe⟩ := (hmem e).1 he
    obtain ⟨e1, h1, hn1, _, hkn1, _, _⟩ := hL x hx
    have : e1 = e := by rw [hxe] at h1; exact (Option.some.inj h1).symm
    subst this
    refine ⟨hn1, hkn1, ?_, ?_⟩
    · intro y hy hye
      have hyt : y ∈ touching S n := (mem_touching S n y).2 ⟨hy, by rw [memberName_of_head y _ hye, hn1]⟩
      obtain ⟨e2, h2, _, _, _, _, e', rest, hp, _⟩ := hL y hyt
      have : e2 = e1 := by rw [hye] at h2; exact (Option.some.inj h2).symm
      subst this
      exact ⟨e', rest, hp⟩
    · obtain ⟨e2, h2, _, _, _, _, e', rest, hp, _⟩ := hL x hx
      have : e2 = e1 := by rw [hxe] at h2; exact (Option.some.inj h2).symm
      subst this
      intro hempty
      have : (e' :: rest, x.2) ∈ sub S e2 :=
        (mem_sub S _ _).2 ⟨by simp, by rw [← hp]; exact ((mem_touching S n x).1 hx).1⟩
      rw [hempty] at this
      simp at this
  intro q j
  constructor
  · rintro ⟨w, hw, hq⟩
    simp only [Option.some.injEq] at hw
    subst hw
    rw [flatJ_arr, hsch] at hq
    obtain ⟨it, hit, hq⟩ := (mem_flatA sch _ pre n KN (q, j) items).1 hq
    obtain ⟨e, he, me, hme, hfm, hflat⟩ := Forall2.right_mem hall it hit
    obtain ⟨hen, hekn, hest, hesub⟩ := hentry e he
    subst hme
    rw [flatItem_obj] at hq
    have hie : itemElem n KN me = e := by
      rw [← hen]; exact itemElem_of_fullMatch e KN me hekn hfm
    rw [hie] at hq
    obtain ⟨q', hq', hexp⟩ := (hflat q j).1 hq
    refine ⟨e, q', by rw [hq']; simp, hen, Or.inl ?_⟩
    exact (expected_child rfc S e q' j hest hesub).2 hexp
  · rintro ⟨a, q0, hq, ha, hexp | ⟨k, t, hkt, hp, _, _⟩⟩
    · by_cases hae : a ∈ hs
      · obtain ⟨hen, hekn, hest, hesub⟩ := hentry a hae
        obtain ⟨it, hit, me, hme, hfm, hflat⟩ := Forall2.left_mem hall a hae
        refine ⟨.arr items, rfl, ?_⟩
        rw [flatJ_arr, hsch]
        apply (mem_flatA sch _ pre n KN (q, j) items).2
        refine ⟨it, hit, ?_⟩
        subst hme
        rw [flatItem_obj]
        have hie : itemElem n KN me = a := by
          rw [← hen]; exact itemElem_of_fullMatch a KN me hekn hfm
        rw [hie]
        apply (hflat q j).2
        exact ⟨q0, by rw [hq]; simp, (expected_child rfc S a q0 j hest hesub).1 hexp⟩
      · exfalso
        apply expected_none rfc S a q0 j _ hexp
        intro x hx hh
        apply hae
        exact (hmem a).2 ⟨x, (mem_touching S n x).2 ⟨hx, by rw [memberName_of_head x a hh, ha]⟩, hh⟩
    · exfalso
      simp only [List.cons.injEq] at hp
      have hkn : k = n := by rw [← ha, hp.1]
      subst hkn
      obtain ⟨t', ht'⟩ := lookupKey_some_of_mem K k t hkt
      rw [hnK] at ht'
      simp at ht'

end OnosVerif.Tree
