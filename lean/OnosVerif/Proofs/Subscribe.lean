/- Helper lemmas for the C19 theorems (OnosVerif/Props/C19.lean). -/
import OnosVerif.Subscribe.Model

namespace OnosVerif.Subscribe

/-- the distinct non-empty targets named by the entries, in order of first appearance. -/
def targetsOf (subs : List Sub) : List Str :=
  subs.foldl (fun acc s => if subTarget s = [] ∨ subTarget s ∈ acc then acc else acc ++ [subTarget s]) []

/-- the entries naming target `t`, in their original order. -/
def subsFor (t : Str) (subs : List Sub) : List Sub := subs.filter (fun s => subTarget s = t)

/-- the request target `t` ends up with, given the entries `ss` that name it. -/
def mkReq (req : Req) (l : SubList) (t : Str) (ss : List Sub) : Req :=
  { body := .subscribe
      { pfx := newPrefix l t, subs := newSubs l ++ ss,
        opts := copyFields (copiedOf Generated.splitListLiteral) l.opts },
    top := copyFields (copiedOf Generated.splitRequestLiteral) req.top }

/-- the whole map, written without a loop. -/
def build (req : Req) (l : SubList) (subs : List Sub) : TReqs :=
  (targetsOf subs).map fun t => (t, mkReq req l t (subsFor t subs))

theorem targetsOf_snoc (done : List Sub) (s : Sub) :
    targetsOf (done ++ [s]) =
      if subTarget s = [] ∨ subTarget s ∈ targetsOf done then targetsOf done
      else targetsOf done ++ [subTarget s] := by
  unfold targetsOf
  rw [List.foldl_append]
  rfl

theorem subsFor_snoc (t : Str) (done : List Sub) (s : Sub) :
    subsFor t (done ++ [s]) = subsFor t done ++ (if subTarget s = t then [s] else []) := by
  simp only [subsFor, List.filter_append, List.filter_cons, List.filter_nil]
  by_cases h : subTarget s = t <;> simp [h]

theorem mem_targetsOf_aux (subs : List Sub) :
    ∀ done, ∀ t, t ∈ targetsOf (done ++ subs) ↔
      (t ∈ targetsOf done ∨ (t ≠ [] ∧ ∃ s ∈ subs, subTarget s = t)) := by
  induction subs with
  | nil => intro done t; simp
  | cons s rest ih =>
    intro done t
    have : done ++ s :: rest = (done ++ [s]) ++ rest := by simp
    rw [this, ih (done ++ [s]) t, targetsOf_snoc]
    by_cases h : subTarget s = [] ∨ subTarget s ∈ targetsOf done
    · simp only [h, if_true, List.mem_cons]
      constructor
      · rintro (h1 | ⟨h1, s', hs', h2⟩)
        · exact Or.inl h1
        · exact Or.inr ⟨h1, s', Or.inr hs', h2⟩
      · rintro (h1 | ⟨h1, s', hs', h2⟩)
        · exact Or.inl h1
        · rcases hs' with rfl | hs'
          · rcases h with h | h
            · exact absurd (h2 ▸ h) h1
            · exact Or.inl (h2 ▸ h)
          · exact Or.inr ⟨h1, s', hs', h2⟩
    · simp only [h, if_false, List.mem_append, List.mem_cons, List.not_mem_nil, or_false]
      have hne : subTarget s ≠ [] := fun h' => h (Or.inl h')
      constructor
      · rintro ((h1 | h1) | ⟨h1, s', hs', h2⟩)
        · exact Or.inl h1
        · exact Or.inr ⟨h1 ▸ hne, s, Or.inl rfl, h1.symm⟩
        · exact Or.inr ⟨h1, s', Or.inr hs', h2⟩
      · rintro (h1 | ⟨h1, s', hs', h2⟩)
        · exact Or.inl (Or.inl h1)
        · rcases hs' with rfl | hs'
          · exact Or.inl (Or.inr h2.symm)
          · exact Or.inr ⟨h1, s', hs', h2⟩

/-- a target is a key exactly when it is non-empty and named by some entry. -/
theorem mem_targetsOf (subs : List Sub) (t : Str) :
    t ∈ targetsOf subs ↔ t ≠ [] ∧ ∃ s ∈ subs, subTarget s = t := by
  have := mem_targetsOf_aux subs [] t
  simpa [targetsOf] using this

theorem nodup_targetsOf_aux (subs : List Sub) :
    ∀ done, (targetsOf done).Nodup → (targetsOf (done ++ subs)).Nodup := by
  induction subs with
  | nil => intro done h; simpa using h
  | cons s rest ih =>
    intro done h
    have : done ++ s :: rest = (done ++ [s]) ++ rest := by simp
    rw [this]
    apply ih
    rw [targetsOf_snoc]
    by_cases hc : subTarget s = [] ∨ subTarget s ∈ targetsOf done
    · simpa [hc] using h
    · simp only [hc, if_false]
      have hn : subTarget s ∉ targetsOf done := fun h' => hc (Or.inr h')
      rw [List.nodup_append]
      refine ⟨h, by simp, ?_⟩
      intro a ha b hb
      simp at hb
      subst hb
      intro hab
      exact hn (hab ▸ ha)

/-- no target has two requests. -/
theorem nodup_targetsOf (subs : List Sub) : (targetsOf subs).Nodup := by
  have := nodup_targetsOf_aux subs [] (by simp [targetsOf])
  simpa using this

theorem subsFor_nil_of_not_mem (t : Str) (ht : t ≠ []) (done : List Sub) (h : t ∉ targetsOf done) :
    subsFor t done = [] := by
  simp only [subsFor, List.filter_eq_nil_iff]
  intro s hs
  simp only [decide_eq_true_eq]
  intro hst
  exact h ((mem_targetsOf done t).mpr ⟨ht, s, hs, hst⟩)

theorem appendSub_mkReq (req : Req) (l : SubList) (t : Str) (ss : List Sub) (s : Sub) :
    appendSub (mkReq req l t ss) s = mkReq req l t (ss ++ [s]) := by
  simp [appendSub, mkReq, List.append_assoc]

theorem newTargetReq_eq (req : Req) (l : SubList) (t : Str) : newTargetReq req l t = mkReq req l t [] := by
  simp [newTargetReq, mkReq]

theorem build_any (req : Req) (l : SubList) (done : List Sub) (t : Str) :
    (build req l done).any (fun kr => decide (kr.1 = t)) = decide (t ∈ targetsOf done) := by
  rw [Bool.eq_iff_iff]
  simp only [build, List.any_map, List.any_eq_true, Function.comp, decide_eq_true_eq]
  constructor
  · rintro ⟨x, hx, rfl⟩; exact hx
  · intro h; exact ⟨t, h, rfl⟩

/-- one loop iteration on the closed form. -/
theorem addSub_build (req : Req) (l : SubList) (done : List Sub) (s : Sub) :
    addSub req l (build req l done) s = build req l (done ++ [s]) := by
  unfold addSub
  by_cases h0 : subTarget s = []
  · simp only [h0, if_true]
    simp only [build, targetsOf_snoc, h0, true_or, if_true]
    apply List.map_congr_left
    intro t' ht'
    have hne : t' ≠ [] := ((mem_targetsOf done t').mp ht').1
    have : ¬ ([] : Str) = t' := fun h => hne h.symm
    simp [subsFor_snoc, h0, this]
  · simp only [h0, if_false]
    rw [build_any]
    by_cases hm : subTarget s ∈ targetsOf done
    · simp only [hm, decide_true, if_true]
      simp only [build, targetsOf_snoc, hm, or_true, if_true, List.map_map]
      apply List.map_congr_left
      intro t' _
      simp only [Function.comp]
      by_cases ht : t' = subTarget s
      · subst ht
        simp [subsFor_snoc, appendSub_mkReq]
      · have : ¬ subTarget s = t' := fun h => ht h.symm
        simp [ht, subsFor_snoc, this]
    · simp only [hm, decide_false, Bool.false_eq_true, if_false]
      simp only [build, targetsOf_snoc, h0, hm, or_self, if_false, List.map_append, List.map_cons, List.map_nil]
      congr 1
      · apply List.map_congr_left
        intro t' ht'
        have : ¬ subTarget s = t' := fun h => hm (h ▸ ht')
        simp [subsFor_snoc, this]
      · simp [subsFor_snoc, subsFor_nil_of_not_mem _ h0 done hm, newTargetReq_eq, appendSub_mkReq]

theorem foldl_addSub_build (req : Req) (l : SubList) (rest : List Sub) :
    ∀ done, rest.foldl (addSub req l) (build req l done) = build req l (done ++ rest) := by
  induction rest with
  | nil => intro done; simp
  | cons s rest ih =>
    intro done
    simp only [List.foldl_cons, addSub_build, ih]
    simp

/-- the loop of `splitSubscribeRequest` computes the closed form. -/
theorem foldl_addSub (req : Req) (l : SubList) (subs : List Sub) :
    subs.foldl (addSub req l) [] = build req l subs := by
  have := foldl_addSub_build req l subs []
  simpa [build, targetsOf] using this

/-- closed form of `splitSubscribeRequest` on a subscribe message. -/
theorem split_closed (top : Fields) (l : SubList) :
    split { body := .subscribe l, top := top } =
      if getTarget l.pfx ≠ [] then .ok (.ok [(getTarget l.pfx, { body := .subscribe l, top := top })])
      else if targetsOf l.subs = [] then .ok (.error .noTarget)
      else .ok (.ok (build { body := .subscribe l, top := top } l l.subs)) := by
  simp only [split, foldl_addSub]
  by_cases hp : getTarget l.pfx = []
  · simp only [hp, ne_eq, not_true_eq_false, if_false]
    by_cases ht : targetsOf l.subs = []
    · simp [build, ht]
    · simp only [ht, if_false]
      have : (build { body := .subscribe l, top := top } l l.subs).isEmpty = false := by
        simp [build, ht]
      simp [this]
  · simp [hp]

end OnosVerif.Subscribe

namespace OnosVerif.Subscribe

/-! ### the literals of the current source -/

/-- the list-level option fields of `gnmi.SubscriptionList` (everything but `Prefix`/`Subscription`). -/
def listOptionFields : List String :=
  Generated.gnmiSubscriptionListFields.filter (fun n => n != "Prefix" && n != "Subscription")

/-- the request-level fields of `gnmi.SubscribeRequest` other than the oneof. -/
def reqTopFields : List String := Generated.gnmiSubscribeRequestFields.filter (fun n => n != "Request")

def optsOK (opts : Fields) : Bool := opts.all (fun kv => listOptionFields.contains kv.1)
def topOK (top : Fields) : Bool := top.all (fun kv => reqTopFields.contains kv.1)

theorem newSubs_facts (l : SubList) : newSubs l = [] := rfl

theorem newPrefix_facts (l : SubList) (t : Str) : newPrefix l t = some (copyPrefix l.pfx t) := rfl

theorem listOptions_all_copied :
    listOptionFields.all (fun n => (copiedOf Generated.splitListLiteral).contains n) = true := by decide

theorem reqTop_all_copied :
    reqTopFields.all (fun n => (copiedOf Generated.splitRequestLiteral).contains n) = true := by decide

theorem copyFields_id (copied all : List String) (f : Fields)
    (hall : all.all (fun n => copied.contains n) = true)
    (hf : f.all (fun kv => all.contains kv.1) = true) : copyFields copied f = f := by
  simp only [copyFields, List.filter_eq_self]
  intro kv hkv
  have h1 := List.all_eq_true.mp hf kv hkv
  have h2 := List.all_eq_true.mp hall kv.1 (by simpa using h1)
  exact h2

/-- every list-level option is carried into the per-target request. -/
theorem copy_opts (opts : Fields) (h : optsOK opts = true) :
    copyFields (copiedOf Generated.splitListLiteral) opts = opts :=
  copyFields_id _ listOptionFields opts listOptions_all_copied h

/-- every request-level field (the extensions) is carried into the per-target request. -/
theorem copy_top (top : Fields) (h : topOK top = true) :
    copyFields (copiedOf Generated.splitRequestLiteral) top = top :=
  copyFields_id _ reqTopFields top reqTop_all_copied h

/-- the per-target request under the current literals. -/
theorem mkReq_facts (top : Fields) (l : SubList) (t : Str) (ss : List Sub)
    (ho : optsOK l.opts = true) (ht : topOK top = true) :
    mkReq { body := .subscribe l, top := top } l t ss =
      { body := .subscribe { pfx := some (copyPrefix l.pfx t), subs := ss, opts := l.opts }, top := top } := by
  simp [mkReq, newSubs_facts, newPrefix_facts, copy_opts l.opts ho, copy_top top ht]

/-- `copyPrefix` under the current literal: `Origin` and `Elem` are carried, `Target` is the
    argument, the deprecated `Element` is dropped; zero values are absent. -/
theorem copyPrefix_facts (pfx : Option Fields) (t : Str) :
    copyPrefix pfx t =
      (if (pfx.map (fun f => fieldGet f "Origin")).getD [] = [] then []
        else [("Origin", (pfx.map (fun f => fieldGet f "Origin")).getD [])]) ++
      (if (pfx.map (fun f => fieldGet f "Elem")).getD [] = [] then []
        else [("Elem", (pfx.map (fun f => fieldGet f "Elem")).getD [])]) ++
      (if t = [] then [] else [("Target", t)]) := by
  simp only [copyPrefix, Generated.gnmiPathFields, Generated.copyPrefixLiteral, literalMode,
    List.filterMap_cons, List.filterMap_nil, List.find?]
  by_cases h1 : (pfx.map (fun f => fieldGet f "Origin")).getD [] = [] <;>
  by_cases h2 : (pfx.map (fun f => fieldGet f "Elem")).getD [] = [] <;>
  by_cases h3 : t = [] <;> simp [h1, h2, h3]

theorem getTarget_copyPrefix (pfx : Option Fields) (t : Str) : getTarget (some (copyPrefix pfx t)) = t := by
  rw [copyPrefix_facts]
  generalize (pfx.map (fun f => fieldGet f "Origin")).getD [] = o
  generalize (pfx.map (fun f => fieldGet f "Elem")).getD [] = e
  by_cases h1 : o = [] <;> by_cases h2 : e = [] <;> by_cases h3 : t = [] <;>
    simp [h1, h2, h3, getTarget, fieldGet, List.find?]

/-! ### membership in the closed form -/

def reqSubs (r : Req) : List Sub :=
  match r.body with
  | .subscribe l => l.subs
  | _ => []

theorem mem_build (req : Req) (l : SubList) (subs : List Sub) (t : Str) (r : Req) :
    (t, r) ∈ build req l subs ↔
      (t ≠ [] ∧ (∃ s ∈ subs, subTarget s = t) ∧ r = mkReq req l t (subsFor t subs)) := by
  simp only [build, List.mem_map, Prod.mk.injEq]
  constructor
  · rintro ⟨t', ht', rfl, rfl⟩
    have := (mem_targetsOf subs t').mp ht'
    exact ⟨this.1, this.2, rfl⟩
  · rintro ⟨h1, h2, rfl⟩
    exact ⟨t, (mem_targetsOf subs t).mpr ⟨h1, h2⟩, rfl, rfl⟩

theorem keys_build (req : Req) (l : SubList) (subs : List Sub) :
    (build req l subs).map (·.1) = targetsOf subs := by
  simp only [build, List.map_map]
  have : ((fun x : Str × Req => x.1) ∘ fun t => (t, mkReq req l t (subsFor t subs))) = id := by
    funext t; rfl
  rw [this, List.map_id]

/-! ### the stream machine -/

theorem devLookup_some_iff (dev : Dev) (t : Str) :
    (devLookup dev t).isSome = dev.any (fun kv => decide (kv.1 = t)) := by
  induction dev with
  | nil => rfl
  | cons kv rest ih =>
    simp only [devLookup, List.find?, List.any_cons] at ih ⊢
    by_cases h : kv.1 = t
    · simp [h]
    · simp only [h, decide_false, Bool.false_or]
      exact ih

theorem isPoll_of_isSub (q : Req) (h : isSub q = true) : isPoll q = false := by
  cases q with | mk b t => cases b <;> simp_all [isSub, isPoll]

theorem isSub_of_isPoll (q : Req) (h : isPoll q = true) : isSub q = false := by
  cases q with | mk b t => cases b <;> simp_all [isSub, isPoll]

/-- `processSubscribeRequest` as the current source dispatches (the chain of `Generated.subProcessChain`
    written out): duplicate subscription, poll before subscription, subscription, poll, anything else. -/
def processHand (dev : Dev) (st : SState) (msg : Req) : SState × List Out × Option Err :=
  if isSub msg && st.req.isSome then (st, [], some .duplicate)
  else if isPoll msg && st.req.isNone then (st, [], some .notYet)
  else if isSub msg then
    match split msg with
    | .ok (.ok m) => ({ req := some msg, treqs := m }, m.flatMap (forward dev), none)
    | .ok (.error e) => ({ req := some msg, treqs := [] }, [], some e)
    | .error _ => ({ req := some msg, treqs := [] }, [], some .noTarget)
  else if isPoll msg then ({ st with polls := st.polls + 1 }, st.treqs.flatMap (pollOne dev st.polls), none)
  else (st, [], some .unknownType)

set_option linter.unusedSimpArgs false in
/-- the interpreter on the extracted chain is that dispatch. -/
theorem process_eq (dev : Dev) (st : SState) (msg : Req) : process dev st msg = processHand dev st msg := by
  unfold process processHand
  cases hs : isSub msg <;> cases hp : isPoll msg <;> cases hh : st.req.isSome <;>
    simp [Generated.subProcessChain, List.find?, atomHolds, refusalKind, doSubscribe, hs, hp, hh, Option.isNone_iff_eq_none,
      Option.isSome_iff_ne_none] <;>
    (first | rfl | (cases hr : st.req <;> simp_all))

/-- number of leading poll messages. -/
def leadingPolls : List Event → Nat
  | .msg m :: rest => if isPoll m then leadingPolls rest + 1 else 0
  | _ => 0

/-- how the loop ends after `k` polls were consumed. -/
def retAfter : List Event → Option Ret
  | [] => none
  | .eof :: _ => some .eofErr
  | .recvErr :: _ => some .nil
  | .msg m :: rest =>
    if isPoll m then retAfter rest
    else if isSub m then some (.invalid .duplicate)
    else some (.invalid .unknownType)

/-- everything the relay produces is a relayed message of that target. -/
theorem relays_mem (t : Str) (msgs : List DevMsg) (o : Out) (h : o ∈ relays t msgs) : ∃ id, o = .relayed t id := by
  induction msgs with
  | nil => simp [relays] at h
  | cons m rest ih =>
    cases m with
    | resp id =>
      simp only [relays, List.mem_cons] at h
      rcases h with h | h
      · exact ⟨id, h⟩
      · exact ih h
    | sync =>
      simp only [relays, List.mem_cons] at h
      rcases h with h | h
      · exact ⟨syncId, h⟩
      · exact ih h
    | other id => simp [relays] at h

theorem roundRelays_mem (t : Str) (rounds : List (List DevMsg)) (k : Nat) (o : Out)
    (h : o ∈ roundRelays t rounds k) : ∃ id, o = .relayed t id := by
  unfold roundRelays at h
  split at h
  · simp at h
  · exact relays_mem t _ o h

/-- the identity of a relayed message. -/
def msgId : DevMsg → Str
  | .resp id => id
  | .sync => syncId
  | .other id => id

/-- a round without foreign messages is relayed whole, in order. -/
theorem relays_all (t : Str) (msgs : List DevMsg) (h : msgs.any isOther = false) :
    relays t msgs = msgs.map (fun m => Out.relayed t (msgId m)) := by
  induction msgs with
  | nil => rfl
  | cons m rest ih =>
    simp only [List.any_cons, Bool.or_eq_false_iff] at h
    cases m with
    | resp id => simp [relays, msgId, ih h.2]
    | sync => simp [relays, msgId, ih h.2]
    | other id => simp [isOther] at h

/-- once subscribed, a stream can only be polled: the closed form of the loop — the i-th poll in
    a row fetches round (polls so far + i + 1) of every connected subscribed target. -/
theorem run_subscribed (dev : Dev) (r0 : Req) (m : TReqs) (evs : List Event) :
    ∀ p : Nat, run dev { req := some r0, treqs := m, polls := p } evs =
      ((List.range (leadingPolls evs)).flatMap (fun i => m.flatMap (pollOne dev (p + i))), retAfter evs) := by
  induction evs with
  | nil => intro p; rfl
  | cons e rest ih =>
    intro p
    cases e with
    | eof => rfl
    | recvErr => rfl
    | msg q =>
      by_cases hs : isSub q = true
      · have hp : isPoll q = false := by
          cases q with | mk b t => cases b <;> simp_all [isSub, isPoll]
        simp [run, process_eq, processHand, hs, hp, leadingPolls, retAfter]
      · have hs' : isSub q = false := by simpa using hs
        by_cases hp : isPoll q = true
        · simp only [run, process_eq, processHand, hs', hp, leadingPolls, retAfter, Bool.false_and,
            Bool.true_and, Option.isNone_some, Bool.false_eq_true, if_false, if_true, ih (p + 1)]
          simp only [List.range_succ_eq_map, List.flatMap_cons, List.flatMap_map, Nat.add_zero]
          congr 2
          have : (fun i => List.flatMap (pollOne dev (p + 1 + i)) m) =
              (fun a : Nat => List.flatMap (pollOne dev (p + a.succ)) m) := by
            funext i
            have : p + 1 + i = p + i.succ := by omega
            rw [this]
          rw [this]
        · have hp' : isPoll q = false := by simpa using hp
          simp [run, process_eq, processHand, hs', hp', leadingPolls, retAfter]

end OnosVerif.Subscribe
