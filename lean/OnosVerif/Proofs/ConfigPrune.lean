/- `PrunePathValues` of the value-path twin through the pruning theorem proved for C18
   (`OnosVerif.Tree.prune_textual`): which paths survive `prunePathValues · true`. -/
import OnosVerif.Proofs.ConfigApply
import OnosVerif.Proofs.TreePrune

namespace OnosVerif.Config
open OnosVerif.Path (Str strLt)
open OnosVerif.Path

/-- the C18 twin's path/value with the same path and deleted flag. -/
def toTree (e : PV) : Tree.PV := { path := e.path, val := .empty, deleted := e.deleted }

theorem hasPrefix_eq_tree : ∀ (s p : Str), hasPrefix s p = Tree.hasPrefix s p
  | _, [] => by simp [hasPrefix, Tree.hasPrefix, List.isPrefixOf]
  | [], _ :: _ => by simp [hasPrefix, Tree.hasPrefix, List.isPrefixOf]
  | c :: cs, p :: ps => by
    have ih := hasPrefix_eq_tree cs ps
    simp only [Tree.hasPrefix] at ih
    simp only [hasPrefix, Tree.hasPrefix, List.isPrefixOf, ih]
    by_cases h : c = p
    · subst h; simp
    · have : (p == c) = false := by simp [Ne.symm h]
      simp [h, this]

theorem insertSorted_tree (e : PV) : ∀ (xs : List PV), (∀ x ∈ xs, x.path ≠ e.path) →
    (insertSorted e xs).map toTree = Tree.insertPV (toTree e) (xs.map toTree)
  | [], _ => rfl
  | x :: xs, h => by
    have hx : x.path ≠ e.path := h x List.mem_cons_self
    simp only [insertSorted, List.map_cons, Tree.insertPV, toTree]
    cases h1 : strLt e.path x.path with
    | true =>
      have h2 : strLt x.path e.path = false := strLt_asymm _ _ h1
      simp [h2, toTree]
    | false =>
      have h2 : strLt x.path e.path = true := by
        cases h2 : strLt x.path e.path with
        | true => rfl
        | false => exact absurd (strLt_connected _ _ h2 h1) hx
      simp only [h2, if_true, Bool.false_eq_true, if_false, List.map_cons, toTree, List.cons.injEq, true_and]
      exact insertSorted_tree e xs (fun y hy => h y (List.mem_cons_of_mem _ hy))

theorem mem_insertSorted (e y : PV) : ∀ (xs : List PV), y ∈ insertSorted e xs ↔ y = e ∨ y ∈ xs
  | [] => by simp [insertSorted]
  | x :: xs => by
    simp only [insertSorted]
    split
    · simp
    · simp only [List.mem_cons, mem_insertSorted e y xs]
      constructor
      · rintro (h | h | h) <;> simp [h]
      · rintro (h | h | h) <;> simp [h]

theorem mem_sortByPath (y : PV) : ∀ (l : List PV), y ∈ sortByPath l ↔ y ∈ l
  | [] => by simp [sortByPath]
  | x :: l => by
    have ih := mem_sortByPath y l
    simp only [sortByPath, List.foldr_cons] at ih ⊢
    rw [mem_insertSorted, ih]; simp

theorem sortByPath_tree : ∀ (l : List PV), NodupP l →
    (sortByPath l).map toTree = Tree.sortPVs (l.map toTree)
  | [], _ => rfl
  | x :: l, h => by
    simp only [NodupP, List.pairwise_cons] at h
    have ih := sortByPath_tree l h.2
    simp only [sortByPath, Tree.sortPVs, List.foldr_cons, List.map_cons] at ih ⊢
    have hins := insertSorted_tree x (List.foldr insertSorted [] l)
      (fun y hy => fun e => h.1 y ((mem_sortByPath y l).1 hy) e.symm)
    rw [hins, ih]

theorem pruneLoop_tree (lt : Bool) : ∀ (l : List PV) (dp : Str),
    (pruneLoop lt l dp).map toTree = Tree.pruneLoop lt dp (l.map toTree)
  | [], _ => rfl
  | pv :: rest, dp => by
    have ih := pruneLoop_tree lt rest
    rw [pruneLoop, List.map_cons, Tree.pruneLoop]
    simp only [apply_ite (List.map toTree), List.map_append, List.map_cons, List.map_nil, ih, toTree,
      hasPrefix_eq_tree]
    first
      | rfl
      | (split <;> first | rfl | (split <;> rfl))

theorem prune_tree (l : List PV) (lt : Bool) (h : NodupP l) :
    (prunePathValues l lt).map toTree = Tree.prunePathValues (l.map toTree) lt := by
  unfold prunePathValues Tree.prunePathValues
  rw [pruneLoop_tree, sortByPath_tree l h]

theorem pathsDistinct_tree : ∀ (l : List PV), NodupP l → Tree.pathsDistinct (l.map toTree) = true
  | [], _ => rfl
  | x :: l, h => by
    simp only [NodupP, List.pairwise_cons] at h
    simp only [List.map_cons, Tree.pathsDistinct, Bool.and_eq_true, List.all_eq_true, List.mem_map,
      bne_iff_ne, ne_eq]
    refine ⟨?_, pathsDistinct_tree l h.2⟩
    rintro q ⟨y, hy, rfl⟩
    exact fun e => h.1 y hy e.symm

/-- some other deleted entry of the map is a textual prefix of `p`. -/
def covered (values : VMap) (p : Str) : Bool :=
  values.any (fun t => t.deleted && t.path != p && hasPrefix p t.path)

/-- which paths of the map survive `PrunePathValues(·, true)`: exactly those not textually below
    another deleted entry. -/
theorem inPruned_iff (values : VMap) (hn : NodupP values) (hne : ∀ e ∈ values, e.path ≠ [])
    (p : Str) (hp : p ∈ paths values) :
    (prunePathValues values true).any (fun e => e.path = p) = !covered values p := by
  have hd := pathsDistinct_tree values hn
  have hnoe : Tree.noEmptyPath (values.map toTree) = true := by
    simp only [Tree.noEmptyPath, List.all_eq_true, List.mem_map, Bool.not_eq_true',
      List.isEmpty_eq_false_iff]
    rintro q ⟨y, hy, rfl⟩
    exact hne y hy
  have hspec := Tree.prune_textual (values.map toTree) true hd (fun _ => hnoe)
  rw [← prune_tree values true hn] at hspec
  -- membership of paths
  have hmem : ∀ q, q ∈ (prunePathValues values true).map (·.path) ↔
      q ∈ (Tree.pruneSpec Tree.hasPrefix true (values.map toTree)).map (·.path) := by
    intro q
    rw [← hspec, List.map_map]
    rfl
  rw [Bool.eq_iff_iff]
  simp only [List.any_eq_true, decide_eq_true_eq, Bool.not_eq_true', ← Bool.not_eq_true]
  have hl : (∃ x ∈ prunePathValues values true, x.path = p) ↔ p ∈ (prunePathValues values true).map (·.path) := by
    simp [List.mem_map]
  rw [hl, hmem p]
  simp only [Tree.pruneSpec, List.mem_map, List.mem_filter, Tree.mem_sortPVs, Bool.and_eq_true,
    Bool.true_or, and_true, Bool.not_eq_true']
  simp only [paths, List.mem_map] at hp
  obtain ⟨e0, he0, hpe0⟩ := hp
  constructor
  · rintro ⟨x, ⟨⟨y, hy, rfl⟩, hcov⟩, hxp⟩ hc
    simp only [toTree] at hxp
    simp only [covered, List.any_eq_true, Bool.and_eq_true, bne_iff_ne, ne_eq] at hc
    obtain ⟨t, ht, ⟨htd, htp⟩, hpre⟩ := hc
    simp only [Tree.coveredIn, List.any_eq_false, List.mem_map] at hcov
    have := hcov (toTree t) ⟨t, ht, rfl⟩
    simp only [toTree, htd, Bool.true_and, hxp] at this
    have hte : t.path ≠ [] := hne t ht
    have h1 : (t.path.isEmpty) = false := by simpa using hte
    rw [← hasPrefix_eq_tree, hpre] at this
    simp [h1, htp] at this
  · intro hc
    refine ⟨toTree e0, ⟨⟨e0, he0, rfl⟩, ?_⟩, by simp [toTree, hpe0]⟩
    simp only [Tree.coveredIn, List.any_eq_false, List.mem_map]
    rintro d ⟨t, ht, rfl⟩
    have hnc : ¬ (t.deleted = true ∧ t.path ≠ p ∧ hasPrefix p t.path = true) := by
      intro ⟨h1, h2, h3⟩
      apply hc
      simp only [covered, List.any_eq_true, Bool.and_eq_true, bne_iff_ne, ne_eq]
      exact ⟨t, ht, ⟨h1, h2⟩, h3⟩
    simp only [toTree, hpe0, ← hasPrefix_eq_tree]
    intro hall
    simp only [Bool.and_eq_true, Bool.not_eq_true', bne_iff_ne, ne_eq] at hall
    exact hnc ⟨hall.1.1.1, hall.1.2, hall.2⟩

end OnosVerif.Config
