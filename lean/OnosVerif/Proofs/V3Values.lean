/-
Lemmas about the value maps of the v3 twin (`vLookup`, `vInsert`, `vOverlay`) and about what the
configuration writes do to `Committed.Values` as `Get` returns it.
-/
import OnosVerif.V3.Spec

namespace OnosVerif.V3

theorem vLookup_vInsert_self (k : Str) (v : PV) (m : Values) : vLookup (vInsert k v m) k = some v := by
  induction m with
  | nil => simp [vInsert, vLookup]
  | cons kv rest ih =>
    obtain ⟨k', v'⟩ := kv
    unfold vInsert
    split
    · simp [vLookup]
    · split
      · simp [vLookup]
      · rename_i h1 h2
        simp only [vLookup]
        have : ¬ k' = k := fun e => h2 e.symm
        simp only [this, if_false]
        exact ih

theorem vLookup_vInsert_ne {k k' : Str} (v : PV) (m : Values) (h : k' ≠ k) :
    vLookup (vInsert k v m) k' = vLookup m k' := by
  induction m with
  | nil =>
    simp only [vInsert, vLookup]
    have : ¬ k = k' := fun e => h e.symm
    simp [this]
  | cons kv rest ih =>
    obtain ⟨k2, v2⟩ := kv
    unfold vInsert
    split
    · simp only [vLookup]
      have : ¬ k = k' := fun e => h e.symm
      simp [this]
    · split
      · rename_i _ he
        subst he
        simp only [vLookup]
        have : ¬ k = k' := fun e => h e.symm
        simp [this]
      · simp only [vLookup]
        split
        · rfl
        · exact ih

/-- keys of a value map -/
def vKeys (m : Values) : List Str := m.map (·.1)

/-- a key not written by the overlay keeps its value -/
theorem vLookup_vOverlay_notMem (base top : Values) (k : Str) (h : k ∉ vKeys top) :
    vLookup (vOverlay base top) k = vLookup base k := by
  unfold vOverlay
  induction top generalizing base with
  | nil => rfl
  | cons kv rest ih =>
    simp only [List.foldl_cons]
    simp only [vKeys, List.map_cons, List.mem_cons, not_or] at h
    rw [ih _ (by simpa [vKeys] using h.2)]
    exact vLookup_vInsert_ne _ _ h.1

/-- a key written by the overlay (keys pairwise distinct) gets the overlay's value -/
theorem vLookup_vOverlay_mem (base top : Values) (k : Str) (v : PV) (hm : (k, v) ∈ top)
    (hu : (vKeys top).Nodup) : vLookup (vOverlay base top) k = some v := by
  unfold vOverlay
  induction top generalizing base with
  | nil => simp at hm
  | cons kv rest ih =>
    simp only [List.foldl_cons]
    simp only [vKeys, List.map_cons, List.nodup_cons] at hu
    rcases List.mem_cons.mp hm with e | hm'
    · subst e
      have hnot : k ∉ vKeys rest := hu.1
      have := vLookup_vOverlay_notMem (vInsert k v base) rest k hnot
      unfold vOverlay at this
      rw [this]
      exact vLookup_vInsert_self _ _ _
    · exact ih _ hm' hu.2

/-- overlaying the same map twice changes no lookup -/
theorem vLookup_vOverlay_idem (base top : Values) (k : Str) :
    vLookup (vOverlay (vOverlay base top) top) k = vLookup (vOverlay base top) k := by
  by_cases h : k ∈ vKeys top
  · -- the value is determined by `top` alone
    have key : ∀ (b1 b2 : Values), vLookup (vOverlay b1 top) k = vLookup (vOverlay b2 top) k := by
      intro b1 b2
      unfold vOverlay
      induction top generalizing b1 b2 with
      | nil => simp [vKeys] at h
      | cons kv rest ih =>
        simp only [List.foldl_cons]
        by_cases hr : k ∈ vKeys rest
        · exact ih hr _ _
        · have h1 := vLookup_vOverlay_notMem (vInsert kv.1 kv.2 b1) rest k hr
          have h2 := vLookup_vOverlay_notMem (vInsert kv.1 kv.2 b2) rest k hr
          unfold vOverlay at h1 h2
          rw [h1, h2]
          have hk : kv.1 = k := by
            simp only [vKeys, List.map_cons, List.mem_cons] at h
            rcases h with e | e
            · exact e.symm
            · exact absurd (by simpa [vKeys] using e) hr
          rw [hk, vLookup_vInsert_self, vLookup_vInsert_self]
    exact key _ _
  · rw [vLookup_vOverlay_notMem _ _ _ h]

end OnosVerif.V3
