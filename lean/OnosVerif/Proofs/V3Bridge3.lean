/-
Bridge, part 3: an invocation of the transaction reconciler whose first write is not a swallowed
conflict (and whose side-map transactions succeed) is a sequence of core steps; so is every other
step of the twin; hence `run_reach`.
-/
import OnosVerif.Proofs.V3Bridge2
namespace OnosVerif.V3

theorem core_applyAct_eq {s : Sys} {a : Act} {last : Option Str} (h1 : storeOK s a last = true)
    (h2 : a.isCfg = false → ∃ t, getTx s a.txIndex = some t) :
    core (applyAct s a last) = cAct (core s) a := by
  rcases core_applyAct s a last with h | h
  · -- a stutter is excluded
    unfold applyAct at h ⊢
    by_cases hc : a.isCfg = true
    · simp only [storeOK, hc, Bool.not_true, Bool.false_or] at h1
      simp only [hc, if_true] at h ⊢
      cases hs : storeSide s.side (actValues (view s) a).2 last with
      | none => rw [hs] at h1; simp at h1
      | some side =>
        simp only
        rw [core_addEvent, cAct_cfg hc]
        congr 1
        simp only [core]
        congr 1
        rw [← actCfg_cur]
        rfl
    · have hc' : a.isCfg = false := by simpa using hc
      obtain ⟨t, ht⟩ := h2 hc'
      simp only [hc', Bool.false_eq_true, if_false, ht]
      rw [core_addEvent, core_setTx ht, cAct_tx hc' (core_tx_some ht)]
      congr 2
      rw [← actTx_core]
      rfl
  · exact h

theorem applyAct_txs_cfg {s : Sys} {a : Act} {last : Option Str} (hc : a.isCfg = true) :
    (applyAct s a last).txs = s.txs := by
  unfold applyAct
  simp only [hc, if_true]
  split
  · rfl
  · unfold addEvent
    split <;> rfl

theorem getTx_applyAct_cfg {s : Sys} {a : Act} {last : Option Str} (hc : a.isCfg = true) (i : Nat) :
    getTx (applyAct s a last) i = getTx s i := by
  unfold getTx
  rw [applyAct_txs_cfg hc]

theorem safeInj_head {inj : List Inj} (h : safeInj inj = true) :
    inj.headD .ok ≠ .conflict ∧ inj.headD .ok ≠ .race := by
  cases inj with
  | nil => simp
  | cons x rest => cases x <;> simp_all [safeInj]

end OnosVerif.V3

namespace OnosVerif.V3

theorem ite_last_true {α β γ : Type} (c : Prop) [Decidable c] (a1 a2 : α) (b1 b2 : β) (c1 c2 : γ) (w : Bool) :
    (if c then (a1, b1, c1, true || w) else (a2, b2, c2, true)).2.2.2 = true := by
  split <;> simp

/-- the second write of a two-write branch, from the state after the first -/
theorem runActs_second {s s1 : Sys} {i : Nat} {t : Tx} {last : Option Str} {a b : Act} {inj2 : List Inj}
    (he : Enabled (core s) i t.core [a, b]) (hk : (core s).tx i = some t.core)
    (h1 : core s1 = cAct (core s) a) (htx : a.isCfg = true → getTx s1 i = some t)
    (hsf : (runActs s1 i last [b] inj2).2.2.2 = false) :
    CStar (core s) (core (runActs s1 i last [b] inj2).1) := by
  have hfirst : CStar (core s) (core s1) := by
    rw [h1]; exact CStar.single (CStep.first _ i t.core a [b] hk he)
  have hab : a.isCfg ≠ b.isCfg := by
    rcases he.shape with ⟨x, hx⟩ | ⟨x, y, hxy, hne⟩
    · simp at hx
    · simp only [List.cons.injEq, and_true] at hxy
      obtain ⟨rfl, rfl⟩ := hxy
      exact hne
  have hbi : b.isCfg = false → b.txIndex = i := he.txIndex b (by simp)
  have hb_tx : b.isCfg = false → ∃ t', getTx s1 b.txIndex = some t' := by
    intro hb
    have ha : a.isCfg = true := by
      cases h : a.isCfg
      · rw [h, hb] at hab; exact absurd rfl hab
      · rfl
    rw [hbi hb]
    exact ⟨t, htx ha⟩
  have hboth : ∀ s2, core s2 = cAct (core s1) b → CStar (core s) (core s2) := by
    intro s2 h2
    rw [h2, h1]
    exact CStar.single (CStep.both _ i t.core a b hk he)
  have hsame : ∀ s2, core s2 = core s1 → CStar (core s) (core s2) := by
    intro s2 h2; rw [h2]; exact hfirst
  simp only [runActs] at hsf ⊢
  cases hj : inj2.headD Inj.ok <;> simp only [hj] at hsf ⊢
  · -- ok
    by_cases hso : storeOK s1 b last = true
    · simp only [hso, if_true]
      exact hboth _ (core_applyAct_eq hso hb_tx)
    · simp only [hso, Bool.false_eq_true, if_false] at hsf
      rw [ite_last_true] at hsf; cases hsf
  · exact hfirst
  · -- conflict
    split <;> split <;> first
      | exact hsame _ (by rw [core_sideWrite, core_touchCfg])
      | exact hsame _ (core_touchTx _ _)
  · -- sideOnly
    split
    · exact hsame _ (core_sideWrite _ _ _)
    · rename_i hb
      have hb' : b.isCfg = false := by simpa using hb
      exact hboth _ (core_applyAct_eq (by simp [storeOK, hb']) hb_tx)
  · -- race
    by_cases hb : b.isCfg = true
    · simp only [hb, if_true] at hsf ⊢
      by_cases hso : storeOK s1 b last = true
      · simp only [hso, if_true]
        exact hboth _ (core_applyAct_eq hso hb_tx)
      · simp only [hso, Bool.false_eq_true, if_false] at hsf
        rw [ite_last_true] at hsf; cases hsf
    · have hb' : b.isCfg = false := by simpa using hb
      simp only [hb', Bool.false_eq_true, if_false]
      cases hl : (nbRollback s1 i).2
      · simp only [Bool.false_eq_true, if_false]
        exact hboth _ (core_applyAct_eq (by simp [storeOK, hb']) hb_tx)
      · simp only [if_true]
        split <;> exact hfirst.trans (nbRollback_star s1 i)

theorem runActs_star {s : Sys} {i : Nat} {t : Tx} {last : Option Str} {acts : List Act} {inj : List Inj}
    (hg : getTx s i = some t) (he : Enabled (core s) i t.core acts) (hsafe : safeInj inj = true)
    (hsf : (runActs s i last acts inj).2.2.2 = false) :
    CStar (core s) (core (runActs s i last acts inj).1) := by
  have hk := core_tx_some hg
  obtain ⟨hnc, hnr⟩ := safeInj_head hsafe
  rcases he.shape with ⟨a, rfl⟩ | ⟨a, b, rfl, hab⟩
  · -- one write
    have hai : a.isCfg = false → a.txIndex = i := he.txIndex a (by simp)
    have ha_tx : a.isCfg = false → ∃ t', getTx s a.txIndex = some t' := by
      intro ha; rw [hai ha]; exact ⟨t, hg⟩
    have hone : ∀ s1, core s1 = cAct (core s) a → CStar (core s) (core s1) := by
      intro s1 h1; rw [h1]; exact CStar.single (CStep.first _ i t.core a [] hk he)
    simp only [runActs] at hsf ⊢
    cases hj : inj.headD Inj.ok <;> simp only [hj] at hsf ⊢
    · by_cases hso : storeOK s a last = true
      · simp only [hso, if_true]
        exact hone _ (core_applyAct_eq hso ha_tx)
      · simp only [hso, Bool.false_eq_true, if_false] at hsf
        rw [ite_last_true] at hsf; cases hsf
    · exact .refl _
    · exact absurd hj hnc
    · split
      · exact CStar.of_eq (core_sideWrite _ _ _)
      · rename_i ha
        have ha' : a.isCfg = false := by simpa using ha
        exact hone _ (core_applyAct_eq (by simp [storeOK, ha']) ha_tx)
    · exact absurd hj hnr
  · -- two writes
    have hai : a.isCfg = false → a.txIndex = i := he.txIndex a (by simp)
    have ha_tx : a.isCfg = false → ∃ t', getTx s a.txIndex = some t' := by
      intro ha; rw [hai ha]; exact ⟨t, hg⟩
    rw [runActs] at hsf ⊢
    cases hj : inj.headD Inj.ok <;> simp only [hj] at hsf ⊢
    · -- ok
      by_cases hso : storeOK s a last = true
      · simp only [hso, if_true] at hsf ⊢
        have h1 := core_applyAct_eq hso ha_tx
        have hsf2 : (runActs (applyAct s a last) i last [b] inj.tail).2.2.2 = false := by
          cases h : (runActs (applyAct s a last) i last [b] inj.tail).2.2.2
          · rfl
          · simp [h] at hsf
        exact runActs_second he hk h1 (fun hc => by rw [getTx_applyAct_cfg hc]; exact hg) hsf2
      · simp only [hso, Bool.false_eq_true, if_false] at hsf
        rw [ite_last_true] at hsf; cases hsf
    · exact .refl _
    · exact absurd hj hnc
    · split
      · exact CStar.of_eq (core_sideWrite _ _ _)
      · rename_i ha
        have ha' : a.isCfg = false := by simpa using ha
        simp only [ha', Bool.false_eq_true, if_false] at hsf
        have h1 := core_applyAct_eq (s := s) (a := a) (last := last) (by simp [storeOK, ha']) ha_tx
        have hsf2 : (runActs (applyAct s a last) i last [b] inj.tail).2.2.2 = false := by
          cases h : (runActs (applyAct s a last) i last [b] inj.tail).2.2.2
          · rfl
          · simp [h] at hsf
        exact runActs_second he hk h1 (fun hc => by rw [hc] at ha'; cases ha') hsf2
    · exact absurd hj hnr

theorem devSet_shape (s : Sys) (v : Values) (e : Nat) (n : Str) : ∃ d, (devSet s v e n).1 = { s with dev := d } := by
  unfold devSet
  split
  · exact ⟨s.dev, rfl⟩
  · dsimp only
    split
    · exact ⟨_, rfl⟩
    · exact ⟨s.dev, rfl⟩

/-- one invocation of the transaction reconciler without a swallowed conflict -/
theorem stepTx_star (s : Sys) (i : Nat) (verdict : Verdict) (ans : Str) (inj : List Inj) (last : Option Str)
    (hsafe : safeInj inj = true) (hsf : (stepTx s i verdict ans inj last).2.storeFail = false) :
    CStar (core s) (core (stepTx s i verdict ans inj last).1) := by
  unfold stepTx at hsf ⊢
  simp only at hsf ⊢
  cases hp : planTx s i verdict (effAns (effName s ans)) with
  | fall => exact .refl _
  | panic e => exact .refl _
  | plan p =>
    rw [hp] at hsf
    simp only at hsf ⊢
    have key : ∀ d, (runActs { s with dev := d } i last p.acts inj).2.2.2 = false →
        CStar (core s) (core (runActs { s with dev := d } i last p.acts inj).1) := by
      intro d hsfx
      rcases planTx_enabled hp with h0 | ⟨t, hg, he⟩
      · rw [h0]
        simp only [runActs]
        exact .refl _
      · exact runActs_star (s := { s with dev := d }) (t := t) hg he hsafe hsfx
    cases hsend : p.send with
    | none =>
      rw [hsend] at hsf
      simp only at hsf ⊢
      exact key s.dev hsf
    | some values =>
      rw [hsend] at hsf
      simp only at hsf ⊢
      obtain ⟨d, hd⟩ := devSet_shape s values s.cfg.aTerm ans
      rw [hd] at hsf ⊢
      exact key d hsf

/-- every step of the twin under a safe action is a (possibly empty) sequence of core steps -/
theorem step_star (s : Sys) (a : Action) (hsafe : safeAction a = true) (hsf : stepStoreFail s a = false) :
    CStar (core s) (core (step s a)) := by
  cases a with
  | append vals =>
    simp only [step]
    rw [core_nbAppend]
    exact CStar.single (CStep.append _)
  | rollback i => exact nbRollback_star s i
  | tx i verdict ans inj last => exact stepTx_star s i verdict ans inj last hsafe hsf
  | cfg ans inj last order => exact CStar.of_eq (core_stepCfg s ans inj last order)
  | mast pick inj last => exact CStar.of_eq (core_stepMast s pick inj last)
  | env e => exact CStar.of_eq (core_stepEnv s e)

theorem core_initSys (seed : Nat) : core (initSys seed) = {} := rfl

/-- the core of every state reachable under a schedule without swallowed conflicts is reachable in
    the core's own transition system -/
theorem run_reach (s : Sys) (acts : List Action) (h0 : CReach (core s))
    (hsafe : safeSchedule acts = true) (hsf : storeNeverFails s acts = true) :
    CReach (core (run s acts)) := by
  induction acts generalizing s with
  | nil => exact h0
  | cons a rest ih =>
    simp only [safeSchedule, List.all_cons, Bool.and_eq_true] at hsafe
    simp only [storeNeverFails, Bool.and_eq_true, Bool.not_eq_eq_eq_not, Bool.not_true] at hsf
    simp only [run, List.foldl_cons]
    exact ih (step s a) (h0.star (step_star s a hsafe.1 hsf.1)) hsafe.2 hsf.2

end OnosVerif.V3
