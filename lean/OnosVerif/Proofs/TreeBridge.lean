/- `addPath` on the text of a well-formed path is `addElems` on its elements. -/
import OnosVerif.Proofs.TreeBuild

namespace OnosVerif.Tree
open OnosVerif.Path (Str GPath Elem indexOf elemBody keysText strPathElem splitPath)

/-! ### text of well-formed elements -/

theorem keyValSimple_spec (v : Str) (h : keyValSimple v = true) :
    v ≠ [] ∧ ∀ c ∈ v, c ≠ ']' ∧ c ≠ '\\' ∧ c ≠ '/' := by
  simp only [keyValSimple, Bool.and_eq_true, Bool.not_eq_true', List.all_eq_true, decide_eq_true_eq,
    List.isEmpty_eq_false_iff] at h
  exact ⟨h.1, fun c hc => ⟨(h.2 c hc).1.1, (h.2 c hc).1.2, (h.2 c hc).2⟩⟩

theorem elemOK_spec (e : Elem) (h : elemOK e = true) :
    nameSimple e.name = true ∧ Path.keysSorted e.keys = true ∧
      ∀ kv ∈ e.keys, nameSimple kv.1 = true ∧ keyValSimple kv.2 = true := by
  simp only [elemOK, Bool.and_eq_true, List.all_eq_true] at h
  exact ⟨h.1.1, h.1.2, h.2⟩

theorem elemOK_wf (e : Elem) (h : elemOK e = true) : Path.elemWF e = true := by
  obtain ⟨hn, hs, hk⟩ := elemOK_spec e h
  obtain ⟨hne, hnc⟩ := nameSimple_spec e.name hn
  simp only [Path.elemWF, Bool.and_eq_true, List.all_eq_true]
  refine ⟨⟨?_, ?_⟩, hs⟩
  · simp only [Path.nameOK, Bool.and_eq_true, Bool.not_eq_true', List.all_eq_true, decide_eq_true_eq,
      List.isEmpty_eq_false_iff]
    exact ⟨hne, fun c hc => (hnc c hc).2.2.1⟩
  · intro kv hkv
    obtain ⟨h1, h2⟩ := hk kv hkv
    obtain ⟨hkne, hkc⟩ := nameSimple_spec kv.1 h1
    obtain ⟨hvne, _⟩ := keyValSimple_spec kv.2 h2
    simp only [Path.keyNameOK, Path.keyValOK, Bool.and_eq_true, Bool.not_eq_true', List.all_eq_true,
      decide_eq_true_eq, List.isEmpty_eq_false_iff]
    exact ⟨⟨hkne, fun c hc => ⟨⟨(hkc c hc).2.2.2.2, (hkc c hc).2.1⟩, (hkc c hc).2.2.2.1⟩⟩, hvne⟩

theorem pathOK_all (p : GPath) (h : pathOK p = true) : ∀ e ∈ p, elemOK e = true := by
  simp only [pathOK, Bool.and_eq_true, List.all_eq_true] at h
  exact h.1

theorem pathOK_wf (p : GPath) (h : pathOK p = true) : Path.pathWF p = true := by
  simp only [Path.pathWF, List.all_eq_true]
  exact fun e he => elemOK_wf e (pathOK_all p h e he)

theorem elemText_eq_body (e : Elem) : elemText e = elemBody e := rfl

theorem strKey_simple (k v : Str) (hv : keyValSimple v = true) :
    Path.strKey (k, v) = '[' :: (k ++ '=' :: (v ++ [']'])) := by
  have := (keyValSimple_spec v hv).2
  simp only [Path.strKey]
  rw [writeSafe_plain ']' v (fun c hc => ⟨(this c hc).1, (this c hc).2.1⟩)]

theorem body_name (e : Elem) (h : elemOK e = true) : elemBody e = e.name ++ keysText e.keys := by
  obtain ⟨hn, _, _⟩ := elemOK_spec e h
  have := (nameSimple_spec e.name hn).2
  simp only [elemBody]
  rw [writeSafe_plain '/' e.name (fun c hc => ⟨(this c hc).1, (this c hc).2.1⟩)]

theorem keysText_cons_simple (k v : Str) (r : List (Str × Str)) (hv : keyValSimple v = true) :
    keysText ((k, v) :: r) = ('[' :: (k ++ '=' :: v)) ++ ']' :: keysText r := by
  rw [Path.keysText_cons, strKey_simple k v hv]
  simp

/-! ### strings.Index on such text -/

theorem indexOf_absent (c : Char) : ∀ (a : Str) (i : Nat), (∀ x ∈ a, x ≠ c) → indexOf c i a = none
  | [], _, _ => rfl
  | x :: a, i, h => by
    have hx := h x List.mem_cons_self
    simp only [indexOf, hx, if_false]
    exact indexOf_absent c a (i + 1) (fun y hy => h y (List.mem_cons_of_mem _ hy))

theorem indexOf_found (c : Char) : ∀ (a rest : Str) (i : Nat), (∀ x ∈ a, x ≠ c) →
    indexOf c i (a ++ c :: rest) = some (i + a.length)
  | [], rest, i, _ => by simp [indexOf]
  | x :: a, rest, i, h => by
    have hx := h x List.mem_cons_self
    simp only [List.cons_append, indexOf, hx, if_false, List.length_cons]
    rw [indexOf_found c a rest (i + 1) (fun y hy => h y (List.mem_cons_of_mem _ hy))]
    congr 1; omega

theorem contains_iff_indexOf (c : Char) (a : Str) : a.contains c = (indexOf c 0 a).isSome := by
  have : ∀ (a : Str) (i : Nat), a.contains c = (indexOf c i a).isSome := by
    intro a
    induction a with
    | nil => intro i; rfl
    | cons x a ih =>
      intro i
      simp only [List.contains_cons, indexOf]
      by_cases hx : x = c
      · subst hx; simp
      · have : (c == x) = false := by simp [Ne.symm hx]
        simp only [this, Bool.false_or, hx, if_false]
        exact ih (i + 1)
  exact this a 0

/-! ### the key loop -/

theorem keyLoop_keysText : ∀ (ks acc : List (Str × Str)) (fuel : Nat),
    (keysText ks).length ≤ fuel →
    (∀ kv ∈ ks, nameSimple kv.1 = true ∧ keyValSimple kv.2 = true) →
    Path.keysSorted ks = true → (∀ a ∈ acc, ∀ b ∈ ks, Path.strLt a.1 b.1 = true) →
    keyLoop fuel (keysText ks) acc = .ok (acc ++ ks)
  | [], acc, fuel, _, _, _, _ => by
    cases fuel <;> simp [keyLoop, keysText, indexOf]
  | (k, v) :: r, acc, fuel, hfuel, hok, hs, hacc => by
    obtain ⟨hkn, hkv⟩ := hok (k, v) List.mem_cons_self
    have hkc := (nameSimple_spec k hkn).2
    have hvc := (keyValSimple_spec v hkv).2
    rw [keysText_cons_simple k v r hkv] at hfuel ⊢
    cases fuel with
    | zero => simp at hfuel
    | succ fuel =>
      -- the three indices
      have hEq : indexOf '=' 0 (('[' :: (k ++ '=' :: v)) ++ ']' :: keysText r) = some (k.length + 1) := by
        have : ('[' :: (k ++ '=' :: v)) ++ ']' :: keysText r = ('[' :: k) ++ '=' :: (v ++ ']' :: keysText r) := by simp
        rw [this, indexOf_found '=' ('[' :: k) _ 0]
        · simp
        · intro x hx
          rcases List.mem_cons.1 hx with h | h
          · subst h; decide
          · exact (hkc x h).2.2.2.2
      have hOpen : indexOf '[' 0 (('[' :: (k ++ '=' :: v)) ++ ']' :: keysText r) = some 0 := by
        simp [indexOf]
      have hClose : indexOf ']' 0 (('[' :: (k ++ '=' :: v)) ++ ']' :: keysText r) = some (k.length + v.length + 2) := by
        rw [indexOf_found ']' ('[' :: (k ++ '=' :: v)) _ 0]
        · simp; omega
        · intro x hx
          rcases List.mem_cons.1 hx with h | h
          · subst h; decide
          · rcases List.mem_append.1 h with h | h
            · exact (hkc x h).2.2.2.1
            · rcases List.mem_cons.1 h with h | h
              · subst h; decide
              · exact (hvc x h).1
      simp only [keyLoop, hEq, hOpen, hClose]
      have h1 : ¬ (k.length + 1 < 0 + 1) := by omega
      have h2 : ¬ (k.length + v.length + 2 < k.length + 1 + 1) := by omega
      simp only [h1, h2, if_false]
      -- the pieces cut out
      have hkey : (List.take (k.length + 1) (('[' :: (k ++ '=' :: v)) ++ ']' :: keysText r)).drop (0 + 1) = k := by
        have : ('[' :: (k ++ '=' :: v)) ++ ']' :: keysText r = ('[' :: k) ++ ('=' :: (v ++ ']' :: keysText r)) := by simp
        rw [this]
        have hl : k.length + 1 = ('[' :: k).length := by simp
        rw [hl, Path.take_append_len]
        simp
      have hval : (List.take (k.length + v.length + 2) (('[' :: (k ++ '=' :: v)) ++ ']' :: keysText r)).drop (k.length + 1 + 1) = v := by
        have hl : k.length + v.length + 2 = ('[' :: (k ++ '=' :: v)).length := by simp; omega
        rw [hl, Path.take_append_len]
        have : ('[' :: (k ++ '=' :: v)) = ('[' :: k) ++ '=' :: v := by simp
        rw [this]
        have hl2 : k.length + 1 + 1 = ('[' :: k).length + 1 := by simp
        rw [hl2, Path.drop_append_cons]
      have hrest : List.drop (k.length + v.length + 2 + 1) (('[' :: (k ++ '=' :: v)) ++ ']' :: keysText r) = keysText r := by
        have hl : k.length + v.length + 2 + 1 = ('[' :: (k ++ '=' :: v)).length + 1 := by simp; omega
        rw [hl, Path.drop_append_cons]
      rw [hkey, hval, hrest]
      simp only [Path.keysSorted, Bool.and_eq_true, List.all_eq_true] at hs
      rw [Path.mapInsert_last k v acc (fun a ha => hacc a ha (k, v) List.mem_cons_self)]
      rw [keyLoop_keysText r (acc ++ [(k, v)]) fuel
        (by simp only [List.length_append, List.length_cons] at hfuel ⊢; omega)
        (fun kv h => hok kv (List.mem_cons_of_mem _ h)) hs.2]
      · simp
      · intro a ha b hb
        rcases List.mem_append.1 ha with h | h
        · exact hacc a h b (List.mem_cons_of_mem _ hb)
        · simp only [List.mem_singleton] at h
          subst h
          exact hs.1 b hb

/-! ### the first element of the text -/

theorem keysText_head (ks : List (Str × Str)) (hne : ks ≠ [])
    (hok : ∀ kv ∈ ks, nameSimple kv.1 = true ∧ keyValSimple kv.2 = true) :
    ∃ r, keysText ks = '[' :: r ∧ r.contains '=' = true := by
  cases ks with
  | nil => exact absurd rfl hne
  | cons kv r =>
    obtain ⟨k, v⟩ := kv
    rw [keysText_cons_simple k v r (hok (k, v) List.mem_cons_self).2]
    refine ⟨(k ++ '=' :: v) ++ ']' :: keysText r, by simp, ?_⟩
    simp [List.contains_eq_mem]

theorem body_contains_eq (e : Elem) (h : elemOK e = true) :
    (elemBody e).contains '=' = !e.keys.isEmpty := by
  obtain ⟨hn, _, hk⟩ := elemOK_spec e h
  have hnc := (nameSimple_spec e.name hn).2
  rw [body_name e h]
  cases hke : e.keys with
  | nil =>
    simp only [keysText, List.flatMap_nil, List.append_nil, List.isEmpty_nil, Bool.not_true]
    rw [contains_iff_indexOf, indexOf_absent '=' e.name 0 (fun x hx => (hnc x hx).2.2.2.2)]
    rfl
  | cons kv r =>
    obtain ⟨r', hr', hc⟩ := keysText_head e.keys (by rw [hke]; simp) hk
    rw [← hke, hr']
    simp only [hke, List.isEmpty_cons, Bool.not_false]
    simp only [List.contains_eq_mem, List.mem_append, List.mem_cons, decide_eq_true_eq] at hc ⊢
    exact Or.inr (Or.inr hc)

theorem body_bracket (e : Elem) (h : elemOK e = true) (hk : e.keys ≠ []) :
    indexOf '[' 0 (elemBody e) = some e.name.length ∧
      (elemBody e).take e.name.length = e.name ∧ (elemBody e).drop e.name.length = keysText e.keys := by
  obtain ⟨hn, _, hks⟩ := elemOK_spec e h
  have hnc := (nameSimple_spec e.name hn).2
  obtain ⟨r, hr, _⟩ := keysText_head e.keys hk hks
  rw [body_name e h]
  refine ⟨?_, Path.take_append_len _ _, Path.drop_append_len _ _⟩
  rw [hr, indexOf_found '[' e.name r 0 (fun x hx => (hnc x hx).2.2.1)]
  simp

theorem joinSlash_bodies : ∀ (r : GPath), r ≠ [] → (∀ e ∈ r, Path.keysSorted e.keys = true) →
    '/' :: joinSlash (r.map elemBody) = strPathElem r
  | [], h, _ => absurd rfl h
  | [e], _, hs => by
    rw [Path.strPathElem_cons e [] (hs e List.mem_cons_self)]
    simp [joinSlash, strPathElem]
  | e :: e' :: rest, _, hs => by
    rw [Path.strPathElem_cons e (e' :: rest) (hs e List.mem_cons_self)]
    rw [← joinSlash_bodies (e' :: rest) (by simp) (fun x hx => hs x (List.mem_cons_of_mem _ hx))]
    simp [joinSlash]

theorem joinSlash_nonempty (r : GPath) (hne : r ≠ []) (hwf : ∀ e ∈ r, Path.elemWF e = true) :
    (joinSlash (r.map elemBody)).isEmpty = false := by
  cases r with
  | nil => exact absurd rfl hne
  | cons e r' =>
    have hb := Path.elemBody_ne_nil e (hwf e List.mem_cons_self)
    cases r' with
    | nil =>
      simp only [List.map_cons, List.map_nil, joinSlash]
      cases hbe : elemBody e with
      | nil => exact absurd hbe hb
      | cons _ _ => rfl
    | cons e' rest =>
      simp only [List.map_cons, joinSlash]
      cases hbe : elemBody e with
      | nil => exact absurd hbe hb
      | cons _ _ => rfl

/-! ### the nil-map branch is unreachable with a non-empty key map -/

theorem scanItem_sel (m : List (Str × Json)) (i : Nat) : ∀ (km : List (Str × Str)) (st : Nat × Option Nat),
    (0 < st.1 → st.2.isSome = true) → (0 < (scanItem m i km st).1 → (scanItem m i km st).2.isSome = true)
  | [], st, h => by simpa [scanItem] using h
  | (k, v) :: rest, (fk, sel), h => by
    unfold scanItem
    cases objGet m k with
    | none => exact scanItem_sel m i rest (fk, sel) h
    | some l =>
      simp only
      by_cases he : convertBasicType l = v
      · simp only [he, if_true]
        exact scanItem_sel m i rest (fk + 1, some i) (fun _ => rfl)
      · simp [he]

theorem scanItems_sel (km : List (Str × Str)) : ∀ (items : List Json) (i : Nat) (st st' : Nat × Option Nat),
    (0 < st.1 → st.2.isSome = true) → scanItems km items i st = .ok st' → (0 < st'.1 → st'.2.isSome = true)
  | [], _, st, st', h, hs => by
    simp only [scanItems, Except.ok.injEq] at hs
    subst hs; exact h
  | it :: rest, i, st, st', h, hs => by
    cases it with
    | obj m =>
      simp only [scanItems] at hs
      exact scanItems_sel km rest (i + 1) _ st' (scanItem_sel m i km st h) hs
    | str _ => simp [scanItems] at hs
    | num _ => simp [scanItems] at hs
    | bool _ => simp [scanItems] at hs
    | arr _ => simp [scanItems] at hs

theorem listStep_nil_irrelevant (km okm : List (Str × Str)) (items : List Json)
    (recur : Json → Except Err Json) (n1 n2 : Unit → Except Err Unit) (hkm : km ≠ []) :
    listStep km okm items recur n1 = listStep km okm items recur n2 := by
  unfold listStep
  cases hs : scanItems okm items 0 (0, none) with
  | error e => rfl
  | ok st =>
    obtain ⟨fk, sel⟩ := st
    simp only
    by_cases hlt : fk < km.length
    · simp [hlt]
    · simp only [hlt, if_false]
      have hpos : 0 < fk := by
        cases km with
        | nil => exact absurd rfl hkm
        | cons _ _ => simp only [List.length_cons] at hlt; omega
      have := scanItems_sel okm items 0 (0, none) (fk, sel) (by simp) hs hpos
      cases sel with
      | none => simp at this
      | some i => rfl

/-! ### the bridge -/

theorem addPath_eq_addElems (rfc : Bool) (ord : List (Str × Str) → List (Str × Str)) :
    ∀ (p : GPath) (fuel : Nat) (v : Val) (node : Json), pathOK p = true → p.length ≤ fuel →
      addPath rfc ord (fuel + 1) (strPathElem p) v node = addElems rfc ord p v node
  | [], _, _, _, h, _ => absurd rfl (pathOK_nonempty _ h)
  | [e], fuel, v, node, h, _ => by
    have hwf := pathOK_wf _ h
    cases node with
    | obj m =>
      simp only [addPath, Path.splitPath_strPathElem _ hwf, List.map_cons, List.map_nil, addElems,
        elemText_eq_body]
    | str _ => rfl
    | num _ => rfl
    | bool _ => rfl
    | arr _ => rfl
  | e :: e' :: rest, fuel, v, node, h, hfuel => by
    have hwf := pathOK_wf _ h
    obtain ⟨htail, heOK⟩ := pathOK_tail e e' rest h
    cases fuel with
    | zero => simp at hfuel
    | succ fuel =>
      have ih : ∀ node', addPath rfc ord (fuel + 1) (strPathElem (e' :: rest)) v node' =
          addElems rfc ord (e' :: rest) v node' := fun node' =>
        addPath_eq_addElems rfc ord (e' :: rest) fuel v node' htail
          (by simp only [List.length_cons] at hfuel ⊢; omega)
      cases node with
      | obj m =>
        have hjs : '/' :: joinSlash ((e' :: rest).map elemBody) = strPathElem (e' :: rest) :=
          joinSlash_bodies (e' :: rest) (by simp)
            (fun x hx => (elemOK_spec x (pathOK_all _ htail x hx)).2.1)
        have hjne : (joinSlash ((e' :: rest).map elemBody)).isEmpty = false :=
          joinSlash_nonempty (e' :: rest) (by simp)
            (fun x hx => elemOK_wf x (pathOK_all _ htail x hx))
        rw [addPath]
        simp only [Path.splitPath_strPathElem _ hwf, List.map_cons]
        simp only [List.map_cons] at hjs hjne
        simp only [body_contains_eq e heOK, hjne, hjs, Bool.false_eq_true, if_false]
        by_cases hk : e.keys = []
        · -- container
          have hname : elemBody e = e.name := by
            rw [body_name e heOK, hk]; simp [keysText]
          simp only [hk, List.isEmpty_nil, Bool.not_true, Bool.false_eq_true, if_false, hname, ih,
            addElems, if_true]
          cases objGet m e.name with
          | none => simp only; cases addElems rfc ord (e' :: rest) v (Json.obj []) <;> rfl
          | some child => simp only; cases addElems rfc ord (e' :: rest) v child <;> rfl
        · -- list
          have hke : e.keys.isEmpty = false := by
            cases hke : e.keys with
            | nil => exact absurd hke hk
            | cons _ _ => rfl
          obtain ⟨hidx, htake, hdrop⟩ := body_bracket e heOK hk
          obtain ⟨_, hsorted, hkeys⟩ := elemOK_spec e heOK
          have hkl : keyLoop (elemBody e).length (keysText e.keys) [] = .ok e.keys := by
            have := keyLoop_keysText e.keys [] (elemBody e).length
              (by rw [body_name e heOK]; simp) hkeys hsorted (by simp)
            simpa using this
          simp only [hke, Bool.not_false, if_true, hidx, htake, hdrop, hkl, ih, addElems,
            Bool.false_eq_true, if_false]
          cases getSlice m e.name with
          | none => rfl
          | some items =>
            simp only
            rw [listStep_nil_irrelevant e.keys (ord e.keys) items _ _ (fun _ => .error .panic) hk]
            cases listStep e.keys (ord e.keys) items (fun it => addElems rfc ord (e' :: rest) v it)
              (fun _ => .error .panic) <;> rfl
      | str _ => rfl
      | num _ => rfl
      | bool _ => rfl
      | arr _ => rfl

end OnosVerif.Tree
