/- Lookup/update lemmas for the three keyed record lists of the v2 twin. -/
import OnosVerif.V2.Sys

namespace OnosVerif.V2

theorem find_map_replace {α : Type} (l : List α) (sel : α → Bool) (same : α → Bool) (x : α)
    (hx : ∀ y, same y = true → sel y = sel x) :
    (l.map (fun y => if same y then x else y)).find? sel =
      match l.find? sel with
      | none => none
      | some y => some (if same y then x else y) := by
  induction l with
  | nil => rfl
  | cons y ys ih =>
    simp only [List.map_cons, List.find?_cons]
    by_cases hs : same y = true
    · simp only [hs, if_true]
      rw [← hx y hs]
      cases hsel : sel y with
      | true => simp [hs]
      | false => simp only; exact ih
    · have hs' : same y = false := by simpa using hs
      simp only [hs', Bool.false_eq_true, if_false]
      cases hsel : sel y with
      | true => simp [hs']
      | false => simp only; exact ih

/-! transactions -/

theorem tx?_setTx (s : Sys) (t' : Tx) (i : Nat) :
    (s.setTx t').tx? i =
      if i = t'.index then (s.tx? i).map (fun _ => t') else s.tx? i := by
  unfold Sys.setTx Sys.tx?
  simp only
  have h := find_map_replace s.txs (fun t => decide (t.index = i)) (fun x => decide (x.index = t'.index)) t'
    (by intro y hy; simp only [decide_eq_true_eq] at hy; simp [hy])
  simp only [decide_eq_true_eq] at h
  rw [h]
  by_cases hi : i = t'.index
  · subst hi
    simp only [if_true]
    cases hf : List.find? (fun t => decide (t.index = t'.index)) s.txs with
    | none => rfl
    | some y =>
      have := List.find?_some hf
      simp only [decide_eq_true_eq] at this
      simp [this]
  · simp only [hi, if_false]
    cases hf : List.find? (fun t => decide (t.index = i)) s.txs with
    | none => rfl
    | some y =>
      have := List.find?_some hf
      simp only [decide_eq_true_eq] at this
      have : ¬ y.index = t'.index := fun h => hi (this ▸ h)
      simp [this]

theorem tx?_index (s : Sys) (i : Nat) (t : Tx) (h : s.tx? i = some t) : t.index = i := by
  unfold Sys.tx? at h
  have := List.find?_some h
  simpa using this

theorem prop?_setProp (s : Sys) (p' : Proposal) (id : PropId) :
    (s.setProp p').prop? id =
      if id = (p'.target, p'.index) then (s.prop? id).map (fun _ => p') else s.prop? id := by
  unfold Sys.setProp Sys.prop?
  simp only
  have h := find_map_replace s.props (fun p => decide (p.target = id.1 ∧ p.index = id.2))
    (fun x => decide (x.target = p'.target ∧ x.index = p'.index)) p'
    (by intro y hy; simp only [decide_eq_true_eq] at hy; simp [hy.1, hy.2])
  simp only [decide_eq_true_eq] at h
  rw [h]
  obtain ⟨a, b⟩ := id
  simp only at h ⊢
  by_cases hi : (a, b) = (p'.target, p'.index)
  · simp only [hi, if_true]
    have ha : a = p'.target := (Prod.mk.inj hi).1
    have hb : b = p'.index := (Prod.mk.inj hi).2
    subst ha hb
    cases hf : List.find? (fun p => decide (p.target = p'.target ∧ p.index = p'.index)) s.props with
    | none => simp
    | some y =>
      have := List.find?_some hf
      simp only [decide_eq_true_eq] at this
      simp [this.1, this.2]
  · simp only [hi, if_false]
    cases hf : List.find? (fun p => decide (p.target = a ∧ p.index = b)) s.props with
    | none => simp
    | some y =>
      have := List.find?_some hf
      simp only [decide_eq_true_eq] at this
      have : ¬ (y.target = p'.target ∧ y.index = p'.index) := by
        intro h
        apply hi
        rw [← this.1, ← this.2, h.1, h.2]
      simp [this]

theorem prop?_key (s : Sys) (id : PropId) (p : Proposal) (h : s.prop? id = some p) :
    (p.target, p.index) = id := by
  unfold Sys.prop? at h
  have := List.find?_some h
  simp only [decide_eq_true_eq] at this
  obtain ⟨a, b⟩ := id
  simp [this.1, this.2]

theorem cfg?_setCfg (s : Sys) (c' : Cfg) (t : Tgt) :
    (s.setCfg c').cfg? t =
      if t = c'.target then (s.cfg? t).map (fun _ => c') else s.cfg? t := by
  unfold Sys.setCfg Sys.cfg?
  simp only
  have h := find_map_replace s.cfgs (fun c => decide (c.target = t)) (fun x => decide (x.target = c'.target)) c'
    (by intro y hy; simp only [decide_eq_true_eq] at hy; simp [hy])
  simp only [decide_eq_true_eq] at h
  rw [h]
  by_cases hi : t = c'.target
  · subst hi
    simp only [if_true]
    cases hf : List.find? (fun c => decide (c.target = c'.target)) s.cfgs with
    | none => rfl
    | some y =>
      have := List.find?_some hf
      simp only [decide_eq_true_eq] at this
      simp [this]
  · simp only [hi, if_false]
    cases hf : List.find? (fun c => decide (c.target = t)) s.cfgs with
    | none => rfl
    | some y =>
      have := List.find?_some hf
      simp only [decide_eq_true_eq] at this
      have : ¬ y.target = c'.target := fun h => hi (this ▸ h)
      simp [this]

theorem cfg?_target (s : Sys) (t : Tgt) (c : Cfg) (h : s.cfg? t = some c) : c.target = t := by
  unfold Sys.cfg? at h
  have := List.find?_some h
  simpa using this

/-- appending a record whose key was absent does not change existing lookups and makes it found -/
theorem find?_append_absent {α : Type} (l : List α) (sel : α → Bool) (x : α) :
    (l ++ [x]).find? sel = match l.find? sel with
      | some y => some y
      | none => if sel x then some x else none := by
  rw [List.find?_append]
  cases l.find? sel with
  | some y => simp
  | none => cases h : sel x <;> simp [List.find?_cons, h]

end OnosVerif.V2
