/-
The twin of the v3 transaction reconciler equals the control skeleton regenerated from
pkg/controller/v3/transaction/controller.go, function by function, for every state in which the
function does not panic (the twin's `Outcome.panic` cases: a nil `Rollback.Commit/Apply` of the
previous transaction is dereferenced, a nil value map is assigned to).
-/
import OnosVerif.Generated.Facts
import OnosVerif.Proofs.V3SkelAtoms

namespace OnosVerif.V3.Skel
open OnosVerif.Generated
open OnosVerif.V3

@[simp] theorem toNat_pending : PS.pending.toNat = 0 := rfl
@[simp] theorem toNat_inProgress : PS.inProgress.toNat = 1 := rfl
@[simp] theorem toNat_complete : PS.complete.toNat = 2 := rfl
@[simp] theorem toNat_aborted : PS.aborted.toNat = 3 := rfl
@[simp] theorem toNat_canceled : PS.canceled.toNat = 4 := rfl
@[simp] theorem toNat_failed : PS.failed.toNat = 5 := rfl
@[simp] theorem toNat_eq0 (x : PS) : x.toNat = 0 ↔ x = .pending := by cases x <;> simp [PS.toNat]
@[simp] theorem toNat_eq1 (x : PS) : x.toNat = 1 ↔ x = .inProgress := by cases x <;> simp [PS.toNat]
@[simp] theorem toNat_eq2 (x : PS) : x.toNat = 2 ↔ x = .complete := by cases x <;> simp [PS.toNat]
@[simp] theorem toNat_eq3 (x : PS) : x.toNat = 3 ↔ x = .aborted := by cases x <;> simp [PS.toNat]
@[simp] theorem toNat_eq5 (x : PS) : x.toNat = 5 ↔ x = .failed := by cases x <;> simp [PS.toNat]
@[simp] theorem toNat_le1 (x : PS) : x.toNat ≤ 1 ↔ (x = .pending ∨ x = .inProgress) := by cases x <;> simp [PS.toNat]
@[simp] theorem toNat_lt2 (x : PS) : x.toNat < 2 ↔ (x = .pending ∨ x = .inProgress) := by cases x <;> simp [PS.toNat]

macro "v3_all" : tactic => `(tactic| simp_all [Nat.blt_eq, Nat.ble_eq, optPS, proj, proj_append, plumbing,
  outcomeTrace, actToks, retOf])

macro "g3split " h:ident " : " t:term : tactic =>
  `(tactic| (by_cases $h:ident : $t <;> simp [$h:ident, Nat.blt_eq, Nat.ble_eq]))

theorem ps_toNat_inj (a b : PS) : a.toNat = b.toNat ↔ a = b := by
  cases a <;> cases b <;> simp [PS.toNat]

theorem skel_v3_commitRollback (s : Sys) (i : Nat) (t : Tx) (v : View) (x : SkX)
    (hnp : ∀ p, commitRollback s i t v ≠ .panic p) :
    proj (v3sk_commitRollback (gV3Of i t v.c (getTx s v.c.cIndex).isNone ((getTx s v.c.cIndex).getD default) x)) =
      outcomeTrace i v.c (commitRollback s i t v) := by
  revert hnp
  unfold v3sk_commitRollback commitRollback prevBusyRbCommit
  gV3Of_atoms
  generalize v.c = c
  rcases Option.eq_none_or_eq_some t.rc with hrc | ⟨rc, hrc⟩ <;> simp only [hrc]
  · intro _; v3_all
  cases rc
  · -- PENDING
    g3split h1 : c.cRevision = i
    · g3split h2 : c.cTarget = i
      · g3split h3 : c.cIndex = i
        · rcases Option.eq_none_or_eq_some (getTx s i) with hp | ⟨p, hp⟩ <;> simp [hp]
          · (try intro _); v3_all
          · by_cases h4 : p.cc = .complete <;> (try simp [h4]) <;> (try intro _) <;> v3_all
        · (try intro _); v3_all
      · g3split h5 : c.cTarget = t.ridx <;> (try intro _) <;> v3_all
    · (try intro _); v3_all
  · -- IN_PROGRESS
    g3split h1 : c.cRevision = i
    · by_cases hv : v.cVals = [] ∧ ¬t.rvals = []
      · simp only [hv, and_self, if_true]
        intro h; exact absurd rfl (h _)
      · simp only [hv, if_false]
        intro _; v3_all
    · (try intro _); v3_all
  all_goals ((try intro _); v3_all)

end OnosVerif.V3.Skel
