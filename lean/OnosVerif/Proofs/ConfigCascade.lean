/- `AddDeleteChildren` (the textual cascade), extensionally: what the mutated store and the updated
   change hold at every path. -/
import OnosVerif.Proofs.ConfigMap

namespace OnosVerif.Config
open OnosVerif.Path (Str)

/-- what the cascade does to a stored entry. -/
def mark (idx : Nat) (e : PV) : PV := { e with index := idx, deleted := true }

theorem mark_path (idx : Nat) (e : PV) : (mark idx e).path = e.path := rfl
theorem mark_deleted (idx : Nat) (e : PV) : (mark idx e).deleted = true := rfl
theorem mark_index (idx : Nat) (e : PV) : (mark idx e).index = idx := rfl
theorem mark_mark (idx : Nat) (e : PV) : mark idx (mark idx e) = mark idx e := rfl

/-- the stored entry after the cascade of the deleted paths `ds`. -/
def markIf (idx : Nat) (ds : List Str) (e : PV) : PV :=
  if ds.any (fun d => strictlyBelow e.path d) then mark idx e else e

theorem markIf_path (idx : Nat) (ds : List Str) (e : PV) : (markIf idx ds e).path = e.path := by
  unfold markIf; split <;> rfl

theorem cascadeOne_get (idx : Nat) (cp : Str) : ∀ (L upd store : VMap), NodupP L →
    (∀ p, VMap.get (cascadeOne idx cp L upd store).1 p =
      match VMap.get L p with
      | some v => if strictlyBelow p cp then some (mark idx v) else VMap.get upd p
      | none => VMap.get upd p) ∧
    (∀ p, VMap.get (cascadeOne idx cp L upd store).2 p =
      match VMap.get L p with
      | some v => if strictlyBelow p cp then some (mark idx v) else VMap.get store p
      | none => VMap.get store p)
  | [], _, _, _ => by simp [cascadeOne, get_nil]
  | v :: rest, upd, store, hn => by
    have hn' := hn
    simp only [NodupP, List.pairwise_cons] at hn'
    have hrest : VMap.get rest v.path = none := (get_none rest v.path).2 (fun e he h => hn'.1 e he h.symm)
    have hcond : (hasPrefix v.path cp && decide (v.path ≠ cp)) = strictlyBelow v.path cp := rfl
    unfold cascadeOne
    rw [hcond]
    by_cases hb : strictlyBelow v.path cp = true
    · simp only [hb, if_true]
      obtain ⟨ih1, ih2⟩ := cascadeOne_get idx cp rest (upd.set { v with index := idx, deleted := true })
        (store.set { v with index := idx, deleted := true }) hn'.2
      constructor
      · intro p
        rw [ih1 p, get_cons]
        by_cases hp : v.path = p
        · subst hp; simp [hrest, get_set, hb, mark]
        · have hp' : ¬ p = v.path := fun h => hp h.symm
          simp only [hp, if_false, get_set, hp']
      · intro p
        rw [ih2 p, get_cons]
        by_cases hp : v.path = p
        · subst hp; simp [hrest, get_set, hb, mark]
        · have hp' : ¬ p = v.path := fun h => hp h.symm
          simp only [hp, if_false, get_set, hp']
    · have hb' : strictlyBelow v.path cp = false := by simpa using hb
      simp only [hb', Bool.false_eq_true, if_false]
      obtain ⟨ih1, ih2⟩ := cascadeOne_get idx cp rest upd store hn'.2
      constructor
      · intro p
        rw [ih1 p, get_cons]
        by_cases hp : v.path = p
        · subst hp; simp [hrest, hb']
        · simp only [hp, if_false]
      · intro p
        rw [ih2 p, get_cons]
        by_cases hp : v.path = p
        · subst hp; simp [hrest, hb']
        · simp only [hp, if_false]

theorem cascadeOne_nodup_upd (idx : Nat) (cp : Str) : ∀ (L upd store : VMap), NodupP upd →
    NodupP (cascadeOne idx cp L upd store).1
  | [], _, _, h1 => h1
  | v :: rest, upd, store, h1 => by
    unfold cascadeOne
    split
    · exact cascadeOne_nodup_upd idx cp rest _ _ (nodupP_set _ _ h1)
    · exact cascadeOne_nodup_upd idx cp rest _ _ h1

theorem cascadeOne_nodup_store (idx : Nat) (cp : Str) : ∀ (L upd store : VMap), NodupP store →
    NodupP (cascadeOne idx cp L upd store).2
  | [], _, _, h2 => h2
  | v :: rest, upd, store, h2 => by
    unfold cascadeOne
    split
    · exact cascadeOne_nodup_store idx cp rest _ _ (nodupP_set _ _ h2)
    · exact cascadeOne_nodup_store idx cp rest _ _ h2

theorem get_path (m : VMap) (p : Str) (e : PV) (h : VMap.get m p = some e) : e.path = p := (get_some m p e h).2

/-- the store after `AddDeleteChildren`: every entry strictly (textually) below a deleted path of
    the change is marked. -/
theorem adc_store_get (idx : Nat) : ∀ (change upd store : VMap), NodupP store → ∀ p,
    VMap.get (addDeleteChildren idx change upd store).2 p =
      (VMap.get store p).map (markIf idx (Spec.deletes change))
  | [], _, store, _, p => by
    simp only [addDeleteChildren, Spec.deletes, List.filter_nil, List.map_nil]
    cases VMap.get store p with
    | none => rfl
    | some v => simp [markIf]
  | c :: rest, upd, store, hn, p => by
    unfold addDeleteChildren
    by_cases hc : c.deleted = true
    · simp only [hc, if_true]
      have hcas := (cascadeOne_get idx c.path store upd store hn).2
      have hnod := cascadeOne_nodup_store idx c.path store upd store hn
      rw [adc_store_get idx rest _ _ hnod p, hcas p]
      have hdel : Spec.deletes (c :: rest) = c.path :: Spec.deletes rest := by
        simp [Spec.deletes, hc]
      rw [hdel]
      cases hg : VMap.get store p with
      | none => simp
      | some v =>
        have hvp := get_path store p v hg
        simp only [Option.map_some]
        by_cases hb : strictlyBelow p c.path = true
        · simp only [hb, if_true, Option.map_some, Option.some.injEq]
          simp only [markIf, mark_path, hvp, List.any_cons, hb, Bool.true_or, if_true]
          split <;> rfl
        · have hb' : strictlyBelow p c.path = false := by simpa using hb
          simp only [hb', Bool.false_eq_true, if_false, hg, Option.map_some, Option.some.injEq]
          simp only [markIf, hvp, List.any_cons, hb', Bool.false_or]
    · have hc' : c.deleted = false := by simpa using hc
      simp only [hc', Bool.false_eq_true, if_false]
      rw [adc_store_get idx rest _ store hn p]
      have hdel : Spec.deletes (c :: rest) = Spec.deletes rest := by
        simp [Spec.deletes, hc']
      rw [hdel]

theorem adc_nodup (idx : Nat) : ∀ (change upd store : VMap), NodupP upd → NodupP store →
    NodupP (addDeleteChildren idx change upd store).1 ∧ NodupP (addDeleteChildren idx change upd store).2
  | [], _, _, h1, h2 => ⟨h1, h2⟩
  | c :: rest, upd, store, h1, h2 => by
    unfold addDeleteChildren
    split
    · exact adc_nodup idx rest _ _ (nodupP_set _ _ (cascadeOne_nodup_upd idx c.path store upd store h1))
        (cascadeOne_nodup_store idx c.path store upd store h2)
    · exact adc_nodup idx rest _ _ (nodupP_set _ _ h1) h2

/-- no path of the change lies strictly (textually) below a deleted path of the same change —
    condition (c) of a clean request: the cascade never collides with the change itself. -/
def NoSelfCascade (change : VMap) : Prop :=
  ∀ c ∈ change, ∀ c' ∈ change, c'.deleted = true → strictlyBelow c.path c'.path = false

theorem mem_deletes (change : VMap) (d : Str) : d ∈ Spec.deletes change ↔ ∃ c ∈ change, c.deleted = true ∧ c.path = d := by
  simp [Spec.deletes, List.mem_map, List.mem_filter, and_assoc]

/-- the updated change after `AddDeleteChildren`: the change values themselves, and every stored
    entry strictly below a deleted path, marked. -/
theorem adc_upd_get (idx : Nat) : ∀ (change upd store : VMap), NodupP store → NodupP change →
    NoSelfCascade change → ∀ p,
    VMap.get (addDeleteChildren idx change upd store).1 p =
      match VMap.get change p with
      | some c => some c
      | none =>
        match VMap.get store p with
        | some v => if (Spec.deletes change).any (fun d => strictlyBelow p d) then some (mark idx v)
                    else VMap.get upd p
        | none => VMap.get upd p
  | [], upd, store, _, _, _, p => by
    simp only [addDeleteChildren, get_nil, Spec.deletes, List.filter_nil, List.map_nil, List.any_nil]
    cases VMap.get store p <;> simp
  | c :: rest, upd, store, hn, hnc, hsc, p => by
    have hnc' := hnc
    simp only [NodupP, List.pairwise_cons] at hnc'
    have hrestc : VMap.get rest c.path = none := (get_none rest c.path).2 (fun e he h => hnc'.1 e he h.symm)
    have hsc' : NoSelfCascade rest := fun a ha b hb hd =>
      hsc a (List.mem_cons_of_mem _ ha) b (List.mem_cons_of_mem _ hb) hd
    -- c itself is not strictly below a deleted path of the rest
    have hcfree : (Spec.deletes rest).any (fun d => strictlyBelow c.path d) = false := by
      rw [List.any_eq_false]
      intro d hd
      obtain ⟨c', hc', hdel, hp⟩ := (mem_deletes rest d).1 hd
      rw [← hp, hsc c List.mem_cons_self c' (List.mem_cons_of_mem _ hc') hdel]
      decide
    unfold addDeleteChildren
    rw [get_cons]
    by_cases hc : c.deleted = true
    · simp only [hc, if_true]
      have hcas := cascadeOne_get idx c.path store upd store hn
      have hnod := cascadeOne_nodup_store idx c.path store upd store hn
      have hdel : Spec.deletes (c :: rest) = c.path :: Spec.deletes rest := by
        simp [Spec.deletes, hc]
      rw [adc_upd_get idx rest _ _ hnod hnc'.2 hsc' p, hdel]
      by_cases hp : c.path = p
      · subst hp
        simp only [hrestc, if_true]
        rw [hcas.2 c.path]
        cases hg : VMap.get store c.path with
        | none => simp [get_set]
        | some v =>
          simp only
          split
          · simp [mark_path, hcfree, get_set]
          · simp [hg, hcfree, get_set]
      · simp only [hp, if_false]
        cases hgr : VMap.get rest p with
        | some c2 => rfl
        | none =>
          simp only
          have hp' : ¬ p = c.path := fun h => hp h.symm
          rw [hcas.2 p, get_set, if_neg hp', hcas.1 p]
          cases hg : VMap.get store p with
          | none => simp
          | some v =>
            simp only [List.any_cons]
            by_cases hb : strictlyBelow p c.path = true
            · simp only [hb, if_true, Bool.true_or]
              split <;> rfl
            · have hb' : strictlyBelow p c.path = false := by simpa using hb
              simp only [hb', Bool.false_eq_true, if_false, hg, Bool.false_or]
    · have hc' : c.deleted = false := by simpa using hc
      simp only [hc', Bool.false_eq_true, if_false]
      have hdel : Spec.deletes (c :: rest) = Spec.deletes rest := by
        simp [Spec.deletes, hc']
      rw [adc_upd_get idx rest _ store hn hnc'.2 hsc' p, hdel]
      by_cases hp : c.path = p
      · subst hp
        simp only [hrestc, if_true, hcfree, Bool.false_eq_true, if_false, get_set]
        cases VMap.get store c.path <;> simp
      · have hp' : ¬ p = c.path := fun h => hp h.symm
        simp only [hp, if_false, get_set, hp']

end OnosVerif.Config
