/- The iteration order of the key map (Go map order) never influences what `addPathToTree` builds. -/
import OnosVerif.Proofs.TreeScan
import OnosVerif.Tree.Elems

namespace OnosVerif.Tree
open OnosVerif.Path (Str GPath)

/-- an admissible iteration order: some permutation of the map's entries. -/
def IsOrder (ord : List (Str × Str) → List (Str × Str)) : Prop := ∀ m, (ord m).Perm m

theorem addPath_ord (rfc : Bool) (ord1 ord2 : List (Str × Str) → List (Str × Str))
    (h1 : IsOrder ord1) (h2 : IsOrder ord2) :
    ∀ (fuel : Nat) (path : Str) (v : Val) (node : Json),
      addPath rfc ord1 fuel path v node = addPath rfc ord2 fuel path v node := by
  intro fuel
  induction fuel using Nat.strongRecOn with
  | _ fuel ih =>
    intro path v node
    have hl : ∀ km items r n, listStep km (ord1 km) items r n = listStep km (ord2 km) items r n :=
      fun km items r n => listStep_perm km _ _ (h1 km) (h2 km) items r n
    cases fuel with
    | zero => rfl
    | succ f =>
      have ihf := ih f (Nat.lt_succ_self f)
      simp only [addPath, hl, ihf]

theorem addAll_ord (rfc : Bool) (ord1 ord2 : List (Str × Str) → List (Str × Str))
    (h1 : IsOrder ord1) (h2 : IsOrder ord2) :
    ∀ (pvs : List PV) (root : Json), addAll rfc ord1 pvs root = addAll rfc ord2 pvs root
  | [], _ => rfl
  | pv :: rest, root => by
    simp only [addAll, addPath_ord rfc ord1 ord2 h1 h2]
    cases addPath rfc ord2 (pv.path.length + 1) pv.path pv.val root with
    | error e => rfl
    | ok r => exact addAll_ord rfc ord1 ord2 h1 h2 rest r

theorem addElems_ord (rfc : Bool) (ord1 ord2 : List (Str × Str) → List (Str × Str))
    (h1 : IsOrder ord1) (h2 : IsOrder ord2) :
    ∀ (p : GPath) (v : Val) (node : Json), addElems rfc ord1 p v node = addElems rfc ord2 p v node
  | [], _, _ => rfl
  | [_], _, _ => rfl
  | e :: e' :: rest, v, node => by
    have hl : ∀ km items r n, listStep km (ord1 km) items r n = listStep km (ord2 km) items r n :=
      fun km items r n => listStep_perm km _ _ (h1 km) (h2 km) items r n
    have ih := addElems_ord rfc ord1 ord2 h1 h2 (e' :: rest) v
    simp only [addElems, hl, ih]

end OnosVerif.Tree
