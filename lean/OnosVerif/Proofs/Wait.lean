/- Helper lemmas for the C08 theorems (OnosVerif/Props/C08.lean). -/
import OnosVerif.NB.Wait

namespace OnosVerif.NB.Wait
open OnosVerif.Generated.WaitFacts

/-! ### the loop -/

theorem waitLoopT_ok (succ failed : List (TxSync × TxState)) (fk : Option FailType → ErrKind) (sync : TxSync)
    (evs : List Status) (h : waitLoopT succ failed fk sync evs = .ok) :
    ∃ e ∈ evs, succ.contains (sync, e.state) = true := by
  induction evs with
  | nil => simp [waitLoopT] at h
  | cons e rest ih =>
    unfold waitLoopT at h
    by_cases hs : succ.contains (sync, e.state) = true
    · exact ⟨e, List.mem_cons_self .., hs⟩
    · rw [if_neg hs] at h
      by_cases hf : failed.contains (sync, e.state) = true
      · rw [if_pos hf] at h; cases h
      · rw [if_neg hf] at h
        obtain ⟨e', he', hc⟩ := ih h
        exact ⟨e', List.mem_cons_of_mem _ he', hc⟩

theorem waitLoopT_err (succ failed : List (TxSync × TxState)) (fk : Option FailType → ErrKind) (sync : TxSync)
    (evs : List Status) (k : ErrKind) (h : waitLoopT succ failed fk sync evs = .err k) :
    ∃ e ∈ evs, failed.contains (sync, e.state) = true ∧ k = fk e.failure := by
  induction evs with
  | nil => simp [waitLoopT] at h
  | cons e rest ih =>
    unfold waitLoopT at h
    by_cases hs : succ.contains (sync, e.state) = true
    · rw [if_pos hs] at h; cases h
    · rw [if_neg hs] at h
      by_cases hf : failed.contains (sync, e.state) = true
      · rw [if_pos hf] at h
        cases h
        exact ⟨e, List.mem_cons_self .., hf, rfl⟩
      · rw [if_neg hf] at h
        obtain ⟨e', he', hc⟩ := ih h
        exact ⟨e', List.mem_cons_of_mem _ he', hc⟩

/-- the loop falls off the end only if no event shown is decisive. -/
theorem waitLoopT_answers (succ failed : List (TxSync × TxState)) (fk : Option FailType → ErrKind) (sync : TxSync)
    (evs : List Status) (e : Status) (he : e ∈ evs)
    (hd : succ.contains (sync, e.state) = true ∨ failed.contains (sync, e.state) = true) :
    waitLoopT succ failed fk sync evs ≠ .ctxDone := by
  induction evs with
  | nil => cases he
  | cons a rest ih =>
    unfold waitLoopT
    by_cases hs : succ.contains (sync, a.state) = true
    · rw [if_pos hs]; intro h; cases h
    · rw [if_neg hs]
      by_cases hf : failed.contains (sync, a.state) = true
      · rw [if_pos hf]; intro h; cases h
      · rw [if_neg hf]
        rcases List.mem_cons.mp he with rfl | he'
        · rcases hd with hd | hd
          · exact absurd hd hs
          · exact absurd hd hf
        · exact ih he'

/-- the number of events read before answering is at most the number shown (the loop is a single pass). -/
theorem waitLoopT_nil (succ failed : List (TxSync × TxState)) (fk : Option FailType → ErrKind) (sync : TxSync) :
    waitLoopT succ failed fk sync [] = .ctxDone := rfl

/-! ### what is shown -/

theorem shown_subset (path : List Status) (k j : Nat) (e : Status) (h : e ∈ shown path k j) : e ∈ path := by
  unfold shown at h
  rcases List.mem_append.mp h with h | h
  · cases hj : path[j]? with
    | none => rw [hj] at h; cases h
    | some x =>
      rw [hj] at h
      simp only [Option.toList_some, List.mem_singleton] at h
      subst h
      exact List.mem_of_getElem? hj
  · exact List.mem_of_mem_drop h

/-- the latest status is always among the events shown. -/
theorem last_shown (path : List Status) (k j : Nat) (hkj : k ≤ j) (hj : j < path.length) (l : Status)
    (hl : path.getLast? = some l) : l ∈ shown path k j := by
  unfold shown
  by_cases hk : k + 1 < path.length
  · apply List.mem_append_right
    have : (path.drop (k + 1)).getLast? = some l := by
      rw [List.getLast?_drop, if_neg (by omega), hl]
    obtain ⟨ys, hys⟩ := List.getLast?_eq_some_iff.mp this
    rw [hys]
    exact List.mem_append_right _ (List.mem_singleton.mpr rfl)
  · apply List.mem_append_left
    have hjl : j = path.length - 1 := by omega
    rw [List.getLast?_eq_getElem?] at hl
    rw [hjl, hl]
    simp

/-! ### facts about the regenerated tables -/

theorem success_awaited (h : Handler) : ∀ p ∈ successTable h, awaited p.1 p.2 = true := by
  cases h <;> decide

theorem failed_is_failed (h : Handler) : ∀ p ∈ failedTable h, p.2 = .failed := by
  cases h <;> decide

theorem finished_covered (h : Handler) (sync : TxSync) (st : TxState) (hf : finished sync st = true) :
    (successTable h).contains (sync, st) = true ∨ (failedTable h).contains (sync, st) = true := by
  cases h <;> cases sync <;> cases st <;> first | (simp [finished, awaited] at hf; done) | decide

theorem failure_table_exact (h : Handler) (f : Option FailType) : failureKind h f = ownKind f := by
  cases h <;> cases f with
  | none => decide
  | some t => cases t <;> decide

/-! ### the response -/

theorem mem_results (c : Change) (t p : Str) (d : Bool) :
    (t, p, d) ∈ results c ↔ ∃ pvs, (t, pvs) ∈ c ∧ (p, d) ∈ pvs := by
  unfold results
  rw [List.mem_flatMap]
  constructor
  · rintro ⟨⟨t', pvs⟩, hm, hr⟩
    rw [List.mem_map] at hr
    obtain ⟨⟨p', d'⟩, hpd, heq⟩ := hr
    simp only [Prod.mk.injEq] at heq
    obtain ⟨rfl, rfl, rfl⟩ := heq
    exact ⟨pvs, hm, hpd⟩
  · rintro ⟨pvs, hm, hpd⟩
    exact ⟨(t, pvs), hm, List.mem_map.mpr ⟨(p, d), hpd, rfl⟩⟩

theorem length_results (c : Change) : (results c).length = (c.map (fun tp => tp.2.length)).sum := by
  unfold results
  rw [List.length_flatMap]
  congr 1
  apply List.map_congr_left
  intro tp _
  simp

end OnosVerif.NB.Wait
