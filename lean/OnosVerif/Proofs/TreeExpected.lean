/- The expected leaf set (`Expected`) decomposed along the first element of a path. -/
import OnosVerif.Proofs.TreeGroups

namespace OnosVerif.Tree
open OnosVerif.Path (Str GPath Elem)

variable (rfc : Bool)

/-- prefix every path of a set with the element `e`. -/
def lift (e : Elem) (T : List Entry) : List Entry := T.map fun x => (e :: x.1, x.2)

/-- the expected leaves below a list entry with keys `K` (below a container: `K = []`): those of
    the path/values, and the key leaves of the entry itself unless given explicitly. -/
def ExpAt (K : List (Str × Str)) (S : List Entry) (x : GPath × Json) : Prop :=
  Expected rfc S x ∨
    (∃ k t, (k, t) ∈ K ∧ x.1 = [{ name := k, keys := [] }] ∧ x.2 = .str t ∧
      x.1 ∉ (explicitLeaves rfc S).map (·.1))

theorem mem_explicitLeaves (S : List Entry) (q : GPath) (j : Json) :
    (q, j) ∈ explicitLeaves rfc S ↔ ∃ v, (q, v) ∈ S ∧ leafJson rfc v = some j := by
  simp only [explicitLeaves, List.mem_filterMap, Option.map_eq_some_iff, Prod.mk.injEq]
  constructor
  · rintro ⟨⟨p, v⟩, hx, j', hj, hp, hjj⟩
    simp only at hj hp
    subst hp; subst hjj
    exact ⟨v, hx, hj⟩
  · rintro ⟨v, hx, hj⟩
    exact ⟨(q, v), hx, j, hj, rfl, rfl⟩

theorem mem_explicitPaths (S : List Entry) (q : GPath) :
    q ∈ (explicitLeaves rfc S).map (·.1) ↔ ∃ v j, (q, v) ∈ S ∧ leafJson rfc v = some j := by
  simp only [List.mem_map]
  constructor
  · rintro ⟨⟨q', j⟩, hx, hq⟩
    simp only at hq; subst hq
    obtain ⟨v, h1, h2⟩ := (mem_explicitLeaves rfc S q' j).1 hx
    exact ⟨v, j, h1, h2⟩
  · rintro ⟨v, j, h1, h2⟩
    exact ⟨(q, j), (mem_explicitLeaves rfc S q j).2 ⟨v, h1, h2⟩, rfl⟩

theorem mem_impliedLeaves (S : List Entry) (y : GPath × Json) :
    y ∈ impliedLeaves S ↔ ∃ x ∈ S, y ∈ keyLeavesOfPath x.1 := by
  simp [impliedLeaves, List.mem_flatMap]

/-- implied key leaves start with the first element of the path that implies them. -/
theorem keyLeavesOfPath_head : ∀ (p : GPath) (y : GPath × Json), y ∈ keyLeavesOfPath p →
    ∃ e r r', p = e :: r ∧ y.1 = e :: r'
  | [], _, h => by simp [keyLeavesOfPath] at h
  | [_], _, h => by simp [keyLeavesOfPath] at h
  | e :: e' :: rest, y, h => by
    simp only [keyLeavesOfPath, List.mem_append, List.mem_map] at h
    rcases h with ⟨kt, _, hy⟩ | ⟨z, _, hy⟩
    · exact ⟨e, _, _, rfl, by rw [← hy]⟩
    · exact ⟨e, _, _, rfl, by rw [← hy]⟩

/-- only the path/values that start with `a` matter for the expected leaves that start with `a`. -/
theorem expected_narrow (S S' : List Entry) (a : Elem) (q0 : GPath) (j : Json)
    (h : ∀ x, headOf x = some a → (x ∈ S ↔ x ∈ S')) :
    Expected rfc S (a :: q0, j) ↔ Expected rfc S' (a :: q0, j) := by
  have hexp : ∀ j', (a :: q0, j') ∈ explicitLeaves rfc S ↔ (a :: q0, j') ∈ explicitLeaves rfc S' := by
    intro j'
    rw [mem_explicitLeaves, mem_explicitLeaves]
    constructor
    · rintro ⟨v, h1, h2⟩; exact ⟨v, (h (a :: q0, v) rfl).1 h1, h2⟩
    · rintro ⟨v, h1, h2⟩; exact ⟨v, (h (a :: q0, v) rfl).2 h1, h2⟩
  have hpaths : (a :: q0) ∈ (explicitLeaves rfc S).map (·.1) ↔ (a :: q0) ∈ (explicitLeaves rfc S').map (·.1) := by
    rw [mem_explicitPaths, mem_explicitPaths]
    constructor
    · rintro ⟨v, j', h1, h2⟩; exact ⟨v, j', (h (a :: q0, v) rfl).1 h1, h2⟩
    · rintro ⟨v, j', h1, h2⟩; exact ⟨v, j', (h (a :: q0, v) rfl).2 h1, h2⟩
  have himp : (a :: q0, j) ∈ impliedLeaves S ↔ (a :: q0, j) ∈ impliedLeaves S' := by
    rw [mem_impliedLeaves, mem_impliedLeaves]
    constructor
    · rintro ⟨x, hx, hy⟩
      obtain ⟨e, r, r', hp, hq⟩ := keyLeavesOfPath_head x.1 _ hy
      simp only [List.cons.injEq] at hq
      have : headOf x = some a := by simp [headOf, hp, hq.1]
      exact ⟨x, (h x this).1 hx, hy⟩
    · rintro ⟨x, hx, hy⟩
      obtain ⟨e, r, r', hp, hq⟩ := keyLeavesOfPath_head x.1 _ hy
      simp only [List.cons.injEq] at hq
      have : headOf x = some a := by simp [headOf, hp, hq.1]
      exact ⟨x, (h x this).2 hx, hy⟩
  simp only [Expected]
  rw [hexp, himp, hpaths]

theorem expected_nonempty (S : List Entry) (hS : ∀ x ∈ S, x.1 ≠ []) (j : Json) : ¬ Expected rfc S ([], j) := by
  rintro (h | ⟨h, _⟩)
  · obtain ⟨v, hv, _⟩ := (mem_explicitLeaves rfc S [] j).1 h
    exact hS _ hv rfl
  · obtain ⟨x, _, hy⟩ := (mem_impliedLeaves S _).1 h
    obtain ⟨e, r, r', _, hq⟩ := keyLeavesOfPath_head x.1 _ hy
    simp at hq

/-- the expected leaves of the path/values through child `e` are the expected leaves below `e`,
    prefixed with `e`; the keys of `e` contribute its key leaves. -/
theorem expected_lift (e : Elem) (T : List Entry) (hT : ∀ x ∈ T, x.1 ≠ []) (hne : T ≠ [])
    (q0 : GPath) (j : Json) :
    Expected rfc (lift e T) (e :: q0, j) ↔ ExpAt rfc e.keys T (q0, j) := by
  have hexp : ∀ j', (e :: q0, j') ∈ explicitLeaves rfc (lift e T) ↔ (q0, j') ∈ explicitLeaves rfc T := by
    intro j'
    rw [mem_explicitLeaves, mem_explicitLeaves]
    simp only [lift, List.mem_map, Prod.mk.injEq, List.cons.injEq, true_and]
    constructor
    · rintro ⟨v, ⟨⟨p, v'⟩, hx, hp, hv⟩, hj⟩
      simp only at hp hv
      subst hp; subst hv
      exact ⟨v', hx, hj⟩
    · rintro ⟨v, hx, hj⟩
      exact ⟨v, ⟨(q0, v), hx, rfl, rfl⟩, hj⟩
  have hpaths : (e :: q0) ∈ (explicitLeaves rfc (lift e T)).map (·.1) ↔ q0 ∈ (explicitLeaves rfc T).map (·.1) := by
    simp only [List.mem_map]
    constructor
    · rintro ⟨⟨q, j'⟩, hx, hq⟩
      simp only at hq; subst hq
      exact ⟨(q0, j'), (hexp j').1 hx, rfl⟩
    · rintro ⟨⟨q, j'⟩, hx, hq⟩
      simp only at hq; subst hq
      exact ⟨(e :: q, j'), (hexp j').2 hx, rfl⟩
  have himp : (e :: q0, j) ∈ impliedLeaves (lift e T) ↔
      ((q0, j) ∈ impliedLeaves T ∨ ∃ k t, (k, t) ∈ e.keys ∧ q0 = [{ name := k, keys := [] }] ∧ j = .str t) := by
    rw [mem_impliedLeaves, mem_impliedLeaves]
    constructor
    · rintro ⟨x, hx, hy⟩
      simp only [lift, List.mem_map] at hx
      obtain ⟨⟨p, v⟩, hpT, hxe⟩ := hx
      subst hxe
      simp only at hy
      have hp := hT _ hpT
      cases p with
      | nil => exact absurd rfl hp
      | cons e' rest =>
        simp only [keyLeavesOfPath, List.mem_append, List.mem_map, Prod.mk.injEq, List.cons.injEq,
          true_and] at hy
        rcases hy with ⟨⟨k, t⟩, hkt, hq, hj⟩ | ⟨⟨q, j'⟩, hz, hq, hj⟩
        · exact Or.inr ⟨k, t, hkt, hq.symm, hj.symm⟩
        · simp only at hq hj
          subst hq; subst hj
          exact Or.inl ⟨(e' :: rest, v), hpT, hz⟩
    · rintro (⟨x, hx, hy⟩ | ⟨k, t, hkt, hq, hj⟩)
      · refine ⟨(e :: x.1, x.2), by simp only [lift, List.mem_map]; exact ⟨x, hx, rfl⟩, ?_⟩
        have hp := hT _ hx
        obtain ⟨p, v⟩ := x
        cases p with
        | nil => exact absurd rfl hp
        | cons e' rest =>
          simp only [keyLeavesOfPath, List.mem_append, List.mem_map]
          exact Or.inr ⟨(q0, j), hy, rfl⟩
      · cases T with
        | nil => exact absurd rfl hne
        | cons x T' =>
          refine ⟨(e :: x.1, x.2), by simp [lift], ?_⟩
          have hp := hT x List.mem_cons_self
          obtain ⟨p, v⟩ := x
          cases p with
          | nil => exact absurd rfl hp
          | cons e' rest =>
            simp only [keyLeavesOfPath, List.mem_append, List.mem_map]
            exact Or.inl ⟨(k, t), hkt, by rw [hq, hj]⟩
  simp only [Expected, ExpAt]
  rw [hexp, himp, hpaths]
  constructor
  · rintro (h | ⟨h | ⟨k, t, h1, h2, h3⟩, hn⟩)
    · exact Or.inl (Or.inl h)
    · exact Or.inl (Or.inr ⟨h, hn⟩)
    · exact Or.inr ⟨k, t, h1, h2, h3, hn⟩
  · rintro ((h | ⟨h, hn⟩) | ⟨k, t, h1, h2, h3, hn⟩)
    · exact Or.inl h
    · exact Or.inr ⟨Or.inl h, hn⟩
    · exact Or.inr ⟨Or.inr ⟨k, t, h1, h2, h3⟩, hn⟩

end OnosVerif.Tree
