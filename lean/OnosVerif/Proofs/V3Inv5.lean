/-
Layer 5 of the invariants of the protocol core: a failed or aborted apply blocks later changes
(`FInv`).  `Applied.Revision` stays behind the index of a change whose apply Failed or was Aborted,
and the rollback index of every later committed change is at least that index, so `applyChange`
aborts it (`aRevision < ridx`) — until the apply turn of a rollback has come (`RBA`), after which
(the commit side being wedged) no change is left to apply.
-/
import OnosVerif.Proofs.V3Inv3

namespace OnosVerif.V3

/-- the apply turn of the (one) committed rollback has come or passed -/
def RBA (c : Cur) : Prop :=
  c.cTarget < c.cChange ∧ c.cRevision ≠ c.cChange ∧ c.cOrdinal ≤ c.aOrdinal + 1

structure FGl (c : Cur) (n : Nat) : Prop where
  arev : c.aRevision ≤ c.cChange
  atgt_le : c.aTarget ≤ c.cChange

structure FTx (c : Cur) (n : Nat) (j : Nat) (t : TxC) : Prop where
  rord_eq : t.rc = some .complete → t.rord = c.cOrdinal
  arev_ne : t.cc = .inProgress → c.aRevision ≠ j
  ar_p : t.cc = .complete → t.ca = .pending → c.aRevision < j ∨ RBA c
  ar_i : t.ca = .inProgress → c.aRevision < j ∨ (c.aOrdinal = t.cord ∧ c.aRevision = j) ∨ RBA c
  fb1 : (t.ca = .failed ∨ t.ca = .aborted) → c.aRevision < j ∨ RBA c
  rba_cord : c.cTarget < c.cChange → c.cRevision ≠ c.cChange → t.cc = .complete → t.cord < c.cOrdinal
  atgt : c.aTarget = j → t.cc = .complete
  rev_cc : j = c.cRevision → t.cc = .complete ∨ (t.cc = .inProgress ∧ j = c.cChange)

structure FPair (c : Cur) (j1 : Nat) (t1 : TxC) (j2 : Nat) (t2 : TxC) : Prop where
  fb2 : j1 < j2 → t1.cc = .complete → t2.cc ≠ .pending → j1 ≤ t2.ridx
  fb : j1 < j2 → (t1.ca = .failed ∨ t1.ca = .aborted) → t1.ra ≠ some .complete →
    t2.ca ≠ .inProgress ∧ t2.ca ≠ .complete
  ridx_cc : j1 = t2.ridx → t2.cc ≠ .pending → t1.cc = .complete
  tgt_ok : c.aTarget = j2 → t2.ca = .pending → t2.cc = .complete → c.aOrdinal + 1 = t2.cord → j1 < j2 →
    (t1.ca = .failed ∨ t1.ca = .aborted) → t1.ra ≠ some .complete → False

abbrev FInv := Inv3 FGl FTx FPair

theorem FInv.init : FInv {} := by
  constructor
  · exact ⟨by simp, by simp⟩
  · intro j t h; simp [Core.tx] at h
  · intro j1 t1 j2 t2 h; simp [Core.tx] at h

set_option maxHeartbeats 4000000 in
theorem FInv.first_g {k : Core} {i : Nat} {t : TxC} {a : Act} {rest : List Act} (hc : CInv k) (ho : OInv k) (h : FInv k)
    (ht : k.tx i = some t) (he : Enabled k i t (a :: rest)) :
    FGl (cActCur k.cur a) k.txs.length := by
  obtain ⟨g1, g2, g3, g4⟩ := hc.cgl
  obtain ⟨x1,x2,x3,x4,x5,x6,x7,x8,x9,x10,x11,x12,x13,x14,x15,x16⟩ := hc.ctx ht
  obtain ⟨w1,w2,w3,w4,w5,w6,w7,w8⟩ := x1
  obtain ⟨o1,o2,o3,o4,o5,o6,o7,o8,o9,o10,o11,o12,o13,o14,o15⟩ := ho.one i t ht
  obtain ⟨og⟩ := ho.gl
  obtain ⟨f1,f2,f3,f4,f5,f6,f7,f8⟩ := h.one i t ht
  obtain ⟨b1,b2,b3,b4⟩ := PB.of (i := i) ht
  obtain ⟨fg, fg2⟩ := h.gl
  have hp64 := @pred64_of_pos
  cases he <;> simp only [cActTx, cActCur] <;> constructor <;> (try simp only [RBA]) <;> grind

set_option maxHeartbeats 4000000 in
theorem FInv.first_s {k : Core} {i : Nat} {t : TxC} {a : Act} {rest : List Act} (hc : CInv k) (ho : OInv k) (h : FInv k)
    (ht : k.tx i = some t) (he : Enabled k i t (a :: rest)) :
    FTx (cActCur k.cur a) k.txs.length i (cActTx t a) := by
  obtain ⟨g1, g2, g3, g4⟩ := hc.cgl
  obtain ⟨x1,x2,x3,x4,x5,x6,x7,x8,x9,x10,x11,x12,x13,x14,x15,x16⟩ := hc.ctx ht
  obtain ⟨w1,w2,w3,w4,w5,w6,w7,w8⟩ := x1
  obtain ⟨o1,o2,o3,o4,o5,o6,o7,o8,o9,o10,o11,o12,o13,o14,o15⟩ := ho.one i t ht
  obtain ⟨og⟩ := ho.gl
  obtain ⟨f1,f2,f3,f4,f5,f6,f7,f8⟩ := h.one i t ht
  obtain ⟨b1,b2,b3,b4⟩ := PB.of (i := i) ht
  obtain ⟨fg, fg2⟩ := h.gl
  have hp64 := @pred64_of_pos
  cases he <;> simp only [cActTx, cActCur, RBA] at * <;> constructor <;> (try simp only [RBA]) <;> grind

set_option maxHeartbeats 8000000 in
theorem FInv.first_o {k : Core} {i : Nat} {t : TxC} {a : Act} {rest : List Act} (hc : CInv k) (ho : OInv k) (h : FInv k)
    (ht : k.tx i = some t) (he : Enabled k i t (a :: rest)) :
    ∀ j tj, j ≠ i → (CTx k.cur k.txs.length j tj ∧ OTx k.cur k.txs.length j tj ∧ OPair k.cur j tj i t ∧ OPair k.cur i t j tj ∧ PB k i j tj) → FTx k.cur k.txs.length j tj →
      FPair k.cur j tj i t → FPair k.cur i t j tj →
      FTx (cActCur k.cur a) k.txs.length j tj ∧ FPair (cActCur k.cur a) j tj i (cActTx t a) ∧ FPair (cActCur k.cur a) i (cActTx t a) j tj := by
  obtain ⟨g1, g2, g3, g4⟩ := hc.cgl
  obtain ⟨x1,x2,x3,x4,x5,x6,x7,x8,x9,x10,x11,x12,x13,x14,x15,x16⟩ := hc.ctx ht
  obtain ⟨w1,w2,w3,w4,w5,w6,w7,w8⟩ := x1
  obtain ⟨o1,o2,o3,o4,o5,o6,o7,o8,o9,o10,o11,o12,o13,o14,o15⟩ := ho.one i t ht
  obtain ⟨og⟩ := ho.gl
  obtain ⟨f1,f2,f3,f4,f5,f6,f7,f8⟩ := h.one i t ht
  obtain ⟨b1,b2,b3,b4⟩ := PB.of (i := i) ht
  obtain ⟨fg, fg2⟩ := h.gl
  have hp64 := @pred64_of_pos
  intro j tj hne hx h1 h2 h3
  obtain ⟨⟨y1,y2,y3,y4,y5,y6,y7,y8,y9,y10,y11,y12,y13,y14,y15,y16⟩, ⟨p1,p2,p3,p4,p5,p6,p7,p8,p9,p10,p11,p12,p13,p14,p15⟩, ⟨q1,q2,q3,q4,q5,q6⟩, ⟨r1,r2,r3,r4,r5,r6⟩, ⟨z1,z2,z3,z4⟩⟩ := hx
  obtain ⟨v1,v2,v3,v4,v5,v6,v7,v8⟩ := y1
  obtain ⟨e1,e2,e3,e4,e5,e6,e7,e8⟩ := h1
  obtain ⟨m1,m2,m3,m4⟩ := h2
  obtain ⟨n1,n2,n3,n4⟩ := h3
  cases he <;> simp only [cActTx, cActCur, RBA] at * <;> refine ⟨?_, ?_, ?_⟩ <;> constructor <;> (try simp only [RBA]) <;> grind

set_option maxHeartbeats 8000000 in
theorem FInv.first_p {k : Core} {i : Nat} {t : TxC} {a : Act} {rest : List Act} (hc : CInv k) (ho : OInv k) (h : FInv k)
    (ht : k.tx i = some t) (he : Enabled k i t (a :: rest)) :
    ∀ j1 t1 j2 t2, j1 ≠ i → j2 ≠ i → j1 ≠ j2 →
      (CTx k.cur k.txs.length j1 t1 ∧ OTx k.cur k.txs.length j1 t1 ∧ OPair k.cur j1 t1 i t ∧ OPair k.cur i t j1 t1 ∧ PB k i j1 t1) →
      (CTx k.cur k.txs.length j2 t2 ∧ OTx k.cur k.txs.length j2 t2 ∧ OPair k.cur j2 t2 i t ∧ OPair k.cur i t j2 t2 ∧ PB k i j2 t2) →
      FTx k.cur k.txs.length j1 t1 → FTx k.cur k.txs.length j2 t2 →
      FPair k.cur j1 t1 i t → FPair k.cur i t j1 t1 → FPair k.cur j2 t2 i t → FPair k.cur i t j2 t2 →
      FPair k.cur j1 t1 j2 t2 → FPair (cActCur k.cur a) j1 t1 j2 t2 := by
  obtain ⟨g1, g2, g3, g4⟩ := hc.cgl
  obtain ⟨x1,x2,x3,x4,x5,x6,x7,x8,x9,x10,x11,x12,x13,x14,x15,x16⟩ := hc.ctx ht
  obtain ⟨w1,w2,w3,w4,w5,w6,w7,w8⟩ := x1
  obtain ⟨o1,o2,o3,o4,o5,o6,o7,o8,o9,o10,o11,o12,o13,o14,o15⟩ := ho.one i t ht
  obtain ⟨og⟩ := ho.gl
  obtain ⟨f1,f2,f3,f4,f5,f6,f7,f8⟩ := h.one i t ht
  obtain ⟨b1,b2,b3,b4⟩ := PB.of (i := i) ht
  obtain ⟨fg, fg2⟩ := h.gl
  have hp64 := @pred64_of_pos
  intro j1 t1 j2 t2 hn1 hn2 hne hx1 hx2 h1 h2 h3 h4 h5 h6 h7
  obtain ⟨⟨y1,y2,y3,y4,y5,y6,y7,y8,y9,y10,y11,y12,y13,y14,y15,y16⟩, ⟨p1,p2,p3,p4,p5,p6,p7,p8,p9,p10,p11,p12,p13,p14,p15⟩, ⟨q1,q2,q3,q4,q5,q6⟩, ⟨r1,r2,r3,r4,r5,r6⟩, ⟨z1,z2,z3,z4⟩⟩ := hx1
  obtain ⟨v1,v2,v3,v4,v5,v6,v7,v8⟩ := y1
  obtain ⟨⟨Y1,Y2,Y3,Y4,Y5,Y6,Y7,Y8,Y9,Y10,Y11,Y12,Y13,Y14,Y15,Y16⟩, ⟨P1,P2,P3,P4,P5,P6,P7,P8,P9,P10,P11,P12,P13,P14,P15⟩, ⟨Q1,Q2,Q3,Q4,Q5,Q6⟩, ⟨R1,R2,R3,R4,R5,R6⟩, ⟨Z1,Z2,Z3,Z4⟩⟩ := hx2
  obtain ⟨V1,V2,V3,V4,V5,V6,V7,V8⟩ := Y1
  obtain ⟨s1,s2,s3,s4⟩ := h7
  obtain ⟨e1,e2,e3,e4,e5,e6,e7,e8⟩ := h1
  obtain ⟨E1,E2,E3,E4,E5,E6,E7,E8⟩ := h2
  cases he <;> simp only [cActTx, cActCur] <;> constructor <;> grind

set_option maxHeartbeats 4000000 in
theorem FInv.both_g {k : Core} {i : Nat} {t : TxC} {a b : Act} (hc : CInv k) (ho : OInv k) (h : FInv k)
    (ht : k.tx i = some t) (he : Enabled k i t [a, b]) :
    FGl (cActCur (cActCur k.cur a) b) k.txs.length := by
  obtain ⟨g1, g2, g3, g4⟩ := hc.cgl
  obtain ⟨x1,x2,x3,x4,x5,x6,x7,x8,x9,x10,x11,x12,x13,x14,x15,x16⟩ := hc.ctx ht
  obtain ⟨w1,w2,w3,w4,w5,w6,w7,w8⟩ := x1
  obtain ⟨o1,o2,o3,o4,o5,o6,o7,o8,o9,o10,o11,o12,o13,o14,o15⟩ := ho.one i t ht
  obtain ⟨og⟩ := ho.gl
  obtain ⟨f1,f2,f3,f4,f5,f6,f7,f8⟩ := h.one i t ht
  obtain ⟨b1,b2,b3,b4⟩ := PB.of (i := i) ht
  obtain ⟨fg, fg2⟩ := h.gl
  have hp64 := @pred64_of_pos
  cases he <;> simp only [cActTx, cActCur] <;> constructor <;> (try simp only [RBA]) <;> grind

set_option maxHeartbeats 4000000 in
theorem FInv.both_s {k : Core} {i : Nat} {t : TxC} {a b : Act} (hc : CInv k) (ho : OInv k) (h : FInv k)
    (ht : k.tx i = some t) (he : Enabled k i t [a, b]) :
    FTx (cActCur (cActCur k.cur a) b) k.txs.length i (cActTx (cActTx t a) b) := by
  obtain ⟨g1, g2, g3, g4⟩ := hc.cgl
  obtain ⟨x1,x2,x3,x4,x5,x6,x7,x8,x9,x10,x11,x12,x13,x14,x15,x16⟩ := hc.ctx ht
  obtain ⟨w1,w2,w3,w4,w5,w6,w7,w8⟩ := x1
  obtain ⟨o1,o2,o3,o4,o5,o6,o7,o8,o9,o10,o11,o12,o13,o14,o15⟩ := ho.one i t ht
  obtain ⟨og⟩ := ho.gl
  obtain ⟨f1,f2,f3,f4,f5,f6,f7,f8⟩ := h.one i t ht
  obtain ⟨b1,b2,b3,b4⟩ := PB.of (i := i) ht
  obtain ⟨fg, fg2⟩ := h.gl
  have hp64 := @pred64_of_pos
  cases he <;> simp only [cActTx, cActCur, RBA] at * <;> constructor <;> (try simp only [RBA]) <;> grind

set_option maxHeartbeats 8000000 in
theorem FInv.both_o {k : Core} {i : Nat} {t : TxC} {a b : Act} (hc : CInv k) (ho : OInv k) (h : FInv k)
    (ht : k.tx i = some t) (he : Enabled k i t [a, b]) :
    ∀ j tj, j ≠ i → (CTx k.cur k.txs.length j tj ∧ OTx k.cur k.txs.length j tj ∧ OPair k.cur j tj i t ∧ OPair k.cur i t j tj ∧ PB k i j tj) → FTx k.cur k.txs.length j tj →
      FPair k.cur j tj i t → FPair k.cur i t j tj →
      FTx (cActCur (cActCur k.cur a) b) k.txs.length j tj ∧ FPair (cActCur (cActCur k.cur a) b) j tj i (cActTx (cActTx t a) b) ∧ FPair (cActCur (cActCur k.cur a) b) i (cActTx (cActTx t a) b) j tj := by
  obtain ⟨g1, g2, g3, g4⟩ := hc.cgl
  obtain ⟨x1,x2,x3,x4,x5,x6,x7,x8,x9,x10,x11,x12,x13,x14,x15,x16⟩ := hc.ctx ht
  obtain ⟨w1,w2,w3,w4,w5,w6,w7,w8⟩ := x1
  obtain ⟨o1,o2,o3,o4,o5,o6,o7,o8,o9,o10,o11,o12,o13,o14,o15⟩ := ho.one i t ht
  obtain ⟨og⟩ := ho.gl
  obtain ⟨f1,f2,f3,f4,f5,f6,f7,f8⟩ := h.one i t ht
  obtain ⟨b1,b2,b3,b4⟩ := PB.of (i := i) ht
  obtain ⟨fg, fg2⟩ := h.gl
  have hp64 := @pred64_of_pos
  intro j tj hne hx h1 h2 h3
  obtain ⟨⟨y1,y2,y3,y4,y5,y6,y7,y8,y9,y10,y11,y12,y13,y14,y15,y16⟩, ⟨p1,p2,p3,p4,p5,p6,p7,p8,p9,p10,p11,p12,p13,p14,p15⟩, ⟨q1,q2,q3,q4,q5,q6⟩, ⟨r1,r2,r3,r4,r5,r6⟩, ⟨z1,z2,z3,z4⟩⟩ := hx
  obtain ⟨v1,v2,v3,v4,v5,v6,v7,v8⟩ := y1
  obtain ⟨e1,e2,e3,e4,e5,e6,e7,e8⟩ := h1
  obtain ⟨m1,m2,m3,m4⟩ := h2
  obtain ⟨n1,n2,n3,n4⟩ := h3
  cases he <;> simp only [cActTx, cActCur, RBA] at * <;> refine ⟨?_, ?_, ?_⟩ <;> constructor <;> (try simp only [RBA]) <;> grind

set_option maxHeartbeats 8000000 in
theorem FInv.both_p {k : Core} {i : Nat} {t : TxC} {a b : Act} (hc : CInv k) (ho : OInv k) (h : FInv k)
    (ht : k.tx i = some t) (he : Enabled k i t [a, b]) :
    ∀ j1 t1 j2 t2, j1 ≠ i → j2 ≠ i → j1 ≠ j2 →
      (CTx k.cur k.txs.length j1 t1 ∧ OTx k.cur k.txs.length j1 t1 ∧ OPair k.cur j1 t1 i t ∧ OPair k.cur i t j1 t1 ∧ PB k i j1 t1) →
      (CTx k.cur k.txs.length j2 t2 ∧ OTx k.cur k.txs.length j2 t2 ∧ OPair k.cur j2 t2 i t ∧ OPair k.cur i t j2 t2 ∧ PB k i j2 t2) →
      FTx k.cur k.txs.length j1 t1 → FTx k.cur k.txs.length j2 t2 →
      FPair k.cur j1 t1 i t → FPair k.cur i t j1 t1 → FPair k.cur j2 t2 i t → FPair k.cur i t j2 t2 →
      FPair k.cur j1 t1 j2 t2 → FPair (cActCur (cActCur k.cur a) b) j1 t1 j2 t2 := by
  obtain ⟨g1, g2, g3, g4⟩ := hc.cgl
  obtain ⟨x1,x2,x3,x4,x5,x6,x7,x8,x9,x10,x11,x12,x13,x14,x15,x16⟩ := hc.ctx ht
  obtain ⟨w1,w2,w3,w4,w5,w6,w7,w8⟩ := x1
  obtain ⟨o1,o2,o3,o4,o5,o6,o7,o8,o9,o10,o11,o12,o13,o14,o15⟩ := ho.one i t ht
  obtain ⟨og⟩ := ho.gl
  obtain ⟨f1,f2,f3,f4,f5,f6,f7,f8⟩ := h.one i t ht
  obtain ⟨b1,b2,b3,b4⟩ := PB.of (i := i) ht
  obtain ⟨fg, fg2⟩ := h.gl
  have hp64 := @pred64_of_pos
  intro j1 t1 j2 t2 hn1 hn2 hne hx1 hx2 h1 h2 h3 h4 h5 h6 h7
  obtain ⟨⟨y1,y2,y3,y4,y5,y6,y7,y8,y9,y10,y11,y12,y13,y14,y15,y16⟩, ⟨p1,p2,p3,p4,p5,p6,p7,p8,p9,p10,p11,p12,p13,p14,p15⟩, ⟨q1,q2,q3,q4,q5,q6⟩, ⟨r1,r2,r3,r4,r5,r6⟩, ⟨z1,z2,z3,z4⟩⟩ := hx1
  obtain ⟨v1,v2,v3,v4,v5,v6,v7,v8⟩ := y1
  obtain ⟨⟨Y1,Y2,Y3,Y4,Y5,Y6,Y7,Y8,Y9,Y10,Y11,Y12,Y13,Y14,Y15,Y16⟩, ⟨P1,P2,P3,P4,P5,P6,P7,P8,P9,P10,P11,P12,P13,P14,P15⟩, ⟨Q1,Q2,Q3,Q4,Q5,Q6⟩, ⟨R1,R2,R3,R4,R5,R6⟩, ⟨Z1,Z2,Z3,Z4⟩⟩ := hx2
  obtain ⟨V1,V2,V3,V4,V5,V6,V7,V8⟩ := Y1
  obtain ⟨s1,s2,s3,s4⟩ := h7
  obtain ⟨e1,e2,e3,e4,e5,e6,e7,e8⟩ := h1
  obtain ⟨E1,E2,E3,E4,E5,E6,E7,E8⟩ := h2
  cases he <;> simp only [cActTx, cActCur] <;> constructor <;> grind


theorem FInv.first {k : Core} {i : Nat} {t : TxC} {a : Act} {rest : List Act} (hc : CInv k) (ho : OInv k) (h : FInv k)
    (ht : k.tx i = some t) (he : Enabled k i t (a :: rest)) : FInv (cAct k a) :=
  h.upd (X := fun j tj => CTx k.cur k.txs.length j tj ∧ OTx k.cur k.txs.length j tj ∧ OPair k.cur j tj i t ∧
      OPair k.cur i t j tj ∧ PB k i j tj) ht (he.upd1 ht)
    (fun j tj hj e => ⟨hc.ctx hj, ho.one j tj hj, ho.two j tj i t hj ht e, ho.two i t j tj ht hj (Ne.symm e), PB.of hj⟩)
    (FInv.first_g hc ho h ht he) (FInv.first_s hc ho h ht he) (FInv.first_o hc ho h ht he) (FInv.first_p hc ho h ht he)

theorem FInv.both {k : Core} {i : Nat} {t : TxC} {a b : Act} (hc : CInv k) (ho : OInv k) (h : FInv k)
    (ht : k.tx i = some t) (he : Enabled k i t [a, b]) : FInv (cAct (cAct k a) b) :=
  h.upd (X := fun j tj => CTx k.cur k.txs.length j tj ∧ OTx k.cur k.txs.length j tj ∧ OPair k.cur j tj i t ∧
      OPair k.cur i t j tj ∧ PB k i j tj) ht (he.upd2 ht)
    (fun j tj hj e => ⟨hc.ctx hj, ho.one j tj hj, ho.two j tj i t hj ht e, ho.two i t j tj ht hj (Ne.symm e), PB.of hj⟩)
    (FInv.both_g hc ho h ht he) (FInv.both_s hc ho h ht he) (FInv.both_o hc ho h ht he) (FInv.both_p hc ho h ht he)

theorem FInv.append {k : Core} (hc : CInv k) (h : FInv k) : FInv { k with txs := k.txs ++ [freshTx] } := by
  obtain ⟨fg, fg2⟩ := h.gl
  obtain ⟨g1, g2, g3, g4⟩ := hc.cgl
  refine Inv3.append (X := fun j tj => CTx k.cur k.txs.length j tj) h (fun _ _ hj => hc.ctx hj) ⟨fg, fg2⟩ ?_ ?_
  · constructor <;> simp [freshTx, RBA] <;> grind
  · intro j t hx h1
    obtain ⟨y1,y2,y3,y4,y5,y6,y7,y8,y9,y10,y11,y12,y13,y14,y15,y16⟩ := hx
    obtain ⟨e1,e2,e3,e4,e5,e6,e7,e8⟩ := h1
    refine ⟨⟨e1,e2,e3,e4,e5,e6,e7,e8⟩, ?_, ?_⟩ <;> constructor <;> simp [freshTx] <;> grind

theorem FInv.rollback {k : Core} {i : Nat} {t : TxC} (hc : CInv k) (ho : OInv k) (h : FInv k) (ht : k.tx i = some t)
    (hcr : cCanRollback t = true) : FInv (k.setTx i (cRollback t)) := by
  simp only [cCanRollback, Bool.and_eq_true, decide_eq_true_eq] at hcr
  obtain ⟨hp, hcc⟩ := hcr
  obtain ⟨x1,x2,x3,x4,x5,x6,x7,x8,x9,x10,x11,x12,x13,x14,x15,x16⟩ := hc.ctx ht
  obtain ⟨w1,w2,w3,w4,w5,w6,w7,w8⟩ := x1
  obtain ⟨f1,f2,f3,f4,f5,f6,f7,f8⟩ := h.one i t ht
  obtain ⟨fg, fg2⟩ := h.gl
  refine h.upd (X := fun j tj => CTx k.cur k.txs.length j tj) ht (Upd.ofSetTx ht) (fun _ _ hj _ => hc.ctx hj) ⟨fg, fg2⟩ ?_ ?_ ?_
  · constructor <;> simp only [cRollback] <;> grind
  · intro j tj hne hx h1 h2 h3
    obtain ⟨e1,e2,e3,e4,e5,e6,e7,e8⟩ := h1
    obtain ⟨m1,m2,m3,m4⟩ := h2
    obtain ⟨n1,n2,n3,n4⟩ := h3
    refine ⟨⟨e1,e2,e3,e4,e5,e6,e7,e8⟩, ?_, ?_⟩ <;> constructor <;> simp only [cRollback] <;> grind
  · intro j1 t1 j2 t2 _ _ _ _ _ _ _ _ _ _ _ h7
    exact h7

end OnosVerif.V3
