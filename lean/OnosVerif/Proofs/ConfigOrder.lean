/- Order independence of a clean commit, and the conditional single-path corollaries. -/
import OnosVerif.Proofs.ConfigFold

namespace OnosVerif.Config
open OnosVerif.Path (Str)

theorem mem_paths (m : VMap) (p : Str) : p ∈ paths m ↔ ∃ e ∈ m, e.path = p := by
  simp [paths, List.mem_map]

theorem cleanStepP_perm (D U W : List Str) (ch ch' : VMap) (hp : ch'.Perm ch) (h : CleanStepP D U W ch) :
    CleanStepP D U W ch' := by
  have hm : ∀ x, x ∈ ch' ↔ x ∈ ch := fun x => hp.mem_iff
  have hpaths : ∀ q, q ∈ paths ch' ↔ q ∈ paths ch := by
    intro q; rw [mem_paths, mem_paths]
    constructor
    · rintro ⟨e, he, hq⟩; exact ⟨e, (hm e).1 he, hq⟩
    · rintro ⟨e, he, hq⟩; exact ⟨e, (hm e).2 he, hq⟩
  refine ⟨hp.symm.pairwise h.nodup (fun {x y} hxy => fun e => hxy e.symm), ?_, ?_, ?_, ?_, ?_, ?_⟩
  · exact fun c hc => h.nonempty c ((hm c).1 hc)
  · exact fun c hc => h.a c ((hm c).1 hc)
  · exact fun c hc c' hc' => h.c c ((hm c).1 hc) c' ((hm c').1 hc')
  · intro c hc hdel q hq
    exact h.d c ((hm c).1 hc) hdel q (hq.imp id (hpaths q).1)
  · intro c hc hdel q hq
    exact h.e1 c ((hm c).1 hc) hdel q (hq.imp id (hpaths q).1)
  · exact fun c hc => h.e2 c ((hm c).1 hc)

theorem specAt_perm (f : Str → Option Str) (ch ch' : VMap) (hp : ch'.Perm ch) (hn : NodupP ch) (p : Str) :
    specAt f ch' p = specAt f ch p := by
  unfold specAt
  rw [get_perm ch' ch hp hn p]
  have : (Spec.deletes ch').any (fun d => under p d) = (Spec.deletes ch).any (fun d => under p d) := by
    rw [Bool.eq_iff_iff]
    simp only [List.any_eq_true]
    constructor
    · rintro ⟨d, hd, hu⟩
      obtain ⟨c, hc, h1, h2⟩ := (mem_deletes ch' d).1 hd
      exact ⟨d, (mem_deletes ch d).2 ⟨c, hp.mem_iff.1 hc, h1, h2⟩, hu⟩
    · rintro ⟨d, hd, hu⟩
      obtain ⟨c, hc, h1, h2⟩ := (mem_deletes ch d).1 hd
      exact ⟨d, (mem_deletes ch' d).2 ⟨c, hp.mem_iff.2 hc, h1, h2⟩, hu⟩
  rw [this]

/-- two side maps that read the same at every path are shown as the same list. -/
theorem live_ext (a b : VMap) (ha : NodupP a) (hb : NodupP b) (h : ∀ p, liveAt a p = liveAt b p) :
    live a = live b := by
  apply sortedK_ext _ _ (live_sorted a ha) (live_sorted b hb)
  rintro ⟨p, v⟩
  rw [mem_live a ha, mem_live b hb, h p]

theorem commit_nodup (idx : Nat) (side ch : VMap) (o : VMap → VMap) (h : NodupP side) :
    NodupP (commitValues idx side ch o) := storeLoop_nodup _ _ _ h

/-- a clean commit does not depend on the iteration orders. -/
theorem commit_order_independent (D U W : List Str) (lo idx : Nat) (side ch ch' : VMap)
    (o1 o2 : VMap → VMap) (hinv : Inv D U W lo side) (hcl : CleanStepP D U W ch) (hlo : lo < idx)
    (hst : ∀ c ∈ ch, c.index = idx) (hp : ch'.Perm ch) (h1 : IsPerm o1) (h2 : IsPerm o2) :
    live (commitValues idx side ch o1) = live (commitValues idx side ch' o2) := by
  have hcl' := cleanStepP_perm D U W ch ch' hp hcl
  have hst' : ∀ c ∈ ch', c.index = idx := fun c hc => hst c (hp.mem_iff.1 hc)
  have hok := stepOK_of_inv D U W lo idx side ch hinv hcl hlo hst
  have hok' := stepOK_of_inv D U W lo idx side ch' hinv hcl' hlo hst'
  apply live_ext (commitValues idx side ch o1) (commitValues idx side ch' o2)
    (commit_nodup idx side ch o1 hinv.nodup) (commit_nodup idx side ch' o2 hinv.nodup)
  intro p
  rw [commit_liveAt o1 hok h1 p, commit_liveAt o2 hok' h2 p, specAt_perm _ ch ch' hp hcl.nodup p]

/-- the reference semantics itself does not depend on the order of the change map. -/
theorem spec_apply_perm (st : Spec.State) (ch ch' : VMap) (hp : ch'.Perm ch) (hn : NodupP ch)
    (hk : Spec.NodupK st) : Spec.view (Spec.apply st ch') = Spec.view (Spec.apply st ch) := by
  have hn' : NodupP ch' := hp.symm.pairwise hn (fun {x y} h => fun e => h e.symm)
  have hk1 := Spec.apply_nodup st ch' hk
  have hk2 := Spec.apply_nodup st ch hk
  apply sortedK_ext _ _ (view_sorted _ hk1) (view_sorted _ hk2)
  rintro ⟨p, v⟩
  rw [mem_view, mem_view, mem_state_iff_get _ hk1, mem_state_iff_get _ hk2,
    spec_apply_get st ch' hn' p, spec_apply_get st ch hn p, specAt_perm _ ch ch' hp hn p]

end OnosVerif.Config
