/- Helper lemmas for the pruning theorems of C18: the sort, and the single-variable loop of
   `PrunePathValues` against its declarative description. -/
import OnosVerif.Tree.Spec
import OnosVerif.Proofs.StrOrder

namespace OnosVerif.Tree
open OnosVerif.Path (Str strLt)
open OnosVerif.Path

/-! ### the sort -/

theorem mem_insertPV (x y : PV) : ∀ (l : List PV), y ∈ insertPV x l ↔ y = x ∨ y ∈ l
  | [] => by simp [insertPV]
  | z :: r => by
    unfold insertPV
    by_cases h : strLt z.path x.path = true
    · simp only [h, if_true, List.mem_cons, mem_insertPV x y r]
      constructor
      · rintro (h | h | h) <;> simp [h]
      · rintro (h | h | h) <;> simp [h]
    · simp [h]

theorem mem_sortPVs (y : PV) : ∀ (l : List PV), y ∈ sortPVs l ↔ y ∈ l
  | [] => by simp [sortPVs]
  | x :: r => by
    have ih := mem_sortPVs y r
    simp only [sortPVs, List.foldr_cons, List.mem_cons] at ih ⊢
    rw [mem_insertPV, ih]

/-- non-strictly sorted by path. -/
def SortedLe (l : List PV) : Prop := l.Pairwise (fun a b => strLt b.path a.path = false)

/-- strictly sorted by path. -/
def SortedLt (l : List PV) : Prop := l.Pairwise (fun a b => strLt a.path b.path = true)

theorem insertPV_sorted (x : PV) : ∀ (l : List PV), SortedLe l → SortedLe (insertPV x l)
  | [], _ => by simp [insertPV, SortedLe]
  | z :: r, h => by
    unfold insertPV
    simp only [SortedLe, List.pairwise_cons] at h
    by_cases hz : strLt z.path x.path = true
    · simp only [hz, if_true, SortedLe, List.pairwise_cons]
      refine ⟨?_, insertPV_sorted x r h.2⟩
      intro b hb
      rcases (mem_insertPV x b r).1 hb with hb | hb
      · subst hb; exact strLt_asymm _ _ hz
      · exact h.1 b hb
    · have hz' : strLt z.path x.path = false := by simpa using hz
      simp only [hz', Bool.false_eq_true, if_false, SortedLe, List.pairwise_cons]
      refine ⟨?_, h⟩
      intro b hb
      rcases List.mem_cons.1 hb with hb | hb
      · subst hb; exact hz'
      · exact strLe_trans x.path z.path b.path hz' (h.1 b hb)

theorem sortPVs_sorted : ∀ (l : List PV), SortedLe (sortPVs l)
  | [] => by simp [sortPVs, SortedLe]
  | x :: r => by
    have := insertPV_sorted x (sortPVs r) (sortPVs_sorted r)
    simpa [sortPVs] using this

theorem insertPV_distinct (x : PV) : ∀ (l : List PV),
    l.Pairwise (fun a b => a.path ≠ b.path) → (∀ y ∈ l, y.path ≠ x.path) →
    (insertPV x l).Pairwise (fun a b => a.path ≠ b.path)
  | [], _, _ => by simp [insertPV]
  | z :: r, h, hx => by
    unfold insertPV
    simp only [List.pairwise_cons] at h
    by_cases hz : strLt z.path x.path = true
    · simp only [hz, if_true, List.pairwise_cons]
      refine ⟨?_, insertPV_distinct x r h.2 (fun y hy => hx y (List.mem_cons_of_mem _ hy))⟩
      intro b hb
      rcases (mem_insertPV x b r).1 hb with hb | hb
      · subst hb; exact hx z List.mem_cons_self
      · exact h.1 b hb
    · have hz' : strLt z.path x.path = false := by simpa using hz
      simp only [hz', Bool.false_eq_true, if_false, List.pairwise_cons]
      refine ⟨?_, h⟩
      intro b hb
      exact fun e => hx b hb e.symm

theorem pathsDistinct_pairwise : ∀ (l : List PV), pathsDistinct l = true →
    l.Pairwise (fun a b => a.path ≠ b.path)
  | [], _ => List.Pairwise.nil
  | p :: r, h => by
    simp only [pathsDistinct, Bool.and_eq_true, List.all_eq_true, bne_iff_ne, ne_eq] at h
    exact List.Pairwise.cons (fun b hb e => h.1 b hb e.symm) (pathsDistinct_pairwise r h.2)

theorem sortPVs_distinct : ∀ (l : List PV), l.Pairwise (fun a b => a.path ≠ b.path) →
    (sortPVs l).Pairwise (fun a b => a.path ≠ b.path)
  | [], _ => by simp [sortPVs]
  | x :: r, h => by
    simp only [List.pairwise_cons] at h
    have := insertPV_distinct x (sortPVs r) (sortPVs_distinct r h.2)
      (fun y hy => fun e => h.1 y ((mem_sortPVs y r).1 hy) e.symm)
    simpa [sortPVs] using this

theorem sortedLt_of (l : List PV) (h1 : SortedLe l) (h2 : l.Pairwise (fun a b => a.path ≠ b.path)) :
    SortedLt l := by
  induction l with
  | nil => exact List.Pairwise.nil
  | cons a r ih =>
    simp only [SortedLe, SortedLt, List.pairwise_cons] at h1 h2 ⊢
    refine ⟨?_, ih h1.2 h2.2⟩
    intro b hb
    cases hab : strLt a.path b.path with
    | true => rfl
    | false => exact absurd (strLt_connected _ _ hab (h1.1 b hb)) (h2.1 b hb)

theorem sortPVs_sortedLt (l : List PV) (h : pathsDistinct l = true) : SortedLt (sortPVs l) :=
  sortedLt_of _ (sortPVs_sorted l) (sortPVs_distinct l (pathsDistinct_pairwise l h))

/-! ### the loop -/

/-- `p` lies under the current `deletingPrefix`. -/
def covBy (dp : Str) (p : PV) : Bool := !dp.isEmpty && hasPrefix p.path dp

theorem hasPrefix_self (a : Str) : hasPrefix a a = true := isPrefixOf_refl a

/-- in a strictly sorted list nothing later covers the head. -/
theorem coveredIn_head_false (p : PV) (r : List PV) (h : SortedLt (p :: r)) :
    coveredIn hasPrefix (p :: r) p = false := by
  simp only [SortedLt, List.pairwise_cons] at h
  simp only [coveredIn, List.any_cons, bne_self_eq_false, Bool.and_false, Bool.false_and, Bool.false_or]
  rw [List.any_eq_false]
  intro d hd
  simp only [Bool.and_eq_true, Bool.not_eq_true', bne_iff_ne, ne_eq, not_and]
  intro hne' hpre
  have hne := hne'.2
  have hlt := h.1 d hd
  have : strLt d.path p.path = true := strLt_of_prefix _ _ hpre hne
  rw [strLt_asymm _ _ hlt] at this
  exact absurd this (by decide)

theorem pruneLoop_spec (lt : Bool) : ∀ (rest : List PV) (dp : Str),
    SortedLt rest → (dp = [] ∨ ∀ x ∈ rest, strLt dp x.path = true) →
    (lt = true → ∀ x ∈ rest, x.path ≠ []) →
    pruneLoop lt dp rest =
      rest.filter (fun p => !covBy dp p && !coveredIn hasPrefix rest p && (lt || !isTombstone p))
  | [], _, _, _, _ => rfl
  | p :: r, dp, hs, hdp, hne => by
    have hs' := hs
    simp only [SortedLt, List.pairwise_cons] at hs'
    obtain ⟨hpr, hsr⟩ := hs'
    have hhead := coveredIn_head_false p r hs
    -- an element of r that is covered by the old prefix although p is not: impossible
    have hold : covBy dp p = false → ∀ y ∈ r, covBy dp y = false := by
      intro hA y hy
      cases hd : dp with
      | nil => simp [covBy]
      | cons c d' =>
        have hdp' : ∀ x ∈ p :: r, strLt dp x.path = true := by
          rcases hdp with h | h
          · rw [hd] at h; exact absurd h (by simp)
          · exact h
        simp only [covBy, hd, List.isEmpty_cons, Bool.not_false, Bool.true_and] at hA ⊢
        cases hy' : hasPrefix y.path (c :: d') with
        | false => rfl
        | true =>
          have h1 : strLt p.path (c :: d') = false := by
            rw [← hd]; exact strLt_asymm _ _ (hdp' p List.mem_cons_self)
          have h2 : strLt y.path p.path = false := strLt_asymm _ _ (hpr y hy)
          have := prefix_interval (c :: d') p.path y.path h1 h2 hy'
          simp only [hasPrefix] at hA
          rw [hA] at this; exact absurd this (by decide)
    rw [List.filter_cons]
    unfold pruneLoop
    cases hA : covBy dp p with
    | true =>
      -- p lies under the current prefix: skipped, prefix unchanged
      have hA' := hA
      simp only [covBy, Bool.and_eq_true, Bool.not_eq_true'] at hA'
      obtain ⟨hne1, hpre⟩ := hA'
      simp only [hne1, hpre, Bool.not_true, Bool.or_false, Bool.and_false, Bool.false_and,
        Bool.false_eq_true, if_false, List.nil_append, Bool.not_true, Bool.false_and]
      have hdpne : dp ≠ [] := by intro h; rw [h] at hne1; simp at hne1
      rw [pruneLoop_spec lt r dp hsr
        (Or.inr (fun x hx => (hdp.resolve_left hdpne) x (List.mem_cons_of_mem _ hx)))
        (fun h x hx => hne h x (List.mem_cons_of_mem _ hx))]
      apply List.filter_congr
      intro y hy
      cases hcy : covBy dp y with
      | true => simp
      | false =>
        simp only [Bool.not_false, Bool.true_and]
        congr 1
        simp only [coveredIn, List.any_cons]
        -- p does not cover y, else dp would
        have : (p.deleted && !p.path.isEmpty && p.path != y.path && hasPrefix y.path p.path) = false := by
          cases hpy : hasPrefix y.path p.path with
          | false => simp
          | true =>
            have := isPrefixOf_trans dp p.path y.path hpre hpy
            simp only [covBy, hne1, Bool.not_false, Bool.true_and, hasPrefix] at hcy
            rw [hcy] at this; exact absurd this (by decide)
        rw [this, Bool.false_or]
    | false =>
      have holdr := hold hA
      have hstart : (dp.isEmpty || !hasPrefix p.path dp) = true := by
        simp only [covBy] at hA
        cases h1 : dp.isEmpty <;> cases h2 : hasPrefix p.path dp <;> simp_all
      cases hT : isTombstone p with
      | true =>
        -- p starts a new deletion
        have hT' := hT
        simp only [isTombstone, Bool.and_eq_true, Bool.not_eq_true'] at hT'
        obtain ⟨hdel, hnem⟩ := hT'
        simp only [hdel, hstart, Bool.and_self, if_true, hnem, hasPrefix_self, Bool.not_true,
          Bool.or_false, Bool.false_eq_true, if_false, Bool.true_and]
        rw [pruneLoop_spec lt r p.path hsr (Or.inr hpr) (fun h x hx => hne h x (List.mem_cons_of_mem _ hx))]
        have htail : r.filter (fun q => !covBy p.path q && !coveredIn hasPrefix r q && (lt || !isTombstone q)) =
            r.filter (fun q => !covBy dp q && !coveredIn hasPrefix (p :: r) q && (lt || !isTombstone q)) := by
          apply List.filter_congr
          intro y hy
          rw [holdr y hy]
          simp only [Bool.not_false, Bool.true_and]
          congr 1
          simp only [coveredIn, List.any_cons, hdel, hnem, Bool.not_false, Bool.true_and, covBy]
          have hney : (p.path != y.path) = true := by
            simp only [bne_iff_ne, ne_eq]
            exact strLt_ne _ _ (hpr y hy)
          rw [hney, Bool.true_and, Bool.not_or]
        rw [htail, hhead]
        cases lt <;> simp
      | false =>
        -- p is kept and cancels the deletion
        have hnostart : (p.deleted && (dp.isEmpty || !hasPrefix p.path dp)) = true → p.path = [] := by
          intro h
          simp only [Bool.and_eq_true] at h
          simp only [isTombstone, h.1, Bool.true_and, Bool.not_eq_false', List.isEmpty_iff] at hT
          exact hT
        have hkeep : (lt || !isTombstone p) = true := by simp [hT]
        have hltf : (p.deleted && (dp.isEmpty || !hasPrefix p.path dp)) = true → lt = false := by
          intro h
          cases hl : lt with
          | false => rfl
          | true => exact absurd (hnostart h) (hne hl p List.mem_cons_self)
        have htail : r.filter (fun q => !covBy [] q && !coveredIn hasPrefix r q && (lt || !isTombstone q)) =
            r.filter (fun q => !covBy dp q && !coveredIn hasPrefix (p :: r) q && (lt || !isTombstone q)) := by
          apply List.filter_congr
          intro y hy
          rw [holdr y hy]
          simp only [covBy, List.isEmpty_nil, Bool.not_true, Bool.false_and, Bool.not_false, Bool.true_and]
          congr 1
          simp only [coveredIn, List.any_cons]
          have : (p.deleted && !p.path.isEmpty && p.path != y.path && hasPrefix y.path p.path) = false := by
            simp only [isTombstone] at hT
            rw [hT]; simp
          rw [this, Bool.false_or]
        have hrec := pruneLoop_spec lt r [] hsr (Or.inl rfl) (fun h x hx => hne h x (List.mem_cons_of_mem _ hx))
        rw [hhead]
        simp only [Bool.not_false, Bool.and_self, Bool.or_true, if_true]
        cases hst : (p.deleted && (dp.isEmpty || !hasPrefix p.path dp)) with
        | false =>
          simp only [Bool.false_and, Bool.false_eq_true, if_false, List.nil_append, hstart, if_true]
          rw [hrec, htail]
        | true =>
          have hp0 := hnostart hst
          have hl0 := hltf hst
          simp only [if_true, hp0, List.isEmpty_nil, Bool.true_or, hl0, Bool.and_false,
            Bool.false_eq_true, if_false, List.nil_append]
          rw [hl0] at hrec htail
          rw [hrec, htail]

/-! ### top level -/

theorem coveredIn_congr_mem (rel : Str → Str → Bool) (l l' : List PV) (p : PV)
    (h : ∀ x, x ∈ l ↔ x ∈ l') : coveredIn rel l p = coveredIn rel l' p := by
  rw [Bool.eq_iff_iff]
  simp only [coveredIn, List.any_eq_true]
  constructor
  · rintro ⟨d, hd, hp⟩; exact ⟨d, (h d).1 hd, hp⟩
  · rintro ⟨d, hd, hp⟩; exact ⟨d, (h d).2 hd, hp⟩

theorem noEmpty_sorted (pvs : List PV) (h : noEmptyPath pvs = true) : ∀ x ∈ sortPVs pvs, x.path ≠ [] := by
  intro x hx
  have hx' := (mem_sortPVs x pvs).1 hx
  simp only [noEmptyPath, List.all_eq_true, Bool.not_eq_true', List.isEmpty_eq_false_iff] at h
  exact h x hx'

/-- `PrunePathValues` is the declarative pruning with "above" read as *textual prefix*. -/
theorem prune_textual (pvs : List PV) (lt : Bool) (hd : pathsDistinct pvs = true)
    (hne : lt = true → noEmptyPath pvs = true) :
    prunePathValues pvs lt = pruneSpec hasPrefix lt pvs := by
  unfold prunePathValues pruneSpec
  rw [pruneLoop_spec lt (sortPVs pvs) [] (sortPVs_sortedLt pvs hd) (Or.inl rfl)
    (fun h => noEmpty_sorted pvs (hne h))]
  apply List.filter_congr
  intro p _
  rw [coveredIn_congr_mem hasPrefix (sortPVs pvs) pvs p (fun x => mem_sortPVs x pvs)]
  simp [covBy]

theorem boundaryPrefix_hasPrefix (p d : Str) (h : boundaryPrefix p d = true) : hasPrefix p d = true := by
  simp only [boundaryPrefix, Bool.and_eq_true] at h
  exact h.1

/-- without sibling-prefix tombstones, textual and element-boundary pruning coincide. -/
theorem pruneSpec_boundary (pvs : List PV) (lt : Bool) (h : noSiblingPrefix pvs = true) :
    pruneSpec hasPrefix lt pvs = pruneSpec boundaryPrefix lt pvs := by
  unfold pruneSpec
  apply List.filter_congr
  intro p hp
  have hp' := (mem_sortPVs p pvs).1 hp
  congr 2
  rw [Bool.eq_iff_iff]
  simp only [coveredIn, List.any_eq_true]
  simp only [noSiblingPrefix, List.all_eq_true, Bool.or_eq_true, Bool.not_eq_true'] at h
  constructor
  · rintro ⟨d, hd, hc⟩
    refine ⟨d, hd, ?_⟩
    simp only [Bool.and_eq_true] at hc ⊢
    refine ⟨hc.1, ?_⟩
    rcases h d hd with hdel | hall
    · rw [hdel] at hc; simp at hc
    · rcases hall p hp' with h1 | h1
      · rw [hc.2] at h1; exact absurd h1 (by decide)
      · exact h1
  · rintro ⟨d, hd, hc⟩
    refine ⟨d, hd, ?_⟩
    simp only [Bool.and_eq_true] at hc ⊢
    exact ⟨hc.1, boundaryPrefix_hasPrefix _ _ hc.2⟩

/-! ### PrunePathMap -/

theorem pvMapSet_last (x : PV) : ∀ (acc : List PV), (∀ y ∈ acc, strLt y.path x.path = true) →
    pvMapSet x acc = acc ++ [x]
  | [], _ => rfl
  | y :: r, h => by
    have hy := h y List.mem_cons_self
    have h1 : strLt x.path y.path = false := strLt_asymm _ _ hy
    have h2 : x.path ≠ y.path := fun e => strLt_ne _ _ hy e.symm
    simp only [pvMapSet, h1, Bool.false_eq_true, if_false, h2, List.cons_append]
    rw [pvMapSet_last x r (fun z hz => h z (List.mem_cons_of_mem _ hz))]

theorem foldl_pvMapSet_sorted : ∀ (rest acc : List PV), SortedLt (acc ++ rest) →
    rest.foldl (fun acc pv => pvMapSet pv acc) acc = acc ++ rest
  | [], acc, _ => by simp
  | x :: r, acc, h => by
    simp only [List.foldl_cons]
    have hx : ∀ y ∈ acc, strLt y.path x.path = true := by
      intro y hy
      simp only [SortedLt, List.pairwise_append] at h
      exact h.2.2 y hy x List.mem_cons_self
    rw [pvMapSet_last x acc hx]
    have : acc ++ [x] ++ r = acc ++ x :: r := by simp
    rw [foldl_pvMapSet_sorted r (acc ++ [x]) (by rw [this]; exact h), this]

theorem pruneSpec_sortedLt (rel : Str → Str → Bool) (lt : Bool) (pvs : List PV) (hd : pathsDistinct pvs = true) :
    SortedLt (pruneSpec rel lt pvs) :=
  List.Pairwise.sublist List.filter_sublist (sortPVs_sortedLt pvs hd)

/-- on distinct paths `PrunePathMap` holds exactly the path/values `PrunePathValues` returns. -/
theorem pruneMap_eq (pvs : List PV) (lt : Bool) (hd : pathsDistinct pvs = true)
    (hne : lt = true → noEmptyPath pvs = true) :
    prunePathMap pvs lt = prunePathValues pvs lt := by
  unfold prunePathMap
  rw [prune_textual pvs lt hd hne]
  have := foldl_pvMapSet_sorted (pruneSpec hasPrefix lt pvs) [] (by simpa using pruneSpec_sortedLt hasPrefix lt pvs hd)
  simpa using this

/-- strictly sorted lists with the same members are equal. -/
theorem sortedLt_ext : ∀ (l m : List PV), SortedLt l → SortedLt m → (∀ x, x ∈ l ↔ x ∈ m) → l = m
  | [], [], _, _, _ => rfl
  | [], b :: m, _, _, h => by have := (h b).2 List.mem_cons_self; simp at this
  | a :: l, [], _, _, h => by have := (h a).1 List.mem_cons_self; simp at this
  | a :: l, b :: m, hl, hm, h => by
    simp only [SortedLt, List.pairwise_cons] at hl hm
    have hab : a = b := by
      rcases List.mem_cons.1 ((h a).1 List.mem_cons_self) with e | ha
      · exact e
      · rcases List.mem_cons.1 ((h b).2 List.mem_cons_self) with e | hb
        · exact e.symm
        · have h1 := hm.1 a ha
          have h2 := hl.1 b hb
          rw [strLt_asymm _ _ h1] at h2; exact absurd h2 (by decide)
    subst hab
    congr 1
    apply sortedLt_ext l m hl.2 hm.2
    intro x
    constructor
    · intro hx
      rcases List.mem_cons.1 ((h x).1 (List.mem_cons_of_mem _ hx)) with e | hx'
      · subst e; exact absurd rfl (strLt_ne _ _ (hl.1 x hx))
      · exact hx'
    · intro hx
      rcases List.mem_cons.1 ((h x).2 (List.mem_cons_of_mem _ hx)) with e | hx'
      · subst e; exact absurd rfl (strLt_ne _ _ (hm.1 x hx))
      · exact hx'

theorem pathsDistinct_perm (l m : List PV) (hp : l.Perm m) (h : pathsDistinct l = true) : pathsDistinct m = true := by
  have h1 := pathsDistinct_pairwise l h
  have h2 : m.Pairwise (fun a b => a.path ≠ b.path) :=
    hp.pairwise h1 (fun hab e => hab e.symm)
  clear h1 h hp
  induction m with
  | nil => rfl
  | cons a r ih =>
    simp only [List.pairwise_cons] at h2
    simp only [pathsDistinct, Bool.and_eq_true, List.all_eq_true, bne_iff_ne, ne_eq]
    exact ⟨fun q hq e => h2.1 q hq e.symm, ih h2.2⟩

/-- the order in which the values arrive (slice order, map iteration order) is irrelevant. -/
theorem sortPVs_perm (l m : List PV) (hp : l.Perm m) (h : pathsDistinct l = true) : sortPVs l = sortPVs m :=
  sortedLt_ext _ _ (sortPVs_sortedLt l h) (sortPVs_sortedLt m (pathsDistinct_perm l m hp h))
    (fun x => by rw [mem_sortPVs, mem_sortPVs]; exact hp.mem_iff)

end OnosVerif.Tree
