/- The fold of one member (`memberFold`) for the three kinds of members: a leaf, a container, a list
   whose path/values arrive grouped by entry. -/
import OnosVerif.Proofs.TreeFull

namespace OnosVerif.Tree
open OnosVerif.Path (Str GPath Elem)

/-- two lists related element by element (core has no `Forall₂`). -/
inductive Forall2 {α β : Type} (R : α → β → Prop) : List α → List β → Prop
  | nil : Forall2 R [] []
  | cons {a b l m} : R a b → Forall2 R l m → Forall2 R (a :: l) (b :: m)

theorem Forall2.imp {α β : Type} {R Q : α → β → Prop} (h : ∀ a b, R a b → Q a b) :
    ∀ {l : List α} {m : List β}, Forall2 R l m → Forall2 Q l m
  | _, _, .nil => .nil
  | _, _, .cons hab ht => .cons (h _ _ hab) (Forall2.imp h ht)

theorem mem_takeWhile_pos {α : Type} (p : α → Bool) : ∀ (l : List α) (y : α), y ∈ l.takeWhile p → p y = true ∧ y ∈ l
  | [], _, h => by simp at h
  | a :: l, y, h => by
    rw [List.takeWhile_cons] at h
    cases hp : p a with
    | false => simp [hp] at h
    | true =>
      simp only [hp, if_true, List.mem_cons] at h
      rcases h with h | h
      · subst h; exact ⟨hp, List.mem_cons_self⟩
      · have := mem_takeWhile_pos p l y h
        exact ⟨this.1, List.mem_cons_of_mem _ this.2⟩

theorem dropWhile_head_neg {α : Type} (p : α → Bool) : ∀ (l : List α) (y : α) (r : List α),
    l.dropWhile p = y :: r → p y = false
  | [], _, _, h => by simp at h
  | a :: l, y, r, h => by
    rw [List.dropWhile_cons] at h
    cases hp : p a with
    | false =>
      simp only [hp, Bool.false_eq_true, if_false, List.cons.injEq] at h
      rw [← h.1]; exact hp
    | true =>
      simp only [hp, if_true] at h
      exact dropWhile_head_neg p l y r h

variable (rfc : Bool) (ord : List (Str × Str) → List (Str × Str))

def headOf (x : Entry) : Option Elem := x.1.head?

/-- the rest of a path that has more than one element. -/
def tailOf (x : Entry) : Option Entry :=
  match x.1 with
  | _ :: e' :: rest => some (e' :: rest, x.2)
  | _ => none

def tails (L : List Entry) : List Entry := L.filterMap tailOf

/-- the path/values that go through the child `e`, relative to it. -/
def sub (S : List Entry) (e : Elem) : List Entry :=
  S.filterMap fun x =>
    match x.1 with
    | a :: e' :: rest => if a = e then some (e' :: rest, x.2) else none
    | _ => none

/-- the path goes through the child `e`. -/
def IsStep (e : Elem) (x : Entry) : Prop := ∃ e' rest, x.1 = e :: e' :: rest

theorem sub_of_steps (e : Elem) : ∀ (G : List Entry), (∀ x ∈ G, IsStep e x) → sub G e = tails G
  | [], _ => rfl
  | x :: G, h => by
    obtain ⟨e', rest, hx⟩ := h x List.mem_cons_self
    have ih := sub_of_steps e G (fun y hy => h y (List.mem_cons_of_mem _ hy))
    simp only [sub, tails, List.filterMap_cons, tailOf, hx] at ih ⊢
    simp [ih]

theorem sub_of_others (e : Elem) : ∀ (R : List Entry), (∀ x ∈ R, headOf x ≠ some e) → sub R e = []
  | [], _ => rfl
  | x :: R, h => by
    have ih := sub_of_others e R (fun y hy => h y (List.mem_cons_of_mem _ hy))
    have hx := h x List.mem_cons_self
    simp only [sub, List.filterMap_cons] at ih ⊢
    obtain ⟨p, v⟩ := x
    cases p with
    | nil => simpa using ih
    | cons a r =>
      cases r with
      | nil => simpa using ih
      | cons e' rest =>
        have : a ≠ e := by
          intro he; apply hx; simp [headOf, he]
        simpa [this] using ih

theorem sub_append (A B : List Entry) (e : Elem) : sub (A ++ B) e = sub A e ++ sub B e := by
  simp [sub, List.filterMap_append]

theorem memberFold_append : ∀ (A B : List Entry) (cur : Option Json),
    memberFold rfc ord (A ++ B) cur =
      match memberFold rfc ord A cur with
      | .error e => .error e
      | .ok c => memberFold rfc ord B c
  | [], B, cur => by simp [memberFold]
  | x :: A, B, cur => by
    simp only [List.cons_append, memberFold]
    cases memberStep rfc ord x cur with
    | error e => rfl
    | ok y => exact memberFold_append A B _

/-! ### container -/

theorem memberFold_container (e : Elem) (hk : e.keys.isEmpty = true) : ∀ (L : List Entry) (cur : Option Json),
    (∀ x ∈ L, IsStep e x) →
    memberFold rfc ord L cur =
      match L with
      | [] => .ok cur
      | _ :: _ =>
        match addAllE rfc ord (tails L) (cur.getD (.obj [])) with
        | .error err => .error err
        | .ok c => .ok (some c)
  | [], _, _ => rfl
  | x :: L, cur, h => by
    obtain ⟨e', rest, hx⟩ := h x List.mem_cons_self
    have ih := memberFold_container e hk L
    obtain ⟨p, v⟩ := x
    simp only at hx
    subst hx
    simp only [memberFold, memberStep, hk, if_true, tails, List.filterMap_cons, tailOf, addAllE]
    cases hadd : addElems rfc ord (e' :: rest) v (cur.getD (.obj [])) with
    | error err => rfl
    | ok c =>
      simp only [upd]
      rw [ih (some c) (fun y hy => h y (List.mem_cons_of_mem _ hy))]
      cases L with
      | nil => simp [addAllE]
      | cons y L' => simp [tails]

/-! ### list -/

/-- what the fold needs to know about a path/value that goes through entry `e` of the list. -/
def GroupOK (e : Elem) (x : Entry) : Prop :=
  ∃ e' rest, x.1 = e :: e' :: rest ∧ leafPlain (e' :: rest, x.2) ∧ headOK rfc e.keys (e' :: rest) x.2 = true

theorem memberFold_group (e : Elem) (hk : e.keys ≠ []) (hs : Path.keysSorted e.keys = true)
    (hp : (ord e.keys).Perm e.keys) (items0 : List Json) (hobjs : ∀ it ∈ items0, ∃ mi, it = Json.obj mi) :
    ∀ (G : List Entry) (it0 itF : Json), (∀ x ∈ G, GroupOK rfc e x) → FullMatch e.keys it0 →
      addAllE rfc ord (tails G) it0 = .ok itF →
      memberFold rfc ord G (some (.arr (items0 ++ [it0]))) = .ok (some (.arr (items0 ++ [itF]))) ∧
        FullMatch e.keys itF
  | [], it0, itF, _, hf, hadd => by
    simp only [tails, List.filterMap_nil, addAllE, Except.ok.injEq] at hadd
    subst hadd
    exact ⟨rfl, hf⟩
  | x :: G, it0, itF, h, hf, hadd => by
    obtain ⟨e', rest, hx, hlp, hh⟩ := h x List.mem_cons_self
    obtain ⟨p, v⟩ := x
    simp only at hx hlp hh
    subst hx
    simp only [tails, List.filterMap_cons, tailOf, addAllE] at hadd
    cases h1 : addElems rfc ord (e' :: rest) v it0 with
    | error err => rw [h1] at hadd; simp at hadd
    | ok it1 =>
      rw [h1] at hadd
      simp only at hadd
      have hf1 : FullMatch e.keys it1 :=
        addElems_fullMatch rfc ord e.keys hs (e' :: rest, v) it0 it1 hlp (by simp) hh hf h1
      have hkf : e.keys.isEmpty = false := by
        cases hke : e.keys with
        | nil => exact absurd hke hk
        | cons _ _ => rfl
      have hstep : memberStep rfc ord (e :: e' :: rest, v) (some (.arr (items0 ++ [it0]))) =
          .ok (some (.arr (items0 ++ [it1]))) := by
        simp only [memberStep, hkf, Bool.false_eq_true, if_false, sliceOf]
        rw [listStep_last e.keys (ord e.keys) items0 it0 _ _ hk hp hobjs hf]
        simp only [h1]
      simp only [memberFold, hstep, upd]
      exact memberFold_group e hk hs hp items0 hobjs G it1 itF
        (fun y hy => h y (List.mem_cons_of_mem _ hy)) hf1 hadd

/-- once the path/values of an entry have passed, none comes back (they are contiguous). -/
def NoReturn (L : List Entry) : Prop :=
  ∀ a c b, [a, c, b].Sublist L → headOf a = headOf b → headOf c = headOf a

theorem NoReturn.sublist {L L' : List Entry} (h : NoReturn L) (hs : L'.Sublist L) : NoReturn L' :=
  fun a c b habc => h a c b (habc.trans hs)

/-- a path/value of the list `n` with key names `KN`. -/
def ListEntryOK (n : Str) (KN : List Str) (x : Entry) : Prop :=
  ∃ e, headOf x = some e ∧ e.name = n ∧ e.keys ≠ [] ∧ e.keys.map (·.1) = KN ∧
    Path.keysSorted e.keys = true ∧ GroupOK rfc e x

theorem memberStep_none_list (x : Entry) (e : Elem) (hx : IsStep e x) (hk : e.keys ≠ []) :
    memberStep rfc ord x none = memberStep rfc ord x (some (.arr [])) := by
  obtain ⟨e', rest, hx⟩ := hx
  obtain ⟨p, v⟩ := x
  simp only at hx
  subst hx
  simp [memberStep, sliceOf, hk]

theorem memberFold_list (hord : ∀ m, (ord m).Perm m) (n : Str) (KN : List Str) :
    ∀ (len : Nat) (L : List Entry) (items0 : List Json), L.length ≤ len →
    (∀ x ∈ L, ListEntryOK rfc n KN x) → NoReturn L →
    (∀ it ∈ items0, ∃ mi, it = Json.obj mi) →
    (∀ it ∈ items0, ∀ x ∈ L, ∀ e, headOf x = some e → Clashes e.keys it) →
    (∀ e, (∃ x ∈ L, headOf x = some e) → ∃ it, addAllE rfc ord (sub L e) (keyObj e.keys) = .ok it) →
    ∃ hs items, memberFold rfc ord L (some (.arr items0)) = .ok (some (.arr (items0 ++ items))) ∧
      hs.Nodup ∧ (∀ e, e ∈ hs ↔ ∃ x ∈ L, headOf x = some e) ∧
      Forall2 (fun e it => (∃ x ∈ L, headOf x = some e) ∧ FullMatch e.keys it ∧
        addAllE rfc ord (sub L e) (keyObj e.keys) = .ok it) hs items := by
  intro len
  induction len with
  | zero =>
    intro L items0 hlen _ _ _ _ _
    have : L = [] := List.eq_nil_of_length_eq_zero (by omega)
    subst this
    exact ⟨[], [], by simp [memberFold], List.nodup_nil, by intro e; simp, Forall2.nil⟩
  | succ len ih =>
    intro L items0 hlen hL hnr hobjs hclash hchild
    cases L with
    | nil => exact ⟨[], [], by simp [memberFold], List.nodup_nil, by intro e; simp, Forall2.nil⟩
    | cons x L' =>
      obtain ⟨e0, hx0, hn0, hk0, hkn0, hs0, hg0⟩ := hL x List.mem_cons_self
      -- the group of e0 and the rest
      let p : Entry → Bool := fun y => decide (headOf y = some e0)
      have hsplit : L' = L'.takeWhile p ++ L'.dropWhile p := (List.takeWhile_append_dropWhile).symm
      have hG : ∀ y ∈ L'.takeWhile p, headOf y = some e0 := by
        intro y hy
        have := (mem_takeWhile_pos p L' y hy).1
        simpa [p] using this
      have hR : ∀ y ∈ L'.dropWhile p, headOf y ≠ some e0 := by
        intro z hz hze
        cases hdw : L'.dropWhile p with
        | nil => rw [hdw] at hz; simp at hz
        | cons y0 R' =>
          have hy0 : p y0 = false := dropWhile_head_neg p L' y0 R' hdw
          have hy0' : headOf y0 ≠ some e0 := by simpa [p] using hy0
          rw [hdw] at hz
          rcases List.mem_cons.1 hz with hz | hz
          · subst hz; exact hy0' hze
          · have hsub : [x, y0, z].Sublist (x :: L') := by
              apply List.Sublist.cons₂
              rw [hsplit, hdw]
              apply List.Sublist.trans _ (List.sublist_append_right _ _)
              apply List.Sublist.cons₂
              exact List.singleton_sublist.2 hz
            have := hnr x y0 z hsub (by rw [hx0, hze])
            rw [hx0] at this
            exact hy0' this
      have hGstep : ∀ y ∈ L'.takeWhile p, GroupOK rfc e0 y := by
        intro y hy
        obtain ⟨e, he, _, _, _, _, hg⟩ := hL y (List.mem_cons_of_mem _ (mem_takeWhile_pos p L' y hy).2)
        have : e = e0 := by
          have := hG y hy
          rw [he] at this
          exact Option.some.inj this
        subst this
        exact hg
      have hGsteps : ∀ y ∈ x :: L'.takeWhile p, IsStep e0 y := by
        intro y hy
        rcases List.mem_cons.1 hy with hy | hy
        · subst hy; obtain ⟨e', rest, h, _⟩ := hg0; exact ⟨e', rest, h⟩
        · obtain ⟨e', rest, h, _⟩ := hGstep y hy; exact ⟨e', rest, h⟩
      -- the path/values through e0 are exactly x and the group
      have hsub0 : sub (x :: L') e0 = tails (x :: L'.takeWhile p) := by
        have : x :: L' = (x :: L'.takeWhile p) ++ L'.dropWhile p := by
          rw [List.cons_append, ← hsplit]
        rw [this, sub_append, sub_of_steps e0 _ hGsteps, sub_of_others e0 _ hR, List.append_nil]
      obtain ⟨itF, hitF⟩ := hchild e0 ⟨x, List.mem_cons_self, hx0⟩
      rw [hsub0] at hitF
      obtain ⟨e', rest, hxp, hlp, hh⟩ := hg0
      obtain ⟨xp, xv⟩ := x
      simp only at hxp hlp hh
      subst hxp
      simp only [tails, List.filterMap_cons, tailOf, addAllE] at hitF
      cases h1 : addElems rfc ord (e' :: rest) xv (keyObj e0.keys) with
      | error err => rw [h1] at hitF; simp at hitF
      | ok it1 =>
        rw [h1] at hitF
        simp only at hitF
        have hf1 : FullMatch e0.keys it1 :=
          addElems_fullMatch rfc ord e0.keys hs0 (e' :: rest, xv) _ it1 hlp (by simp) hh
            (fullMatch_keyObj e0.keys hs0) h1
        have hkf : e0.keys.isEmpty = false := by
          cases hke : e0.keys with
          | nil => exact absurd hke hk0
          | cons _ _ => rfl
        have hstep : memberStep rfc ord (e0 :: e' :: rest, xv) (some (.arr items0)) =
            .ok (some (.arr (items0 ++ [it1]))) := by
          simp only [memberStep, hkf, Bool.false_eq_true, if_false, sliceOf]
          rw [listStep_new e0.keys (ord e0.keys) items0 _ _ hk0
            (fun it hit => clashes_perm e0.keys (ord e0.keys) it (hord e0.keys)
              (hclash it hit _ List.mem_cons_self e0 hx0))]
          simp only [h1]
        obtain ⟨hgf, hfF⟩ := memberFold_group rfc ord e0 hk0 hs0 (hord e0.keys) items0 hobjs
          (L'.takeWhile p) it1 itF hGstep hf1 hitF
        -- the rest
        have hRlen : (L'.dropWhile p).length ≤ len := by
          have : (L'.dropWhile p).length ≤ L'.length := (List.dropWhile_sublist p).length_le
          simp only [List.length_cons] at hlen
          omega
        have hRsubl : (L'.dropWhile p).Sublist ((e0 :: e' :: rest, xv) :: L') :=
          (List.dropWhile_sublist p).trans (List.sublist_cons_self _ _)
        have hRmem : ∀ y, y ∈ L'.dropWhile p → y ∈ (e0 :: e' :: rest, xv) :: L' := fun y hy => hRsubl.subset hy
        have hFobj : ∃ mi, itF = Json.obj mi := by obtain ⟨mi, hm, _⟩ := hfF; exact ⟨mi, hm⟩
        have hsubR : ∀ e, e ≠ e0 → sub ((e0 :: e' :: rest, xv) :: L') e = sub (L'.dropWhile p) e := by
          intro e hne
          have : (e0 :: e' :: rest, xv) :: L' = ((e0 :: e' :: rest, xv) :: L'.takeWhile p) ++ L'.dropWhile p := by
            rw [List.cons_append, ← hsplit]
          rw [this, sub_append]
          have : sub ((e0 :: e' :: rest, xv) :: L'.takeWhile p) e = [] := by
            apply sub_of_others
            intro y hy hye
            obtain ⟨a, b, hyy⟩ := hGsteps y hy
            simp only [headOf, hyy, List.head?_cons, Option.some.injEq] at hye
            exact hne hye.symm
          rw [this, List.nil_append]
        obtain ⟨hsR, itemsR, hfR, hndR, hmemR, hallR⟩ := ih (L'.dropWhile p) (items0 ++ [itF]) hRlen
          (fun y hy => hL y (hRmem y hy)) (hnr.sublist hRsubl)
          (by
            intro it hit
            rcases List.mem_append.1 hit with h | h
            · exact hobjs it h
            · simp only [List.mem_singleton] at h; subst h; exact hFobj)
          (by
            intro it hit y hy e hye
            rcases List.mem_append.1 hit with h | h
            · exact hclash it h y (hRmem y hy) e hye
            · simp only [List.mem_singleton] at h
              subst h
              obtain ⟨e2, he2, hn2, hk2, hkn2, _, _⟩ := hL y (hRmem y hy)
              rw [hye] at he2
              have := Option.some.inj he2
              subst this
              have hne : e ≠ e0 := fun h => hR y hy (by rw [hye, h])
              have hkne : e.keys ≠ e0.keys := by
                intro hke
                apply hne
                cases e; cases e0
                simp only at hn2 hn0 hke
                subst hke
                rw [hn2, hn0]
              exact fullMatch_clashes e.keys e0.keys it (by rw [hkn2, hkn0]) hkne hfF)
          (by
            intro e ⟨y, hy, hye⟩
            have hne : e ≠ e0 := fun h => hR y hy (by rw [hye, h])
            obtain ⟨it, hit⟩ := hchild e ⟨y, hRmem y hy, hye⟩
            rw [hsubR e hne] at hit
            exact ⟨it, hit⟩)
        refine ⟨e0 :: hsR, itF :: itemsR, ?_, ?_, ?_, ?_⟩
        · have : (e0 :: e' :: rest, xv) :: L' = [(e0 :: e' :: rest, xv)] ++ (L'.takeWhile p ++ L'.dropWhile p) := by
            rw [← hsplit]; rfl
          rw [this, memberFold_append]
          simp only [memberFold, hstep, upd]
          rw [memberFold_append, hgf]
          simp only [hfR]
          simp
        · refine List.nodup_cons.2 ⟨?_, hndR⟩
          intro hmem
          obtain ⟨y, hy, hye⟩ := (hmemR e0).1 hmem
          exact hR y hy hye
        · intro e
          constructor
          · intro he
            rcases List.mem_cons.1 he with he | he
            · subst he; exact ⟨_, List.mem_cons_self, hx0⟩
            · obtain ⟨y, hy, hye⟩ := (hmemR e).1 he
              exact ⟨y, hRmem y hy, hye⟩
          · rintro ⟨y, hy, hye⟩
            by_cases hee : e = e0
            · subst hee; exact List.mem_cons_self
            · apply List.mem_cons_of_mem
              apply (hmemR e).2
              rcases List.mem_cons.1 hy with hy | hy
              · subst hy
                simp only [headOf, List.head?_cons, Option.some.injEq] at hye
                exact absurd hye.symm hee
              · rw [hsplit] at hy
                rcases List.mem_append.1 hy with hy | hy
                · have := hG y hy
                  rw [hye] at this
                  exact absurd (Option.some.inj this) hee
                · exact ⟨y, hy, hye⟩
        · refine Forall2.cons ⟨⟨_, List.mem_cons_self, hx0⟩, hfF, ?_⟩ ?_
          · obtain ⟨it, hit⟩ := hchild e0 ⟨_, List.mem_cons_self, hx0⟩
            rw [hsub0] at hit ⊢
            simp only [tails, List.filterMap_cons, tailOf, addAllE, h1]
            exact hitF
          · refine Forall2.imp ?_ hallR
            intro e it ⟨⟨y, hy, hye⟩, hf, hadd⟩
            have hne : e ≠ e0 := fun h => hR y hy (by rw [hye, h])
            exact ⟨⟨y, hRmem y hy, hye⟩, hf, by rw [hsubR e hne]; exact hadd⟩

end OnosVerif.Tree
