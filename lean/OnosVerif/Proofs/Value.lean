/- Helper lemmas for the C17 theorems (OnosVerif/Props/C17.lean). -/
import OnosVerif.Value.Model
import OnosVerif.Value.WF

namespace OnosVerif.Value

/-! ### big-endian magnitudes: `SetBytes (Bytes n) = n` -/

theorem natToBEAux_acc (fuel n : Nat) (acc : Bytes) :
    natToBEAux fuel n acc = natToBEAux fuel n [] ++ acc := by
  induction fuel generalizing n acc with
  | zero => simp [natToBEAux]
  | succ f ih =>
    simp only [natToBEAux]
    split
    · simp
    · rw [ih (n / 256) (_ :: acc), ih (n / 256) [_]]
      simp

/-- any amount of fuel ≥ `n` gives the same digits. -/
theorem natToBEAux_fuel (n : Nat) : ∀ (f : Nat) (acc : Bytes), n ≤ f → natToBEAux f n acc = natToBEAux n n acc := by
  induction n using Nat.strongRecOn with
  | _ n ih =>
    intro f acc hf
    cases n with
    | zero => cases f <;> simp [natToBEAux]
    | succ n' =>
      cases f with
      | zero => omega
      | succ f' =>
        simp only [natToBEAux, Nat.succ_ne_zero, if_false]
        have hlt : (n' + 1) / 256 < n' + 1 := Nat.div_lt_self (by omega) (by omega)
        rw [ih _ hlt f' _ (by omega), ih _ hlt n' _ (by omega)]

theorem natToBE_zero : natToBE 0 = [] := by simp [natToBE, natToBEAux]

theorem natToBE_pos (n : Nat) (h : 0 < n) :
    natToBE n = natToBE (n / 256) ++ [UInt8.ofNat (n % 256)] := by
  cases n with
  | zero => omega
  | succ n' =>
    have hlt : (n' + 1) / 256 < n' + 1 := Nat.div_lt_self (by omega) (by omega)
    simp only [natToBE, natToBEAux, Nat.succ_ne_zero, if_false]
    rw [natToBEAux_acc, natToBEAux_fuel _ n' [] (by omega)]

theorem natOfBE_append_single (xs : Bytes) (b : UInt8) : natOfBE (xs ++ [b]) = natOfBE xs * 256 + b.toNat := by
  simp [natOfBE, List.foldl_append]

theorem natOfBE_natToBE (n : Nat) : natOfBE (natToBE n) = n := by
  induction n using Nat.strongRecOn with
  | _ n ih =>
    by_cases h : n = 0
    · subst h; simp [natToBE_zero, natOfBE]
    · have hpos : 0 < n := Nat.pos_of_ne_zero h
      rw [natToBE_pos n hpos, natOfBE_append_single, ih (n / 256) (Nat.div_lt_self hpos (by omega))]
      simp
      omega

/-! ### fixed-width integers -/

theorem isInt64_iff (i : Int) : isInt64 i = true ↔ -9223372036854775808 ≤ i ∧ i < 9223372036854775808 := by
  simp [isInt64]

theorem wrapI64_of_isInt64 (i : Int) (h : isInt64 i = true) : wrapI64 i = i := by
  have h := (isInt64_iff i).mp h
  simp only [wrapI64]
  split <;> omega

theorem wrapI32_of_range (i : Int) (h1 : -2147483648 ≤ i) (h2 : i < 2147483648) : wrapI32 i = i := by
  simp only [wrapI32]
  split <;> omega

theorem bigInt64_false (m : Nat) : bigInt64 false m = wrapI64 ((m % two64 : Nat) : Int) := rfl

theorem bigInt64_true (m : Nat) : bigInt64 true m = wrapI64 (-wrapI64 ((m % two64 : Nat) : Int)) := rfl

/-- `Int64()` of the sign and magnitude of an int64 is that int64 (including -2^63, whose
    magnitude does not fit an int64). -/
theorem bigInt64_of_int64 (i : Int) (h : isInt64 i = true) :
    bigInt64 (decide (i < 0)) i.natAbs = i := by
  have h := (isInt64_iff i).mp h
  have hm : ((i.natAbs % two64 : Nat) : Int) = (i.natAbs : Int) := by
    simp only [two64]; omega
  by_cases hneg : i < 0
  · simp only [hneg, decide_true, bigInt64_true, hm]
    have h1 : wrapI64 (i.natAbs : Int) = if i = -9223372036854775808 then i else -i := by
      simp only [wrapI64]; split <;> split <;> omega
    rw [h1]
    simp only [wrapI64]
    split <;> split <;> omega
  · have h1 : wrapI64 (i.natAbs : Int) = i := by
      simp only [wrapI64]; split <;> omega
    simp only [hneg, decide_false, bigInt64_false, hm, h1]

theorem bigUint64_of_uint64 (n : Nat) (h : isUint64 n = true) : bigUint64 n = n := by
  simp only [isUint64, decide_eq_true_eq] at h
  simp only [bigUint64]
  exact Nat.mod_eq_of_lt h

/-! ### scalar accessors undo the scalar constructors -/

theorem negFlag_eq_one (v : Int) : (negFlag v == 1) = decide (v < 0) := by
  simp only [negFlag]; split <;> simp [*]

theorem tvInt_newInt (v w : Int) (h : isInt64 v = true) : tvInt (newInt v w) = v := by
  have h1 : (some (negFlag v) == some 1) = decide (v < 0) := by
    simp only [negFlag]; split <;> simp [*]
  simp only [tvInt, newInt, natOfBE_natToBE, List.length_cons, List.length_nil, List.getElem?_cons_succ,
    List.getElem?_cons_zero, h1]
  simpa using bigInt64_of_int64 v h

theorem tvUint_newUint (v : Nat) (w : Int) (h : isUint64 v = true) : tvUint (newUint v w) = v := by
  simp only [tvUint, newUint, natOfBE_natToBE]
  exact bigUint64_of_uint64 v h

theorem tvBool_newBool (b : Bool) : tvBool (newBool b) = .ok b := by
  cases b <;> simp [tvBool, newBool]

theorem tvDecimal_newDecimal (d : Int) (p : Nat) (hd : isInt64 d = true) (hp : p < 256) :
    tvDecimal (newDecimal d p) = (d, p) := by
  have hd' := (isInt64_iff d).mp hd
  have hm : ((d.natAbs % two64 : Nat) : Int) = (d.natAbs : Int) := by
    simp only [two64]; omega
  have hp' : ((p : Int) % 256).toNat = p := by omega
  simp only [tvDecimal, newDecimal, natOfBE_natToBE, List.head?_cons, bigInt64_false, hm, hp']
  congr 1
  by_cases hneg : d < 0
  · have h1 : (some (negFlag d) == some 1) = true := by simp [negFlag, hneg]
    have h2 : wrapI64 (d.natAbs : Int) = if d = -9223372036854775808 then d else -d := by
      simp only [wrapI64]; split <;> split <;> omega
    simp only [h1, if_true, h2]
    simp only [wrapI64]
    split <;> split <;> omega
  · have h1 : (some (negFlag d) == some 1) = false := by simp [negFlag, hneg]
    have h2 : wrapI64 (d.natAbs : Int) = d := by
      simp only [wrapI64]; split <;> omega
    simp only [h1, h2, Bool.false_eq_true, if_false, Int.mul_one]
    exact wrapI64_of_isInt64 d hd

/-! ### slices -/

theorem slice_mid (pre mid post : Bytes) :
    slice (pre ++ mid ++ post) (pre.length : Int) ((pre.length : Int) + (mid.length : Int)) = .ok mid := by
  have h1 : ¬((pre.length : Int) < 0 ∨ (pre.length : Int) + (mid.length : Int) < (pre.length : Int) ∨
      (((pre ++ mid ++ post).length : Nat) : Int) < (pre.length : Int) + (mid.length : Int)) := by
    simp only [List.length_append]; omega
  have h2 : ((pre.length : Int) + (mid.length : Int)).toNat - (pre.length : Int).toNat = mid.length := by omega
  have h3 : (pre.length : Int).toNat = pre.length := by omega
  unfold slice
  rw [if_neg h1, h2, h3, List.append_assoc, List.drop_left, List.take_left]

/-! ### signed leaf-lists (int, decimal digits) -/

abbrev encSigned : Int → Bytes := fun v => natToBE v.natAbs
abbrev optsSigned : Int → List Int := fun v => [((natToBE v.natAbs).length : Int), negFlag v]

theorem negFlag_ne_zero (v : Int) : (negFlag v != 0) = decide (v < 0) := by
  simp only [negFlag]; split <;> simp [*]

theorem llSignedLoop_enc (pre : Bytes) (vs : List Int) (h : ∀ v ∈ vs, isInt64 v = true) :
    llSignedLoop (pre ++ vs.flatMap encSigned) (pre.length : Int) (vs.flatMap optsSigned) = .ok vs := by
  induction vs generalizing pre with
  | nil => simp [llSignedLoop]
  | cons v vs ih =>
    have hv : isInt64 v = true := h v List.mem_cons_self
    have hvs : ∀ v' ∈ vs, isInt64 v' = true := fun v' hv' => h v' (List.mem_cons_of_mem _ hv')
    have hs := slice_mid pre (encSigned v) (vs.flatMap encSigned)
    have hrec := ih (pre ++ encSigned v) hvs
    simp only [List.length_append, Int.natCast_add] at hrec
    simp only [List.flatMap_cons, List.cons_append, List.nil_append, llSignedLoop]
    simp only [List.append_assoc] at hs hrec ⊢
    rw [hs, hrec]
    simp only [negFlag_ne_zero, natOfBE_natToBE, bigInt64_of_int64 v hv]

theorem tvLLInt_newLLInt (vs : List Int) (w : Int) (h : ∀ v ∈ vs, isInt64 v = true) :
    tvLLInt (newLLInt vs w) = .ok (vs, wrapI32 w) := by
  have := llSignedLoop_enc [] vs h
  simp only [List.nil_append, List.length_nil, Int.natCast_zero] at this
  simp only [tvLLInt, newLLInt]
  rw [this]

theorem tvLLDecimal_newLLDecimal (ds : List Int) (p : Nat) (h : ∀ v ∈ ds, isInt64 v = true) (hp : p < 256) :
    tvLLDecimal (newLLDecimal ds p) = .ok (ds, p) := by
  have := llSignedLoop_enc [] ds h
  simp only [List.nil_append, List.length_nil, Int.natCast_zero] at this
  have hp' : ((p : Int) % 256).toNat = p := by omega
  simp only [tvLLDecimal, newLLDecimal]
  rw [this, hp']

/-! ### unsigned leaf-lists -/

theorem llUnsignedLoop_enc (pre : Bytes) (vs : List Nat) (h : ∀ v ∈ vs, isUint64 v = true) :
    llUnsignedLoop (pre ++ vs.flatMap natToBE) (pre.length : Int)
      (vs.map fun v => ((natToBE v).length : Int)) = .ok vs := by
  induction vs generalizing pre with
  | nil => simp [llUnsignedLoop]
  | cons v vs ih =>
    have hv : isUint64 v = true := h v List.mem_cons_self
    have hvs : ∀ v' ∈ vs, isUint64 v' = true := fun v' hv' => h v' (List.mem_cons_of_mem _ hv')
    have hs := slice_mid pre (natToBE v) (vs.flatMap natToBE)
    have hrec := ih (pre ++ natToBE v) hvs
    simp only [List.length_append, Int.natCast_add] at hrec
    simp only [List.flatMap_cons, List.map_cons, llUnsignedLoop]
    simp only [List.append_assoc] at hs hrec ⊢
    rw [hs, hrec]
    simp only [natOfBE_natToBE, bigUint64_of_uint64 v hv]

theorem tvLLUint_newLLUint (vs : List Nat) (w : Int) (h : ∀ v ∈ vs, isUint64 v = true) :
    tvLLUint (newLLUint vs w) = .ok (vs, wrapI32 w) := by
  have := llUnsignedLoop_enc [] vs h
  simp only [List.nil_append, List.length_nil, Int.natCast_zero] at this
  simp only [tvLLUint, newLLUint]
  rw [this]

/-! ### bool leaf-lists -/

theorem tvLLBool_newLLBool (vs : List Bool) : tvLLBool (newLLBool vs) = vs := by
  simp only [tvLLBool, newLLBool, List.map_map]
  induction vs with
  | nil => rfl
  | cons b bs ih => cases b <;> simp_all

/-! ### string leaf-lists: 0x1D-separated -/

theorem splitGS_plain (s rest buf : Bytes) (h : s.all (fun b => b ≠ 0x1D) = true) :
    splitGS (s ++ rest) buf = splitGS rest (buf ++ s) := by
  induction s generalizing buf with
  | nil => simp
  | cons b bs ih =>
    simp only [List.all_cons, Bool.and_eq_true, decide_eq_true_eq] at h
    simp only [List.cons_append, splitGS, h.1, ne_eq, not_false_eq_true, if_true]
    rw [ih _ h.2]
    simp

theorem splitGS_joinGS (vs : List Bytes) (hne : vs ≠ []) (h : no1D vs = true) :
    splitGS (joinGS vs) [] = vs := by
  induction vs with
  | nil => exact absurd rfl hne
  | cons s rest ih =>
    simp only [no1D, List.all_cons, Bool.and_eq_true] at h
    cases rest with
    | nil =>
      have := splitGS_plain s [] [] h.1
      simp only [List.append_nil, List.nil_append] at this
      simp only [joinGS, this, splitGS]
    | cons t r =>
      have hrest : no1D (t :: r) = true := by simp only [no1D]; exact h.2
      have := splitGS_plain s (0x1D :: joinGS (t :: r)) [] h.1
      simp only [List.nil_append] at this
      simp only [joinGS, this, splitGS, ne_eq, not_true_eq_false, if_false]
      rw [ih (by simp) hrest]

/-! ### bytes leaf-lists: length-prefixed members, one boundary test per byte -/

theorem getElem?_of_drop_eq_cons {α : Type} (l : List α) (n : Nat) (x : α) (xs : List α)
    (h : l.drop n = x :: xs) : l[n]? = some x ∧ l.drop (n + 1) = xs := by
  constructor
  · have : (l.drop n)[0]? = l[n]? := by simp
    rw [← this, h]; rfl
  · have : (l.drop n).tail = l.drop (n + 1) := by simp
    rw [← this, h]; rfl

/-- With every member non-empty the decoder of `TypedLeafListBytes.List()` closes a member
    exactly when the first byte of the next one arrives. -/
theorem llBytesLoop_members (opts : List Int) (t : List Bytes) :
    ∀ (c rem buf : Bytes) (acc : List Bytes) (i idx : Nat) (startAt : Int),
      opts.drop idx = (c :: t).map (fun v => (v.length : Int)) →
      buf ++ rem = c → c ≠ [] → (∀ v ∈ t, v ≠ []) →
      (i : Int) - startAt = (buf.length : Int) →
      llBytesLoop opts i idx startAt buf acc (rem ++ t.flatten) = .ok (acc ++ c :: t) := by
  induction t with
  | nil =>
    intro c rem
    induction rem with
    | nil =>
      intro buf acc i idx startAt _ hb _ _ _
      simp only [List.append_nil] at hb
      simp [llBytesLoop, hb]
    | cons b r ihr =>
      intro buf acc i idx startAt hopts hb hc ht hi
      have ho := (getElem?_of_drop_eq_cons opts idx _ _ hopts).1
      have hlen : (c.length : Int) = buf.length + (r.length + 1) := by
        rw [← hb]; simp only [List.length_append, List.length_cons]; omega
      have hne : ¬((i : Int) - startAt = (c.length : Int)) := by omega
      simp only [List.flatten_nil, List.append_nil, llBytesLoop, ho, hne, if_false]
      have := ihr (buf ++ [b]) acc (i + 1) idx startAt hopts (by simp [← hb]) hc ht
        (by simp only [List.length_append, List.length_cons, List.length_nil]; omega)
      simpa using this
  | cons n t' iht =>
    intro c rem
    induction rem with
    | nil =>
      intro buf acc i idx startAt hopts hb hc ht hi
      simp only [List.append_nil] at hb
      subst hb
      have hn : n ≠ [] := ht n List.mem_cons_self
      have ht' : ∀ v ∈ t', v ≠ [] := fun v hv => ht v (List.mem_cons_of_mem _ hv)
      obtain ⟨ho, hdrop⟩ := getElem?_of_drop_eq_cons opts idx _ _ hopts
      cases n with
      | nil => exact absurd rfl hn
      | cons b n' =>
        have heq : (i : Int) - startAt = (buf.length : Int) := hi
        simp only [List.nil_append, List.flatten_cons, List.cons_append, llBytesLoop, ho, heq, if_true]
        have := iht (b :: n') n' [b] (acc ++ [buf]) (i + 1) (idx + 1) (startAt + (buf.length : Int))
          (by simpa using hdrop) (by simp) (by simp) ht'
          (by simp only [List.length_cons, List.length_nil]; omega)
        simpa using this
    | cons b r ihr =>
      intro buf acc i idx startAt hopts hb hc ht hi
      have ho := (getElem?_of_drop_eq_cons opts idx _ _ hopts).1
      have hlen : (c.length : Int) = buf.length + (r.length + 1) := by
        rw [← hb]; simp only [List.length_append, List.length_cons]; omega
      have hne : ¬((i : Int) - startAt = (c.length : Int)) := by omega
      simp only [List.cons_append, llBytesLoop, ho, hne, if_false]
      have := ihr (buf ++ [b]) acc (i + 1) idx startAt hopts (by simp [← hb]) hc ht
        (by simp only [List.length_append, List.length_cons, List.length_nil]; omega)
      simpa using this

theorem tvLLBytes_newLLBytes (vs : List Bytes) (hne : vs ≠ []) (h : noEmptyMember vs = true)
    (hlen : ∀ v ∈ vs, v.length < 2147483648) :
    tvLLBytes (newLLBytes vs) = .ok vs := by
  have hopts : (vs.map fun v => wrapI32 (v.length : Int)) = vs.map fun v => (v.length : Int) := by
    apply List.map_congr_left
    intro v hv
    exact wrapI32_of_range _ (by omega) (by have := hlen v hv; omega)
  cases vs with
  | nil => exact absurd rfl hne
  | cons c t =>
    simp only [noEmptyMember, List.all_cons, Bool.and_eq_true, Bool.not_eq_true', List.isEmpty_eq_false_iff,
      List.all_eq_true] at h
    have := llBytesLoop_members ((c :: t).map fun v => (v.length : Int)) t c c [] [] 0 0 0
      (by simp) (by simp) h.1 (fun v hv => h.2 v hv) (by simp)
    simp only [tvLLBytes, newLLBytes, hopts]
    simpa using this

/-! ### the regenerated facts, as the twin reads them

If the Go sources change one of these decision structures, the corresponding lemma stops
checking and names what changed. -/

/-- `handleLeafList` tests its lists in the order string, int, uint, bool, bytes, decimal, float
    and builds the leaf-list of the list it tested. -/
theorem fact_leafListChain :
    leafListChain = some [(.strs, .strs), (.ints, .ints), (.uints, .uints), (.bools, .bools),
      (.bytess, .bytess), (.digits, .digits), (.floats, .floats)] := by decide

/-- without type options an int, a uint and a leaf-list are given width 32. -/
theorem fact_defaultWidth :
    defaultWidth "intWidth" = 32 ∧ defaultWidth "uintWidth" = 32 ∧ defaultWidth "width" = 32 := by decide

/-- `handleLeafValue` writes an int, a uint and their leaf-lists as strings when `width > 32`. -/
theorem fact_wideCfg :
    wideCfg "INT" = some (.gt, 32) ∧ wideCfg "UINT" = some (.gt, 32) ∧
    wideCfg "LEAFLIST_INT" = some (.gt, 32) ∧ wideCfg "LEAFLIST_UINT" = some (.gt, 32) := by decide

/-- a DecimalVal is refused exactly when its precision exceeds 18. -/
theorem fact_precisionRefused (p : Nat) : precisionRefused p = decide (p > 18) := by
  have : Generated.maxDecimalPrecisionV2 = some 18 := by decide
  simp [precisionRefused, this]

/-- a FloatVal NaN is refused with an error (no panic). -/
theorem fact_nanFailure : nanFailure = .floatNaN := by decide

theorem isWide_int (w : Int) : isWide "INT" w = decide (w > 32) := by
  simp [isWide, fact_wideCfg.1, CmpOp.eval]

theorem isWide_uint (w : Int) : isWide "UINT" w = decide (w > 32) := by
  simp [isWide, fact_wideCfg.2.1, CmpOp.eval]

theorem isWide_llint (w : Int) : isWide "LEAFLIST_INT" w = decide (w > 32) := by
  simp [isWide, fact_wideCfg.2.2.1, CmpOp.eval]

theorem isWide_lluint (w : Int) : isWide "LEAFLIST_UINT" w = decide (w > 32) := by
  simp [isWide, fact_wideCfg.2.2.2, CmpOp.eval]

/-! ### handleLeafList on homogeneous lists -/

/-- a string member as the client sent it: `StringVal` or `AsciiVal`. -/
def strScalar (a : Bool × Bytes) : Scalar := if a.1 then .ascii a.2 else .str a.2

theorem llCollect_strs (acc : LLAcc) (xs : List (Bool × Bytes)) :
    llCollect acc (xs.map strScalar) = .ok { acc with strs := acc.strs ++ xs.map (·.2) } := by
  induction xs generalizing acc with
  | nil => simp [llCollect]
  | cons x xs ih =>
    obtain ⟨a, b⟩ := x
    cases a <;> simp [strScalar, llCollect, ih]

theorem llCollect_ints (acc : LLAcc) (xs : List Int) :
    llCollect acc (xs.map .int) = .ok { acc with ints := acc.ints ++ xs } := by
  induction xs generalizing acc with
  | nil => simp [llCollect]
  | cons x xs ih => simp [llCollect, ih]

theorem llCollect_uints (acc : LLAcc) (xs : List Nat) :
    llCollect acc (xs.map .uint) = .ok { acc with uints := acc.uints ++ xs } := by
  induction xs generalizing acc with
  | nil => simp [llCollect]
  | cons x xs ih => simp [llCollect, ih]

theorem llCollect_bools (acc : LLAcc) (xs : List Bool) :
    llCollect acc (xs.map .bool) = .ok { acc with bools := acc.bools ++ xs } := by
  induction xs generalizing acc with
  | nil => simp [llCollect]
  | cons x xs ih => simp [llCollect, ih]

theorem llCollect_bytess (acc : LLAcc) (xs : List Bytes) :
    llCollect acc (xs.map .bytes) = .ok { acc with bytess := acc.bytess ++ xs } := by
  induction xs generalizing acc with
  | nil => simp [llCollect]
  | cons x xs ih => simp [llCollect, ih]

theorem llCollect_floats (acc : LLAcc) (xs : List Nat) :
    llCollect acc (xs.map .float) = .ok { acc with floats := acc.floats ++ xs } := by
  induction xs generalizing acc with
  | nil => simp [llCollect]
  | cons x xs ih => simp [llCollect, ih]

theorem llCollect_decs (acc : LLAcc) (xs : List Int) (p : Nat) (hne : xs ≠ []) (hp : p ≤ 18) :
    llCollect acc (xs.map fun d => .dec d p) =
      .ok { acc with digits := acc.digits ++ xs, precision := p % 256 } := by
  have hr : precisionRefused p = false := by rw [fact_precisionRefused]; simp; omega
  induction xs generalizing acc with
  | nil => exact absurd rfl hne
  | cons x xs ih =>
    cases xs with
    | nil => simp [llCollect, hr]
    | cons y ys =>
      have := ih { acc with digits := acc.digits ++ [x], precision := p % 256 } (by simp)
      simp only [List.map_cons, llCollect, hr, Bool.false_eq_true, if_false] at this ⊢
      rw [this]
      simp

theorem length_pos_of_ne_nil {α : Type} (l : List α) (h : l ≠ []) : l.length > 0 :=
  List.length_pos_iff.mpr h

/-- the width `handleLeafList` passes on. -/
def llWidth (typeOpt0 : Nat) : Int := if typeOpt0 > 0 then (typeOpt0 : Int) else 32

theorem handleLeafList_strs (xs : List (Bool × Bytes)) (t0 : Nat) (hne : xs ≠ []) :
    handleLeafList (xs.map strScalar) t0 = .ok (newLLString (xs.map (·.2))) := by
  have h : (xs.map (·.2)).length > 0 := by simpa using length_pos_of_ne_nil xs hne
  simp [handleLeafList, llCollect_strs, fact_leafListChain, llChain, llNonEmpty, llBuild, hne]

theorem handleLeafList_ints (xs : List Int) (t0 : Nat) (hne : xs ≠ []) :
    handleLeafList (xs.map .int) t0 = .ok (newLLInt xs (llWidth t0)) := by
  have h := length_pos_of_ne_nil xs hne
  simp [handleLeafList, llCollect_ints, fact_leafListChain, llChain, llNonEmpty, llBuild, fact_defaultWidth, h, llWidth]

theorem handleLeafList_uints (xs : List Nat) (t0 : Nat) (hne : xs ≠ []) :
    handleLeafList (xs.map .uint) t0 = .ok (newLLUint xs (llWidth t0)) := by
  have h := length_pos_of_ne_nil xs hne
  simp [handleLeafList, llCollect_uints, fact_leafListChain, llChain, llNonEmpty, llBuild, fact_defaultWidth, h, llWidth]

theorem handleLeafList_bools (xs : List Bool) (t0 : Nat) (hne : xs ≠ []) :
    handleLeafList (xs.map .bool) t0 = .ok (newLLBool xs) := by
  have h := length_pos_of_ne_nil xs hne
  simp [handleLeafList, llCollect_bools, fact_leafListChain, llChain, llNonEmpty, llBuild, h]

theorem handleLeafList_bytess (xs : List Bytes) (t0 : Nat) (hne : xs ≠ []) :
    handleLeafList (xs.map .bytes) t0 = .ok (newLLBytes xs) := by
  have h := length_pos_of_ne_nil xs hne
  simp [handleLeafList, llCollect_bytess, fact_leafListChain, llChain, llNonEmpty, llBuild, h]

theorem handleLeafList_decs (xs : List Int) (p t0 : Nat) (hne : xs ≠ []) (hp : p ≤ 18) :
    handleLeafList (xs.map fun d => .dec d p) t0 = .ok (newLLDecimal xs (p % 256)) := by
  have h := length_pos_of_ne_nil xs hne
  simp [handleLeafList, llCollect_decs _ xs p hne hp, fact_leafListChain, llChain, llNonEmpty, llBuild, h]

theorem handleLeafList_floats (xs : List Nat) (t0 : Nat) (hne : xs ≠ []) :
    handleLeafList (xs.map .float) t0 = .ok (newLLFloat xs) := by
  have h := length_pos_of_ne_nil xs hne
  simp [handleLeafList, llCollect_floats, fact_leafListChain, llChain, llNonEmpty, llBuild, h]

theorem widthOf_of_widthOK (d : String) (hd : defaultWidth d = 32) (opts : List Nat) (hw : widthOK opts = true) :
    wrapI32 (widthOf d opts) = (modelWidth opts : Int) := by
  cases opts with
  | nil => simp only [widthOf, modelWidth, List.headD_nil, hd]; exact wrapI32_of_range _ (by omega) (by omega)
  | cons w r =>
    simp only [widthOK, Bool.or_eq_true, decide_eq_true_eq] at hw
    simp only [widthOf, modelWidth, List.headD_cons]
    have h1 : wrapI64 (w : Int) = (w : Int) := by
      apply wrapI64_of_isInt64; rw [isInt64_iff]; omega
    rw [h1]; exact wrapI32_of_range _ (by omega) (by omega)

theorem llWidth_of_widthOK (opts : List Nat) (h : widthOK opts = true) :
    wrapI32 (llWidth (opts.headD 0 % 256)) = (modelWidth opts : Int) := by
  cases opts with
  | nil => simp only [List.headD_nil, llWidth, modelWidth]; exact wrapI32_of_range _ (by omega) (by omega)
  | cons w r =>
    simp only [widthOK, Bool.or_eq_true, decide_eq_true_eq] at h
    have hmod : w % 256 = w := by omega
    have hw : w > 0 := by omega
    simp only [List.headD_cons, llWidth, modelWidth, hmod, hw, if_true]
    exact wrapI32_of_range _ (by omega) (by omega)

/-! ### homogeneous lists are images of their member lists -/

theorem collectStrs_spec : ∀ (es : List Scalar) (xs : List (Bool × Bytes)),
    collectStrs es = some xs → es = xs.map strScalar ∧ es.map norm = (xs.map (·.2)).map .str := by
  intro es
  induction es with
  | nil => intro xs h; simp [collectStrs] at h; subst h; simp
  | cons e r ih =>
    intro xs h
    cases e <;> simp only [collectStrs] at h <;> try (exact absurd h (by simp))
    all_goals
      cases hr : collectStrs r with
      | none => simp [hr] at h
      | some ys =>
        simp only [hr, Option.some.injEq] at h
        subst h
        obtain ⟨h1, h2⟩ := ih ys hr
        simp [strScalar, norm, h2, ← h1]

theorem collectInts_spec : ∀ (es : List Scalar) (xs : List Int), collectInts es = some xs → es = xs.map .int := by
  intro es
  induction es with
  | nil => intro xs h; simp [collectInts] at h; subst h; rfl
  | cons e r ih =>
    intro xs h
    cases e <;> simp only [collectInts] at h <;> try (exact absurd h (by simp))
    cases hr : collectInts r with
    | none => simp [hr] at h
    | some ys => simp only [hr, Option.some.injEq] at h; subst h; simp [← ih ys hr]

theorem collectUints_spec : ∀ (es : List Scalar) (xs : List Nat), collectUints es = some xs → es = xs.map .uint := by
  intro es
  induction es with
  | nil => intro xs h; simp [collectUints] at h; subst h; rfl
  | cons e r ih =>
    intro xs h
    cases e <;> simp only [collectUints] at h <;> try (exact absurd h (by simp))
    cases hr : collectUints r with
    | none => simp [hr] at h
    | some ys => simp only [hr, Option.some.injEq] at h; subst h; simp [← ih ys hr]

theorem collectBools_spec : ∀ (es : List Scalar) (xs : List Bool), collectBools es = some xs → es = xs.map .bool := by
  intro es
  induction es with
  | nil => intro xs h; simp [collectBools] at h; subst h; rfl
  | cons e r ih =>
    intro xs h
    cases e <;> simp only [collectBools] at h <;> try (exact absurd h (by simp))
    cases hr : collectBools r with
    | none => simp [hr] at h
    | some ys => simp only [hr, Option.some.injEq] at h; subst h; simp [← ih ys hr]

theorem collectBytess_spec : ∀ (es : List Scalar) (xs : List Bytes), collectBytess es = some xs → es = xs.map .bytes := by
  intro es
  induction es with
  | nil => intro xs h; simp [collectBytess] at h; subst h; rfl
  | cons e r ih =>
    intro xs h
    cases e <;> simp only [collectBytess] at h <;> try (exact absurd h (by simp))
    cases hr : collectBytess r with
    | none => simp [hr] at h
    | some ys => simp only [hr, Option.some.injEq] at h; subst h; simp [← ih ys hr]

theorem collectFloats_spec : ∀ (es : List Scalar) (xs : List Nat), collectFloats es = some xs → es = xs.map .float := by
  intro es
  induction es with
  | nil => intro xs h; simp [collectFloats] at h; subst h; rfl
  | cons e r ih =>
    intro xs h
    cases e <;> simp only [collectFloats] at h <;> try (exact absurd h (by simp))
    cases hr : collectFloats r with
    | none => simp [hr] at h
    | some ys => simp only [hr, Option.some.injEq] at h; subst h; simp [← ih ys hr]

theorem collectDecs_spec (p : Nat) : ∀ (es : List Scalar) (xs : List Int),
    collectDecs p es = some xs → es = xs.map fun d => .dec d p := by
  intro es
  induction es with
  | nil => intro xs h; simp [collectDecs] at h; subst h; rfl
  | cons e r ih =>
    intro xs h
    cases e with
    | dec d q =>
      simp only [collectDecs] at h
      by_cases hq : q = p
      · subst hq
        simp only [if_true] at h
        cases hr : collectDecs q r with
        | none => simp [hr] at h
        | some ys => simp only [hr, Option.some.injEq] at h; subst h; simp [← ih ys hr]
      · simp [hq] at h
    | _ => simp [collectDecs] at h

/-! ### decimal digits: `%d` prints exactly the value's digits -/

theorem toDigits_all_digit (n : Nat) : (Nat.toDigits 10 n).all Char.isDigit = true := by
  simp only [List.all_eq_true]
  intro c hc
  exact Nat.isDigit_of_mem_toDigits (by decide) (by decide) hc

theorem readNat_fmtNat (n : Nat) : readNat (fmtNat n) = some n := by
  have h1 : (Nat.toDigits 10 n).isEmpty = false := by
    cases h : Nat.toDigits 10 n with
    | nil => exact absurd h Nat.toDigits_ne_nil
    | cons _ _ => rfl
  simp [readNat, fmtNat, h1, toDigits_all_digit]

theorem fmtNat_head_ne_minus (n : Nat) : ∀ r, fmtNat n ≠ '-' :: r := by
  intro r h
  have := toDigits_all_digit n
  simp only [fmtNat] at h
  rw [h] at this
  simp [Char.isDigit] at this

/-- reading back the `%d` text of an integer gives that integer. -/
theorem readInt_fmtInt (i : Int) : readInt (fmtInt i) = some i := by
  by_cases h : i < 0
  · have hf : fmtInt i = '-' :: fmtNat i.natAbs := by simp [fmtInt, h]
    have hi : -((i.natAbs : Nat) : Int) = i := by omega
    rw [hf]
    simp only [readInt, readNat_fmtNat, hi]
  · have hf : fmtInt i = fmtNat i.natAbs := by simp [fmtInt, h]
    have hi : ((i.natAbs : Nat) : Int) = i := by omega
    rw [hf]
    cases hd : fmtNat i.natAbs with
    | nil => exact absurd hd (by simp [fmtNat])
    | cons c cs =>
      have hne : c ≠ '-' := by
        intro hc; subst hc; exact fmtNat_head_ne_minus _ _ hd
      have hr := readNat_fmtNat i.natAbs
      rw [hd] at hr
      simp only [readInt]
      split
      · rename_i r heq
        simp only [List.cons.injEq] at heq
        exact absurd heq.1 hne
      · rw [hr]; simp only [hi]

/-! ### the JSON text of digit strings: nothing to escape -/

def plainByte (b : UInt8) : Bool := (48 ≤ b && b ≤ 57) || b = 45 || b = 46

theorem jsonEscAscii_plain_fin : ∀ n : Fin 256, plainByte (UInt8.ofNat n.val) = true →
    UInt8.ofNat n.val < 0x80 ∧ jsonEscAscii (UInt8.ofNat n.val) = [UInt8.ofNat n.val] := by
  decide +kernel

theorem jsonEscAscii_plain (b : UInt8) (h : plainByte b = true) : b < 0x80 ∧ jsonEscAscii b = [b] := by
  have hb : UInt8.ofNat b.toNat = b := by simp
  have := jsonEscAscii_plain_fin ⟨b.toNat, b.toNat_lt⟩
  simp only [hb] at this
  exact this h

theorem jsonEscape_plain (bs : Bytes) (h : bs.all plainByte = true) : jsonEscape bs = bs := by
  simp only [jsonEscape]
  induction bs with
  | nil => simp [jsonEscapeAux]
  | cons b r ih =>
    simp only [List.all_cons, Bool.and_eq_true] at h
    obtain ⟨hlt, h2⟩ := jsonEscAscii_plain b h.1
    simp only [jsonEscapeAux, hlt, if_true, h2, ih h.2, List.cons_append, List.nil_append]

theorem digit_plain (c : Char) (h : c.isDigit = true) : plainByte (UInt8.ofNat c.toNat) = true := by
  simp only [Char.isDigit, Bool.and_eq_true, decide_eq_true_eq] at h
  obtain ⟨h1, h2⟩ := h
  have h1' : '0'.val ≤ c.val := h1
  rw [UInt32.le_iff_toNat_le] at h1' h2
  have h3 : 48 ≤ c.toNat := h1'
  have h4 : c.toNat ≤ 57 := h2
  have : ∀ n : Fin 58, 48 ≤ n.val → plainByte (UInt8.ofNat n.val) = true := by decide
  exact this ⟨c.toNat, by omega⟩ h3

theorem fmtInt_plain (i : Int) : (asciiBytes (fmtInt i)).all plainByte = true := by
  have hd : ∀ n : Nat, (asciiBytes (fmtNat n)).all plainByte = true := by
    intro n
    simp only [asciiBytes, fmtNat, List.all_map, List.all_eq_true, Function.comp]
    intro c hc
    exact digit_plain c (Nat.isDigit_of_mem_toDigits (by decide) (by decide) hc)
  simp only [fmtInt]
  split
  · have : asciiBytes ('-' :: fmtNat i.natAbs) = 45 :: asciiBytes (fmtNat i.natAbs) := rfl
    rw [this, List.all_cons, hd]; decide
  · exact hd _

/-! ### strDecimal64 -/

theorem pow10Wrap_eq (k : Nat) (h : k ≤ 17) : pow10Wrap k = ((10 ^ (k + 1) : Nat) : Int) := by
  induction k with
  | zero => rfl
  | succ k ih =>
    have hk := ih (by omega)
    have hle : 10 ^ (k + 1 + 1) ≤ 10 ^ 18 := Nat.pow_le_pow_right (by decide) (by omega)
    have hval : (10 : Nat) ^ 18 = 1000000000000000000 := by decide
    have hstep : 10 ^ (k + 1 + 1) = 10 ^ (k + 1) * 10 := Nat.pow_succ 10 (k + 1)
    simp only [pow10Wrap, hk]
    generalize 10 ^ (k + 1 + 1) = Y at *
    generalize 10 ^ (k + 1) = X at *
    have : (X : Int) * 10 = (Y : Int) := by omega
    rw [this]
    apply wrapI64_of_isInt64
    rw [isInt64_iff]
    omega

theorem fmt_quot_frac (q r p : Nat) :
    fmtInt (q : Int) ++ '.' :: fmtIntPad0 p (r : Int) =
      Nat.toDigits 10 q ++ '.' :: (List.replicate (p - (Nat.toDigits 10 r).length) '0' ++ Nat.toDigits 10 r) := by
  have h1 : ¬((q : Int) < 0) := by omega
  have h2 : ¬((r : Int) < 0) := by omega
  simp only [fmtInt, fmtIntPad0, fmtNat, h1, h2, if_false, Int.natAbs_natCast]

theorem fmt_quot_frac_neg (q r p : Nat) (hq : 1 ≤ q) :
    fmtInt (-(q : Int)) ++ '.' :: fmtIntPad0 p (r : Int) =
      '-' :: (Nat.toDigits 10 q ++ '.' :: (List.replicate (p - (Nat.toDigits 10 r).length) '0' ++ Nat.toDigits 10 r)) := by
  have h1 : (-(q : Int) < 0) := by omega
  have h2 : ¬((r : Int) < 0) := by omega
  simp only [fmtInt, fmtIntPad0, fmtNat, h1, h2, if_true, if_false, Int.natAbs_natCast, Int.natAbs_neg,
    List.cons_append]

/-- The part of `strDecimal64` that is right: for a decimal64 (precision 0..18) that is not a
    negative fraction above -1, the text is the lexical form `decimalText`. -/
theorem strDecimal64_eq_decimalText (d : Int) (p : Nat) (hd : isInt64 d = true) (hp : p ≤ 18)
    (hs : 0 ≤ d ∨ d ≤ -((10 ^ p : Nat) : Int)) :
    strDecimal64 d p = .ok (decimalText d p) := by
  have hd' := (isInt64_iff d).mp hd
  by_cases hp0 : p = 0
  · subst hp0
    simp only [strDecimal64, if_true, decimalText, fmtInt, fmtNat]
    split <;> simp
  · have hpw := pow10Wrap_eq (p - 1) (by omega)
    have hpp : p - 1 + 1 = p := by omega
    rw [hpp] at hpw
    have hDpos : 0 < 10 ^ p := Nat.pow_pos (by decide)
    have hDle : 10 ^ p ≤ 10 ^ 18 := Nat.pow_le_pow_right (by decide) hp
    have hval : (10 : Nat) ^ 18 = 1000000000000000000 := by decide
    simp only [strDecimal64, hp0, if_false, hpw, decimalText]
    generalize 10 ^ p = D at *
    have hDne : ¬((D : Int) = 0) := by omega
    simp only [hDne, if_false]
    by_cases hneg : d < 0
    · obtain ⟨m, rfl⟩ : ∃ m : Nat, d = -(m : Int) := ⟨d.natAbs, by omega⟩
      have hmD : D ≤ m := by
        cases hs with
        | inl h => omega
        | inr h => omega
      have hq : Int.tdiv (-(m : Int)) (D : Int) = -((m / D : Nat) : Int) := by
        rw [Int.neg_tdiv]; rfl
      have hr : Int.tmod (-(m : Int)) (D : Int) = -((m % D : Nat) : Int) := by
        rw [Int.neg_tmod]; rfl
      have hmod_lt : m % D < D := Nat.mod_lt _ hDpos
      have hdiv_le : m / D ≤ m := Nat.div_le_self _ _
      have hqpos : 1 ≤ m / D := by
        rw [Nat.le_div_iff_mul_le hDpos]; omega
      rw [hq, hr]
      simp only [Int.natAbs_neg, Int.natAbs_natCast, hneg, if_true]
      generalize m / D = q at *
      generalize m % D = r at *
      have hwq : wrapI64 (-(q : Int)) = -(q : Int) := by
        apply wrapI64_of_isInt64; rw [isInt64_iff]; omega
      have hfrac : (if -(r : Int) < 0 then wrapI64 (- -(r : Int)) else -(r : Int)) = (r : Int) := by
        split
        · rw [Int.neg_neg]; apply wrapI64_of_isInt64; rw [isInt64_iff]; omega
        · omega
      rw [hwq, hfrac, fmt_quot_frac_neg _ _ _ hqpos]
      simp
    · obtain ⟨m, rfl⟩ : ∃ m : Nat, d = (m : Int) := ⟨d.natAbs, by omega⟩
      have hq : Int.tdiv (m : Int) (D : Int) = ((m / D : Nat) : Int) := rfl
      have hr : Int.tmod (m : Int) (D : Int) = ((m % D : Nat) : Int) := rfl
      have hdiv_le : m / D ≤ m := Nat.div_le_self _ _
      rw [hq, hr]
      simp only [Int.natAbs_natCast, hneg, if_false]
      generalize m / D = q at *
      generalize m % D = r at *
      have hwq : wrapI64 (q : Int) = (q : Int) := by
        apply wrapI64_of_isInt64; rw [isInt64_iff]; omega
      have h2 : ¬((r : Int) < 0) := by omega
      rw [hwq]
      simp only [h2, if_false, fmt_quot_frac]
      simp

/-- `decimalText` has exactly `p` fraction digits, and its digits (without sign and dot) are the
    digits of `|d|`. -/
theorem decimalText_digits (d : Int) (p : Nat) (hp : 0 < p) :
    ∃ ip fp : List Char,
      decimalText d p = (if d < 0 then ['-'] else []) ++ ip ++ '.' :: fp ∧
      fp.length = p ∧ ip ≠ [] ∧ (ip ++ fp).all Char.isDigit = true ∧
      Nat.ofDigitChars 10 (ip ++ fp) 0 = d.natAbs := by
  have hp0 : ¬(p = 0) := by omega
  have hDpos : 0 < 10 ^ p := Nat.pow_pos (by decide)
  have hflen : (Nat.toDigits 10 (d.natAbs % 10 ^ p)).length ≤ p := by
    rw [Nat.length_toDigits_le_iff (by decide) hp]; exact Nat.mod_lt _ hDpos
  refine ⟨Nat.toDigits 10 (d.natAbs / 10 ^ p),
    List.replicate (p - (Nat.toDigits 10 (d.natAbs % 10 ^ p)).length) '0' ++ Nat.toDigits 10 (d.natAbs % 10 ^ p),
    ?_, ?_, Nat.toDigits_ne_nil, ?_, ?_⟩
  · simp [decimalText, hp0]
  · simp only [List.length_append, List.length_replicate]; omega
  · have h1 := toDigits_all_digit (d.natAbs / 10 ^ p)
    have h2 := toDigits_all_digit (d.natAbs % 10 ^ p)
    simp only [List.all_append, h1, h2, Bool.and_true, Bool.true_and, List.all_replicate]
    simp [Char.isDigit]
  · rw [Nat.ofDigitChars_append, Nat.ofDigitChars_append, Nat.ofDigitChars_ten_toDigits,
      Nat.ofDigitChars_replicate_zero, Nat.ofDigitChars_eq_ofDigitChars_zero, Nat.ofDigitChars_ten_toDigits]
    have hlen : (Nat.toDigits 10 (d.natAbs % 10 ^ p)).length + (p - (Nat.toDigits 10 (d.natAbs % 10 ^ p)).length) = p := by
      omega
    rw [← Nat.mul_assoc, ← Nat.pow_add, hlen]
    exact Nat.div_add_mod _ _

/-! ### base64 -/

theorem b64Val_b64Char : ∀ n : Fin 64, b64Val (b64Char n.val) = some n.val := by decide

theorem b64Val_b64Char' (n : Nat) (h : n < 64) : b64Val (b64Char n) = some n :=
  b64Val_b64Char ⟨n, h⟩

theorem b64Char_ne_pad : ∀ n : Fin 64, b64Char n.val ≠ 61 := by decide

theorem b64Char_ne_pad' (n : Nat) (h : n < 64) : b64Char n ≠ 61 := b64Char_ne_pad ⟨n, h⟩

/-- decoding the standard base64 text of a byte string gives the byte string back. -/
theorem unbase64_base64 (bs : Bytes) : unbase64 (base64 bs) = some bs := by
  induction bs using base64.induct with
  | case1 => simp [base64, unbase64]
  | case2 a =>
    have ha := a.toNat_lt
    have h0 := b64Val_b64Char' (a.toNat / 4) (by omega)
    have h1 := b64Val_b64Char' (a.toNat % 4 * 16) (by omega)
    simp only [base64, unbase64, h0, h1]
    simp
    apply UInt8.toNat_inj.mp; simp; omega
  | case3 a b =>
    have ha := a.toNat_lt
    have hb := b.toNat_lt
    have h0 := b64Val_b64Char' (a.toNat / 4) (by omega)
    have h1 := b64Val_b64Char' (a.toNat % 4 * 16 + b.toNat / 16) (by omega)
    have h2 := b64Val_b64Char' (b.toNat % 16 * 4) (by omega)
    have hne := b64Char_ne_pad' (b.toNat % 16 * 4) (by omega)
    simp only [base64]
    rw [unbase64.eq_def]
    simp [h0, h1, h2]
    constructor <;> (apply UInt8.toNat_inj.mp; simp; omega)
  | case4 a b c rest ih =>
    have ha := a.toNat_lt
    have hb := b.toNat_lt
    have hc := c.toNat_lt
    have h0 := b64Val_b64Char' (a.toNat / 4) (by omega)
    have h1 := b64Val_b64Char' (a.toNat % 4 * 16 + b.toNat / 16) (by omega)
    have h2 := b64Val_b64Char' (b.toNat % 16 * 4 + c.toNat / 64) (by omega)
    have h3 := b64Val_b64Char' (c.toNat % 64) (by omega)
    have hne2 := b64Char_ne_pad' (b.toNat % 16 * 4 + c.toNat / 64) (by omega)
    have hne3 := b64Char_ne_pad' (c.toNat % 64) (by omega)
    simp only [base64]
    rw [unbase64.eq_def]
    simp [hne2, hne3, h0, h1, h2, h3, ih]
    refine ⟨?_, ?_, ?_⟩ <;> (apply UInt8.toNat_inj.mp; simp; omega)

end OnosVerif.Value
