/- Helper lemmas for the C13 / C12 theorems (OnosVerif/Props/C13.lean, C12.lean). -/
import OnosVerif.NB.Model
import OnosVerif.NB.Spec

namespace OnosVerif.NB
open OnosVerif.Path

/-! ### association lists -/

def keys {β : Type} (m : List (Str × β)) : List Str := m.map Prod.fst

theorem mapGet_mapPut_same {β : Type} (k : Str) (v : β) (m : List (Str × β)) :
    mapGet k (mapPut k v m) = some v := by
  induction m with
  | nil => simp [mapPut, mapGet]
  | cons e r ih =>
    obtain ⟨k', v'⟩ := e
    simp only [mapPut]
    by_cases h : k' = k
    · simp [h, mapGet]
    · simp [h, mapGet, ih]

theorem mapGet_mapPut_ne {β : Type} (k k' : Str) (v : β) (m : List (Str × β)) (h : k' ≠ k) :
    mapGet k' (mapPut k v m) = mapGet k' m := by
  induction m with
  | nil =>
    have : ¬ k = k' := fun e => h e.symm
    simp [mapPut, mapGet, this]
  | cons e r ih =>
    obtain ⟨k2, v2⟩ := e
    simp only [mapPut]
    by_cases h2 : k2 = k
    · subst h2
      have : ¬ k2 = k' := fun e => h e.symm
      simp [mapGet, this]
    · simp only [h2, if_false, mapGet]
      by_cases h3 : k2 = k'
      · simp [h3]
      · simp [h3, ih]

theorem mapGet_append {β : Type} (k : Str) (m n : List (Str × β)) :
    mapGet k (m ++ n) = match mapGet k m with
      | some v => some v
      | none => mapGet k n := by
  induction m with
  | nil => simp [mapGet]
  | cons e r ih =>
    obtain ⟨k2, v2⟩ := e
    simp only [List.cons_append, mapGet]
    by_cases h : k2 = k
    · simp [h]
    · simp [h, ih]

theorem mapGet_none_iff {β : Type} (k : Str) (m : List (Str × β)) :
    mapGet k m = none ↔ k ∉ keys m := by
  induction m with
  | nil => simp [mapGet, keys]
  | cons e r ih =>
    obtain ⟨k2, v2⟩ := e
    simp only [mapGet, keys, List.map_cons, List.mem_cons, not_or]
    by_cases h : k2 = k
    · simp [h]
    · have h' : ¬ k = k2 := fun e => h e.symm
      simp only [h, if_false, h', not_false_eq_true, true_and]
      exact ih

theorem mapGet_some_mem {β : Type} (k : Str) (v : β) (m : List (Str × β)) (h : mapGet k m = some v) :
    (k, v) ∈ m := by
  induction m with
  | nil => simp [mapGet] at h
  | cons e r ih =>
    obtain ⟨k2, v2⟩ := e
    simp only [mapGet] at h
    by_cases h2 : k2 = k
    · simp only [h2, if_true, Option.some.injEq] at h
      subst h2; subst h
      exact List.mem_cons_self
    · simp only [h2, if_false] at h
      exact List.mem_cons_of_mem _ (ih h)

theorem mem_keys_of_mapGet {β : Type} (k : Str) (v : β) (m : List (Str × β)) (h : mapGet k m = some v) :
    k ∈ keys m := by
  have := mapGet_some_mem k v m h
  exact List.mem_map.mpr ⟨(k, v), this, rfl⟩

theorem mem_keys_mapPut {β : Type} (x k : Str) (v : β) (m : List (Str × β)) :
    x ∈ keys (mapPut k v m) ↔ x = k ∨ x ∈ keys m := by
  induction m with
  | nil => simp [mapPut, keys]
  | cons e r ih =>
    obtain ⟨k2, v2⟩ := e
    simp only [mapPut]
    by_cases h : k2 = k
    · subst h
      simp [keys]
    · simp only [h, if_false, keys, List.map_cons, List.mem_cons]
      simp only [keys] at ih
      rw [ih]
      constructor
      · rintro (h1 | h1 | h1)
        · exact Or.inr (Or.inl h1)
        · exact Or.inl h1
        · exact Or.inr (Or.inr h1)
      · rintro (h1 | h1 | h1)
        · exact Or.inr (Or.inl h1)
        · exact Or.inl h1
        · exact Or.inr (Or.inr h1)

theorem mem_keys_mapPutAll {β : Type} (x : Str) (es m : List (Str × β)) :
    x ∈ keys (mapPutAll es m) ↔ x ∈ keys es ∨ x ∈ keys m := by
  unfold mapPutAll
  induction es generalizing m with
  | nil => simp [keys]
  | cons e r ih =>
    simp only [List.foldl_cons]
    rw [ih, mem_keys_mapPut]
    simp only [keys, List.map_cons, List.mem_cons]
    constructor
    · rintro (h | h | h)
      · exact Or.inl (Or.inr h)
      · exact Or.inl (Or.inl h)
      · exact Or.inr h
    · rintro ((h | h) | h)
      · exact Or.inr (Or.inl h)
      · exact Or.inl h
      · exact Or.inr (Or.inr h)


theorem keys_mapPut_of_some {β : Type} (k : Str) (v v0 : β) (m : List (Str × β)) (h : mapGet k m = some v0) :
    keys (mapPut k v m) = keys m := by
  induction m with
  | nil => simp [mapGet] at h
  | cons e r ih =>
    obtain ⟨k2, v2⟩ := e
    simp only [mapGet] at h
    simp only [mapPut]
    by_cases h2 : k2 = k
    · simp [h2, keys]
    · simp only [h2, if_false] at h
      simp only [h2, if_false, keys, List.map_cons]
      simp only [keys] at ih
      rw [ih h]

theorem keys_append {β : Type} (m n : List (Str × β)) : keys (m ++ n) = keys m ++ keys n := by
  simp [keys]

/-! ### the state invariant of the three loops of `Set` -/

/-- (target, path) is written by the state: an update entry or a remove of that target -/
def hasPair (st : SetSt) (t p : Str) : Prop :=
  ∃ ti, mapGet t st.targets = some ti ∧ (p ∈ keys ti.updates ∨ p ∈ ti.removes)

structure Inv (env : Env) (ov0 : OvMap) (st : SetSt) : Prop where
  plug : ∀ t ti, mapGet t st.targets = some ti → pluginFor env ov0 t = some ti.plugin
  ovs : ∀ t, mapGet t st.targets = none → mapGet t st.overrides = mapGet t ov0
  nodup : (keys st.targets).Nodup

theorem inv_init (env : Env) (ov0 : OvMap) : Inv env ov0 ⟨[], ov0⟩ :=
  ⟨by intro t ti h; simp [mapGet] at h, by intro t _; rfl, by simp [keys]⟩

theorem resolveNew_ok (env : Env) (ov ov0 : OvMap) (t : Str) (p : Plugin) (ov' : OvMap)
    (hov : mapGet t ov = mapGet t ov0) (h : resolveNew env ov t = .ok (p, ov')) :
    pluginFor env ov0 t = some p ∧ (∀ t', t' ≠ t → mapGet t' ov' = mapGet t' ov) := by
  unfold resolveNew at h
  unfold pluginFor
  rw [← hov]
  split at h
  · simp at h
  · simp at h
  · rename_i cfg hc
    rw [hc]
    simp only
    split at h
    · rename_i ttv ho
      rw [ho]
      simp only
      split at h
      · simp at h
      · rename_i pl hp
        simp only [Except.ok.injEq, Prod.mk.injEq] at h
        obtain ⟨h1, h2⟩ := h
        subst h1; subst h2
        exact ⟨hp, fun _ _ => rfl⟩
    · rename_i hno
      split at h
      · simp at h
      · rename_i pl hp
        simp only [Except.ok.injEq, Prod.mk.injEq] at h
        obtain ⟨h1, h2⟩ := h
        subst h1; subst h2
        refine ⟨?_, fun t' hne => mapGet_mapPut_ne _ _ _ _ hne⟩
        split
        · rename_i ttv ho
          exact absurd ho (hno ttv)
        · exact hp

/-- what a successful `getTargetInfo` establishes -/
theorem getTargetInfo_ok (env : Env) (ov0 : OvMap) (st st1 : SetSt) (t : Str) (ti : TInfo)
    (inv : Inv env ov0 st) (h : getTargetInfo env st t = .ok (st1, ti)) :
    Inv env ov0 st1 ∧ mapGet t st1.targets = some ti ∧ pluginFor env ov0 t = some ti.plugin ∧
    (∀ t', t' ≠ t → mapGet t' st1.targets = mapGet t' st.targets) ∧
    (∀ p, (p ∈ keys ti.updates ∨ p ∈ ti.removes) ↔ hasPair st t p) ∧
    (∀ x, x ∈ keys st1.targets ↔ x = t ∨ x ∈ keys st.targets) := by
  unfold getTargetInfo at h
  split at h
  · rename_i ti0 hg
    simp only [Except.ok.injEq, Prod.mk.injEq] at h
    obtain ⟨h1, h2⟩ := h
    subst h1; subst h2
    refine ⟨inv, hg, inv.plug t _ hg, fun _ _ => rfl, ?_, ?_⟩
    · intro p
      constructor
      · intro hp; exact ⟨_, hg, hp⟩
      · rintro ⟨ti', hg', hp⟩
        rw [hg] at hg'
        cases hg'
        exact hp
    · intro x
      constructor
      · intro hx; exact Or.inr hx
      · rintro (hx | hx)
        · subst hx; exact mem_keys_of_mapGet _ _ _ hg
        · exact hx
  · rename_i hg
    split at h
    · simp at h
    · rename_i p ov' hr
      simp only [Except.ok.injEq, Prod.mk.injEq] at h
      obtain ⟨h1, h2⟩ := h
      subst h1; subst h2
      obtain ⟨hpl, hov⟩ := resolveNew_ok env st.overrides ov0 t p ov' (inv.ovs t hg) hr
      have hget : mapGet t (st.targets ++ [(t, (⟨p, [], []⟩ : TInfo))]) = some ⟨p, [], []⟩ := by
        rw [mapGet_append, hg]; simp [mapGet]
      have hother : ∀ t', t' ≠ t → mapGet t' (st.targets ++ [(t, (⟨p, [], []⟩ : TInfo))]) = mapGet t' st.targets := by
        intro t' hne
        rw [mapGet_append]
        cases hg' : mapGet t' st.targets with
        | some v => rfl
        | none =>
          have : ¬ t = t' := fun e => hne e.symm
          simp [mapGet, this]
      refine ⟨⟨?_, ?_, ?_⟩, hget, hpl, hother, ?_, ?_⟩
      · intro t' ti' hg'
        by_cases hne : t' = t
        · subst hne
          rw [hget] at hg'
          cases hg'
          exact hpl
        · rw [hother t' hne] at hg'
          exact inv.plug t' ti' hg'
      · intro t' hg'
        by_cases hne : t' = t
        · subst hne
          rw [hget] at hg'
          cases hg'
        · rw [hother t' hne] at hg'
          rw [hov t' hne]
          exact inv.ovs t' hg'
      · show (keys (st.targets ++ [(t, (⟨p, [], []⟩ : TInfo))])).Nodup
        rw [keys_append, List.nodup_append]
        refine ⟨inv.nodup, by simp [keys], ?_⟩
        intro a ha b hb
        simp only [keys, List.map_cons, List.map_nil, List.mem_singleton] at hb
        subst hb
        intro hab
        subst hab
        exact (mapGet_none_iff _ _).mp hg ha
      · intro q
        simp only [keys, List.map_nil, List.not_mem_nil, or_self, false_iff]
        rintro ⟨ti', hg', _⟩
        rw [hg] at hg'
        cases hg'
      · intro x
        show x ∈ keys (st.targets ++ [(t, (⟨p, [], []⟩ : TInfo))]) ↔ _
        rw [keys_append, List.mem_append]
        have hs : x ∈ keys [(t, (⟨p, [], []⟩ : TInfo))] ↔ x = t := by simp [keys]
        rw [hs]
        constructor
        · rintro (hx | hx)
          · exact Or.inr hx
          · exact Or.inl hx
        · rintro (hx | hx)
          · exact Or.inr hx
          · exact Or.inl hx


/-- replacing the record of a registered target by one with the same plugin -/
theorem setTInfo_ok (env : Env) (ov0 : OvMap) (st1 : SetSt) (t : Str) (ti ti' : TInfo)
    (inv : Inv env ov0 st1) (hg : mapGet t st1.targets = some ti) (hp : ti'.plugin = ti.plugin) :
    Inv env ov0 (setTInfo t ti' st1) ∧ mapGet t (setTInfo t ti' st1).targets = some ti' ∧
    (∀ t', t' ≠ t → mapGet t' (setTInfo t ti' st1).targets = mapGet t' st1.targets) ∧
    keys (setTInfo t ti' st1).targets = keys st1.targets := by
  have hsame : mapGet t (setTInfo t ti' st1).targets = some ti' := mapGet_mapPut_same _ _ _
  have hother : ∀ t', t' ≠ t → mapGet t' (setTInfo t ti' st1).targets = mapGet t' st1.targets :=
    fun t' hne => mapGet_mapPut_ne _ _ _ _ hne
  have hkeys : keys (setTInfo t ti' st1).targets = keys st1.targets := keys_mapPut_of_some _ _ _ _ hg
  refine ⟨⟨?_, ?_, ?_⟩, hsame, hother, hkeys⟩
  · intro t' tj hj
    by_cases hne : t' = t
    · subst hne
      rw [hsame] at hj
      cases hj
      rw [hp]
      exact inv.plug _ _ hg
    · rw [hother t' hne] at hj
      exact inv.plug _ _ hj
  · intro t' hj
    by_cases hne : t' = t
    · subst hne
      rw [hsame] at hj
      cases hj
    · rw [hother t' hne] at hj
      exact inv.ovs t' hj
  · rw [hkeys]; exact inv.nodup

/-- one loop iteration: the invariant is kept, the operation passed its checks against the plugin
    its target resolves to, and exactly its paths were added to that target -/
theorem applyOp_ok (abs : Abs) (env : Env) (ov0 : OvMap) (pfx : Option PathMsg) (st st' : SetSt) (op : Op)
    (inv : Inv env ov0 st) (h : applyOp abs env pfx st op = .ok st') :
    Inv env ov0 st' ∧
    (∃ pl, pluginFor env ov0 (effTarget pfx (opTarget op)) = some pl ∧ opPasses abs pl pfx op = true ∧
      ∀ t' p, hasPair st' t' p ↔
        hasPair st t' p ∨ (t' = effTarget pfx (opTarget op) ∧ p ∈ opPaths abs pl pfx op)) ∧
    (∀ x, x ∈ keys st'.targets ↔ x = effTarget pfx (opTarget op) ∨ x ∈ keys st.targets) := by
  unfold applyOp at h
  simp only at h
  split at h
  · simp at h
  · rename_i st1 ti hgt
    obtain ⟨inv1, hg1, hpl, hoth, hpairs, hkeys⟩ := getTargetInfo_ok env ov0 st st1 _ ti inv hgt
    -- the common tail, once the new record `ti'` and its added paths are known
    have tail : ∀ (ti' : TInfo) (added : List Str), ti'.plugin = ti.plugin →
        (∀ p, (p ∈ keys ti'.updates ∨ p ∈ ti'.removes) ↔ ((p ∈ keys ti.updates ∨ p ∈ ti.removes) ∨ p ∈ added)) →
        st' = setTInfo (effTarget pfx (opTarget op)) ti' st1 →
        Inv env ov0 st' ∧
        (∀ t' p, hasPair st' t' p ↔ hasPair st t' p ∨ (t' = effTarget pfx (opTarget op) ∧ p ∈ added)) ∧
        (∀ x, x ∈ keys st'.targets ↔ x = effTarget pfx (opTarget op) ∨ x ∈ keys st.targets) := by
      intro ti' added hp hadd hst
      obtain ⟨inv2, hs2, ho2, hk2⟩ := setTInfo_ok env ov0 st1 _ ti ti' inv1 hg1 hp
      subst hst
      refine ⟨inv2, ?_, ?_⟩
      · intro t' p
        by_cases hne : t' = effTarget pfx (opTarget op)
        · subst hne
          constructor
          · rintro ⟨tj, hj, hpj⟩
            rw [hs2] at hj
            cases hj
            rcases (hadd p).mp hpj with h1 | h1
            · exact Or.inl ((hpairs p).mp h1)
            · exact Or.inr ⟨rfl, h1⟩
          · rintro (h1 | ⟨_, h1⟩)
            · exact ⟨ti', hs2, (hadd p).mpr (Or.inl ((hpairs p).mpr h1))⟩
            · exact ⟨ti', hs2, (hadd p).mpr (Or.inr h1)⟩
        · constructor
          · rintro ⟨tj, hj, hpj⟩
            rw [ho2 t' hne, hoth t' hne] at hj
            exact Or.inl ⟨tj, hj, hpj⟩
          · rintro (⟨tj, hj, hpj⟩ | ⟨h1, _⟩)
            · exact ⟨tj, by rw [ho2 t' hne, hoth t' hne]; exact hj, hpj⟩
            · exact absurd h1 hne
      · intro x
        rw [hk2]
        exact hkeys x
    cases op with
    | del p =>
      simp only at h
      split at h
      · simp at h
      · rename_i path hd
        simp only [Except.ok.injEq] at h
        have hpass : opPasses abs ti.plugin pfx (.del p) = true := by simp [opPasses, hd]
        have hpaths : opPaths abs ti.plugin pfx (.del p) = [path] := by simp [opPaths, hd]
        obtain ⟨i1, i2, i3⟩ := tail { ti with removes := ti.removes ++ [path] } [path] rfl
          (by intro q; simp only [List.mem_append, List.mem_singleton]
              constructor
              · rintro (h1 | h1 | h1)
                · exact Or.inl (Or.inl h1)
                · exact Or.inl (Or.inr h1)
                · exact Or.inr h1
              · rintro ((h1 | h1) | h1)
                · exact Or.inl h1
                · exact Or.inr (Or.inl h1)
                · exact Or.inr (Or.inr h1)) h.symm
        exact ⟨i1, ⟨ti.plugin, hpl, hpass, by rw [hpaths]; exact i2⟩, i3⟩
    | upd u =>
      simp only at h
      split at h
      · simp at h
      · rename_i es hu
        simp only [Except.ok.injEq] at h
        have hpass : opPasses abs ti.plugin pfx (.upd u) = true := by simp [opPasses, hu]
        have hpaths : opPaths abs ti.plugin pfx (.upd u) = es.map Prod.fst := by simp [opPaths, hu]
        obtain ⟨i1, i2, i3⟩ := tail { ti with updates := mapPutAll es ti.updates } (es.map Prod.fst) rfl
          (by intro q
              show (q ∈ keys (mapPutAll es ti.updates) ∨ q ∈ ti.removes) ↔ _
              rw [mem_keys_mapPutAll]
              show (q ∈ keys es ∨ q ∈ keys ti.updates) ∨ q ∈ ti.removes ↔ (q ∈ keys ti.updates ∨ q ∈ ti.removes) ∨ q ∈ keys es
              constructor
              · rintro ((h1 | h1) | h1)
                · exact Or.inr h1
                · exact Or.inl (Or.inl h1)
                · exact Or.inl (Or.inr h1)
              · rintro ((h1 | h1) | h1)
                · exact Or.inl (Or.inr h1)
                · exact Or.inr h1
                · exact Or.inl (Or.inl h1)) h.symm
        exact ⟨i1, ⟨ti.plugin, hpl, hpass, by rw [hpaths]; exact i2⟩, i3⟩


/-- the three loops together -/
theorem applyOps_ok (abs : Abs) (env : Env) (ov0 : OvMap) (pfx : Option PathMsg) (ops : List Op) :
    ∀ (st st' : SetSt), Inv env ov0 st → applyOps abs env pfx st ops = .ok st' →
    Inv env ov0 st' ∧
    (∀ op ∈ ops, opOK abs env ov0 pfx op) ∧
    (∀ t p, hasPair st' t p ↔ hasPair st t p ∨
      ∃ op ∈ ops, ∃ pl, pluginFor env ov0 t = some pl ∧ t = effTarget pfx (opTarget op) ∧ p ∈ opPaths abs pl pfx op) ∧
    (∀ x, x ∈ keys st'.targets ↔ x ∈ keys st.targets ∨ ∃ op ∈ ops, x = effTarget pfx (opTarget op)) := by
  induction ops with
  | nil =>
    intro st st' inv h
    simp only [applyOps, Except.ok.injEq] at h
    subst h
    exact ⟨inv, by simp, by simp, by simp⟩
  | cons op r ih =>
    intro st st' inv h
    simp only [applyOps] at h
    split at h
    · simp at h
    · rename_i st1 h1
      obtain ⟨inv1, ⟨pl, hpl, hpass, hp1⟩, hk1⟩ := applyOp_ok abs env ov0 pfx st st1 op inv h1
      obtain ⟨inv2, hops, hp2, hk2⟩ := ih st1 st' inv1 h
      refine ⟨inv2, ?_, ?_, ?_⟩
      · intro o ho
        rcases List.mem_cons.mp ho with h3 | h3
        · subst h3; exact ⟨pl, hpl, hpass⟩
        · exact hops o h3
      · intro t p
        rw [hp2, hp1]
        constructor
        · rintro ((h3 | ⟨h3, h4⟩) | ⟨o, ho, h3⟩)
          · exact Or.inl h3
          · exact Or.inr ⟨op, List.mem_cons_self, pl, by rw [h3]; exact hpl, h3, h4⟩
          · exact Or.inr ⟨o, List.mem_cons_of_mem _ ho, h3⟩
        · rintro (h3 | ⟨o, ho, pl', hpl', h3, h4⟩)
          · exact Or.inl (Or.inl h3)
          · rcases List.mem_cons.mp ho with h5 | h5
            · subst h5
              rw [h3, hpl] at hpl'
              cases hpl'
              exact Or.inl (Or.inr ⟨h3, h4⟩)
            · exact Or.inr ⟨o, h5, pl', hpl', h3, h4⟩
      · intro x
        rw [hk2, hk1]
        constructor
        · rintro ((h3 | h3) | ⟨o, ho, h3⟩)
          · exact Or.inr ⟨op, List.mem_cons_self, h3⟩
          · exact Or.inl h3
          · exact Or.inr ⟨o, List.mem_cons_of_mem _ ho, h3⟩
        · rintro (h3 | ⟨o, ho, h3⟩)
          · exact Or.inl (Or.inr h3)
          · rcases List.mem_cons.mp ho with h5 | h5
            · subst h5; exact Or.inl (Or.inl h3)
            · exact Or.inr ⟨o, h5, h3⟩

/-! ### computeChange -/

theorem pathsValid_ok (ps : List Str) (h : pathsValid ps = .ok ()) : ∀ p ∈ ps, isPathValid p = .ok true := by
  induction ps with
  | nil => simp
  | cons a r ih =>
    simp only [pathsValid] at h
    split at h
    · simp at h
    · simp at h
    · rename_i hv
      intro p hp
      rcases List.mem_cons.mp hp with h1 | h1
      · subst h1; exact hv
      · exact ih h p h1

theorem pathsUsable_ok (ps : List Str) (h : pathsUsable ps = .ok ()) :
    ∀ p ∈ ps, isPathValid p = .ok true ∧ ∃ g, parsePath p = .ok g := by
  induction ps with
  | nil => simp
  | cons a r ih =>
    simp only [pathsUsable] at h
    split at h
    · simp at h
    · simp at h
    · rename_i hv
      split at h
      · simp at h
      · rename_i g hg
        intro p hp
        rcases List.mem_cons.mp hp with h1 | h1
        · subst h1; exact ⟨hv, g, hg⟩
        · exact ih h p h1

theorem mem_keys_foldl_put (rs : List Str) (v : PV) (m : List (Str × PV)) (x : Str) :
    x ∈ keys (rs.foldl (fun m p => mapPut p v m) m) ↔ x ∈ rs ∨ x ∈ keys m := by
  induction rs generalizing m with
  | nil => simp
  | cons a r ih =>
    simp only [List.foldl_cons]
    rw [ih, mem_keys_mapPut, List.mem_cons]
    constructor
    · rintro (h | h | h)
      · exact Or.inl (Or.inr h)
      · exact Or.inl (Or.inl h)
      · exact Or.inr h
    · rintro ((h | h) | h)
      · exact Or.inr (Or.inl h)
      · exact Or.inl h
      · exact Or.inr (Or.inr h)

/-- the change of a target holds exactly its update paths and its removes, all of them valid paths -/
theorem computeChange_ok (ti : TInfo) (ch : List (Str × PV)) (h : computeChange ti = .ok ch) :
    (∀ p, p ∈ keys ch ↔ (p ∈ keys ti.updates ∨ p ∈ ti.removes)) ∧
    (∀ p ∈ keys ch, isPathValid p = .ok true ∧ ∃ g, parsePath p = .ok g) := by
  unfold computeChange at h
  split at h
  · simp at h
  · rename_i hv
    simp only [Except.ok.injEq] at h
    subst h
    have hk : ∀ p, p ∈ keys (ti.removes.foldl (fun m p => mapPut p (⟨true, emptyTV⟩ : PV) m)
        (ti.updates.map fun e => (e.1, (⟨false, e.2⟩ : PV)))) ↔ (p ∈ keys ti.updates ∨ p ∈ ti.removes) := by
      intro p
      rw [mem_keys_foldl_put]
      have : keys (ti.updates.map fun e => (e.1, (⟨false, e.2⟩ : PV))) = keys ti.updates := by
        simp [keys, List.map_map, Function.comp_def]
      rw [this]
      exact Or.comm
    refine ⟨hk, ?_⟩
    intro p hp
    have := (hk p).mp hp
    apply pathsUsable_ok _ hv
    rw [List.mem_append]
    rcases this with h1 | h1
    · exact Or.inl h1
    · exact Or.inr h1

theorem computeChanges_ok (ts : List (Str × TInfo)) :
    ∀ chs, computeChanges ts = .ok chs →
    keys chs = keys ts ∧
    (∀ t ch, (t, ch) ∈ chs → ∃ ti, (t, ti) ∈ ts ∧ computeChange ti = .ok ch) ∧
    (∀ t ti, (t, ti) ∈ ts → ∃ ch, (t, ch) ∈ chs ∧ computeChange ti = .ok ch) := by
  induction ts with
  | nil =>
    intro chs h
    simp only [computeChanges, Except.ok.injEq] at h
    subst h
    simp [keys]
  | cons e r ih =>
    intro chs h
    obtain ⟨t0, ti0⟩ := e
    simp only [computeChanges] at h
    split at h
    · simp at h
    · rename_i ch0 h0
      split at h
      · simp at h
      · rename_i rest hr
        simp only [Except.ok.injEq] at h
        subst h
        obtain ⟨hk, h1, h2⟩ := ih rest hr
        refine ⟨?_, ?_, ?_⟩
        · simp only [keys, List.map_cons] at hk ⊢
          rw [hk]
        · intro t ch hm
          rcases List.mem_cons.mp hm with h3 | h3
          · cases h3
            exact ⟨ti0, List.mem_cons_self, h0⟩
          · obtain ⟨ti, h4, h5⟩ := h1 t ch h3
            exact ⟨ti, List.mem_cons_of_mem _ h4, h5⟩
        · intro t ti hm
          rcases List.mem_cons.mp hm with h3 | h3
          · cases h3
            exact ⟨ch0, List.mem_cons_self, h0⟩
          · obtain ⟨ch, h4, h5⟩ := h2 t ti h3
            exact ⟨ch, List.mem_cons_of_mem _ h4, h5⟩

/-- with distinct keys, membership of a pair is the lookup -/
theorem mem_iff_mapGet {β : Type} (m : List (Str × β)) (hn : (keys m).Nodup) (k : Str) (v : β) :
    (k, v) ∈ m ↔ mapGet k m = some v := by
  induction m with
  | nil => simp [mapGet]
  | cons e r ih =>
    obtain ⟨k2, v2⟩ := e
    simp only [keys, List.map_cons, List.nodup_cons] at hn
    obtain ⟨hnot, hn'⟩ := hn
    simp only [List.mem_cons, Prod.mk.injEq, mapGet]
    by_cases h : k2 = k
    · subst h
      simp only [if_true, Option.some.injEq]
      constructor
      · rintro (⟨_, h1⟩ | h1)
        · exact h1.symm
        · exact absurd (List.mem_map.mpr ⟨(k2, v), h1, rfl⟩) hnot
      · intro h1; exact Or.inl (by simp [h1])
    · simp only [h, if_false]
      have h' : ¬ k = k2 := fun e => h e.symm
      simp only [h', false_and, false_or]
      exact ih hn'


theorem length_mapPut_le {β : Type} (k : Str) (v : β) (m : List (Str × β)) :
    (mapPut k v m).length ≤ m.length + 1 := by
  induction m with
  | nil => simp [mapPut]
  | cons e r ih =>
    obtain ⟨k2, v2⟩ := e
    simp only [mapPut]
    by_cases h : k2 = k
    · simp [h]
    · simp only [h, if_false, List.length_cons]; omega

theorem length_foldl_put_le (rs : List Str) (v : PV) (m : List (Str × PV)) :
    (rs.foldl (fun m p => mapPut p v m) m).length ≤ m.length + rs.length := by
  induction rs generalizing m with
  | nil => simp
  | cons a r ih =>
    simp only [List.foldl_cons, List.length_cons]
    have h1 := ih (mapPut a v m)
    have h2 := length_mapPut_le a v m
    omega

theorem computeChange_length (ti : TInfo) (ch : List (Str × PV)) (h : computeChange ti = .ok ch) :
    ch.length ≤ ti.updates.length + ti.removes.length := by
  unfold computeChange at h
  split at h
  · simp at h
  · simp only [Except.ok.injEq] at h
    subst h
    have := length_foldl_put_le ti.removes (⟨true, emptyTV⟩ : PV) (ti.updates.map fun e => (e.1, (⟨false, e.2⟩ : PV)))
    simpa using this

/-- what passing the GNMI_SET_SIZE_LIMIT block means, for the guards the translator read from `Set` -/
theorem limitCheck_ok (limit : Int) (nOps : Nat) (ts : List (Str × TInfo)) (h : limitCheck limit nOps ts = .ok ()) (hl : limit > 0) :
    ts.length = 1 ∧ (nOps : Int) ≤ limit ∧
    ∀ t ∈ ts, (t.2.updates.length : Int) + (t.2.removes.length : Int) ≤ limit := by
  unfold limitCheck at h
  have hon : Generated.setLimitOn limit = true := by simp [Generated.setLimitOn, hl]
  rw [hon] at h
  simp only [if_true] at h
  split at h
  · simp at h
  · rename_i h1
    split at h
    · simp at h
    · rename_i h2
      simp only [Generated.setLimitTargetsGuard, ne_eq, decide_not, decide_eq_false_iff_not,
        Decidable.not_not, Bool.not_eq_eq_eq_not, Bool.not_true] at h1
      simp only [List.any_eq_true, not_exists, not_and, Bool.not_eq_true] at h2
      have hall : ∀ t ∈ ts, (nOps : Int) ≤ limit ∧ (t.2.updates.length : Int) + (t.2.removes.length : Int) ≤ limit := by
        intro t ht
        have := h2 t ht
        simp only [Generated.setLimitOpsGuard, Bool.or_eq_false_iff, decide_eq_false_iff_not, Int.not_lt] at this
        omega
      refine ⟨by omega, ?_, fun t ht => (hall t ht).2⟩
      match ts, h1 with
      | [t], _ => exact (hall t List.mem_cons_self).1

theorem mem_pairs (tx : TxRecord) (t p : Str) :
    (t, p) ∈ tx.pairs ↔ ∃ ch, (t, ch) ∈ tx.changes ∧ p ∈ keys ch := by
  unfold TxRecord.pairs
  simp only [List.mem_flatMap, List.mem_map, Prod.mk.injEq, keys]
  constructor
  · rintro ⟨⟨t', ch⟩, hm, ⟨e, he, h1, h2⟩⟩
    simp only at h1 h2
    subst h1
    exact ⟨ch, hm, ⟨e, he, h2⟩⟩
  · rintro ⟨ch, hm, ⟨e, he, h2⟩⟩
    exact ⟨(t, ch), hm, ⟨e, he, rfl, h2⟩⟩

/-- everything an accepted request went through -/
structure Accepted (abs : Abs) (env : Env) (req : SetReq) (ov0 : OvMap) (tx : TxRecord) : Prop where
  hov : findOverrides req.exts = some ov0
  strat : findStrategy req.exts = some tx.strategy
  nonEmpty : Generated.setEmptyGuard req.update.length req.replace.length req.delete.length = false
  ops : ∀ op ∈ opsOf req, opOK abs env ov0 req.pfx op
  pairs : ∀ t p, (t, p) ∈ tx.pairs ↔ ∃ op ∈ opsOf req, ∃ pl,
    pluginFor env ov0 t = some pl ∧ t = effTarget req.pfx (opTarget op) ∧ p ∈ opPaths abs pl req.pfx op
  targets : ∀ t, t ∈ keys tx.changes ↔ ∃ op ∈ opsOf req, t = effTarget req.pfx (opTarget op)
  valid : ∀ tp ∈ tx.pairs, isPathValid tp.2 = .ok true ∧ ∃ g, parsePath tp.2 = .ok g
  limit : env.limit > 0 → tx.changes.length = 1 ∧ (req.nOps : Int) ≤ env.limit ∧
    ∀ tc ∈ tx.changes, (tc.2.length : Int) ≤ env.limit

theorem setPre_accepted (abs : Abs) (env : Env) (req : SetReq) (tx : TxRecord)
    (h : setPre abs env req = .ok tx) : ∃ ov0, Accepted abs env req ov0 tx := by
  unfold setPre at h
  split at h
  · simp at h
  · rename_i ov0 hov
    split at h
    · simp at h
    · rename_i strat hs
      split at h
      · simp at h
      · rename_i hempty
        split at h
        · simp at h
        · rename_i st hops
          split at h
          · simp at h
          · rename_i hlim
            split at h
            · simp at h
            · rename_i chs hch
              simp only [Except.ok.injEq] at h
              subst h
              obtain ⟨inv, hopsok, hpairs, hkeys⟩ :=
                applyOps_ok abs env ov0 req.pfx (opsOf req) ⟨[], ov0⟩ st (inv_init env ov0) hops
              obtain ⟨hk, hc1, hc2⟩ := computeChanges_ok st.targets chs hch
              have hnoInit : ∀ t p, ¬ hasPair (⟨[], ov0⟩ : SetSt) t p := by
                rintro t p ⟨ti, hg, _⟩
                simp [mapGet] at hg
              have hpairs' : ∀ t p, (t, p) ∈ (⟨chs, st.overrides, strat⟩ : TxRecord).pairs ↔ hasPair st t p := by
                intro t p
                rw [mem_pairs]
                constructor
                · rintro ⟨ch, hm, hp⟩
                  obtain ⟨ti, hti, hcc⟩ := hc1 t ch hm
                  exact ⟨ti, (mem_iff_mapGet _ inv.nodup t ti).mp hti, ((computeChange_ok ti ch hcc).1 p).mp hp⟩
                · rintro ⟨ti, hg, hp⟩
                  obtain ⟨ch, hm, hcc⟩ := hc2 t ti ((mem_iff_mapGet _ inv.nodup t ti).mpr hg)
                  exact ⟨ch, hm, ((computeChange_ok ti ch hcc).1 p).mpr hp⟩
              refine ⟨ov0, hov, hs, by simpa using hempty, hopsok, ?_, ?_, ?_, ?_⟩
              · intro t p
                rw [hpairs', hpairs]
                constructor
                · rintro (h1 | h1)
                  · exact absurd h1 (hnoInit t p)
                  · exact h1
                · intro h1; exact Or.inr h1
              · intro t
                show t ∈ keys chs ↔ _
                rw [hk, hkeys]
                simp [keys]
              · rintro ⟨t, p⟩ hm
                obtain ⟨ch, hm', hp⟩ := (mem_pairs _ t p).mp hm
                obtain ⟨ti, _, hcc⟩ := hc1 t ch hm'
                exact (computeChange_ok ti ch hcc).2 p hp
              · intro hl
                obtain ⟨h1, hn, h2⟩ := limitCheck_ok env.limit _ st.targets hlim hl
                have hlen : chs.length = st.targets.length := by
                  have := congrArg List.length hk
                  simpa [keys] using this
                refine ⟨by show chs.length = 1; omega, by simp only [SetReq.nOps]; omega, ?_⟩
                rintro ⟨t, ch⟩ hm
                obtain ⟨ti, hti, hcc⟩ := hc1 t ch hm
                have hb := h2 (t, ti) hti
                have hle := computeChange_length ti ch hcc
                simp only at hb ⊢
                omega


/-! ### what the per-operation checks mean -/

theorem pluginFor_some (env : Env) (ov0 : OvMap) (t : Str) (pl : Plugin) (h : pluginFor env ov0 t = some pl) :
    ∃ cfg, mapGet t env.topo = some (some cfg) ∧
      ((∃ ttv, mapGet t ov0 = some (some ttv) ∧ pluginGet (ttv.type, ttv.version) env.plugins = some pl) ∨
       ((∀ ttv, mapGet t ov0 ≠ some (some ttv)) ∧ pluginGet (cfg.type, cfg.version) env.plugins = some pl)) := by
  unfold pluginFor at h
  split at h
  · rename_i cfg hc
    refine ⟨cfg, hc, ?_⟩
    split at h
    · rename_i ttv ho
      exact Or.inl ⟨ttv, ho, h⟩
    · rename_i hno
      exact Or.inr ⟨fun ttv ho => hno ttv ho, h⟩
  · simp at h

theorem findExact_ok (path : Str) (rw : List (Str × RWPath)) (b : Bool) (e : RWPath)
    (h : findPathFromModel path rw true = .ok (b, e)) :
    b = true ∧ mapGet (anonymizePathIndices path) rw = some e := by
  unfold findPathFromModel at h
  split at h
  · rename_i e' he
    simp only [Except.ok.injEq, Prod.mk.injEq] at h
    obtain ⟨h1, h2⟩ := h
    subst h1; subst h2
    exact ⟨rfl, he⟩
  · simp at h

theorem findNonExact_ok (path : Str) (rw : List (Str × RWPath)) (b : Bool) (e : RWPath)
    (h : findPathFromModel path rw false = .ok (b, e)) :
    (b = true ∧ mapGet (anonymizePathIndices path) rw = some e) ∨
    (b = false ∧ mapGet (anonymizePathIndices path) rw = none ∧
      ∃ search kv, searchText path = .ok search ∧ kv ∈ rw ∧ hasPrefix (removePathIndices kv.1) search = true) := by
  unfold findPathFromModel at h
  split at h
  · rename_i e' he
    simp only [Except.ok.injEq, Prod.mk.injEq] at h
    obtain ⟨h1, h2⟩ := h
    subst h1; subst h2
    exact Or.inl ⟨rfl, he⟩
  · rename_i hn
    simp only [Bool.false_eq_true, if_false] at h
    split at h
    · simp at h
    · rename_i search hs
      split at h
      · rename_i kv hf
        simp only [Except.ok.injEq, Prod.mk.injEq] at h
        obtain ⟨h1, h2⟩ := h
        subst h1
        exact Or.inr ⟨rfl, hn, search, kv, hs, List.mem_of_find?_eq_some hf, by simpa using List.find?_some hf⟩
      · simp at h

theorem ownIdx_ge (attr : Str) : ∀ (ns : List Str) (i l j : Nat), l ≤ i →
    ownIdx attr i ns (some l) = some j → l ≤ j := by
  intro ns
  induction ns with
  | nil => intro i l j _ h; simp only [ownIdx, Option.some.injEq] at h; omega
  | cons n r ih =>
    intro i l j hl h
    simp only [ownIdx] at h
    split at h
    · have := ih (i + 1) i j (by omega) h; omega
    · exact ih (i + 1) l j (by omega) h

/-- `own` names an index that carries the attribute name … -/
theorem ownIdx_spec (attr : Str) : ∀ (ns : List Str) (i : Nat) (last : Option Nat) (j : Nat),
    ownIdx attr i ns last = some j → last = some j ∨ ∃ k, j = i + k ∧ ns[k]? = some attr := by
  intro ns
  induction ns with
  | nil => intro i last j h; simp only [ownIdx] at h; exact Or.inl h
  | cons n r ih =>
    intro i last j h
    simp only [ownIdx] at h
    rcases ih (i + 1) _ j h with h1 | ⟨k, hk, hc⟩
    · split at h1
      · rename_i hn
        simp only [Option.some.injEq] at h1
        exact Or.inr ⟨0, by omega, by simp [hn]⟩
      · exact Or.inl h1
    · exact Or.inr ⟨k + 1, by omega, by simpa using hc⟩

/-- … and no later index carries it: it is the key of the leaf's own (innermost) list entry -/
theorem ownIdx_last (attr : Str) : ∀ (ns : List Str) (i : Nat) (last : Option Nat) (j : Nat),
    ownIdx attr i ns last = some j → ∀ k, ns[k]? = some attr → i + k ≤ j := by
  intro ns
  induction ns with
  | nil => intro i last j _ k hk; simp at hk
  | cons n r ih =>
    intro i last j h k hk
    simp only [ownIdx] at h
    cases k with
    | zero =>
      simp only [List.getElem?_cons_zero, Option.some.injEq] at hk
      simp only [hk, if_true] at h
      have := ownIdx_ge attr r (i + 1) i j (by omega) h
      omega
    | succ k =>
      simp only [List.getElem?_cons_succ] at hk
      have := ih (i + 1) _ j h k hk
      omega

/-- a passing `CheckKeyValue` loop on a key leaf: the value at position `own` is the leaf's value -/
theorem checkKeyLoop_ok (rw : RWPath) (v : Str) (own : Option Nat) (hk : rw.isAKey = true) :
    ∀ (ns vs : List Str) (i : Nat), checkKeyLoop rw v own i ns vs = .ok () →
      ∃ k, own = some (i + k) ∧ vs[k]? = some v := by
  intro ns
  induction ns with
  | nil => intro vs i h; simp [checkKeyLoop] at h
  | cons n r ih =>
    intro vs i h
    cases vs with
    | nil => simp [checkKeyLoop] at h
    | cons x xs =>
      simp only [checkKeyLoop] at h
      split at h
      · simp at h
      · simp at h
      · split at h
        · rename_i hc
          simp only [hk, Bool.not_true, Bool.false_or, Bool.and_eq_true, decide_eq_true_eq] at hc
          exact ⟨0, by simpa using hc.1, by simp [hc.2]⟩
        · obtain ⟨k, h1, h2⟩ := ih xs (i + 1) h
          exact ⟨k + 1, by rw [h1]; congr 1; omega, by simpa using h2⟩

theorem checkKeyValue_ok (path : Str) (rw : RWPath) (v : Str) (hk : rw.isAKey = true)
    (h : checkKeyValue path rw v = .ok ()) :
    ∃ ns vs, extractIndexNames path = .ok (ns, vs) ∧
      (ns = [] ∨ ∃ k, ownIdx rw.attrName 0 ns none = some k ∧ vs[k]? = some v) := by
  unfold checkKeyValue at h
  split at h
  · simp at h
  · rename_i ns vs he
    refine ⟨ns, vs, he, ?_⟩
    split at h
    · rename_i hempty
      exact Or.inl (by simpa using hempty)
    · obtain ⟨k, h1, h2⟩ := checkKeyLoop_ok rw v _ hk ns vs 0 h
      exact Or.inr ⟨k, by simpa using h1, h2⟩

/-- a non-JSON update or replace that passes: its path, prefix included, is a key of the model's
    read-write table once its index values are wildcarded; the value converts; key leaves agree -/
theorem updEntries_nonjson (abs : Abs) (pl : Plugin) (pfx : Option PathMsg) (u : Update) (es : List (Str × TV))
    (hj : u.isJson = false) (h : updEntries abs pl pfx u = .ok es) :
    ∃ rw tv, mapGet (anonymizePathIndices (effPath pfx u.path)) pl.rw = some rw ∧
      abs.conv u.val rw = .ok tv ∧ checkKeyValue (effPath pfx u.path) rw tv.repr = .ok () ∧
      es = [(effPath pfx u.path, tv)] := by
  unfold updEntries at h
  split at h
  · rename_i doc hv
    simp [Update.isJson, hv] at hj
  · simp only at h
    split at h
    · simp at h
    · rename_i b rw hf
      obtain ⟨_, hg⟩ := findExact_ok _ _ _ _ hf
      split at h
      · simp at h
      · rename_i tv hc
        split at h
        · simp at h
        · rename_i hck
          simp only [Except.ok.injEq] at h
          exact ⟨rw, tv, hg, hc, hck, h.symm⟩

/-- a JSON-valued update that passes writes what the plugin makes of the *prefix* path -/
theorem updEntries_json (abs : Abs) (pl : Plugin) (pfx : Option PathMsg) (u : Update) (doc : JsonDoc) (es : List (Str × TV))
    (hv : u.val = some (.json doc)) (h : updEntries abs pl pfx u = .ok es) :
    abs.pathValues pl (strPathMsg pfx) doc = .ok es := by
  unfold updEntries at h
  rw [hv] at h
  simp only at h
  split at h
  · simp at h
  · rename_i l hl
    simp only [Except.ok.injEq] at h
    subst h
    exact hl

/-- a delete that passes: the lookup succeeded, and the path removed is the effective path — or, for
    the key leaf of a list entry given without trailing index, that path cut at its last `/` -/
theorem delPath_ok (pl : Plugin) (pfx : Option PathMsg) (p : PathMsg) (x : Str) (h : delPath pl pfx p = .ok x) :
    ∃ b e, findPathFromModel (effPath pfx (some p)) pl.rw false = .ok (b, e) ∧
      (x = effPath pfx (some p) ∨
       (b = true ∧ e.isAKey = true ∧ ∃ i, lastIndexChar '/' (effPath pfx (some p)) = some i ∧
          x = ((effPath pfx (some p)).take i).drop 0)) := by
  unfold delPath at h
  simp only at h
  split at h
  · simp at h
  · rename_i b e hf
    refine ⟨b, e, hf, ?_⟩
    split at h
    · rename_i hc
      simp only [Bool.and_eq_true, Bool.not_eq_true', Bool.not_eq_eq_eq_not, Bool.not_true] at hc
      split at h
      · simp at h
      · rename_i i hi
        split at h
        · simp at h
        · rename_i p' hs
          simp only [Except.ok.injEq] at h
          subst h
          unfold slice at hs
          split at hs
          · simp only [Except.ok.injEq] at hs
            exact Or.inr ⟨hc.1.1, hc.1.2, i, hi, hs.symm⟩
          · simp at hs
    · simp only [Except.ok.injEq] at h
      exact Or.inl h.symm


theorem mem_opsOf_upd (req : SetReq) (u : Update) (h : Op.upd u ∈ opsOf req) : u ∈ req.replace ++ req.update := by
  unfold opsOf at h
  simp only [List.mem_flatMap] at h
  obtain ⟨k, _, hk⟩ := h
  split at hk
  · simp at hk
  · split at hk
    · simp only [List.mem_map, Op.upd.injEq] at hk
      obtain ⟨u', hu, he⟩ := hk
      subst he
      exact List.mem_append.mpr (Or.inl hu)
    · split at hk
      · simp only [List.mem_map, Op.upd.injEq] at hk
        obtain ⟨u', hu, he⟩ := hk
        subst he
        exact List.mem_append.mpr (Or.inr hu)
      · simp at hk

/-- where the paths of one passing operation are, in the property's terms -/
theorem opPaths_landsAsNamed (abs : Abs) (pl : Plugin) (pfx : Option PathMsg) (op : Op) (p : Str)
    (hj : ∀ u, op = .upd u → u.isJson = false) (hp : p ∈ opPaths abs pl pfx op) :
    landsAsNamed pfx op p = true := by
  cases op with
  | del d =>
    simp only [opPaths] at hp
    split at hp
    · rename_i x hd
      simp only [List.mem_singleton] at hp
      subst hp
      obtain ⟨b, e, _, h1 | ⟨_, _, i, hi, hx⟩⟩ := delPath_ok pl pfx d p hd
      · simp [landsAsNamed, h1]
      · simp [landsAsNamed, hi, hx]
    · simp at hp
  | upd u =>
    have hju := hj u rfl
    simp only [opPaths] at hp
    split at hp
    · rename_i es he
      obtain ⟨_, tv, _, _, _, hes⟩ := updEntries_nonjson abs pl pfx u es hju he
      subst hes
      simp only [List.map_cons, List.map_nil, List.mem_singleton] at hp
      simp [landsAsNamed, hju, hp]
    · simp at hp

end OnosVerif.NB
