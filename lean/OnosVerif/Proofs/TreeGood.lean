/- The precondition bundle of the build theorem (`GoodAt`), its inheritance by the path/values
   below a child, and the classification of the path/values that touch one member. -/
import OnosVerif.Proofs.TreeExpected

namespace OnosVerif.Tree
open OnosVerif.Path (Str GPath Elem)

variable (rfc : Bool)

/-- between two paths that share a proper prefix, every path shares it (true of any list sorted
    by path text: the strings with a common prefix are contiguous). -/
def Interval (S : List Entry) : Prop :=
  ∀ a c b, [a, c, b].Sublist S → ∀ n, n < a.1.length → n < b.1.length →
    a.1.take n = b.1.take n → c.1.take n = a.1.take n

theorem Interval.sublist {S S' : List Entry} (h : Interval S) (hs : S'.Sublist S) : Interval S' :=
  fun a c b habc => h a c b (habc.trans hs)

/-- everything the build theorem assumes about the path/values `S` arriving at a node whose
    enclosing list entry has keys `K`. -/
structure GoodAt (K : List (Str × Str)) (S : List Entry) : Prop where
  keysK : Path.keysSorted K = true
  each : ∀ x ∈ S, pathOK x.1 = true ∧ keyChainOK rfc x.2 x.1 = true ∧ headOK rfc K x.1 x.2 = true
  pair : S.Pairwise (fun x y => compat x.1 y.1 = true)
  interval : Interval S

theorem mem_sub (S : List Entry) (e : Elem) (y : Entry) :
    y ∈ sub S e ↔ y.1 ≠ [] ∧ (e :: y.1, y.2) ∈ S := by
  simp only [sub, List.mem_filterMap]
  constructor
  · rintro ⟨⟨p, v⟩, hx, hy⟩
    cases p with
    | nil => simp at hy
    | cons a r =>
      cases r with
      | nil => simp at hy
      | cons e' rest =>
        simp only at hy
        by_cases hae : a = e
        · subst hae
          simp only [if_true, Option.some.injEq] at hy
          subst hy
          exact ⟨by simp, hx⟩
        · simp [hae] at hy
  · rintro ⟨hne, hx⟩
    obtain ⟨p, v⟩ := y
    cases p with
    | nil => exact absurd rfl hne
    | cons e' rest => exact ⟨(e :: e' :: rest, v), hx, by simp⟩

theorem pathOK_tail (e e' : Elem) (rest : GPath) (h : pathOK (e :: e' :: rest) = true) :
    pathOK (e' :: rest) = true ∧ elemOK e = true := by
  simp only [pathOK, List.all_cons, Bool.and_eq_true, lastNoKeys] at h ⊢
  exact ⟨⟨h.1.2, h.2⟩, h.1.1⟩

theorem pathOK_nonempty (p : GPath) (h : pathOK p = true) : p ≠ [] := by
  intro hp; subst hp; simp [pathOK, lastNoKeys] at h

theorem filterMap_sublist_witness {α β : Type} (f : α → Option β) : ∀ (l : List α) (ys : List β),
    l.filterMap f = ys → ∃ xs, xs.Sublist l ∧ Forall2 (fun x y => f x = some y) xs ys
  | [], ys, h => by
    simp only [List.filterMap_nil] at h
    subst h
    exact ⟨[], List.Sublist.slnil, Forall2.nil⟩
  | a :: l, ys, h => by
    rw [List.filterMap_cons] at h
    cases hfa : f a with
    | none =>
      simp only [hfa] at h
      obtain ⟨xs, h1, h2⟩ := filterMap_sublist_witness f l ys h
      exact ⟨xs, List.Sublist.cons _ h1, h2⟩
    | some b =>
      simp only [hfa] at h
      subst h
      obtain ⟨xs, h1, h2⟩ := filterMap_sublist_witness f l _ rfl
      exact ⟨a :: xs, List.Sublist.cons₂ _ h1, Forall2.cons hfa h2⟩

theorem interval_sub (S : List Entry) (e : Elem) (h : Interval S) : Interval (sub S e) := by
  intro a' c' b' hsub n hna hnb htake
  obtain ⟨l', hl', heq⟩ := List.sublist_filterMap_iff.1 hsub
  obtain ⟨xs, hxs, hall⟩ := filterMap_sublist_witness _ l' _ heq.symm
  cases hall with
  | cons ha hall =>
    cases hall with
    | cons hc hall =>
      cases hall with
      | cons hb hall =>
        cases hall
        rename_i a c b
        have key : ∀ (x x' : Entry), (match x.1 with
            | a :: e' :: rest => if a = e then some (e' :: rest, x.2) else none
            | _ => none) = some x' → x.1 = e :: x'.1 := by
          intro x x' hx
          obtain ⟨p, v⟩ := x
          cases p with
          | nil => simp at hx
          | cons a1 r =>
            cases r with
            | nil => simp at hx
            | cons e1 rest =>
              simp only at hx
              by_cases hae : a1 = e
              · subst hae
                simp only [if_true, Option.some.injEq] at hx
                subst hx; rfl
              · simp [hae] at hx
        have ea := key a a' ha
        have ec := key c c' hc
        have eb := key b b' hb
        have := h a c b (hxs.trans hl') (n + 1) (by rw [ea]; simp; omega) (by rw [eb]; simp; omega)
          (by rw [ea, eb]; simp [htake])
        rw [ea, ec] at this
        simpa using this

theorem keyChainOK_cons (v : Val) (e : Elem) (rest : GPath) :
    keyChainOK rfc v (e :: rest) = (headOK rfc e.keys rest v && keyChainOK rfc v rest) := rfl

theorem goodAt_sub (K : List (Str × Str)) (S : List Entry) (e : Elem) (h : GoodAt rfc K S)
    (hks : Path.keysSorted e.keys = true) : GoodAt rfc e.keys (sub S e) := by
  refine ⟨hks, ?_, ?_, interval_sub S e h.interval⟩
  · intro y hy
    obtain ⟨hne, hx⟩ := (mem_sub S e y).1 hy
    obtain ⟨h1, h2, _⟩ := h.each _ hx
    obtain ⟨p, v⟩ := y
    cases p with
    | nil => exact absurd rfl hne
    | cons e' rest =>
      simp only at h1 h2 ⊢
      rw [keyChainOK_cons, Bool.and_eq_true] at h2
      exact ⟨(pathOK_tail e e' rest h1).1, h2.2, h2.1⟩
  · apply List.Pairwise.filterMap _ _ h.pair
    intro x x' hc y hy y' hy'
    obtain ⟨p, v⟩ := x
    obtain ⟨p', v'⟩ := x'
    cases p with
    | nil => simp at hy
    | cons a r =>
      cases r with
      | nil => simp at hy
      | cons e1 rest =>
        cases p' with
        | nil => simp at hy'
        | cons a' r' =>
          cases r' with
          | nil => simp at hy'
          | cons e1' rest' =>
            simp only at hy hy' hc
            by_cases hae : a = e
            · by_cases hae' : a' = e
              · subst hae; subst hae'
                simp only [if_true, Option.some.injEq] at hy hy'
                subst hy; subst hy'
                simpa [compat] using hc
              · simp [hae'] at hy'
            · simp [hae] at hy

theorem goodAt_sublist (K : List (Str × Str)) (S S' : List Entry) (h : GoodAt rfc K S) (hs : S'.Sublist S) :
    GoodAt rfc K S' :=
  ⟨h.keysK, fun x hx => h.each x (hs.subset hx), h.pair.sublist hs, h.interval.sublist hs⟩

/-! ### plain names -/

theorem writeSafe_plain (c : Char) : ∀ (s : Str), (∀ x ∈ s, x ≠ c ∧ x ≠ '\\') → Path.writeSafe c s = s
  | [], _ => rfl
  | x :: s, h => by
    have hx := h x List.mem_cons_self
    simp only [Path.writeSafe, hx.1, hx.2, or_self, if_false]
    rw [writeSafe_plain c s (fun y hy => h y (List.mem_cons_of_mem _ hy))]

theorem nameSimple_spec (n : Str) (h : nameSimple n = true) :
    n ≠ [] ∧ ∀ c ∈ n, c ≠ '/' ∧ c ≠ '\\' ∧ c ≠ '[' ∧ c ≠ ']' ∧ c ≠ '=' := by
  simp only [nameSimple, Bool.and_eq_true, Bool.not_eq_true', List.all_eq_true, decide_eq_true_eq,
    List.isEmpty_eq_false_iff] at h
  refine ⟨h.1, ?_⟩
  intro c hc
  have := h.2 c hc
  exact ⟨this.1.1.1.1, this.1.1.1.2, this.1.1.2, this.1.2, this.2⟩

theorem elemText_plain (e : Elem) (hn : nameSimple e.name = true) (hk : e.keys = []) : elemText e = e.name := by
  have := (nameSimple_spec e.name hn).2
  simp only [elemText, hk, List.flatMap_nil, List.append_nil]
  exact writeSafe_plain '/' e.name (fun c hc => ⟨(this c hc).1, (this c hc).2.1⟩)

theorem leafPlain_of_pathOK (x : Entry) (h : pathOK x.1 = true) : leafPlain x := by
  intro e he
  rw [he] at h
  simp only [pathOK, List.all_cons, List.all_nil, Bool.and_true, lastNoKeys, Bool.and_eq_true,
    List.isEmpty_iff] at h
  simp only [elemOK, Bool.and_eq_true] at h
  exact elemText_plain e h.1.1.1 h.2

/-! ### the path/values that touch one member -/

theorem compat_nil_left (q : GPath) : compat [] q = false := by
  cases q <;> rfl

theorem compat_nil_right (p : GPath) : compat p [] = false := by
  cases p <;> rfl

theorem compat_same_name (a b : Elem) (p q : GPath) (h : compat (a :: p) (b :: q) = true)
    (hn : a.name = b.name) :
    (a = b ∧ compat p q = true) ∨ (a ≠ b ∧ a.keys.map (·.1) = b.keys.map (·.1)) := by
  simp only [compat] at h
  by_cases hab : a = b
  · simp only [hab, if_true] at h
    exact Or.inl ⟨hab, h⟩
  · simp only [hab, if_false, Bool.or_eq_true, bne_iff_ne, ne_eq, beq_iff_eq] at h
    rcases h with h | h
    · exact absurd hn h
    · exact Or.inr ⟨hab, h⟩

theorem elem_ext (a b : Elem) (h1 : a.name = b.name) (h2 : a.keys = b.keys) : a = b := by
  cases a; cases b; simp only at h1 h2; subst h1; subst h2; rfl

theorem listEntryOK_of (n : Str) (KN : List Str) (b e1 : Elem) (r1 : GPath) (v : Val)
    (hp : pathOK (b :: e1 :: r1) = true) (hc : keyChainOK rfc v (b :: e1 :: r1) = true)
    (hn : b.name = n) (hk : b.keys ≠ []) (hkn : b.keys.map (·.1) = KN) :
    ListEntryOK rfc n KN (b :: e1 :: r1, v) := by
  obtain ⟨hpt, heb⟩ := pathOK_tail b e1 r1 hp
  rw [keyChainOK_cons, Bool.and_eq_true] at hc
  simp only [elemOK, Bool.and_eq_true] at heb
  exact ⟨b, rfl, hn, hk, hkn, heb.1.2, e1, r1, rfl, leafPlain_of_pathOK (e1 :: r1, v) hpt, hc.1⟩

theorem lastNoKeys_single (b : Elem) (h : pathOK [b] = true) : b.keys = [] := by
  simp only [pathOK, lastNoKeys, Bool.and_eq_true, List.isEmpty_iff] at h
  exact h.2

theorem mem_touching (S : List Entry) (n : Str) (x : Entry) : x ∈ touching S n ↔ x ∈ S ∧ memberName x = n := by
  simp [touching]

theorem touching_kinds (K : List (Str × Str)) (S : List Entry) (n : Str) (h : GoodAt rfc K S) :
    touching S n = [] ∨
    (∃ v, touching S n = [([{ name := n, keys := [] }], v)]) ∨
    (touching S n ≠ [] ∧ ∀ x ∈ touching S n, IsStep { name := n, keys := [] } x) ∨
    (touching S n ≠ [] ∧ ∃ KN, ∀ x ∈ touching S n, ListEntryOK rfc n KN x) := by
  have hsubl : (touching S n).Sublist S := List.filter_sublist
  have hg := goodAt_sublist rfc K S _ h hsubl
  have hname : ∀ x ∈ touching S n, memberName x = n := fun x hx => ((mem_touching S n x).1 hx).2
  cases hL : touching S n with
  | nil => exact Or.inl rfl
  | cons x0 L' =>
    rw [hL] at hg hname
    have hpair := hg.pair
    rw [List.pairwise_cons] at hpair
    obtain ⟨hp0, hc0, _⟩ := hg.each x0 List.mem_cons_self
    have hn0 := hname x0 List.mem_cons_self
    obtain ⟨p0, v0⟩ := x0
    simp only at hp0 hc0
    -- every other path/value, relative to the first
    have hother : ∀ y ∈ L', ∃ b q, y.1 = b :: q ∧ b.name = n ∧ pathOK (b :: q) = true ∧
        keyChainOK rfc y.2 (b :: q) = true ∧ compat p0 (b :: q) = true := by
      intro y hy
      obtain ⟨hpy, hcy, _⟩ := hg.each y (List.mem_cons_of_mem _ hy)
      have hny := hname y (List.mem_cons_of_mem _ hy)
      have hcompat := hpair.1 y hy
      obtain ⟨p, v⟩ := y
      cases p with
      | nil => exact absurd rfl (pathOK_nonempty _ hpy)
      | cons b q => exact ⟨b, q, rfl, hny, hpy, hcy, hcompat⟩
    cases p0 with
    | nil => exact absurd rfl (pathOK_nonempty _ hp0)
    | cons a r0 =>
      simp only [memberName] at hn0
      cases r0 with
      | nil =>
        -- a leaf: nothing else touches the member
        have hka := lastNoKeys_single a hp0
        have hL' : L' = [] := by
          cases hL'' : L' with
          | nil => rfl
          | cons y L'' =>
            exfalso
            obtain ⟨b, q, hy, hnb, hpb, _, hcomp⟩ := hother y (by rw [hL'']; exact List.mem_cons_self)
            rcases compat_same_name a b [] q hcomp (by rw [hn0, hnb]) with ⟨_, hc⟩ | ⟨hne, hkeys⟩
            · rw [compat_nil_left] at hc; exact absurd hc (by decide)
            · apply hne
              apply elem_ext a b (by rw [hn0, hnb])
              rw [hka] at hkeys ⊢
              simp only [List.map_nil] at hkeys
              exact (List.map_eq_nil_iff.1 hkeys.symm).symm
        right; left
        refine ⟨v0, ?_⟩
        rw [hL']
        have : a = { name := n, keys := [] } := elem_ext _ _ hn0 hka
        rw [this]
      | cons e' rest =>
        by_cases hka : a.keys = []
        · -- a container
          have ha : a = { name := n, keys := [] } := elem_ext _ _ hn0 hka
          right; right; left
          refine ⟨by simp, ?_⟩
          intro y hy
          rcases List.mem_cons.1 hy with hy | hy
          · subst hy; exact ⟨e', rest, by rw [ha]⟩
          · obtain ⟨b, q, hyb, hnb, hpb, _, hcomp⟩ := hother y hy
            rcases compat_same_name a b (e' :: rest) q hcomp (by rw [hn0, hnb]) with ⟨hab, hc⟩ | ⟨hne, hkeys⟩
            · cases q with
              | nil => rw [compat_nil_right] at hc; exact absurd hc (by decide)
              | cons e1 r1 => exact ⟨e1, r1, by rw [hyb, ← hab, ha]⟩
            · exfalso
              apply hne
              apply elem_ext a b (by rw [hn0, hnb])
              rw [hka] at hkeys ⊢
              simp only [List.map_nil] at hkeys
              exact (List.map_eq_nil_iff.1 hkeys.symm).symm
        · -- a list
          right; right; right
          refine ⟨by simp, a.keys.map (·.1), ?_⟩
          intro y hy
          rcases List.mem_cons.1 hy with hy | hy
          · subst hy
            exact listEntryOK_of rfc n _ a e' rest v0 hp0 hc0 hn0 hka rfl
          · obtain ⟨b, q, hyb, hnb, hpb, hcb, hcomp⟩ := hother y hy
            obtain ⟨yp, yv⟩ := y
            simp only at hyb hcb
            subst hyb
            have hkb : b.keys ≠ [] ∧ b.keys.map (·.1) = a.keys.map (·.1) := by
              rcases compat_same_name a b (e' :: rest) q hcomp (by rw [hn0, hnb]) with ⟨hab, _⟩ | ⟨_, hkeys⟩
              · rw [← hab]; exact ⟨hka, rfl⟩
              · refine ⟨?_, hkeys.symm⟩
                intro hb
                rw [hb] at hkeys
                simp only [List.map_nil] at hkeys
                exact hka (List.map_eq_nil_iff.1 hkeys)
            cases q with
            | nil => exact absurd (lastNoKeys_single b hpb) hkb.1
            | cons e1 r1 => exact listEntryOK_of rfc n _ b e1 r1 yv hpb hcb hnb hkb.1 hkb.2

end OnosVerif.Tree
