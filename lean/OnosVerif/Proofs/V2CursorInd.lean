/- Induction for the commit-cursor invariant over all world steps. -/
import OnosVerif.Proofs.V2Cursor
import OnosVerif.Proofs.V2PhaseInd

namespace OnosVerif.V2
open OnosVerif.Config (PV VMap)

theorem applyTxUpd_index (t : Tx) (u : TxUpd) : (applyTxUpd t u).index = t.index := by
  cases u <;> rfl

theorem applyPropUpd_keys (p : Proposal) (u : PropUpd) :
    (applyPropUpd p u).index = p.index ∧ (applyPropUpd p u).target = p.target ∧
    ((∀ n, u ≠ .setPrev n) → (applyPropUpd p u).prev = p.prev) := by
  cases u <;> simp [applyPropUpd]

theorem cursorInv_frame (s s' : Sys) (hinv : CursorInv s) (hp : s'.props = s.props) (hc : s'.cfgs = s.cfgs)
    (hl : s'.commitLog = s.commitLog) (ht : ∀ t ∈ s'.txs, 1 ≤ t.index) : CursorInv s' := by
  constructor
  · intro id p h; exact hinv.prop_prev id p (by unfold Sys.prop? at h ⊢; rw [← hp]; exact h)
  · intro m hm
    rw [hl] at hm
    obtain ⟨c, h1, h2⟩ := hinv.log_bound m hm
    exact ⟨c, by unfold Sys.cfg? at h1 ⊢; rw [hc]; exact h1, h2⟩
  · rw [hl]; exact hinv.log_sorted
  · exact ht

theorem exec_stepC (s : Sys) (hinv : CursorInv s) (e : Effect) (hj : JustC s e) :
    CursorInv (exec s e).1 ∧ EvolvesC s (exec s e).1 := by
  cases e with
  | tx i ver u =>
    rw [exec_tx_eq]
    cases ht : s.tx? i with
    | none => exact ⟨hinv, EvolvesC.of_eq _ _ rfl rfl⟩
    | some t =>
      simp only
      split
      · refine ⟨cursorInv_frame s _ hinv rfl rfl rfl ?_, EvolvesC.of_eq _ _ rfl rfl⟩
        intro x hx
        simp only [Sys.setTx, List.mem_map] at hx
        obtain ⟨y, hy, hxy⟩ := hx
        split at hxy
        · subst hxy
          show 1 ≤ (applyTxUpd t u).index
          rw [applyTxUpd_index]
          exact hinv.tx_pos t (by unfold Sys.tx? at ht; exact List.mem_of_find?_eq_some ht)
        · subst hxy; exact hinv.tx_pos y hy
      · exact ⟨hinv, EvolvesC.of_eq _ _ rfl rfl⟩
  | prop id ver u =>
    rw [exec_prop_eq]
    cases hp : s.prop? id with
    | none => exact ⟨hinv, EvolvesC.of_eq _ _ rfl rfl⟩
    | some p =>
      simp only
      split
      · rename_i hver
        have hk := prop?_key s id p hp
        obtain ⟨hi, htg, hprevsame⟩ := applyPropUpd_keys p u
        have hkey : ((bumpProp p u).target, (bumpProp p u).index) = id := by
          show ((applyPropUpd p u).target, (applyPropUpd p u).index) = id
          rw [htg, hi]; exact hk
        have hnewprev : (bumpProp p u).prev < (bumpProp p u).index := by
          show (applyPropUpd p u).prev < (applyPropUpd p u).index
          rw [hi]
          by_cases hsp : ∃ n, u = .setPrev n
          · obtain ⟨n, hn⟩ := hsp
            subst hn
            obtain ⟨p0, hp0, _, hg⟩ := hj
            rw [hp] at hp0
            simp only [Option.some.injEq] at hp0
            subst hp0
            exact hg hver
          · rw [hprevsame (fun n hn => hsp ⟨n, hn⟩)]
            exact hinv.prop_prev id p hp
        constructor
        · constructor
          · intro id2 p2 h2
            rw [prop?_setProp, hkey] at h2
            by_cases hid : id2 = id
            · subst hid
              simp only [if_true, hp, Option.map_some, Option.some.injEq] at h2
              subst h2; exact hnewprev
            · simp only [hid, if_false] at h2
              exact hinv.prop_prev id2 p2 h2
          · exact hinv.log_bound
          · exact hinv.log_sorted
          · exact hinv.tx_pos
        · constructor
          · intro t c h
            exact ⟨c, h, Nat.le_refl _, fun _ => rfl, Nat.le_refl _⟩
          · intro id2 p2 h2
            rw [prop?_setProp, hkey]
            by_cases hid : id2 = id
            · subst hid
              rw [hp] at h2
              simp only [Option.some.injEq] at h2
              subst h2
              simp only [if_true, hp, Option.map_some]
              exact ⟨_, rfl, by show p.version ≤ p.version + 1; omega, hi⟩
            · simp only [hid, if_false]
              exact ⟨p2, h2, Nat.le_refl _, rfl⟩
      · exact ⟨hinv, EvolvesC.of_eq _ _ rfl rfl⟩
  | createProp p =>
    rw [exec_createProp_eq]
    split
    · exact ⟨hinv, EvolvesC.of_eq _ _ rfl rfl⟩
    · constructor
      · constructor
        · intro id q hq
          rw [prop?_append] at hq
          cases hs : s.prop? id with
          | some y =>
            simp only [hs, Option.some.injEq] at hq
            subst hq; exact hinv.prop_prev id y hs
          | none =>
            simp only [hs] at hq
            split at hq
            · simp only [Option.some.injEq] at hq
              subst hq
              rw [hj.1]; exact hj.2
            · cases hq
        · exact hinv.log_bound
        · exact hinv.log_sorted
        · exact hinv.tx_pos
      · constructor
        · intro t c h
          exact ⟨c, h, Nat.le_refl _, fun _ => rfl, Nat.le_refl _⟩
        · intro id q hq
          refine ⟨q, ?_, Nat.le_refl _, rfl⟩
          rw [prop?_append, hq]
  | createCfg t n =>
    simp only [exec]
    cases hc : s.cfg? t with
    | some c => exact ⟨hinv, EvolvesC.of_eq _ _ rfl rfl⟩
    | none =>
      have hlook : ∀ t2 c2, s.cfg? t2 = some c2 →
          ({ s with cfgs := s.cfgs ++ [{ target := t, proposed := n }] } : Sys).cfg? t2 = some c2 := by
        intro t2 c2 h2
        unfold Sys.cfg? at h2 ⊢
        simp only
        rw [find?_append_absent, h2]
      constructor
      · constructor
        · exact hinv.prop_prev
        · intro m hm
          obtain ⟨c, h1, h2⟩ := hinv.log_bound m hm
          exact ⟨c, hlook _ _ h1, h2⟩
        · exact hinv.log_sorted
        · exact hinv.tx_pos
      · constructor
        · intro t2 c2 h2
          exact ⟨c2, hlook _ _ h2, Nat.le_refl _, fun _ => rfl, Nat.le_refl _⟩
        · intro id p h
          exact ⟨p, h, Nat.le_refl _, rfl⟩
  | cfgVals t v =>
    simp only [exec]
    cases hc : s.cfg? t with
    | none => exact ⟨hinv, EvolvesC.of_eq _ _ rfl rfl⟩
    | some c =>
      have hct := cfg?_target s t c hc
      have hlook : ∀ t2 c2, s.cfg? t2 = some c2 → ∃ c2', (s.setCfg { c with vals := Config.store c.vals v }).cfg? t2 = some c2' ∧
          c2'.version = c2.version ∧ c2'.committed = c2.committed := by
        intro t2 c2 h2
        rw [cfg?_setCfg]
        by_cases h : t2 = c.target
        · have : t2 = t := by rw [h, hct]
          subst this
          rw [hc] at h2
          simp only [Option.some.injEq] at h2
          subst h2
          simp only [h, if_true]
          rw [← h, hc]
          exact ⟨_, rfl, rfl, rfl⟩
        · simp only [show t2 ≠ ({ c with vals := Config.store c.vals v } : Cfg).target from h, if_false]
          exact ⟨c2, h2, rfl, rfl⟩
      constructor
      · constructor
        · exact hinv.prop_prev
        · intro m hm
          obtain ⟨c0, h1, h2⟩ := hinv.log_bound m hm
          obtain ⟨c0', h1', _, h3'⟩ := hlook _ _ h1
          exact ⟨c0', h1', by omega⟩
        · exact hinv.log_sorted
        · exact hinv.tx_pos
      · constructor
        · intro t2 c2 h2
          obtain ⟨c2', h1', h2', h3'⟩ := hlook _ _ h2
          exact ⟨c2', h1', by omega, fun _ => h3', by omega⟩
        · intro id p h
          exact ⟨p, h, Nat.le_refl _, rfl⟩
  | cfgAVals t v =>
    simp only [exec]
    cases hc : s.cfg? t with
    | none => exact ⟨hinv, EvolvesC.of_eq _ _ rfl rfl⟩
    | some c =>
      have hct := cfg?_target s t c hc
      have hlook : ∀ t2 c2, s.cfg? t2 = some c2 → ∃ c2', (s.setCfg { c with avals := Config.store c.avals v }).cfg? t2 = some c2' ∧
          c2'.version = c2.version ∧ c2'.committed = c2.committed := by
        intro t2 c2 h2
        rw [cfg?_setCfg]
        by_cases h : t2 = c.target
        · have : t2 = t := by rw [h, hct]
          subst this
          rw [hc] at h2
          simp only [Option.some.injEq] at h2
          subst h2
          simp only [h, if_true]
          rw [← h, hc]
          exact ⟨_, rfl, rfl, rfl⟩
        · simp only [show t2 ≠ ({ c with avals := Config.store c.avals v } : Cfg).target from h, if_false]
          exact ⟨c2, h2, rfl, rfl⟩
      constructor
      · constructor
        · exact hinv.prop_prev
        · intro m hm
          obtain ⟨c0, h1, h2⟩ := hinv.log_bound m hm
          obtain ⟨c0', h1', _, h3'⟩ := hlook _ _ h1
          exact ⟨c0', h1', by omega⟩
        · exact hinv.log_sorted
        · exact hinv.tx_pos
      · constructor
        · intro t2 c2 h2
          obtain ⟨c2', h1', h2', h3'⟩ := hlook _ _ h2
          exact ⟨c2', h1', by omega, fun _ => h3', by omega⟩
        · intro id p h
          exact ⟨p, h, Nat.le_refl _, rfl⟩
  | dev r =>
    have hfr : (exec s (.dev r)).1.props = s.props ∧ (exec s (.dev r)).1.cfgs = s.cfgs ∧
        (exec s (.dev r)).1.commitLog = s.commitLog ∧ (exec s (.dev r)).1.txs = s.txs := by
      simp only [exec]
      by_cases h : r.accepted = true
      · simp only [h, if_true, Sys.setDev]; split <;> exact ⟨rfl, rfl, rfl, rfl⟩
      · simp only [h, if_false]; exact ⟨rfl, rfl, rfl, rfl⟩
    exact ⟨cursorInv_frame s _ hinv hfr.1 hfr.2.1 hfr.2.2.1 (by rw [hfr.2.2.2]; exact hinv.tx_pos),
      EvolvesC.of_eq _ _ hfr.2.1 hfr.1⟩
  | cfg t ver u sh ash oc =>
    simp only [exec]
    cases hc : s.cfg? t with
    | none => exact ⟨hinv, EvolvesC.of_eq _ _ rfl rfl⟩
    | some c =>
      simp only
      split
      · rename_i hver
        have hct := cfg?_target s t c hc
        obtain ⟨c0, hc0, _, hg⟩ := hj
        rw [hc] at hc0
        simp only [Option.some.injEq] at hc0
        subst hc0
        have hok := hg hver
        obtain ⟨hmono, htgt⟩ := applyCfgUpd_committed c u hok
        -- the new record
        let c' : Cfg := { applyCfgUpd c u with version := c.version + 1, shadow := sh.getD [], ashadow := ash }
        have hc'c : c'.committed = (applyCfgUpd c u).committed := rfl
        have hc't : c'.target = c.target := htgt
        have hlook : ∀ t2 c2, s.cfg? t2 = some c2 → ∃ c2', (s.setCfg c').cfg? t2 = some c2' ∧
            c2.version ≤ c2'.version ∧ (c2'.version = c2.version → c2'.committed = c2.committed) ∧
            c2.committed ≤ c2'.committed := by
          intro t2 c2 h2
          rw [cfg?_setCfg]
          by_cases h : t2 = c'.target
          · have : t2 = t := by rw [h, hc't, hct]
            subst this
            rw [hc] at h2
            simp only [Option.some.injEq] at h2
            subst h2
            simp only [h, if_true]
            rw [← h, hc]
            refine ⟨c', rfl, ?_, ?_, ?_⟩
            · show c.version ≤ c.version + 1; omega
            · intro hv; exfalso
              have : c.version + 1 = c.version := hv
              omega
            · rw [hc'c]; exact hmono
          · simp only [h, if_false]
            exact ⟨c2, h2, Nat.le_refl _, fun _ => rfl, Nat.le_refl _⟩
        have hev : ∀ (s2 : Sys), s2.cfgs = (s.setCfg c').cfgs → s2.props = s.props → EvolvesC s s2 := by
          intro s2 h1 h2
          constructor
          · intro t2 c2 hh
            obtain ⟨c2', a, b, cc, d⟩ := hlook t2 c2 hh
            exact ⟨c2', by unfold Sys.cfg? at a ⊢; rw [h1]; exact a, b, cc, d⟩
          · intro id p hh
            exact ⟨p, by unfold Sys.prop? at hh ⊢; rw [h2]; exact hh, Nat.le_refl _, rfl⟩
        have hbound : ∀ m ∈ s.commitLog, ∃ cx, (s.setCfg c').cfg? m.1 = some cx ∧ m.2 ≤ cx.committed := by
          intro m hm
          obtain ⟨c1, h1, h2⟩ := hinv.log_bound m hm
          obtain ⟨c1', a, _, _, d⟩ := hlook _ _ h1
          exact ⟨c1', a, by omega⟩
        cases u with
        | commit idx ni =>
          simp only [CfgOK] at hok
          constructor
          · constructor
            · exact hinv.prop_prev
            · intro m hm
              simp only [List.mem_append, List.mem_singleton] at hm
              rcases hm with hm | hm
              · exact hbound m hm
              · subst hm
                obtain ⟨cx, a, _, _, _⟩ := hlook t c hc
                have : cx = c' := by
                  rw [cfg?_setCfg] at a
                  have hh : t = c'.target := by rw [hc't, hct]
                  simp only [hh, if_true] at a
                  rw [← hh, hc] at a
                  simpa using a.symm
                subst this
                exact ⟨_, a, Nat.le_refl _⟩
            · show (s.commitLog ++ [(t, idx)]).Pairwise _
              rw [List.pairwise_append]
              refine ⟨hinv.log_sorted, by simp, ?_⟩
              intro a ha b hb hab
              simp only [List.mem_singleton] at hb
              subst hb
              obtain ⟨c1, h1, h2⟩ := hinv.log_bound a ha
              rw [hab, hc] at h1
              simp only [Option.some.injEq] at h1
              subst h1
              show a.2 < idx
              omega
            · exact hinv.tx_pos
          · exact hev _ rfl rfl
        | _ =>
          exact ⟨⟨hinv.prop_prev, hbound, hinv.log_sorted, hinv.tx_pos⟩, hev _ rfl rfl⟩
      · exact ⟨hinv, EvolvesC.of_eq _ _ rfl rfl⟩

end OnosVerif.V2

namespace OnosVerif.V2

structure WInvC (w : World) : Prop where
  inv : CursorInv w.sys
  pend : ∀ pd ∈ w.pend, ∀ e ∈ pd.effects, JustC w.sys e

theorem cursorInv_empty : CursorInv ({} : Sys) := by
  constructor
  · intro id p h; simp [Sys.prop?] at h
  · intro m hm; cases hm
  · exact List.Pairwise.nil
  · intro t ht; cases ht

theorem winvC_init : WInvC ({} : World) := ⟨cursorInv_empty, by intro pd h; cases h⟩

theorem winvC_step (w : World) (h : WInvC w) (st : Step) : WInvC (step w st) := by
  cases st with
  | begin id env =>
    simp only [step]
    split
    · exact h
    · split
      · exact ⟨h.inv, h.pend⟩
      · refine ⟨h.inv, ?_⟩
        intro pd hpd e he
        simp only [List.mem_append, List.mem_singleton] at hpd
        rcases hpd with hpd | hpd
        · exact h.pend pd hpd e he
        · subst hpd
          exact plan_justC w.sys h.inv id env e he
  | adv k =>
    simp only [step]
    cases hk : w.pend[k]? with
    | none => exact h
    | some p =>
      simp only
      have hpmem : p ∈ w.pend := List.mem_of_getElem? hk
      cases heff : p.effects with
      | nil => exact ⟨h.inv, fun pd hpd => h.pend pd (mem_removeAt _ _ _ hpd)⟩
      | cons e rest =>
        simp only
        have hj : JustC w.sys e := h.pend p hpmem e (by rw [heff]; exact List.mem_cons_self)
        obtain ⟨hinv', hev⟩ := exec_stepC w.sys h.inv e hj
        have hstable : ∀ pd ∈ w.pend, ∀ e' ∈ pd.effects, JustC (exec w.sys e).1 e' :=
          fun pd hpd e' he' => justC_stable _ _ hev e' (h.pend pd hpd e' he')
        have hrest : ∀ e' ∈ rest, JustC (exec w.sys e).1 e' :=
          fun e' he' => hstable p hpmem e' (by rw [heff]; exact List.mem_cons_of_mem _ he')
        split
        · split
          · exact ⟨hinv', fun pd hpd => hstable pd (mem_removeAt _ _ _ hpd)⟩
          · refine ⟨hinv', ?_⟩
            intro pd hpd e' he'
            rcases List.mem_or_eq_of_mem_set hpd with hpd' | hpd'
            · exact hstable pd hpd' e' he'
            · subst hpd'
              exact hrest e' he'
        · exact ⟨hinv', fun pd hpd => hstable pd (mem_removeAt _ _ _ hpd)⟩
  | failNext k =>
    simp only [step]
    cases hk : w.pend[k]? with
    | none => exact h
    | some p => exact ⟨h.inv, fun pd hpd => h.pend pd (mem_removeAt _ _ _ hpd)⟩
  | crash => exact ⟨h.inv, by intro pd hpd; cases hpd⟩
  | nbSet tx =>
    obtain ⟨t, hsys, hpend, hidx, _⟩ := step_nbSet_sys w tx
    have hev : EvolvesC w.sys ({ w.sys with txs := w.sys.txs ++ [t] } : Sys) := EvolvesC.of_eq _ _ rfl rfl
    constructor
    · rw [hsys]
      refine cursorInv_frame w.sys _ h.inv rfl rfl rfl ?_
      intro x hx
      simp only [List.mem_append, List.mem_singleton] at hx
      rcases hx with hx | hx
      · exact h.inv.tx_pos x hx
      · subst hx; omega
    · rw [hsys, hpend]
      exact fun pd hpd e he => justC_stable _ _ hev e (h.pend pd hpd e he)
  | fault f =>
    have hs : (step w (.fault f)).sys = applyFault w.sys f := rfl
    have hp : (step w (.fault f)).pend = w.pend := rfl
    have hfr : (applyFault w.sys f).props = w.sys.props ∧ (applyFault w.sys f).cfgs = w.sys.cfgs ∧
        (applyFault w.sys f).commitLog = w.sys.commitLog ∧ (applyFault w.sys f).txs = w.sys.txs := by
      cases f <;> simp only [applyFault, Sys.setDev] <;> (try split) <;> simp
    have hev := EvolvesC.of_eq w.sys (applyFault w.sys f) hfr.2.1 hfr.1
    constructor
    · rw [hs]
      exact cursorInv_frame w.sys _ h.inv hfr.1 hfr.2.1 hfr.2.2.1 (by rw [hfr.2.2.2]; exact h.inv.tx_pos)
    · rw [hs, hp]
      exact fun pd hpd e he => justC_stable _ _ hev e (h.pend pd hpd e he)

theorem winvC_run (w : World) (h : WInvC w) (steps : List Step) : WInvC (run w steps) := by
  induction steps generalizing w with
  | nil => exact h
  | cons st rest ih => exact ih (step w st) (winvC_step w h st)

theorem winvC_reachable (w : World) (h : Reachable w) : WInvC w := by
  obtain ⟨steps, hs⟩ := h
  rw [hs]
  exact winvC_run {} winvC_init steps

/-- the committed index of every target only grows along every run -/
theorem step_evolvesC (w : World) (h : WInvC w) (st : Step) : EvolvesC w.sys (step w st).sys := by
  cases st with
  | begin id env =>
    simp only [step]
    split
    · exact EvolvesC.of_eq _ _ rfl rfl
    · split <;> exact EvolvesC.of_eq _ _ rfl rfl
  | adv k =>
    simp only [step]
    cases hk : w.pend[k]? with
    | none => exact EvolvesC.of_eq _ _ rfl rfl
    | some p =>
      simp only
      have hpmem : p ∈ w.pend := List.mem_of_getElem? hk
      cases heff : p.effects with
      | nil => exact EvolvesC.of_eq _ _ rfl rfl
      | cons e rest =>
        simp only
        have hj : JustC w.sys e := h.pend p hpmem e (by rw [heff]; exact List.mem_cons_self)
        obtain ⟨_, hev⟩ := exec_stepC w.sys h.inv e hj
        split
        · split <;> exact hev
        · exact hev
  | failNext k =>
    simp only [step]
    cases hk : w.pend[k]? <;> exact EvolvesC.of_eq _ _ rfl rfl
  | crash => exact EvolvesC.of_eq _ _ rfl rfl
  | nbSet tx => exact EvolvesC.of_eq _ _ rfl rfl
  | fault f =>
    have hfr : (applyFault w.sys f).props = w.sys.props ∧ (applyFault w.sys f).cfgs = w.sys.cfgs := by
      cases f <;> simp only [applyFault, Sys.setDev] <;> (try split) <;> simp
    exact EvolvesC.of_eq w.sys (applyFault w.sys f) hfr.2 hfr.1

theorem EvolvesC.trans (a b c : Sys) (h1 : EvolvesC a b) (h2 : EvolvesC b c) : EvolvesC a c := by
  constructor
  · intro t x hx
    obtain ⟨y, hy, v1, e1, m1⟩ := h1.cfg t x hx
    obtain ⟨z, hz, v2, e2, m2⟩ := h2.cfg t y hy
    refine ⟨z, hz, Nat.le_trans v1 v2, ?_, Nat.le_trans m1 m2⟩
    intro hv
    have a1 := e2 (by omega)
    have a2 := e1 (by omega)
    omega
  · intro id p hp
    obtain ⟨q, hq, v1, i1⟩ := h1.prop id p hp
    obtain ⟨r, hr, v2, i2⟩ := h2.prop id q hq
    exact ⟨r, hr, Nat.le_trans v1 v2, by rw [i2, i1]⟩

theorem run_evolvesC (w : World) (h : WInvC w) (steps : List Step) : EvolvesC w.sys (run w steps).sys := by
  induction steps generalizing w with
  | nil => exact EvolvesC.of_eq _ _ rfl rfl
  | cons st rest ih =>
    exact EvolvesC.trans _ _ _ (step_evolvesC w h st) (ih (step w st) (winvC_step w h st))

end OnosVerif.V2
