/-
Statements about the REGENERATED functions themselves (no twin in the statement): what must hold of
the state for the Go code, as the translator reads it now, to reach a given write.
-/
import OnosVerif.Generated.Facts
import OnosVerif.Proofs.V2SkelProp
import OnosVerif.Proofs.V2SkelCfg

namespace OnosVerif.V2.Skel
open OnosVerif.Generated
open OnosVerif.V2

/-- reconcileApply reaches its southbound request only if: the change is not yet applied, its
    predecessor on the target is (or it has none), the configuration is not SYNCHRONIZING, the applied
    term is not behind the mastership term, a master is recorded, its relation exists and its
    connection is up. -/
theorem source_apply_set_guard (s : Sys) (p : Proposal) (env : Env) (o : Option Proposal) (c : Cfg)
    (hph : p.apply = .opened) (hc : s.cfg? p.target = some c)
    (h : Tok.write "conn.Set" ∈ v2sk_prop_apply (gProp s p o env)) :
    c.applied < p.index ∧ (p.prev = 0 ∨ c.applied = p.prev) ∧ c.state ≠ .synchronizing ∧
      ¬ c.appliedTerm < c.term ∧ c.master ≠ 0 ∧ ∃ rel, s.rel? c.master = some rel ∧ rel.conn = true := by
  revert h
  unfold v2sk_prop_apply gProp
  gPropOf_atoms
  simp only [hph, hc, phCode, Option.getD_some, Option.isNone_some]
  gsplit h0 : c.applied ≥ p.index
  gsplit h1 : p.prev = 0
  · gsplit h3 : c.state = .synchronizing
    gsplit h4 : c.appliedTerm < c.term
    gsplit h5 : c.master = 0
    rcases Option.eq_none_or_eq_some (s.rel? c.master) with hr | ⟨rel, hr⟩ <;> simp [hr]
    cases hconn : rel.conn <;> simp [hconn]
    omega
  · gsplit h2 : c.applied = p.prev
    gsplit h3 : c.state = .synchronizing
    gsplit h4 : c.appliedTerm < c.term
    gsplit h5 : c.master = 0
    rcases Option.eq_none_or_eq_some (s.rel? c.master) with hr | ⟨rel, hr⟩ <;> simp [hr]
    cases hconn : rel.conn <;> simp [hconn]
    omega

/-- reconcileCommit merges (`configurations.Update`) only for a COMMITTING proposal whose
    predecessor is the last one merged: `Committed.Index = PrevIndex` -/
theorem source_commit_merge_guard (s : Sys) (p : Proposal) (env : Env) (o : Option Proposal) (c : Cfg)
    (hph : p.commit ≠ .none) (hc : s.cfg? p.target = some c)
    (h : Tok.write "r.configurations.Update" ∈ v2sk_prop_commit (gProp s p o env)) :
    p.commit = .opened ∧ c.committed = p.prev := by
  revert h
  unfold v2sk_prop_commit gProp
  gPropOf_atoms
  rcases ph_cases _ hph with hab | hab | hab <;>
    simp only [hab, hc, phCode, Option.getD_some, Option.isNone_some]
  · gsplit h1 : c.committed = p.prev
  · by_cases hn : p.next = 0 <;> simp [hn]
  · simp

/-- reconcileAbort moves a cursor of the configuration only from exactly the proposal's predecessor:
    `Committed.Index` is assigned only if it equals `PrevIndex`, `Applied.Index` only if it equals
    `PrevIndex` (and then the committed cursor is at the predecessor too, or already past the proposal) -/
theorem source_abort_cursor_guard (s : Sys) (p : Proposal) (env : Env) (o : Option Proposal) (c : Cfg)
    (hph : p.abort ≠ .none) (hc : s.cfg? p.target = some c) :
    (Tok.setN "config.Status.Committed.Index" p.index ∈ v2sk_prop_abort (gProp s p o env) → c.committed = p.prev) ∧
    (Tok.setN "config.Status.Applied.Index" p.index ∈ v2sk_prop_abort (gProp s p o env) →
      c.applied = p.prev ∧ (c.committed = p.prev ∨ c.committed ≥ p.index)) := by
  unfold v2sk_prop_abort gProp
  gPropOf_atoms
  rcases ph_cases _ hph with hab | hab | hab <;>
    simp only [hab, hc, phCode, Option.getD_some, Option.isNone_some]
  · by_cases h1 : c.committed = p.prev <;> by_cases h2 : c.applied = p.prev <;>
      by_cases h3 : c.committed ≥ p.index <;> simp [h1, h2, h3, Nat.ble_eq] <;> omega
  · by_cases hn : p.next = 0 <;> simp [hn]
  · simp

/-- reconcileConfiguration reports SYNCHRONIZED only from SYNCHRONIZING with a master recorded, and
    then only if nothing was ever applied or the re-synchronisation request was accepted over the
    master's live connection -/
theorem source_cfg_synced_guard (c : Cfg) (rel : Option Rel) (env : Env) (setFails : Bool)
    (h : Tok.setN "config.Status.State" 2 ∈ v2sk_cfg_reconcile (gCfgOf c rel env setFails)) :
    env.persistent = false ∧ c.state = .synchronizing ∧ c.master ≠ 0 ∧
      (c.applied = 0 ∨ (setFails = false ∧ ∃ r, rel = some r ∧ r.conn = true)) := by
  revert h
  unfold v2sk_cfg_reconcile
  gCfgOf_atoms
  rcases Bool.eq_false_or_eq_true env.persistent with hp | hp <;> simp only [hp]
  · by_cases h1 : cfgStateCode c.state = 3 <;> by_cases h2 : c.appliedTerm < c.term <;>
      simp [h1, h2, Nat.blt_eq]
  · by_cases h1 : c.state = .synchronizing
    · by_cases h2 : c.master = 0 <;> by_cases h3 : c.applied = 0 <;>
        rcases Option.eq_none_or_eq_some rel with hr | ⟨r, hr⟩ <;>
        simp [h1, h2, h3, hr, cfgStateCode] <;>
        (cases hconn : r.conn <;> cases setFails <;> simp [hconn] <;> (split <;> simp))
    · have h1' : (cfgStateCode c.state != 1) = true := by cases hs : c.state <;> simp_all [cfgStateCode]
      by_cases h2 : c.appliedTerm < c.term <;> simp [h1', h2, Nat.blt_eq]

end OnosVerif.V2.Skel
