/- Float bit patterns: the gob form and the float64 form decode to the float32 they encode
   (helper lemmas for OnosVerif/Props/C17.lean). -/
import OnosVerif.Proofs.Value

namespace OnosVerif.Value

theorem natOfBE_beFixed4 (X : Nat) (h : X < 4294967296) : natOfBE (beFixed 4 X) = X := by
  simp [beFixed, natOfBE]
  omega

theorem natOfBE_beFixed8 (Y : Nat) (h : Y < 18446744073709551616) : natOfBE (beFixed 8 Y) = Y := by
  simp [beFixed, natOfBE]
  omega

theorem natOfLE_leFixed8 (Y : Nat) (h : Y < 18446744073709551616) : natOfLE (leFixed 8 Y) = Y := by
  simp [leFixed, natOfLE]
  omega

theorem float32OfGob_finite (fl : UInt8) (X Y : Nat) :
    float32OfGob ([1, fl, 0, 0, 0, 53] ++ beFixed 4 X ++ beFixed 8 Y) = float32OfFinite fl (beFixed 4 X) (beFixed 8 Y) := by
  simp [beFixed, float32OfGob]

/-! ### bits.Len -/

theorem bitLenAux_zero (fuel : Nat) : bitLenAux fuel 0 = 0 := by cases fuel <;> simp [bitLenAux]

theorem bitLenAux_spec (fuel : Nat) : ∀ n : Nat, n < 2 ^ fuel → 0 < n →
    2 ^ (bitLenAux fuel n - 1) ≤ n ∧ n < 2 ^ bitLenAux fuel n ∧ 1 ≤ bitLenAux fuel n := by
  induction fuel with
  | zero => intro n h hn; simp at h; omega
  | succ f ih =>
    intro n h hn
    have hne : ¬(n = 0) := by omega
    have hlt : n / 2 < 2 ^ f := by rw [Nat.pow_succ] at h; omega
    simp only [bitLenAux, hne, if_false]
    by_cases h2 : n / 2 = 0
    · rw [h2, bitLenAux_zero]
      have : n = 1 := by omega
      subst this; simp
    · obtain ⟨h1, h3, h4⟩ := ih (n / 2) hlt (by omega)
      generalize bitLenAux f (n / 2) = r at *
      have e1 : 2 ^ (1 + r - 1) = 2 * 2 ^ (r - 1) := by
        have : 1 + r - 1 = (r - 1) + 1 := by omega
        rw [this, Nat.pow_succ]; omega
      have e2 : 2 ^ (1 + r) = 4 * 2 ^ (r - 1) := by
        have : 1 + r = (r - 1) + 1 + 1 := by omega
        rw [this, Nat.pow_succ, Nat.pow_succ]; omega
      have e3 : 2 ^ r = 2 * 2 ^ (r - 1) := by
        have : 2 ^ r = 2 ^ ((r - 1) + 1) := by congr 1; omega
        rw [this, Nat.pow_succ]; omega
      rw [e1, e2]
      rw [e3] at h3
      generalize 2 ^ (r - 1) = A at *
      omega

theorem bitLen_bounds (m : Nat) (h0 : 0 < m) (h : m < 8388608) :
    1 ≤ bitLen m ∧ bitLen m ≤ 23 ∧ 2 ^ (bitLen m - 1) ≤ m ∧ m < 2 ^ bitLen m := by
  have hlt : m < 2 ^ 64 := by omega
  obtain ⟨h1, h2, h3⟩ := bitLenAux_spec 64 m hlt h0
  refine ⟨h3, ?_, h1, h2⟩
  by_cases hk : bitLenAux 64 m ≤ 23
  · exact hk
  · have : 2 ^ 23 ≤ 2 ^ (bitLenAux 64 m - 1) := Nat.pow_le_pow_right (by decide) (by omega)
    omega

/-! ### the gob form -/

theorem f32_decomp (f : Nat) (hf : f < 4294967296) :
    f = 2147483648 * f32Sign f + 8388608 * f32Exp f + f32Man f ∧
    (f32Sign f = 0 ∨ f32Sign f = 1) ∧ f32Exp f < 256 ∧ f32Man f < 8388608 := by
  simp only [f32Sign, f32Exp, f32Man, two31, two23]
  omega

theorem float32OfParts_normal (s e m : Nat) (he1 : 1 ≤ e) (he2 : e ≤ 254) (hm : m < 8388608) :
    float32OfParts s ((e : Int) - 126) ((two23 + m) * 2 ^ 40) = some (s + 8388608 * e + m) := by
  have h1 : ¬((two23 + m) * 2 ^ 40 < two63) := by simp only [two23, two63]; omega
  have h2 : -125 ≤ (e : Int) - 126 ∧ (e : Int) - 126 ≤ 128 := by omega
  have h3 : (two23 + m) * 2 ^ 40 % 2 ^ 40 = 0 := by simp only [two23]; omega
  have h4 : ((e : Int) - 126 + 126).toNat = e := by omega
  have h5 : (two23 + m) * 2 ^ 40 / 2 ^ 40 - two23 = m := by simp only [two23]; omega
  unfold float32OfParts
  rw [if_neg h1, if_pos h2, if_pos h3, h4, h5, two23, Nat.mul_comm e]

theorem flag_cases (s : Nat) (hs : s = 0 ∨ s = 1) :
    (UInt8.ofNat (10 + s) = 10 ∨ UInt8.ofNat (10 + s) = 11) ∧
    (if UInt8.ofNat (10 + s) = 11 then two31 else 0) = 2147483648 * s := by
  rcases hs with rfl | rfl <;> decide

theorem float32OfFinite_normal (s e m : Nat) (hs : s = 0 ∨ s = 1) (he1 : 1 ≤ e) (he2 : e ≤ 254) (hm : m < 8388608) :
    float32OfFinite (UInt8.ofNat (10 + s)) (beFixed 4 (((e : Int) - 126) % 4294967296).toNat)
      (beFixed 8 ((two23 + m) * 2 ^ 40)) = some (2147483648 * s + 8388608 * e + m) := by
  have hX : (((e : Int) - 126) % 4294967296).toNat < 4294967296 := by omega
  have hY : (two23 + m) * 2 ^ 40 < 18446744073709551616 := by simp only [two23]; omega
  have hw : wrapI32 (((((e : Int) - 126) % 4294967296).toNat : Nat) : Int) = (e : Int) - 126 := by
    simp only [wrapI32]; split <;> omega
  obtain ⟨hfl, hsv⟩ := flag_cases s hs
  unfold float32OfFinite
  rw [if_pos hfl, hsv, natOfBE_beFixed4 _ hX, natOfBE_beFixed8 _ hY, hw, float32OfParts_normal _ e m he1 he2 hm]

theorem pow_split (a b c : Nat) (h : a + b = c) : 2 ^ c = 2 ^ a * 2 ^ b := by
  rw [← h, Nat.pow_add]

theorem float32OfParts_subnormal (s k m : Nat) (hk1 : 1 ≤ k) (hk2 : k ≤ 23)
    (hm1 : 2 ^ (k - 1) ≤ m) (_hm2 : m < 2 ^ k) :
    float32OfParts s ((k : Int) - 149) (m * 2 ^ (64 - k)) = some (s + m) := by
  have hpos : 0 < 2 ^ (64 - k) := Nat.pow_pos (by decide)
  have h63 : two63 = 2 ^ (k - 1) * 2 ^ (64 - k) := by
    have : (9223372036854775808 : Nat) = 2 ^ 63 := by decide
    rw [two63, this]; exact pow_split _ _ _ (by omega)
  have h1 : ¬(m * 2 ^ (64 - k) < two63) := by
    rw [h63]; exact Nat.not_lt.mpr (Nat.mul_le_mul_right _ hm1)
  have h2 : ¬(-125 ≤ (k : Int) - 149 ∧ (k : Int) - 149 ≤ 128) := by omega
  have h3 : -148 ≤ (k : Int) - 149 ∧ (k : Int) - 149 ≤ -126 := by omega
  have h4 : ((k : Int) - 149 + 149).toNat = k := by omega
  have h5 : m * 2 ^ (64 - k) % 2 ^ (64 - k) = 0 := Nat.mul_mod_left _ _
  have h6 : m * 2 ^ (64 - k) / 2 ^ (64 - k) = m := Nat.mul_div_cancel _ hpos
  unfold float32OfParts
  rw [if_neg h1, if_neg h2, if_pos h3, h4, if_pos h5, h6]

theorem float32OfFinite_subnormal (s m : Nat) (hs : s = 0 ∨ s = 1) (hm0 : 0 < m) (hm : m < 8388608) :
    float32OfFinite (UInt8.ofNat (10 + s)) (beFixed 4 (((bitLen m : Int) - 149) % 4294967296).toNat)
      (beFixed 8 (m * 2 ^ (64 - bitLen m))) = some (2147483648 * s + m) := by
  obtain ⟨hk1, hk2, hm1, hm2⟩ := bitLen_bounds m hm0 hm
  generalize bitLen m = k at *
  have hX : (((k : Int) - 149) % 4294967296).toNat < 4294967296 := by omega
  have hY : m * 2 ^ (64 - k) < 18446744073709551616 := by
    have h64 : (18446744073709551616 : Nat) = 2 ^ k * 2 ^ (64 - k) := by
      have : (18446744073709551616 : Nat) = 2 ^ 64 := by decide
      rw [this]; exact pow_split _ _ _ (by omega)
    rw [h64]; exact Nat.mul_lt_mul_of_pos_right hm2 (Nat.pow_pos (by decide))
  have hw : wrapI32 (((((k : Int) - 149) % 4294967296).toNat : Nat) : Int) = (k : Int) - 149 := by
    simp only [wrapI32]; split <;> omega
  obtain ⟨hfl, hsv⟩ := flag_cases s hs
  unfold float32OfFinite
  rw [if_pos hfl, hsv, natOfBE_beFixed4 _ hX, natOfBE_beFixed8 _ hY, hw,
    float32OfParts_subnormal _ k m hk1 hk2 hm1 hm2]

/-- `Float32()` of the bytes `NewTypedValueFloat` stores for a float32 is that float32. -/
theorem float32OfGob_gobFloat32 (f : Nat) (hf : f < 4294967296) (hn : isNaN32 f = false) :
    float32OfGob (gobFloat32 f) = some f := by
  obtain ⟨hd, hs, he, hm⟩ := f32_decomp f hf
  have hnan : ¬(f32Exp f = 255 ∧ f32Man f ≠ 0) := by
    intro ⟨h1, h2⟩; simp [isNaN32, h1, h2] at hn
  simp only [gobFloat32]
  generalize f32Sign f = s at *
  generalize f32Exp f = e at *
  generalize f32Man f = m at *
  by_cases hz : e = 0 ∧ m = 0
  · rw [if_pos hz]
    obtain ⟨rfl, rfl⟩ := hz
    rcases hs with rfl | rfl
    · subst hd; decide
    · subst hd; decide
  · rw [if_neg hz]
    by_cases hinf : e = 255
    · rw [if_pos hinf]
      have hm0 : m = 0 := by
        by_cases h : m = 0
        · exact h
        · exact absurd ⟨hinf, h⟩ hnan
      subst hinf; subst hm0
      rcases hs with rfl | rfl
      · subst hd; decide
      · subst hd; decide
    · rw [if_neg hinf]
      by_cases hsub : e = 0
      · rw [if_pos hsub]
        have hm0 : 0 < m := by omega
        have hd' : f = 2147483648 * s + m := by omega
        rw [float32OfGob_finite, float32OfFinite_subnormal s m hs hm0 hm, hd']
      · rw [if_neg hsub]
        rw [float32OfGob_finite, float32OfFinite_normal s e m hs (by omega) (by omega) hm, hd]

/-! ### the float64 form of leaf-list members -/

theorem narrowParts_normal (s e m : Nat) (he1 : 1 ≤ e) (he2 : e ≤ 254) :
    narrowParts s (e + 896) (2 ^ 29 * m) = some (2147483648 * s + 8388608 * e + m) := by
  have h1 : ¬(e + 896 = 0 ∧ 2 ^ 29 * m = 0) := by omega
  have h2 : ¬(e + 896 = 2047) := by omega
  have h3 : 897 ≤ e + 896 ∧ e + 896 ≤ 1150 := by omega
  have h4 : 2 ^ 29 * m % 2 ^ 29 = 0 := Nat.mul_mod_right _ _
  have h5 : 2 ^ 29 * m / 2 ^ 29 = m := Nat.mul_div_cancel_left _ (Nat.pow_pos (by decide))
  have h6 : e + 896 - 896 = e := by omega
  unfold narrowParts
  rw [if_neg h1, if_neg h2, if_pos h3, if_pos h4, h5, h6, two31, two23]

theorem narrowParts_subnormal (s k m : Nat) (hk1 : 1 ≤ k) (hk2 : k ≤ 23)
    (hm1 : 2 ^ (k - 1) ≤ m) (hm2 : m < 2 ^ k) :
    narrowParts s (k + 873) (2 ^ (53 - k) * m % 2 ^ 52) = some (2147483648 * s + m) := by
  have hpos : 0 < 2 ^ (53 - k) := Nat.pow_pos (by decide)
  have h52 : 2 ^ 52 = 2 ^ (53 - k) * 2 ^ (k - 1) := pow_split _ _ _ (by omega)
  have h53 : 2 ^ 53 = 2 ^ (53 - k) * 2 ^ k := pow_split _ _ _ (by omega)
  have hlo : 2 ^ 52 ≤ 2 ^ (53 - k) * m := by rw [h52]; exact Nat.mul_le_mul_left _ hm1
  have hhi : 2 ^ (53 - k) * m < 2 ^ 53 := by rw [h53]; exact Nat.mul_lt_mul_of_pos_left hm2 hpos
  have hp52 : (2 : Nat) ^ 52 = 4503599627370496 := by decide
  have hp53 : (2 : Nat) ^ 53 = 9007199254740992 := by decide
  have hmod : 2 ^ (53 - k) * m % 2 ^ 52 = 2 ^ (53 - k) * m - 2 ^ 52 := by
    rw [hp52] at hlo ⊢
    rw [hp53] at hhi
    generalize 2 ^ (53 - k) * m = T at *
    omega
  have hback : 2 ^ 52 + (2 ^ (53 - k) * m - 2 ^ 52) = 2 ^ (53 - k) * m := by omega
  have h1 : ¬(k + 873 = 0 ∧ 2 ^ (53 - k) * m % 2 ^ 52 = 0) := by omega
  have h2 : ¬(k + 873 = 2047) := by omega
  have h3 : ¬(897 ≤ k + 873 ∧ k + 873 ≤ 1150) := by omega
  have h4 : 874 ≤ k + 873 ∧ k + 873 ≤ 896 := by omega
  have h5 : k + 873 - 873 = k := by omega
  have h6 : 2 ^ (53 - k) * m % 2 ^ (53 - k) = 0 := Nat.mul_mod_right _ _
  have h7 : 2 ^ (53 - k) * m / 2 ^ (53 - k) = m := Nat.mul_div_cancel_left _ hpos
  unfold narrowParts
  rw [if_neg h1, if_neg h2, if_neg h3, if_pos h4, h5, hmod, hback, if_pos h6, h7, two31]

/-- widening a float32 to float64 and narrowing it again gives the same bits, and the widened
    pattern fits 64 bits. -/
theorem narrow64_widen32 (f : Nat) (hf : f < 4294967296) (hn : isNaN32 f = false) :
    widen32 f < 18446744073709551616 ∧ narrow64 (widen32 f) = some f := by
  obtain ⟨hd, hs, he, hm⟩ := f32_decomp f hf
  have hnan : ¬(f32Exp f = 255 ∧ f32Man f ≠ 0) := by
    intro ⟨h1, h2⟩; simp [isNaN32, h1, h2] at hn
  simp only [widen32, narrow64]
  generalize f32Sign f = s at *
  generalize f32Exp f = e at *
  generalize f32Man f = m at *
  have hp52 : (2 : Nat) ^ 52 = 4503599627370496 := by decide
  have hp29 : (2 : Nat) ^ 29 = 536870912 := by decide
  by_cases hz : e = 0 ∧ m = 0
  · rw [if_pos hz]
    have e1 : (two63 * s + 0) / two63 % 2 = s := by simp only [two63]; omega
    have e2 : (two63 * s + 0) / 2 ^ 52 % 2048 = 0 := by simp only [two63, hp52]; omega
    have e3 : (two63 * s + 0) % 2 ^ 52 = 0 := by simp only [two63, hp52]; omega
    rw [e1, e2, e3]
    constructor
    · simp only [two63]; omega
    · have : f = 2147483648 * s := by omega
      rw [this]; simp [narrowParts, two31]
  · rw [if_neg hz]
    by_cases hinf : e = 255
    · rw [if_pos hinf]
      have hm0 : m = 0 := by
        by_cases h : m = 0
        · exact h
        · exact absurd ⟨hinf, h⟩ hnan
      rw [if_pos hm0]
      have e1 : (two63 * s + (2 ^ 52 * 2047 + 0)) / two63 % 2 = s := by simp only [two63, hp52]; omega
      have e2 : (two63 * s + (2 ^ 52 * 2047 + 0)) / 2 ^ 52 % 2048 = 2047 := by simp only [two63, hp52]; omega
      have e3 : (two63 * s + (2 ^ 52 * 2047 + 0)) % 2 ^ 52 = 0 := by simp only [two63, hp52]; omega
      rw [e1, e2, e3]
      constructor
      · simp only [two63, hp52]; omega
      · have : f = 2147483648 * s + 8388608 * 255 := by omega
        rw [this]; simp [narrowParts, two31, two23]
    · rw [if_neg hinf]
      by_cases hsub : e = 0
      · rw [if_pos hsub]
        have hm0 : 0 < m := by omega
        obtain ⟨hk1, hk2, hm1, hm2⟩ := bitLen_bounds m hm0 hm
        generalize bitLen m = k at *
        have hlt : 2 ^ (53 - k) * m % 2 ^ 52 < 2 ^ 52 := Nat.mod_lt _ (Nat.pow_pos (by decide))
        have hsp := narrowParts_subnormal s k m hk1 hk2 hm1 hm2
        generalize 2 ^ (53 - k) * m % 2 ^ 52 = R at *
        have e1 : (two63 * s + (2 ^ 52 * (k + 873) + R)) / two63 % 2 = s := by
          simp only [two63, hp52] at *; omega
        have e2 : (two63 * s + (2 ^ 52 * (k + 873) + R)) / 2 ^ 52 % 2048 = k + 873 := by
          simp only [two63, hp52] at *; omega
        have e3 : (two63 * s + (2 ^ 52 * (k + 873) + R)) % 2 ^ 52 = R := by
          simp only [two63, hp52] at *; omega
        have hfe : f = 2147483648 * s + m := by omega
        rw [e1, e2, e3, hsp, hfe]
        constructor
        · simp only [two63, hp52] at *; omega
        · rfl
      · rw [if_neg hsub]
        have e1 : (two63 * s + (2 ^ 52 * (e + 896) + 2 ^ 29 * m)) / two63 % 2 = s := by
          simp only [two63, hp52, hp29]; omega
        have e2 : (two63 * s + (2 ^ 52 * (e + 896) + 2 ^ 29 * m)) / 2 ^ 52 % 2048 = e + 896 := by
          simp only [two63, hp52, hp29]; omega
        have e3 : (two63 * s + (2 ^ 52 * (e + 896) + 2 ^ 29 * m)) % 2 ^ 52 = 2 ^ 29 * m := by
          simp only [two63, hp52, hp29]; omega
        rw [e1, e2, e3, narrowParts_normal s e m (by omega) (by omega)]
        constructor
        · simp only [two63, hp52, hp29]; omega
        · rw [hd]

theorem llFloatLoop_cons (W : Nat) (rest : Bytes) (hW : W < 18446744073709551616) :
    llFloatLoop (leFixed 8 W ++ rest) =
      match narrow64 W, llFloatLoop rest with
      | some f, some fs => some (f :: fs)
      | _, _ => none := by
  have h := natOfLE_leFixed8 W hW
  simp only [leFixed] at h
  simp only [leFixed, List.cons_append, List.nil_append, llFloatLoop, h]
  rfl

/-- `TypedLeafListFloat.List()` of what `NewLeafListFloatTv` stores is the list of float32s. -/
theorem tvLLFloat_newLLFloat (fs : List Nat) (h : ∀ f ∈ fs, f < 4294967296 ∧ isNaN32 f = false) :
    tvLLFloat (newLLFloat fs) = .ok fs := by
  have : llFloatLoop (fs.flatMap fun f => leFixed 8 (widen32 f)) = some fs := by
    induction fs with
    | nil => simp [llFloatLoop]
    | cons f fs ih =>
      obtain ⟨hf, hn⟩ := h f List.mem_cons_self
      obtain ⟨hW, hN⟩ := narrow64_widen32 f hf hn
      have ih' := ih (fun g hg => h g (List.mem_cons_of_mem _ hg))
      rw [List.flatMap_cons, llFloatLoop_cons _ _ hW, hN, ih']
  simp only [tvLLFloat, newLLFloat, this]

end OnosVerif.Value
