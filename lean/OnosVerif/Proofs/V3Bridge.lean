/-
The bridge from the executable twin (`step`, `run`) to the protocol core (`CStep`, `CReach`):
every branch the planner takes is an `Enabled` branch of the core, every applied write is a `cAct`,
everything else (configuration and mastership reconcilers, faults, failed writes, side-map
writes) leaves the core unchanged.  Hence every state reachable under a schedule without swallowed
conflicts has a core in `CReach`.
-/
import OnosVerif.V3.Spec
import OnosVerif.Proofs.V3Core

namespace OnosVerif.V3

/-! ## Lookups -/

theorem core_tx (s : Sys) (i : Nat) : (core s).tx i = (getTx s i).map Tx.core := by
  unfold Core.tx getTx core
  split
  · rfl
  · simp [List.getElem?_map]

theorem core_tx_some {s : Sys} {i : Nat} {t : Tx} (h : getTx s i = some t) : (core s).tx i = some t.core := by
  rw [core_tx, h]; rfl

@[simp] theorem core_cur (s : Sys) : (core s).cur = s.cfg.cur := rfl
@[simp] theorem core_hist (s : Sys) : (core s).hist = s.hist := rfl

theorem prevBusyCommit_core (s : Sys) : cPrevBusyCommit (core s) = prevBusyCommit s s.cfg := by
  unfold cPrevBusyCommit prevBusyCommit
  rw [core_tx]
  cases h : getTx s s.cfg.cIndex <;> simp [h, Cfg.cur, Tx.core] <;> grind

theorem prevBusyApply_core (s : Sys) : cPrevBusyApply (core s) = prevBusyApply s s.cfg := by
  unfold cPrevBusyApply prevBusyApply
  rw [core_tx]
  cases h : getTx s s.cfg.aIndex <;> simp [h, Cfg.cur, Tx.core] <;> grind

theorem prevBusyRbCommit_core (s : Sys) (i : Nat) : cPrevBusyRbCommit (core s) i = prevBusyRbCommit s s.cfg i := by
  unfold cPrevBusyRbCommit prevBusyRbCommit
  rw [core_tx]
  cases h : getTx s s.cfg.cIndex <;> simp [h, Cfg.cur, Tx.core] <;> grind

theorem prevBusyRbAbort_core (s : Sys) : cPrevBusyRbAbort (core s) = prevBusyRbAbort s s.cfg := by
  unfold cPrevBusyRbAbort prevBusyRbAbort
  rw [core_tx]
  cases h : getTx s s.cfg.aIndex <;> simp [h, Cfg.cur, Tx.core] <;> grind

theorem prevBusyRbApply_core (s : Sys) (i : Nat) : cPrevBusyRbApply (core s) i = prevBusyRbApply s s.cfg i := by
  unfold cPrevBusyRbApply prevBusyRbApply
  rw [core_tx]
  cases h : getTx s s.cfg.aIndex <;> simp [h, Cfg.cur, Tx.core] <;> grind

/-! ## Acts -/

theorem actCfg_cur (c : Cfg) (a : Act) : (actCfg c a).cur = cActCur c.cur a := by
  cases a <;> rfl

theorem actTx_core (t : Tx) (a : Act) : (actTx t a).core = cActTx t.core a := by
  cases a <;> rfl

theorem core_setTx {s : Sys} {i : Nat} {t t' : Tx} (h : getTx s i = some t) :
    core (setTx s i t') = (core s).setTx i t'.core := by
  unfold setTx Core.setTx
  unfold getTx at h
  split
  · rfl
  · simp [core, List.map_set]

theorem core_addEvent (s : Sys) (a : Act) : core (addEvent s a) = (core s).addEvent a := by
  unfold addEvent Core.addEvent
  cases h : actEvent a <;> simp [core]

/-- an applied write is a stutter (the side-map transaction failed, or the record is missing) or
    the corresponding act of the core -/
theorem core_applyAct (s : Sys) (a : Act) (last : Option Str) :
    core (applyAct s a last) = core s ∨ core (applyAct s a last) = cAct (core s) a := by
  unfold applyAct
  by_cases hc : a.isCfg = true
  · simp only [hc, if_true]
    split
    · left; rfl
    · right
      rw [core_addEvent, cAct_cfg hc]
      congr 1
      simp only [core]
      congr 1
      rw [← actCfg_cur]
      rfl
  · have hc' : a.isCfg = false := by simpa using hc
    simp only [hc', Bool.false_eq_true, if_false]
    cases ht : getTx s a.txIndex with
    | none => left; rfl
    | some t =>
      right
      simp only
      rw [core_addEvent, core_setTx ht, cAct_tx hc' (core_tx_some ht)]
      congr 2
      rw [← actTx_core]
      rfl

/-! ## The planner takes enabled branches -/

theorem commitChange_enabled {s : Sys} {i : Nat} {t : Tx} {v : View} {verdict : Verdict} {p : Plan}
    (hv : v.c = s.cfg) (hp : t.phase = .change) (h : commitChange s i t v verdict = .plan p) :
    p.acts = [] ∨ Enabled (core s) i t.core p.acts := by
  have hb := prevBusyCommit_core s
  obtain ⟨c, cv, av⟩ := v
  simp only at hv
  subst hv
  unfold commitChange at h
  simp only at h
  repeat' (split at h)
  all_goals (first | (simp only [Outcome.plan.injEq, reduceCtorEq] at h; subst h) | (exact absurd h (by simp)))
  all_goals (first | (left; rfl; done) | right)
  all_goals dsimp only
  all_goals
    first
    | (apply Enabled.commitBegin <;> simp_all [Tx.core, Cfg.cur]; done)
    | (apply Enabled.commitBeginResume <;> simp_all [Tx.core, Cfg.cur]; done)
    | (apply Enabled.commitRecover <;> simp_all [Tx.core, Cfg.cur]; done)
    | (apply Enabled.commitValid <;> simp_all [Tx.core, Cfg.cur]; done)
    | (apply Enabled.commitInvalid <;> simp_all [Tx.core, Cfg.cur]; done)
    | (apply Enabled.commitFailedRecover <;> simp_all [Tx.core, Cfg.cur]; done)

theorem afterSend_acts (s : Sys) (c : Cfg) (values : Values) (cls : AnsClass) (i : Nat)
    (okActs : List Act) (failActs : Fail → List Act) :
    (afterSend s c values cls i okActs failActs).acts = [] ∨
    (afterSend s c values cls i okActs failActs).acts = okActs ∨
    ∃ f, (afterSend s c values cls i okActs failActs).acts = failActs f := by
  unfold afterSend
  split
  · left; rfl
  · split
    · right; left; rfl
    · left; rfl
    · left; rfl
    · right; right; exact ⟨_, rfl⟩

theorem applyChange_enabled {s : Sys} {i : Nat} {t : Tx} {v : View} {ans : DevAns} {p : Plan}
    (hv : v.c = s.cfg) (hp : t.phase = .change) (h : applyChange s i t v ans = .plan p) :
    p.acts = [] ∨ Enabled (core s) i t.core p.acts := by
  have hb := prevBusyApply_core s
  obtain ⟨c, cv, av⟩ := v
  simp only at hv
  subst hv
  unfold applyChange at h
  simp only at h
  repeat' (split at h)
  all_goals (first | (simp only [Outcome.plan.injEq, reduceCtorEq] at h; subst h) | (exact absurd h (by simp)))
  all_goals (first | (left; rfl; done) | skip)
  all_goals (try dsimp only)
  all_goals
    first
    | (right; apply Enabled.applyBeginResume <;> simp_all [Tx.core, Cfg.cur]; done)
    | (right; apply Enabled.applyAbort <;> simp_all [Tx.core, Cfg.cur]; done)
    | (right; apply Enabled.applyBegin <;> simp_all [Tx.core, Cfg.cur]; done)
    | (right; apply Enabled.applyRecover <;> simp_all [Tx.core, Cfg.cur]; done)
    | (right; apply Enabled.applySkip <;> simp_all [Tx.core, Cfg.cur]; done)
    | skip
  -- the IN_PROGRESS branch after applyValues
  all_goals
    rename_i hcc _ hca hrec
    rcases afterSend_acts s s.cfg (addDeleteChildren i t.values cv) (classify ans) i
        [.aApply i t.cord (addDeleteChildren i t.values cv), .tApplyDone i]
        (fun f => [.tApplyFailed i f, .aFailed i t.cord]) with h0 | h0 | ⟨f, h0⟩
    · left; exact h0
    · right; rw [h0]
      apply Enabled.applyOk <;> simp_all [Tx.core, Cfg.cur]
    · right; rw [h0]
      apply Enabled.applyFail <;> simp_all [Tx.core, Cfg.cur]

theorem commitRollback_enabled {s : Sys} {i : Nat} {t : Tx} {v : View} {p : Plan}
    (hv : v.c = s.cfg) (hp : t.phase = .rollback) (h : commitRollback s i t v = .plan p) :
    p.acts = [] ∨ Enabled (core s) i t.core p.acts := by
  have hb := prevBusyRbCommit_core s i
  obtain ⟨c, cv, av⟩ := v
  simp only at hv
  subst hv
  unfold commitRollback at h
  simp only at h
  repeat' (split at h)
  all_goals (first | (simp only [Outcome.plan.injEq, reduceCtorEq] at h; subst h) | (exact absurd h (by simp)))
  all_goals (first | (left; rfl; done) | right)
  all_goals (try dsimp only)
  all_goals
    first
    | (apply Enabled.rbCommitBegin <;> simp_all [Tx.core, Cfg.cur]; done)
    | (apply Enabled.rbCommitBeginResume <;> simp_all [Tx.core, Cfg.cur]; done)
    | (apply Enabled.rbCommit <;> simp_all [Tx.core, Cfg.cur]; done)
    | (apply Enabled.rbCommitRecover <;> simp_all [Tx.core, Cfg.cur]; done)

theorem applyRollback_enabled {s : Sys} {i : Nat} {t : Tx} {v : View} {ans : DevAns} {p : Plan}
    (hv : v.c = s.cfg) (hp : t.phase = .rollback) (h : applyRollback s i t v ans = .plan p) :
    p.acts = [] ∨ Enabled (core s) i t.core p.acts := by
  have hb1 := prevBusyRbAbort_core s
  have hb2 := prevBusyRbApply_core s i
  obtain ⟨c, cv, av⟩ := v
  simp only at hv
  subst hv
  unfold applyRollback finishChangeApply at h
  simp only at h
  repeat' (split at h)
  all_goals (first | (simp only [Outcome.plan.injEq, reduceCtorEq] at h; subst h) | (exact absurd h (by simp)) | skip)
  all_goals (first | (left; rfl; done) | skip)
  all_goals (try dsimp only)
  all_goals
    first
    | (exfalso; simp_all; done)
    | (right; apply Enabled.rbAbortPending <;> simp_all [Tx.core, Cfg.cur]; done)
    | (right; apply Enabled.rbCancelInProgress <;> simp_all [Tx.core, Cfg.cur]; done)
    | (right; apply Enabled.rbSkip <;> simp_all [Tx.core, Cfg.cur]; done)
    | (right; apply Enabled.rbApplyBeginResume <;> simp_all [Tx.core, Cfg.cur]; done)
    | (right; apply Enabled.rbApplyBegin <;> simp_all [Tx.core, Cfg.cur]; done)
    | (right; apply Enabled.rbApplyRecover <;> simp_all [Tx.core, Cfg.cur]; done)
    | (right; apply Enabled.rbApplyBeginResume <;> (cases hca : t.ca <;> simp_all [Tx.core, Cfg.cur]); done)
    | (right; apply Enabled.rbApplyBegin <;> (cases hca : t.ca <;> simp_all [Tx.core, Cfg.cur]); done)
    | skip
  -- the IN_PROGRESS branch after applyValues
  all_goals
    rcases afterSend_acts s s.cfg (addDeleteChildren i t.rvals cv) (classifyRb ans) i
        [.aRbApply i t.rord t.ridx (addDeleteChildren i t.rvals cv), .tRbApplyDone i]
        (fun f => [.aRbFailed i t.rord, .tRbApplyFailed i f]) with h0 | h0 | ⟨f, h0⟩
    · left; exact h0
    · right; rw [h0]
      apply Enabled.rbApplyOk <;> simp_all [Tx.core, Cfg.cur]
    · right; rw [h0]
      apply Enabled.rbApplyFail <;> simp_all [Tx.core, Cfg.cur]


theorem planTx_enabled {s : Sys} {i : Nat} {verdict : Verdict} {ans : DevAns} {p : Plan}
    (h : planTx s i verdict ans = .plan p) :
    p.acts = [] ∨ ∃ t, getTx s i = some t ∧ Enabled (core s) i t.core p.acts := by
  unfold planTx at h
  cases hg : getTx s i with
  | none => rw [hg] at h; simp at h
  | some t =>
    rw [hg] at h
    simp only at h
    cases hph : t.phase with
    | change =>
      rw [hph] at h
      simp only [Outcome.orElse] at h
      cases hc : commitChange s i t (view s) verdict with
      | fall =>
        rw [hc] at h
        rcases applyChange_enabled rfl hph h with h0 | h0
        · exact Or.inl h0
        · exact Or.inr ⟨t, rfl, h0⟩
      | plan q =>
        rw [hc] at h
        simp only [Outcome.plan.injEq] at h
        subst h
        rcases commitChange_enabled rfl hph hc with h0 | h0
        · exact Or.inl h0
        · exact Or.inr ⟨t, rfl, h0⟩
      | panic e => rw [hc] at h; simp at h
    | rollback =>
      rw [hph] at h
      simp only [Outcome.orElse] at h
      cases hc : commitRollback s i t (view s) with
      | fall =>
        rw [hc] at h
        rcases applyRollback_enabled rfl hph h with h0 | h0
        · exact Or.inl h0
        · exact Or.inr ⟨t, rfl, h0⟩
      | plan q =>
        rw [hc] at h
        simp only [Outcome.plan.injEq] at h
        subst h
        rcases commitRollback_enabled rfl hph hc with h0 | h0
        · exact Or.inl h0
        · exact Or.inr ⟨t, rfl, h0⟩
      | panic e => rw [hc] at h; simp at h

end OnosVerif.V3
