/-
Induction over the world's steps: `PhaseInv` and the justification of every pending effect hold
in every reachable world (any interleaving of effects of any number of in-flight invocations,
failed writes, crashes, faults and new transactions).
-/
import OnosVerif.Proofs.V2Phase

namespace OnosVerif.V2

/-- how the transaction and proposal stores may change in one step: records persist, versions
    grow, a record with an unchanged version is unchanged, finished facts stay -/
structure Evolves (s s' : Sys) : Prop where
  tx : ∀ i t, s.tx? i = some t → ∃ t', s'.tx? i = some t' ∧ t.version ≤ t'.version ∧
      (t'.version = t.version → t' = t) ∧ (t.commit ≠ .none → t'.commit ≠ .none) ∧
      (t.validate = .done → t'.validate = .done ∧ t'.proposals = t.proposals) ∧
      (t.proposals ≠ none → t'.proposals = t.proposals)
  prop : ∀ id p, s.prop? id = some p → ∃ p', s'.prop? id = some p' ∧ p.version ≤ p'.version ∧
      (p'.version = p.version → p' = p) ∧ (p.commit ≠ .none → p'.commit ≠ .none) ∧
      (p.validate = .done → p'.validate = .done) ∧ p'.index = p.index ∧
      (p.validate = .failed → p'.validate = .failed)

theorem Evolves.refl_of_eq (s s' : Sys) (ht : s'.txs = s.txs) (hp : s'.props = s.props) : Evolves s s' := by
  constructor
  · intro i t h
    refine ⟨t, ?_, Nat.le_refl _, fun _ => rfl, id, fun h => ⟨h, rfl⟩, fun _ => rfl⟩
    unfold Sys.tx? at h ⊢; rw [ht]; exact h
  · intro id p h
    refine ⟨p, ?_, Nat.le_refl _, fun _ => rfl, fun h => h, fun h => h, rfl, fun h => h⟩
    unfold Sys.prop? at h ⊢; rw [hp]; exact h

theorem allValidated_evolves (s s' : Sys) (hev : Evolves s s') (t : Tx) (h : AllValidated s t) :
    AllValidated s' t := by
  obtain ⟨ps, hps, hall⟩ := h
  refine ⟨ps, hps, ?_⟩
  intro pid hpid
  obtain ⟨p, hp, hv⟩ := hall pid hpid
  obtain ⟨p', hp', _, _, _, hv', _, _⟩ := hev.prop pid p hp
  exact ⟨p', hp', hv' hv⟩

/-- a justified pending effect stays justified whatever else happens -/
theorem just_stable (s s' : Sys) (hev : Evolves s s') (e : Effect) (h : Just s e) : Just s' e := by
  cases e with
  | tx i ver u =>
    obtain ⟨t, ht, hle, hg⟩ := h
    obtain ⟨t', ht', hv, heq, _, _, _⟩ := hev.tx i t ht
    refine ⟨t', ht', Nat.le_trans hle hv, ?_⟩
    intro hver
    have htv : t.version = ver := Nat.le_antisymm (by omega) hle
    have : t' = t := heq (by omega)
    subst this
    obtain ⟨h1, h2, h3⟩ := hg htv
    exact ⟨h1, fun hu => allValidated_evolves s s' hev _ (h2 hu), h3⟩
  | prop id ver u =>
    obtain ⟨p, hp, hle, hg⟩ := h
    obtain ⟨p', hp', hv, heq, _, _, _, _⟩ := hev.prop id p hp
    refine ⟨p', hp', Nat.le_trans hle hv, ?_⟩
    intro hver
    have hpv : p.version = ver := Nat.le_antisymm (by omega) hle
    have : p' = p := heq (by omega)
    subst this
    obtain ⟨h1, h2⟩ := hg hpv
    refine ⟨h1, fun hu => ?_⟩
    obtain ⟨t, ht, hc⟩ := h2 hu
    obtain ⟨t', ht', _, _, hc', _, _⟩ := hev.tx _ t ht
    exact ⟨t', ht', hc' hc⟩
  | createProp p => exact h
  | createCfg t n => trivial
  | cfgVals t v => trivial
  | cfgAVals t v => trivial
  | dev r => trivial
  | cfg t ver u sh ash oc =>
    cases u with
    | commit idx ni =>
      obtain ⟨p, hp, hc⟩ := h
      obtain ⟨p', hp', _, _, hc', _, _, _⟩ := hev.prop _ p hp
      exact ⟨p', hp', hc' hc⟩
    | _ => trivial

/-! ### a successful transaction write -/

theorem applyTxUpd_props (t : Tx) (u : TxUpd) (hok : TxOK t u) (hv : t.validate = .done) :
    (applyTxUpd t u).proposals = t.proposals := by
  cases u <;> simp only [TxOK] at hok <;> simp_all [applyTxUpd]

theorem applyTxUpd_props_fixed (t : Tx) (u : TxUpd) (hok : TxOK t u) (hv : t.proposals ≠ none) :
    (applyTxUpd t u).proposals = t.proposals := by
  cases u <;> simp only [TxOK] at hok <;> simp_all [applyTxUpd]

/-- what a transaction update can newly establish -/
theorem applyTxUpd_new (t : Tx) (u : TxUpd) (hok : TxOK t u) :
    ((applyTxUpd t u).validate = .done → t.validate = .done ∨ u = .validateDone) ∧
    ((applyTxUpd t u).proposals = t.proposals ∨ ∃ ps, u = .setProposals ps ∧ (applyTxUpd t u).proposals = some ps) ∧
    ((applyTxUpd t u).init = .done → t.init = .done ∨ (u = .initDone ∧ (applyTxUpd t u).proposals = t.proposals)) := by
  cases u <;> simp only [TxOK] at hok <;> simp_all [applyTxUpd]

def bumpTx (t : Tx) (u : TxUpd) : Tx := { applyTxUpd t u with version := t.version + 1 }

theorem exec_tx_eq (s : Sys) (i ver : Nat) (u : TxUpd) :
    (exec s (.tx i ver u)).1 =
      match s.tx? i with
      | none => s
      | some t => if t.version = ver then s.setTx (bumpTx t u) else s := by
  simp only [exec]
  cases s.tx? i with
  | none => rfl
  | some t =>
    simp only
    split <;> rfl

theorem setTx_props (s : Sys) (t : Tx) : (s.setTx t).props = s.props := rfl
theorem setTx_commitLog (s : Sys) (t : Tx) : (s.setTx t).commitLog = s.commitLog := rfl
theorem setTx_prop? (s : Sys) (t : Tx) (id : PropId) : (s.setTx t).prop? id = s.prop? id := rfl

theorem evolves_setTx (s : Sys) (i : Nat) (t : Tx) (ht : s.tx? i = some t) (u : TxUpd) (hok : TxOK t u) :
    Evolves s (s.setTx (bumpTx t u)) := by
  have hti := tx?_index s i t ht
  have hidx : (bumpTx t u).index = i := by
    show (applyTxUpd t u).index = i
    rw [(applyTxUpd_mono t u hok).2.2.2, hti]
  constructor
  · intro j tj hj
    rw [tx?_setTx, hidx]
    by_cases hji : j = i
    · subst hji
      rw [ht] at hj
      simp only [Option.some.injEq] at hj
      subst hj
      simp only [if_true, ht, Option.map_some]
      refine ⟨_, rfl, ?_, ?_, ?_, ?_, ?_⟩
      · show t.version ≤ t.version + 1; omega
      · intro h; exfalso
        have : t.version + 1 = t.version := h
        omega
      · exact (applyTxUpd_mono t u hok).1
      · intro hv
        exact ⟨(applyTxUpd_mono t u hok).2.1 hv, applyTxUpd_props t u hok hv⟩
      · intro hv
        exact applyTxUpd_props_fixed t u hok hv
    · simp only [hji, if_false]
      exact ⟨tj, hj, Nat.le_refl _, fun _ => rfl, fun h => h, fun h => ⟨h, rfl⟩, fun _ => rfl⟩
  · intro id p h
    exact ⟨p, h, Nat.le_refl _, fun _ => rfl, fun h => h, fun h => h, rfl, fun h => h⟩

theorem phaseInv_setTx (s : Sys) (hinv : PhaseInv s) (i : Nat) (t : Tx) (ht : s.tx? i = some t)
    (u : TxUpd) (hok : TxOK t u) (hval : u = .validateDone → AllValidated s t)
    (hsp : ∀ ps, u = .setProposals ps → ∀ pid ∈ ps, pid.2 = i) :
    PhaseInv (s.setTx (bumpTx t u)) := by
  have hti := tx?_index s i t ht
  have hidx : (bumpTx t u).index = i := by
    show (applyTxUpd t u).index = i
    rw [(applyTxUpd_mono t u hok).2.2.2, hti]
  have hev := evolves_setTx s i t ht u hok
  have hlook : ∀ j tj, (s.setTx (bumpTx t u)).tx? j = some tj →
      (j = i ∧ tj = bumpTx t u) ∨ (j ≠ i ∧ s.tx? j = some tj) := by
    intro j tj hj
    rw [tx?_setTx, hidx] at hj
    by_cases hji : j = i
    · subst hji
      simp only [if_true, ht, Option.map_some, Option.some.injEq] at hj
      exact Or.inl ⟨rfl, hj.symm⟩
    · simp only [hji, if_false] at hj
      exact Or.inr ⟨hji, hj⟩
  obtain ⟨hn1, hn2, hn3⟩ := applyTxUpd_new t u hok
  constructor
  · -- txinv
    intro j tj hj
    rcases hlook j tj hj with ⟨_, h⟩ | ⟨_, h⟩
    · subst h
      have := TxInv_apply t u (hinv.txinv i t ht) hok
      exact ⟨this.1, this.2, this.3, this.4, this.5, this.6⟩
    · exact hinv.txinv j tj h
  · -- validated
    intro j tj hj hv
    rcases hlook j tj hj with ⟨_, h⟩ | ⟨_, h⟩
    · subst h
      have hv' : (applyTxUpd t u).validate = .done := hv
      have hbase : AllValidated s t := by
        rcases hn1 hv' with h | h
        · exact hinv.validated i t ht h
        · exact hval h
      obtain ⟨ps, hps, hall⟩ := hbase
      have hsame : (applyTxUpd t u).proposals = t.proposals := by
        rcases hn2 with h | ⟨ps', hu, _⟩
        · exact h
        · subst hu; simp only [TxOK] at hok
          rcases hn1 hv' with h | h
          · rw [hok.2.1] at h; cases h
          · cases h
      exact ⟨ps, by show (applyTxUpd t u).proposals = some ps; rw [hsame, hps], hall⟩
    · exact allValidated_evolves s _ hev tj (hinv.validated j tj h hv)
  · -- prop_commit
    intro id p hp hc
    obtain ⟨t0, ht0, hc0⟩ := hinv.prop_commit id p hp hc
    obtain ⟨t0', ht0', _, _, hc0', _, _⟩ := hev.tx _ t0 ht0
    exact ⟨t0', ht0', hc0' hc0⟩
  · -- merged
    exact hinv.merged
  · -- tx_bound
    intro tj htj
    have hlen : (s.setTx (bumpTx t u)).txs.length = s.txs.length := by
      simp [Sys.setTx]
    rw [hlen]
    simp only [Sys.setTx, List.mem_map] at htj
    obtain ⟨x, hx, hxe⟩ := htj
    split at hxe
    · rename_i hxi
      rw [← hxe, hidx]
      have := hinv.tx_bound x hx
      rw [hidx] at hxi
      omega
    · rw [← hxe]; exact hinv.tx_bound x hx
  · -- props_index
    intro j tj hj ps hps pid hpid
    rcases hlook j tj hj with ⟨hji, h⟩ | ⟨_, h⟩
    · subst h
      have hps' : (applyTxUpd t u).proposals = some ps := hps
      rcases hn2 with hsame | ⟨ps', hu, hps''⟩
      · rw [hsame] at hps'
        rw [hji]; exact hinv.props_index i t ht ps hps' pid hpid
      · rw [hps''] at hps'
        simp only [Option.some.injEq] at hps'
        subst hps'
        rw [hji]; exact hsp ps' hu pid hpid
    · exact hinv.props_index j tj h ps hps pid hpid
  · -- init_props
    intro j tj hj hin
    rcases hlook j tj hj with ⟨_, h⟩ | ⟨_, h⟩
    · subst h
      have hin' : (applyTxUpd t u).init = .done := hin
      show (applyTxUpd t u).proposals ≠ none
      rcases hn3 hin' with h | ⟨hu, hsame⟩
      · have := hinv.init_props i t ht h
        rcases hn2 with hs | ⟨ps', _, hs⟩
        · rw [hs]; exact this
        · rw [hs]; simp
      · subst hu
        simp only [TxOK] at hok
        rw [hsame]; exact hok.2.2.2.2.2
    · exact hinv.init_props j tj h hin

/-! ### a successful proposal write -/

theorem applyPropUpd_new (p : Proposal) (u : PropUpd) (hok : PropOK p u) :
    ((applyPropUpd p u).commit ≠ .none → p.commit ≠ .none ∨ u = .openCommit) := by
  cases u <;> simp only [PropOK] at hok <;> simp_all [applyPropUpd]

def bumpProp (p : Proposal) (u : PropUpd) : Proposal := { applyPropUpd p u with version := p.version + 1 }

theorem exec_prop_eq (s : Sys) (id : PropId) (ver : Nat) (u : PropUpd) :
    (exec s (.prop id ver u)).1 =
      match s.prop? id with
      | none => s
      | some p => if p.version = ver then s.setProp (bumpProp p u) else s := by
  simp only [exec]
  cases s.prop? id with
  | none => rfl
  | some p =>
    simp only
    split <;> rfl

theorem setProp_tx? (s : Sys) (p : Proposal) (i : Nat) : (s.setProp p).tx? i = s.tx? i := rfl

theorem evolves_setProp (s : Sys) (id : PropId) (p : Proposal) (hp : s.prop? id = some p) (u : PropUpd)
    (hok : PropOK p u) : Evolves s (s.setProp (bumpProp p u)) := by
  have hk := prop?_key s id p hp
  have hm := applyPropUpd_mono p u hok
  have hkey : ((bumpProp p u).target, (bumpProp p u).index) = id := by
    show ((applyPropUpd p u).target, (applyPropUpd p u).index) = id
    rw [hm.2.2.2.1, hm.2.2.2.2]; exact hk
  constructor
  · intro i t h
    exact ⟨t, h, Nat.le_refl _, fun _ => rfl, fun h => h, fun h => ⟨h, rfl⟩, fun _ => rfl⟩
  · intro id2 p2 h2
    rw [prop?_setProp, hkey]
    by_cases hid : id2 = id
    · subst hid
      rw [hp] at h2
      simp only [Option.some.injEq] at h2
      subst h2
      simp only [if_true, hp, Option.map_some]
      refine ⟨_, rfl, ?_, ?_, hm.1, hm.2.1, hm.2.2.2.1, hm.2.2.1⟩
      · show p.version ≤ p.version + 1; omega
      · intro h; exfalso
        have : p.version + 1 = p.version := h
        omega
    · simp only [hid, if_false]
      exact ⟨p2, h2, Nat.le_refl _, fun _ => rfl, fun h => h, fun h => h, rfl, fun h => h⟩

theorem phaseInv_setProp (s : Sys) (hinv : PhaseInv s) (id : PropId) (p : Proposal) (hp : s.prop? id = some p)
    (u : PropUpd) (hok : PropOK p u)
    (hc : u = .openCommit → ∃ t, s.tx? p.index = some t ∧ t.commit ≠ .none) :
    PhaseInv (s.setProp (bumpProp p u)) := by
  have hk := prop?_key s id p hp
  have hm := applyPropUpd_mono p u hok
  have hkey : ((bumpProp p u).target, (bumpProp p u).index) = id := by
    show ((applyPropUpd p u).target, (applyPropUpd p u).index) = id
    rw [hm.2.2.2.1, hm.2.2.2.2]; exact hk
  have hev := evolves_setProp s id p hp u hok
  constructor
  · exact hinv.txinv
  · intro i t ht hv
    exact allValidated_evolves s _ hev t (hinv.validated i t ht hv)
  · intro id2 p2 h2 hc2
    rw [prop?_setProp, hkey] at h2
    by_cases hid : id2 = id
    · subst hid
      simp only [if_true, hp, Option.map_some, Option.some.injEq] at h2
      subst h2
      have hc2' : (applyPropUpd p u).commit ≠ .none := hc2
      show ∃ t, s.tx? (applyPropUpd p u).index = some t ∧ t.commit ≠ .none
      rw [hm.2.2.2.1]
      rcases applyPropUpd_new p u hok hc2' with h | h
      · exact hinv.prop_commit id2 p hp h
      · exact hc h
    · simp only [hid, if_false] at h2
      exact hinv.prop_commit id2 p2 h2 hc2
  · intro m hm'
    obtain ⟨q, hq, hqc⟩ := hinv.merged m hm'
    obtain ⟨q', hq', _, _, hqc', _, _, _⟩ := hev.prop m q hq
    exact ⟨q', hq', hqc' hqc⟩
  · exact hinv.tx_bound
  · exact hinv.props_index
  · exact hinv.init_props

/-! ### creating a proposal -/

theorem exec_createProp_eq (s : Sys) (p : Proposal) :
    (exec s (.createProp p)).1 =
      match s.prop? (p.target, p.index) with
      | some _ => s
      | none => { s with props := s.props ++ [p] } := by
  simp only [exec]
  cases s.prop? (p.target, p.index) <;> rfl

theorem prop?_append (s : Sys) (p : Proposal) (id : PropId) :
    ({ s with props := s.props ++ [p] } : Sys).prop? id =
      match s.prop? id with
      | some y => some y
      | none => if (p.target, p.index) = id then some p else none := by
  unfold Sys.prop?
  simp only
  rw [find?_append_absent]
  cases List.find? (fun q => decide (q.target = id.1 ∧ q.index = id.2)) s.props with
  | some y => rfl
  | none =>
    obtain ⟨a, b⟩ := id
    simp only [decide_eq_true_eq, Prod.mk.injEq]

theorem evolves_createProp (s : Sys) (p : Proposal) :
    Evolves s ({ s with props := s.props ++ [p] } : Sys) := by
  constructor
  · intro i t h
    exact ⟨t, h, Nat.le_refl _, fun _ => rfl, fun h => h, fun h => ⟨h, rfl⟩, fun _ => rfl⟩
  · intro id q hq
    refine ⟨q, ?_, Nat.le_refl _, fun _ => rfl, fun h => h, fun h => h, rfl, fun h => h⟩
    rw [prop?_append, hq]

theorem phaseInv_createProp (s : Sys) (hinv : PhaseInv s) (p : Proposal)
    (hpc : p.commit = .none) :
    PhaseInv ({ s with props := s.props ++ [p] } : Sys) := by
  have hev := evolves_createProp s p
  constructor
  · exact hinv.txinv
  · intro i t ht hv
    exact allValidated_evolves s _ hev t (hinv.validated i t ht hv)
  · intro id q hq hc
    rw [prop?_append] at hq
    cases hs : s.prop? id with
    | some y =>
      simp only [hs, Option.some.injEq] at hq
      subst hq
      exact hinv.prop_commit id y hs hc
    | none =>
      simp only [hs] at hq
      split at hq
      · simp only [Option.some.injEq] at hq
        subst hq
        exact absurd hpc hc
      · cases hq
  · intro m hm
    obtain ⟨q, hq, hqc⟩ := hinv.merged m hm
    obtain ⟨q', hq', _, _, hqc', _, _, _⟩ := hev.prop m q hq
    exact ⟨q', hq', hqc' hqc⟩
  · exact hinv.tx_bound
  · exact hinv.props_index
  · exact hinv.init_props

/-! ### effects that do not touch transactions or proposals -/

theorem phaseInv_frame (s s' : Sys) (hinv : PhaseInv s) (htx : s'.txs = s.txs) (hp : s'.props = s.props)
    (hlog : ∀ m ∈ s'.commitLog, m ∈ s.commitLog ∨ ∃ p, s.prop? m = some p ∧ p.commit ≠ .none) :
    PhaseInv s' := by
  have htx? : ∀ i, s'.tx? i = s.tx? i := by intro i; unfold Sys.tx?; rw [htx]
  have hp? : ∀ id, s'.prop? id = s.prop? id := by intro id; unfold Sys.prop?; rw [hp]
  constructor
  · intro i t h; rw [htx?] at h; exact hinv.txinv i t h
  · intro i t h hv
    rw [htx?] at h
    obtain ⟨ps, hps, hall⟩ := hinv.validated i t h hv
    exact ⟨ps, hps, fun pid hpid => by rw [hp?]; exact hall pid hpid⟩
  · intro id p h hc
    rw [hp?] at h
    obtain ⟨t, ht, htc⟩ := hinv.prop_commit id p h hc
    exact ⟨t, by rw [htx?]; exact ht, htc⟩
  · intro m hm
    rcases hlog m hm with h | h
    · obtain ⟨p, hp', hc⟩ := hinv.merged m h
      exact ⟨p, by rw [hp?]; exact hp', hc⟩
    · obtain ⟨p, hp', hc⟩ := h
      exact ⟨p, by rw [hp?]; exact hp', hc⟩
  · intro t ht; rw [htx] at ht ⊢; exact hinv.tx_bound t ht
  · intro i t h; rw [htx?] at h; exact hinv.props_index i t h
  · intro i t h; rw [htx?] at h; exact hinv.init_props i t h

theorem exec_other_frame (s : Sys) (e : Effect)
    (he : (∃ t n, e = .createCfg t n) ∨ (∃ t v, e = .cfgVals t v ∨ e = .cfgAVals t v) ∨ (∃ r, e = .dev r) ∨
      (∃ t ver u sh ash oc, e = .cfg t ver u sh ash oc)) :
    (exec s e).1.txs = s.txs ∧ (exec s e).1.props = s.props ∧
    (∀ m ∈ (exec s e).1.commitLog, m ∈ s.commitLog ∨
      ∃ t ver idx ni sh ash oc, e = .cfg t ver (.commit idx ni) sh ash oc ∧ m = (t, idx)) := by
  rcases he with ⟨t, n, h⟩ | ⟨t, v, h | h⟩ | ⟨r, h⟩ | ⟨t, ver, u, sh, ash, oc, h⟩ <;> subst h <;> simp only [exec]
  · cases s.cfg? t <;> simp
  · cases s.cfg? t <;> simp [Sys.setCfg]
  · cases s.cfg? t <;> simp [Sys.setCfg]
  · split <;> simp [Sys.setDev] <;> split <;> simp
  · cases hc : s.cfg? t with
    | none => exact ⟨rfl, rfl, fun m hm => Or.inl hm⟩
    | some c =>
      simp only
      split
      · cases u with
        | commit idx ni =>
          refine ⟨rfl, rfl, ?_⟩
          intro m hm
          simp only [Sys.setCfg, List.mem_append, List.mem_singleton] at hm
          rcases hm with hm | hm
          · exact Or.inl hm
          · exact Or.inr ⟨t, ver, idx, ni, sh, ash, oc, rfl, hm⟩
        | _ => exact ⟨rfl, rfl, fun m hm => Or.inl hm⟩
      · exact ⟨rfl, rfl, fun m hm => Or.inl hm⟩

/-- one executed effect: the invariant is kept and the stores evolve monotonically -/
theorem exec_step (s : Sys) (hinv : PhaseInv s) (e : Effect) (hj : Just s e) :
    PhaseInv (exec s e).1 ∧ Evolves s (exec s e).1 := by
  cases e with
  | tx i ver u =>
    obtain ⟨t, ht, _, hg⟩ := hj
    rw [exec_tx_eq, ht]
    simp only
    split
    · rename_i hver
      obtain ⟨hok, hval, hsp⟩ := hg hver
      exact ⟨phaseInv_setTx s hinv i t ht u hok hval hsp, evolves_setTx s i t ht u hok⟩
    · exact ⟨hinv, Evolves.refl_of_eq s s rfl rfl⟩
  | prop id ver u =>
    obtain ⟨p, hp, _, hg⟩ := hj
    rw [exec_prop_eq, hp]
    simp only
    split
    · rename_i hver
      obtain ⟨hok, hc⟩ := hg hver
      exact ⟨phaseInv_setProp s hinv id p hp u hok hc, evolves_setProp s id p hp u hok⟩
    · exact ⟨hinv, Evolves.refl_of_eq s s rfl rfl⟩
  | createProp p =>
    rw [exec_createProp_eq]
    split
    · exact ⟨hinv, Evolves.refl_of_eq s s rfl rfl⟩
    · exact ⟨phaseInv_createProp s hinv p hj.1, evolves_createProp s p⟩
  | createCfg t n =>
    obtain ⟨h1, h2, h3⟩ := exec_other_frame s (.createCfg t n) (Or.inl ⟨_, _, rfl⟩)
    refine ⟨phaseInv_frame s _ hinv h1 h2 ?_, Evolves.refl_of_eq s _ h1 h2⟩
    intro m hm
    rcases h3 m hm with h | ⟨_, _, _, _, _, _, _, h, _⟩
    · exact Or.inl h
    · cases h
  | cfgVals t v =>
    obtain ⟨h1, h2, h3⟩ := exec_other_frame s (.cfgVals t v) (Or.inr (Or.inl ⟨_, _, Or.inl rfl⟩))
    refine ⟨phaseInv_frame s _ hinv h1 h2 ?_, Evolves.refl_of_eq s _ h1 h2⟩
    intro m hm
    rcases h3 m hm with h | ⟨_, _, _, _, _, _, _, h, _⟩
    · exact Or.inl h
    · cases h
  | cfgAVals t v =>
    obtain ⟨h1, h2, h3⟩ := exec_other_frame s (.cfgAVals t v) (Or.inr (Or.inl ⟨_, _, Or.inr rfl⟩))
    refine ⟨phaseInv_frame s _ hinv h1 h2 ?_, Evolves.refl_of_eq s _ h1 h2⟩
    intro m hm
    rcases h3 m hm with h | ⟨_, _, _, _, _, _, _, h, _⟩
    · exact Or.inl h
    · cases h
  | dev r =>
    obtain ⟨h1, h2, h3⟩ := exec_other_frame s (.dev r) (Or.inr (Or.inr (Or.inl ⟨_, rfl⟩)))
    refine ⟨phaseInv_frame s _ hinv h1 h2 ?_, Evolves.refl_of_eq s _ h1 h2⟩
    intro m hm
    rcases h3 m hm with h | ⟨_, _, _, _, _, _, _, h, _⟩
    · exact Or.inl h
    · cases h
  | cfg t ver u sh ash oc =>
    obtain ⟨h1, h2, h3⟩ := exec_other_frame s (.cfg t ver u sh ash oc)
      (Or.inr (Or.inr (Or.inr ⟨_, _, _, _, _, _, rfl⟩)))
    refine ⟨phaseInv_frame s _ hinv h1 h2 ?_, Evolves.refl_of_eq s _ h1 h2⟩
    intro m hm
    rcases h3 m hm with h | ⟨t', ver', idx, ni, sh', ash', oc', h, hm'⟩
    · exact Or.inl h
    · simp only [Effect.cfg.injEq] at h
      obtain ⟨ht, _, hu, _, _, _⟩ := h
      subst ht hu hm'
      exact Or.inr hj

/-! ### appending a transaction (an accepted Set / rollback request) -/

theorem tx?_append (s : Sys) (t : Tx) (i : Nat) :
    ({ s with txs := s.txs ++ [t] } : Sys).tx? i =
      match s.tx? i with
      | some y => some y
      | none => if t.index = i then some t else none := by
  unfold Sys.tx?
  simp only
  rw [find?_append_absent]
  cases List.find? (fun q => decide (q.index = i)) s.txs with
  | some y => rfl
  | none => simp only [decide_eq_true_eq]

theorem step_nbSet_sys (w : World) (tx : Tx) :
    ∃ t : Tx, (step w (.nbSet tx)).sys = { w.sys with txs := w.sys.txs ++ [t] } ∧ (step w (.nbSet tx)).pend = w.pend ∧
      t.index = w.sys.txs.length + 1 ∧ t.init = .none ∧ t.validate = .none ∧ t.commit = .none ∧
      t.apply = .none ∧ t.abort = .none ∧ t.proposals = none :=
  ⟨_, rfl, rfl, rfl, rfl, rfl, rfl, rfl, rfl, rfl⟩

theorem evolves_appendTx (s : Sys) (t : Tx) : Evolves s ({ s with txs := s.txs ++ [t] } : Sys) := by
  constructor
  · intro i t0 h
    refine ⟨t0, ?_, Nat.le_refl _, fun _ => rfl, fun h => h, fun h => ⟨h, rfl⟩, fun _ => rfl⟩
    rw [tx?_append, h]
  · intro id p h
    exact ⟨p, h, Nat.le_refl _, fun _ => rfl, fun h => h, fun h => h, rfl, fun h => h⟩

theorem phaseInv_appendTx (s : Sys) (hinv : PhaseInv s) (t : Tx)
    (hidx : t.index = s.txs.length + 1) (h1 : t.init = .none) (h2 : t.validate = .none)
    (h3 : t.commit = .none) (h4 : t.apply = .none) (h5 : t.abort = .none) (h6 : t.proposals = none) :
    PhaseInv ({ s with txs := s.txs ++ [t] } : Sys) := by
  have hev := evolves_appendTx s t
  have hlook : ∀ j tj, ({ s with txs := s.txs ++ [t] } : Sys).tx? j = some tj →
      s.tx? j = some tj ∨ tj = t := by
    intro j tj hj
    rw [tx?_append] at hj
    cases hs : s.tx? j with
    | some y => simp only [hs, Option.some.injEq] at hj; subst hj; exact Or.inl rfl
    | none =>
      simp only [hs] at hj
      split at hj
      · simp only [Option.some.injEq] at hj; exact Or.inr hj.symm
      · cases hj
  constructor
  · intro j tj hj
    rcases hlook j tj hj with h | h
    · exact hinv.txinv j tj h
    · subst h
      constructor <;> simp_all
  · intro j tj hj hv
    rcases hlook j tj hj with h | h
    · exact allValidated_evolves s _ hev tj (hinv.validated j tj h hv)
    · subst h; rw [h2] at hv; cases hv
  · intro id p hp hc
    obtain ⟨t0, ht0, hc0⟩ := hinv.prop_commit id p hp hc
    obtain ⟨t0', ht0', _, _, hc0', _, _⟩ := hev.tx _ t0 ht0
    exact ⟨t0', ht0', hc0' hc0⟩
  · exact hinv.merged
  · intro tj htj
    simp only [List.mem_append, List.mem_singleton, List.length_append, List.length_cons,
      List.length_nil] at htj ⊢
    rcases htj with h | h
    · have := hinv.tx_bound tj h; omega
    · subst h; omega
  · intro j tj hj ps hps pid hpid
    rcases hlook j tj hj with h | h
    · exact hinv.props_index j tj h ps hps pid hpid
    · subst h; rw [h6] at hps; cases hps
  · intro j tj hj hin
    rcases hlook j tj hj with h | h
    · exact hinv.init_props j tj h hin
    · subst h; rw [h1] at hin; cases hin

/-! ### the induction over world steps -/

structure WInv (w : World) : Prop where
  inv : PhaseInv w.sys
  pend : ∀ pd ∈ w.pend, ∀ e ∈ pd.effects, Just w.sys e

theorem phaseInv_empty : PhaseInv ({} : Sys) := by
  constructor <;> intro <;> simp_all [Sys.tx?, Sys.prop?]

theorem winv_init : WInv ({} : World) := ⟨phaseInv_empty, by intro pd h; cases h⟩

theorem mem_removeAt {α : Type} (l : List α) (k : Nat) (x : α) (h : x ∈ removeAt l k) : x ∈ l := by
  unfold removeAt at h
  simp only [List.mem_append] at h
  rcases h with h | h
  · exact List.mem_of_mem_take h
  · exact List.mem_of_mem_drop h

theorem applyFault_frame (s : Sys) (f : Fault) :
    (applyFault s f).txs = s.txs ∧ (applyFault s f).props = s.props ∧
    (applyFault s f).commitLog = s.commitLog := by
  cases f <;> simp only [applyFault, Sys.setDev] <;> (try split) <;> simp

theorem winv_step (w : World) (h : WInv w) (st : Step) : WInv (step w st) := by
  cases st with
  | begin id env =>
    simp only [step]
    split
    · exact h
    · split
      · exact ⟨h.inv, h.pend⟩
      · rename_i heff
        refine ⟨h.inv, ?_⟩
        intro pd hpd e he
        simp only [List.mem_append, List.mem_singleton] at hpd
        rcases hpd with hpd | hpd
        · exact h.pend pd hpd e he
        · subst hpd
          exact plan_just w.sys h.inv id env e he
  | adv k =>
    simp only [step]
    cases hk : w.pend[k]? with
    | none => exact h
    | some p =>
      simp only
      have hpmem : p ∈ w.pend := List.mem_of_getElem? hk
      cases heff : p.effects with
      | nil =>
        simp only
        exact ⟨h.inv, fun pd hpd => h.pend pd (mem_removeAt _ _ _ hpd)⟩
      | cons e rest =>
        simp only
        have hj : Just w.sys e := h.pend p hpmem e (by rw [heff]; exact List.mem_cons_self)
        obtain ⟨hinv', hev⟩ := exec_step w.sys h.inv e hj
        have hstable : ∀ pd ∈ w.pend, ∀ e' ∈ pd.effects, Just (exec w.sys e).1 e' :=
          fun pd hpd e' he' => just_stable _ _ hev e' (h.pend pd hpd e' he')
        have hrest : ∀ e' ∈ rest, Just (exec w.sys e).1 e' :=
          fun e' he' => hstable p hpmem e' (by rw [heff]; exact List.mem_cons_of_mem _ he')
        split
        · split
          · exact ⟨hinv', fun pd hpd => hstable pd (mem_removeAt _ _ _ hpd)⟩
          · refine ⟨hinv', ?_⟩
            intro pd hpd e' he'
            rcases List.mem_or_eq_of_mem_set hpd with hpd' | hpd'
            · exact hstable pd hpd' e' he'
            · subst hpd'
              exact hrest e' he'
        · exact ⟨hinv', fun pd hpd => hstable pd (mem_removeAt _ _ _ hpd)⟩
  | failNext k =>
    simp only [step]
    cases hk : w.pend[k]? with
    | none => exact h
    | some p => exact ⟨h.inv, fun pd hpd => h.pend pd (mem_removeAt _ _ _ hpd)⟩
  | crash => exact ⟨h.inv, by intro pd hpd; cases hpd⟩
  | nbSet tx =>
    obtain ⟨t, hsys, hpend, hidx, h1, h2, h3, h4, h5, h6⟩ := step_nbSet_sys w tx
    have hev := evolves_appendTx w.sys t
    constructor
    · rw [hsys]; exact phaseInv_appendTx w.sys h.inv t hidx h1 h2 h3 h4 h5 h6
    · rw [hsys, hpend]
      exact fun pd hpd e he => just_stable _ _ hev e (h.pend pd hpd e he)
  | fault f =>
    obtain ⟨h1, h2, h3⟩ := applyFault_frame w.sys f
    have hev := Evolves.refl_of_eq w.sys (applyFault w.sys f) h1 h2
    have hs : (step w (.fault f)).sys = applyFault w.sys f := rfl
    have hp : (step w (.fault f)).pend = w.pend := rfl
    constructor
    · rw [hs]
      exact phaseInv_frame w.sys _ h.inv h1 h2 (by intro m hm; rw [h3] at hm; exact Or.inl hm)
    · rw [hs, hp]
      exact fun pd hpd e he => just_stable _ _ hev e (h.pend pd hpd e he)

theorem winv_run (w : World) (h : WInv w) (steps : List Step) : WInv (run w steps) := by
  induction steps generalizing w with
  | nil => exact h
  | cons st rest ih => exact ih (step w st) (winv_step w h st)

/-- the phase invariant holds in every reachable world -/
theorem winv_reachable (w : World) (h : Reachable w) : WInv w := by
  obtain ⟨steps, hs⟩ := h
  rw [hs]
  exact winv_run {} winv_init steps

/-! ### the stores evolve monotonically along every run -/

theorem Evolves.trans (a b c : Sys) (h1 : Evolves a b) (h2 : Evolves b c) : Evolves a c := by
  constructor
  · intro i t ht
    obtain ⟨t1, ht1, hv1, he1, hc1, hd1, hp1⟩ := h1.tx i t ht
    obtain ⟨t2, ht2, hv2, he2, hc2, hd2, hp2⟩ := h2.tx i t1 ht1
    refine ⟨t2, ht2, Nat.le_trans hv1 hv2, ?_, fun h => hc2 (hc1 h), ?_, ?_⟩
    · intro h
      have h21 : t2.version = t1.version := by omega
      have : t2 = t1 := he2 h21
      subst this
      exact he1 h
    · intro h
      obtain ⟨a1, a2⟩ := hd1 h
      obtain ⟨b1, b2⟩ := hd2 a1
      exact ⟨b1, by rw [b2, a2]⟩
    · intro h
      have e1 := hp1 h
      have e2 := hp2 (by rw [e1]; exact h)
      rw [e2, e1]
  · intro id p hp
    obtain ⟨p1, hp1, hv1, he1, hc1, hd1, hi1, hf1⟩ := h1.prop id p hp
    obtain ⟨p2, hp2, hv2, he2, hc2, hd2, hi2, hf2⟩ := h2.prop id p1 hp1
    refine ⟨p2, hp2, Nat.le_trans hv1 hv2, ?_, fun h => hc2 (hc1 h), fun h => hd2 (hd1 h),
      by rw [hi2, hi1], fun h => hf2 (hf1 h)⟩
    intro h
    have h21 : p2.version = p1.version := by omega
    have : p2 = p1 := he2 h21
    subst this
    exact he1 h

theorem step_evolves (w : World) (h : WInv w) (st : Step) : Evolves w.sys (step w st).sys := by
  cases st with
  | begin id env =>
    simp only [step]
    split
    · exact Evolves.refl_of_eq _ _ rfl rfl
    · split <;> exact Evolves.refl_of_eq _ _ rfl rfl
  | adv k =>
    simp only [step]
    cases hk : w.pend[k]? with
    | none => exact Evolves.refl_of_eq _ _ rfl rfl
    | some p =>
      simp only
      have hpmem : p ∈ w.pend := List.mem_of_getElem? hk
      cases heff : p.effects with
      | nil => exact Evolves.refl_of_eq _ _ rfl rfl
      | cons e rest =>
        simp only
        have hj : Just w.sys e := h.pend p hpmem e (by rw [heff]; exact List.mem_cons_self)
        obtain ⟨_, hev⟩ := exec_step w.sys h.inv e hj
        split
        · split <;> exact hev
        · exact hev
  | failNext k =>
    simp only [step]
    cases hk : w.pend[k]? <;> exact Evolves.refl_of_eq _ _ rfl rfl
  | crash => exact Evolves.refl_of_eq _ _ rfl rfl
  | nbSet tx =>
    obtain ⟨t, hsys, _⟩ := step_nbSet_sys w tx
    rw [hsys]; exact evolves_appendTx w.sys t
  | fault f =>
    obtain ⟨h1, h2, _⟩ := applyFault_frame w.sys f
    exact Evolves.refl_of_eq w.sys (applyFault w.sys f) h1 h2

theorem run_evolves (w : World) (h : WInv w) (steps : List Step) : Evolves w.sys (run w steps).sys := by
  induction steps generalizing w with
  | nil => exact Evolves.refl_of_eq _ _ rfl rfl
  | cons st rest ih =>
    exact Evolves.trans _ _ _ (step_evolves w h st) (ih (step w st) (winv_step w h st))

end OnosVerif.V2
