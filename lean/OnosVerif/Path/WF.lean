/-
Decidable well-formedness predicates for the C16 theorems: what a path has to satisfy for the
textual form to determine it.  `pathAccepted` is the property's own quantifier (YANG-identifier
names, optionally module-prefixed; identifier key names; non-empty key values over any
characters); `pathWF` is the weaker condition the proofs actually need.
-/
import OnosVerif.Path.Model

namespace OnosVerif.Path

def nameOK (n : Str) : Bool := !n.isEmpty && n.all (fun c => c ≠ '[')

def keyNameOK (k : Str) : Bool := !k.isEmpty && k.all (fun c => c ≠ '=' && c ≠ '\\' && c ≠ ']')

def keyValOK (v : Str) : Bool := !v.isEmpty

/-- the association list is strictly increasing in its keys (the canonical form of a Go map). -/
def keysSorted : List (Str × Str) → Bool
  | [] => true
  | a :: r => r.all (fun b => strLt a.1 b.1) && keysSorted r

def elemWF (e : Elem) : Bool :=
  nameOK e.name && e.keys.all (fun kv => keyNameOK kv.1 && keyValOK kv.2) && keysSorted e.keys

def pathWF (p : GPath) : Bool := p.all elemWF

/-- additionally no `/` in the name or in any key value of the element (needed by `GetParentPath`). -/
def elemNoSlash (e : Elem) : Bool :=
  e.name.all (· ≠ '/') && e.keys.all (fun kv => kv.1.all (· ≠ '/') && kv.2.all (· ≠ '/'))

/-! the property's quantifier: YANG identifiers -/

def identStart (c : Char) : Bool := c.isAlpha || c = '_'
def identChar (c : Char) : Bool := c.isAlphanum || c = '_' || c = '-' || c = '.'

def isIdent : Str → Bool
  | [] => false
  | c :: cs => identStart c && cs.all identChar

/-- text before the first `:` and, if there is one, the text after it -/
def splitColon : Str → Str × Option Str
  | [] => ([], none)
  | c :: cs => if c = ':' then ([], some cs) else ((c :: (splitColon cs).1), (splitColon cs).2)

/-- `ident` or `prefix:ident` -/
def isYangName (s : Str) : Bool :=
  match splitColon s with
  | (a, none) => isIdent a
  | (a, some b) => isIdent a && isIdent b

def elemAccepted (e : Elem) : Bool :=
  isYangName e.name && e.keys.all (fun kv => isYangName kv.1 && keyValOK kv.2) && keysSorted e.keys

def pathAccepted (p : GPath) : Bool := p.all elemAccepted

end OnosVerif.Path
