/- Line-protocol handlers for the path twin (I/O glue, not part of the model). -/
import OnosVerif.Base.Wire
import OnosVerif.Path.Model

namespace OnosVerif.Path
open OnosVerif.Wire

def encElem (e : Elem) : String :=
  "e:" ++ encStr e.name ++ String.join (e.keys.map fun kv => ";" ++ encStr kv.1 ++ "=" ++ encStr kv.2)

def decElem (tok : String) : Option Elem := do
  let body ← if tok.startsWith "e:" then some (tok.drop 2).toString else none
  match body.splitOn ";" with
  | [] => none
  | n :: ks => do
    let name ← decStr n
    let keys ← ks.mapM fun kv =>
      match kv.splitOn "=" with
      | [k, v] => do pure ((← decStr k), (← decStr v))
      | _ => none
    pure { name := name, keys := keys }

def encPath (p : GPath) : String := " ".intercalate (p.map encElem)

def encErr : PErr → String
  | .noElemName => "noElemName" | .noOpen => "noOpen" | .noEq => "noEq"
  | .noKeyName => "noKeyName" | .noClose => "noClose" | .noKeyValue => "noKeyValue"

def joinToks (l : List String) : String := " ".intercalate l

/-- handlers for `path.*` operations -/
def handle (op : String) (args : List String) : Option String :=
  match op, args with
  | "str", elems => do
    let p ← elems.mapM decElem
    pure ("ok " ++ encStr (strPathElem p))
  | "strpath", elems => do
    let p ← elems.mapM decElem
    pure ("ok " ++ encStr (strPath p))
  | "rt", elems => do
    let p ← elems.mapM decElem
    match parsePath (strPathElem p) with
    | .ok p => pure (joinToks ("ok" :: p.map encElem))
    | .error e => pure ("err " ++ encErr e)
  | "parentof", elems => do
    let p ← elems.mapM decElem
    pure ("ok " ++ encStr (getParentPath (strPathElem p)))
  | "split", [h] => do
    let s ← decStr h
    pure (joinToks ("ok" :: (splitPath s).map encStr))
  | "parse", [h] => do
    let s ← decStr h
    match parsePath s with
    | .ok p => pure (joinToks ("ok" :: p.map encElem))
    | .error e => pure ("err " ++ encErr e)
  | "parent", [h] => do
    let s ← decStr h
    pure ("ok " ++ encStr (getParentPath s))
  | _, _ => none

def handleIO (op : String) (args : List String) : IO (Option String) := pure (handle op args)

end OnosVerif.Path
