/-
Twin of pkg/utils/gnmiPathUtils.go (StrPathElem, writeSafeString, SplitPath, nextTokenIndex,
parseElement, parseKey, findUnescaped, ParseGNMIElements) and of GetParentPath in
pkg/utils/path/path.go.  A Go string is a `List Char` (every wire-decodable protobuf string is
valid UTF-8 and every character these functions treat specially is ASCII, so rune iteration,
byte indexing and byte slicing coincide with their `List Char` counterparts).

Core-only: this file is linked into the `oracle` driver.
-/
namespace OnosVerif.Path

abbrev Str := List Char

/-- gnmi.PathElem: `Key` is a Go map; it is represented by an association list.  The canonical
    representative of a map is the list strictly sorted by key (see `Elem.Canon`). -/
structure Elem where
  name : Str
  keys : List (Str × Str)
deriving DecidableEq, Repr, Inhabited

abbrev GPath := List Elem

/-- `writeSafeString(b, s, esc)`. -/
def writeSafe (esc : Char) : Str → Str
  | [] => []
  | c :: cs =>
    if c = esc ∨ c = '\\' then '\\' :: c :: writeSafe esc cs else c :: writeSafe esc cs

/-- Go's `a < b` on strings (bytewise; equals code-point order on valid UTF-8). -/
def strLt : Str → Str → Bool
  | [], [] => false
  | [], _ :: _ => true
  | _ :: _, [] => false
  | a :: as, b :: bs => if a.toNat < b.toNat then true else if b.toNat < a.toNat then false else strLt as bs

/-- insertion of one key into a list sorted by `strLt` on the key; an equal key is replaced
    (`keys[k] = v` on a Go map). -/
def mapInsert (k v : Str) : List (Str × Str) → List (Str × Str)
  | [] => [(k, v)]
  | (k', v') :: rest =>
    if strLt k k' then (k, v) :: (k', v') :: rest
    else if k = k' then (k, v) :: rest
    else (k', v') :: mapInsert k v rest

/-- `sort.Strings(keys)` followed by the lookup `elm.Key[k]`: the association list ordered by key. -/
def sortKeys (m : List (Str × Str)) : List (Str × Str) :=
  m.foldr (fun kv acc => mapInsert kv.1 kv.2 acc) []

def strKey (kv : Str × Str) : Str :=
  '[' :: (kv.1 ++ '=' :: (writeSafe ']' kv.2 ++ [']']))

/-- one iteration of the loop of `StrPathElem`. -/
def strElem (e : Elem) : Str :=
  '/' :: (writeSafe '/' e.name ++ (sortKeys e.keys).flatMap strKey)

/-- `StrPathElem`. -/
def strPathElem (p : GPath) : Str := p.flatMap strElem

/-- `StrPath` on a path that has only `Elem` (v0.4) members: `/` when there are none. -/
def strPath (p : GPath) : Str := if p.isEmpty then ['/'] else strPathElem p

/-- the loop of `nextTokenIndex`, carrying `inBrackets`, `escape` and the running index. -/
def nextTokAux : Bool → Bool → Nat → Str → Nat
  | _, _, i, [] => i
  | ib, esc, i, c :: cs =>
    if c = '[' then nextTokAux true false (i + 1) cs
    else if c = ']' then nextTokAux (if esc then ib else false) false (i + 1) cs
    else if c = '\\' then nextTokAux ib (!esc) (i + 1) cs
    else if c = '/' then (if !ib && !esc then i else nextTokAux ib false (i + 1) cs)
    else nextTokAux ib false (i + 1) cs

def nextTokenIndex (path : Str) : Nat := nextTokAux false false 0 path

def stripSlash : Str → Str
  | '/' :: r => r
  | s => s

/-- the `for len(path) > 0` loop of `SplitPath`; every iteration consumes at least one
    character, so `fuel = len(path)` is never exhausted (`splitLoop_fuel`). -/
def splitLoop : Nat → Str → List Str
  | 0, _ => []
  | fuel + 1, path =>
    if path.isEmpty then []
    else
      let i := nextTokenIndex path
      path.take i :: splitLoop fuel (stripSlash (path.drop i))

/-- `SplitPath`. -/
def splitPath (path : Str) : List Str := splitLoop path.length (stripSlash path)

/-- slow path of `findUnescaped`: index of the first unescaped `find` (or none) and the
    unescaped text before it. -/
def findUnescSlow (find : Char) : Nat → Str → Str × Option Nat
  | _, [] => ([], none)
  | i, c :: cs =>
    if c = find then ([], some i)
    else if c = '\\' then
      match cs with
      | [] => (['\\'], none)            -- `i < len-1` is false: the backslash itself is copied
      | d :: ds =>
        let r := findUnescSlow find (i + 2) ds
        (d :: r.1, r.2)
    else
      let r := findUnescSlow find (i + 1) cs
      (c :: r.1, r.2)

def indexOf (find : Char) : Nat → Str → Option Nat
  | _, [] => none
  | i, c :: cs => if c = find then some i else indexOf find (i + 1) cs

/-- `findUnescaped`, with its fast track when the string holds no backslash. -/
def findUnescaped (s : Str) (find : Char) : Str × Option Nat :=
  if !s.contains '\\' then
    match indexOf find 0 s with
    | none => (s, none)
    | some i => (s.take i, some i)
  else findUnescSlow find 0 s

inductive PErr
  | noElemName | noOpen | noEq | noKeyName | noClose | noKeyValue
deriving DecidableEq, Repr

/-- `parseKey`: key name, key value, remaining text.  The caller guarantees `s ≠ ""`. -/
def parseKey (s : Str) : Except PErr (Str × Str × Str) :=
  match s with
  | [] => .error .noOpen
  | c :: s1 =>
    if c ≠ '[' then .error .noOpen
    else
      let (k, iEq) := findUnescaped s1 '='
      match iEq with
      | none => .error .noEq
      | some iEq =>
        if k.isEmpty then .error .noKeyName
        else
          let rhs := s.drop (1 + iEq + 1)
          let (v, iC) := findUnescaped rhs ']'
          match iC with
          | none => .error .noClose
          | some iC =>
            if v.isEmpty then .error .noKeyValue
            else .ok (k, v, rhs.drop (iC + 1))

/-- the `for keyPart != ""` loop of `parseElement`; `parseKey` always returns a strictly
    shorter remainder, so `fuel = len(keyPart)` suffices. -/
def parseKeys : Nat → Str → List (Str × Str) → Except PErr (List (Str × Str))
  | 0, _, acc => .ok acc
  | fuel + 1, keyPart, acc =>
    if keyPart.isEmpty then .ok acc
    else
      match parseKey keyPart with
      | .error e => .error e
      | .ok (k, v, next) => parseKeys fuel next (mapInsert k v acc)

/-- `parseElement`. -/
def parseElement (pathElement : Str) : Except PErr Elem :=
  let (name, keyStart) := findUnescaped pathElement '['
  match keyStart with
  | none => .ok { name := name, keys := [] }
  | some ks =>
    if name.isEmpty then .error .noElemName
    else
      let keyPart := pathElement.drop ks
      match parseKeys keyPart.length keyPart [] with
      | .error e => .error e
      | .ok keys => .ok { name := name, keys := keys }

/-- `ParseGNMIElements`. -/
def parseElements : List Str → Except PErr GPath
  | [] => .ok []
  | e :: es =>
    match parseElement e with
    | .error err => .error err
    | .ok pe =>
      match parseElements es with
      | .error err => .error err
      | .ok rest => .ok (pe :: rest)

/-- the composition used throughout the code base: `ParseGNMIElements(SplitPath(s))`. -/
def parsePath (s : Str) : Except PErr GPath := parseElements (splitPath s)

def lastIndexOf (find : Char) : Nat → Str → Option Nat → Option Nat
  | _, [], last => last
  | i, c :: cs, last => lastIndexOf find (i + 1) cs (if c = find then some i else last)

/-- `GetParentPath` (pkg/utils/path/path.go). -/
def getParentPath (path : Str) : Str :=
  match lastIndexOf '/' 0 path none with
  | none => []
  | some i => if i = 0 then [] else path.take i

end OnosVerif.Path
