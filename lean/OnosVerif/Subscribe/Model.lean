/-
Twin of pkg/northbound/gnmi/v2/subscribe.go (C19): `splitSubscribeRequest`, `copyPrefix`, the
per-stream machine of `processSubscribeRequest` / `Subscribe`, forwarding
(`sendSubscriptionRequest`, `sendPollRequest`) and the relay of target responses.

Messages are modelled as far as the code looks into them: a path is its set of exported fields
(`Target` is inspected, the others are carried); a subscription entry is its path plus an opaque
rest; the list-level options and the request-level extensions are field maps.  Which fields the
per-target request carries over is *not* written here: it is read from the composite literals of
the current Go source (`Generated.splitListLiteral`, `splitRequestLiteral`, `copyPrefixLiteral`).

`sctx.treqs` is a Go map: an association list with distinct keys, kept in insertion order; the
order in which the code ranges over it is not observable in the canonical answers (sorted by target).
Errors of `GetByTarget`, `NewQuery` and `client.Subscribe` are discarded by the code (`_ =`), so a
target without connection is silently skipped — the twin does the same.

Core-only: linked into the `oracle` driver.
-/
import OnosVerif.Generated.Facts
import OnosVerif.Base.ExceptEq

namespace OnosVerif.Subscribe

abbrev Str := List Char

/-- exported fields of a message that the code only carries: field name ↦ canonical text of a
    non-zero value (zero values are absent), in the declaration order of the message type. -/
abbrev Fields := List (String × Str)

def fieldGet (f : Fields) (name : String) : Str :=
  match f.find? (fun kv => kv.1 == name) with
  | some kv => kv.2
  | none => []

/-- keep the listed fields. -/
def copyFields (copied : List String) (f : Fields) : Fields := f.filter (fun kv => copied.contains kv.1)

/-- the fields of a literal that are taken over from the original (`copy`). -/
def copiedOf (lit : List (String × String)) : List String := (lit.filter (fun kv => kv.2 == "copy")).map (·.1)

def literalMode (lit : List (String × String)) (name : String) : String :=
  match lit.find? (fun kv => kv.1 == name) with
  | some kv => kv.2
  | none => "absent"

/-- a `*gnmi.Subscription`: its path (possibly nil) and everything else. -/
structure Sub where
  path : Option Fields
  rest : Str
deriving DecidableEq, Repr

/-- a `*gnmi.SubscriptionList`. -/
structure SubList where
  pfx : Option Fields
  subs : List Sub
  opts : Fields
deriving DecidableEq, Repr

inductive Body
  | subscribe (l : SubList)
  | subscribeNil          -- the oneof is `Subscribe` but the list pointer is nil
  | poll
  | none                  -- neither
deriving DecidableEq, Repr

/-- a `*gnmi.SubscribeRequest`. -/
structure Req where
  body : Body
  top : Fields
deriving DecidableEq, Repr

/-- `p.GetTarget()` (nil-safe). -/
def getTarget (p : Option Fields) : Str :=
  match p with
  | some f => fieldGet f "Target"
  | none => []

def subTarget (s : Sub) : Str := getTarget s.path

/-- `copyPrefix(prefix, target)`: a new path with the fields the literal copies (through nil-safe
    getters) and the given target; fields come out in declaration order, zero values absent. -/
def copyPrefix (pfx : Option Fields) (target : Str) : Fields :=
  Generated.gnmiPathFields.filterMap fun name =>
    let v : Str :=
      match literalMode Generated.copyPrefixLiteral name with
      | "copy" => (pfx.map (fun f => fieldGet f name)).getD []
      | "param:target" => target
      | _ => []
    if v = [] then none else some (name, v)

/-- the `Prefix` of a freshly built per-target request. -/
def newPrefix (l : SubList) (target : Str) : Option Fields :=
  match literalMode Generated.splitListLiteral "Prefix" with
  | "call:copyPrefix" => some (copyPrefix l.pfx target)
  | "copy" => l.pfx
  | _ => none

/-- the `Subscription` slice a freshly built per-target request starts with. -/
def newSubs (l : SubList) : List Sub :=
  match literalMode Generated.splitListLiteral "Subscription" with
  | "copy" => l.subs
  | _ => []

/-- the per-target request created when a target is first seen. -/
def newTargetReq (req : Req) (l : SubList) (target : Str) : Req :=
  { body := .subscribe
      { pfx := newPrefix l target, subs := newSubs l,
        opts := copyFields (copiedOf Generated.splitListLiteral) l.opts },
    top := copyFields (copiedOf Generated.splitRequestLiteral) req.top }

/-- `tr.GetSubscribe().Subscription = append(…, sub)`. -/
def appendSub (r : Req) (s : Sub) : Req :=
  match r.body with
  | .subscribe l => { r with body := .subscribe { l with subs := l.subs ++ [s] } }
  | _ => r

abbrev TReqs := List (Str × Req)

/-- one iteration of the loop over `subs.Subscription`. -/
def addSub (req : Req) (l : SubList) (m : TReqs) (s : Sub) : TReqs :=
  let t := subTarget s
  if t = [] then m
  else if m.any (fun kr => kr.1 = t) then
    m.map (fun kr => if kr.1 = t then (kr.1, appendSub kr.2 s) else kr)
  else m ++ [(t, appendSub (newTargetReq req l t) s)]

inductive Panic
  | nilDeref
deriving DecidableEq, Repr

inductive Err
  | duplicate      -- "duplicate subscription message detected"
  | notYet         -- "subscription request not received yet"
  | noTarget       -- "Prefix or at least one path must specify a target"
  | unknownType    -- "unknown subscription message type"
deriving DecidableEq, Repr

/-- `splitSubscribeRequest`.  Called on a request whose `GetSubscribe()` is nil it dereferences
    nil (`subs.Subscription`); `processSubscribeRequest` never does that. -/
def split (req : Req) : Except Panic (Except Err TReqs) :=
  match req.body with
  | .subscribe l =>
    let pt := getTarget l.pfx
    if pt ≠ [] then .ok (.ok [(pt, req)])
    else
      let m := l.subs.foldl (addSub req l) []
      if m.isEmpty then .ok (.error .noTarget) else .ok (.ok m)
  | _ => .error .nilDeref

/-! ### the stream machine -/

/-- what a connected target pushes back on its subscription stream. -/
inductive DevMsg
  | resp (id : Str)      -- a `*gnmi.SubscribeResponse` carrying an update
  | sync                 -- a `*gnmi.SubscribeResponse` with `sync_response = true` (end of a round)
  | other (id : Str)     -- any other proto message
deriving DecidableEq, Repr

/-- the connected targets (`conns.GetByTarget` succeeds) with the messages each sends back, in
    rounds: round 0 in answer to the subscription, round k in answer to the k-th poll. -/
abbrev Dev := List (Str × List (List DevMsg))

def devLookup (dev : Dev) (t : Str) : Option (List (List DevMsg)) :=
  match dev.find? (fun kv => kv.1 = t) with
  | some kv => some kv.2
  | none => none

inductive Out
  | subscribed (target : Str) (r : Req)   -- `client.Subscribe(ctx, query)` on that target's client
  | polled (target : Str)                  -- `client.Poll()`
  | relayed (target : Str) (id : Str)      -- `stream.Send(resp)` from that target's handler
deriving DecidableEq, Repr

def reqPrefix (r : Req) : Option Fields :=
  match r.body with
  | .subscribe l => l.pfx
  | _ => none

/-- how a relayed `sync_response` shows in the observations. -/
def syncId : Str := ['s', 'y', 'n', 'c']

def isOther : DevMsg → Bool
  | .other _ => true
  | _ => false

/-- the `ProtoHandler` installed on the query: every SubscribeResponse — update or
    `sync_response`, the first or the hundredth — is sent on the subscriber's stream as it is;
    anything else is refused with an error, which ends the target client's receive loop
    (`client.run` returns on the first error), so nothing after it is relayed. -/
def relays (t : Str) : List DevMsg → List Out
  | .resp id :: rest => .relayed t id :: relays t rest
  | .sync :: rest => .relayed t syncId :: relays t rest
  | _ => []

/-- what the subscriber is sent of a target's round `k`: nothing once the receive loop has ended
    in an earlier round. -/
def roundRelays (t : Str) (rounds : List (List DevMsg)) (k : Nat) : List Out :=
  if (rounds.take k).any (fun r => r.any isOther) then [] else relays t (rounds.getD k [])

/-- `sendSubscriptionRequest`: errors are discarded by the caller. -/
def forward (dev : Dev) (kr : Str × Req) : List Out :=
  match devLookup dev kr.1 with
  | none => []                                   -- GetByTarget failed: nothing is sent, nobody is told
  | some msgs =>
    if (reqPrefix kr.2).isNone then []            -- NewQuery: "Prefix field in SubscriptionList is nil"
    else .subscribed kr.1 kr.2 :: roundRelays kr.1 msgs 0

/-- `sendPollRequest` for the `k`-th poll of the stream (k = 0 for the first), followed by what the
    target answers to it. -/
def pollOne (dev : Dev) (k : Nat) (kr : Str × Req) : List Out :=
  match devLookup dev kr.1 with
  | none => []
  | some rounds => .polled kr.1 :: roundRelays kr.1 rounds (k + 1)

/-- `subContext`. -/
structure SState where
  req : Option Req := none
  treqs : TReqs := []
  polls : Nat := 0        -- polls relayed so far (environment bookkeeping: which round the targets are in)
deriving DecidableEq, Repr

def isSub (r : Req) : Bool :=
  match r.body with
  | .subscribe _ => true
  | _ => false

def isPoll (r : Req) : Bool :=
  match r.body with
  | .poll => true
  | _ => false

/-- one conjunct of a dispatch condition. -/
def atomHolds (st : SState) (msg : Req) (atom : String) : Bool :=
  match atom with
  | "sub" => isSub msg
  | "poll" => isPoll msg
  | "have" => st.req.isSome
  | "nothave" => st.req.isNone
  | _ => true

/-- which refusal a refusing branch gives, by what it tested. -/
def refusalKind (atoms : List String) : Err :=
  if atoms.contains "sub" then .duplicate
  else if atoms.contains "poll" then .notYet
  else .unknownType

/-- the subscription branch: remember the request, split it, forward every per-target request. -/
def doSubscribe (dev : Dev) (msg : Req) : SState × List Out × Option Err :=
  match split msg with
  | .ok (.ok m) => ({ req := some msg, treqs := m }, m.flatMap (forward dev), none)
  | .ok (.error e) => ({ req := some msg, treqs := [] }, [], some e)
  | .error _ => ({ req := some msg, treqs := [] }, [], some .noTarget)   -- not reached from the dispatch: the message is a subscription

/-- `processSubscribeRequest`: new context, what was sent, the error returned.  The if / else-if
    chain is the one extracted from the source (`Generated.subProcessChain`): the first branch
    whose conjuncts all hold is taken.  A branch the translator could not classify is assumed to
    send something unaccounted for (so that nothing can be proved about it). -/
def process (dev : Dev) (st : SState) (msg : Req) : SState × List Out × Option Err :=
  match Generated.subProcessChain.find? (fun cl => cl.1.all (atomHolds st msg)) with
  | some (atoms, "refuse") => (st, [], some (refusalKind atoms))
  | some (_, "split") => doSubscribe dev msg
  | some (_, "poll") => ({ st with polls := st.polls + 1 }, st.treqs.flatMap (pollOne dev st.polls), none)
  | some (_, _) => (st, [.polled []], none)
  | none => (st, [], none)

/-- what the subscriber's stream delivers to `Recv`. -/
inductive Event
  | msg (r : Req)
  | eof
  | recvErr
deriving DecidableEq, Repr

/-- how `Subscribe` returned. -/
inductive Ret
  | nil              -- `return nil` (on a non-EOF receive error!)
  | eofErr           -- `return err` with err = io.EOF
  | invalid (e : Err)
deriving DecidableEq, Repr

/-- the `for` loop of `Subscribe`: everything sent, and the return value once it returned. -/
def run (dev : Dev) : SState → List Event → List Out × Option Ret
  | _, [] => ([], none)
  | _, .eof :: _ => ([], some .eofErr)
  | _, .recvErr :: _ => ([], some .nil)
  | st, .msg m :: rest =>
    match process dev st m with
    | (_, outs, some e) => (outs, some (.invalid e))
    | (st', outs, none) =>
      let r := run dev st' rest
      (outs ++ r.1, r.2)

end OnosVerif.Subscribe
