/- Line-protocol handlers for the subscribe twin (I/O glue, not part of the model).

  request tokens:  S|SN|P|N  top:<fields>  [pfx:nil|pfx:<fields>  o:<fields>  e:nil:<rest>|e:<fields>:<rest> …]
  <fields> = `-` or `Name=<hex>,Name=<hex>` (declaration order, zero values absent)

  subscribe.split <request>        splitSubscribeRequest: `ok T:<target> <request> | T:… ` (sorted by target), `err <class>`, `panic`
  subscribe.init <sid> dev:<target>=<round>/<round>/… …   a new stream named <sid>; the connected targets and what each sends back:
                 round 0 on the subscription, round k on the k-th poll; <round> = comma list of r<id> (update), y (sync_response), o<id> (not a SubscribeResponse)
  subscribe.msg <sid> <request>    one message on that stream: `ok|err <class>` then per target `| T:<t> [sub <request>] [relay:<ids>] [poll]`
  subscribe.eof <sid> / subscribe.recverr <sid>   the subscriber's stream ends
  (a line naming a stream other than the one opened last is answered `no-stream`)
-/
import OnosVerif.Base.Wire
import OnosVerif.Subscribe.Model

namespace OnosVerif.Subscribe
open OnosVerif.Wire

def decFields (s : String) : Option Fields :=
  if s == "-" then some [] else
  (s.splitOn ",").mapM fun kv =>
    match kv.splitOn "=" with
    | [k, v] => do pure (k, (← decStr v))
    | _ => none

def encFields (f : Fields) : String :=
  if f.isEmpty then "-" else ",".intercalate (f.map fun kv => kv.1 ++ "=" ++ encStr kv.2)

def stripTag (tag tok : String) : Option String :=
  if tok.startsWith tag then some (tok.drop tag.length).toString else none

def decSubTok (tok : String) : Option Sub := do
  let body ← stripTag "e:" tok
  match body.splitOn ":" with
  | [p, r] =>
    let rest ← decStr r
    if p == "nil" then pure { path := none, rest := rest }
    else pure { path := some (← decFields p), rest := rest }
  | _ => none

def encSub (s : Sub) : String :=
  "e:" ++ (match s.path with | none => "nil" | some f => encFields f) ++ ":" ++ encStr s.rest

def decReq (toks : List String) : Option Req :=
  match toks with
  | kind :: topTok :: rest => do
    let top ← decFields (← stripTag "top:" topTok)
    match kind, rest with
    | "P", [] => pure { body := .poll, top := top }
    | "N", [] => pure { body := .none, top := top }
    | "SN", [] => pure { body := .subscribeNil, top := top }
    | "S", pfxTok :: oTok :: es => do
      let p ← stripTag "pfx:" pfxTok
      let pfx ← if p == "nil" then pure none else (decFields p).map some
      let opts ← decFields (← stripTag "o:" oTok)
      let subs ← es.mapM decSubTok
      pure { body := .subscribe { pfx := pfx, subs := subs, opts := opts }, top := top }
    | _, _ => none
  | _ => none

def encReq (r : Req) : String :=
  match r.body with
  | .poll => "P top:" ++ encFields r.top
  | .none => "N top:" ++ encFields r.top
  | .subscribeNil => "SN top:" ++ encFields r.top
  | .subscribe l =>
    " ".intercalate (["S", "top:" ++ encFields r.top,
      "pfx:" ++ (match l.pfx with | none => "nil" | some f => encFields f),
      "o:" ++ encFields l.opts] ++ l.subs.map encSub)

def strLe (a b : Str) : Bool := (String.ofList a) ≤ (String.ofList b)

/-- insertion sort by target (canonical order of a Go map's entries). -/
def sortBy {α : Type} (key : α → Str) (l : List α) : List α :=
  l.foldl (fun acc x =>
    let (lo, hi) := acc.partition (fun y => strLe (key y) (key x))
    lo ++ [x] ++ hi) []

def encErr : Err → String
  | .duplicate => "duplicate" | .notYet => "notYet" | .noTarget => "noTarget" | .unknownType => "unknownType"

def encSplit : Except Panic (Except Err TReqs) → String
  | .error _ => "panic"
  | .ok (.error e) => "err " ++ encErr e
  | .ok (.ok m) =>
    "ok " ++ " | ".intercalate ((sortBy (fun kr => kr.1) m).map fun kr => "T:" ++ encStr kr.1 ++ " " ++ encReq kr.2)

def decDevTok (tok : String) : Option (Str × List (List DevMsg)) := do
  let body ← stripTag "dev:" tok
  match body.splitOn "=" with
  | [t, rs] =>
    let target ← decStr t
    let decMsg : String → Option DevMsg := fun m =>
      if m == "y" then some DevMsg.sync
      else if m.startsWith "r" then (decStr (m.drop 1).toString).map DevMsg.resp
      else if m.startsWith "o" then (decStr (m.drop 1).toString).map DevMsg.other
      else none
    let decRound : String → Option (List DevMsg) := fun r =>
      if r.isEmpty then some [] else (r.splitOn ",").mapM decMsg
    let rounds ← (if rs.isEmpty then some [] else (rs.splitOn "/").mapM decRound)
    pure (target, rounds)
  | _ => none

def outTarget : Out → Str
  | .subscribed t _ => t | .polled t => t | .relayed t _ => t

def dedup (l : List Str) : List Str := l.foldl (fun acc x => if acc.contains x then acc else acc ++ [x]) []

/-- per target (sorted): `T:<t> [sub <request>] [relay:<ids>] [poll]`. -/
def encOuts (outs : List Out) : String :=
  let targets := sortBy id (dedup (outs.map outTarget))
  String.join (targets.map fun t =>
    let mine := outs.filter (fun o => outTarget o == t)
    let subs := mine.filterMap fun | .subscribed _ r => some (" sub " ++ encReq r) | _ => none
    let rel := mine.filterMap fun | .relayed _ id => some (encStr id) | _ => none
    let polls := mine.filterMap fun | .polled _ => some " poll" | _ => none
    " | T:" ++ encStr t ++ String.join subs ++
      (if rel.isEmpty then "" else " relay:" ++ ",".intercalate rel) ++ String.join polls)

structure Stream where
  sid : String := ""
  dev : Dev := []
  st : SState := {}
  closed : Bool := false

instance : Inhabited Stream := ⟨{}⟩

initialize streamRef : IO.Ref Stream ← IO.mkRef {}

def handleIO (op : String) (args : List String) : IO (Option String) := do
  match op with
  | "split" =>
    match decReq args with
    | some r => pure (some (encSplit (split r)))
    | none => pure none
  | "init" =>
    match args with
    | sid :: devs =>
      match devs.mapM decDevTok with
      | some dev => streamRef.set { sid := sid, dev := dev }; pure (some "ok")
      | none => pure none
    | [] => pure none
  | "msg" =>
    match args with
    | sid :: rest =>
      match decReq rest with
      | none => pure none
      | some r =>
        let s ← streamRef.get
        if s.sid != sid then pure (some "no-stream") else
        if s.closed then pure (some "closed") else
        let (st', outs, err) := process s.dev s.st r
        match err with
        | some e =>
          streamRef.set { s with st := st', closed := true }
          pure (some ("err " ++ encErr e ++ encOuts outs))
        | none =>
          streamRef.set { s with st := st' }
          pure (some ("ok" ++ encOuts outs))
    | [] => pure none
  | "eof" | "recverr" =>
    match args with
    | [sid] =>
      let s ← streamRef.get
      if s.sid != sid then pure (some "no-stream") else
      if s.closed then pure (some "closed") else
      streamRef.set { s with closed := true }
      pure (some (if op == "eof" then "ret eofErr" else "ret nil"))
    | _ => pure none
  | _ => pure none

end OnosVerif.Subscribe
