/-
Twin of the read path of the gNMI Get handler (pkg/northbound/gnmi/v2):

* `processRequest` (get.go): the text a request path is turned into — `StrPath(prefix)` when the
  prefix has elements, followed by `StrPath(path)`, one trailing `/` removed; for a request with
  a prefix only, `StrPath(prefix)`;
* `getUpdate`: the stored values whose path text matches `MatchWildcardRegexp(text, false)` and
  that are not marked deleted;
* `utils.MatchWildcardRegexp` as a matcher: `regexp.QuoteMeta`, then `*` -> `[legalChars]*?`,
  `...` -> `.*`, anchored at the start only (NB/Text.lean models the expression text; here it is
  run);
* `createUpdate` (get_utils.go): no value -> one update without value; JSON / JSON_IETF -> one
  update holding the document of the selected values (the document is represented by its leaves:
  `flatten ∘ BuildTree` is C18's); PROTO -> one update per selected value, unless the guard
  regenerated from the source (`Generated.protoSkipGuard`) skips it, with the path re-parsed
  from the stored text by `strings.Split(strings.Trim(path, "/"), "/")` + `ParseGNMIElements`
  (absolute: the request prefix is NOT taken off — the project's convention, Test_GetWithPrefixOnly).

Paths are ASCII (`len` in bytes = length in characters).  Core-only: linked into the driver.
-/
import OnosVerif.Path.Model
import OnosVerif.Value.Enc
import OnosVerif.Generated.Facts

namespace OnosVerif.NBGet
open OnosVerif.Path

/-- one entry of `Configuration.Values`. -/
structure Stored where
  path : Str
  value : Str
  deleted : Bool
deriving DecidableEq, Repr

/-! ### MatchWildcardRegexp, run -/

/-- `[a-zA-Z0-9_:,\-\.]` -/
def legalChar (c : Char) : Bool :=
  c.isAlphanum || c = '_' || c = ':' || c = ',' || c = '-' || c = '.'

/-- `f` holds after dropping some number of leading characters (all of them legal when
    `legalOnly`): what `.*` / `[legalChars]*?` followed by the rest of the expression accept. -/
def anyDrop (f : Str → Bool) (legalOnly : Bool) : Str → Bool
  | [] => f []
  | c :: r => f (c :: r) || ((!legalOnly || legalChar c) && anyDrop f legalOnly r)

/-- `MatchWildcardRegexp(query, false).MatchString(path)`: a match anchored at the start only. -/
def wmatch : Str → Str → Bool
  | [], _ => true
  | '.' :: '.' :: '.' :: q, p => anyDrop (fun r => wmatch q r) false p
  | '*' :: q, p => anyDrop (fun r => wmatch q r) true p
  | c :: q, p =>
    match p with
    | [] => false
    | d :: p' => c = d && wmatch q p'

/-! ### the request -/

/-- a `gnmi.Path` with `Elem` members. -/
structure PathMsg where
  target : Str
  elems : GPath
deriving Repr

/-- `strings.TrimSuffix(s, "/")` -/
def trimSuffixSlash (s : Str) : Str := if s.getLast? = some '/' then s.dropLast else s

/-- `pathAsString` of `processRequest` for one path of the request. -/
def queryText (pfx : Option PathMsg) (p : GPath) : Str :=
  let a := strPath p
  trimSuffixSlash
    (match pfx with
     | some x => if x.elems.isEmpty then a else strPath x.elems ++ a
     | none => a)

/-- `prefixPath` of `processRequest` for a request without paths. -/
def prefixOnlyText (pfx : PathMsg) : Str := strPath pfx.elems

/-- `getUpdate`: the values handed to `createUpdate`. -/
def selected (q : Str) (vals : List Stored) : List Stored :=
  vals.filter fun s => wmatch q s.path && !s.deleted

/-! ### createUpdate -/

inductive Enc | proto | json
deriving DecidableEq, Repr

inductive Upd
  /-- `Update{Path: path, Val: nil}` -/
  | empty (path : Option GPath)
  /-- PROTO: path re-parsed from the stored text, value -/
  | value (path : GPath) (v : Str)
  /-- JSON: the request path and the leaves of the document -/
  | doc (path : Option GPath) (leaves : List (Str × Str))
deriving DecidableEq, Repr

inductive Fail | parse | unmodelled
deriving DecidableEq, Repr

/-- the guard that skips a value in the PROTO branch, read from the regenerated fact:
    `len(prefixPath) > len(cv.Path)` in the unchanged source. -/
def guardSkips (prefixPath cvPath : Str) : Option Bool :=
  match Generated.protoSkipGuard with
  | ("cmp>", "len(prefixPath)", "len(cv.Path)") => some (decide (prefixPath.length > cvPath.length))
  | ("cmp>=", "len(prefixPath)", "len(cv.Path)") => some (decide (prefixPath.length ≥ cvPath.length))
  | ("not:strings.HasPrefix", "cv.Path", "prefixPath") => some (!(prefixPath.isPrefixOf cvPath))
  | _ => none

/-- `strings.Trim(s, "/")` -/
def trimSlashes (s : Str) : Str :=
  ((s.dropWhile (· = '/')).reverse.dropWhile (· = '/')).reverse

/-- `strings.Split(s, "/")` -/
def splitSlash : Str → List Str
  | [] => [[]]
  | c :: r =>
    match splitSlash r with
    | [] => [[]]
    | h :: t => if c = '/' then [] :: h :: t else (c :: h) :: t

/-- `ParseGNMIElements(strings.Split(strings.Trim(cv.Path, "/"), "/"))` -/
def reparse (path : Str) : Except Fail GPath :=
  match parseElements (splitSlash (trimSlashes path)) with
  | .ok p => .ok p
  | .error _ => .error .parse

/-- the PROTO loop of `createUpdate`. -/
def protoUpdates (prefixPath : Str) : List Stored → Except Fail (List Upd)
  | [] => .ok []
  | cv :: rest =>
    match guardSkips prefixPath cv.path with
    | none => .error .unmodelled
    | some true => protoUpdates prefixPath rest
    | some false =>
      match reparse cv.path with
      | .error e => .error e
      | .ok p =>
        match protoUpdates prefixPath rest with
        | .error e => .error e
        | .ok us => .ok (.value p cv.value :: us)

/-- `prefixPath` of `createUpdate`: `StrPathElem(prefix.Elem)`, empty without a prefix. -/
def prefixPathOf (pfx : Option PathMsg) : Str :=
  match pfx with
  | some x => strPathElem x.elems
  | none => []

/-- the query text of one notification (`none`: the request has a prefix only). -/
def queryOf (pfx : Option PathMsg) (path : Option GPath) : Str :=
  match path with
  | some p => queryText pfx p
  | none => match pfx with
    | some x => prefixOnlyText x
    | none => ['/']

/-- `createUpdate(prefix, path, configValues, encoding)`. -/
def createUpdate (pfx : Option PathMsg) (path : Option GPath) (vals : List Stored) (enc : Enc) :
    Except Fail (List Upd) :=
  if vals.isEmpty then .ok [.empty path]
  else
    match enc with
    | .json => .ok [.doc path (vals.map fun s => (s.path, s.value))]
    | .proto =>
      protoUpdates (prefixPathOf pfx) vals

/-- one notification of the response: `getUpdate` for one path of the request (`none`: the
    request has a prefix only). -/
def notification (pfx : Option PathMsg) (path : Option GPath) (vals : List Stored) (enc : Enc) :
    Except Fail (List Upd) :=
  createUpdate pfx path (selected (queryOf pfx path) vals) enc

end OnosVerif.NBGet
