/- Line-protocol handlers for the Get-handler twin (I/O glue, not part of the model).

  nbget.load <T> s:<hex path>=<hex value> … d:<hex path> …   -> ok <live> <tombstones>
  nbget.get <P|J|I> <p|q|b> <T> pfx=<nil|.|elem,…> p=<.|elem,…> …  -> ok n[…] n[…] | err noConfig
-/
import OnosVerif.Base.Wire
import OnosVerif.Path.Wire
import OnosVerif.NBGet.Model

namespace OnosVerif.NBGet
open OnosVerif.Wire OnosVerif.Path

initialize stRef : IO.Ref (List (String × List Stored)) ← IO.mkRef []

def decElemList (s : String) : Option GPath :=
  if s == "." then some [] else (s.splitOn ",").mapM decElem

def decLoadTok (tok : String) : Option Stored :=
  if tok.startsWith "s:" then
    match ((tok.drop 2).toString.splitOn "=") with
    | [k, v] => do pure { path := (← decStr k), value := (← decStr v), deleted := false }
    | _ => none
  else if tok.startsWith "d:" then do
    pure { path := (← decStr (tok.drop 2).toString), value := "doomed".toList, deleted := true }
  else none

def insertSorted (s : String) : List String → List String
  | [] => [s]
  | h :: t => if s < h then s :: h :: t else h :: insertSorted s t

def sortStrings (l : List String) : List String := l.foldr insertSorted []

def pathText (p : Option GPath) : Path.Str :=
  match p with
  | some es => strPath es
  | none => ['/']

def encUpd : Upd → String
  | .empty p => "e@" ++ encStr (pathText p)
  | .value p v => "u:" ++ encStr (strPath p) ++ "=" ++ encStr v
  | .doc p leaves =>
    "j@" ++ encStr (pathText p) ++ "[" ++
      ",".intercalate (sortStrings (leaves.map fun (k, v) => encStr k ++ "=" ++ encStr v)) ++ "]"

def encNotification (us : List Upd) : String :=
  "n[" ++ ";".intercalate (sortStrings (us.map encUpd)) ++ "]"

def handleIO (op : String) (args : List String) : IO (Option String) := do
  match op, args with
  | "load", t :: toks =>
    match toks.mapM decLoadTok with
    | none => pure none
    | some vals =>
      let st ← stRef.get
      let st := st.filter fun e => e.1 != t
      if vals.isEmpty then
        stRef.set st
        pure (some "ok 0 0")
      else
        stRef.set ((t, vals) :: st)
        let live := (vals.filter fun s => !s.deleted).length
        pure (some s!"ok {live} {vals.length - live}")
  | "get", enc :: _tmode :: t :: pfxTok :: pathToks =>
    let encv := if enc == "P" then Enc.proto else Enc.json
    let pfx? : Option (Option PathMsg) :=
      if pfxTok == "pfx=nil" then some none
      else if pfxTok.startsWith "pfx=" then
        (decElemList (pfxTok.drop 4).toString).map fun es => some { target := t.toList, elems := es }
      else none
    let paths? := pathToks.mapM fun p =>
      if p.startsWith "p=" then decElemList (p.drop 2).toString else none
    match pfx?, paths? with
    | some pfx, some paths =>
      let st ← stRef.get
      match st.find? fun e => e.1 == t with
      | none => pure (some "err noConfig")
      | some (_, vals) =>
        let reqs : List (Option GPath) := if paths.isEmpty then [none] else paths.map some
        let rec go : List (Option GPath) → Except Fail (List String)
          | [] => .ok []
          | p :: rest =>
            match notification pfx p vals encv, go rest with
            | .ok us, .ok ns => .ok (encNotification us :: ns)
            | .error e, _ => .error e
            | _, .error e => .error e
        match go reqs with
        | .ok ns => pure (some (" ".intercalate ("ok" :: ns)))
        | .error .parse => pure (some "err parse")
        | .error .unmodelled => pure (some "unmodelled")
    | _, _ => pure none
  | _, _ => pure none

end OnosVerif.NBGet
