/-
Twin of the five stores
  pkg/store/v2/transaction/store.go, pkg/store/v2/proposal/store.go,
  pkg/store/v2/configuration/configuration.go, pkg/store/v3/transaction/store.go,
  pkg/store/v3/configuration/store.go
over the atomix primitives they wrap (`Map`, `IndexedMap`; semantics transcribed from
atomix/protocols/rsm …/statemachine/{map,indexedmap}/v1/statemachine.go: modelled, not verified).

What is mirrored, quirks included:
* the primitive: `key ↦ (index, version, value)`; `Insert`/`Append` fail with AlreadyExists on a present
  key; `Append` takes index `lastIndex+1`; `Update` fails with NotFound on an absent key and with
  Conflict when a NON-ZERO expected version differs (an expected version 0 means "unconditional");
  every command, failed ones included, consumes one position of the partition log and a successful
  write takes that position as the entry's new version; every successful write emits one event;
* the wrappers: the argument guards in source order, `Revision = 1` / `Revision++` on the CALLER's
  object before the primitive call (so a failed Update still leaves the caller's revision bumped),
  `IfVersion(obj.Version)`, write-back of `Version` (and `Index`) into the caller's object;
  guards, the Revision++ flag, the IfVersion field and the callee order come from the translator
  (`OnosVerif.Generated`), so the definitions below change when the Go sources change;
* configuration stores: two side maps per configuration id, `configurations-<id>` for the committed and
  `configurations-<id>-applied` for the applied values (separate since commit 7dda02f; whether the two
  names coincide is a regenerated fact), written by `store()` BEFORE the entry compare-and-set (so a refused Update has already merged its values), a shadow copy
  of the caller's other value map left inside the entry (`Update` nils `Values` but stores
  `Status.Applied.Values`; `UpdateStatus` the other way round), `Get` = entry overlaid by the side map;
  v3 `store()` passes `&pv` of the range variable (go 1.19 semantics): every key written by one call
  receives the LAST iterated PathValue — the iteration's last key is an explicit argument;
* v3 configuration `Update`/`UpdateStatus` address the entry by the caller's `ObjectMeta.Key`, `Create`
  and `Get` by `getKey(ID)`;
* v3 transaction store: one indexed log per target, created on first use by ANY operation (a `Get` of
  an unknown target registers it); `List` returns from inside the inner loop, i.e. lists the log of
  the first target of the target map's iteration only — the first target is an explicit argument.

Values are abstracted: a record carries a `payload : Nat` (standing for status/details) and path-value
maps `path ↦ index` without deletions (pruning and tombstones belong to the Config/Tree twins).
Timestamps are not modelled: two writes of one record always differ (`Updated = time.Now()`), so the
primitive's "equal bytes ⇒ no-op" branch is unreachable through the wrappers (assumption listed in
props.d/C15.json).

Core-only: this file is linked into the `oracle` driver.
-/
import OnosVerif.Generated.Facts

namespace OnosVerif.Store

abbrev Key := List Char

/-- onos-lib-go error classes the wrappers can return (`errors.FromAtomix` of the primitive's error,
    or `errors.NewInvalid` of a guard). -/
inductive Err
  | invalid | notFound | alreadyExists | conflict
deriving DecidableEq, Repr, Inhabited

inductive Kind
  | tx2 | prop2 | cfg2 | tx3 | cfg3
deriving DecidableEq, Repr, Inhabited

/-- a path-value map: path ↦ `PathValue.Index` (sorted by path, no deletions). -/
abbrev Vals := List (Key × Nat)

/-- The fields of a record the wrappers look at.  One shape for all five record types:
    `id` is `ID` (v2) or `ID.Target.ID` (v3); `ttype`/`tver` are `ID.Target.Type/Version` (v3);
    `key` is `ObjectMeta.Key`; `target` is `TargetID` (v2 proposal/configuration);
    `txIndex` is `Proposal.TransactionIndex`; `index` is `Transaction.Index` (v2) / `ID.Index` (v3);
    `vals` is `Values` (v2) / `Committed.Values` (v3), `avals` is `Status.Applied.Values` / `Applied.Values`
    (`none` = nil map). -/
structure Obj where
  id : Key := []
  ttype : Key := []
  tver : Key := []
  key : Key := []
  target : Key := []
  txIndex : Nat := 0
  index : Nat := 0
  version : Nat := 0
  revision : Nat := 0
  payload : Nat := 0
  vals : Option Vals := none
  avals : Option Vals := none
deriving DecidableEq, Repr, Inhabited

/-! ### the atomix primitive -/

structure PEntry (α : Type) where
  key : Key
  index : Nat
  version : Nat
  value : α
deriving Repr

/-- `clock` is the partition log position; `log` is the list of emitted events `(key, version)`,
    oldest first (what `Events()` streams deliver). -/
structure Prim (α : Type) where
  clock : Nat := 0
  lastIndex : Nat := 0
  entries : List (PEntry α) := []
  log : List (Key × Nat) := []
deriving Repr

namespace Prim
variable {α : Type}

def find (p : Prim α) (k : Key) : Option (PEntry α) := p.entries.find? (fun e => e.key == k)

/-- version of a key, 0 when absent (atomix versions are log positions, hence positive). -/
def version (p : Prim α) (k : Key) : Nat := ((p.find k).map (·.version)).getD 0

def indexOf (p : Prim α) (k : Key) : Nat := ((p.find k).map (·.index)).getD 0

def findIndex (p : Prim α) (i : Nat) : Option (PEntry α) := p.entries.find? (fun e => e.index == i)

def replace (es : List (PEntry α)) (e : PEntry α) : List (PEntry α) :=
  es.map (fun x => if x.key == e.key then e else x)

/-- a command that fails still consumes a log position. -/
def tick (p : Prim α) : Prim α := { p with clock := p.clock + 1 }

/-- `IndexedMap.Append` (indexed = true) / `Map.Insert` (indexed = false). -/
def insert (p : Prim α) (indexed : Bool) (k : Key) (v : α) : Prim α × Except Err (PEntry α) :=
  match p.find k with
  | some _ => (p.tick, .error .alreadyExists)
  | none =>
    let c := p.clock + 1
    let i := if indexed then p.lastIndex + 1 else 0
    let e : PEntry α := { key := k, index := i, version := c, value := v }
    ({ clock := c, lastIndex := if indexed then i else p.lastIndex,
       entries := p.entries ++ [e], log := p.log ++ [(k, c)] }, .ok e)

/-- `Update(key, value, IfVersion(ifv))`; `ifv = 0` is what the primitive treats as "no condition". -/
def update (p : Prim α) (k : Key) (v : α) (ifv : Nat) : Prim α × Except Err (PEntry α) :=
  match p.find k with
  | none => (p.tick, .error .notFound)
  | some old =>
    if ifv ≠ 0 ∧ old.version ≠ ifv then (p.tick, .error .conflict)
    else
      let c := p.clock + 1
      let e : PEntry α := { old with version := c, value := v }
      ({ p with clock := c, entries := replace p.entries e, log := p.log ++ [(k, c)] }, .ok e)

end Prim

/-! ### guards (from the translator) -/

open OnosVerif.Generated.StoreFacts (GField GGuard)

abbrev Guard := GGuard

/-- does `if obj.<field> ==/!= <zero value>` hold of the caller's object?  A condition the translator
    could not classify (`other`) never fires (the correspondence check then shows the difference). -/
def Guard.fires (g : Guard) (o : Obj) : Bool :=
  match g.field with
  | .id => o.id.isEmpty == g.isZero
  | .targetID => o.target.isEmpty == g.isZero
  | .txIndex => (o.txIndex == 0) == g.isZero
  | .revision => (o.revision == 0) == g.isZero
  | .version => (o.version == 0) == g.isZero
  | .key => o.key.isEmpty == g.isZero
  | .targetType => o.ttype.isEmpty == g.isZero
  | .targetVersion => o.tver.isEmpty == g.isZero
  | .other => false

/-- `if obj.Version == 0 { return errors.NewInvalid(…) }` -/
def verZero : Guard := ⟨.version, true⟩

inductive Meth | create | update | updateStatus
deriving DecidableEq, Repr

open OnosVerif.Generated.StoreFacts in
def guards : Kind → Meth → List Guard
  | .tx2, .create => v2TxCreateGuards | .tx2, .update => v2TxUpdateGuards | .tx2, .updateStatus => v2TxUpdateStatusGuards
  | .prop2, .create => v2PropCreateGuards | .prop2, .update => v2PropUpdateGuards | .prop2, .updateStatus => v2PropUpdateStatusGuards
  | .cfg2, .create => v2CfgCreateGuards | .cfg2, .update => v2CfgUpdateGuards | .cfg2, .updateStatus => v2CfgUpdateStatusGuards
  | .tx3, .create => v3TxCreateGuards | .tx3, .update => v3TxUpdateGuards | .tx3, .updateStatus => v3TxUpdateStatusGuards
  | .cfg3, .create => v3CfgCreateGuards | .cfg3, .update => v3CfgUpdateGuards | .cfg3, .updateStatus => v3CfgUpdateStatusGuards

open OnosVerif.Generated.StoreFacts in
/-- the field passed to `IfVersion` by `Update` / `UpdateStatus`. -/
def ifVersionField : Kind → Meth → GField
  | .tx2, .update => v2TxUpdateIfVersion | .tx2, .updateStatus => v2TxUpdateStatusIfVersion
  | .prop2, .update => v2PropUpdateIfVersion | .prop2, .updateStatus => v2PropUpdateStatusIfVersion
  | .cfg2, .update => v2CfgUpdateIfVersion | .cfg2, .updateStatus => v2CfgUpdateStatusIfVersion
  | .tx3, .update => v3TxUpdateIfVersion | .tx3, .updateStatus => v3TxUpdateStatusIfVersion
  | .cfg3, .update => v3CfgUpdateIfVersion | .cfg3, .updateStatus => v3CfgUpdateStatusIfVersion
  | _, .create => .other

/-- the expected version the wrapper hands to the primitive: the caller's `Version` when the code says
    `IfVersion(primitive.Version(obj.Version))`, otherwise 0 = unconditional. -/
def ifVersionOf (k : Kind) (m : Meth) (o : Obj) : Nat :=
  if ifVersionField k m = .version then o.version else 0

open OnosVerif.Generated.StoreFacts in
def revisionInc : Kind → Meth → Bool
  | .tx2, .update => v2TxUpdateRevisionInc | .tx2, .updateStatus => v2TxUpdateStatusRevisionInc
  | .prop2, .update => v2PropUpdateRevisionInc | .prop2, .updateStatus => v2PropUpdateStatusRevisionInc
  | .cfg2, .update => v2CfgUpdateRevisionInc | .cfg2, .updateStatus => v2CfgUpdateStatusRevisionInc
  | .tx3, .update => v3TxUpdateRevisionInc | .tx3, .updateStatus => v3TxUpdateStatusRevisionInc
  | .cfg3, .update => v3CfgUpdateRevisionInc | .cfg3, .updateStatus => v3CfgUpdateStatusRevisionInc
  | _, .create => false

open OnosVerif.Generated.StoreFacts in
/-- `Append` (indexed log) or `Insert` (plain map). -/
def createIndexed : Kind → Bool
  | .tx2 => v2TxCreateAppends | .prop2 => v2PropCreateAppends | .cfg2 => v2CfgCreateAppends
  | .tx3 => v3TxCreateAppends | .cfg3 => v3CfgCreateAppends

open OnosVerif.Generated.StoreFacts in
/-- `obj.Revision = n` of `Create`. -/
def createRevision : Kind → Nat
  | .tx2 => v2TxCreateRevision | .prop2 => v2PropCreateRevision | .cfg2 => v2CfgCreateRevision
  | .tx3 => v3TxCreateRevision | .cfg3 => v3CfgCreateRevision

open OnosVerif.Generated.StoreFacts in
def createDefaults : Kind → List Guard
  | .tx2 => v2TxCreateDefaults | .prop2 => v2PropCreateDefaults | .cfg2 => v2CfgCreateDefaults
  | .tx3 => v3TxCreateDefaults | .cfg3 => v3CfgCreateDefaults

open OnosVerif.Generated.StoreFacts in
/-- configuration stores: `s.store(…)` (the values half) is called before the entry compare-and-set. -/
def valuesBeforeCas : Kind → Meth → Bool
  | .cfg2, .update => v2CfgUpdateValuesFirst | .cfg2, .updateStatus => v2CfgUpdateStatusValuesFirst
  | .cfg2, .create => v2CfgCreateValuesFirst
  | .cfg3, .update => v3CfgUpdateValuesFirst | .cfg3, .updateStatus => v3CfgUpdateStatusValuesFirst
  | .cfg3, .create => v3CfgCreateValuesFirst
  | _, _ => false

open OnosVerif.Generated.StoreFacts in
/-- `getCommitted` and `getApplied` open the same atomix map. -/
def sideMapsShared : Kind → Bool
  | .cfg2 => v2CfgSideMapsShared
  | .cfg3 => v3CfgSideMapsShared
  | _ => false

open OnosVerif.Generated.StoreFacts in
/-- what the applied map's name appends to the committed map's name. -/
def appliedSuffix : Kind → Key
  | .cfg2 => v2CfgAppliedSuffix.toList
  | .cfg3 => v3CfgAppliedSuffix.toList
  | _ => []

def Kind.isCfg : Kind → Bool
  | .cfg2 | .cfg3 => true
  | _ => false

/-! ### store state -/

/-- association-list helpers (Go maps keyed by strings). -/
def alGet {β : Type} (l : List (Key × β)) (k : Key) : Option β := (l.find? (fun kv => kv.1 == k)).map (·.2)

def alSet {β : Type} (l : List (Key × β)) (k : Key) (v : β) : List (Key × β) :=
  if l.any (fun kv => kv.1 == k) then l.map (fun kv => if kv.1 == k then (k, v) else kv) else l ++ [(k, v)]

/-- `spaces`: the record primitives — one, named `[]`, for every store but the v3 transaction store,
    which has one indexed log per target (`transactions-<id>-<type>-<version>`), in creation order.
    `sides`: configuration stores only, the path-value map `configurations-<id>` of each configuration. -/
structure Store where
  kind : Kind
  spaces : List (Key × Prim Obj) := []
  sides : List (Key × Prim Nat) := []
deriving Repr

def Store.init (k : Kind) : Store :=
  { kind := k, spaces := if k == .tx3 then [] else [([], {})], sides := [] }

def dash (a b c : Key) : Key := a ++ '-' :: b ++ '-' :: c

/-- the primitive a record lives in. -/
def spaceOf (k : Kind) (o : Obj) : Key :=
  match k with
  | .tx3 => dash o.id o.ttype o.tver
  | _ => []

/-- the key under which `Create` / `Get` address the record. -/
def createKey (k : Kind) (o : Obj) : Key :=
  match k with
  | .tx2 | .prop2 | .cfg2 => o.id
  | .tx3 => o.key
  | .cfg3 => dash o.id o.ttype o.tver

/-- the key under which `Update` / `UpdateStatus` address the record (v3 configuration: the caller's
    `ObjectMeta.Key`, not `getKey(ID)`). -/
def updateKey (k : Kind) (o : Obj) : Key :=
  match k with
  | .tx2 | .prop2 | .cfg2 => o.id
  | .tx3 => o.key
  | .cfg3 => o.key

/-- name of the side map of a configuration (`fmt.Sprintf("configurations-%s", id)`; one map for
    committed and applied). -/
def sideOf (k : Kind) (o : Obj) : Key :=
  match k with
  | .cfg3 => dash o.id o.ttype o.tver
  | _ => o.id

/-- name of the applied-values map of a configuration: since commit 7dda02f `configurations-<id>-applied`. -/
def appliedSideOf (k : Kind) (o : Obj) : Key :=
  if sideMapsShared k then sideOf k o else sideOf k o ++ appliedSuffix k

def Store.space (s : Store) (sp : Key) : Prim Obj := (alGet s.spaces sp).getD {}

def Store.setSpace (s : Store) (sp : Key) (p : Prim Obj) : Store := { s with spaces := alSet s.spaces sp p }

def Store.side (s : Store) (sd : Key) : Prim Nat := (alGet s.sides sd).getD {}

def Store.setSide (s : Store) (sd : Key) (p : Prim Nat) : Store := { s with sides := alSet s.sides sd p }

/-- `getTransactions`: the v3 transaction store creates the target's log on first use.  Each log gets its
    own range of log positions, so that versions of records of different logs never coincide (in atomix
    they are positions of one partition log, or of different partitions). -/
def Store.touch (s : Store) (sp : Key) : Store :=
  if s.kind == .tx3 ∧ (alGet s.spaces sp).isNone then
    { s with spaces := s.spaces ++ [(sp, { clock := 1000000 * (s.spaces.length + 1) })] }
  else s

/-! ### the values half: `store()` -/

/-- one iteration of `store()` for a live (non-deleted) path value: absent → Insert, present with a
    different index → Update, same index → nothing.  `w` is the PathValue index that gets written
    (the iteration's own, or — v3 — the last iterated one). -/
def storeOne (side : Prim Nat) (path : Key) (idx w : Nat) : Prim Nat :=
  match side.find path with
  | none => (side.insert false path w).1
  | some e => if idx ≠ e.value then (side.update path w e.version).1 else side

/-- `store(ctx, sideMap, values)`.  `alias = some i`: every written entry receives index `i`
    (v3: `&pv` of the shared range variable, `i` = index of the last iterated value). -/
def storeVals (side : Prim Nat) (vals : Vals) (alias : Option Nat) : Prim Nat :=
  vals.foldl (fun sd pv => storeOne sd pv.1 pv.2 (alias.getD pv.2)) side

/-- index of the value that the range loop visits last (`last` names its path; if it is not a key of
    the map the map's own last entry is taken). -/
def lastIndexOf (vals : Vals) (last : Key) : Option Nat :=
  match alGet vals last with
  | some i => some i
  | none => vals.getLast?.map (·.2)

def aliasOf (k : Kind) (vals : Vals) (last : Key) : Option Nat :=
  match k with
  | .cfg3 => lastIndexOf vals last
  | _ => none

/-- overlay of the side map on a (possibly nil) map of the entry: `populate`. -/
def overlay (base : Option Vals) (side : Prim Nat) : Option Vals :=
  side.entries.foldl (fun acc e =>
    some (alSet (acc.getD []) e.key e.value)) base

/-! ### the wrappers -/

/-- result of a wrapper call: the store, the caller's (mutated) object, the error if any. -/
structure Res where
  store : Store
  obj : Obj
  err : Option Err
deriving Repr

def firstFiring (gs : List Guard) (o : Obj) : Bool := gs.any (fun g => g.fires o)

/-- the values half of a configuration write: `store()` on the side map, before the entry is touched.
    Only `sides` changes. -/
def valuesHalf (s : Store) (m : Meth) (o : Obj) (last : Key) : Store :=
  let k := s.kind
  if k.isCfg ∧ valuesBeforeCas k m then
    let sd := if m == .updateStatus then appliedSideOf k o else sideOf k o
    match (if m == .updateStatus then o.avals else o.vals) with
    | some vs => s.setSide sd (storeVals (s.side sd) vs (aliasOf k vs last))
    | none => s
  else s

/-- the end of every wrapper: store the primitive's new state, write `Version` (and `Index`) back into
    the caller's object on success. -/
def finish (s : Store) (sp : Key) (o : Obj) (r : Prim Obj × Except Err (PEntry Obj)) : Res :=
  match r with
  | (p, .error e) => { store := s.setSpace sp p, obj := o, err := some e }
  | (p, .ok e) =>
    let o := { o with version := e.version, index := if createIndexed s.kind then e.index else o.index }
    { store := s.setSpace sp p, obj := o, err := none }

/-- the defaulting ifs of `Create` (generated ids are written `auto<n>`, n = creates so far in that log). -/
def defaultIds (s : Store) (o : Obj) : Obj :=
  let k := s.kind
  let o := if (createDefaults k).contains ⟨.id, true⟩ ∧ o.id.isEmpty then
              { o with id := "auto".toList ++ (toString (s.space (spaceOf k o)).lastIndex).toList } else o
  if (createDefaults k).contains ⟨.key, true⟩ ∧ o.key.isEmpty then
    { o with key := "auto".toList ++ (toString (s.space (spaceOf k o)).lastIndex).toList } else o

/-- the caller's object as `Create` hands it to the primitive. -/
def createObj (k : Kind) (o : Obj) : Obj :=
  let o := if k.isCfg then { o with key := createKey k o, vals := none } else o
  { o with revision := createRevision k }

/-- the caller's object as `Update` / `UpdateStatus` hand it to the primitive. -/
def writeObj (k : Kind) (m : Meth) (o : Obj) : Obj :=
  let o := if revisionInc k m then { o with revision := o.revision + 1 } else o
  if k.isCfg then (if m == .update then { o with vals := none } else { o with avals := none }) else o

/-- `Create`. `last`: see `storeVals` (v3 configuration only). -/
def create (s : Store) (o : Obj) (last : Key := []) : Res :=
  let k := s.kind
  -- defaulting ifs come first (v2 and v3 transaction stores), before the guards
  let o := defaultIds s o
  if firstFiring (guards k .create) o then { store := s, obj := o, err := some .invalid } else
  let s := valuesHalf s .create o last
  let o := createObj k o
  let sp := spaceOf k o
  let s := s.touch sp
  finish s sp o ((s.space sp).insert (createIndexed k) (createKey k o) o)

/-- `Update` (m = .update) and `UpdateStatus` (m = .updateStatus). -/
def write (s : Store) (m : Meth) (o : Obj) (last : Key := []) : Res :=
  let k := s.kind
  if firstFiring (guards k m) o then { store := s, obj := o, err := some .invalid } else
  let s := valuesHalf s m o last
  let o := writeObj k m o
  let sp := spaceOf k o
  let s := s.touch sp
  -- the indexed map refuses an Update that names neither a key nor an index
  if createIndexed k ∧ (updateKey k o).isEmpty then { store := s.setSpace sp (s.space sp).tick, obj := o, err := some .invalid } else
  finish s sp o ((s.space sp).update (updateKey k o) o (ifVersionOf k m o))

/-- what a reader is handed for a stored entry: the stored object with `Version` (and `Index`) from the
    entry; configuration stores overlay the side map (`populate`) and `Get` sets `Key`. -/
def readEntry (s : Store) (e : PEntry Obj) (setKey : Bool) : Obj :=
  let k := s.kind
  let o := { e.value with version := e.version, index := if createIndexed k then e.index else e.value.index }
  if k.isCfg then
    -- an empty map does not survive the protobuf round trip of the stored entry
    let nz : Option Vals → Option Vals := fun v => match v with | some [] => none | x => x
    let o := { o with vals := overlay (nz o.vals) (s.side (sideOf k o)),
                      avals := overlay (nz o.avals) (s.side (appliedSideOf k o)) }
    if setKey then { o with key := e.key } else o
  else o

/-- `Get(id)`; v3 transaction: `Get(TransactionID{Target, Index})` = `GetIndex` on the target's log. -/
def get (s : Store) (q : Obj) : Store × Except Err Obj :=
  let k := s.kind
  let sp := spaceOf k q
  let s := s.touch sp
  let p := s.space sp
  let found := if k == .tx3 then p.findIndex q.index else p.find (createKey k q)
  (s, match found with
    | some e => .ok (readEntry s e true)
    | none => .error .notFound)

/-- `GetByIndex` (v2 transaction) / `GetKey` (v3 transaction, by log key). -/
def getAlt (s : Store) (q : Obj) : Store × Except Err Obj :=
  let k := s.kind
  let sp := spaceOf k q
  let s := s.touch sp
  let p := s.space sp
  let found := if k == .tx3 then p.find q.key else p.findIndex q.index
  (s, match found with
    | some e => .ok (readEntry s e true)
    | none => .error .notFound)

/-- `List`.  v3 transaction store: only the log of `first` (the target the iteration of the target map
    yields first); `first` not a known target: the oldest one. -/
def list (s : Store) (first : Key := []) : List Obj :=
  match s.kind with
  | .tx3 =>
    let sp := if (alGet s.spaces first).isSome then some first else s.spaces.head?.map (·.1)
    match sp with
    | none => []
    | some sp => (s.space sp).entries.map (fun e => readEntry s e false)
  | _ => (s.space []).entries.map (fun e => readEntry s e false)

/-! ### operations and runs (what the theorems quantify over) -/

inductive Op
  | create (o : Obj) (last : Key)
  | update (o : Obj) (last : Key)
  | updateStatus (o : Obj) (last : Key)
  | get (q : Obj)
  | getAlt (q : Obj)
deriving Repr

/-- one client operation; the outcome is the error (if any) and the object handed back. -/
def step (s : Store) : Op → Res
  | .create o l => create s o l
  | .update o l => write s .update o l
  | .updateStatus o l => write s .updateStatus o l
  | .get q => match get s q with
    | (s', .ok o) => { store := s', obj := o, err := none }
    | (s', .error e) => { store := s', obj := q, err := some e }
  | .getAlt q => match getAlt s q with
    | (s', .ok o) => { store := s', obj := o, err := none }
    | (s', .error e) => { store := s', obj := q, err := some e }

def run (s : Store) : List Op → Store
  | [] => s
  | op :: ops => run (step s op).store ops

/-- the outcomes of a run, in order. -/
def trace (s : Store) : List Op → List (Op × Res)
  | [] => []
  | op :: ops => (op, step s op) :: trace (step s op).store ops

/-- version / index of a record as the store holds it now (0 = absent). -/
def Store.version (s : Store) (sp k : Key) : Nat := (s.space sp).version k
def Store.indexOf (s : Store) (sp k : Key) : Nat := (s.space sp).indexOf k

end OnosVerif.Store
