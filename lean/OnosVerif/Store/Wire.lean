/- Line-protocol handlers for the store twin (I/O glue, not part of the model).

State: the store, the clients' local records (the objects the Go wrappers mutate in place), the watch
machine.  Every script starts with `store.init <kind>`.

Canonical forms: a version is printed as its ORDINAL in the history of the record's key (atomix
versions are log positions whose increments are not part of the contract): `0` for 0, `?` for a
number that never was a version of that key.  The watch machine numbers versions 1,2,3… per key, i.e.
its versions already are ordinals. -/
import OnosVerif.Base.Wire
import OnosVerif.Store.Model
import OnosVerif.Store.Watch

namespace OnosVerif.Store
open OnosVerif.Wire

structure WireState where
  store : Store := Store.init .tx2
  /-- local record of each client and the record (space, key) its `version` was obtained from -/
  clients : List (String × (Obj × (Key × Key))) := []
  wst : Watch.St := {}
  wnames : List String := []
  cfg : Watch.Cfg := Watch.idealCfg
  started : Bool := false

instance : Inhabited WireState := ⟨{}⟩

initialize wireRef : IO.Ref WireState ← IO.mkRef {}

def decKind : String → Option Kind
  | "tx2" => some .tx2 | "prop2" => some .prop2 | "cfg2" => some .cfg2 | "tx3" => some .tx3 | "cfg3" => some .cfg3
  | _ => none

def encErr : Err → String
  | .invalid => "invalid" | .notFound => "notfound" | .alreadyExists => "exists" | .conflict => "conflict"

def insertSorted (a : String) : List String → List String
  | [] => [a]
  | b :: bs => if a < b then a :: b :: bs else b :: insertSorted a bs

def sortStrs (l : List String) : List String := l.foldr insertSorted []

def encVals : Option Vals → String
  | none => "-"
  | some [] => "{}"
  | some vs => ",".intercalate (sortStrs (vs.map fun kv => encStr kv.1 ++ ":" ++ toString kv.2))

/-- ordinal of version `v` in the history of key `k` of primitive `p`. -/
def ordinal (p : Prim Obj) (k : Key) (v : Nat) : String :=
  if v == 0 then "0" else
  let hist := (p.log.filter (fun e => e.1 == k)).map (·.2)
  match hist.findIdx? (· == v) with
  | some i => toString (i + 1)
  | none => "?"

def encObj (s : Store) (o : Obj) (tag : Key × Key) : String :=
  let p := s.space tag.1
  "id=" ++ encStr o.id ++ " key=" ++ encStr o.key ++ " tgt=" ++ encStr o.target ++ " ty=" ++ encStr o.ttype ++
  " tv=" ++ encStr o.tver ++ " txi=" ++ toString o.txIndex ++ " idx=" ++ toString o.index ++
  " ver=" ++ ordinal p tag.2 o.version ++ " rev=" ++ toString o.revision ++ " pl=" ++ toString o.payload ++
  " vals=" ++ encVals o.vals ++ " avals=" ++ encVals o.avals

def valsSet (vs : Option Vals) (p : Key) (i : Nat) : Option Vals := some (alSet (vs.getD []) p i)

/-- one `field=value` edit of a client's local record. -/
def editObj (kind : Kind) (o : Obj) (tok : String) : Option Obj :=
  match tok.splitOn "=" with
  | ["ver0"] => some { o with version := 0 }
  | ["verfar"] => some { o with version := o.version + 1000000 }
  | ["rev0"] => some { o with revision := 0 }
  | ["novals"] => some { o with vals := none }
  | ["noavals"] => some { o with avals := none }
  | ["emptyvals"] => some { o with vals := some [] }
  | ["emptyavals"] => some { o with avals := some [] }
  | ["id", h] => do pure { o with id := (← decStr h) }
  | ["key", h] => do pure { o with key := (← decStr h) }
  | ["tgt", h] => do pure { o with target := (← decStr h) }
  | ["ty", h] => do pure { o with ttype := (← decStr h) }
  | ["tv", h] => do pure { o with tver := (← decStr h) }
  | ["txi", n] => do pure { o with txIndex := (← decNat n) }
  | ["idx", n] => do
    let i ← decNat n
    -- only the transaction records have an index field
    pure (if kind == .tx2 || kind == .tx3 then { o with index := i } else o)
  | ["rev", n] => do pure { o with revision := (← decNat n) }
  | ["pl", n] => do pure { o with payload := (← decNat n) }
  | ["val", pv] => match pv.splitOn ":" with
    | [p, i] => do pure { o with vals := valsSet o.vals (← decStr p) (← decNat i) }
    | _ => none
  | ["aval", pv] => match pv.splitOn ":" with
    | [p, i] => do pure { o with avals := valsSet o.avals (← decStr p) (← decNat i) }
    | _ => none
  | _ => none

def getClientT (st : WireState) (c : String) : Obj × (Key × Key) :=
  ((st.clients.find? (·.1 == c)).map (·.2)).getD ({}, ([], []))

def getClient (st : WireState) (c : String) : Obj := (getClientT st c).1

def setClient (st : WireState) (c : String) (o : Obj) (tag : Key × Key) : WireState :=
  { st with clients := (st.clients.filter (·.1 != c)) ++ [(c, (o, tag))] }

/-- the record a read result's version belongs to. -/
def readTag (kind : Kind) (o : Obj) : Key × Key :=
  (spaceOf kind o, if kind == .cfg3 || kind == .tx3 then o.key else o.id)

def lastArg (args : List String) : Key :=
  match args.findSome? (fun a => if a.startsWith "last=" then decStr (a.drop 5).toString else none) with
  | some k => k
  | none => []

/-- key under which the watch machinery sees a record: the entry key, for the v3 transaction store
    `<target>#<index>` (listeners are keyed by `TransactionID{Target, Index}`). -/
def eventKey (kind : Kind) (sp k : Key) (index : Nat) : Key :=
  match kind with
  | .tx3 => sp ++ '#' :: (toString index).toList
  | _ => k

def fuel : Nat := 100000

/-- feed one successful write to the watch machine and let the store's goroutines run. -/
def emit (st : WireState) (ek : Key) : WireState :=
  match Watch.step st.cfg st.wst (.write ek) with
  | some w => { st with wst := Watch.quiesce st.cfg fuel w }
  | none => st

def envStep (st : WireState) (s : Watch.Step) : WireState :=
  match Watch.step st.cfg st.wst s with
  | some w => { st with wst := Watch.quiesce st.cfg fuel w }
  | none => st

def widx (st : WireState) (w : String) : Option Nat := st.wnames.findIdx? (· == w)

/-- the watchers' view at quiescence: for a live watcher the last delivered version of every covered
    record that it must have seen (replay: every existing record; otherwise: written after it
    registered); a cancelled watcher is only named. -/
def encWatchers (st : WireState) : String :=
  let ws := st.wst.ws
  -- a consumer that stopped reading without cancelling may hold up the others: nothing is settled
  let unsettled := ws.any fun w => !w.reading && !w.cancelled
  let parts := (List.range ws.length).map fun i =>
    match ws[i]?, st.wnames[i]? with
    | some w, some n =>
      if w.cancelled then n ++ ":cancelled" else
      if unsettled then n ++ ":unsettled" else
      let keys := (Watch.keysOf st.wst.evs).filter fun k =>
        Watch.covers w k && (w.replay || (Watch.lastFor k (st.wst.evs.drop w.regAt)).isSome)
      let items := sortStrs (keys.map fun k =>
        encStr k ++ "=" ++ (match Watch.lastFor k w.delivered with | some v => toString v | none => "-"))
      n ++ ":{" ++ ",".intercalate items ++ "}"
    | _, _ => "?"
  " ".intercalate parts

def respond (st : WireState) (r : Res) (c : String) (okTag : Key × Key) (evk : Option Key) : WireState × String :=
  match r.err with
  | some e =>
    let tag := (getClientT st c).2
    let st := setClient { st with store := r.store } c r.obj tag
    (st, "err " ++ encErr e ++ " " ++ encObj r.store r.obj tag)
  | none =>
    let st := setClient { st with store := r.store } c r.obj okTag
    let st := match evk with
      | some k => emit st k
      | none => st
    (st, "ok " ++ encObj r.store r.obj okTag)

def handle (st : WireState) (op : String) (args : List String) : Option (WireState × String) :=
  if op == "init" then
    match args with
    | [k] => do
      let kind ← decKind k
      pure ({ store := Store.init kind, cfg := Watch.codeCfg kind, started := true }, "ok")
    | _ => none
  else if op == "reset" then some ({}, "ok")
  else if !st.started then none
  else if st.wst.crashed then some (st, "crashed")
  else
  let kind := st.store.kind
  match op, args with
  | "new", c :: edits => do
    let o ← edits.foldlM (editObj kind) ({} : Obj)
    let st := setClient st c o ([], [])
    pure (st, "ok " ++ encObj st.store o ([], []))
  | "set", c :: edits => do
    let (o0, tag) := getClientT st c
    let o ← edits.foldlM (editObj kind) o0
    let st := setClient st c o tag
    pure (st, "ok " ++ encObj st.store o tag)
  | "copy", [c1, c2] =>
    let (o, tag) := getClientT st c1
    let st := setClient st c2 o tag
    some (st, "ok " ++ encObj st.store o tag)
  | "create", c :: rest =>
    let r := create st.store (getClient st c) (lastArg rest)
    some (respond st r c (spaceOf kind r.obj, createKey kind r.obj)
      (some (eventKey kind (spaceOf kind r.obj) (createKey kind r.obj) r.obj.index)))
  | "update", c :: rest =>
    let r := write st.store .update (getClient st c) (lastArg rest)
    some (respond st r c (spaceOf kind r.obj, updateKey kind r.obj)
      (some (eventKey kind (spaceOf kind r.obj) (updateKey kind r.obj) r.obj.index)))
  | "updatestatus", c :: rest =>
    let r := write st.store .updateStatus (getClient st c) (lastArg rest)
    some (respond st r c (spaceOf kind r.obj, updateKey kind r.obj)
      (some (eventKey kind (spaceOf kind r.obj) (updateKey kind r.obj) r.obj.index)))
  | "get", [c] =>
    let r := step st.store (.get (getClient st c))
    some (respond st r c (readTag kind r.obj) none)
  | "getalt", [c] =>
    if kind == .tx2 || kind == .tx3 then
      let r := step st.store (.getAlt (getClient st c))
      some (respond st r c (readTag kind r.obj) none)
    else none
  | "list", rest =>
    let first := match rest.findSome? (fun a => if a.startsWith "first=" then decStr (a.drop 6).toString else none) with
      | some k => k
      | none => []
    let objs := list st.store first
    some (st, "ok " ++ ";".intercalate (sortStrs (objs.map fun o => encObj st.store o (readTag kind o))))
  | "listset", [] =>
    -- v3 transaction store: the set of possible answers of List over the iteration orders of the target map
    let firsts := if kind == .tx3 then st.store.spaces.map (·.1) else [[]]
    let answers := firsts.map fun f => ";".intercalate (sortStrs ((list st.store f).map fun o => encObj st.store o (readTag kind o)))
    some (st, "oneof " ++ "|".intercalate (sortStrs answers.eraseDups))
  | "watch", [w, replay, key] => do
    let k ← if key == "*" then some none else (decStr key).map some
    let st := { st with wnames := st.wnames ++ [w] }
    pure (envStep st (.watch k (replay == "1")), "ok")
  | "watch", [w, replay, key, "paused"] => do
    -- a slow consumer: it does not start reading until `unpause` (Watch has returned, the replay is not drained)
    let k ← if key == "*" then some none else (decStr key).map some
    let st := { st with wnames := st.wnames ++ [w] }
    let i := st.wst.ws.length
    match Watch.step st.cfg st.wst (.watch k (replay == "1")) with
    | some w1 => pure (envStep { st with wst := w1 } (.stopReading i), "ok")
    | none => none
  | "unpause", [w] => do
    let i ← widx st w
    pure (envStep st (.resumeReading i), "ok")
  | "stop", [w] => do
    let i ← widx st w
    pure (envStep st (.stopReading i), "ok")
  | "cancel", [w] => do
    let i ← widx st w
    let st := envStep st (.cancel i)
    pure (st, if st.wst.crashed then "panic close-of-closed-channel" else "ok")
  | "drain", [] => some (st, "ok " ++ encWatchers st)
  | _, _ => none

def handleIO (op : String) (args : List String) : IO (Option String) := do
  let st ← wireRef.get
  match handle st op args with
  | some (st', ans) => wireRef.set st'; pure (some ans)
  | none => pure none

end OnosVerif.Store
