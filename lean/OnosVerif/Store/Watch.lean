/-
Twin of the watch machinery of the stores with a shared dispatcher
  pkg/store/v2/transaction/store.go, pkg/store/v2/configuration/configuration.go,
  pkg/store/v3/transaction/store.go, pkg/store/v3/configuration/store.go   (`open`/`watch` + `Watch`)
as a small-step machine over "who is blocked on whom":

* the primitive's event stream `evs` (one `(key, version)` per successful write, in order);
* the dispatcher goroutine: takes the next event, snapshots the registered listeners that cover its
  key (under the read lock), then sends to each of them in turn on their UNBUFFERED internal channel —
  it can hand the event over only to a per-watch goroutine that is receiving (`loop`) or to the drain
  goroutine of one that left through a `ctx.Done()` branch (`drained`);
* one goroutine per `Watch` call: registered (synchronously, inside `Watch`) → reads the replay
  snapshot → sends the replayed events to the consumer → forward loop
  (`select { e := <-eventCh: select { ch <- e | <-ctx.Done() } | <-ctx.Done() }`); every send to the
  consumer is a rendezvous with a consumer that is reading;
* the ways out of that goroutine: through a `ctx.Done()` branch (`close(ch)`, start
  `go func(){ for range eventCh {} }()`, return → deregistered, drained forever) or — during replay —
  through `if ctx.Err() != nil { close(ch); return }` / a failed `List(ctx)`, which return WITHOUT
  the drain goroutine (`gone`: deregistered, nobody will ever receive from its internal channel);
* consumers that read, stop reading, cancel.

The structure of the per-watch goroutine is a parameter (`Cfg`) computed from the translator's facts
for each store, so the same machine describes the code before the fix 0003cc9 (sends outside the
select), the code as it is, and the v3 transaction store's `defer close(ch)` + explicit `close(ch)`.

Core-only: linked into the `oracle` driver.
-/
import OnosVerif.Store.Model

namespace OnosVerif.Store.Watch
open OnosVerif.Store

/-- an event: record key and the version the write produced. -/
abbrev Ev := Key × Nat

structure Cfg where
  /-- every `ch <- e` of the per-watch goroutine is inside a `select` with `<-ctx.Done()` -/
  guardedSends : Bool
  /-- the per-watch goroutine has return paths inside the replay (`if ctx.Err() != nil { … return }`) -/
  hasEarlyExit : Bool
  /-- every return path of the per-watch goroutine starts the drain of its internal channel -/
  earlyExitsDrain : Bool
  /-- `defer close(ch)` and an explicit `close(ch)` before the returns of the ctx.Done branches -/
  doubleClose : Bool
  /-- the listener is registered before the replay snapshot is read -/
  registerFirst : Bool
  /-- `Watch` opens its own event stream on the primitive (v2 proposal store): there is no shared
      dispatcher goroutine, every watcher has a private, unbounded queue -/
  ownStream : Bool
deriving DecidableEq, Repr

open OnosVerif.Generated.StoreFacts in
/-- the structure of `Watch` in each store, from the current sources. -/
def codeCfg : Kind → Cfg
  | .tx2 =>
    { guardedSends := (v2TxWatchGuardedSends == v2TxWatchSends)
      hasEarlyExit := (v2TxWatchReturns != 0)
      earlyExitsDrain := (v2TxWatchUndrainedReturns == 0)
      doubleClose := (v2TxWatchDeferClose && v2TxWatchExplicitCloseReturns != 0)
      registerFirst := (v2TxWatchRegisterBeforeReplay && v2TxWatchRegistersBeforeReturn)
      ownStream := v2TxWatchOwnStream }
  | .cfg2 =>
    { guardedSends := (v2CfgWatchGuardedSends == v2CfgWatchSends)
      hasEarlyExit := (v2CfgWatchReturns != 0)
      earlyExitsDrain := (v2CfgWatchUndrainedReturns == 0)
      doubleClose := (v2CfgWatchDeferClose && v2CfgWatchExplicitCloseReturns != 0)
      registerFirst := (v2CfgWatchRegisterBeforeReplay && v2CfgWatchRegistersBeforeReturn)
      ownStream := v2CfgWatchOwnStream }
  | .tx3 =>
    { guardedSends := (v3TxWatchGuardedSends == v3TxWatchSends)
      hasEarlyExit := (v3TxWatchReturns != 0)
      earlyExitsDrain := (v3TxWatchUndrainedReturns == 0)
      doubleClose := (v3TxWatchDeferClose && v3TxWatchExplicitCloseReturns != 0)
      registerFirst := (v3TxWatchRegisterBeforeReplay && v3TxWatchRegistersBeforeReturn)
      ownStream := v3TxWatchOwnStream }
  | .cfg3 =>
    { guardedSends := (v3CfgWatchGuardedSends == v3CfgWatchSends)
      hasEarlyExit := (v3CfgWatchReturns != 0)
      earlyExitsDrain := (v3CfgWatchUndrainedReturns == 0)
      doubleClose := (v3CfgWatchDeferClose && v3CfgWatchExplicitCloseReturns != 0)
      registerFirst := (v3CfgWatchRegisterBeforeReplay && v3CfgWatchRegistersBeforeReturn)
      ownStream := v3CfgWatchOwnStream }
  | .prop2 =>
    { guardedSends := (v2PropWatchGuardedSends == v2PropWatchSends)
      hasEarlyExit := (v2PropWatchReturns != 0)
      earlyExitsDrain := (v2PropWatchUndrainedReturns == 0)
      doubleClose := (v2PropWatchDeferClose && v2PropWatchExplicitCloseReturns != 0)
      registerFirst := (v2PropWatchRegisterBeforeReplay && v2PropWatchRegistersBeforeReturn)
      ownStream := v2PropWatchOwnStream }

/-- the per-watch goroutine as it was before commit 0003cc9 (bare `ch <- event`). -/
def preFixCfg : Cfg :=
  { guardedSends := false, hasEarlyExit := true, earlyExitsDrain := false, doubleClose := false, registerFirst := true, ownStream := false }

/-- the intended design: guarded sends, every exit drains, one close. -/
def idealCfg : Cfg :=
  { guardedSends := true, hasEarlyExit := true, earlyExitsDrain := true, doubleClose := false, registerFirst := true, ownStream := false }

inductive Phase
  | replayRead
  | replaying (pend : List Ev)
  | loop
  | forwarding (e : Ev)
  | drained
  | gone
deriving DecidableEq, Repr

structure Watcher where
  key : Option Key
  replay : Bool
  phase : Phase
  registered : Bool
  cancelled : Bool := false
  reading : Bool := true
  delivered : List Ev := []
  /-- own-stream stores only: events the primitive has streamed to this watcher and it has not taken yet -/
  queue : List Ev := []
  /-- ghost: number of events emitted when `Watch` was called -/
  regAt : Nat := 0
deriving DecidableEq, Repr

inductive Disp
  | idle
  | sending (e : Ev) (rest : List Nat)
deriving DecidableEq, Repr

structure St where
  evs : List Ev := []
  dpos : Nat := 0
  disp : Disp := .idle
  ws : List Watcher := []
  crashed : Bool := false
deriving DecidableEq, Repr

/-- last version of `k` in a list of events. -/
def lastFor (k : Key) : List Ev → Option Nat
  | [] => none
  | (k', v) :: rest =>
    match lastFor k rest with
    | some x => some x
    | none => if k' = k then some v else none

/-- the store's current version of a record, 0 when it was never written. -/
def cur (evs : List Ev) (k : Key) : Nat := (lastFor k evs).getD 0

def covers (w : Watcher) (k : Key) : Bool :=
  match w.key with
  | none => true
  | some k' => k' == k

/-- keys in order of first appearance. -/
def keysOf : List Ev → List Key
  | [] => []
  | (k, _) :: rest => k :: (keysOf rest).filter (fun k' => k' ≠ k)

/-- what the replay read returns: the current state of every covered record. -/
def snapshot (w : Watcher) (evs : List Ev) : List Ev :=
  ((keysOf evs).filter (covers w)).map (fun k => (k, cur evs k))

def Phase.active : Phase → Bool
  | .drained | .gone => false
  | _ => true

/-- indices of the listeners the dispatcher copies under the read lock for an event on `k`. -/
def listeners (ws : List Watcher) (k : Key) : List Nat :=
  (List.range ws.length).filter (fun i =>
    match ws[i]? with
    | some w => w.registered && covers w k
    | none => false)

def Disp.next (e : Ev) : List Nat → Disp
  | [] => .idle
  | rest => .sending e rest

inductive Step
  | write (k : Key)
  | watch (key : Option Key) (replay : Bool)
  | stopReading (i : Nat)
  | resumeReading (i : Nat)
  | cancel (i : Nat)
  | pick
  | send
  | pull (i : Nat)
  | replayRead (i : Nat)
  | deliver (i : Nat)
  | exit (i : Nat)
  | exitEarly (i : Nat)
deriving DecidableEq, Repr

/-- environment steps (clients); all others are steps of the store's own goroutines. -/
def Step.isEnv : Step → Bool
  | .write _ | .watch _ _ | .stopReading _ | .resumeReading _ | .cancel _ => true
  | _ => false

def setW (s : St) (i : Nat) (w : Watcher) : St := { s with ws := s.ws.set i w }

def Phase.isReplaying : Phase → Bool
  | .replaying _ => true
  | _ => false

def Phase.isForwarding : Phase → Bool
  | .forwarding _ => true
  | _ => false

/-- a store write of record `k`: the primitive emits `(k, version+1)`. -/
def stepWrite (s : St) (k : Key) : St := { s with evs := s.evs ++ [(k, cur s.evs k + 1)] }

/-- `Watch(ctx, ch, opts…)` returns after registering the listener (when the code registers first). -/
def newWatcher (cfg : Cfg) (evs : List Ev) (key : Option Key) (replay : Bool) : Watcher :=
  { key := key, replay := replay, phase := if replay then .replayRead else .loop,
    registered := cfg.registerFirst || !replay, regAt := evs.length }

def stepWatch (cfg : Cfg) (s : St) (key : Option Key) (replay : Bool) : St :=
  { s with ws := s.ws ++ [newWatcher cfg s.evs key replay] }

/-- own-stream stores: the primitive appends the event to the stream of every listener that covers it. -/
def enq1 (e : Ev) (w : Watcher) : Watcher :=
  if w.registered && covers w e.1 then { w with queue := w.queue ++ [e] } else w

def enqueue (ws : List Watcher) (e : Ev) : List Watcher := ws.map (enq1 e)

/-- the dispatcher takes the next event and copies the listeners that cover it
    (own-stream stores: the event goes to every listener's private stream; nothing can block). -/
def stepPick (cfg : Cfg) (s : St) : Option St :=
  match s.disp with
  | .sending _ _ => none
  | .idle =>
    match s.evs[s.dpos]? with
    | none => none
    | some e =>
      if cfg.ownStream then some { s with dpos := s.dpos + 1, ws := enqueue s.ws e }
      else some { s with dpos := s.dpos + 1, disp := Disp.next e (listeners s.ws e.1) }

/-- own-stream stores: the per-watch goroutine takes the next event of its stream (`events.Next()`). -/
def stepPull (s : St) (i : Nat) : Option St :=
  match s.ws[i]? with
  | none => none
  | some w =>
    match w.phase, w.queue with
    | .loop, e :: rest => some (setW s i { w with phase := .forwarding e, queue := rest })
    | _, _ => none

/-- `ch <- event` of the dispatcher on the internal channel of the first listener of its copy:
    a rendezvous with the forward loop, or with the drain goroutine. -/
def stepSend (s : St) : Option St :=
  match s.disp with
  | .idle => none
  | .sending _ [] => some { s with disp := .idle }
  | .sending e (i :: rest) =>
    match s.ws[i]? with
    | none => none
    | some w =>
      match w.phase with
      | .loop => some { (setW s i { w with phase := .forwarding e }) with disp := Disp.next e rest }
      | .drained => some { s with disp := Disp.next e rest }
      | _ => none

/-- the per-watch goroutine reads the replay snapshot (`Get` / `List` of the primitive). -/
def stepReplayRead (s : St) (i : Nat) : Option St :=
  match s.ws[i]? with
  | none => none
  | some w =>
    if w.phase = .replayRead then
      let snap := snapshot w s.evs
      -- code that registers only after the replay (registerFirst = false) does so on entering the forward loop
      some (setW s i { w with phase := if snap.isEmpty then .loop else .replaying snap,
                              registered := w.registered || snap.isEmpty })
    else none

/-- a send to the consumer completes (the consumer is receiving). -/
def stepDeliver (s : St) (i : Nat) : Option St :=
  match s.ws[i]? with
  | none => none
  | some w =>
    if w.reading then
      match w.phase with
      | .replaying [] => some (setW s i { w with phase := .loop, registered := true })
      | .replaying (e :: rest) =>
        some (setW s i { w with delivered := w.delivered ++ [e], phase := if rest.isEmpty then .loop else .replaying rest,
                                registered := w.registered || rest.isEmpty })
      | .forwarding e => some (setW s i { w with delivered := w.delivered ++ [e], phase := .loop })
      | _ => none
    else none

/-- the per-watch goroutine takes a `<-ctx.Done()` branch: from the forward loop always, from a
    pending send to the consumer only when that send is inside a select (`guardedSends`). -/
def stepExit (cfg : Cfg) (s : St) (i : Nat) : Option St :=
  match s.ws[i]? with
  | none => none
  | some w =>
    if w.cancelled && (w.phase == .loop || (cfg.guardedSends && (w.phase.isForwarding || w.phase.isReplaying))) then
      if cfg.doubleClose then some { s with crashed := true }
      else some (setW s i { w with phase := .drained, registered := false })
    else none

/-- during replay: `if ctx.Err() != nil { close(ch); return }` or a failed `List(ctx)`. -/
def stepExitEarly (cfg : Cfg) (s : St) (i : Nat) : Option St :=
  match s.ws[i]? with
  | none => none
  | some w =>
    if cfg.hasEarlyExit && w.cancelled && (w.phase == .replayRead || w.phase.isReplaying) then
      some (setW s i { w with phase := if cfg.earlyExitsDrain then .drained else .gone, registered := false })
    else none

def stepFlag (s : St) (i : Nat) (f : Watcher → Watcher) : Option St :=
  match s.ws[i]? with
  | none => none
  | some w => some (setW s i (f w))

/-- one step; `none` when the step is not enabled.  A crashed process takes no step. -/
def step (cfg : Cfg) (s : St) (st : Step) : Option St :=
  if s.crashed then none else
  match st with
  | .write k => some (stepWrite s k)
  | .watch key replay => some (stepWatch cfg s key replay)
  | .stopReading i => stepFlag s i (fun w => { w with reading := false })
  | .resumeReading i => stepFlag s i (fun w => { w with reading := true })
  | .cancel i => stepFlag s i (fun w => { w with cancelled := true })
  | .pick => stepPick cfg s
  | .pull i => stepPull s i
  | .send => stepSend s
  | .replayRead i => stepReplayRead s i
  | .deliver i => stepDeliver s i
  | .exit i => stepExit cfg s i
  | .exitEarly i => stepExitEarly cfg s i

/-- a run: every step must be enabled. -/
def run (cfg : Cfg) (s : St) : List Step → Option St
  | [] => some s
  | st :: rest => (step cfg s st).bind (fun s' => run cfg s' rest)

def Reachable (cfg : Cfg) (s : St) : Prop := ∃ steps, run cfg {} steps = some s

/-- the steps of the store's own goroutines that could be taken now. -/
def internalSteps (s : St) : List Step :=
  (List.range s.ws.length).flatMap (fun i => [.deliver i, .replayRead i, .pull i]) ++ [.send, .pick] ++
  (List.range s.ws.length).flatMap (fun i => [.exit i, .exitEarly i])

def enabled (cfg : Cfg) (s : St) : List Step := (internalSteps s).filter (fun st => (step cfg s st).isSome)

/-- canonical scheduler used by the driver: the first enabled internal step, until none is left. -/
def quiesce (cfg : Cfg) : Nat → St → St
  | 0, s => s
  | fuel + 1, s =>
    match enabled cfg s with
    | [] => s
    | st :: _ => match step cfg s st with
      | some s' => quiesce cfg fuel s'
      | none => s

/-- everything emitted has been dispatched and handed over. -/
def St.dispatched (s : St) : Bool := s.disp == .idle && s.dpos == s.evs.length

/-- the dispatcher is waiting for a per-watch goroutine that will never receive. -/
def St.dispatcherDead (s : St) : Bool :=
  match s.disp with
  | .sending _ (i :: _) =>
    match s.ws[i]? with
    | some w => w.phase == .gone
    | none => false
  | _ => false

end OnosVerif.Store.Watch
